(* C03 at algorithm level: the byte walk of conv/t2j (model/T2JBytes.v) refines the spec json_of of model/T2J.v.
   [walk_refines]: for every well-formed value v that conforms to the descriptor d (unknown fields allowed), the walk over
   encode v ++ r yields exactly the canonical text of the spec tree and the rest r; it fails exactly when the spec has no text
   (error of the denotation, or a NaN / Inf double somewhere in the tree). *)
From Coq Require Import ZArith List Bool Lia.
From DG Require Import ProtoWireRef ProtoWireRefProofs ThriftWire ThriftWireProofs ThriftGenericProofs
                       Json Num Base64 T2J T2JUnset JsonProofs NumProofs Base64Proofs T2JProofs T2JUnsetProofs T2JBytes.
Import ListNotations.
Local Open Scope Z_scope.

(* ------------------------------------------------------------------ text that needs no escaping *)
Definition plain (c : Z) : bool := (32 <=? c) && negb (c =? 34) && negb (c =? 92).

Lemma esc_byte_plain c : plain c = true -> esc_byte c = [c].
Proof.
  unfold plain. rewrite !andb_true_iff, !negb_true_iff, Z.leb_le, !Z.eqb_neq. intros [[H32 H34] H92].
  unfold esc_byte.
  destruct (Z.eqb_spec c 34); [contradiction|]. destruct (Z.eqb_spec c 92); [contradiction|].
  destruct (Z.eqb_spec c 10); [lia|]. destruct (Z.eqb_spec c 13); [lia|]. destruct (Z.eqb_spec c 9); [lia|].
  destruct (Z.ltb_spec c 32); [lia|]. reflexivity.
Qed.

Lemma escape_plain s : forallb plain s = true -> escape s = s.
Proof.
  unfold escape. induction s as [|c s IH]; intros H; [reflexivity|].
  cbn [forallb] in H. apply andb_true_iff in H. destruct H as [Hc Hs].
  cbn [flat_map]. rewrite (esc_byte_plain c Hc), (IH Hs). reflexivity.
Qed.

Lemma quote_plain s : forallb plain s = true -> quote_ref s = 34 :: s ++ [34].
Proof. intros H. unfold quote_ref. rewrite (escape_plain s H). reflexivity. Qed.

Lemma forallb_impl {A} (f g : A -> bool) l : (forall x, f x = true -> g x = true) -> forallb f l = true -> forallb g l = true.
Proof. intros Hi H. rewrite forallb_forall in *. intros x Hx. apply Hi, H, Hx. Qed.

Lemma digit_plain c : is_digit c = true -> plain c = true.
Proof.
  intros H. apply is_digit_range in H. unfold plain.
  destruct (Z.leb_spec 32 c); [|lia]. destruct (Z.eqb_spec c 34); [lia|]. destruct (Z.eqb_spec c 92); [lia|]. reflexivity.
Qed.

Lemma fmt_nat_plain n : 0 <= n -> forallb plain (fmt_nat n) = true.
Proof. intros Hn. destruct (fmt_nat_spec n Hn) as (Hd & _). exact (forallb_impl _ _ _ digit_plain Hd). Qed.

Lemma fmt_int_all_plain z : forallb plain (fmt_int z) = true.
Proof.
  unfold fmt_int. destruct (Z.ltb_spec z 0).
  - cbn [forallb]. change (plain 45) with true. cbn [andb]. apply fmt_nat_plain. lia.
  - apply fmt_nat_plain. assumption.
Qed.

Lemma quote_fmt_int z : quote_ref (fmt_int z) = 34 :: fmt_int z ++ [34].
Proof. apply quote_plain, fmt_int_all_plain. Qed.

Lemma b64_char_plain n : 0 <= n < 64 -> plain (b64_char n) = true.
Proof. intros Hn. apply (Z_range_forallb (fun n => plain (b64_char n)) 64); [vm_compute; reflexivity | exact Hn]. Qed.

Lemma b64_encode_plain : forall bs, Forall byte bs -> forallb plain (b64_encode bs) = true.
Proof.
  induction bs as [| a | a b | a b c r IH] using list_ind3; intros Hb.
  - reflexivity.
  - inversion Hb as [|? ? Ha _]; subst. cbn [b64_encode forallb].
    rewrite (b64_char_plain _ (idx0 a Ha)), (b64_char_plain _ (idx1' a Ha)). reflexivity.
  - inversion Hb as [|? ? Ha Hb']; subst. inversion Hb' as [|? ? Hbb _]; subst. cbn [b64_encode forallb].
    rewrite (b64_char_plain _ (idx0 a Ha)), (b64_char_plain _ (idx1 a b Ha Hbb)), (b64_char_plain _ (idx2' b Hbb)). reflexivity.
  - inversion Hb as [|? ? Ha Hb']; subst. inversion Hb' as [|? ? Hbb Hb'']; subst. inversion Hb'' as [|? ? Hc Hr]; subst.
    cbn [b64_encode forallb].
    rewrite (b64_char_plain _ (idx0 a Ha)), (b64_char_plain _ (idx1 a b Ha Hbb)), (b64_char_plain _ (idx2 b c Hbb Hc)), (b64_char_plain _ (idx3 c Hc)).
    exact (IH Hr).
Qed.

(* ------------------------------------------------------------------ reads over an encoding *)
Lemma rd_int_enc n z r : (0 < n)%nat -> - 2 ^ (8 * Z.of_nat n - 1) <= z < 2 ^ (8 * Z.of_nat n - 1) ->
  rd_int n (enc_int n z ++ r) = Some (z, r).
Proof. intros Hn Hz. unfold rd_int. rewrite take_enc_int, dec_int_enc_int by assumption. reflexivity. Qed.

Lemma rd_int_sb n k z r : (0 < n)%nat -> k = 8 * Z.of_nat n -> in_sb k z = true -> rd_int n (enc_int n z ++ r) = Some (z, r).
Proof. intros Hn -> H. apply rd_int_enc; [exact Hn|]. apply in_sb_true. exact H. Qed.

Lemma firstn_skipn_app {A} (s r : list A) : firstn (length s) (s ++ r) = s /\ skipn (length s) (s ++ r) = r.
Proof.
  split.
  - rewrite firstn_app, firstn_all, Nat.sub_diag. cbn. apply app_nil_r.
  - rewrite skipn_app, skipn_all, Nat.sub_diag. reflexivity.
Qed.

Lemma rd_bytes_enc s r : zlen s < 2 ^ 31 -> rd_bytes (enc_int 4 (zlen s) ++ s ++ r) = Some (s, r).
Proof.
  intros Hl. unfold rd_bytes, rd_int. rewrite take_enc_int.
  assert (0 <= zlen s) by (unfold zlen; lia). rewrite dec_int_count by lia.
  destruct (Z.ltb_spec (zlen s) 0); [lia|].
  destruct (Z.gtb_spec (zlen s) (zlen (s ++ r))); [unfold zlen in *; rewrite app_length in *; lia|].
  cbn [orb]. rewrite to_nat_zlen. destruct (firstn_skipn_app s r) as [-> ->]. reflexivity.
Qed.

(* ------------------------------------------------------------------ the result the spec prescribes *)
Definition walk_spec (fd : Z -> list Z) (t : tres) (r : list Z) : option (list Z * list Z) :=
  match spec_text_p fd t with Some x => Some (x, r) | None => None end.

(* ------------------------------------------------------------------ leaves *)
Section Leaves.
  Variable fd : Z -> list Z.
  Variable o : Z.

  Lemma ws_bool bs : walk_scalar fd o T_BOOL bs =
    match bs with b :: r => Some (if b =? 1 then lit_true else lit_false, r) | [] => None end.
  Proof. reflexivity. Qed.
  Lemma ws_byte bs : walk_scalar fd o T_BYTE bs =
    match rd_int 1 bs with Some (z, r) => Some (fmt_int (byte_image o z), r) | None => None end.
  Proof. reflexivity. Qed.
  Lemma ws_i16 bs : walk_scalar fd o T_I16 bs = match rd_int 2 bs with Some (z, r) => Some (fmt_int z, r) | None => None end.
  Proof. reflexivity. Qed.
  Lemma ws_i32 bs : walk_scalar fd o T_I32 bs = match rd_int 4 bs with Some (z, r) => Some (fmt_int z, r) | None => None end.
  Proof. reflexivity. Qed.
  Lemma ws_i64 bs : walk_scalar fd o T_I64 bs =
    match rd_int 8 bs with
    | Some (z, r) => Some (if o_int642string o then 34 :: fmt_int z ++ [34] else fmt_int z, r)
    | None => None
    end.
  Proof. reflexivity. Qed.
  Lemma ws_double bs : walk_scalar fd o T_DOUBLE bs =
    match rd_uint 8 bs with
    | Some (b, r) => if f64_is_finite b then Some (fd b, r) else None
    | None => None
    end.
  Proof. reflexivity. Qed.

  Lemma walk_scalar_ok v t r : wf v = true -> is_num_scalar t && (type_of v =? t) = true ->
    walk_scalar fd o t (encode v ++ r) = walk_spec fd (json_ofw o (DScalar t) v) r.
  Proof.
    intros Hw Ht. apply andb_true_iff in Ht. destruct Ht as [Hn Ht]. apply Z.eqb_eq in Ht. subst t.
    destruct v; cbn [type_of] in *; try discriminate Hn; cbn [encode wf] in Hw |- *;
      unfold walk_spec, spec_text_p; cbn [json_ofw jexp_finite jexp_print].
    - rewrite ws_bool. cbn [app]. destruct (raw =? 1); reflexivity.
    - rewrite ws_byte. rewrite (rd_int_sb 1 8) by (try lia; try reflexivity; exact Hw). reflexivity.
    - rewrite ws_i16. rewrite (rd_int_sb 2 16) by (try lia; try reflexivity; exact Hw). reflexivity.
    - rewrite ws_i32. rewrite (rd_int_sb 4 32) by (try lia; try reflexivity; exact Hw). reflexivity.
    - rewrite ws_i64. rewrite (rd_int_sb 8 64) by (try lia; try reflexivity; exact Hw).
      destruct (o_int642string o); cbn [jexp_finite jexp_print]; reflexivity.
    - rewrite ws_double. unfold rd_uint. rewrite take_enc_int, dec_uint_enc_int.
      apply andb_true_iff in Hw. destruct Hw as [H0 H1]. apply Z.leb_le in H0. apply Z.ltb_lt in H1.
      rewrite Z.mod_small by (change (256 ^ Z.of_nat 8) with (2 ^ 64); lia).
      destruct (f64_is_finite bits); reflexivity.
  Qed.

  Lemma walk_string_ok s b r : wf (VString s) = true ->
    walk_string o b (encode (VString s) ++ r) = walk_spec fd (json_ofw o (DString b) (VString s)) r.
  Proof.
    intros Hw. cbn [wf] in Hw. apply andb_true_iff in Hw. destruct Hw as [Hb Hl]. apply Z.ltb_lt in Hl.
    cbn [encode]. rewrite <- app_assoc. unfold walk_string. rewrite rd_bytes_enc by exact Hl.
    unfold walk_spec, spec_text_p. cbn [json_ofw].
    destruct b; cbn [andb jexp_finite jexp_print]; [|reflexivity].
    destruct (o_no_base64 o); cbn [negb jexp_finite jexp_print]; [reflexivity|].
    rewrite quote_plain; [reflexivity|]. apply b64_encode_plain. apply bytes_okb_Forall. exact Hb.
  Qed.

  (* buildinTypeToKey writes the key of the spec, quoted *)
  Lemma walk_key_ok k r : wf k = true ->
    walk_key_t o (type_of k) (encode k ++ r) = match key_of o k with Some s => Some (quote_ref s, r) | None => None end.
  Proof.
    intros Hw. destruct k; cbn [type_of key_of encode wf] in *; try reflexivity.
    - change (walk_key_t o T_BYTE (enc_int 1 z ++ r)) with
        (match rd_int 1 (enc_int 1 z ++ r) with Some (z, r) => Some (34 :: fmt_int (byte_image o z) ++ [34], r) | None => None end).
      rewrite (rd_int_sb 1 8) by (try lia; try reflexivity; exact Hw). rewrite quote_fmt_int. reflexivity.
    - change (walk_key_t o T_I16 (enc_int 2 z ++ r)) with
        (match rd_int 2 (enc_int 2 z ++ r) with Some (z, r) => Some (34 :: fmt_int z ++ [34], r) | None => None end).
      rewrite (rd_int_sb 2 16) by (try lia; try reflexivity; exact Hw). rewrite quote_fmt_int. reflexivity.
    - change (walk_key_t o T_I32 (enc_int 4 z ++ r)) with
        (match rd_int 4 (enc_int 4 z ++ r) with Some (z, r) => Some (34 :: fmt_int z ++ [34], r) | None => None end).
      rewrite (rd_int_sb 4 32) by (try lia; try reflexivity; exact Hw). rewrite quote_fmt_int. reflexivity.
    - change (walk_key_t o T_I64 (enc_int 8 z ++ r)) with
        (match rd_int 8 (enc_int 8 z ++ r) with Some (z, r) => Some (34 :: fmt_int z ++ [34], r) | None => None end).
      rewrite (rd_int_sb 8 64) by (try lia; try reflexivity; exact Hw). rewrite quote_fmt_int. reflexivity.
    - change (walk_key_t o T_STRING ((enc_int 4 (zlen s) ++ s) ++ r)) with
        (match rd_bytes ((enc_int 4 (zlen s) ++ s) ++ r) with Some (s, r) => Some (quote_ref s, r) | None => None end).
      apply andb_true_iff in Hw. destruct Hw as [_ Hl]. apply Z.ltb_lt in Hl.
      rewrite <- app_assoc. rewrite rd_bytes_enc by exact Hl. reflexivity.
  Qed.

  (* appendInt of value_mapping.go writes the spec's js_conv scalar *)
  Lemma walk_vm_scalar_ok v r : wf v = true ->
    walk_vm_scalar fd o (type_of v) (encode v ++ r) = walk_spec fd (jsconv_scalar o v) r.
  Proof.
    intros Hw.
    destruct v; cbn [type_of];
      try (change (walk_vm_scalar fd o ?t ?bs) with (walk_key_t o t bs));
      try (match goal with |- walk_key_t o ?t (encode ?k ++ r) = _ => let K := fresh in pose proof (walk_key_ok k r Hw) as K; cbn [type_of] in K; rewrite K end;
           unfold walk_spec, spec_text_p; cbn [key_of jsconv_scalar jexp_finite jexp_print]; rewrite ?quote_fmt_int; reflexivity).
    (* double *)
    change (walk_vm_scalar fd o T_DOUBLE (encode (VDouble bits) ++ r)) with
      (match rd_uint 8 (encode (VDouble bits) ++ r) with
       | Some (b, r) => if f64_is_finite b then Some (34 :: fd b ++ [34], r) else None
       | None => None
       end).
    cbn [encode wf] in *. unfold rd_uint. rewrite take_enc_int, dec_uint_enc_int.
    apply andb_true_iff in Hw. destruct Hw as [H0 H1]. apply Z.leb_le in H0. apply Z.ltb_lt in H1.
    rewrite Z.mod_small by (change (256 ^ Z.of_nat 8) with (2 ^ 64); lia).
    unfold walk_spec, spec_text_p. cbn [jsconv_scalar jexp_finite jexp_print].
    destruct (f64_is_finite bits); reflexivity.
  Qed.
End Leaves.

(* ------------------------------------------------------------------ the requires bitmap *)
(* the bitmap after the walk has met the fields [ids] (only known ids clear a bit) *)
Fixpoint bm_run (fs : list (fmeta * tdesc)) (ids : list Z) (bm : list Z) : list Z :=
  match ids with
  | [] => bm
  | id :: r => bm_run fs r (match find_field fs id with Some _ => bm_clear id bm | None => bm end)
  end.

Lemma bm_isset_clear id bm j : bm_isset (bm_clear id bm) j = bm_isset bm j && negb (j =? id).
Proof.
  unfold bm_isset, bm_clear. induction bm as [|a bm IH]; [reflexivity|].
  cbn [filter existsb]. destruct (Z.eqb_spec a id) as [->|Hne]; cbn [negb].
  - rewrite IH. destruct (Z.eqb_spec id j) as [->|Hj]; cbn [orb].
    + rewrite Z.eqb_refl. cbn [negb]. rewrite andb_false_r. reflexivity.
    + reflexivity.
  - cbn [existsb]. rewrite IH. destruct (Z.eqb_spec a j) as [->|Hj]; cbn [orb]; [|reflexivity].
    destruct (Z.eqb_spec j id); [contradiction|]. reflexivity.
Qed.

Lemma find_field_of_in fs f : In f fs -> find_field fs (f_id (fst f)) <> None.
Proof.
  induction fs as [|x fs IH]; intros Hin; [destruct Hin|].
  cbn [find_field]. destruct (Z.eqb_spec (f_id (fst x)) (f_id (fst f))); [discriminate|].
  destruct Hin as [->|Hin]; [contradiction|]. apply IH. exact Hin.
Qed.

Lemma find_field_id fs id f : find_field fs id = Some f -> f_id (fst f) = id.
Proof.
  induction fs as [|x fs IH]; intros H; [discriminate|].
  cbn [find_field] in H. destruct (Z.eqb_spec (f_id (fst x)) id); [inversion H; subst; reflexivity | apply IH; exact H].
Qed.

Lemma bm_isset_run fs j : find_field fs j <> None -> forall ids bm,
  bm_isset (bm_run fs ids bm) j = bm_isset bm j && negb (existsb (fun i => i =? j) ids).
Proof.
  intros Hj. induction ids as [|id ids IH]; intros bm; cbn [bm_run existsb]; [rewrite andb_true_r; reflexivity|].
  rewrite IH. destruct (find_field fs id) eqn:Ef.
  - rewrite bm_isset_clear. rewrite (Z.eqb_sym j id). rewrite negb_orb. rewrite andb_assoc. reflexivity.
  - destruct (Z.eqb_spec id j) as [->|Hne]; [contradiction|]. reflexivity.
Qed.

Lemma bm_isset_init fs f : In f fs -> f_req (fst f) = 1 -> bm_isset (bm_init fs) (f_id (fst f)) = true.
Proof.
  intros Hin Hr. unfold bm_isset, bm_init. apply existsb_exists. exists (f_id (fst f)). split; [|apply Z.eqb_refl].
  apply in_map_iff. exists f. split; [reflexivity|]. apply filter_In. split; [exact Hin|]. rewrite Hr. reflexivity.
Qed.

Lemma existsb_ext_in {A} (f g : A -> bool) l : (forall x, In x l -> f x = g x) -> existsb f l = existsb g l.
Proof.
  induction l as [|a l IH]; intros H; [reflexivity|]. cbn [existsb].
  rewrite (H a (or_introl eq_refl)), IH; [reflexivity|]. intros x Hx. apply H. right. exact Hx.
Qed.

(* at STOP: a required field's bit is still set iff the field was not met *)
Lemma bm_missing_run fs ids : bm_missing fs (bm_run fs ids (bm_init fs)) = missing_required fs ids.
Proof.
  unfold bm_missing, missing_required. apply existsb_ext_in. intros f Hin.
  destruct (Z.eqb_spec (f_req (fst f)) 1) as [Hr|]; [|reflexivity]. cbn [andb].
  rewrite (bm_isset_run fs _ (find_field_of_in fs f Hin)). rewrite (bm_isset_init fs f Hin Hr). reflexivity.
Qed.

(* ------------------------------------------------------------------ comma bookkeeping against the canonical printer *)
Definition mem_finite (ms : list (list Z * jexp)) : bool := forallb (fun m => jexp_finite (snd m)) ms.

(* what the printer writes after the opening brace / bracket: with the comma flag set, every item is preceded by a comma *)
Definition obj_mems (fd : Z -> list Z) (c : bool) (l : list (list Z * jexp)) : list Z :=
  if c then eprint_mems (jexp_print fd) l
  else match l with [] => [] | m :: l' => eprint_member (jexp_print fd) m ++ eprint_mems (jexp_print fd) l' end.
Definition obj_tail (fd : Z -> list Z) (c : bool) (l : list (list Z * jexp)) : list Z := obj_mems fd c l ++ [125].
Definition arr_tail (fd : Z -> list Z) (c : bool) (l : list jexp) : list Z :=
  if c then eprint_tail (jexp_print fd) l
  else match l with [] => [93] | x :: l' => jexp_print fd x ++ eprint_tail (jexp_print fd) l' end.

Lemma obj_tail_nil fd c : obj_tail fd c [] = [125].
Proof. destruct c; reflexivity. Qed.
Lemma arr_tail_nil fd c : arr_tail fd c [] = [93].
Proof. destruct c; reflexivity. Qed.

Lemma obj_mems_cons fd c k e l :
  sep c ++ quote_ref k ++ 58 :: jexp_print fd e ++ obj_mems fd true l = obj_mems fd c ((k, e) :: l).
Proof.
  destruct c; cbn [sep obj_mems eprint_mems app]; unfold eprint_member; cbn [fst snd]; rewrite <- app_assoc; reflexivity.
Qed.

Lemma obj_tail_cons fd c k e l :
  sep c ++ quote_ref k ++ 58 :: jexp_print fd e ++ obj_tail fd true l = obj_tail fd c ((k, e) :: l).
Proof.
  unfold obj_tail. rewrite <- obj_mems_cons. rewrite <- !app_assoc. cbn [app]. rewrite <- !app_assoc. reflexivity.
Qed.

Lemma arr_tail_cons fd c e l : sep c ++ jexp_print fd e ++ arr_tail fd true l = arr_tail fd c (e :: l).
Proof. destruct c; reflexivity. Qed.

Lemma print_obj fd l : jexp_print fd (EObj l) = 123 :: obj_tail fd false l.
Proof. destruct l; [reflexivity|]. cbn [jexp_print]. unfold obj_tail, obj_mems. rewrite <- app_assoc. reflexivity. Qed.
Lemma print_arr fd l : jexp_print fd (EArr l) = 91 :: arr_tail fd false l.
Proof. reflexivity. Qed.

Lemma valid_ttype_type_of v : valid_ttype (type_of v) = true.
Proof. destruct v; reflexivity. Qed.

Lemma valid_ttype_desc d : desc_wf d = true -> valid_ttype (desc_type d) = true.
Proof.
  destruct d as [t|b|fs|dk dv|s de]; cbn [desc_wf desc_type]; intros H; try reflexivity; [|destruct s; reflexivity].
  unfold is_num_scalar in H. repeat rewrite orb_true_iff in H. repeat rewrite Z.eqb_eq in H.
  repeat match goal with H : _ \/ _ |- _ => destruct H as [H|H] end; subst; reflexivity.
Qed.

(* ------------------------------------------------------------------ handleUnsets *)
(* the members written at STOP, read off the bitmap (fs in scan order) *)
Fixpoint unset_walk_bm (o : Z) (fs : list (fmeta * tdesc)) (bm : list Z) : list (list Z * jexp) + Z :=
  match fs with
  | [] => inl []
  | f :: r =>
    if negb (bm_isset bm (f_id (fst f))) then unset_walk_bm o r bm
    else if f_req (fst f) =? 1 then
      (if o_write_required o
       then match unset_walk_bm o r bm with inl us => inl ((f_key (fst f), zero_of (snd f)) :: us) | inr c => inr c end
       else inr E_REQUIRED)
    else if (f_req (fst f) =? 0) && o_write_default o then
      match unset_walk_bm o r bm with inl us => inl ((f_key (fst f), zero_of (snd f)) :: us) | inr c => inr c end
    else unset_walk_bm o r bm
  end.

Lemma zero_text_ok fd d : jexp_print fd (zero_of d) = zero_text fd d.
Proof.
  destruct d as [t|b|fs|dk dv|s de]; try reflexivity.
  cbn [zero_of zero_text]. destruct (t =? T_BOOL); [reflexivity|]. destruct (t =? T_DOUBLE); reflexivity.
Qed.

Lemma zero_finite d : jexp_finite (zero_of d) = true.
Proof.
  destruct d as [t|b|fs|dk dv|s de]; try reflexivity.
  cbn [zero_of]. destruct (t =? T_BOOL); [reflexivity|]. destruct (t =? T_DOUBLE); reflexivity.
Qed.

Lemma walk_unsets_c_ok fd o close : forall l bm c,
  walk_unsets_c fd o close l bm c =
  match unset_walk_bm o l bm with inr _ => None | inl us => Some (obj_mems fd c us ++ close) end.
Proof.
  induction l as [|f l IH]; intros bm c.
  - cbn [walk_unsets_c unset_walk_bm]. destruct c; reflexivity.
  - cbn [walk_unsets_c unset_walk_bm].
    assert (Emit : match walk_unsets_c fd o close l bm true with
                   | Some tl => Some (sep c ++ quote_ref (f_key (fst f)) ++ 58 :: zero_text fd (snd f) ++ tl)
                   | None => None
                   end =
                   match (match unset_walk_bm o l bm with inl us => inl ((f_key (fst f), zero_of (snd f)) :: us) | inr c0 => inr c0 end)
                   with inr _ => None | inl us => Some (obj_mems fd c us ++ close) end).
    { rewrite IH. destruct (unset_walk_bm o l bm) as [us|]; [|reflexivity].
      rewrite <- obj_mems_cons, zero_text_ok. rewrite <- !app_assoc. cbn [app]. rewrite <- !app_assoc. reflexivity. }
    destruct (negb (bm_isset bm (f_id (fst f)))); [apply IH|].
    destruct (f_req (fst f) =? 1).
    + destruct (o_write_required o); [exact Emit | reflexivity].
    + destruct ((f_req (fst f) =? 0) && o_write_default o); [exact Emit | apply IH].
Qed.

Lemma walk_unsets_is_c fd o : forall l bm c, walk_unsets fd o l bm c = walk_unsets_c fd o [125] l bm c.
Proof.
  induction l as [|f l IH]; intros bm c; [reflexivity|].
  cbn [walk_unsets walk_unsets_c]. rewrite !IH. reflexivity.
Qed.

Lemma walk_unsets_ok fd o : forall l bm c,
  walk_unsets fd o l bm c =
  match unset_walk_bm o l bm with inr _ => None | inl us => Some (obj_tail fd c us) end.
Proof. intros l bm c. rewrite walk_unsets_is_c, walk_unsets_c_ok. reflexivity. Qed.

Lemma unset_walk_finite o : forall l p us, unset_walk o l p = inl us -> mem_finite us = true.
Proof.
  induction l as [|f l IH]; intros p us H; cbn [unset_walk] in H.
  - inversion H. reflexivity.
  - assert (Emit : match unset_walk o l p with inl us0 => inl ((f_key (fst f), zero_of (snd f)) :: us0) | inr c => inr c end = inl us ->
                   mem_finite us = true).
    { intros H'. destruct (unset_walk o l p) as [us0|] eqn:E; [|discriminate]. inversion H'; subst.
      unfold mem_finite. cbn [forallb snd]. rewrite zero_finite. exact (IH p us0 E). }
    destruct (is_present p f); [exact (IH p us H)|].
    destruct (f_req (fst f) =? 1).
    + destruct (o_write_required o); [exact (Emit H) | discriminate].
    + destruct ((f_req (fst f) =? 0) && o_write_default o); [exact (Emit H) | exact (IH p us H)].
Qed.

Lemma bm_isset_init_any fs f : In f fs -> (f_req (fst f) =? 2) = false -> bm_isset (bm_init fs) (f_id (fst f)) = true.
Proof.
  intros Hin Hr. unfold bm_isset, bm_init. apply existsb_exists. exists (f_id (fst f)). split; [|apply Z.eqb_refl].
  apply in_map_iff. exists f. split; [reflexivity|]. apply filter_In. split; [exact Hin|]. rewrite Hr. reflexivity.
Qed.

(* the bitmap the walk holds at STOP says what the spec computes from the ids met *)
Lemma unset_walk_bm_eq o fs ids : forall l, (forall f, In f l -> In f fs) ->
  unset_walk_bm o l (bm_run fs ids (bm_init fs)) = unset_walk o l ids.
Proof.
  induction l as [|f l IH]; intros Hl; [reflexivity|].
  assert (Hin : In f fs) by (apply Hl; left; reflexivity).
  assert (IH' := IH (fun g Hg => Hl g (or_intror Hg))).
  cbn [unset_walk_bm unset_walk]. rewrite IH'.
  rewrite (bm_isset_run fs _ (find_field_of_in fs f Hin)). unfold is_present.
  destruct (existsb (fun id => id =? f_id (fst f)) ids); [rewrite andb_false_r; reflexivity|].
  rewrite andb_true_r.
  destruct (Z.eqb_spec (f_req (fst f)) 1) as [E1|N1].
  - rewrite (bm_isset_init_any fs f Hin) by (rewrite E1; reflexivity). reflexivity.
  - destruct (Z.eqb_spec (f_req (fst f)) 0) as [E0|N0].
    + rewrite (bm_isset_init_any fs f Hin) by (rewrite E0; reflexivity). reflexivity.
    + cbn [andb]. destruct (negb (bm_isset (bm_init fs) (f_id (fst f)))); reflexivity.
Qed.

Lemma In_insert_fld f g l : In g (insert_fld f l) -> g = f \/ In g l.
Proof.
  induction l as [|h l IH]; cbn [insert_fld]; intros H.
  - destruct H as [<-|[]]. left; reflexivity.
  - destruct (f_id (fst f) <=? f_id (fst h)).
    + destruct H as [<-|H]; [left; reflexivity | right; exact H].
    + destruct H as [<-|H]; [right; left; reflexivity|]. destruct (IH H) as [->|H']; [left; reflexivity | right; right; exact H'].
Qed.

Lemma In_sort_flds fs g : In g (sort_flds fs) -> In g fs.
Proof.
  unfold sort_flds. induction fs as [|f fs IH]; cbn [fold_right]; intros H; [exact H|].
  destruct (In_insert_fld _ _ _ H) as [->|H']; [left; reflexivity | right; exact (IH H')].
Qed.

(* ------------------------------------------------------------------ one lemma per loop *)
Section LoopLemmas.
  Variable fd : Z -> list Z.
  Variable o : Z.
  Variable rec : tdesc -> list Z -> option (list Z * list Z).
  Variable bx : fmeta -> bool.

  (* the value of one known field: api.js_conv under EnableValueMapping, else the denotation *)
  Definition fvalw (f : fmeta * tdesc) (x : tval) : tres :=
    if o_value_mapping o && f_jsconv (fst f) then jsconv o x else json_ofw o (snd f) x.

  (* the spec's step on one struct field (bx: extracted into the context, no member) *)
  Definition fstepw (fs : list (fmeta * tdesc)) (iv : Z * tval) : fres :=
    match find_field fs (fst iv) with
    | None => if o_disallow_unknown o then FErr E_UNKNOWN else FDrop
    | Some f =>
      if bx (fst f) then FDrop else
      match fvalw f (snd iv) with
      | TOk e => FMem (f_key (fst f)) e
      | TExc _ => FErr 0
      | TErr c => FErr c
      end
    end.

  Definition rec_ok (d : tdesc) (x : tval) : Prop :=
    forall r, rec d (encode x ++ r) = walk_spec fd (json_ofw o d x) r.

  Definition field_ok (fs : list (fmeta * tdesc)) (iv : Z * tval) : Prop :=
    in_sb 16 (fst iv) = true /\
    match find_field fs (fst iv) with
    | Some f =>
      if bx (fst f) then forall r, skip_go T_STRUCT (encode (snd iv) ++ r) = Some r
      else forall r, (if o_value_mapping o && f_jsconv (fst f) then walk_vm fd o (snd f) (encode (snd iv) ++ r)
                      else rec (snd f) (encode (snd iv) ++ r)) = walk_spec fd (fvalw f (snd iv)) r
    | None => forall r, skip_go (type_of (snd iv)) (encode (snd iv) ++ r) = Some r
    end.

  Lemma walk_fields_ok fs : forall vs fuel c bm r,
    Forall (field_ok fs) vs -> (length vs < fuel)%nat ->
    walk_fields fd o rec bx fuel fs c bm
      (flat_map (fun f => type_of (snd f) :: enc_int 2 (fst f) ++ encode (snd f)) vs ++ 0 :: r) =
    match members_of (map (fstepw fs) vs) with
    | inr _ => None
    | inl ms =>
      if mem_finite ms
      then match unset_walk_bm o (sort_flds fs) (bm_run fs (map fst vs) bm) with
           | inr _ => None
           | inl us => Some (obj_tail fd c (ms ++ us), r)
           end
      else None
    end.
  Proof.
    induction vs as [|[id x] vs IH]; intros fuel c bm r HF Hfuel; destruct fuel as [|fuel]; try (cbn in Hfuel; lia).
    - cbn [flat_map app walk_fields map members_of mem_finite forallb bm_run].
      change (negb (valid_ttype 0)) with false. change (0 =? 0) with true. cbn iota.
      rewrite walk_unsets_ok. destruct (unset_walk_bm o (sort_flds fs) bm); reflexivity.
    - inversion HF as [|? ? [Hid Hx] HF']; subst. cbn [fst snd] in *.
      cbn [flat_map walk_fields]. cbn [app fst snd].
      rewrite valid_ttype_type_of. cbn [negb].
      destruct (Z.eqb_spec (type_of x) 0) as [E0|_]; [exfalso; exact (valid_type_nonzero _ (type_of_valid x) E0)|].
      rewrite <- !app_assoc.
      rewrite (rd_int_sb 2 16) by (try lia; try reflexivity; exact Hid).
      cbn [map members_of fst bm_run]. unfold fstepw at 1. cbn [fst snd].
      destruct (find_field fs id) as [f|] eqn:Ef.
      + destruct (bx (fst f)).
        * rewrite Hx. apply IH; [exact HF'|cbn in Hfuel; lia].
        * rewrite Hx. unfold walk_spec, spec_text_p.
          destruct (fvalw f x) as [e|e|cc]; [|reflexivity|reflexivity].
          destruct (jexp_finite e) eqn:Efin.
          -- rewrite IH by (try exact HF'; cbn in Hfuel; lia).
             destruct (members_of (map (fstepw fs) vs)) as [ms|]; [|reflexivity].
             unfold mem_finite. cbn [forallb snd]. rewrite Efin. cbn [andb].
             fold (mem_finite ms). destruct (mem_finite ms); [|reflexivity].
             destruct (unset_walk_bm o (sort_flds fs) (bm_run fs (map fst vs) (bm_clear id bm))) as [us|]; [|reflexivity].
             cbn [app]. rewrite <- obj_tail_cons. reflexivity.
          -- destruct (members_of (map (fstepw fs) vs)) as [ms|]; [|reflexivity].
             unfold mem_finite. cbn [forallb snd]. rewrite Efin. reflexivity.
      + destruct (o_disallow_unknown o); [reflexivity|].
        rewrite Hx. apply IH; [exact HF'|cbn in Hfuel; lia].
  Qed.

  Lemma walk_elems_ok de : forall es c r,
    Forall (rec_ok de) es ->
    walk_elems rec (length es) de c (flat_map encode es ++ r) =
    match all_ok (map (json_ofw o de) es) with
    | inr _ => None
    | inl xs => if forallb jexp_finite xs then Some (arr_tail fd c xs, r) else None
    end.
  Proof.
    induction es as [|x es IH]; intros c r HF.
    - cbn [length walk_elems flat_map app map all_ok forallb]. rewrite arr_tail_nil. reflexivity.
    - inversion HF as [|? ? Hx HF']; subst.
      cbn [length walk_elems flat_map map all_ok]. rewrite <- app_assoc. rewrite Hx.
      unfold walk_spec, spec_text_p.
      destruct (json_ofw o de x) as [e|e|cc]; [|reflexivity|reflexivity].
      destruct (jexp_finite e) eqn:Efin.
      + rewrite IH by exact HF'.
        destruct (all_ok (map (json_ofw o de) es)) as [xs|]; [|reflexivity].
        cbn [forallb]. rewrite Efin. cbn [andb]. destruct (forallb jexp_finite xs); [|reflexivity].
        rewrite <- arr_tail_cons. reflexivity.
      + destruct (all_ok (map (json_ofw o de) es)) as [xs|]; [|reflexivity].
        cbn [forallb]. rewrite Efin. reflexivity.
  Qed.

  (* the element loop of apiJSConv.Read *)
  Lemma walk_vm_elems_ok et : forall es c r,
    Forall (fun x => type_of x = et /\ wf x = true) es ->
    walk_vm_elems fd o (length es) et c (flat_map encode es ++ r) =
    match all_ok (map (jsconv_scalar o) es) with
    | inr _ => None
    | inl xs => if forallb jexp_finite xs then Some (arr_tail fd c xs, r) else None
    end.
  Proof.
    induction es as [|x es IH]; intros c r HF.
    - cbn [length walk_vm_elems flat_map app map all_ok forallb]. rewrite arr_tail_nil. reflexivity.
    - inversion HF as [|? ? [Ht Hw] HF']; subst.
      cbn [length walk_vm_elems flat_map map all_ok]. rewrite <- app_assoc.
      rewrite (walk_vm_scalar_ok fd o x _ Hw).
      unfold walk_spec, spec_text_p.
      destruct (jsconv_scalar o x) as [e|e|cc]; [|reflexivity|reflexivity].
      destruct (jexp_finite e) eqn:Efin.
      + rewrite IH by exact HF'.
        destruct (all_ok (map (jsconv_scalar o) es)) as [xs|]; [|reflexivity].
        cbn [forallb]. rewrite Efin. cbn [andb]. destruct (forallb jexp_finite xs); [|reflexivity].
        rewrite <- arr_tail_cons. reflexivity.
      + destruct (all_ok (map (jsconv_scalar o) es)) as [xs|]; [|reflexivity].
        cbn [forallb]. rewrite Efin. reflexivity.
  Qed.

  Definition pair_ok (dk dv : tdesc) (e : tval * tval) : Prop :=
    (forall r, walk_key o dk (encode (fst e) ++ r) =
               match key_of o (fst e) with Some s => Some (quote_ref s, r) | None => None end) /\
    rec_ok dv (snd e).

  Lemma walk_pairs_ok dk dv : forall es c r,
    Forall (pair_ok dk dv) es ->
    walk_pairs o rec (length es) dk dv c (flat_map (fun e => encode (fst e) ++ encode (snd e)) es ++ r) =
    match keyed (map (fun e => key_of o (fst e)) es) (map (fun e => json_ofw o dv (snd e)) es) with
    | inr _ => None
    | inl ms => if mem_finite ms then Some (obj_tail fd c ms, r) else None
    end.
  Proof.
    induction es as [|[k x] es IH]; intros c r HF.
    - cbn [length walk_pairs flat_map app map keyed mem_finite forallb]. rewrite obj_tail_nil. reflexivity.
    - inversion HF as [|? ? [Hk Hx] HF']; subst. cbn [fst snd] in *.
      cbn [length walk_pairs flat_map map keyed fst snd]. rewrite <- !app_assoc. rewrite Hk.
      destruct (key_of o k) as [s|]; [|reflexivity].
      rewrite Hx. unfold walk_spec, spec_text_p.
      destruct (json_ofw o dv x) as [e|e|cc]; [|reflexivity|reflexivity].
      destruct (jexp_finite e) eqn:Efin.
      + rewrite IH by exact HF'.
        destruct (keyed (map (fun e0 => key_of o (fst e0)) es) (map (fun e0 => json_ofw o dv (snd e0)) es)) as [ms|]; [|reflexivity].
        unfold mem_finite. cbn [forallb snd]. rewrite Efin. cbn [andb].
        fold (mem_finite ms). destruct (mem_finite ms); [|reflexivity].
        rewrite <- obj_tail_cons. reflexivity.
      + destruct (keyed (map (fun e0 => key_of o (fst e0)) es) (map (fun e0 => json_ofw o dv (snd e0)) es)) as [ms|]; [|reflexivity].
        unfold mem_finite. cbn [forallb snd]. rewrite Efin. reflexivity.
  Qed.
End LoopLemmas.

(* ------------------------------------------------------------------ api.js_conv on one field *)
Lemma walk_vm_ok fd o v d r :
  wf v = true -> conforms v d = true -> desc_wf d = true ->
  walk_vm fd o d (encode v ++ r) = walk_spec fd (jsconv o v) r.
Proof.
  intros Hw Hc Hdw.
  assert (Scal : forall (t : nat), desc_type d = type_of v -> (match d with DList false _ => False | _ => True end) ->
                 (match v with VList _ _ => False | _ => True end) ->
                 walk_vm fd o d (encode v ++ r) = walk_spec fd (jsconv o v) r).
  { intros _ Ht Hd Hv. assert (E1 : walk_vm fd o d (encode v ++ r) = walk_vm_scalar fd o (desc_type d) (encode v ++ r)).
    { destruct d as [t|b|fs|dk dv|[|] de]; try reflexivity. destruct Hd. }
    rewrite E1, Ht. rewrite (walk_vm_scalar_ok fd o v r Hw). destruct v; try reflexivity. destruct Hv. }
  destruct v as [b|z|z|z|z|z|s|vs|kt vt es|et es|et es].
  1-6: destruct d as [t|bb|fs|dk dv|ss de]; cbn [conforms type_of] in Hc; try discriminate Hc;
       apply andb_true_iff in Hc; destruct Hc as [_ Hc]; apply Z.eqb_eq in Hc; apply (Scal O); cbn [desc_type type_of]; auto.
  - destruct d as [t|bb|fs|dk dv|ss de]; cbn [conforms type_of] in Hc; try discriminate Hc.
    + apply andb_true_iff in Hc. destruct Hc as [Hn Hc]. apply Z.eqb_eq in Hc. subst t. discriminate Hn.
    + apply (Scal O); cbn [desc_type type_of]; auto.
  - destruct d as [t|bb|fs|dk dv|ss de]; cbn [conforms type_of] in Hc; try discriminate Hc.
    + apply andb_true_iff in Hc. destruct Hc as [Hn Hc]. apply Z.eqb_eq in Hc. subst t. discriminate Hn.
    + apply (Scal O); cbn [desc_type type_of]; auto.
  - destruct d as [t|bb|fs|dk dv|ss de]; cbn [conforms type_of] in Hc; try discriminate Hc.
    + apply andb_true_iff in Hc. destruct Hc as [Hn Hc]. apply Z.eqb_eq in Hc. subst t. discriminate Hn.
    + apply (Scal O); cbn [desc_type type_of]; auto.
  - destruct d as [t|bb|fs|dk dv|ss de]; cbn [conforms type_of] in Hc; try discriminate Hc.
    + apply andb_true_iff in Hc. destruct Hc as [Hn Hc]. apply Z.eqb_eq in Hc. subst t. discriminate Hn.
    + destruct ss; [|discriminate Hc]. apply (Scal O); cbn [desc_type type_of]; auto.
  - (* LIST *)
    destruct d as [t|bb|fs|dk dv|ss de]; cbn [conforms type_of] in Hc; try discriminate Hc.
    1:{ apply andb_true_iff in Hc. destruct Hc as [Hn Hc]. apply Z.eqb_eq in Hc. subst t. discriminate Hn. }
    destruct ss; [discriminate Hc|].
    apply andb_true_iff in Hc. destruct Hc as [Het _]. apply Z.eqb_eq in Het.
    cbn [desc_wf] in Hdw.
    cbn [wf] in Hw. repeat (apply andb_true_iff in Hw; destruct Hw as [Hw ?]).
    match goal with H : (zlen es <? 2 ^ 31) = true |- _ => apply Z.ltb_lt in H; rename H into Hlen end.
    match goal with H : forallb _ es = true |- _ => rewrite forallb_forall in H; rename H into Hall end.
    cbn [walk_vm encode app]. rewrite <- app_assoc.
    subst et. rewrite (valid_ttype_desc de Hdw). cbn [negb].
    assert (0 <= zlen es) by (unfold zlen; lia).
    rewrite skip_count_ok by lia.
    pose proof (flat_map_length_ge encode es encode_nonempty) as Hge.
    destruct (Z.gtb_spec (zlen es) (zlen (flat_map encode es ++ r))); [unfold zlen in *; rewrite app_length in *; lia|].
    rewrite to_nat_zlen.
    rewrite (walk_vm_elems_ok fd o (desc_type de) es false r).
    + unfold walk_spec, spec_text_p. cbn [jsconv].
      destruct (all_ok (map (jsconv_scalar o) es)) as [xs|]; [|reflexivity].
      cbn [jexp_finite]. destruct (forallb jexp_finite xs); [|reflexivity]. rewrite print_arr. reflexivity.
    + apply Forall_forall. intros x Hx. specialize (Hall x Hx). apply andb_true_iff in Hall. destruct Hall as [Ht Hwx].
      apply Z.eqb_eq in Ht. split; assumption.
Qed.

(* ------------------------------------------------------------------ unfolding the walk *)
Section Main.
  Variable fd : Z -> list Z.
  Variable o : Z.

  Lemma walk_scalar_eq n t bs : t2j_walk_gen fd o n (DScalar t) bs = walk_scalar fd o t bs.
  Proof. destruct n; reflexivity. Qed.
  Lemma walk_string_eq n b bs : t2j_walk_gen fd o n (DString b) bs = walk_string o b bs.
  Proof. destruct n; reflexivity. Qed.
  Lemma walk_struct_eq n fs bs : t2j_walk_gen fd o (S n) (DStruct fs) bs =
    match walk_fields fd o (t2j_walk_gen fd o n) (fun _ => false) (S (length bs)) fs false (bm_init fs) bs with
    | Some (t, r) => Some (123 :: t, r)
    | None => None
    end.
  Proof. reflexivity. Qed.
  Lemma walk_map_eq n dk dv bs : t2j_walk_gen fd o (S n) (DMap dk dv) bs =
    match bs with
    | kt :: vt :: r =>
      if negb (valid_ttype kt && valid_ttype vt) then None else
      match skip_count r with
      | None => None
      | Some (sz, r2) =>
        if negb ((kt =? desc_type dk) && (vt =? desc_type dv)) then None
        else if sz >? zlen r2 then None
        else match walk_pairs o (t2j_walk_gen fd o n) (Z.to_nat sz) dk dv false r2 with
             | Some (t, r3) => Some (123 :: t, r3)
             | None => None
             end
      end
    | _ => None
    end.
  Proof. reflexivity. Qed.
  Lemma walk_list_eq n s de bs : t2j_walk_gen fd o (S n) (DList s de) bs =
    match bs with
    | et :: r =>
      if negb (valid_ttype et) then None else
      match skip_count r with
      | None => None
      | Some (sz, r2) =>
        if negb (et =? desc_type de) then None
        else if sz >? zlen r2 then None
        else match walk_elems (t2j_walk_gen fd o n) (Z.to_nat sz) de false r2 with
             | Some (t, r3) => Some (91 :: t, r3)
             | None => None
             end
      end
    | _ => None
    end.
  Proof. reflexivity. Qed.

  Lemma json_ofw_struct_eq fs vs : json_ofw o (DStruct fs) (VStruct vs) =
    match members_of (map (fstepw o (fun _ => false) fs) vs) with
    | inr c => TErr c
    | inl ms => match unset_members o fs (map fst vs) with inr c => TErr c | inl us => TOk (EObj (ms ++ us)) end
    end.
  Proof. reflexivity. Qed.

  (* a value the walk can take: well-formed, and every unknown field in it can be skipped by SkipGo *)
  Definition WalkP (v : tval) : Prop :=
    forall d n r, wf v = true -> conforms v d = true -> desc_wf d = true ->
    (depth v <= n)%nat -> (depth v <= max_skip_depth)%nat ->
    t2j_walk_gen fd o n d (encode v ++ r) = walk_spec fd (json_ofw o d v) r.

  Ltac bad_conf Hc :=
    cbn [conforms type_of] in Hc; try discriminate Hc;
    apply andb_true_iff in Hc; destruct Hc as [Hc ?]; 
    match goal with H : (_ =? _) = true |- _ => apply Z.eqb_eq in H; subst; discriminate Hc end.

  Lemma elems_case et es de s n r :
    Forall WalkP es ->
    (byte_okb et && (zlen es <? 2 ^ 31) && ((zlen es =? 0) || valid_type et) && forallb (fun e => (type_of e =? et) && wf e) es) = true ->
    (et =? desc_type de) && forallb (fun e => conforms e de) es = true ->
    desc_wf de = true ->
    (fold_right (fun e m => Nat.max (depth e) m) O es <= n)%nat ->
    (fold_right (fun e m => Nat.max (depth e) m) O es <= max_skip_depth)%nat ->
    t2j_walk_gen fd o (S n) (DList s de) ((et :: enc_int 4 (zlen es) ++ flat_map encode es) ++ r) =
    walk_spec fd (match all_ok (map (json_ofw o de) es) with inl xs => TOk (EArr xs) | inr c => TErr c end) r.
  Proof.
    intros IH Hw Hc Hdw Hd Hs.
    destruct (good_elems_inv et es Hw Hs) as [Hlen Hgood].
    apply andb_true_iff in Hc. destruct Hc as [Het Hc]. apply Z.eqb_eq in Het. rewrite forallb_forall in Hc.
    rewrite walk_list_eq. cbn [app]. rewrite <- app_assoc.
    subst et. rewrite (valid_ttype_desc de Hdw). cbn [negb].
    assert (0 <= zlen es) by (unfold zlen; lia).
    rewrite skip_count_ok by lia. rewrite Z.eqb_refl. cbn [negb].
    pose proof (flat_map_length_ge encode es encode_nonempty) as Hge.
    destruct (Z.gtb_spec (zlen es) (zlen (flat_map encode es ++ r))); [unfold zlen in *; rewrite app_length in *; lia|].
    rewrite to_nat_zlen.
    rewrite (walk_elems_ok fd o (t2j_walk_gen fd o n) de es false r).
    - unfold walk_spec, spec_text_p.
      destruct (all_ok (map (json_ofw o de) es)) as [xs|]; [|reflexivity].
      cbn [jexp_finite]. destruct (forallb jexp_finite xs); [|reflexivity]. rewrite print_arr. reflexivity.
    - pose proof (fold_max_le depth es n Hd) as Hdep.
      rewrite Forall_forall in *. intros e Hin r'.
      destruct (Hgood e Hin) as [_ [Hwe Hse]].
      apply (IH e Hin); auto.
  Qed.

  (* the obligations of the field loop, for the fields of a conforming struct value (any extraction predicate bx that only
     extracts struct-typed fields) *)
  Lemma fields_obligations bx fs vs n :
    (forall f, In f fs -> bx (fst f) = true -> desc_type (snd f) = T_STRUCT) ->
    Forall (fun f => WalkP (snd f)) vs ->
    wf (VStruct vs) = true -> conforms (VStruct vs) (DStruct fs) = true -> desc_wf (DStruct fs) = true ->
    (fold_right (fun (f : Z * tval) m => Nat.max (depth (snd f)) m) O vs <= n)%nat ->
    (depth (VStruct vs) <= max_skip_depth)%nat ->
    Forall (field_ok fd o (t2j_walk_gen fd o n) bx fs) vs.
  Proof.
    intros Hbx IH Hw Hc Hdw Hd Hs.
    pose proof (good_struct_inv vs (conj Hw Hs)) as Hgood.
    pose proof (fold_max_le (fun f : Z * tval => depth (snd f)) vs n Hd) as Hdep.
    cbn [conforms] in Hc. rewrite forallb_forall in Hc.
    cbn [desc_wf] in Hdw. rewrite forallb_forall in Hdw.
    rewrite Forall_forall in *. intros iv Hin.
    destruct (Hgood iv Hin) as [Hid [Hwx Hsx]]. split; [exact Hid|].
    specialize (Hc iv Hin). specialize (Hdep iv Hin).
    destruct (find_field fs (fst iv)) as [f|] eqn:Ef.
    - pose proof (find_field_in _ _ _ Ef) as Hfin.
      destruct (bx (fst f)) eqn:Eb.
      + intros r'. pose proof (Hbx f Hfin Eb) as Hty.
        assert (Tx : type_of (snd iv) = T_STRUCT).
        { destruct (snd f) as [t|b|fs'|dk dv|ss de]; cbn [desc_type] in Hty.
          - subst t. destruct (snd iv); cbn [conforms] in Hc; change (is_num_scalar T_STRUCT) with false in Hc;
              cbn [andb] in Hc; discriminate Hc.
          - vm_compute in Hty. discriminate Hty.
          - destruct (snd iv); cbn [conforms] in Hc; try discriminate Hc. reflexivity.
          - vm_compute in Hty. discriminate Hty.
          - destruct ss; vm_compute in Hty; discriminate Hty. }
        rewrite <- Tx. apply skip_go_encode. split; assumption.
      + intros r'. unfold fvalw. destruct (o_value_mapping o && f_jsconv (fst f)) eqn:Evm.
        * apply walk_vm_ok; auto.
        * apply (IH iv Hin); auto.
    - intros r'. apply skip_go_encode. split; assumption.
  Qed.

  Theorem walk_refines_w : forall v, WalkP v.
  Proof.
    induction v as [b|z|z|z|z|z|s|vs IH|kt vt es IH|et es IH|et es IH] using tval_ind';
      intros d n r Hw Hc Hdw Hd Hs.
    - destruct d; try bad_conf Hc. rewrite walk_scalar_eq. apply walk_scalar_ok; assumption.
    - destruct d; try bad_conf Hc. rewrite walk_scalar_eq. apply walk_scalar_ok; assumption.
    - destruct d; try bad_conf Hc. rewrite walk_scalar_eq. apply walk_scalar_ok; assumption.
    - destruct d; try bad_conf Hc. rewrite walk_scalar_eq. apply walk_scalar_ok; assumption.
    - destruct d; try bad_conf Hc. rewrite walk_scalar_eq. apply walk_scalar_ok; assumption.
    - destruct d; try bad_conf Hc. rewrite walk_scalar_eq. apply walk_scalar_ok; assumption.
    - destruct d; try bad_conf Hc. rewrite walk_string_eq. apply walk_string_ok; assumption.
    - (* struct *)
      destruct d as [t|bb|fs|dk dv|ss de]; try bad_conf Hc.
      destruct n as [|n]; [cbn in Hd; lia|]. cbn [depth] in Hd. apply le_S_n in Hd.
      rewrite walk_struct_eq. cbn [encode]. rewrite <- app_assoc. cbn [app].
      rewrite (walk_fields_ok fd o (t2j_walk_gen fd o n) (fun _ => false) fs vs).
      + rewrite json_ofw_struct_eq. unfold unset_members.
        rewrite (unset_walk_bm_eq o fs (map fst vs) (sort_flds fs) (In_sort_flds fs)).
        unfold walk_spec, spec_text_p.
        destruct (members_of (map (fstepw o (fun _ => false) fs) vs)) as [ms|]; [|reflexivity].
        destruct (unset_walk o (sort_flds fs) (map fst vs)) as [us|] eqn:Eu; [|destruct (mem_finite ms); reflexivity].
        cbn [jexp_finite]. rewrite forallb_app. fold (mem_finite ms). fold (mem_finite us).
        rewrite (unset_walk_finite o _ _ us Eu), andb_true_r.
        destruct (mem_finite ms); [|reflexivity]. rewrite print_obj. reflexivity.
      + apply fields_obligations; auto. intros f _ Hf. discriminate Hf.
      + rewrite app_length. cbn [length].
        pose proof (flat_map_length_ge (fun f : Z * tval => type_of (snd f) :: enc_int 2 (fst f) ++ encode (snd f)) vs
          ltac:(intros; cbn [length]; lia)). lia.
    - (* map *)
      destruct d as [t|bb|fs|dk dv|ss de]; try bad_conf Hc.
      destruct n as [|n]; [cbn in Hd; lia|]. cbn [depth] in Hd, Hs. apply le_S_n in Hd.
      destruct (good_map_inv kt vt es (conj Hw Hs)) as [Hlen Hgood].
      cbn [conforms] in Hc. apply andb_true_iff in Hc. destruct Hc as [Hc Hce]. apply andb_true_iff in Hc. destruct Hc as [Hkt Hvt].
      apply Z.eqb_eq in Hkt. apply Z.eqb_eq in Hvt. rewrite forallb_forall in Hce.
      cbn [desc_wf] in Hdw. apply andb_true_iff in Hdw. destruct Hdw as [Hdk Hdv].
      rewrite walk_map_eq. cbn [encode app]. rewrite <- app_assoc.
      subst kt vt. rewrite (valid_ttype_desc dk Hdk), (valid_ttype_desc dv Hdv). cbn [andb negb].
      assert (0 <= zlen es) by (unfold zlen; lia).
      rewrite skip_count_ok by lia. rewrite !Z.eqb_refl. cbn [andb negb].
      pose proof (flat_map_length_ge (fun e : tval * tval => encode (fst e) ++ encode (snd e)) es
          ltac:(intros a; cbv beta; rewrite app_length; pose proof (encode_nonempty (fst a)); lia)) as Hge.
      destruct (Z.gtb_spec (zlen es) (zlen (flat_map (fun e : tval * tval => encode (fst e) ++ encode (snd e)) es ++ r)));
        [unfold zlen in *; rewrite app_length in *; lia|].
      rewrite to_nat_zlen.
      rewrite (walk_pairs_ok fd o (t2j_walk_gen fd o n) dk dv es false r).
      + unfold walk_spec, spec_text_p. cbn [json_ofw].
        destruct (keyed (map (fun e => key_of o (fst e)) es) (map (fun e => json_ofw o dv (snd e)) es)) as [ms|]; [|reflexivity].
        cbn [jexp_finite]. fold (mem_finite ms). destruct (mem_finite ms); [|reflexivity].
        rewrite print_obj. reflexivity.
      + pose proof (fold_max_le (fun e : tval * tval => Nat.max (depth (fst e)) (depth (snd e))) es n Hd) as Hdep.
        rewrite Forall_forall in *. intros e Hin.
        destruct (Hgood e Hin) as [Tk [Tv [[Hwk Hsk] [Hwv Hsv]]]].
        specialize (Hce e Hin). apply andb_true_iff in Hce. destruct Hce as [Hck Hcv].
        specialize (Hdep e Hin). destruct (IH e Hin) as [_ IHv].
        split.
        * intros r'. unfold walk_key. rewrite <- Tk. apply walk_key_ok. exact Hwk.
        * intros r'. apply IHv; auto; lia.
    - (* set *)
      destruct d as [t|bb|fs|dk dv|ss de]; try bad_conf Hc. destruct ss; [|discriminate Hc].
      destruct n as [|n]; [cbn in Hd; lia|]. cbn [depth] in Hd, Hs. apply le_S_n in Hd.
      cbn [encode json_ofw]. apply elems_case; auto. lia.
    - (* list *)
      destruct d as [t|bb|fs|dk dv|ss de]; try bad_conf Hc. destruct ss; [discriminate Hc|].
      destruct n as [|n]; [cbn in Hd; lia|]. cbn [depth] in Hd, Hs. apply le_S_n in Hd.
      cbn [encode json_ofw]. apply elems_case; auto. lia.
  Qed.
End Main.

(* ------------------------------------------------------------------ the instance of the theorems: exact decimal lexemes *)
Lemma to_json_fd_exact : forall e, to_json_fd f64_exact_lexeme e = to_json e.
Proof.
  induction e as [b | z | b | s | e IH | s | z | xs IH | ms IH] using jexp_ind'; cbn [to_json_fd to_json]; try reflexivity.
  - rewrite IH. reflexivity.
  - f_equal. apply map_ext_in. intros x Hx. rewrite Forall_forall in IH. exact (IH x Hx).
  - f_equal. apply map_ext_in. intros m Hm. rewrite Forall_forall in IH. rewrite (IH m Hm). reflexivity.
Qed.

Lemma spec_text_fd_exact t : spec_text_fd f64_exact_lexeme t = spec_text t.
Proof. destruct t as [e|e|c]; cbn [spec_text_fd spec_text]; try reflexivity. rewrite to_json_fd_exact. reflexivity. Qed.

Definition walk_res (t : tres) (r : list Z) : option (list Z * list Z) :=
  match spec_text t with Some x => Some (x, r) | None => None end.

(* number lexemes need no escaping between quotes *)
Lemma numchar_plain c : is_numchar c = true -> plain c = true.
Proof.
  intros H. unfold is_numchar, is_digit, is_e in H. unfold plain.
  assert (R : 43 <= c <= 101).
  { repeat rewrite orb_true_iff in H. rewrite andb_true_iff in H. rewrite !Z.leb_le in H. rewrite !Z.eqb_eq in H. lia. }
  destruct (Z.leb_spec 32 c); [|lia]. destruct (Z.eqb_spec c 34); [lia|]. destruct (Z.eqb_spec c 92); [lia|]. reflexivity.
Qed.

Lemma scan_plain : forall l st l' r, scan_num st l = Some (l', r) -> forallb plain l' = true.
Proof.
  induction l as [|c t IH]; intros st l' r H.
  - cbn in H. destruct (num_acc st); inversion H; reflexivity.
  - cbn [scan_num] in H. destruct (num_step st c) as [s|] eqn:E.
    + destruct (scan_num s t) as [[l1 r1]|] eqn:E2; [|discriminate]. inversion H; subst.
      cbn [forallb]. rewrite (numchar_plain c (num_step_numchar _ _ _ E)). exact (IH _ _ _ E2).
    + destruct (num_acc st); inversion H; reflexivity.
Qed.

Lemma num_okb_plain l : num_okb l = true -> forallb plain l = true.
Proof.
  intros H. unfold num_okb in H. destruct (scan_num N0 l) as [[l' r]|] eqn:E; [|discriminate].
  destruct r; [|discriminate].
  destruct (scan_num_app l N0 l' [] E eq_refl) as [-> _]. exact (scan_plain _ _ _ _ E).
Qed.

Lemma exact_lexeme_plain b : forallb plain (f64_exact_lexeme b) = true.
Proof. apply num_okb_plain, num_okb_f64_exact. Qed.

(* all modelled options at once (value mapping, write options): the walk prints the spec tree json_ofw *)
(* with escape-free lexemes the direct print is the canonical print of the JSON AST of the tree *)
Section Bridge.
  Variable fd : Z -> list Z.
  Hypothesis Hfd : forall b, forallb plain (fd b) = true.

  Lemma eprint_tail_json l : Forall (fun e => jexp_print fd e = json_print (to_json_fd fd e)) l ->
    eprint_tail (jexp_print fd) l = print_tail json_print 93 (map (to_json_fd fd) l).
  Proof.
    induction l as [|y l IH]; intros HF; [reflexivity|]. inversion HF as [|? ? Hy HF']; subst.
    cbn [eprint_tail map print_tail]. rewrite Hy, (IH HF'). reflexivity.
  Qed.

  Lemma eprint_mems_json (l : list (list Z * jexp)) :
    Forall (fun m => jexp_print fd (snd m) = json_print (to_json_fd fd (snd m))) l ->
    eprint_mems (jexp_print fd) l ++ [125] = print_mtail json_print (map (fun m => (fst m, to_json_fd fd (snd m))) l).
  Proof.
    induction l as [|y l IH]; intros HF; [reflexivity|]. inversion HF as [|? ? Hy HF']; subst.
    cbn [eprint_mems map print_mtail]. unfold eprint_member, print_member. cbn [fst snd]. rewrite Hy, <- (IH HF').
    cbn [app]. f_equal. rewrite <- !app_assoc. reflexivity.
  Qed.

  Lemma jexp_print_json : forall e, jexp_print fd e = json_print (to_json_fd fd e).
  Proof.
    induction e as [b | z | b | s | e IH | s | z | xs IH | ms IH] using jexp_ind'; cbn [jexp_print to_json_fd json_print]; try reflexivity.
    - destruct e; cbn [to_json_fd json_print] in *; try exact IH.
      + rewrite quote_fmt_int. reflexivity.
      + rewrite (quote_plain _ (Hfd bits)). reflexivity.
      + cbn [jexp_print] in IH. destruct (to_json_fd fd e); exact IH.
    - rewrite quote_fmt_int. reflexivity.
    - destruct xs as [|x l]; [reflexivity|]. inversion IH as [|? ? Hx Hl]; subst.
      cbn [map]. rewrite Hx, (eprint_tail_json l Hl). reflexivity.
    - destruct ms as [|m l]; [reflexivity|]. inversion IH as [|? ? Hm Hl]; subst.
      cbn [map]. unfold eprint_member, print_member. cbn [fst snd]. rewrite Hm, (eprint_mems_json l Hl). reflexivity.
  Qed.

  Lemma spec_text_p_fd t : spec_text_p fd t = spec_text_fd fd t.
  Proof. destruct t as [e|e|c]; cbn [spec_text_p spec_text_fd]; try reflexivity. rewrite jexp_print_json. reflexivity. Qed.
End Bridge.

Lemma spec_text_p_exact t : spec_text_p f64_exact_lexeme t = spec_text t.
Proof. rewrite (spec_text_p_fd f64_exact_lexeme exact_lexeme_plain). apply spec_text_fd_exact. Qed.

(* all modelled options at once (value mapping, write options): the walk prints the spec tree json_ofw *)
Theorem walk_refines_exact_w o v d n r :
  wf v = true -> conforms v d = true -> desc_wf d = true -> (depth v <= n)%nat -> (depth v <= max_skip_depth)%nat ->
  t2j_walk n o d (encode v ++ r) = walk_res (json_ofw o d v) r.
Proof.
  intros Hw Hc Hdw Hd Hs. unfold t2j_walk.
  rewrite (walk_refines_w f64_exact_lexeme o v d n r Hw Hc Hdw Hd Hs).
  unfold walk_spec, walk_res. rewrite spec_text_p_exact. reflexivity.
Qed.

(* the options of the first development: no value mapping, write options off: the spec is json_of *)
Theorem walk_refines fd o : o_write_default o = false -> o_write_required o = false ->
  forall v d n r, wf v = true -> conforms v d = true -> desc_wf d = true ->
  (depth v <= n)%nat -> (depth v <= max_skip_depth)%nat ->
  t2j_walk_gen fd o n d (encode v ++ r) = walk_spec fd (json_of o d v) r.
Proof.
  intros Hwd Hwr v d n r Hw Hc Hdw Hd Hs.
  rewrite (walk_refines_w fd o v d n r Hw Hc Hdw Hd Hs).
  rewrite (json_ofw_off o Hwd Hwr). reflexivity.
Qed.

Theorem walk_refines_exact o v d n r : o_value_mapping o = false -> o_write_default o = false -> o_write_required o = false ->
  wf v = true -> conforms v d = true -> desc_wf d = true -> (depth v <= n)%nat -> (depth v <= max_skip_depth)%nat ->
  t2j_walk n o d (encode v ++ r) = walk_res (json_of o d v) r.
Proof.
  intros Hvm Hwd Hwr Hw Hc Hdw Hd Hs. rewrite (walk_refines_exact_w o v d n r Hw Hc Hdw Hd Hs).
  rewrite (json_ofw_off o Hwd Hwr). reflexivity.
Qed.

(* ------------------------------------------------------------------ corollaries *)
Lemma json_of_not_exc o v : forall d e, json_of o d v <> TExc e.
Proof.
  intros d e H. destruct v; cbn [json_of] in H; try discriminate;
  repeat match type of H with
  | match ?x with _ => _ end = _ => destruct x; try discriminate
  | (if ?b then _ else _) = _ => destruct b; try discriminate
  end.
Qed.

(* the walk fails exactly when the spec has no text: the denotation is an error (unknown field under DisallowUnknownField,
   unsupported map key type, missing required field) or the tree holds a NaN / Inf double *)
Lemma spec_text_none o d v : spec_text (json_of o d v) = None <->
  (exists c, json_of o d v = TErr c) \/ (exists e, json_of o d v = TOk e /\ jexp_finite e = false).
Proof.
  unfold spec_text. destruct (json_of o d v) as [e|e|c] eqn:E.
  - destruct (jexp_finite e) eqn:Ef; split.
    + discriminate.
    + intros [[c H]|[e' [H1 H2]]]; [discriminate|]. inversion H1; subst. rewrite Ef in H2. discriminate.
    + intros _. right. exists e. split; [reflexivity|exact Ef].
    + reflexivity.
  - exfalso. exact (json_of_not_exc o v d e E).
  - split; [intros _; left; exists c; reflexivity | reflexivity].
Qed.

Theorem walk_error_iff o v d n r : o_value_mapping o = false -> o_write_default o = false -> o_write_required o = false ->
  wf v = true -> conforms v d = true -> desc_wf d = true -> (depth v <= n)%nat -> (depth v <= max_skip_depth)%nat ->
  (t2j_walk n o d (encode v ++ r) = None <->
   (exists c, json_of o d v = TErr c) \/ (exists e, json_of o d v = TOk e /\ jexp_finite e = false)).
Proof.
  intros Hvm Hwd Hwr Hw Hc Hdw Hd Hs. rewrite (walk_refines_exact o v d n r Hvm Hwd Hwr Hw Hc Hdw Hd Hs).
  rewrite <- spec_text_none. unfold walk_res. destruct (spec_text (json_of o d v)); split; intros H; try discriminate; reflexivity.
Qed.

(* never malformed with a nil error, at algorithm level: whatever the walk returns parses, with the proved parser,
   to the JSON of the spec tree, and the walk has consumed exactly the encoding *)
Theorem walk_output_valid o v d n r txt r' : o_value_mapping o = false -> o_write_default o = false -> o_write_required o = false ->
  wf v = true -> conforms v d = true -> desc_wf d = true -> desc_ok d = true ->
  (depth v <= n)%nat -> (depth v <= max_skip_depth)%nat ->
  t2j_walk n o d (encode v ++ r) = Some (txt, r') ->
  exists e, json_of o d v = TOk e /\ jexp_finite e = true /\
            txt = json_print (to_json e) /\ json_parse txt = Some (to_json e) /\ r' = r.
Proof.
  intros Hvm Hwd Hwr Hw Hc Hdw Hdo Hd Hs H. rewrite (walk_refines_exact o v d n r Hvm Hwd Hwr Hw Hc Hdw Hd Hs) in H.
  unfold walk_res, spec_text in H. destruct (json_of o d v) as [e|e|c] eqn:E; try discriminate.
  destruct (jexp_finite e) eqn:Ef; [|discriminate]. inversion H; subst.
  exists e. split; [reflexivity|]. split; [exact Ef|]. split; [reflexivity|]. split; [|reflexivity].
  apply model_text_parses. exact (json_of_bytes o v d e Hw Hdo E).
Qed.

(* ------------------------------------------------------------------ the root: do *)
Definition known_of (fs : list (fmeta * tdesc)) (ids : list Z) : list Z :=
  filter (fun id => match find_field fs id with Some _ => true | None => false end) ids.

Lemma is_present_known fs ids f : In f fs -> is_present (known_of fs ids) f = is_present ids f.
Proof.
  intros Hin. unfold is_present, known_of. induction ids as [|id ids IH]; [reflexivity|]. cbn [filter existsb].
  destruct (find_field fs id) eqn:Ef.
  - cbn [existsb]. rewrite IH. reflexivity.
  - rewrite IH. destruct (Z.eqb_spec id (f_id (fst f))) as [->|]; [|reflexivity].
    exfalso. exact (find_field_of_in fs f Hin Ef).
Qed.

Lemma is_present_in p q f : (forall x, In x p <-> In x q) -> is_present p f = is_present q f.
Proof.
  intros Hpq. unfold is_present.
  destruct (existsb (fun id => id =? f_id (fst f)) p) eqn:Ea.
  - apply existsb_exists in Ea. destruct Ea as (x & Hx & Hxe). symmetry. apply existsb_exists. exists x. split; [apply Hpq; exact Hx|exact Hxe].
  - destruct (existsb (fun id => id =? f_id (fst f)) q) eqn:Eb; [|reflexivity].
    apply existsb_exists in Eb. destruct Eb as (x & Hx & Hxe).
    assert (existsb (fun id => id =? f_id (fst f)) p = true) by (apply existsb_exists; exists x; split; [apply Hpq; exact Hx|exact Hxe]).
    congruence.
Qed.

Lemma unset_walk_ext o : forall l p q, (forall f, In f l -> is_present p f = is_present q f) ->
  unset_walk o l p = unset_walk o l q.
Proof.
  induction l as [|f l IH]; intros p q H; [reflexivity|].
  cbn [unset_walk]. rewrite (H f (or_introl eq_refl)). rewrite (IH p q (fun g Hg => H g (or_intror Hg))). reflexivity.
Qed.

(* the root loop of do = the struct loop with the response base dropped (ConvertException off); error classes are not
   compared: both sides have no text *)
Lemma root_walkw_text fd o fs : o_convert_exception o = false -> forall vs acc seen bs,
  spec_text_p fd (fst (root_walkw o fs vs acc seen bs)) =
  spec_text_p fd (match members_of (map (fstepw o (root_bx o) fs) vs) with
                   | inr c => TErr c
                   | inl ms => match unset_members o fs (rev (known_of fs (map fst vs)) ++ seen) with
                               | inr c => TErr c
                               | inl us => TOk (EObj (rev acc ++ ms ++ us))
                               end
                   end).
Proof.
  intros Hce. induction vs as [|[id x] vs IH]; intros acc seen bs.
  - cbn [root_walkw map members_of fst known_of filter rev app]. reflexivity.
  - cbn [root_walkw map members_of fst]. unfold fstepw at 1. cbn [fst snd]. unfold known_of. cbn [filter].
    destruct (find_field fs id) as [f|] eqn:Ef.
    + change (o_thrift_base o && o_base_in_ctx o && f_respbase (fst f)) with (root_bx o (fst f)).
      destruct (root_bx o (fst f)).
      * rewrite IH. fold (known_of fs (map fst vs)). cbn [rev]. rewrite <- !app_assoc. reflexivity.
      * rewrite Hce. cbn [andb]. change (field_valuew o f x) with (fvalw o f x).
        destruct (fvalw o f x) as [e|e|c]; [|reflexivity|reflexivity].
        rewrite IH. fold (known_of fs (map fst vs)).
        destruct (members_of (map (fstepw o (root_bx o) fs) vs)) as [ms|]; [|reflexivity].
        cbn [rev]. rewrite <- (app_assoc (rev (known_of fs (map fst vs)))). cbn [app].
        destruct (unset_members o fs (rev (known_of fs (map fst vs)) ++ id :: seen)) as [us|]; [|reflexivity].
        rewrite <- app_assoc. reflexivity.
    + destruct (o_disallow_unknown o); [reflexivity|]. rewrite IH. reflexivity.
Qed.

(* the response-base fields of the root are structs (base.BaseResp) *)
Definition base_is_struct (d : tdesc) : Prop :=
  match d with
  | DStruct fs => forall f, In f fs -> f_respbase (fst f) = true -> desc_type (snd f) = T_STRUCT
  | _ => True
  end.

Theorem walk_root_refines fd o v d n r : o_convert_exception o = false ->
  wf v = true -> conforms v d = true -> desc_wf d = true -> base_is_struct d ->
  (depth v <= n)%nat -> (depth v <= max_skip_depth)%nat ->
  t2j_walk_root fd o n d (encode v ++ r) = walk_spec fd (fst (t2j_specw o d v)) r.
Proof.
  intros Hce Hw Hc Hdw Hbs Hd Hs.
  assert (Plain : forall d', (match d' with DStruct _ => False | _ => True end) -> conforms v d' = true -> desc_wf d' = true ->
            t2j_walk_root fd o n d' (encode v ++ r) = walk_spec fd (fst (t2j_specw o d' v)) r).
  { intros d' Hns Hc' Hdw'.
    assert (E1 : t2j_walk_root fd o n d' (encode v ++ r) = t2j_walk_gen fd o n d' (encode v ++ r))
      by (destruct d'; try reflexivity; destruct Hns).
    assert (E2 : fst (t2j_specw o d' v) = json_ofw o d' v) by (destruct d'; try reflexivity; destruct Hns).
    rewrite E1, E2. exact (walk_refines_w fd o v d' n r Hw Hc' Hdw' Hd Hs). }
  destruct d as [t|b|fs|dk dv|s de]; try (apply Plain; auto; exact I).
  destruct v as [ | | | | | | |vs| | | ]; try (cbn [conforms type_of] in Hc; try discriminate Hc;
    apply andb_true_iff in Hc; destruct Hc as [Hc _]; discriminate Hc).
  destruct n as [|n]; [cbn in Hd; lia|]. cbn [depth] in Hd. apply le_S_n in Hd.
  cbn [t2j_walk_root t2j_specw]. cbn [encode]. rewrite <- app_assoc. cbn [app].
  rewrite (walk_fields_ok fd o (t2j_walk_gen fd o n) (root_bx o) fs vs).
  - unfold walk_spec. rewrite (root_walkw_text fd o fs Hce). rewrite app_nil_r. cbn [rev app].
    unfold unset_members.
    rewrite (unset_walk_bm_eq o fs (map fst vs) (sort_flds fs) (In_sort_flds fs)).
    rewrite (unset_walk_ext o (sort_flds fs) (rev (known_of fs (map fst vs))) (map fst vs)).
    2:{ intros f Hf. rewrite (is_present_in (rev (known_of fs (map fst vs))) (known_of fs (map fst vs))) by (intros x; symmetry; apply in_rev).
        apply is_present_known. exact (In_sort_flds fs f Hf). }
    unfold spec_text_p.
    destruct (members_of (map (fstepw o (root_bx o) fs) vs)) as [ms|]; [|reflexivity].
    destruct (unset_walk o (sort_flds fs) (map fst vs)) as [us|] eqn:Eu; [|destruct (mem_finite ms); reflexivity].
    cbn [jexp_finite]. rewrite forallb_app. fold (mem_finite ms). fold (mem_finite us).
    rewrite (unset_walk_finite o _ _ us Eu), andb_true_r.
    destruct (mem_finite ms); [|reflexivity]. rewrite print_obj. reflexivity.
  - apply (fields_obligations fd o (root_bx o) fs vs n); auto.
    + intros f Hin Hb. apply (Hbs f Hin). unfold root_bx in Hb. apply andb_true_iff in Hb. exact (proj2 Hb).
    + apply Forall_forall. intros f _. apply walk_refines_w.
  - rewrite app_length. cbn [length].
    pose proof (flat_map_length_ge (fun f : Z * tval => type_of (snd f) :: enc_int 2 (fst f) ++ encode (snd f)) vs
      ltac:(intros; cbn [length]; lia)). lia.
Qed.

(* with the exact double lexeme: the text of do is the canonical text of the root spec t2j_specw *)
Theorem walk_root_refines_exact o v d n r : o_convert_exception o = false ->
  wf v = true -> conforms v d = true -> desc_wf d = true -> base_is_struct d ->
  (depth v <= n)%nat -> (depth v <= max_skip_depth)%nat ->
  t2j_walk_root f64_exact_lexeme o n d (encode v ++ r) = walk_res (fst (t2j_specw o d v)) r.
Proof.
  intros Hce Hw Hc Hdw Hbs Hd Hs.
  rewrite (walk_root_refines f64_exact_lexeme o v d n r Hce Hw Hc Hdw Hbs Hd Hs).
  unfold walk_spec, walk_res. rewrite spec_text_p_exact. reflexivity.
Qed.

(* without base extraction the root walk is doRecurse *)
Lemma walk_root_nobase fd o n d bs : o_thrift_base o && o_base_in_ctx o = false ->
  t2j_walk_root fd o n d bs = t2j_walk_gen fd o n d bs.
Proof.
  intros Hb. destruct d as [t|b|fs|dk dv|s de]; try reflexivity. destruct n as [|n]; [reflexivity|].
  cbn [t2j_walk_root t2j_walk_gen].
  assert (E : forall fuel c bm bs', walk_fields fd o (t2j_walk_gen fd o n) (root_bx o) fuel fs c bm bs' =
                                    walk_fields fd o (t2j_walk_gen fd o n) (fun _ => false) fuel fs c bm bs').
  { induction fuel as [|fuel IH]; intros c bm bs'; [reflexivity|]. cbn [walk_fields].
    destruct bs' as [|t r]; [reflexivity|]. destruct (negb (valid_ttype t)); [reflexivity|].
    destruct (t =? 0); [reflexivity|]. destruct (rd_int 2 r) as [[id r2]|]; [|reflexivity].
    destruct (find_field fs id) as [fl|].
    - unfold root_bx. rewrite Hb. cbn [andb]. cbv beta iota.
      destruct (if o_value_mapping o && f_jsconv (fst fl) then walk_vm fd o (snd fl) r2 else t2j_walk_gen fd o n (snd fl) r2) as [[txt r3]|]; reflexivity.
    - destruct (o_disallow_unknown o); [reflexivity|]. destruct (skip_go t r2); [apply IH | reflexivity]. }
  rewrite E. reflexivity.
Qed.

Theorem t2j_text_is_spec_text o d v : walk_opts o = true -> o_write_default o = false -> o_write_required o = false ->
  t2j_text o d v = spec_text (json_of o d v).
Proof.
  unfold walk_opts. rewrite !andb_true_iff, !negb_true_iff. intros [[Hvm Hb] Hce] Hwd Hwr.
  assert (Hfst : spec_text (fst (t2j_spec o d v)) = spec_text (json_of o d v)).
  { rewrite <- (t2j_specw_off o Hwd Hwr), <- (json_ofw_off o Hwd Hwr). rewrite <- !spec_text_p_exact.
    unfold t2j_specw. destruct d as [t|b|fs|dk dv|s de]; try reflexivity.
    destruct v as [ | | | | | | |vs| | | ]; try reflexivity.
    rewrite (root_walkw_text f64_exact_lexeme o fs Hce). rewrite json_ofw_struct_eq. rewrite app_nil_r. cbn [rev app].
    assert (Em : map (fstepw o (root_bx o) fs) vs = map (fstepw o (fun _ => false) fs) vs).
    { apply map_ext. intros iv. unfold fstepw. destruct (find_field fs (fst iv)); [|reflexivity].
      unfold root_bx. rewrite Hb. reflexivity. }
    rewrite Em. destruct (members_of (map (fstepw o (fun _ => false) fs) vs)) as [ms|]; [|reflexivity].
    unfold unset_members.
    rewrite (unset_walk_ext o (sort_flds fs) (rev (known_of fs (map fst vs))) (map fst vs)); [reflexivity|].
    intros f Hf. rewrite (is_present_in (rev (known_of fs (map fst vs))) (known_of fs (map fst vs))) by (intros x; symmetry; apply in_rev).
    apply is_present_known. exact (In_sort_flds fs f Hf). }
  rewrite <- Hfst. unfold t2j_text, spec_text. destruct (fst (t2j_spec o d v)); reflexivity.
Qed.

(* Do (the whole input is the message): the walk's text is the model conversion's text *)
Theorem walk_is_t2j_text o v d n : walk_opts o = true -> o_write_default o = false -> o_write_required o = false ->
  wf v = true -> conforms v d = true -> desc_wf d = true -> (depth v <= n)%nat -> (depth v <= max_skip_depth)%nat ->
  t2j_walk n o d (encode v) = match t2j_text o d v with Some txt => Some (txt, []) | None => None end.
Proof.
  intros Ho Hwd Hwr Hw Hc Hdw Hd Hs. rewrite (t2j_text_is_spec_text o d v Ho Hwd Hwr).
  assert (Hvm : o_value_mapping o = false).
  { unfold walk_opts in Ho. rewrite !andb_true_iff, !negb_true_iff in Ho. tauto. }
  rewrite <- (app_nil_r (encode v)) at 1. exact (walk_refines_exact o v d n [] Hvm Hwd Hwr Hw Hc Hdw Hd Hs).
Qed.

(* ------------------------------------------------------------------ the corollaries for all modelled options (spec json_ofw) *)
Lemma json_ofw_not_exc o v : forall d e, json_ofw o d v <> TExc e.
Proof.
  intros d e H. destruct v; cbn [json_ofw] in H; try discriminate;
  repeat match type of H with
  | match ?x with _ => _ end = _ => destruct x; try discriminate
  | (if ?b then _ else _) = _ => destruct b; try discriminate
  end.
Qed.

Lemma zero_bytes d : jexp_bytes (zero_of d) = true.
Proof.
  destruct d as [t|b|fs|dk dv|s de]; try reflexivity.
  cbn [zero_of]. destruct (t =? T_BOOL); [reflexivity|]. destruct (t =? T_DOUBLE); reflexivity.
Qed.

Lemma unset_walk_bytes o fs : desc_ok (DStruct fs) = true -> forall l p us, (forall f, In f l -> In f fs) ->
  unset_walk o l p = inl us -> forallb (fun m => jbytes_okb (fst m) && jexp_bytes (snd m)) us = true.
Proof.
  intros Hd l p us Hl H. apply forallb_forall. intros m Hm.
  destruct (unset_walk_sound o l p us H m Hm) as (f & Hf & -> & _).
  cbn [fst snd]. rewrite zero_bytes, andb_true_r.
  cbn [desc_ok] in Hd. rewrite forallb_forall in Hd. specialize (Hd f (Hl f Hf)). apply andb_true_iff in Hd. exact (proj1 Hd).
Qed.

Theorem json_ofw_bytes : forall o v d e, wf v = true -> desc_ok d = true -> json_ofw o d v = TOk e -> jexp_bytes e = true.
Proof.
  intros o. induction v as [b | z | z | z | z | z | s | vs IH | kt vt es IH | et es IH | et es IH] using tval_ind';
    intros d e Hw Hd H; cbn [json_ofw] in H.
  - inversion H; reflexivity.
  - inversion H; reflexivity.
  - inversion H; reflexivity.
  - inversion H; reflexivity.
  - inversion H. destruct (o_int642string o); reflexivity.
  - inversion H; reflexivity.
  - pose proof (wf_string_bytes s Hw) as Hs.
    destruct d as [| [|] | | |]; inversion H; subst; cbn [jexp_bytes]; try exact Hs.
    destruct (o_no_base64 o); [exact Hs|]. apply b64_encode_bytes. apply bytes_okb_Forall.
    cbn in Hw. apply andb_true_iff in Hw. exact (proj1 Hw).
  - destruct d as [| | fs | |]; try discriminate.
    match type of H with match members_of ?l with _ => _ end = _ => destruct (members_of l) as [ms|] eqn:E end; [|discriminate].
    destruct (unset_members o fs (map fst vs)) as [us|] eqn:Eu; [|discriminate]. inversion H; subst.
    cbn [jexp_bytes]. rewrite forallb_app. apply andb_true_iff. split.
    + apply forallb_Forall_true.
      apply (members_of_forall _ ms (fun k e => jbytes_okb k && jexp_bytes e = true) E).
      intros k e' Hin. apply in_map_iff in Hin. destruct Hin as (iv & Hg & Hiv).
      destruct (find_field fs (fst iv)) as [f|] eqn:Ef; [|destruct (o_disallow_unknown o); discriminate].
      pose proof (find_field_in _ _ _ Ef) as Hfin.
      pose proof Hd as Hd'. cbn [desc_ok] in Hd'. rewrite forallb_forall in Hd'. specialize (Hd' f Hfin). apply andb_true_iff in Hd'. destruct Hd' as [Hk Hdf].
      pose proof (wf_struct_fields vs Hw iv Hiv) as Hwx.
      rewrite Forall_forall in IH.
      destruct (o_value_mapping o && f_jsconv (fst f)).
      * destruct (jsconv o (snd iv)) as [e1|e1|c1] eqn:Ej; inversion Hg; subst.
        rewrite Hk. exact (jsconv_bytes o _ _ Hwx Ej).
      * destruct (json_ofw o (snd f) (snd iv)) as [e1|e1|c1] eqn:Ej; inversion Hg; subst.
        rewrite Hk. exact (IH iv Hiv (snd f) e' Hwx Hdf Ej).
    + exact (unset_walk_bytes o fs Hd (sort_flds fs) (map fst vs) us (In_sort_flds fs) Eu).
  - destruct d as [| | | dk dv |]; try discriminate.
    match type of H with match keyed ?a ?b with _ => _ end = _ => destruct (keyed a b) as [ms|] eqn:E end; [|discriminate].
    inversion H; subst. cbn [jexp_bytes]. apply forallb_Forall_true.
    cbn [desc_ok] in Hd. apply andb_true_iff in Hd. destruct Hd as [Hdk Hdv].
    rewrite Forall_forall in IH.
    apply (keyed_forall _ _ ms (fun k e => jbytes_okb k && jexp_bytes e = true) E).
    intros k Hk e' He'.
    apply in_map_iff in Hk. destruct Hk as (en & Hkey & Hen).
    apply in_map_iff in He'. destruct He' as (en' & Hval & Hen').
    destruct (wf_map_entries _ _ _ Hw en Hen) as [Hwk _].
    destruct (wf_map_entries _ _ _ Hw en' Hen') as [_ Hwv].
    rewrite (key_of_bytes o _ _ Hwk Hkey).
    exact (proj2 (IH en' Hen') dv e' Hwv Hdv Hval).
  - destruct d as [| | | | s de]; try discriminate.
    destruct (all_ok (map (json_ofw o de) es)) as [xs|] eqn:E; [|discriminate]. inversion H; subst.
    cbn [jexp_bytes]. apply forallb_Forall_true.
    apply (all_ok_forall _ xs (fun e => jexp_bytes e = true) E).
    intros e' He'. apply in_map_iff in He'. destruct He' as (y & Hy & Hin).
    rewrite Forall_forall in IH. exact (IH y Hin de e' (wf_set_elems _ _ Hw y Hin) Hd Hy).
  - destruct d as [| | | | s de]; try discriminate.
    destruct (all_ok (map (json_ofw o de) es)) as [xs|] eqn:E; [|discriminate]. inversion H; subst.
    cbn [jexp_bytes]. apply forallb_Forall_true.
    apply (all_ok_forall _ xs (fun e => jexp_bytes e = true) E).
    intros e' He'. apply in_map_iff in He'. destruct He' as (y & Hy & Hin).
    rewrite Forall_forall in IH. exact (IH y Hin de e' (wf_list_elems _ _ Hw y Hin) Hd Hy).
Qed.

Theorem walk_error_iff_w o v d n r :
  wf v = true -> conforms v d = true -> desc_wf d = true -> (depth v <= n)%nat -> (depth v <= max_skip_depth)%nat ->
  (t2j_walk n o d (encode v ++ r) = None <->
   (exists c, json_ofw o d v = TErr c) \/ (exists e, json_ofw o d v = TOk e /\ jexp_finite e = false)).
Proof.
  intros Hw Hc Hdw Hd Hs. rewrite (walk_refines_exact_w o v d n r Hw Hc Hdw Hd Hs).
  unfold walk_res, spec_text. destruct (json_ofw o d v) as [e|e|c] eqn:E.
  - destruct (jexp_finite e) eqn:Ef; split.
    + discriminate.
    + intros [[c H]|[e' [H1 H2]]]; [discriminate|]. inversion H1; subst. rewrite Ef in H2. discriminate.
    + intros _. right. exists e. split; [reflexivity|exact Ef].
    + reflexivity.
  - exfalso. exact (json_ofw_not_exc o v d e E).
  - split; [intros _; left; exists c; reflexivity | reflexivity].
Qed.

Theorem walk_output_valid_w o v d n r txt r' :
  wf v = true -> conforms v d = true -> desc_wf d = true -> desc_ok d = true ->
  (depth v <= n)%nat -> (depth v <= max_skip_depth)%nat ->
  t2j_walk n o d (encode v ++ r) = Some (txt, r') ->
  exists e, json_ofw o d v = TOk e /\ jexp_finite e = true /\
            txt = json_print (to_json e) /\ json_parse txt = Some (to_json e) /\ r' = r.
Proof.
  intros Hw Hc Hdw Hdo Hd Hs H. rewrite (walk_refines_exact_w o v d n r Hw Hc Hdw Hd Hs) in H.
  unfold walk_res, spec_text in H. destruct (json_ofw o d v) as [e|e|c] eqn:E; try discriminate.
  destruct (jexp_finite e) eqn:Ef; [|discriminate]. inversion H; subst.
  exists e. split; [reflexivity|]. split; [exact Ef|]. split; [reflexivity|]. split; [|reflexivity].
  apply model_text_parses. exact (json_ofw_bytes o v d e Hw Hdo E).
Qed.

(* ------------------------------------------------------------------ ConvertException at the root (PARTIAL) ----
   [xwalk] is the root loop of do under ConvertException written over the DECODED fields (values by the spec functions
   fvalw = json_ofw / jsconv, the unset scan by the bitmap): members, or the first exception field's tree with the members
   handleUnsets appends, or an error.  [walk_fields_x_ok]: the byte loop computes exactly its text.
   Missing for a full refinement: the identification of [xwalk] with T2JUnset.root_walkw's TExc branch (which has no unset
   members and checks the finiteness of the members before the exception field). *)
Inductive xres := XObj (ms : list (list Z * jexp)) | XExc (e : jexp) (us : list (list Z * jexp)) | XErr.

Section ExcLoop.
  Variable fd : Z -> list Z.
  Variable o : Z.
  Variable rec : tdesc -> list Z -> option (list Z * list Z).
  Variable bx : fmeta -> bool.

  Fixpoint xwalk (fs : list (fmeta * tdesc)) (vs : list (Z * tval)) (bm : list Z) : xres :=
    match vs with
    | [] => match unset_walk_bm o (sort_flds fs) bm with inl us => XObj us | inr _ => XErr end
    | iv :: r =>
      match find_field fs (fst iv) with
      | None => if o_disallow_unknown o then XErr else xwalk fs r bm
      | Some f =>
        if bx (fst f) then xwalk fs r (bm_clear (fst iv) bm) else
        match fvalw o f (snd iv) with
        | TOk e =>
          if jexp_finite e then
            if negb (fst iv =? 0) then
              match unset_walk_bm o (sort_flds fs) (bm_clear (fst iv) bm) with inl us => XExc e us | inr _ => XErr end
            else match xwalk fs r (bm_clear (fst iv) bm) with
                 | XObj ms => XObj ((f_key (fst f), e) :: ms)
                 | other => other
                 end
          else XErr
        | _ => XErr
        end
      end
    end.

  Definition xtext (c : bool) (x : xres) : option wres :=
    match x with
    | XObj ms => Some (WText (obj_tail fd c ms))
    | XExc e us => Some (WExc (jexp_print fd e ++ obj_mems fd true us))
    | XErr => None
    end.

  Lemma walk_fields_x_ok fs : forall vs fuel c bm r,
    Forall (field_ok fd o rec bx fs) vs -> (length vs < fuel)%nat ->
    walk_fields_x fd o rec bx fuel fs c bm
      (flat_map (fun f => type_of (snd f) :: enc_int 2 (fst f) ++ encode (snd f)) vs ++ 0 :: r) =
    xtext c (xwalk fs vs bm).
  Proof.
    induction vs as [|[id x] vs IH]; intros fuel c bm r HF Hfuel; destruct fuel as [|fuel]; try (cbn in Hfuel; lia).
    - cbn [flat_map app walk_fields_x xwalk].
      change (negb (valid_ttype 0)) with false. change (0 =? 0) with true. cbn iota.
      rewrite walk_unsets_ok. destruct (unset_walk_bm o (sort_flds fs) bm); reflexivity.
    - inversion HF as [|? ? [Hid Hx] HF']; subst. cbn [fst snd] in *.
      cbn [flat_map walk_fields_x xwalk]. cbn [app fst snd].
      rewrite valid_ttype_type_of. cbn [negb].
      destruct (Z.eqb_spec (type_of x) 0) as [E0|_]; [exfalso; exact (valid_type_nonzero _ (type_of_valid x) E0)|].
      rewrite <- !app_assoc.
      rewrite (rd_int_sb 2 16) by (try lia; try reflexivity; exact Hid).
      destruct (find_field fs id) as [f|] eqn:Ef.
      + destruct (bx (fst f)).
        * rewrite Hx. apply IH; [exact HF'|cbn in Hfuel; lia].
        * rewrite Hx. unfold walk_spec, spec_text_p.
          destruct (fvalw o f x) as [e|e|cc]; [|reflexivity|reflexivity].
          destruct (jexp_finite e); [|reflexivity].
          destruct (negb (id =? 0)).
          -- rewrite walk_unsets_c_ok. destruct (unset_walk_bm o (sort_flds fs) (bm_clear id bm)) as [us|]; [|reflexivity].
             cbn [xtext]. rewrite app_nil_r. reflexivity.
          -- rewrite IH by (try exact HF'; cbn in Hfuel; lia).
             destruct (xwalk fs vs (bm_clear id bm)) as [ms|e' us|]; cbn [xtext]; try reflexivity.
             rewrite <- obj_tail_cons. reflexivity.
      + destruct (o_disallow_unknown o); [reflexivity|].
        rewrite Hx. apply IH; [exact HF'|cbn in Hfuel; lia].
  Qed.
End ExcLoop.

(* do under ConvertException on the encoding of a conforming struct: the text is that of [xwalk] *)
Theorem walk_rootx_refines_partial fd o fs vs n r : o_convert_exception o = true ->
  wf (VStruct vs) = true -> conforms (VStruct vs) (DStruct fs) = true -> desc_wf (DStruct fs) = true -> base_is_struct (DStruct fs) ->
  (depth (VStruct vs) <= S n)%nat -> (depth (VStruct vs) <= max_skip_depth)%nat ->
  t2j_walk_rootx fd o (S n) (DStruct fs) (encode (VStruct vs) ++ r) =
  match xwalk o (root_bx o) fs vs (bm_init fs) with
  | XObj ms => Some (WText (jexp_print fd (EObj ms)))
  | XExc e us => Some (WExc (jexp_print fd e ++ obj_mems fd true us))
  | XErr => None
  end.
Proof.
  intros Hce Hw Hc Hdw Hbs Hd Hs. cbn [depth] in Hd. apply le_S_n in Hd.
  cbn [t2j_walk_rootx]. rewrite Hce. cbn [encode]. rewrite <- app_assoc. cbn [app].
  rewrite (walk_fields_x_ok fd o (t2j_walk_gen fd o n) (root_bx o) fs vs).
  - destruct (xwalk o (root_bx o) fs vs (bm_init fs)) as [ms|e us|]; cbn [xtext]; try reflexivity.
    rewrite print_obj. reflexivity.
  - apply (fields_obligations fd o (root_bx o) fs vs n); auto.
    + intros f Hin Hb. apply (Hbs f Hin). unfold root_bx in Hb. apply andb_true_iff in Hb. exact (proj2 Hb).
    + apply Forall_forall. intros f _. apply walk_refines_w.
  - rewrite app_length. cbn [length].
    pose proof (flat_map_length_ge (fun f : Z * tval => type_of (snd f) :: enc_int 2 (fst f) ++ encode (snd f)) vs
      ltac:(intros; cbn [length]; lia)). lia.
Qed.

(* without ConvertException (or on a non-struct root) t2j_walk_rootx is t2j_walk_root *)
Lemma walk_rootx_plain fd o n d bs : o_convert_exception o = false ->
  t2j_walk_rootx fd o n d bs = match t2j_walk_root fd o n d bs with Some (t, _) => Some (WText t) | None => None end.
Proof. intros Hce. unfold t2j_walk_rootx. destruct d; try reflexivity. destruct n; [reflexivity|]. rewrite Hce. reflexivity. Qed.
