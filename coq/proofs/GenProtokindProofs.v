(* (G) the kind tables of the Protobuf descriptors (proto/type.go, proto/descriptor.go), translated from the Go source on every
   build (gen/Gen_proto.v, gen/Gen_protokind.v), against the models' tables: wt_of_kind / is_numeric (ProtoMsg.v), packable and the
   list/map typing of elab_field (PIdl.v), is_int_kind (J2P.v), wire_of_type (ProtoEditCoded.v).  Kinds and types are bytes. *)
From Coq Require Import ZArith List Bool Lia.
From DG Require Import GoSem GoSemLemmas GenThriftProofs CaseFormat Check20g Gen_protokind.
From DG Require Gen_proto ProtoMsg PIdl J2P ProtoEditCoded.
Import ListNotations.
Local Open Scope Z_scope.

Lemma byte_sweep_if (C P : Z -> bool) : forallb (fun t => implb (C t) (P t)) (seqZ 0 256) = true ->
  forall t, 0 <= t < 256 -> C t = true -> P t = true.
Proof. intros H t Ht Hc. pose proof (byte_sweep _ H t Ht) as Hi. cbv beta in Hi. rewrite Hc in Hi. exact Hi. Qed.

Lemma model_kind_range k : model_kind k = true -> 0 <= k < 256.
Proof.
  unfold model_kind, ProtoMsg.wt_of_kind. intros H.
  repeat match type of H with context [k =? ?b] => destruct (Z.eqb_spec k b); [lia|] end. cbn in H. discriminate.
Qed.

Definition opt_b_is (g : option bool) (b : bool) : bool := match g with Some x => Bool.eqb x b | None => false end.
Definition opt_z_is (g : option Z) (z : Z) : bool := match g with Some x => x =? z | None => false end.
Lemma opt_b_is_eq g b : opt_b_is g b = true -> g = Some b.
Proof. destruct g as [x|]; [|discriminate]. cbn. intros H. apply eqb_prop in H. subst. reflexivity. Qed.
Lemma opt_z_is_eq g z : opt_z_is g z = true -> g = Some z.
Proof. destruct g as [x|]; [|discriminate]. cbn. intros H. apply Z.eqb_eq in H. subst. reflexivity. Qed.

(* Kind2Wire (both generated copies) is the model's wire type on every kind the models cover *)
Theorem Kind2Wire_is_wt_of_kind k : model_kind k = true -> Kind2Wire k = ProtoMsg.wt_of_kind k /\ Gen_proto.Kind2Wire k = ProtoMsg.wt_of_kind k.
Proof.
  intros H. pose proof (model_kind_range k H) as R.
  assert (E : (Kind2Wire k =? ProtoMsg.wt_of_kind k) && (Gen_proto.Kind2Wire k =? ProtoMsg.wt_of_kind k) = true).
  { revert k R H. apply byte_sweep_if. vm_compute. reflexivity. }
  apply andb_true_iff in E. destruct E as [E1 E2]. split; apply Z.eqb_eq; assumption.
Qed.

(* Type.IsPacked on a kind = the model's is_numeric = PIdl's packable; it panics exactly on LIST and MAP *)
Theorem Type_IsPacked_is_numeric k : model_kind k = true ->
  Type_IsPacked k = Some (ProtoMsg.is_numeric k) /\ ProtoMsg.is_numeric k = PIdl.packable k.
Proof.
  intros H. pose proof (model_kind_range k H) as R.
  assert (E : opt_b_is (Type_IsPacked k) (ProtoMsg.is_numeric k) && Bool.eqb (ProtoMsg.is_numeric k) (PIdl.packable k) = true).
  { revert k R H. apply byte_sweep_if. vm_compute. reflexivity. }
  apply andb_true_iff in E. destruct E as [E1 E2]. split; [apply opt_b_is_eq; exact E1 | apply eqb_prop; exact E2].
Qed.

Theorem Type_IsPacked_is_packable k : 1 <= k <= 18 -> Type_IsPacked k = Some (PIdl.packable k).
Proof.
  intros H. apply opt_b_is_eq. assert (R : 0 <= k < 256) by lia. assert (C : (1 <=? k) && (k <=? 18) = true) by lia.
  clear H. revert k R C. apply byte_sweep_if. vm_compute. reflexivity.
Qed.

Theorem Type_IsPacked_panics_iff t : 0 <= t < 256 -> (Type_IsPacked t = None <-> t = 19 \/ t = 20).
Proof.
  intros R. assert (E : Bool.eqb (match Type_IsPacked t with None => true | Some _ => false end) ((t =? 19) || (t =? 20)) = true).
  { revert t R. apply byte_sweep. vm_compute. reflexivity. }
  apply eqb_prop in E. split.
  - intros H. rewrite H in E. symmetry in E. apply orb_true_iff in E. destruct E as [E|E]; apply Z.eqb_eq in E; auto.
  - intros [H|H]; subst t; reflexivity.
Qed.

(* Type.TypeToKind: identity on kinds, MAP is a message, UNKNOWN / ERROR have kind 0, LIST panics *)
Theorem Type_TypeToKind_spec :
  (forall k, model_kind k = true -> Type_TypeToKind k = Some k) /\
  Type_TypeToKind 20 = Some 11 /\ Type_TypeToKind 0 = Some 0 /\ Type_TypeToKind 255 = Some 0 /\ Type_TypeToKind 19 = None.
Proof.
  split; [|repeat split; reflexivity].
  intros k H. pose proof (model_kind_range k H) as R. apply opt_z_is_eq. revert k R H. apply byte_sweep_if. vm_compute. reflexivity.
Qed.

(* TypeDescriptor.WireType = Kind2Wire[typ.TypeToKind()]: the model's wire type for a scalar / message descriptor, length-delimited
   for a map (ProtoEditCoded.wire_of_type), panic for a list *)
Theorem TypeDescriptor_WireType_spec :
  (forall k, model_kind k = true -> TypeDescriptor_WireType {| TypeDescriptor_WireType_f_typ := k |} = Some (ProtoMsg.wt_of_kind k)) /\
  TypeDescriptor_WireType {| TypeDescriptor_WireType_f_typ := 20 |} = Some (ProtoEditCoded.wire_of_type ProtoEditCoded.T_MAP) /\
  TypeDescriptor_WireType {| TypeDescriptor_WireType_f_typ := 19 |} = None /\
  (forall k, model_kind k = true -> ProtoEditCoded.wire_of_type k = ProtoMsg.wt_of_kind k).
Proof.
  split; [|split; [reflexivity|split; [reflexivity|]]].
  - intros k H. pose proof (model_kind_range k H) as R. apply opt_z_is_eq. revert k R H. apply byte_sweep_if. vm_compute. reflexivity.
  - intros k H. pose proof (model_kind_range k H) as R. apply Z.eqb_eq. revert k R H. apply byte_sweep_if. vm_compute. reflexivity.
Qed.

(* NeedVarint / IsInt (gen/Gen_proto.v) *)
Theorem Type_NeedVarint_is_wt0 k : model_kind k = true -> Gen_proto.Type_NeedVarint k = (ProtoMsg.wt_of_kind k =? 0).
Proof. intros H. pose proof (model_kind_range k H) as R. apply eqb_prop. revert k R H. apply byte_sweep_if. vm_compute. reflexivity. Qed.

Theorem Type_IsInt_is_int_kind t : 0 <= t < 256 -> Gen_proto.Type_IsInt t = J2P.is_int_kind t.
Proof. intros R. apply eqb_prop. revert t R. apply byte_sweep. vm_compute. reflexivity. Qed.

(* ---------------------------------------------------------------- descriptors as PIdl elaborates them *)
(* the atoms TypeDescriptor.IsPacked reads, for the field descriptor the model elaborates from a declaration:
   typ = mf_ty, elem.typ = mf_elemty, unpacked = the declaration carries [packed = false] (proto/idl.go declaredUnpacked) *)
Definition td_of {R} (mf : PIdl.mfield R) (fd : PIdl.fdecl) : TypeDescriptor_IsPacked_t :=
  {| TypeDescriptor_IsPacked_t_elem_typ := PIdl.mf_elemty mf; TypeDescriptor_IsPacked_t_typ := PIdl.mf_ty mf;
     TypeDescriptor_IsPacked_t_unpacked := (PIdl.fd_packopt fd =? 2) |}.

Lemma TypeDescriptor_IsPacked_unfold t :
  TypeDescriptor_IsPacked t =
    if negb (TypeDescriptor_IsPacked_t_typ t =? 19) then Some false
    else if negb (TypeDescriptor_IsPacked_t_unpacked t) then Type_IsPacked (TypeDescriptor_IsPacked_t_elem_typ t) else Some false.
Proof. reflexivity. Qed.

Theorem TypeDescriptor_IsPacked_is_mf_packed tab m fd :
  (PIdl.fd_label fd = 0 \/ PIdl.fd_label fd = 1 \/ PIdl.fd_label fd = 2) ->
  1 <= fst (PIdl.elem_of tab m fd) <= 18 ->
  TypeDescriptor_IsPacked (td_of (PIdl.elab_field tab m fd) fd) = Some (PIdl.mf_packed (PIdl.elab_field tab m fd)).
Proof.
  intros Hl Hk. unfold PIdl.elab_field. destruct (PIdl.elem_of tab m fd) as [ek em] eqn:E. cbn [fst] in Hk.
  rewrite TypeDescriptor_IsPacked_unfold.
  destruct Hl as [Hl|[Hl|Hl]]; rewrite Hl; cbn [Z.eqb Pos.eqb td_of PIdl.mf_ty PIdl.mf_elemty PIdl.mf_packed
    TypeDescriptor_IsPacked_t_typ TypeDescriptor_IsPacked_t_elem_typ TypeDescriptor_IsPacked_t_unpacked].
  - destruct (Z.eqb_spec ek 19) as [H19|H19]; [lia|]. reflexivity.
  - change (PIdl.T_LIST =? 19) with true. cbn [negb]. rewrite Type_IsPacked_is_packable by exact Hk.
    destruct (PIdl.fd_packopt fd =? 2); cbn [negb]; [rewrite andb_false_r|rewrite andb_true_r]; reflexivity.
  - reflexivity.
Qed.

(* the type byte of the elaborated field is FromProtoKindToType(kind, isList, isMap) *)
Theorem FromProtoKindToType_is_mf_ty tab m fd :
  (PIdl.fd_label fd = 0 \/ PIdl.fd_label fd = 1 \/ PIdl.fd_label fd = 2) -> 0 <= fst (PIdl.elem_of tab m fd) < 256 ->
  PIdl.mf_ty (PIdl.elab_field tab m fd) =
    Gen_proto.FromProtoKindToType (PIdl.mf_kind (PIdl.elab_field tab m fd)) (PIdl.fd_label fd =? 1) (PIdl.fd_label fd =? 2).
Proof.
  intros Hl Hk. unfold PIdl.elab_field. destruct (PIdl.elem_of tab m fd) as [ek em]. cbn [fst] in Hk.
  destruct Hl as [Hl|[Hl|Hl]]; rewrite Hl; cbn [Z.eqb Pos.eqb PIdl.mf_ty PIdl.mf_kind]; unfold Gen_proto.FromProtoKindToType; try reflexivity.
  unfold wrapu. change (2 ^ 8) with 256. rewrite Z.mod_small by lia. reflexivity.
Qed.
