(* (G) the finite tests of conv/p2j (checkFinite) and conv/t2j (inline in doRecurse, case DOUBLE), translated from the Go source on every
   build (gen/Gen_p2jfinite.v, gen/Gen_t2jfinite.v), against Num.f64_is_finite, the test behind pj_finite (P2J.v) and jexp_finite (T2J.v). *)
From Coq Require Import ZArith List Bool Lia.
From DG Require Import GoSem Num.
From DG Require Gen_p2jfinite Gen_t2jfinite.
Import ListNotations.
Local Open Scope Z_scope.

Lemma expo_field b : 0 <= b -> Z.land (Z.shiftr b 52) 2047 = (b / 2 ^ 52) mod 2048.
Proof. intros H. rewrite Z.shiftr_div_pow2 by lia. change 2047 with (Z.ones 11). rewrite Z.land_ones by lia. reflexivity. Qed.

(* NaN or infinite <=> exponent field all ones <=> not f64_is_finite (math.IsNaN / math.IsInf read as tests on the bit pattern) *)
Lemma nan_or_inf_is_not_finite (isnan : Z -> bool) (isinf : Z -> Z -> bool) b :
  (isnan b = (Z.land (Z.shiftr b 52) 2047 =? 2047) && negb (Z.land b 4503599627370495 =? 0)) ->
  (isinf b 0 = (Z.land (Z.shiftr b 52) 2047 =? 2047) && (Z.land b 4503599627370495 =? 0) && true) ->
  0 <= b -> orb (isnan b) (isinf b 0) = negb (f64_is_finite b).
Proof.
  intros Hn Hi Hb. rewrite Hn, Hi. unfold f64_is_finite. rewrite expo_field by exact Hb. rewrite negb_involutive.
  destruct ((b / 2 ^ 52) mod 2048 =? 2047); [|reflexivity]. destruct (Z.land b 4503599627370495 =? 0); reflexivity.
Qed.

Theorem checkFinite_is_finite b e : 0 <= b ->
  Gen_p2jfinite.checkFinite b e =
    if f64_is_finite b then (0, []) else (e, [(Gen_p2jfinite.Eff_wrapError, [6])]).
Proof.
  intros Hb. unfold Gen_p2jfinite.checkFinite.
  rewrite (nan_or_inf_is_not_finite Gen_p2jfinite.f64_isnan Gen_p2jfinite.f64_isinf b) by (reflexivity || exact Hb).
  destruct (f64_is_finite b); reflexivity.
Qed.

Theorem double_not_finite_is_finite b : 0 <= b -> Gen_t2jfinite.double_not_finite b = negb (f64_is_finite b).
Proof.
  intros Hb. unfold Gen_t2jfinite.double_not_finite.
  apply (nan_or_inf_is_not_finite Gen_t2jfinite.f64_isnan Gen_t2jfinite.f64_isinf b); (reflexivity || exact Hb).
Qed.
