(* Theorems about cutting (ThriftCut.v): the spec-level projection [project] and its refinement by the
   byte-level walker [cut] that mirrors thrift/generic marshalTo. *)
From Coq Require Import ZArith List Bool Lia.
From DG Require Import ProtoWireRef ProtoWireRefProofs ThriftWire ThriftWireProofs ThriftCut.
Import ListNotations.
Local Open Scope Z_scope.

(* ---------------------------------------------------------------- basics *)
Lemma find_fld_some id fs f : find_fld id fs = Some f -> In f fs /\ fld_id f = id.
Proof.
  unfold find_fld. intros H. apply find_some in H. destruct H as [Hin He]. apply Z.eqb_eq in He. auto.
Qed.

Lemma find_fld_none id fs : find_fld id fs = None -> forall f, In f fs -> fld_id f <> id.
Proof.
  unfold find_fld. intros H f Hin E. apply (find_none _ _ H) in Hin. apply Z.eqb_neq in Hin. contradiction.
Qed.

Lemma mem_id_true id l : mem_id id l = true <-> In id l.
Proof.
  unfold mem_id. rewrite existsb_exists. split.
  - intros [x [Hin He]]. apply Z.eqb_eq in He. subst. exact Hin.
  - intros H. exists id. split; [exact H|apply Z.eqb_refl].
Qed.

Lemma insert_sorted_in f g l : In g (insert_sorted_fld f l) <-> g = f \/ In g l.
Proof.
  unfold insert_sorted_fld. induction l as [|h r IH].
  - cbn. intuition.
  - cbn [In]. destruct (fld_id f <? fld_id h).
    + cbn [In]. intuition.
    + cbn [In]. rewrite IH. intuition.
Qed.

Lemma sort_flds_in g l : In g (sort_flds l) <-> In g l.
Proof.
  unfold sort_flds. induction l as [|h r IH]; cbn [fold_right In]; [reflexivity|].
  rewrite insert_sorted_in, IH. intuition.
Qed.

Lemma existsb_ext_in {A} (p : A -> bool) (l1 l2 : list A) :
  (forall x, In x l1 <-> In x l2) -> existsb p l1 = existsb p l2.
Proof.
  intros H. apply eq_true_iff_eq. rewrite !existsb_exists. split; intros [x [Hin Hp]]; exists x; split; auto; apply H; auto.
Qed.

Lemma forallb_ext_in {A} (p : A -> bool) (l1 l2 : list A) :
  (forall x, In x l1 <-> In x l2) -> forallb p l1 = forallb p l2.
Proof.
  intros H. apply eq_true_iff_eq. rewrite !forallb_forall. split; intros Hp x Hin; apply Hp; apply H; auto.
Qed.

Lemma map_fst_filter {A B} (p : A -> bool) (l : list (A * B)) :
  map fst (filter (fun x => p (fst x)) l) = filter p (map fst l).
Proof.
  induction l as [|[a b] l IH]; [reflexivity|]. cbn [filter map fst]. destruct (p a); cbn [map fst]; rewrite IH; reflexivity.
Qed.

(* ---------------------------------------------------------------- the owed set at STOP (handleUnsets / CheckRequires) *)
Definition zero_or (t : ty) : tval := match zero_of t with Some z => z | None => VStruct [] end.
(* a target field that is zero-filled: not written, tracked by the bitmap, not required, WriteDefault on *)
Definition is_filled (o : cut_opts) (w : list Z) (f : fdesc) : bool :=
  negb (mem_id (fld_id f) w) && tracked o f && negb (fld_req f =? 1) && o_write_default o.
(* a required target field that was not written *)
Definition is_missing (w : list Z) (f : fdesc) : bool := negb (mem_id (fld_id f) w) && (fld_req f =? 1).
Definition tys_ok (tfs : list fdesc) : Prop := forall f, In f tfs -> zero_of (fld_ty f) <> None.

Lemma owed_closed_form o tfs w : tys_ok tfs ->
  owed o tfs w = if existsb (is_missing w) tfs then CErr 3
                 else COk (map (fun f => (fld_id f, zero_or (fld_ty f))) (filter (is_filled o w) tfs)).
Proof.
  induction tfs as [|f r IH]; intros Hok; [reflexivity|].
  assert (Hr : tys_ok r) by (intros g Hg; apply Hok; right; exact Hg).
  specialize (IH Hr). cbn [owed existsb filter].
  unfold is_missing at 1, is_filled at 1, tracked.
  destruct (mem_id (fld_id f) w) eqn:Em; cbn [negb andb orb]; [exact IH|].
  destruct (Z.eqb_spec (fld_req f) 2) as [E2|E2]; cbn [negb orb].
  - destruct (o_opt_bitmap o); cbn [negb andb orb].
    + destruct (Z.eqb_spec (fld_req f) 1) as [E1|E1]; [lia|]. cbn [negb andb orb].
      destruct (o_write_default o); cbn [negb]; [|exact IH].
      rewrite IH. specialize (Hok f (or_introl eq_refl)).
      destruct (zero_of (fld_ty f)) as [t|] eqn:Ez; [|contradiction].
      assert (Hz : zero_or (fld_ty f) = t) by (unfold zero_or; rewrite Ez; reflexivity).
      cbn [map]. rewrite Hz. destruct (existsb (is_missing w) r); reflexivity.
    + destruct (Z.eqb_spec (fld_req f) 1) as [E1|E1]; [lia|]. exact IH.
  - destruct (Z.eqb_spec (fld_req f) 1) as [E1|E1]; cbn [negb andb orb]; [reflexivity|].
    destruct (o_write_default o); cbn [negb]; [|exact IH].
    rewrite IH. specialize (Hok f (or_introl eq_refl)).
      destruct (zero_of (fld_ty f)) as [t|] eqn:Ez; [|contradiction].
      assert (Hz : zero_or (fld_ty f) = t) by (unfold zero_or; rewrite Ez; reflexivity).
      cbn [map]. rewrite Hz. destruct (existsb (is_missing w) r); reflexivity.
Qed.

Lemma finish_struct_closed_form o tfs kept : tys_ok tfs ->
  finish_struct o tfs kept =
    if o_not_check_req o then COk (VStruct kept)
    else if existsb (is_missing (map fst kept)) tfs then CErr 3
    else COk (VStruct (kept ++ map (fun f => (fld_id f, zero_or (fld_ty f))) (filter (is_filled o (map fst kept)) (sort_flds tfs)))).
Proof.
  intros Hok. unfold finish_struct. destruct (o_not_check_req o); [reflexivity|].
  rewrite owed_closed_form by (intros f Hf; apply Hok; apply sort_flds_in; exact Hf).
  rewrite (existsb_ext_in _ (sort_flds tfs) tfs) by (intros x; apply sort_flds_in).
  destruct (existsb (is_missing (map fst kept)) tfs); reflexivity.
Qed.

(* ---------------------------------------------------------------- spec level *)
Definition in_both (ffs tfs : list fdesc) (id : Z) : bool :=
  match find_fld id ffs, find_fld id tfs with Some _, Some _ => true | _, _ => false end.

Section Spec.
  Variable d : defs.
  Variable o : cut_opts.

  Lemma project_type_of pe fuel from to v v' : project d o pe fuel from to v = COk v' -> type_of v' = type_of v.
  Proof.
    destruct fuel as [|f]; [discriminate|]. cbn [project].
    destruct to as [tc|b|te|te|tk te].
    - destruct (type_code from =? tc); intros H; inversion H; reflexivity.
    - destruct from; try discriminate; destruct v; try discriminate.
      destruct (pe _ _); [intros H; inversion H; reflexivity|].
      destruct (struct_def d idx); try discriminate. destruct (struct_def d b); try discriminate.
      destruct (proj_fields _ _ _ _ _); try discriminate. unfold finish_struct.
      destruct (o_not_check_req o); [intros H; inversion H; reflexivity|].
      destruct (owed _ _ _); intros H; inversion H; reflexivity.
    - destruct (elem_ty from); try discriminate. destruct (pe _ _).
      + destruct (_ =? _); intros H; inversion H; reflexivity.
      + destruct v; try discriminate; destruct (proj_elems _ _ _ _); intros H; inversion H; reflexivity.
    - destruct (elem_ty from); try discriminate. destruct (pe _ _).
      + destruct (_ =? _); intros H; inversion H; reflexivity.
      + destruct v; try discriminate; destruct (proj_elems _ _ _ _); intros H; inversion H; reflexivity.
    - destruct from; try discriminate. destruct (_ && _); [intros H; inversion H; reflexivity|].
      destruct v; try discriminate; destruct (proj_pairs _ _ _ _ _ _); intros H; inversion H; reflexivity.
  Qed.

  (* the struct loop keeps exactly the fields whose id is declared by both descriptors, in source order, each
     replaced by its own projection *)
  Lemma proj_fields_exact rec ffs tfs fs kept : proj_fields o rec ffs tfs fs = COk kept ->
    Forall2 (fun p q => fst q = fst p /\ exists ff tf, find_fld (fst p) ffs = Some ff /\ find_fld (fst p) tfs = Some tf /\
                                                   rec (fld_ty ff) (fld_ty tf) (snd p) = COk (snd q))
            (filter (fun p => in_both ffs tfs (fst p)) fs) kept.
  Proof.
    revert kept. induction fs as [|[id x] r IH]; intros kept H; cbn [proj_fields] in H.
    - inversion H. constructor.
    - cbn [filter fst]. unfold in_both at 1.
      destruct (find_fld id ffs) as [ff|] eqn:Ef.
      + destruct (negb (type_of x =? type_code (fld_ty ff))); [discriminate|].
        destruct (find_fld id tfs) as [tf|] eqn:Et; [|apply IH; exact H].
        destruct (rec (fld_ty ff) (fld_ty tf) x) as [x'|] eqn:Er; [|discriminate].
        destruct (proj_fields o rec ffs tfs r) as [l|] eqn:El; [|discriminate].
        inversion H; subst kept. constructor; [|apply IH; reflexivity].
        cbn [fst snd]. split; [reflexivity|]. exists ff, tf. auto.
      + destruct (o_disallow_unknown o); [discriminate|]. apply IH. exact H.
  Qed.

  Lemma Forall2_map_fst {A B} (P : A * B -> A * B -> Prop) (l1 l2 : list (A * B)) :
    Forall2 P l1 l2 -> (forall p q, P p q -> fst q = fst p) -> map fst l2 = map fst l1.
  Proof. intros H HP. induction H; [reflexivity|]. cbn [map]. f_equal; auto. Qed.

  Lemma proj_fields_ids rec ffs tfs fs kept : proj_fields o rec ffs tfs fs = COk kept ->
    map fst kept = filter (in_both ffs tfs) (map fst fs).
  Proof.
    intros H. apply proj_fields_exact in H. rewrite <- map_fst_filter.
    apply (Forall2_map_fst _ _ _ H). intros p q [E _]. exact E.
  Qed.

  Lemma proj_elems_exact rec fe te es l : proj_elems rec fe te es = COk l -> Forall2 (fun x x' => rec fe te x = COk x') es l.
  Proof.
    revert l. induction es as [|x r IH]; intros l H; cbn [proj_elems] in H.
    - inversion H. constructor.
    - destruct (rec fe te x) as [x'|] eqn:Er; [|discriminate].
      destruct (proj_elems rec fe te r) as [l'|]; [|discriminate]. inversion H. constructor; auto.
  Qed.

  Lemma proj_pairs_exact rec fk tk fe te es l : proj_pairs rec fk tk fe te es = COk l ->
    Forall2 (fun p q => rec fk tk (fst p) = COk (fst q) /\ rec fe te (snd p) = COk (snd q)) es l.
  Proof.
    revert l. induction es as [|[k x] r IH]; intros l H; cbn [proj_pairs] in H.
    - inversion H. constructor.
    - destruct (rec fk tk k) as [k'|] eqn:Ek; [|discriminate].
      destruct (rec fe te x) as [x'|] eqn:Er; [|discriminate].
      destruct (proj_pairs rec fk tk fe te r) as [l'|]; [|discriminate]. inversion H. constructor; auto.
  Qed.
End Spec.

(* ---------------------------------------------------------------- descriptors *)
Lemma struct_def_in d i tfs : struct_def d i = Some tfs -> In tfs d.
Proof. unfold struct_def. destruct (i <? 0); [discriminate|]. apply nth_error_In. Qed.

Lemma defs_ok_fld d i tfs f : defs_okb d = true -> struct_def d i = Some tfs -> In f tfs ->
  in_sb 16 (fld_id f) = true /\ ty_valid (fld_ty f) = true.
Proof.
  intros Hd Hs Hin. unfold defs_okb in Hd. rewrite forallb_forall in Hd. specialize (Hd _ (struct_def_in _ _ _ Hs)).
  rewrite forallb_forall in Hd. specialize (Hd _ Hin). apply andb_true_iff in Hd. exact Hd.
Qed.

Lemma is_scalar_byte c : is_scalar c = true -> byte_okb c = true.
Proof.
  unfold is_scalar. intros H. repeat (apply orb_true_iff in H; destruct H as [H|H]); apply Z.eqb_eq in H; subst; reflexivity.
Qed.

Lemma ty_valid_code_byte t : ty_valid t = true -> byte_okb (type_code t) = true.
Proof. destruct t; cbn [ty_valid type_code]; intros H; try reflexivity. apply is_scalar_byte. exact H. Qed.

Lemma zero_of_valid t : ty_valid t = true -> exists z, zero_of t = Some z /\ wf z = true /\ type_of z = type_code t.
Proof.
  destruct t as [c|i|e|e|k e]; cbn [ty_valid zero_of type_code]; intros H.
  - unfold is_scalar in H.
    repeat (apply orb_true_iff in H; destruct H as [H|H]); apply Z.eqb_eq in H; subst; cbn; eexists; repeat split; reflexivity.
  - eexists; repeat split; reflexivity.
  - eexists; split; [reflexivity|]. split; [|reflexivity]. cbn [wf]. rewrite (ty_valid_code_byte _ H). reflexivity.
  - eexists; split; [reflexivity|]. split; [|reflexivity]. cbn [wf]. rewrite (ty_valid_code_byte _ H). reflexivity.
  - apply andb_true_iff in H. destruct H as [Hk He].
    eexists; split; [reflexivity|]. split; [|reflexivity]. cbn [wf]. rewrite (ty_valid_code_byte _ Hk), (ty_valid_code_byte _ He). reflexivity.
Qed.

Lemma defs_ok_tys_ok d i tfs : defs_okb d = true -> struct_def d i = Some tfs -> tys_ok tfs.
Proof.
  intros Hd Hs f Hin. destruct (defs_ok_fld _ _ _ _ Hd Hs Hin) as [_ Hv].
  destruct (zero_of_valid _ Hv) as [z [Hz _]]. rewrite Hz. discriminate.
Qed.

Lemma zero_or_valid t : ty_valid t = true -> wf (zero_or t) = true /\ type_of (zero_or t) = type_code t.
Proof. intros H. destruct (zero_of_valid _ H) as [z [Hz [Hw Ht]]]. unfold zero_or. rewrite Hz. auto. Qed.

Section Spec2.
  Variable d : defs.
  Variable o : cut_opts.

  (* ---- exactness of the struct case ---- *)
  Theorem project_struct_exact pe f a b ffs tfs fs out :
    struct_def d a = Some ffs -> struct_def d b = Some tfs -> tys_ok tfs ->
    pe (TStruct a) (TStruct b) = false ->
    project d o pe (S f) (TStruct a) (TStruct b) (VStruct fs) = COk (VStruct out) ->
    exists kept,
      Forall2 (fun p q => fst q = fst p /\ exists ff tf, find_fld (fst p) ffs = Some ff /\ find_fld (fst p) tfs = Some tf /\
                                                     project d o pe f (fld_ty ff) (fld_ty tf) (snd p) = COk (snd q))
              (filter (fun p => in_both ffs tfs (fst p)) fs) kept /\
      map fst kept = filter (in_both ffs tfs) (map fst fs) /\
      out = kept ++ (if o_not_check_req o then []
                     else map (fun tf => (fld_id tf, zero_or (fld_ty tf))) (filter (is_filled o (map fst kept)) (sort_flds tfs))) /\
      (o_not_check_req o = false -> forall tf, In tf tfs -> fld_req tf = 1 -> In (fld_id tf) (map fst kept)).
  Proof.
    intros Ha Hb Hok Hpe H. cbn [project] in H. rewrite Hpe, Ha, Hb in H.
    destruct (proj_fields o (project d o pe f) ffs tfs fs) as [kept|] eqn:Ek; [|discriminate].
    exists kept. split; [apply (proj_fields_exact o); exact Ek|]. split; [apply (proj_fields_ids _ _ _ _ _ _ Ek)|].
    rewrite finish_struct_closed_form in H by exact Hok.
    destruct (o_not_check_req o).
    - inversion H. split; [rewrite app_nil_r; reflexivity|]. discriminate.
    - destruct (existsb (is_missing (map fst kept)) tfs) eqn:Ex; [discriminate|]. inversion H. split; [reflexivity|].
      intros _ tf Hin Hreq. destruct (mem_id (fld_id tf) (map fst kept)) eqn:Em; [apply mem_id_true; exact Em|].
      exfalso. assert (existsb (is_missing (map fst kept)) tfs = true); [|congruence].
      apply existsb_exists. exists tf. split; [exact Hin|]. unfold is_missing. rewrite Em, Hreq. reflexivity.
  Qed.

  (* ---- requiredness: a missing required target field is an error exactly when checking is enabled ---- *)
  Theorem project_missing_required pe f a b ffs tfs fs kept :
    struct_def d a = Some ffs -> struct_def d b = Some tfs -> tys_ok tfs ->
    pe (TStruct a) (TStruct b) = false ->
    proj_fields o (project d o pe f) ffs tfs fs = COk kept ->
    (project d o pe (S f) (TStruct a) (TStruct b) (VStruct fs) = CErr 3 <->
     o_not_check_req o = false /\ exists tf, In tf tfs /\ fld_req tf = 1 /\ ~ In (fld_id tf) (map fst kept)) /\
    (forall c, project d o pe (S f) (TStruct a) (TStruct b) (VStruct fs) = CErr c -> c = 3).
  Proof.
    intros Ha Hb Hok Hpe Ek. cbn [project]. rewrite Hpe, Ha, Hb, Ek.
    rewrite finish_struct_closed_form by exact Hok.
    destruct (o_not_check_req o).
    - split; [split; [discriminate|intros [? _]; discriminate]|discriminate].
    - destruct (existsb (is_missing (map fst kept)) tfs) eqn:Ex.
      + split; [|intros c Hc; inversion Hc; reflexivity]. split; [intros _|reflexivity]. split; [reflexivity|].
        apply existsb_exists in Ex. destruct Ex as [tf [Hin Hm]]. exists tf. unfold is_missing in Hm.
        apply andb_true_iff in Hm. destruct Hm as [Hm Hr]. apply Z.eqb_eq in Hr. apply negb_true_iff in Hm.
        repeat split; auto. intros Hi. apply mem_id_true in Hi. congruence.
      + split; [|discriminate]. split; [discriminate|]. intros [_ [tf [Hin [Hr Hn]]]]. exfalso.
        assert (existsb (is_missing (map fst kept)) tfs = true); [|congruence].
        apply existsb_exists. exists tf. split; [exact Hin|]. unfold is_missing. rewrite Hr.
        destruct (mem_id (fld_id tf) (map fst kept)) eqn:Em; [apply mem_id_true in Em; contradiction|reflexivity].
  Qed.

  (* ---- default-requiredness target fields absent from the source are zero-filled exactly under WriteDefault ---- *)
  Theorem project_default_fill pe f a b ffs tfs fs out tf :
    struct_def d a = Some ffs -> struct_def d b = Some tfs -> tys_ok tfs ->
    pe (TStruct a) (TStruct b) = false ->
    project d o pe (S f) (TStruct a) (TStruct b) (VStruct fs) = COk (VStruct out) ->
    o_not_check_req o = false ->
    In tf tfs -> fld_req tf = 0 -> ~ In (fld_id tf) (filter (in_both ffs tfs) (map fst fs)) ->
    (In (fld_id tf) (map fst out) <-> o_write_default o = true) /\
    (o_write_default o = true -> In (fld_id tf, zero_or (fld_ty tf)) out).
  Proof.
    intros Ha Hb Hok Hpe H Hnc Hin Hreq Hnot.
    destruct (project_struct_exact _ _ _ _ _ _ _ _ Ha Hb Hok Hpe H) as [kept [_ [Hids [Hout _]]]].
    rewrite Hnc in Hout. rewrite <- Hids in Hnot.
    assert (Hfill : o_write_default o = true -> In tf (filter (is_filled o (map fst kept)) (sort_flds tfs))).
    { intros Hwd. apply filter_In. split; [apply sort_flds_in; exact Hin|]. unfold is_filled, tracked. rewrite Hreq, Hwd.
      destruct (mem_id (fld_id tf) (map fst kept)) eqn:Em; [apply mem_id_true in Em; contradiction|reflexivity]. }
    split; [split|].
    - intros Hi. rewrite Hout, map_app in Hi. apply in_app_or in Hi. destruct Hi as [Hi|Hi]; [contradiction|].
      rewrite map_map in Hi. cbn [fst] in Hi. apply in_map_iff in Hi. destruct Hi as [g [_ Hg]].
      apply filter_In in Hg. destruct Hg as [_ Hg]. unfold is_filled in Hg. apply andb_true_iff in Hg. apply Hg.
    - intros Hwd. rewrite Hout, map_app. apply in_or_app. right. rewrite map_map. cbn [fst].
      apply in_map_iff. exists tf. split; [reflexivity|apply Hfill; exact Hwd].
    - intros Hwd. rewrite Hout. apply in_or_app. right. apply in_map_iff. exists tf. split; [reflexivity|apply Hfill; exact Hwd].
  Qed.

  (* ---- scalars, list elements, map entries: values unchanged / projected element-wise ---- *)
  Theorem project_scalar_unchanged pe fuel from c v v' : project d o pe fuel from (TScalar c) v = COk v' -> v' = v.
  Proof. destruct fuel; [discriminate|]. cbn [project]. destruct (_ =? _); intros H; inversion H; reflexivity. Qed.

  Theorem project_list_exact pe f fe te et es v' :
    pe fe te = false -> project d o pe (S f) (TList fe) (TList te) (VList et es) = COk v' ->
    exists l, v' = VList et l /\ Forall2 (fun x x' => project d o pe f fe te x = COk x') es l.
  Proof.
    intros Hpe H. cbn [project elem_ty] in H. rewrite Hpe in H.
    destruct (proj_elems (project d o pe f) fe te es) as [l|] eqn:El; [|discriminate]. inversion H.
    exists l. split; [reflexivity|apply proj_elems_exact; exact El].
  Qed.

  Theorem project_map_exact pe f fk tk fe te kt vt es v' :
    pe fe te && pe fk tk = false -> project d o pe (S f) (TMap fk fe) (TMap tk te) (VMap kt vt es) = COk v' ->
    exists l, v' = VMap kt vt l /\
      Forall2 (fun p q => project d o pe f fk tk (fst p) = COk (fst q) /\ project d o pe f fe te (snd p) = COk (snd q)) es l.
  Proof.
    intros Hpe H. cbn [project] in H. rewrite Hpe in H.
    destruct (proj_pairs (project d o pe f) fk tk fe te es) as [l|] eqn:El; [|discriminate]. inversion H.
    exists l. split; [reflexivity|apply proj_pairs_exact; exact El].
  Qed.
End Spec2.

Lemma Forall2_length' {A B} (P : A -> B -> Prop) l1 l2 : Forall2 P l1 l2 -> length l2 = length l1.
Proof. induction 1; cbn [length]; congruence. Qed.

Lemma Forall2_forallb {A B} (P : A -> B -> Prop) (p : A -> bool) (q : B -> bool) l1 l2 :
  Forall2 P l1 l2 -> (forall a b, In a l1 -> P a b -> p a = true -> q b = true) -> forallb p l1 = true -> forallb q l2 = true.
Proof.
  induction 1 as [|a b l1 l2 Hab H IH]; intros HP Hp; [reflexivity|]. cbn [forallb] in *.
  apply andb_true_iff in Hp. destruct Hp as [Hpa Hpl]. apply andb_true_iff. split.
  - apply (HP a b); [left; reflexivity|exact Hab|exact Hpa].
  - apply IH; [|exact Hpl]. intros a' b' Hin. apply HP. right. exact Hin.
Qed.

Section Spec3.
  Variable d : defs.
  Variable o : cut_opts.
  Hypothesis Hd : defs_okb d = true.

  (* ---- the projection of a well-formed value is well-formed (so it decodes back: decode_encode) ---- *)
  Theorem project_wf pe : forall fuel from to v v', wf v = true -> project d o pe fuel from to v = COk v' -> wf v' = true.
  Proof.
    induction fuel as [|f IH]; intros from to v v' Hwf H; [discriminate|]. cbn [project] in H.
    destruct to as [tc|b|te|te|tk te].
    - destruct (type_code from =? tc); inversion H; subst; exact Hwf.
    - destruct from as [|a| | |]; try discriminate; destruct v as [| | | | | | |fs| | |]; try discriminate.
      destruct (pe _ _); [inversion H; subst; exact Hwf|].
      destruct (struct_def d a) as [ffs|] eqn:Ea; try discriminate. destruct (struct_def d b) as [tfs|] eqn:Eb; try discriminate.
      destruct (proj_fields o (project d o pe f) ffs tfs fs) as [kept|] eqn:Ek; [|discriminate].
      assert (Hkept : forallb (fun p => in_sb 16 (fst p) && wf (snd p)) kept = true).
      { pose proof (proj_fields_exact o _ _ _ _ _ Ek) as HF.
        cbn [wf] in Hwf.
        assert (Hsub : forallb (fun p => in_sb 16 (fst p) && wf (snd p)) (filter (fun p => in_both ffs tfs (fst p)) fs) = true).
        { rewrite forallb_forall in *. intros p Hp. apply filter_In in Hp. apply Hwf. apply Hp. }
        refine (Forall2_forallb _ _ _ _ _ HF _ Hsub). intros p q _ [Eid [ff [tf [_ [_ Hp]]]]] Hpq.
        apply andb_true_iff in Hpq. destruct Hpq as [Hi Hw]. rewrite Eid, Hi. cbn [andb]. exact (IH _ _ _ _ Hw Hp). }
      rewrite finish_struct_closed_form in H by (eapply defs_ok_tys_ok; eauto).
      destruct (o_not_check_req o); [inversion H; subst; exact Hkept|].
      destruct (existsb _ tfs); [discriminate|]. inversion H; subst. cbn [wf]. rewrite forallb_app, Hkept. cbn [andb].
      rewrite forallb_forall. intros q Hq. apply in_map_iff in Hq. destruct Hq as [tf [Eq Hin]]. subst q. cbn [fst snd].
      apply filter_In in Hin. destruct Hin as [Hin _]. apply (proj1 (sort_flds_in _ _)) in Hin.
      destruct (defs_ok_fld _ _ _ _ Hd Eb Hin) as [Hi Hv]. rewrite Hi. cbn [andb]. apply zero_or_valid. exact Hv.
    - destruct (elem_ty from) as [fe|]; try discriminate. destruct (pe _ _).
      + destruct (_ =? _); inversion H; subst; exact Hwf.
      + destruct v as [| | | | | | | | |et es|et es]; try discriminate;
        destruct (proj_elems (project d o pe f) fe te es) as [l|] eqn:El; try discriminate; inversion H; subst;
        apply proj_elems_exact in El; cbn [wf] in *; unfold zlen in *; rewrite (Forall2_length' _ _ _ El);
        apply andb_true_iff in Hwf; destruct Hwf as [Hhead Hall]; apply andb_true_iff;
        (split; [exact Hhead|]);
        refine (Forall2_forallb _ _ _ _ _ El _ Hall); intros x x' _ Hp Hx; apply andb_true_iff in Hx; destruct Hx as [Ht Hw];
        rewrite (project_type_of _ _ _ _ _ _ _ _ Hp), Ht; cbn [andb]; exact (IH _ _ _ _ Hw Hp).
    - destruct (elem_ty from) as [fe|]; try discriminate. destruct (pe _ _).
      + destruct (_ =? _); inversion H; subst; exact Hwf.
      + destruct v as [| | | | | | | | |et es|et es]; try discriminate;
        destruct (proj_elems (project d o pe f) fe te es) as [l|] eqn:El; try discriminate; inversion H; subst;
        apply proj_elems_exact in El; cbn [wf] in *; unfold zlen in *; rewrite (Forall2_length' _ _ _ El);
        apply andb_true_iff in Hwf; destruct Hwf as [Hhead Hall]; apply andb_true_iff;
        (split; [exact Hhead|]);
        refine (Forall2_forallb _ _ _ _ _ El _ Hall); intros x x' _ Hp Hx; apply andb_true_iff in Hx; destruct Hx as [Ht Hw];
        rewrite (project_type_of _ _ _ _ _ _ _ _ Hp), Ht; cbn [andb]; exact (IH _ _ _ _ Hw Hp).
    - destruct from as [| | | |fk fe]; try discriminate. destruct (_ && _); [inversion H; subst; exact Hwf|].
      destruct v as [| | | | | | | |kt vt es| |]; try discriminate.
      destruct (proj_pairs (project d o pe f) fk tk fe te es) as [l|] eqn:El; try discriminate. inversion H; subst.
      apply proj_pairs_exact in El. cbn [wf] in *. unfold zlen in *. rewrite (Forall2_length' _ _ _ El).
      apply andb_true_iff in Hwf. destruct Hwf as [Hhead Hall]. apply andb_true_iff. split; [exact Hhead|].
      refine (Forall2_forallb _ _ _ _ _ El _ Hall). intros p q _ [Hpk Hpv] Hx.
      apply andb_true_iff in Hx. destruct Hx as [Hx Hwv]. apply andb_true_iff in Hx. destruct Hx as [Hx Hwk].
      apply andb_true_iff in Hx. destruct Hx as [Htk Htv].
      rewrite (project_type_of _ _ _ _ _ _ _ _ Hpk), (project_type_of _ _ _ _ _ _ _ _ Hpv), Htk, Htv. cbn [andb].
      rewrite (IH _ _ _ _ Hwk Hpk). exact (IH _ _ _ _ Hwv Hpv).
  Qed.
End Spec3.

(* ---------------------------------------------------------------- identity and the raw-copy shortcut *)
Lemma owed_complete o tfs w : complete o tfs w = true -> owed o tfs w = COk [].
Proof.
  unfold complete. induction tfs as [|f r IH]; intros H; [reflexivity|]. cbn [forallb] in H.
  apply andb_true_iff in H. destruct H as [Hf Hr]. cbn [owed]. specialize (IH Hr).
  destruct (mem_id (fld_id f) w); cbn [orb] in *; [exact IH|].
  destruct (tracked o f); cbn [negb orb] in *; [|exact IH].
  apply andb_true_iff in Hf. destruct Hf as [H1 H2]. apply negb_true_iff in H1. rewrite H1. rewrite H2. exact IH.
Qed.

Section Ext.
  Variable o : cut_opts.
  Lemma proj_fields_ext rec1 rec2 ffs tfs fs :
    (forall p ff tf, In p fs -> find_fld (fst p) ffs = Some ff -> find_fld (fst p) tfs = Some tf ->
                     rec1 (fld_ty ff) (fld_ty tf) (snd p) = rec2 (fld_ty ff) (fld_ty tf) (snd p)) ->
    proj_fields o rec1 ffs tfs fs = proj_fields o rec2 ffs tfs fs.
  Proof.
    induction fs as [|[id x] r IH]; intros H; [reflexivity|]. cbn [proj_fields].
    assert (IH' : proj_fields o rec1 ffs tfs r = proj_fields o rec2 ffs tfs r)
      by (apply IH; intros p ff tf Hin; apply H; right; exact Hin).
    destruct (find_fld id ffs) as [ff|] eqn:Ef; [|rewrite IH'; reflexivity].
    destruct (negb _); [reflexivity|]. destruct (find_fld id tfs) as [tf|] eqn:Et; [|exact IH'].
    pose proof (H (id, x) ff tf (or_introl eq_refl) Ef Et) as Hx. cbn [fst snd] in Hx. rewrite Hx, IH'. reflexivity.
  Qed.
  Lemma proj_elems_ext rec1 rec2 fe te es :
    (forall x, In x es -> rec1 fe te x = rec2 fe te x) -> proj_elems rec1 fe te es = proj_elems rec2 fe te es.
  Proof.
    induction es as [|x r IH]; intros H; [reflexivity|]. cbn [proj_elems].
    rewrite (H x (or_introl eq_refl)). rewrite IH by (intros y Hy; apply H; right; exact Hy). reflexivity.
  Qed.
  Lemma proj_pairs_ext rec1 rec2 fk tk fe te es :
    (forall p, In p es -> rec1 fk tk (fst p) = rec2 fk tk (fst p) /\ rec1 fe te (snd p) = rec2 fe te (snd p)) ->
    proj_pairs rec1 fk tk fe te es = proj_pairs rec2 fk tk fe te es.
  Proof.
    induction es as [|[k x] r IH]; intros H; [reflexivity|]. cbn [proj_pairs].
    destruct (H (k, x) (or_introl eq_refl)) as [Hk Hx]. cbn [fst snd] in *. rewrite Hk, Hx.
    rewrite IH by (intros y Hy; apply H; right; exact Hy). reflexivity.
  Qed.
  (* loops over values that are all mapped to themselves *)
  Lemma proj_fields_id rec ffs fs :
    (forall p, In p fs -> exists ff, find_fld (fst p) ffs = Some ff /\ (type_of (snd p) =? type_code (fld_ty ff)) = true /\
                                     rec (fld_ty ff) (fld_ty ff) (snd p) = COk (snd p)) ->
    proj_fields o rec ffs ffs fs = COk fs.
  Proof.
    induction fs as [|[id x] r IH]; intros H; [reflexivity|]. cbn [proj_fields].
    destruct (H (id, x) (or_introl eq_refl)) as [ff [Ef [Et Er]]]. cbn [fst snd] in *.
    rewrite Ef, Et. cbn [negb]. rewrite Er. rewrite IH by (intros y Hy; apply H; right; exact Hy). reflexivity.
  Qed.
  Lemma proj_elems_id rec e es : (forall x, In x es -> rec e e x = COk x) -> proj_elems rec e e es = COk es.
  Proof.
    induction es as [|x r IH]; intros H; [reflexivity|]. cbn [proj_elems]. rewrite (H x (or_introl eq_refl)).
    rewrite IH by (intros y Hy; apply H; right; exact Hy). reflexivity.
  Qed.
  Lemma proj_pairs_id rec k e es :
    (forall p, In p es -> rec k k (fst p) = COk (fst p) /\ rec e e (snd p) = COk (snd p)) -> proj_pairs rec k k e e es = COk es.
  Proof.
    induction es as [|[kk x] r IH]; intros H; [reflexivity|]. cbn [proj_pairs].
    destruct (H (kk, x) (or_introl eq_refl)) as [Hk Hx]. cbn [fst snd] in *. rewrite Hk, Hx.
    rewrite IH by (intros y Hy; apply H; right; exact Hy). reflexivity.
  Qed.
End Ext.

Section Spec4.
  Variable d : defs.
  Variable o : cut_opts.

  (* cutting a fully conforming value with the SAME descriptor reproduces it - whether or not the implementation
     recognises the descriptors as identical (any [pe]) *)
  Theorem project_id pe : forall fuel t v, full d o fuel t v = true -> project d o pe fuel t t v = COk v.
  Proof.
    induction fuel as [|f IH]; intros t v Hf; [discriminate|]. cbn [full] in Hf. cbn [project].
    destruct t as [c|a|e|e|k e].
    - cbn [type_code]. rewrite Z.eqb_refl. reflexivity.
    - destruct v as [| | | | | | |fs| | |]; try discriminate. destruct (pe _ _); [reflexivity|].
      destruct (struct_def d a) as [ffs|]; [|discriminate]. apply andb_true_iff in Hf. destruct Hf as [Hall Hc].
      rewrite forallb_forall in Hall.
      rewrite (proj_fields_id o).
      + unfold finish_struct. destruct (o_not_check_req o); [reflexivity|]. cbn [orb] in Hc.
        rewrite owed_complete; [rewrite app_nil_r; reflexivity|].
        unfold complete in *. rewrite (forallb_ext_in _ (sort_flds ffs) ffs) by (intros x; apply sort_flds_in). exact Hc.
      + intros p Hp. specialize (Hall p Hp). destruct (find_fld (fst p) ffs) as [ff|]; [|discriminate].
        apply andb_true_iff in Hall. destruct Hall as [Ht Hfu]. exists ff. repeat split; auto.
    - destruct v as [| | | | | | | | | |et es]; try discriminate. cbn [elem_ty]. destruct (pe _ _).
      + rewrite Z.eqb_refl. reflexivity.
      + rewrite forallb_forall in Hf. rewrite proj_elems_id; [reflexivity|]. intros x Hx. apply IH. apply Hf. exact Hx.
    - destruct v as [| | | | | | | | |et es|]; try discriminate. cbn [elem_ty]. destruct (pe _ _).
      + rewrite Z.eqb_refl. reflexivity.
      + rewrite forallb_forall in Hf. rewrite proj_elems_id; [reflexivity|]. intros x Hx. apply IH. apply Hf. exact Hx.
    - destruct v as [| | | | | | | |kt vt es| |]; try discriminate. destruct (_ && _); [reflexivity|].
      rewrite forallb_forall in Hf. rewrite proj_pairs_id; [reflexivity|]. intros p Hp. specialize (Hf p Hp).
      apply andb_true_iff in Hf. destruct Hf as [Hk He]. split; apply IH; assumption.
  Qed.

  (* pointer equality cannot change the result: whichever sub-descriptor pairs the implementation treats as identical
     (any two predicates that only hold for equal descriptors), the projection of a fully conforming value onto a
     kind-compatible target is the same - in particular the same as the plain recursive walk [pe_none] *)
  Theorem shortcut_sound pe1 pe2 :
    (forall a b, pe1 a b = true -> a = b) -> (forall a b, pe2 a b = true -> a = b) ->
    forall fuel from to v, compat d fuel from to = true -> full d o fuel from v = true ->
    project d o pe1 fuel from to v = project d o pe2 fuel from to v.
  Proof.
    intros S1 S2. induction fuel as [|f IH]; intros from to v Hc Hf; [reflexivity|].
    assert (Hid : from = to -> project d o pe1 (S f) from to v = project d o pe2 (S f) from to v).
    { intros <-. rewrite !project_id by exact Hf. reflexivity. }
    destruct from as [ca|a|fe|fe|fk fe], to as [cb|b|te|te|tk te]; cbn [compat] in Hc; try discriminate Hc.
    - reflexivity.
    - destruct (pe1 (TStruct a) (TStruct b)) eqn:E1; [apply Hid, S1, E1|].
      destruct (pe2 (TStruct a) (TStruct b)) eqn:E2; [apply Hid, S2, E2|].
      cbn [full] in Hf. destruct v as [| | | | | | |fs| | |]; try discriminate Hf.
      cbn [project]. rewrite E1, E2.
      destruct (struct_def d a) as [ffs|] eqn:Ea; [|discriminate]. destruct (struct_def d b) as [tfs|] eqn:Eb; [|discriminate].
      apply andb_true_iff in Hf. destruct Hf as [Hall _]. rewrite forallb_forall in Hall, Hc.
      rewrite (proj_fields_ext o (project d o pe1 f) (project d o pe2 f)); [reflexivity|].
      intros p ff tf Hp Eff Etf. specialize (Hall p Hp). rewrite Eff in Hall. apply andb_true_iff in Hall.
      destruct (find_fld_some _ _ _ Eff) as [Hin Hidf]. specialize (Hc ff Hin). rewrite Hidf, Etf in Hc.
      apply IH; [exact Hc|apply Hall].
    - destruct (pe1 fe te) eqn:E1; [apply Hid; f_equal; apply S1, E1|].
      destruct (pe2 fe te) eqn:E2; [apply Hid; f_equal; apply S2, E2|].
      cbn [full] in Hf. destruct v as [| | | | | | | | | |et es]; try discriminate Hf.
      cbn [project elem_ty]. rewrite E1, E2. rewrite forallb_forall in Hf.
      rewrite (proj_elems_ext (project d o pe1 f) (project d o pe2 f)); [reflexivity|]. intros x Hx. apply IH; auto.
    - destruct (pe1 fe te) eqn:E1; [apply Hid; f_equal; apply S1, E1|].
      destruct (pe2 fe te) eqn:E2; [apply Hid; f_equal; apply S2, E2|].
      cbn [full] in Hf. destruct v as [| | | | | | | | |et es|]; try discriminate Hf.
      cbn [project elem_ty]. rewrite E1, E2. rewrite forallb_forall in Hf.
      rewrite (proj_elems_ext (project d o pe1 f) (project d o pe2 f)); [reflexivity|]. intros x Hx. apply IH; auto.
    - apply andb_true_iff in Hc. destruct Hc as [Hck Hce].
      destruct (pe1 fe te && pe1 fk tk) eqn:E1.
      { apply andb_true_iff in E1. destruct E1 as [Ea Eb]. apply Hid. f_equal; apply S1; assumption. }
      destruct (pe2 fe te && pe2 fk tk) eqn:E2.
      { apply andb_true_iff in E2. destruct E2 as [Ea Eb]. apply Hid. f_equal; apply S2; assumption. }
      cbn [full] in Hf. destruct v as [| | | | | | | |kt vt es| |]; try discriminate Hf.
      cbn [project]. rewrite E1, E2. rewrite forallb_forall in Hf.
      rewrite (proj_pairs_ext (project d o pe1 f) (project d o pe2 f)); [reflexivity|]. intros p Hp. specialize (Hf p Hp).
      apply andb_true_iff in Hf. destruct Hf as [Hfk Hfe]. split; apply IH; assumption.
  Qed.
End Spec4.

(* ---------------------------------------------------------------- the byte-level walker refines the projection *)
Definition lift (r : cres tval) (rest : list Z) : cres (list Z * list Z) :=
  match r with COk v => COk (encode v, rest) | CErr c => CErr c end.

Lemma firstn_app_exact {A} (a r : list A) : firstn (length (a ++ r) - length r) (a ++ r) = a.
Proof.
  rewrite app_length, Nat.add_sub. rewrite firstn_app, Nat.sub_diag, firstn_all. cbn [firstn]. apply app_nil_r.
Qed.

Lemma raw_copy_encode v r : wf v = true -> (depth v <= max_skip_depth)%nat ->
  raw_copy (type_of v) (encode v ++ r) = COk (encode v, r).
Proof.
  intros Hw Hd. unfold raw_copy, skip_go. rewrite skip_encode by assumption. rewrite firstn_app_exact. reflexivity.
Qed.

Lemma skip_go_encode v r : wf v = true -> (depth v <= max_skip_depth)%nat -> skip_go (type_of v) (encode v ++ r) = Some r.
Proof. intros Hw Hd. unfold skip_go. apply skip_encode; assumption. Qed.

Lemma type_valid_of v : type_valid_b (type_of v) = true.
Proof. destruct v; reflexivity. Qed.

Lemma valid_type_valid_b t : valid_type t = true -> type_valid_b t = true.
Proof. intros H. unfold type_valid_b. rewrite H. destruct (t =? 0), (t =? 1); reflexivity. Qed.

Lemma depth_field fs p : In p fs -> (S (depth (snd p)) <= depth (VStruct fs))%nat.
Proof.
  intros Hin. cbn [depth]. apply le_n_S.
  pose proof (fold_max_le (fun f : Z * tval => depth (snd f)) fs _ (le_n _)) as H. rewrite Forall_forall in H. exact (H p Hin).
Qed.
Lemma depth_elem_list et es x : In x es -> (S (depth x) <= depth (VList et es))%nat.
Proof.
  intros Hin. cbn [depth]. apply le_n_S.
  pose proof (fold_max_le depth es _ (le_n _)) as H. rewrite Forall_forall in H. exact (H x Hin).
Qed.
Lemma depth_elem_set et es x : In x es -> (S (depth x) <= depth (VSet et es))%nat.
Proof.
  intros Hin. cbn [depth]. apply le_n_S.
  pose proof (fold_max_le depth es _ (le_n _)) as H. rewrite Forall_forall in H. exact (H x Hin).
Qed.
Lemma depth_entry kt vt es p : In p es -> (S (depth (fst p)) <= depth (VMap kt vt es))%nat /\ (S (depth (snd p)) <= depth (VMap kt vt es))%nat.
Proof.
  intros Hin. cbn [depth].
  pose proof (fold_max_le (fun e : tval * tval => Nat.max (depth (fst e)) (depth (snd e))) es _ (le_n _)) as H.
  rewrite Forall_forall in H. specialize (H p Hin). cbv beta in H. split; apply le_n_S; lia.
Qed.

Section CutLoops.
  Variable o : cut_opts.
  Variable crec : ty -> ty -> list Z -> cres (list Z * list Z).
  Variable prec : ty -> ty -> tval -> cres tval.

  Definition rel_ok (from to : ty) (x : tval) : Prop :=
    (forall r, crec from to (encode x ++ r) = lift (prec from to x) r) /\
    (forall x', prec from to x = COk x' -> type_of x' = type_of x).

  Lemma cut_fields_refines ffs tfs fs : forall fuel r,
    (forall p, In p fs -> in_sb 16 (fst p) = true /\ wf (snd p) = true /\ (depth (snd p) <= max_skip_depth)%nat /\
       forall ff tf, find_fld (fst p) ffs = Some ff -> find_fld (fst p) tfs = Some tf ->
                     (type_of (snd p) =? type_code (fld_ty ff)) = true -> rel_ok (fld_ty ff) (fld_ty tf) (snd p)) ->
    (length fs < fuel)%nat ->
    cut_fields o crec fuel ffs tfs (enc_fields fs ++ 0 :: r) =
      match proj_fields o prec ffs tfs fs with
      | COk kept => COk (enc_fields kept, r, map fst kept)
      | CErr c => CErr c
      end.
  Proof.
    induction fs as [|[id x] fs IH]; intros fuel r H Hfuel; destruct fuel as [|fuel]; try (cbn in Hfuel; lia).
    - reflexivity.
    - destruct (H (id, x) (or_introl eq_refl)) as [Hid [Hw [Hd Hrel]]]. cbn [fst snd] in *.
      assert (IH' : cut_fields o crec fuel ffs tfs (enc_fields fs ++ 0 :: r) =
                    match proj_fields o prec ffs tfs fs with COk kept => COk (enc_fields kept, r, map fst kept) | CErr c => CErr c end).
      { apply IH; [intros p Hp; apply H; right; exact Hp|cbn in Hfuel; lia]. }
      unfold enc_fields in *. cbn [flat_map fst snd app cut_fields proj_fields].
      rewrite type_valid_of. cbn [negb].
      destruct (Z.eqb_spec (type_of x) 0) as [E0|_]; [exfalso; revert E0; apply valid_type_nonzero, type_of_valid|].
      rewrite <- !app_assoc. rewrite take_enc_int.
      rewrite dec_int_enc_int by (try lia; apply in_sb_true in Hid; exact Hid).
      destruct (find_fld id ffs) as [ff|] eqn:Ef.
      + destruct (type_of x =? type_code (fld_ty ff)) eqn:Et; cbn [negb]; [|reflexivity].
        destruct (find_fld id tfs) as [tf|] eqn:Etf.
        * destruct (Hrel ff tf eq_refl eq_refl Et) as [Hc Hty]. rewrite Hc.
          destruct (prec (fld_ty ff) (fld_ty tf) x) as [x'|c] eqn:Ep; cbn [lift]; [|reflexivity].
          rewrite IH'. destruct (proj_fields o prec ffs tfs fs) as [l|c]; [|reflexivity].
          cbn [flat_map map fst snd app]. rewrite (Hty x' eq_refl). rewrite <- !app_assoc. reflexivity.
        * unfold skip_or_err. rewrite skip_go_encode by assumption. exact IH'.
      + destruct (o_disallow_unknown o); [reflexivity|].
        unfold skip_or_err. rewrite skip_go_encode by assumption. exact IH'.
  Qed.

  Lemma cut_elems_refines fe te es : forall r,
    (forall x, In x es -> rel_ok fe te x) ->
    cut_elems crec (length es) fe te (flat_map encode es ++ r) =
      match proj_elems prec fe te es with COk l => COk (flat_map encode l, r) | CErr c => CErr c end.
  Proof.
    induction es as [|x es IH]; intros r H; [reflexivity|].
    cbn [length cut_elems flat_map proj_elems]. rewrite <- app_assoc.
    destruct (H x (or_introl eq_refl)) as [Hc _]. rewrite Hc.
    destruct (prec fe te x) as [x'|c]; cbn [lift]; [|reflexivity].
    rewrite IH by (intros y Hy; apply H; right; exact Hy).
    destruct (proj_elems prec fe te es); reflexivity.
  Qed.

  Lemma cut_pairs_refines fk tk fe te es : forall r,
    (forall p, In p es -> rel_ok fk tk (fst p) /\ rel_ok fe te (snd p)) ->
    cut_pairs crec (length es) fk tk fe te (flat_map (fun e => encode (fst e) ++ encode (snd e)) es ++ r) =
      match proj_pairs prec fk tk fe te es with
      | COk l => COk (flat_map (fun e => encode (fst e) ++ encode (snd e)) l, r)
      | CErr c => CErr c
      end.
  Proof.
    induction es as [|[k x] es IH]; intros r H; [reflexivity|].
    cbn [length cut_pairs flat_map proj_pairs fst snd]. rewrite <- !app_assoc.
    destruct (H (k, x) (or_introl eq_refl)) as [[Hk _] [Hx _]]. cbn [fst snd] in *. rewrite Hk.
    destruct (prec fk tk k) as [k'|c]; cbn [lift]; [|reflexivity]. rewrite Hx.
    destruct (prec fe te x) as [x'|c]; cbn [lift]; [|reflexivity].
    rewrite IH by (intros y Hy; apply H; right; exact Hy).
    destruct (proj_pairs prec fk tk fe te es); [|reflexivity]. cbn [flat_map fst snd]. rewrite <- !app_assoc. reflexivity.
  Qed.
End CutLoops.

Lemma cut_count_ok {A} (es : list A) rest : zlen es < 2 ^ 31 -> (length es <= length rest)%nat ->
  cut_count (enc_int 4 (zlen es) ++ rest) = COk (enc_int 4 (zlen es), length es, rest).
Proof.
  intros Hl Hr. unfold cut_count. rewrite take_enc_int.
  assert (0 <= zlen es) by (unfold zlen; lia).
  rewrite dec_int_count by lia.
  destruct (Z.ltb_spec (zlen es) 0); [lia|].
  destruct (Z.gtb_spec (zlen es) (zlen rest)); [unfold zlen in *; lia|].
  rewrite to_nat_zlen. reflexivity.
Qed.

Lemma conf_type_of d f t v : conf d (S f) t v = true -> type_of v = type_code t.
Proof.
  cbn [conf]. destruct t, v; try discriminate; intros H; try reflexivity;
  apply andb_true_iff in H; destruct H as [H _]; apply Z.eqb_eq in H; exact H.
Qed.

Lemma cut_list_case (mk : Z -> list tval -> tval) crec prec fe te et es r :
  (forall et l, encode (mk et l) = et :: enc_int 4 (zlen l) ++ flat_map encode l) ->
  valid_type et = true -> zlen es < 2 ^ 31 -> (forall x, In x es -> rel_ok crec prec fe te x) ->
  (if negb (type_valid_b et) then CErr 4 else
   match cut_count (enc_int 4 (zlen es) ++ flat_map encode es ++ r) with
   | CErr c => CErr c
   | COk (x, n, r2) => match cut_elems crec n fe te r2 with COk (out, r3) => COk (et :: x ++ out, r3) | CErr c => CErr c end
   end) = lift (match proj_elems prec fe te es with COk l => COk (mk et l) | CErr c => CErr c end) r.
Proof.
  intros Hmk Hv Hl Hrel. rewrite (valid_type_valid_b _ Hv). cbn [negb].
  rewrite cut_count_ok; [|exact Hl|rewrite app_length; pose proof (flat_map_length_ge encode es encode_nonempty); lia].
  rewrite (cut_elems_refines crec prec) by exact Hrel.
  destruct (proj_elems prec fe te es) as [l|c] eqn:El; [|reflexivity]. cbn [lift]. rewrite Hmk.
  apply proj_elems_exact in El. unfold zlen. rewrite (Forall2_length' _ _ _ El). reflexivity.
Qed.

Section Refine.
  Variable d : defs.
  Variable o : cut_opts.
  Variable pe : ty -> ty -> bool.

  (* marshalTo (repaired: raw copy on pointer-equal structs) computes exactly the encoding of the projection,
     consumes exactly the source value, and fails with the same error class *)
  Theorem cut_refines_project : forall fuel from to v r,
    wf v = true -> (depth v <= max_skip_depth)%nat -> conf d fuel from v = true ->
    cut d o pe false fuel from to (encode v ++ r) = lift (project d o pe fuel from to v) r.
  Proof.
    induction fuel as [|f IH]; intros from to v r Hw Hd Hc; [discriminate|].
    pose proof (conf_type_of _ _ _ _ Hc) as Hty.
    assert (Hraw : raw_copy (type_code from) (encode v ++ r) = COk (encode v, r))
      by (rewrite <- Hty; apply raw_copy_encode; assumption).
    assert (Hrel : forall from' to' x, wf x = true -> (S (depth x) <= depth v)%nat -> conf d f from' x = true ->
                                       rel_ok (cut d o pe false f) (project d o pe f) from' to' x).
    { intros from' to' x Hwx Hdx Hcx. split; [intros r'; apply IH; auto; lia|]. intros x'. apply project_type_of. }
    cbn [cut project]. destruct to as [tc|b|te|te|tk te].
    - (* scalar target *)
      destruct (Z.eqb_spec (type_code from) tc) as [E|E]; [|reflexivity]. rewrite <- E, Hraw. reflexivity.
    - (* struct target *)
      destruct from as [c|a|fe|fe|fk fe]; try (destruct v; reflexivity).
      cbn [conf] in Hc. destruct v as [| | | | | | |fs| | |]; try discriminate Hc.
      destruct (pe (TStruct a) (TStruct b)); [exact Hraw|].
      destruct (struct_def d a) as [ffs|] eqn:Ea; [|discriminate Hc]. destruct (struct_def d b) as [tfs|]; [|reflexivity].
      cbn [encode]. change (flat_map (fun f0 : Z * tval => type_of (snd f0) :: enc_int 2 (fst f0) ++ encode (snd f0)) fs) with (enc_fields fs).
      rewrite <- app_assoc. cbn [app].
      rewrite (cut_fields_refines o _ (project d o pe f)).
      + destruct (proj_fields o (project d o pe f) ffs tfs fs) as [kept|c]; [|reflexivity]. unfold finish_struct.
        destruct (o_not_check_req o); [reflexivity|].
        destruct (owed o (sort_flds tfs) (map fst kept)) as [extra|c]; [|reflexivity].
        cbn [lift encode]. unfold enc_fields. rewrite flat_map_app, <- app_assoc. reflexivity.
      + intros p Hp. cbn [wf] in Hw. rewrite forallb_forall in Hw, Hc. specialize (Hw p Hp). specialize (Hc p Hp).
        apply andb_true_iff in Hw. destruct Hw as [Hi Hwp]. pose proof (depth_field fs p Hp) as Hdp.
        split; [exact Hi|]. split; [exact Hwp|]. split; [lia|].
        intros ff tf Eff Etf Et. apply Hrel; [exact Hwp|exact Hdp|]. rewrite Eff, Et in Hc. exact Hc.
      + rewrite app_length. cbn [length]. unfold enc_fields.
        pose proof (flat_map_length_ge (fun f0 : Z * tval => type_of (snd f0) :: enc_int 2 (fst f0) ++ encode (snd f0)) fs
          ltac:(intros; cbn [length]; lia)). lia.
    - (* list target *)
      destruct from as [c|a|fe|fe|fk fe]; cbn [elem_ty]; try reflexivity.
      + (* list source *)
        destruct (pe fe te).
        { destruct (Z.eqb_spec (type_code (TList fe)) (type_code (TList te))) as [E|E]; [|reflexivity]. rewrite <- E, Hraw. reflexivity. }
        cbn [conf] in Hc. destruct v as [| | | | | | | | | |et es]; try discriminate Hc.
        apply andb_true_iff in Hc. destruct Hc as [Hc Hall]. apply andb_true_iff in Hc. destruct Hc as [_ Hv].
        cbn [wf] in Hw. apply andb_true_iff in Hw. destruct Hw as [Hw Hwall].
        apply andb_true_iff in Hw. destruct Hw as [Hw _]. apply andb_true_iff in Hw. destruct Hw as [_ Hl]. apply Z.ltb_lt in Hl.
        cbn [encode app]. rewrite <- app_assoc.
        apply (cut_list_case VList); [reflexivity|exact Hv|exact Hl|].
        intros x Hx. rewrite forallb_forall in Hall, Hwall. specialize (Hall x Hx). specialize (Hwall x Hx).
        apply andb_true_iff in Hall. apply andb_true_iff in Hwall.
        apply Hrel; [apply Hwall|apply depth_elem_list; exact Hx|apply Hall].
      + (* set source *)
        destruct (pe fe te).
        { destruct (Z.eqb_spec (type_code (TSet fe)) (type_code (TList te))) as [E|E]; [|reflexivity]. rewrite <- E, Hraw. reflexivity. }
        cbn [conf] in Hc. destruct v as [| | | | | | | | |et es|]; try discriminate Hc.
        apply andb_true_iff in Hc. destruct Hc as [Hc Hall]. apply andb_true_iff in Hc. destruct Hc as [_ Hv].
        cbn [wf] in Hw. apply andb_true_iff in Hw. destruct Hw as [Hw Hwall].
        apply andb_true_iff in Hw. destruct Hw as [Hw _]. apply andb_true_iff in Hw. destruct Hw as [_ Hl]. apply Z.ltb_lt in Hl.
        cbn [encode app]. rewrite <- app_assoc.
        apply (cut_list_case VSet); [reflexivity|exact Hv|exact Hl|].
        intros x Hx. rewrite forallb_forall in Hall, Hwall. specialize (Hall x Hx). specialize (Hwall x Hx).
        apply andb_true_iff in Hall. apply andb_true_iff in Hwall.
        apply Hrel; [apply Hwall|apply depth_elem_set; exact Hx|apply Hall].
    - (* set target *)
      destruct from as [c|a|fe|fe|fk fe]; cbn [elem_ty]; try reflexivity.
      + (* list source *)
        destruct (pe fe te).
        { destruct (Z.eqb_spec (type_code (TList fe)) (type_code (TSet te))) as [E|E]; [|reflexivity]. rewrite <- E, Hraw. reflexivity. }
        cbn [conf] in Hc. destruct v as [| | | | | | | | | |et es]; try discriminate Hc.
        apply andb_true_iff in Hc. destruct Hc as [Hc Hall]. apply andb_true_iff in Hc. destruct Hc as [_ Hv].
        cbn [wf] in Hw. apply andb_true_iff in Hw. destruct Hw as [Hw Hwall].
        apply andb_true_iff in Hw. destruct Hw as [Hw _]. apply andb_true_iff in Hw. destruct Hw as [_ Hl]. apply Z.ltb_lt in Hl.
        cbn [encode app]. rewrite <- app_assoc.
        apply (cut_list_case VList); [reflexivity|exact Hv|exact Hl|].
        intros x Hx. rewrite forallb_forall in Hall, Hwall. specialize (Hall x Hx). specialize (Hwall x Hx).
        apply andb_true_iff in Hall. apply andb_true_iff in Hwall.
        apply Hrel; [apply Hwall|apply depth_elem_list; exact Hx|apply Hall].
      + (* set source *)
        destruct (pe fe te).
        { destruct (Z.eqb_spec (type_code (TSet fe)) (type_code (TSet te))) as [E|E]; [|reflexivity]. rewrite <- E, Hraw. reflexivity. }
        cbn [conf] in Hc. destruct v as [| | | | | | | | |et es|]; try discriminate Hc.
        apply andb_true_iff in Hc. destruct Hc as [Hc Hall]. apply andb_true_iff in Hc. destruct Hc as [_ Hv].
        cbn [wf] in Hw. apply andb_true_iff in Hw. destruct Hw as [Hw Hwall].
        apply andb_true_iff in Hw. destruct Hw as [Hw _]. apply andb_true_iff in Hw. destruct Hw as [_ Hl]. apply Z.ltb_lt in Hl.
        cbn [encode app]. rewrite <- app_assoc.
        apply (cut_list_case VSet); [reflexivity|exact Hv|exact Hl|].
        intros x Hx. rewrite forallb_forall in Hall, Hwall. specialize (Hall x Hx). specialize (Hwall x Hx).
        apply andb_true_iff in Hall. apply andb_true_iff in Hwall.
        apply Hrel; [apply Hwall|apply depth_elem_set; exact Hx|apply Hall].
    - (* map target *)
      destruct from as [c|a|fe|fe|fk fe]; try reflexivity.
      destruct (pe fe te && pe fk tk); [exact Hraw|].
      cbn [conf] in Hc. destruct v as [| | | | | | | |kt vt es| |]; try discriminate Hc.
      apply andb_true_iff in Hc. destruct Hc as [Hc Hall]. apply andb_true_iff in Hc. destruct Hc as [Hc Hvv].
      apply andb_true_iff in Hc. destruct Hc as [_ Hvk].
      cbn [wf] in Hw. apply andb_true_iff in Hw. destruct Hw as [Hw Hwall].
      apply andb_true_iff in Hw. destruct Hw as [Hw _]. apply andb_true_iff in Hw. destruct Hw as [_ Hl]. apply Z.ltb_lt in Hl.
      cbn [encode app]. rewrite <- app_assoc.
      rewrite (valid_type_valid_b _ Hvk), (valid_type_valid_b _ Hvv). cbn [negb orb].
      rewrite cut_count_ok; [|exact Hl|].
      2:{ rewrite app_length.
          pose proof (flat_map_length_ge (fun e : tval * tval => encode (fst e) ++ encode (snd e)) es
            ltac:(intros a0; cbv beta; rewrite app_length; pose proof (encode_nonempty (fst a0)); lia)). lia. }
      rewrite (cut_pairs_refines _ (project d o pe f)).
      + destruct (proj_pairs (project d o pe f) fk tk fe te es) as [l|c] eqn:El; [|reflexivity]. cbn [lift encode].
        apply proj_pairs_exact in El. unfold zlen. rewrite (Forall2_length' _ _ _ El). reflexivity.
      + intros p Hp. rewrite forallb_forall in Hall, Hwall. specialize (Hall p Hp). specialize (Hwall p Hp).
        destruct (depth_entry kt vt es p Hp) as [Dk Dv].
        apply andb_true_iff in Hall. destruct Hall as [Hall Hce]. apply andb_true_iff in Hall. destruct Hall as [Hall _].
        apply andb_true_iff in Hall. destruct Hall as [_ Hck].
        apply andb_true_iff in Hwall. destruct Hwall as [Hwall Hwe]. apply andb_true_iff in Hwall. destruct Hwall as [_ Hwk].
        split; apply Hrel; assumption.
  Qed.
End Refine.
