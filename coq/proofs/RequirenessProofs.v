(* C16 proofs: the pooled bitmap implements a set; the scan visits exactly the marked ids; the end-to-end struct
   handling equals the rule of the property (truth table). *)
From Coq Require Import ZArith List Bool Lia.
From DG Require Import Requireness ThriftCutProofs.
Import ListNotations.
Local Open Scope Z_scope.

(* ---------------- words ---------------- *)
Definition getw (ws : list Z) (i : nat) : Z := nth i ws 0.

Lemma bm_is_set_getw b id : bm_is_set b id = Z.testbit (getw (words b) (word_idx id)) (bit_idx id).
Proof.
  unfold bm_is_set, getw. destruct (nth_error (words b) (word_idx id)) as [w|] eqn:E.
  - rewrite (nth_error_nth _ _ 0 E). reflexivity.
  - apply nth_error_None in E. rewrite nth_overflow by exact E. rewrite Z.testbit_0_l. reflexivity.
Qed.

Lemma getw_upd n f l m : getw (upd_nth n f l) m = if (m =? n)%nat && (n <? length l)%nat then f (getw l n) else getw l m.
Proof.
  unfold getw. revert n m. induction l as [|x r IH]; intros n m.
  - cbn [upd_nth]. destruct n; cbn [length]; rewrite andb_false_r; reflexivity.
  - destruct n as [|n]; cbn [upd_nth].
    + destruct m as [|m]; cbn [nth length Nat.eqb]; reflexivity.
    + destruct m as [|m]; cbn [nth]; [reflexivity|]. rewrite IH. cbn [length Nat.eqb].
      change (S n <? S (length r))%nat with (n <? length r)%nat. reflexivity.
Qed.

Lemma length_upd n f l : length (upd_nth n f l) = length l.
Proof. revert n. induction l as [|x r IH]; intros [|n]; cbn [upd_nth length]; auto. Qed.

Lemma getw_app_zeros l k m : getw (l ++ repeat 0 k) m = getw l m.
Proof.
  unfold getw. destruct (Nat.ltb_spec m (length l)).
  - apply app_nth1. assumption.
  - rewrite app_nth2 by assumption. rewrite (nth_overflow l) by assumption.
    destruct (Nat.ltb_spec (m - length l) k); [apply nth_repeat|]. apply nth_overflow. rewrite repeat_length. assumption.
Qed.

Lemma getw_grow b i m : getw (words (bm_grow b i)) m = getw (words b) m.
Proof. unfold bm_grow. destruct (length (words b) <=? i)%nat; [apply getw_app_zeros|reflexivity]. Qed.

Lemma grow_length b i : (i < length (words (bm_grow b i)))%nat.
Proof.
  unfold bm_grow. destruct (Nat.leb_spec (length (words b)) i); cbn [words]; [|assumption].
  rewrite app_length, repeat_length. lia.
Qed.

Lemma id_split id : 0 <= id -> id = 64 * Z.of_nat (word_idx id) + bit_idx id /\ 0 <= bit_idx id < 64.
Proof.
  intros H. unfold word_idx, bit_idx. rewrite Z2Nat.id by (apply Z.div_pos; lia).
  split; [apply Z.div_mod; lia|apply Z.mod_pos_bound; lia].
Qed.

(* Set then IsSet: function update on ids, growth included *)
Lemma bm_is_set_set b id v id' : 0 <= id -> 0 <= id' ->
  bm_is_set (bm_set b id v) id' = if id' =? id then v else bm_is_set b id'.
Proof.
  intros H H'. rewrite !bm_is_set_getw. unfold bm_set. cbn [words].
  rewrite getw_upd. pose proof (grow_length b (word_idx id)) as Hl.
  destruct (Nat.ltb_spec (word_idx id) (length (words (bm_grow b (word_idx id))))); [|lia]. rewrite andb_true_r.
  destruct (id_split id H) as [E [B0 B1]]. destruct (id_split id' H') as [E' [B0' B1']].
  destruct (Nat.eqb_spec (word_idx id') (word_idx id)) as [Ew|Ew].
  - rewrite getw_grow. destruct (Z.eqb_spec id' id) as [->|Ne].
    + destruct v; [apply Z.setbit_eq|apply Z.clearbit_eq]; lia.
    + assert (bit_idx id <> bit_idx id') by (intros Eb; apply Ne; rewrite E, E', Ew, Eb; reflexivity).
      rewrite Ew. destruct v; [apply Z.setbit_neq|apply Z.clearbit_neq]; lia.
  - rewrite getw_grow. destruct (Z.eqb_spec id' id) as [->|Ne]; [contradiction|reflexivity].
Qed.

Lemma copy_to_words src pool : words (bm_copy_to src pool) = src.
Proof.
  unfold bm_copy_to, overwrite. destruct (length pool <? length src)%nat; cbn [words]; [reflexivity|].
  rewrite firstn_app, Nat.sub_diag, firstn_all. cbn [firstn]. apply app_nil_r.
Qed.

Definition set_sem (s : Z -> bool) (op : Z * bool) : Z -> bool := fun x => if x =? fst op then snd op else s x.

Lemma fold_sets_sem ops : forall b s, (forall op, In op ops -> 0 <= fst op) ->
  (forall id, 0 <= id -> bm_is_set b id = s id) ->
  forall id, 0 <= id -> bm_is_set (fold_left (fun b op => bm_set b (fst op) (snd op)) ops b) id = fold_left set_sem ops s id.
Proof.
  induction ops as [|op r IH]; intros b s Hops Hb id Hid; [apply Hb; exact Hid|].
  cbn [fold_left]. apply IH; [intros o Ho; apply Hops; right; exact Ho| |exact Hid].
  intros x Hx. rewrite bm_is_set_set by (try exact Hx; apply Hops; left; reflexivity). unfold set_sem. rewrite Hb by exact Hx. reflexivity.
Qed.

(* THE BITMAP IMPLEMENTS THE SET: whatever the pooled memory contained, after CopyTo and any sequence of Set (with growth
   beyond the copied length, i.e. ids beyond 64 / 256 / ...), IsSet answers exactly as the mathematical set does *)
Theorem bitmap_refines_set src pool ops : (forall op, In op ops -> 0 <= fst op) ->
  forall id, 0 <= id ->
  bm_is_set (fold_left (fun b op => bm_set b (fst op) (snd op)) ops (bm_copy_to src pool)) id =
  fold_left set_sem ops (fun x => bm_is_set {| words := src; spare := [] |} x) id.
Proof.
  intros Hops id Hid. apply fold_sets_sem; [exact Hops| |exact Hid].
  intros x _. rewrite !bm_is_set_getw, copy_to_words. reflexivity.
Qed.

Corollary bitmap_pool_independent src pool1 pool2 ops : (forall op, In op ops -> 0 <= fst op) ->
  forall id, 0 <= id ->
  bm_is_set (fold_left (fun b op => bm_set b (fst op) (snd op)) ops (bm_copy_to src pool1)) id =
  bm_is_set (fold_left (fun b op => bm_set b (fst op) (snd op)) ops (bm_copy_to src pool2)) id.
Proof. intros H id Hid. rewrite !bitmap_refines_set by assumption. reflexivity. Qed.

(* ---------------- the scan visits exactly the marked ids ---------------- *)
Lemma seqZ_from_in n : forall base j, In j (seqZ_from base n) <-> base <= j < base + Z.of_nat n.
Proof.
  induction n as [|n IH]; intros base j; cbn [seqZ_from In]; [lia|]. rewrite IH. lia.
Qed.

Lemma getw_cons w r k : getw (w :: r) (S k) = getw r k.
Proof. reflexivity. Qed.

Lemma scan_words_in ws : forall base id,
  In id (scan_words ws base) <->
  base <= id < base + 64 * Z.of_nat (length ws) /\
  Z.testbit (getw ws (Z.to_nat ((id - base) / 64))) ((id - base) mod 64) = true.
Proof.
  induction ws as [|w r IH]; intros base id; cbn [scan_words length].
  - cbn [In]. split; [contradiction|lia].
  - rewrite in_app_iff, in_map_iff, IH. split.
    + intros [[j [<- Hj]]|[Hr Hb]].
      * apply filter_In in Hj. destruct Hj as [Hj Ht]. apply seqZ_from_in in Hj.
        replace (base + j - base) with j by lia. rewrite Z.div_small, Z.mod_small by lia. cbn. split; [lia|exact Ht].
      * split; [lia|]. set (k := id - (base + 64)) in *. assert (0 <= k) by (unfold k; lia).
        replace (id - base) with (k + 1 * 64) by (unfold k; lia). rewrite Z.div_add, Z.mod_add by lia.
        rewrite Z2Nat.inj_add by (try lia; apply Z.div_pos; lia). rewrite Nat.add_comm. cbn [Z.to_nat Pos.to_nat Pos.iter_op Nat.add].
        rewrite getw_cons. exact Hb.
    + intros [Hr Hb]. destruct (Z.ltb_spec (id - base) 64) as [Hs|Hs].
      * left. exists (id - base). split; [lia|]. apply filter_In. split; [apply seqZ_from_in; lia|].
        rewrite Z.div_small, Z.mod_small in Hb by lia. exact Hb.
      * right. split; [lia|]. set (k := id - (base + 64)) in *. assert (0 <= k) by (unfold k; lia).
        replace (id - base) with (k + 1 * 64) in Hb by (unfold k; lia). rewrite Z.div_add, Z.mod_add in Hb by lia.
        rewrite Z2Nat.inj_add in Hb by (try lia; apply Z.div_pos; lia). rewrite Nat.add_comm in Hb.
        cbn [Z.to_nat Pos.to_nat Pos.iter_op Nat.add] in Hb. rewrite getw_cons in Hb. exact Hb.
Qed.

Theorem bm_scan_in b id : In id (bm_scan b) <-> 0 <= id /\ bm_is_set b id = true.
Proof.
  unfold bm_scan. rewrite scan_words_in, bm_is_set_getw. rewrite Z.sub_0_r. unfold word_idx, bit_idx. split.
  - intros [Hr Hb]. split; [lia|exact Hb].
  - intros [H0 Hb]. split; [|exact Hb]. split; [exact H0|].
    destruct (Z.ltb_spec id (64 * Z.of_nat (length (words b)))) as [|Hge]; [lia|]. exfalso.
    unfold getw in Hb. rewrite nth_overflow in Hb; [rewrite Z.testbit_0_l in Hb; discriminate|].
    assert (Z.of_nat (length (words b)) <= id / 64) by (apply Z.div_le_lower_bound; lia). lia.
Qed.

(* ---------------- set semantics helpers ---------------- *)
Lemma fold_set_sem_nodup ops : forall s id, NoDup (map fst ops) ->
  fold_left set_sem ops s id = match find (fun op => fst op =? id) ops with Some op => snd op | None => s id end.
Proof.
  induction ops as [|op r IH]; intros s id Hnd; [reflexivity|]. cbn [fold_left find map] in *.
  inversion Hnd as [|? ? Hnot Hnd']; subst. rewrite IH by exact Hnd'.
  destruct (Z.eqb_spec (fst op) id) as [E|E].
  - destruct (find (fun o => fst o =? id) r) as [o|] eqn:Ef.
    + exfalso. apply find_some in Ef. destruct Ef as [Hin He]. apply Z.eqb_eq in He. apply Hnot. rewrite E, <- He. apply in_map. exact Hin.
    + unfold set_sem. rewrite <- E, Z.eqb_refl. reflexivity.
  - destruct (find (fun o => fst o =? id) r); [reflexivity|]. unfold set_sem. destruct (Z.eqb_spec id (fst op)); [congruence|reflexivity].
Qed.

Lemma fold_clear_sem l : forall s id,
  fold_left set_sem (map (fun i => (i, false)) l) s id = if existsb (Z.eqb id) l then false else s id.
Proof.
  induction l as [|i r IH]; intros s id; [reflexivity|]. cbn [map fold_left existsb]. rewrite IH. unfold set_sem. cbn [fst snd].
  destruct (existsb (Z.eqb id) r); [rewrite orb_true_r; reflexivity|]. rewrite orb_false_r. destruct (id =? i); reflexivity.
Qed.

Lemma zeros_not_set n id : bm_is_set {| words := repeat 0 n; spare := [] |} id = false.
Proof.
  rewrite bm_is_set_getw. cbn [words]. unfold getw.
  destruct (Nat.ltb_spec (word_idx id) n); [rewrite nth_repeat|rewrite nth_overflow by (rewrite repeat_length; assumption)]; apply Z.testbit_0_l.
Qed.

(* the descriptor's bitmap marks exactly the tracked fields (convertRequireness) *)
Lemma desc_bitmap_is_set p fs id : NoDup (map f_id fs) -> (forall f, In f fs -> 0 <= f_id f) -> 0 <= id ->
  bm_is_set (desc_bitmap p fs) id = match find_fld16 id fs with Some f => tracked p f | None => false end.
Proof.
  intros Hnd Hpos Hid. unfold desc_bitmap.
  assert (E : forall b0, fold_left (fun b f => bm_set b (f_id f) (tracked p f)) fs b0 =
                         fold_left (fun b op => bm_set b (fst op) (snd op)) (map (fun f => (f_id f, tracked p f)) fs) b0).
  { induction fs as [|f r IH]; intros b0; [reflexivity|]. cbn [fold_left map fst snd]. apply IH.
    - inversion Hnd; assumption.
    - intros g Hg. apply Hpos. right. exact Hg. }
  rewrite E. rewrite (fold_sets_sem _ _ (fun _ => false)); [| |intros x _; apply zeros_not_set|exact Hid].
  - rewrite fold_set_sem_nodup by (rewrite map_map; exact Hnd). unfold find_fld16.
    clear. induction fs as [|f r IH]; [reflexivity|]. cbn [map find fst]. destruct (f_id f =? id); [reflexivity|exact IH].
  - intros op Hop. apply in_map_iff in Hop. destruct Hop as [f [<- Hf]]. apply Hpos. exact Hf.
Qed.

Lemma find_fld16_some id fs f : find_fld16 id fs = Some f -> In f fs /\ f_id f = id.
Proof. unfold find_fld16. intros H. apply find_some in H. destruct H as [Hin He]. apply Z.eqb_eq in He. auto. Qed.

Lemma find_fld16_in fs f : NoDup (map f_id fs) -> In f fs -> find_fld16 (f_id f) fs = Some f.
Proof.
  unfold find_fld16. induction fs as [|g r IH]; intros Hnd Hin; [destruct Hin|]. cbn [find].
  inversion Hnd as [|? ? Hnot Hnd']; subst. destruct Hin as [->|Hin]; [rewrite Z.eqb_refl; reflexivity|].
  destruct (Z.eqb_spec (f_id g) (f_id f)) as [E|E]; [|apply IH; assumption].
  exfalso. apply Hnot. rewrite E. apply in_map. exact Hin.
Qed.

(* ---------------- the loop over the marked bits ---------------- *)
Definition is_write (a : action) : Prop := a = AWriteDefault \/ a = AWriteZero.

Lemma handle_ids_spec decide fs ids : (forall id, In id ids -> find_fld16 id fs <> None) ->
  handle_ids decide fs ids <> HNil /\
  (handle_ids decide fs ids = HMissing <-> exists id f, In id ids /\ find_fld16 id fs = Some f /\ decide f = AMissing) /\
  (forall l, handle_ids decide fs ids = HOk l ->
     forall id a, In (id, a) l <-> In id ids /\ exists f, find_fld16 id fs = Some f /\ decide f = a /\ is_write a).
Proof.
  unfold is_write. induction ids as [|i r IH]; intros Hall.
  - cbn [handle_ids]. split; [discriminate|]. split.
    + split; [discriminate|]. intros [? [? [[] _]]].
    + intros l H. inversion H. intros id a. cbn [In]. split; [contradiction|]. intros [[] _].
  - assert (Hr : forall id, In id r -> find_fld16 id fs <> None) by (intros id Hid; apply Hall; right; exact Hid).
    destruct (IH Hr) as [IHn [IHm IHo]]. cbn [handle_ids].
    destruct (find_fld16 i fs) as [f|] eqn:Ef; [|exfalso; apply (Hall i (or_introl eq_refl)); exact Ef].
    destruct (decide f) eqn:Ed.
    + (* skip *) split; [exact IHn|]. split.
      * rewrite IHm. split; intros [id [g [Hin [Hg Hd]]]]; exists id, g.
        -- split; [right; exact Hin|auto].
        -- destruct Hin as [<-|Hin]; [rewrite Ef in Hg; injection Hg as <-; congruence|auto].
      * intros l Hl id a. rewrite (IHo l Hl). split; intros [Hin [g [Hg [Hd Hw]]]].
        -- split; [right; exact Hin|exists g; auto].
        -- destruct Hin as [<-|Hin]; [rewrite Ef in Hg; injection Hg as <-; rewrite Ed in Hd; rewrite <- Hd in Hw; destruct Hw; discriminate|].
           split; [exact Hin|exists g; auto].
    + (* write default *)
      destruct (handle_ids decide fs r) as [l'| |] eqn:Er; [|split; [discriminate|]|exfalso; apply IHn; reflexivity].
      * split; [discriminate|]. split.
        -- split; [discriminate|]. intros [id [g [Hin [Hg Hd]]]]. exfalso.
           destruct Hin as [<-|Hin]; [rewrite Ef in Hg; injection Hg as <-; congruence|].
           assert (HOk l' = HMissing) by (apply IHm; exists id, g; auto). discriminate.
        -- intros l Hl. inversion Hl; subst l. intros id a. cbn [In]. rewrite (IHo l' eq_refl). split.
           ++ intros [E|[Hin Hex]]; [inversion E; subst; split; [left; reflexivity|exists f; auto]|split; [right; exact Hin|exact Hex]].
           ++ intros [[<-|Hin] [g [Hg [Hd Hw]]]]; [left; rewrite Ef in Hg; injection Hg as <-; rewrite Ed in Hd; rewrite Hd; reflexivity|right; split; [exact Hin|exists g; auto]].
      * split; [|intros l Hl; discriminate]. split; [intros _|reflexivity].
        destruct (proj1 IHm eq_refl) as [id [g [Hin Hg]]]. exists id, g. split; [right; exact Hin|exact Hg].
    + (* write zero *)
      destruct (handle_ids decide fs r) as [l'| |] eqn:Er; [|split; [discriminate|]|exfalso; apply IHn; reflexivity].
      * split; [discriminate|]. split.
        -- split; [discriminate|]. intros [id [g [Hin [Hg Hd]]]]. exfalso.
           destruct Hin as [<-|Hin]; [rewrite Ef in Hg; injection Hg as <-; congruence|].
           assert (HOk l' = HMissing) by (apply IHm; exists id, g; auto). discriminate.
        -- intros l Hl. inversion Hl; subst l. intros id a. cbn [In]. rewrite (IHo l' eq_refl). split.
           ++ intros [E|[Hin Hex]]; [inversion E; subst; split; [left; reflexivity|exists f; auto]|split; [right; exact Hin|exact Hex]].
           ++ intros [[<-|Hin] [g [Hg [Hd Hw]]]]; [left; rewrite Ef in Hg; injection Hg as <-; rewrite Ed in Hd; rewrite Hd; reflexivity|right; split; [exact Hin|exists g; auto]].
      * split; [|intros l Hl; discriminate]. split; [intros _|reflexivity].
        destruct (proj1 IHm eq_refl) as [id [g [Hin Hg]]]. exists id, g. split; [right; exact Hin|exact Hg].
    + (* missing *) split; [discriminate|]. split; [|intros l Hl; discriminate].
      split; [intros _|reflexivity]. exists i, f. split; [left; reflexivity|auto].
Qed.

(* ---------------- decisions of the three implementations vs the rule ---------------- *)
Lemma req_cases f : f_req f = 0 \/ f_req f = 1 \/ f_req f = 2 \/ (f_req f <> 0 /\ f_req f <> 1 /\ f_req f <> 2).
Proof. lia. Qed.

(* Go HandleRequires on a marked bit is the rule *)
Theorem handle_requires_is_rule p w f : tracked p f = true -> (f_req f = 0 \/ f_req f = 1 \/ f_req f = 2) ->
  handle_requires_decision p w f = rule p w f.
Proof.
  intros Ht Hr. unfold handle_requires_decision, rule. rewrite Ht. cbn [negb].
  destruct Hr as [E|[E|E]]; rewrite E; cbn [Z.eqb andb orb negb];
  destruct (w_require w), (w_default w), (w_optional w), (parsed_default p f); reflexivity.
Qed.

(* the native decision differs from the rule in exactly one row: a tracked optional field with a parsed default and
   WriteOptionalField off *)
Theorem native_decision_vs_rule p w f : tracked p f = true -> (f_req f = 0 \/ f_req f = 1 \/ f_req f = 2) ->
  native_decision p w f = if (f_req f =? 2) && negb (w_optional w) && parsed_default p f then ASkip else rule p w f.
Proof.
  intros Ht Hr. unfold native_decision, rule. rewrite Ht. cbn [negb].
  destruct Hr as [E|[E|E]]; rewrite E; cbn [Z.eqb andb orb negb];
  destruct (w_require w), (w_default w), (w_optional w), (parsed_default p f); reflexivity.
Qed.

(* THE TRUTH TABLE of the property, over all requiredness values, all 2^3 write options, both parse options and
   declared / undeclared defaults *)
Theorem rule_truth_table p w f : (f_req f = 0 \/ f_req f = 1 \/ f_req f = 2) ->
  (rule p w f = AMissing <-> f_req f = 1 /\ w_require w = false) /\
  (is_write (rule p w f) <->
     (f_req f = 1 /\ w_require w = true) \/ (f_req f = 0 /\ w_default w = true) \/
     (f_req f = 2 /\ p_opt_bitmap p = true /\ (w_optional w = true \/ (p_use_default p = true /\ f_hasdef f = true)))) /\
  (is_write (rule p w f) -> (rule p w f = AWriteDefault <-> p_use_default p = true /\ f_hasdef f = true)).
Proof.
  intros Hr. unfold rule, tracked, write_action, parsed_default, is_write.
  destruct Hr as [E|[E|E]]; rewrite E;
  destruct (p_opt_bitmap p), (p_use_default p), (f_hasdef f), (w_require w), (w_default w), (w_optional w); cbn;
  intuition (try discriminate; try lia; try congruence).
Qed.

(* ---------------- end to end: one struct instance ---------------- *)
Section Struct.
  Variable p : popts.
  Variable w : wopts.
  Variable fs : list fld.
  Variable present : list Z.
  Variable pool : list Z.                 (* arbitrary content of the pooled bitmap memory *)
  Hypothesis Hnd : NoDup (map f_id fs).
  Hypothesis Hpos : forall f, In f fs -> 0 <= f_id f.
  Hypothesis Hreq : forall f, In f fs -> f_req f = 0 \/ f_req f = 1 \/ f_req f = 2.
  Hypothesis Hpres : forall i, In i present -> 0 <= i.

  Definition final_bitmap : bm := fold_left (fun b id => bm_set b id false) present (bm_copy_to (words (desc_bitmap p fs)) pool).

  Lemma final_is_set id : 0 <= id ->
    bm_is_set final_bitmap id =
    if existsb (Z.eqb id) present then false else match find_fld16 id fs with Some f => tracked p f | None => false end.
  Proof.
    intros Hid. unfold final_bitmap.
    assert (E : forall b0, fold_left (fun b i => bm_set b i false) present b0 =
                           fold_left (fun b op => bm_set b (fst op) (snd op)) (map (fun i => (i, false)) present) b0).
    { clear. induction present as [|i r IH]; intros b0; [reflexivity|]. cbn [fold_left map fst snd]. apply IH. }
    rewrite E. rewrite bitmap_refines_set; [|intros op Hop; apply in_map_iff in Hop; destruct Hop as [i [<- Hi]]; apply Hpres; exact Hi|exact Hid].
    rewrite fold_clear_sem. destruct (existsb (Z.eqb id) present); [reflexivity|].
    rewrite <- (desc_bitmap_is_set p fs id Hnd Hpos Hid). rewrite !bm_is_set_getw. reflexivity.
  Qed.

  Lemma scan_final id : In id (bm_scan final_bitmap) <->
    ~ In id present /\ exists f, In f fs /\ f_id f = id /\ tracked p f = true.
  Proof.
    rewrite bm_scan_in. split.
    - intros [Hid Hs]. rewrite final_is_set in Hs by exact Hid.
      destruct (existsb (Z.eqb id) present) eqn:Ex; [discriminate|].
      destruct (find_fld16 id fs) as [f|] eqn:Ef; [|discriminate]. destruct (find_fld16_some _ _ _ Ef) as [Hin Hi].
      split; [|exists f; auto]. intros Hp. assert (existsb (Z.eqb id) present = true); [|congruence].
      apply existsb_exists. exists id. split; [exact Hp|apply Z.eqb_refl].
    - intros [Hn [f [Hin [<- Ht]]]]. split; [apply Hpos; exact Hin|]. rewrite final_is_set by (apply Hpos; exact Hin).
      destruct (existsb (Z.eqb (f_id f)) present) eqn:Ex.
      + exfalso. apply existsb_exists in Ex. destruct Ex as [x [Hx He]]. apply Z.eqb_eq in He. subst x. contradiction.
      + rewrite (find_fld16_in fs f Hnd Hin). exact Ht.
  Qed.

  (* REQUIRES TRUTH TABLE (JSON->Thrift with Go's HandleRequires, Thrift->JSON handleUnsets): whatever the pooled memory
     contained and however large the ids are,
       - a marked bit always has a field (the nil dereference cannot happen),
       - the struct fails with missing-required iff a required field is absent and WriteRequireField is off,
       - otherwise exactly the absent fields whose rule says "write" are written, each with the IDL default iff one was
         parsed, the zero value otherwise; nothing else is written *)
  Theorem requires_truth_table :
    let R := run_struct (handle_requires_decision p w) p fs present pool in
    R <> HNil /\
    (R = HMissing <-> exists f, In f fs /\ ~ In (f_id f) present /\ rule p w f = AMissing) /\
    (forall l, R = HOk l ->
       (forall f a, In f fs -> (In (f_id f, a) l <-> ~ In (f_id f) present /\ rule p w f = a /\ is_write a)) /\
       (forall id a, In (id, a) l -> exists f, In f fs /\ f_id f = id)).
  Proof.
    cbv zeta. unfold run_struct. fold final_bitmap.
    assert (Hall : forall id, In id (bm_scan final_bitmap) -> find_fld16 id fs <> None).
    { intros id Hid. apply scan_final in Hid. destruct Hid as [_ [f [Hin [<- _]]]]. rewrite (find_fld16_in fs f Hnd Hin). discriminate. }
    destruct (handle_ids_spec (handle_requires_decision p w) fs _ Hall) as [Hn [Hm Ho]].
    split; [exact Hn|]. split.
    - rewrite Hm. split.
      + intros [id [f [Hid [Hf Hd]]]]. apply scan_final in Hid. destruct Hid as [Hnp [g [Hg [Hgi Ht]]]].
        destruct (find_fld16_some _ _ _ Hf) as [Hin Hi]. exists f. split; [exact Hin|]. split; [rewrite Hi; exact Hnp|].
        assert (g = f). { rewrite <- Hgi in Hf. rewrite (find_fld16_in fs g Hnd Hg) in Hf. congruence. } subst g.
        rewrite <- handle_requires_is_rule by auto. exact Hd.
      + intros [f [Hin [Hnp Hr]]]. exists (f_id f), f.
        assert (Ht : tracked p f = true). { destruct (tracked p f) eqn:E; [reflexivity|]. unfold rule in Hr. rewrite E in Hr. discriminate. }
        split; [apply scan_final; split; [exact Hnp|exists f; auto]|]. split; [apply find_fld16_in; assumption|].
        rewrite handle_requires_is_rule by auto. exact Hr.
    - intros l Hl. specialize (Ho l Hl). split.
      + intros f a Hin. rewrite Ho. split.
        * intros [Hid [g [Hg [Hd Hw]]]]. rewrite (find_fld16_in fs f Hnd Hin) in Hg. injection Hg as <-.
          apply scan_final in Hid. destruct Hid as [Hnp [g [Hg [Hgi Ht]]]].
          assert (g = f). { pose proof (find_fld16_in fs g Hnd Hg) as E1. rewrite Hgi in E1. rewrite (find_fld16_in fs f Hnd Hin) in E1. congruence. } subst g.
          split; [exact Hnp|]. split; [|exact Hw]. rewrite <- handle_requires_is_rule by auto. exact Hd.
        * intros [Hnp [Hr Hw]].
          assert (Ht : tracked p f = true). { destruct (tracked p f) eqn:E; [reflexivity|]. unfold rule in Hr. rewrite E in Hr. subst a. destruct Hw; discriminate. }
          split; [apply scan_final; split; [exact Hnp|exists f; auto]|]. exists f. split; [apply find_fld16_in; assumption|].
          split; [|exact Hw]. rewrite handle_requires_is_rule by auto. exact Hr.
      + intros id a Hin. apply Ho in Hin. destruct Hin as [_ [f [Hf _]]]. destruct (find_fld16_some _ _ _ Hf) as [Hi He]. exists f. auto.
  Qed.

  (* the result does not depend on what the pool left in the bitmap's memory *)
  Theorem scan_pool_independent pool2 :
    (forall id, In id (bm_scan (fold_left (fun b id => bm_set b id false) present (bm_copy_to (words (desc_bitmap p fs)) pool2))) <->
                In id (bm_scan final_bitmap)).
  Proof.
    intros id. rewrite !bm_scan_in. split; intros [H0 H1]; (split; [exact H0|]).
    - rewrite <- H1. unfold final_bitmap.
      assert (E : forall b0, fold_left (fun b i => bm_set b i false) present b0 =
                             fold_left (fun b op => bm_set b (fst op) (snd op)) (map (fun i => (i, false)) present) b0).
      { clear. induction present as [|i r IH]; intros b0; [reflexivity|]. cbn [fold_left map fst snd]. apply IH. }
      rewrite !E. apply bitmap_pool_independent; [|exact H0].
      intros op Hop. apply in_map_iff in Hop. destruct Hop as [i [<- Hi]]. apply Hpres. exact Hi.
    - rewrite <- H1. unfold final_bitmap.
      assert (E : forall b0, fold_left (fun b i => bm_set b i false) present b0 =
                             fold_left (fun b op => bm_set b (fst op) (snd op)) (map (fun i => (i, false)) present) b0).
      { clear. induction present as [|i r IH]; intros b0; [reflexivity|]. cbn [fold_left map fst snd]. apply IH. }
      rewrite !E. apply bitmap_pool_independent; [|exact H0].
      intros op Hop. apply in_map_iff in Hop. destruct Hop as [i [<- Hi]]. apply Hpres. exact Hi.
  Qed.
End Struct.

(* ---------------- the value written for an unmet field ---------------- *)
From DG Require Import ProtoWireRef ThriftWire ThriftCut.

Lemma default_bytes_encode tc l v : lit_value tc l = Some v -> make_default_bytes tc l = Some (encode v).
Proof.
  destruct l as [z|b|s|b]; cbn [lit_value make_default_bytes]; unfold is_int_code, int_width.
  - destruct (Z.eqb_spec tc T_BYTE) as [->|]; [intros H; inversion H; reflexivity|].
    destruct (Z.eqb_spec tc T_I16) as [->|]; [intros H; inversion H; reflexivity|].
    destruct (Z.eqb_spec tc T_I32) as [->|]; [intros H; inversion H; reflexivity|].
    destruct (Z.eqb_spec tc T_I64) as [->|]; [intros H; inversion H; reflexivity|discriminate].
  - destruct (tc =? T_DOUBLE); [intros H; inversion H; reflexivity|discriminate].
  - destruct (tc =? T_STRING); [intros H; inversion H; reflexivity|discriminate].
  - destruct (tc =? T_BOOL); [intros H; inversion H; destruct b; reflexivity|discriminate].
Qed.

Lemma lit_value_type tc l v : lit_value tc l = Some v -> type_of v = tc.
Proof.
  destruct l as [z|b|s|b]; cbn [lit_value].
  - destruct (Z.eqb_spec tc T_BYTE) as [->|]; [intros H; inversion H; reflexivity|].
    destruct (Z.eqb_spec tc T_I16) as [->|]; [intros H; inversion H; reflexivity|].
    destruct (Z.eqb_spec tc T_I32) as [->|]; [intros H; inversion H; reflexivity|].
    destruct (Z.eqb_spec tc T_I64) as [->|]; [intros H; inversion H; reflexivity|discriminate].
  - destruct (Z.eqb_spec tc T_DOUBLE) as [->|]; [intros H; inversion H; reflexivity|discriminate].
  - destruct (Z.eqb_spec tc T_STRING) as [->|]; [intros H; inversion H; reflexivity|discriminate].
  - destruct (Z.eqb_spec tc T_BOOL) as [->|]; [intros H; inversion H; reflexivity|discriminate].
Qed.

Lemma zero_of_type t z : zero_of t = Some z -> type_of z = type_code t.
Proof.
  destruct t as [c|i|e|e|k e]; cbn [zero_of type_code]; try (intros H; inversion H; reflexivity).
  destruct (Z.eqb_spec c T_BOOL) as [->|]; [intros H; inversion H; reflexivity|].
  destruct (Z.eqb_spec c T_BYTE) as [->|]; [intros H; inversion H; reflexivity|].
  destruct (Z.eqb_spec c T_I16) as [->|]; [intros H; inversion H; reflexivity|].
  destruct (Z.eqb_spec c T_I32) as [->|]; [intros H; inversion H; reflexivity|].
  destruct (Z.eqb_spec c T_I64) as [->|]; [intros H; inversion H; reflexivity|].
  destruct (Z.eqb_spec c T_DOUBLE) as [->|]; [intros H; inversion H; reflexivity|].
  destruct (Z.eqb_spec c T_STRING) as [->|]; [intros H; inversion H; reflexivity|discriminate].
Qed.

Lemma default_or_zero_type p f v : default_or_zero p f = Some v -> type_of v = type_code (v_ty f).
Proof.
  unfold default_or_zero. destruct (parsed_default p (v_f f)).
  - destruct (v_lit f) as [l|]; [apply lit_value_type|discriminate].
  - apply zero_of_type.
Qed.

(* WriteDefaultOrEmpty writes exactly the encoding of default_or_zero *)
Theorem write_default_or_empty_encode p f v : default_or_zero p f = Some v -> write_default_or_empty p f = Some (encode v).
Proof.
  unfold default_or_zero, write_default_or_empty. destruct (parsed_default p (v_f f)).
  - destruct (v_lit f) as [l|]; [apply default_bytes_encode|discriminate].
  - intros H. rewrite H. reflexivity.
Qed.

(* the bytes a handler appends for an unmet field it decides to write = that field of a struct holding default_or_zero:
   encode (VStruct [(id, v)]) without the STOP byte *)
Theorem unmet_field_bytes_encode p a f v : is_write a -> default_or_zero p f = Some v ->
  unmet_field_bytes p a f = Some (type_of v :: enc_int 2 (f_id (v_f f)) ++ encode v) /\
  (forall bs, unmet_field_bytes p a f = Some bs -> encode (VStruct [(f_id (v_f f), v)]) = bs ++ [0]).
Proof.
  intros Hw Hv. pose proof (default_or_zero_type p f v Hv) as Ht. pose proof (write_default_or_empty_encode p f v Hv) as He.
  assert (E : unmet_field_bytes p a f = Some (type_of v :: enc_int 2 (f_id (v_f f)) ++ encode v)).
  { unfold unmet_field_bytes. destruct Hw as [->| ->]; rewrite He, Ht; reflexivity. }
  split; [exact E|]. intros bs Hbs. rewrite E in Hbs. inversion Hbs; subst bs. cbn [encode flat_map fst snd]. rewrite app_nil_r.
  cbn [app]. rewrite <- app_assoc. reflexivity.
Qed.

(* which value: the declared default exactly when the rule says AWriteDefault, the zero value when it says AWriteZero *)
Theorem unmet_value_by_rule p w f :
  (rule p w (v_f f) = AWriteDefault -> default_or_zero p f = match v_lit f with Some l => lit_value (type_code (v_ty f)) l | None => None end) /\
  (rule p w (v_f f) = AWriteZero -> default_or_zero p f = zero_of (v_ty f)) /\
  (is_write (rule p w (v_f f)) -> (rule p w (v_f f) = AWriteDefault <-> parsed_default p (v_f f) = true)).
Proof.
  unfold rule, write_action, default_or_zero, is_write.
  destruct (negb (Requireness.tracked p (v_f f))).
  { split; [discriminate|]. split; [discriminate|]. intros [HH|HH]; discriminate. }
  destruct (f_req (v_f f) =? 1), (f_req (v_f f) =? 0), (w_require w), (w_default w), (w_optional w), (parsed_default p (v_f f)); cbn [orb];
  (split; [|split]); try discriminate; try (intros _; reflexivity); try (intros [HH|HH]; discriminate);
  try (intros _; split; [reflexivity|intros _; reflexivity]); try (intros _; split; [discriminate|discriminate]).
Qed.

(* a well-formed field (f_hasdef = the declared literal fits the type) always has a value to be filled with *)
Lemma default_or_zero_total p f : vfld_ok f = true -> ty_valid (v_ty f) = true -> exists v, default_or_zero p f = Some v.
Proof.
  unfold vfld_ok, default_or_zero, parsed_default. intros Hok Hty.
  destruct (p_use_default p && f_hasdef (v_f f)) eqn:E.
  - apply andb_true_iff in E. destruct E as [_ Hd]. rewrite Hd in Hok. apply eqb_prop in Hok.
    destruct (v_lit f) as [l|]; [|discriminate]. destruct (lit_value (type_code (v_ty f)) l) as [v|]; [exists v; reflexivity|discriminate].
  - destruct (ThriftCutProofs.zero_of_valid _ Hty) as [z [Hz _]]. exists z. exact Hz.
Qed.

(* pointwise equal decisions give the same struct handling *)
Lemma handle_ids_ext d1 d2 fs ids : (forall id f, In id ids -> find_fld16 id fs = Some f -> d1 f = d2 f) ->
  handle_ids d1 fs ids = handle_ids d2 fs ids.
Proof.
  induction ids as [|i r IH]; intros H; [reflexivity|]. cbn [handle_ids].
  rewrite IH by (intros id f Hin; apply H; right; exact Hin).
  destruct (find_fld16 i fs) as [f|] eqn:Ef; [|reflexivity]. rewrite (H i f (or_introl eq_refl) Ef). reflexivity.
Qed.
