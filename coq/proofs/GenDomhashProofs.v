(* (G) thrift/generic/path.go seekIntHash (the probing loop that finds the slot for a key in the DOM's hash-stored children), translated
   from the Go source on every build (gen/Gen_domhash.v: the counted loop with break is a local structural recursion whose fuel is the
   iteration bound N; the table read through rt.IndexPtr is a function-valued atom), against ThriftDomSim.seek_idx. *)
From Coq Require Import ZArith List Bool Lia.
From DG Require Import GoSem GoSemLemmas ThriftDomSim.
From DG Require Gen_domhash.
Import ListNotations.
Local Open Scope Z_scope.

(* what the loop reads of slot i: Path.t, 0 for an empty slot *)
Definition slot_t (arr : list pn) (i : Z) : Z :=
  match aget arr i with Some s => if is_knone (pn_key s) then 0 else 1 | None => 1 end.
Definition tbl (arr : list pn) : Gen_domhash.seekIntHash_next := {| Gen_domhash.seekIntHash_next_Path_t := slot_t arr |}.

Lemma aget_some arr i : 0 <= i < Z.of_nat (length arr) -> exists s, aget arr i = Some s.
Proof.
  intros H. unfold aget. replace (i <? 0) with false by (symmetry; apply Z.ltb_ge; lia).
  destruct (nth_error arr (Z.to_nat i)) eqn:E; [eauto|]. apply nth_error_None in E. lia.
Qed.

(* for a table of N slots that all exist: the source's loop returns exactly the slot the model's seek_idx finds, for every key *)
Theorem seekIntHash_is_seek_idx arr key N : 0 < N < 2 ^ 62 -> N <= Z.of_nat (length arr) -> 0 <= key < 2 ^ 64 ->
  seek_idx (Z.to_nat N) arr N (key mod N) = ROk (Gen_domhash.seekIntHash (tbl arr) key N).
Proof.
  intros HN Hlen Hkey. change (2 ^ 62) with 4611686018427387904 in HN. change (2 ^ 64) with 18446744073709551616 in Hkey.
  unfold Gen_domhash.seekIntHash.
  rewrite wrapu_small by (change (2 ^ 64) with 18446744073709551616; lia).
  rewrite Z.rem_mod_nonneg by lia.
  pose proof (Z.mod_pos_bound key N ltac:(lia)) as Hh.
  rewrite wraps_small by (change (2 ^ (64 - 1)) with 9223372036854775808; lia).
  rewrite Z.sub_0_r.
  set (loop := fix loop1_ (fuel1_ : nat) (i h : Z) {struct fuel1_} : Z :=
     match fuel1_ with
     | O => h
     | S fuel1_0 =>
         if i <? N
         then
          let s_idx_ := h in
          if Gen_domhash.seekIntHash_next_Path_t (tbl arr) s_idx_ =? 0
          then h
          else let h0 := Z.rem (wraps 64 (h + 1)) N in loop1_ fuel1_0 (i + 1) h0
         else h
     end).
  assert (G : forall n i h, Z.of_nat n + i = N -> 0 <= i -> 0 <= h < N -> seek_idx n arr N h = ROk (loop n i h)).
  { induction n as [|n IH]; intros i h Hn Hi Hb; [reflexivity|].
    cbn [seek_idx]. change (loop (S n) i h) with
      (if i <? N then (if Gen_domhash.seekIntHash_next_Path_t (tbl arr) h =? 0 then h else loop n (i + 1) (Z.rem (wraps 64 (h + 1)) N)) else h).
    replace (i <? N) with true by (symmetry; apply Z.ltb_lt; lia).
    destruct (aget_some arr h ltac:(lia)) as [s Hs]. rewrite Hs.
    cbn [tbl Gen_domhash.seekIntHash_next_Path_t]. unfold slot_t. rewrite Hs.
    destruct (is_knone (pn_key s)); [reflexivity|]. cbn [Z.eqb].
    rewrite wraps_small by (change (2 ^ (64 - 1)) with 9223372036854775808; lia).
    rewrite Z.rem_mod_nonneg by lia.
    apply IH; [lia | lia | apply Z.mod_pos_bound; lia]. }
  apply (G (Z.to_nat N) 0 (key mod N)); lia.
Qed.
