(* The formatter contracts of C13 (RoundTrip.f64_exact_contract, RoundTripP.f64_lex_contract / f32_lex_contract) hold for the
   exact-decimal printers of T2J.v and P2J.v. *)
From Coq Require Import ZArith List Bool Lia.
From DG Require Import CaseFormat ProtoWireRef ProtoMsg Json Num T2J P2J RoundTripP JsonProofs NumProofs T2JProofs FpExact F64Exact F32Exact.
Import ListNotations.
Local Open Scope Z_scope.

Lemma f64_lex_eq : forall b, f64_lex b = f64_exact_lexeme b.
Proof.
  intros b. unfold f64_lex, f64_decomp, f64_exact_lexeme, dec_lex.
  set (ex := (b / 2 ^ 52) mod 2048). set (fr := b mod 2 ^ 52).
  destruct (Z.eqb_spec ex 0) as [E0|N0].
  - change (1 - 1075) with (-1074). change (0 <=? -1074) with false. cbn iota.
    destruct (Z.eqb_spec fr 0) as [F0|NF].
    + change (0 =? 0) with true. cbn iota. rewrite app_nil_r. reflexivity.
    + change (-1074 =? 0) with false. cbn iota. reflexivity.
  - rewrite (Z.add_comm (2 ^ 52) fr).
    destruct (Z.eqb_spec (fr + 2 ^ 52) 0) as [F0|NF].
    + change (0 =? 0) with true. cbn iota. rewrite app_nil_r. reflexivity.
    + destruct (Z.leb_spec 0 (ex - 1075)) as [Hk|Hk].
      * change (0 =? 0) with true. cbn iota. rewrite app_nil_r. reflexivity.
      * destruct (Z.eqb_spec (ex - 1075) 0) as [|_]; [lia|].
        unfold fmt_int. destruct (Z.ltb_spec (ex - 1075) 0); [reflexivity|lia].
Qed.

Theorem f64_lex_contract_holds : f64_lex_contract.
Proof.
  intros b Hb Hf Hnz. rewrite f64_lex_eq.
  pose proof (f64_exact_contract_holds b Hb Hf) as H. unfold lex2f64 in H.
  destruct (lex_decimal (f64_exact_lexeme b)) as [[[neg m] e]|]; [|discriminate].
  cbn [option_map] in H. assert (Hd : dec2f64 (neg, m, e) = b) by congruence. clear H. exists (neg, m, e). split; [reflexivity|]. split; [exact Hd|].
  unfold not_negzero. destruct neg; [|reflexivity]. destruct (Z.eqb_spec m 0) as [->|]; [|reflexivity].
  exfalso. apply Hnz. rewrite <- Hd. cbn [dec2f64]. rewrite fp_mag64_unfold. reflexivity.
Qed.

Theorem f32_lex_contract_holds : f32_lex_contract.
Proof.
  intros x Hx Hf Hnz. destruct (f32_exact_value x Hx Hf) as (Hw & _ & Hv). split; [exact Hw|].
  exists (exact_dec (widen32 x)). rewrite f64_lex_eq, f64_exact_decimal. split; [reflexivity|]. split; [exact Hv|].
  destruct (exact_dec (widen32 x)) as [[neg m] e]. unfold not_negzero. destruct neg; [|reflexivity].
  destruct (Z.eqb_spec m 0) as [->|]; [|reflexivity].
  exfalso. apply Hnz. rewrite <- Hv. cbn [dec2f32]. rewrite fp_mag32_unfold. reflexivity.
Qed.
