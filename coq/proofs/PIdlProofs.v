(* Proofs for C15 (coq/model/PIdl.v): lookup structures refine association lists; lookups are exact;
   the message table of [pelab] exposes exactly the declared fields; type identity is by fully-qualified name. *)
From Coq Require Import ZArith List Bool Lia.
From DG Require Import CaseFormat PIdl.
Import ListNotations.
Local Open Scope Z_scope.

(* ------------------------------------------------------------------------------------------------ *)
(* equality tests *)

Lemma list_eqb_eq : forall (A : Type) (eqb : A -> A -> bool),
  (forall x y, eqb x y = true <-> x = y) -> forall a b, list_eqb eqb a b = true <-> a = b.
Proof.
  intros A eqb H a. induction a as [|x a IH]; intros [|y b]; cbn; split; intro E; try reflexivity; try discriminate.
  - apply andb_true_iff in E. destruct E as [E1 E2]. apply H in E1. apply IH in E2. subst. reflexivity.
  - inversion E; subst. apply andb_true_iff. split; [apply H; reflexivity | apply IH; reflexivity].
Qed.

Lemma bytes_eqb_eq : forall a b, bytes_eqb a b = true <-> a = b.
Proof. apply list_eqb_eq. intros x y. apply Z.eqb_eq. Qed.

Lemma qname_eqb_eq : forall a b, qname_eqb a b = true <-> a = b.
Proof. apply list_eqb_eq. exact bytes_eqb_eq. Qed.

Lemma bytes_eqb_refl : forall a, bytes_eqb a a = true.
Proof. intro a. apply bytes_eqb_eq. reflexivity. Qed.

Lemma qname_eqb_refl : forall a, qname_eqb a a = true.
Proof. intro a. apply qname_eqb_eq. reflexivity. Qed.

Lemma bytes_eqb_neq : forall a b, a <> b -> bytes_eqb a b = false.
Proof. intros a b H. destruct (bytes_eqb a b) eqn:E; [apply bytes_eqb_eq in E; contradiction | reflexivity]. Qed.

Lemma qname_eqb_neq : forall a b, a <> b -> qname_eqb a b = false.
Proof. intros a b H. destruct (qname_eqb a b) eqn:E; [apply qname_eqb_eq in E; contradiction | reflexivity]. Qed.

Lemma bytes_eq_dec : forall a b : bytes, {a = b} + {a <> b}.
Proof. intros a b. destruct (bytes_eqb a b) eqn:E; [left; apply bytes_eqb_eq; exact E | right; intro H; apply bytes_eqb_eq in H; congruence]. Qed.

(* ------------------------------------------------------------------------------------------------ *)
(* FieldIDMap: the grown slot slice implements the association list (holes, re-Set, any order) *)

Lemma nth_set_nth_same : forall (A : Type) n (v : option A) m, nth n (set_nth n v m) None = v.
Proof. intros A n v. induction n as [|n IH]; intros [|x m]; cbn; auto. Qed.

Lemma nth_nil_none : forall (A : Type) k, nth k (@nil (option A)) None = None.
Proof. intros A [|k]; reflexivity. Qed.

Lemma nth_set_nth_other : forall (A : Type) n k (v : option A) m, n <> k -> nth k (set_nth n v m) None = nth k m None.
Proof.
  intros A n. induction n as [|n IH]; intros k v m H.
  - destruct k as [|k]; [congruence|]. destruct m; cbn; [apply nth_nil_none | reflexivity].
  - destruct m as [|x m]; cbn.
    + destruct k as [|k]; [reflexivity|]. rewrite IH by congruence. apply nth_nil_none.
    + destruct k as [|k]; [reflexivity|]. apply IH. congruence.
Qed.

Lemma length_set_nth : forall (A : Type) n (v : option A) m, length (set_nth n v m) = Nat.max (S n) (length m).
Proof.
  intros A n v. induction n as [|n IH]; intros [|x m]; cbn; auto.
  - rewrite IH. cbn. lia.
  - rewrite IH. reflexivity.
Qed.

Lemma fid_get_nth : forall (A : Type) (m : list (option A)) id, 0 <= id -> fid_get m id = LRes (nth (Z.to_nat id) m None).
Proof.
  intros A m id H. unfold fid_get. destruct (Z.ltb_spec id 0); [lia|].
  destruct (Z.leb_spec (Z.of_nat (length m)) id); [|reflexivity].
  rewrite nth_overflow by lia. reflexivity.
Qed.

Lemma fid_get_negative : forall (A : Type) (m : list (option A)) id, id < 0 -> fid_get m id = LPanic.
Proof. intros A m id H. unfold fid_get. destruct (Z.ltb_spec id 0); [reflexivity | lia]. Qed.

Lemma fid_fold_nth : forall (A : Type) (kvs : list (Z * A)) m id,
  Forall (fun kv => 0 <= fst kv) kvs -> 0 <= id ->
  nth (Z.to_nat id) (fold_left (fun m kv => fid_set m (fst kv) (snd kv)) kvs m) None =
  match assoc_last id kvs with Some v => Some v | None => nth (Z.to_nat id) m None end.
Proof.
  intros A kvs. induction kvs as [|[k v] r IH]; intros m id Hk Hid; cbn [fold_left assoc_last]; [reflexivity|].
  inversion Hk as [|? ? Hk1 Hk2]; subst. cbn [fst snd] in *.
  rewrite IH by assumption. destruct (assoc_last id r); [reflexivity|].
  unfold fid_set. destruct (Z.eqb_spec k id).
  - subst. apply nth_set_nth_same.
  - apply nth_set_nth_other. intro E. apply n. apply Z2Nat.inj; lia.
Qed.

Lemma fidmap_refines_assoc : forall (A : Type) (kvs : list (Z * A)) id,
  Forall (fun kv => 0 <= fst kv) kvs -> 0 <= id -> fid_get (fid_build kvs) id = LRes (assoc_last id kvs).
Proof.
  intros A kvs id Hk Hid. rewrite fid_get_nth by exact Hid. unfold fid_build.
  rewrite fid_fold_nth by assumption. destruct (assoc_last id kvs); [reflexivity|]. rewrite nth_nil_none. reflexivity.
Qed.

(* FieldIDMap.Size() - 1 is the largest id ever set (what MessageDescriptor.FieldsCount() returns) *)
Lemma fid_fold_length : forall (A : Type) (kvs : list (Z * A)) m,
  Forall (fun kv => 0 <= fst kv) kvs ->
  Z.of_nat (length (fold_left (fun m kv => fid_set m (fst kv) (snd kv)) kvs m)) =
  fold_left (fun a kv => Z.max a (fst kv + 1)) kvs (Z.of_nat (length m)).
Proof.
  intros A kvs. induction kvs as [|[k v] r IH]; intros m Hk; cbn [fold_left]; [reflexivity|].
  inversion Hk; subst. cbn [fst snd] in *. rewrite IH by assumption. f_equal.
  unfold fid_set. rewrite length_set_nth. lia.
Qed.

(* ------------------------------------------------------------------------------------------------ *)
(* FieldNameMap.Set / search *)

Lemma fnm_get_set : forall (A : Type) (all : list (bytes * A)) k v k',
  fnm_get (fnm_set all k v) k' = if bytes_eqb k k' then Some v else fnm_get all k'.
Proof.
  intros A all k v k'. induction all as [|[k0 v0] r IH]; cbn.
  - reflexivity.
  - destruct (bytes_eqb k0 k) eqn:E.
    + apply bytes_eqb_eq in E. subst k0. cbn. destruct (bytes_eqb k k'); reflexivity.
    + cbn. rewrite IH. destruct (bytes_eqb k0 k') eqn:E2; [|reflexivity].
      apply bytes_eqb_eq in E2. subst k0. destruct (bytes_eqb k k') eqn:E3; [|reflexivity].
      apply bytes_eqb_eq in E3. subst. rewrite bytes_eqb_refl in E. discriminate.
Qed.

Lemma fnm_fold_get : forall (A : Type) (kvs : list (bytes * A)) all k,
  fnm_get (fold_left (fun m kv => fnm_set m (fst kv) (snd kv)) kvs all) k =
  match assocb_last k kvs with Some v => Some v | None => fnm_get all k end.
Proof.
  intros A kvs. induction kvs as [|[k0 v0] r IH]; intros all k; cbn [fold_left assocb_last]; [reflexivity|].
  rewrite IH. destruct (assocb_last k r); [reflexivity|]. cbn [fst snd]. rewrite fnm_get_set.
  destruct (bytes_eqb k0 k); reflexivity.
Qed.

Lemma fnm_refines_assoc : forall (A : Type) (kvs : list (bytes * A)) k, fnm_get (fnm_build kvs) k = assocb_last k kvs.
Proof. intros. unfold fnm_build. rewrite fnm_fold_get. destruct (assocb_last k kvs); reflexivity. Qed.

(* ------------------------------------------------------------------------------------------------ *)
(* association lists with functional keys *)

Definition functional {K V : Type} (kvs : list (K * V)) : Prop :=
  forall k v v', In (k, v) kvs -> In (k, v') kvs -> v = v'.

Lemma functional_tail : forall (K V : Type) (x : K * V) r, functional (x :: r) -> functional r.
Proof. intros K V x r H k v v' A B. apply (H k); right; assumption. Qed.

Lemma assoc_last_in : forall (A : Type) (kvs : list (Z * A)) k v, assoc_last k kvs = Some v -> In (k, v) kvs.
Proof.
  intros A kvs. induction kvs as [|[k0 v0] r IH]; intros k v H; cbn in H; [discriminate|].
  destruct (assoc_last k r) eqn:E.
  - inversion H; subst. right. apply IH. exact E.
  - destruct (Z.eqb_spec k0 k); [|discriminate]. inversion H; subst. left. reflexivity.
Qed.

Lemma assoc_last_none : forall (A : Type) (kvs : list (Z * A)) k, assoc_last k kvs = None <-> ~ In k (map fst kvs).
Proof.
  intros A kvs k. induction kvs as [|[k0 v0] r IH]; cbn; [tauto|].
  destruct (assoc_last k r) eqn:E.
  - split; [discriminate|]. intro H. exfalso. apply H. right.
    apply assoc_last_in in E. change k with (fst (k, a)). apply in_map. exact E.
  - destruct (Z.eqb_spec k0 k).
    + split; [discriminate|]. intro H. exfalso. apply H. left. exact e.
    + split; [|reflexivity]. intros _ [H|H]; [contradiction|]. apply IH in H; [exact H | reflexivity].
Qed.

Lemma assoc_last_iff : forall (A : Type) (kvs : list (Z * A)) k v,
  functional kvs -> (assoc_last k kvs = Some v <-> In (k, v) kvs).
Proof.
  intros A kvs k v F. split; [apply assoc_last_in|]. intro H.
  destruct (assoc_last k kvs) as [v'|] eqn:E.
  - apply assoc_last_in in E. f_equal. apply (F k); assumption.
  - apply assoc_last_none in E. exfalso. apply E. change k with (fst (k, v)). apply in_map. exact H.
Qed.

Lemma assocb_last_in : forall (A : Type) (kvs : list (bytes * A)) k v, assocb_last k kvs = Some v -> In (k, v) kvs.
Proof.
  intros A kvs. induction kvs as [|[k0 v0] r IH]; intros k v H; cbn in H; [discriminate|].
  destruct (assocb_last k r) eqn:E.
  - inversion H; subst. right. apply IH. exact E.
  - destruct (bytes_eqb k0 k) eqn:E2; [|discriminate]. apply bytes_eqb_eq in E2. inversion H; subst. left. reflexivity.
Qed.

Lemma assocb_last_none : forall (A : Type) (kvs : list (bytes * A)) k, assocb_last k kvs = None <-> ~ In k (map fst kvs).
Proof.
  intros A kvs k. induction kvs as [|[k0 v0] r IH]; cbn; [tauto|].
  destruct (assocb_last k r) eqn:E.
  - split; [discriminate|]. intro H. exfalso. apply H. right.
    apply assocb_last_in in E. change k with (fst (k, a)). apply in_map. exact E.
  - destruct (bytes_eqb k0 k) eqn:E2.
    + apply bytes_eqb_eq in E2. split; [discriminate|]. intro H. exfalso. apply H. left. exact E2.
    + split; [|reflexivity]. intros _ [H|H].
      * subst. rewrite bytes_eqb_refl in E2. discriminate.
      * apply IH in H; [exact H | reflexivity].
Qed.

Lemma assocb_last_iff : forall (A : Type) (kvs : list (bytes * A)) k v,
  functional kvs -> (assocb_last k kvs = Some v <-> In (k, v) kvs).
Proof.
  intros A kvs k v F. split; [apply assocb_last_in|]. intro H.
  destruct (assocb_last k kvs) as [v'|] eqn:E.
  - apply assocb_last_in in E. f_equal. apply (F k); assumption.
  - apply assocb_last_none in E. exfalso. apply E. change k with (fst (k, v)). apply in_map. exact H.
Qed.

Lemma nodup_keys_functional : forall (K V : Type) (kvs : list (K * V)), NoDup (map fst kvs) -> functional kvs.
Proof.
  intros K V kvs. induction kvs as [|[k0 v0] r IH]; intros N k v v' A B; [destruct A|].
  inversion N as [|? ? N1 N2]; subst. destruct A as [A|A], B as [B|B].
  - congruence.
  - inversion A; subst. exfalso. apply N1. change k with (fst (k, v')). apply in_map. exact B.
  - inversion B; subst. exfalso. apply N1. change k with (fst (k, v)). apply in_map. exact A.
  - apply (IH N2 k); assumption.
Qed.

(* ------------------------------------------------------------------------------------------------ *)
(* lookups of a message descriptor *)

Section LookupExact.
  Context {R : Type}.
  Implicit Types fs : list (mfield R).

  Definition numbers_ok fs : Prop := NoDup (map mf_num fs) /\ Forall (fun f => 1 <= mf_num f) fs.

  (* no key (name or JSON name) of a field is a key of ANOTHER field *)
  Definition keys_ok fs : Prop :=
    forall f g, In f fs -> In g fs ->
      (mf_name f = mf_name g \/ mf_name f = mf_json g \/ mf_json f = mf_name g \/ mf_json f = mf_json g) -> f = g.

  Lemma num_pairs_nonneg : forall fs, Forall (fun f => 1 <= mf_num f) fs ->
    Forall (fun kv : Z * mfield R => 0 <= fst kv) (map (fun f => (mf_num f, f)) fs).
  Proof. intros fs H. apply Forall_map. eapply Forall_impl; [|exact H]. cbn. intros. lia. Qed.

  Lemma by_number_refines : forall fs n, Forall (fun f => 1 <= mf_num f) fs -> by_number fs n = by_number_spec fs n.
  Proof.
    intros fs n H. unfold by_number, by_number_spec, ids_of. destruct (Z.ltb_spec n 0).
    - apply fid_get_negative. exact H0.
    - apply fidmap_refines_assoc; [apply num_pairs_nonneg; exact H | exact H0].
  Qed.

  Lemma by_key_refines : forall fs k, by_key fs k = by_key_spec fs k.
  Proof. intros. unfold by_key, by_key_spec, names_of. apply fnm_refines_assoc. Qed.

  Lemma num_pairs_functional : forall fs, NoDup (map mf_num fs) -> functional (map (fun f => (mf_num f, f)) fs).
  Proof. intros fs H. apply nodup_keys_functional. rewrite map_map. cbn. exact H. Qed.

  Lemma lookup_by_number_exact : forall fs n f, numbers_ok fs -> 0 <= n ->
    (by_number fs n = LRes (Some f) <-> In f fs /\ mf_num f = n).
  Proof.
    intros fs n f [N P] Hn. rewrite by_number_refines by exact P. unfold by_number_spec.
    destruct (Z.ltb_spec n 0); [lia|]. split.
    - intro E. inversion E as [E']. apply assoc_last_in in E'. apply in_map_iff in E'.
      destruct E' as [g [G1 G2]]. inversion G1; subst. split; [exact G2 | reflexivity].
    - intros [I E]. f_equal. apply assoc_last_iff; [apply num_pairs_functional; exact N|].
      apply in_map_iff. exists f. split; [rewrite E; reflexivity | exact I].
  Qed.

  Lemma lookup_by_number_absent : forall fs n, numbers_ok fs -> 0 <= n ->
    (by_number fs n = LRes None <-> forall f, In f fs -> mf_num f <> n).
  Proof.
    intros fs n [N P] Hn. rewrite by_number_refines by exact P. unfold by_number_spec.
    destruct (Z.ltb_spec n 0); [lia|]. split.
    - intros E f I Q. inversion E as [E']. apply assoc_last_none in E'. apply E'.
      rewrite map_map. cbn. apply in_map_iff. exists f. split; assumption.
    - intro H1. f_equal. apply assoc_last_none. rewrite map_map. cbn. intro I. apply in_map_iff in I.
      destruct I as [f [Q I]]. exact (H1 f I Q).
  Qed.

  Lemma key_pairs_in : forall fs k f,
    In (k, f) (flat_map (fun f => [(mf_name f, f); (mf_json f, f)]) fs) <-> In f fs /\ (mf_name f = k \/ mf_json f = k).
  Proof.
    intros fs k f. rewrite in_flat_map. split.
    - intros [g [G [E|[E|[]]]]]; inversion E; subst; tauto.
    - intros [I [E|E]]; exists f; (split; [exact I|]); subst; cbn; tauto.
  Qed.

  Lemma key_pairs_functional : forall fs, keys_ok fs -> functional (flat_map (fun f => [(mf_name f, f); (mf_json f, f)]) fs).
  Proof.
    intros fs K k v v' A B. apply key_pairs_in in A. apply key_pairs_in in B.
    destruct A as [A1 A2], B as [B1 B2]. apply K; [assumption | assumption |].
    destruct A2 as [A2|A2], B2 as [B2|B2]; rewrite A2, B2; tauto.
  Qed.

  Lemma lookup_by_key_exact : forall fs k f, keys_ok fs ->
    (by_key fs k = Some f <-> In f fs /\ (mf_name f = k \/ mf_json f = k)).
  Proof.
    intros fs k f K. rewrite by_key_refines. unfold by_key_spec.
    rewrite assocb_last_iff by (apply key_pairs_functional; exact K). apply key_pairs_in.
  Qed.

  Lemma lookup_by_key_absent : forall fs k,
    (by_key fs k = None <-> forall f, In f fs -> mf_name f <> k /\ mf_json f <> k).
  Proof.
    intros fs k. rewrite by_key_refines. unfold by_key_spec. rewrite assocb_last_none. split.
    - intros H f I. split; intro E; apply H; apply in_map_iff; exists (k, f); (split; [reflexivity|]); apply key_pairs_in; tauto.
    - intros H I. apply in_map_iff in I. destruct I as [[k' f] [E I]]. cbn in E. subst k'.
      apply key_pairs_in in I. destruct I as [I [E|E]]; destruct (H f I); contradiction.
  Qed.

  (* FieldsCount() is the LARGEST declared number (len(slice) - 1), not the number of fields *)
  Lemma fields_count_is_max : forall fs, Forall (fun f => 1 <= mf_num f) fs ->
    fields_count fs = fold_left (fun a f => Z.max a (mf_num f)) fs (-1).
  Proof.
    intros fs H. unfold fields_count, fid_size, ids_of, fid_build.
    rewrite fid_fold_length by (apply num_pairs_nonneg; exact H). cbn [length Z.of_nat].
    assert (G : forall l a, fold_left (fun a (kv : Z * mfield R) => Z.max a (fst kv + 1)) (map (fun f => (mf_num f, f)) l) (a + 1) - 1
                          = fold_left (fun a f => Z.max a (mf_num f)) l a).
    { induction l as [|x l IH]; intro a; cbn [map fold_left fst]; [lia|].
      replace (Z.max (a + 1) (mf_num x + 1)) with (Z.max a (mf_num x) + 1) by lia. apply IH. }
    exact (G fs (-1)).
  Qed.
End LookupExact.

(* ------------------------------------------------------------------------------------------------ *)
(* the message table of pelab *)

Definition msg_names_unique (s : schema) : Prop := NoDup (map fst (msg_table s)).

Lemma lookup_msg_in : forall (t : msgtab) m fs, NoDup (map fst t) -> In (m, fs) t -> lookup_msg t m = Some fs.
Proof.
  induction t as [|[m0 fs0] r IH]; intros m fs N I; [destruct I|].
  cbn in N. inversion N as [|? ? N1 N2]; subst. cbn. destruct I as [I|I].
  - inversion I; subst. rewrite qname_eqb_refl. reflexivity.
  - destruct (qname_eqb m0 m) eqn:E.
    + apply qname_eqb_eq in E. subst. exfalso. apply N1. change m with (fst (m, fs)). apply in_map. exact I.
    + apply IH; assumption.
Qed.

Lemma lookup_msg_some_in : forall (t : msgtab) m fs, lookup_msg t m = Some fs -> In (m, fs) t.
Proof.
  induction t as [|[m0 fs0] r IH]; intros m fs H; cbn in H; [discriminate|].
  destruct (qname_eqb m0 m) eqn:E.
  - apply qname_eqb_eq in E. inversion H; subst. left. reflexivity.
  - right. apply IH. exact H.
Qed.

Lemma msg_table_decl : forall s f m fds, In f s -> In (DMsg m fds) (pf_decls f) ->
  In (m, map (elab_field (symtab_of s f) m) fds) (msg_table s).
Proof.
  intros s f m fds Hf Hd. unfold msg_table. apply in_flat_map. exists f. split; [exact Hf|].
  unfold file_msgs. apply in_flat_map. exists (DMsg m fds). split; [exact Hd|]. cbn. left. reflexivity.
Qed.

Lemma msg_table_entry : forall s f m fds fd, In f s -> In (DMsg m fds) (pf_decls f) -> In fd fds -> is_map_field fd = true ->
  In (m ++ [entry_name (fd_name fd)], entry_fields (symtab_of s f) m fd) (msg_table s).
Proof.
  intros s f m fds fd Hf Hd Hfd Hm. unfold msg_table. apply in_flat_map. exists f. split; [exact Hf|].
  unfold file_msgs. apply in_flat_map. exists (DMsg m fds). split; [exact Hd|]. cbn. right.
  apply in_map_iff. exists fd. split; [reflexivity|]. apply filter_In. split; assumption.
Qed.

(* every entry of the table comes from a declaration: nothing else is exposed *)
Lemma msg_table_only_declared : forall s m mfs, In (m, mfs) (msg_table s) ->
  exists f, In f s /\
    ((exists fds, In (DMsg m fds) (pf_decls f) /\ mfs = map (elab_field (symtab_of s f) m) fds) \/
     (exists m0 fds fd, In (DMsg m0 fds) (pf_decls f) /\ In fd fds /\ is_map_field fd = true /\
        m = m0 ++ [entry_name (fd_name fd)] /\ mfs = entry_fields (symtab_of s f) m0 fd)).
Proof.
  intros s m mfs H. unfold msg_table in H. apply in_flat_map in H. destruct H as [f [Hf H]].
  exists f. split; [exact Hf|]. unfold file_msgs in H. apply in_flat_map in H. destruct H as [d [Hd H]].
  destruct d as [m0 fds|e]; cbn in H; [|destruct H]. destruct H as [H|H].
  - inversion H; subst. left. exists fds. split; [exact Hd | reflexivity].
  - apply in_map_iff in H. destruct H as [fd [E H]]. apply filter_In in H. destruct H as [H1 H2].
    inversion E; subst. right. exists m0, fds, fd. repeat split; assumption.
Qed.

Lemma elab_field_basic : forall tab m fd,
  let mf := elab_field tab m fd in
  mf_num mf = fd_num fd /\ mf_name mf = fd_name fd /\ mf_json mf = json_of fd /\
  mf_list mf = (fd_label fd =? 1) /\ mf_map mf = (negb (fd_label fd =? 0) && negb (fd_label fd =? 1)).
Proof.
  intros tab m fd. unfold elab_field. destruct (elem_of tab m fd) as [ek em].
  destruct (Z.eqb_spec (fd_label fd) 0) as [E0|E0]; cbn.
  - repeat split; try reflexivity. destruct (Z.eqb_spec (fd_label fd) 1); [lia | reflexivity].
  - destruct (Z.eqb_spec (fd_label fd) 1); cbn; repeat split; reflexivity.
Qed.

Lemma elab_field_kind : forall tab m fd,
  let mf := elab_field tab m fd in
  let ek := fst (elem_of tab m fd) in
  (fd_label fd = 0 -> mf_kind mf = ek /\ mf_ty mf = ek /\ mf_packed mf = false) /\
  (fd_label fd = 1 -> mf_kind mf = ek /\ mf_ty mf = T_LIST /\ mf_elemty mf = ek /\
                      mf_packed mf = (packable ek && negb (fd_packopt fd =? 2))) /\
  (fd_label fd = 2 -> mf_kind mf = K_MESSAGE /\ mf_ty mf = T_MAP /\ mf_keyty mf = fd_keykind fd /\ mf_elemty mf = ek /\
                      mf_packed mf = false /\ mf_tmsg mf = Some (m ++ [entry_name (fd_name fd)])).
Proof.
  intros tab m fd. unfold elab_field. destruct (elem_of tab m fd) as [ek em]. cbn [fst].
  split; [|split]; intro E; rewrite E; cbn; repeat split; reflexivity.
Qed.

Lemma pelab_fields_exact : forall mode s f m fds,
  msg_names_unique s -> In f s -> In (DMsg m fds) (pf_decls f) ->
  lookup_msg (pd_msgs (pelab mode s)) m = Some (map (elab_field (symtab_of s f) m) fds).
Proof.
  intros mode s f m fds U Hf Hd. cbn [pelab pd_msgs]. apply lookup_msg_in; [exact U|]. apply msg_table_decl; assumption.
Qed.

Lemma pelab_fields_columns : forall tab m fds,
  map mf_num (map (elab_field tab m) fds) = map fd_num fds /\
  map mf_name (map (elab_field tab m) fds) = map fd_name fds /\
  map mf_json (map (elab_field tab m) fds) = map json_of fds.
Proof.
  intros tab m fds. rewrite !map_map. repeat split; apply map_ext; intro fd;
    pose proof (elab_field_basic tab m fd) as H; cbn zeta in H; tauto.
Qed.

Lemma pelab_entry_exact : forall mode s f m fds fd,
  msg_names_unique s -> In f s -> In (DMsg m fds) (pf_decls f) -> In fd fds -> fd_label fd = 2 ->
  lookup_msg (pd_msgs (pelab mode s)) (m ++ [entry_name (fd_name fd)]) = Some (entry_fields (symtab_of s f) m fd).
Proof.
  intros mode s f m fds fd U Hf Hd Hfd L. cbn [pelab pd_msgs]. apply lookup_msg_in; [exact U|].
  apply (msg_table_entry s f m fds fd); try assumption. unfold is_map_field. rewrite L. reflexivity.
Qed.

(* ---- type identity *)
Lemma elem_of_msg : forall tab m fd F, fd_kind fd = 0 -> resolve tab m (fd_ref fd) = Some (F, S_MSG) ->
  elem_of tab m fd = (K_MESSAGE, Some F).
Proof. intros tab m fd F K H. unfold elem_of. rewrite K, H. reflexivity. Qed.

Lemma pelab_type_identity : forall mode s f m fds fd F,
  msg_names_unique s -> In f s -> In (DMsg m fds) (pf_decls f) -> In fd fds ->
  fd_kind fd = 0 -> resolve (symtab_of s f) m (fd_ref fd) = Some (F, S_MSG) ->
  let mf := elab_field (symtab_of s f) m fd in
  (* the field refers to the message by the FULL name that scoping resolution yields
     (element message of a singular / repeated field; value message of a map) ... *)
  (fd_label fd = 0 -> mf_tmsg mf = Some F) /\
  (fd_label fd = 1 -> mf_tmsg mf = Some F /\ mf_emsg mf = Some F) /\
  (fd_label fd = 2 -> mf_emsg mf = Some F) /\
  (* ... and the descriptor registered under that name is the elaboration of F's own declaration *)
  (forall g fdsF, In g s -> In (DMsg F fdsF) (pf_decls g) ->
     lookup_msg (pd_msgs (pelab mode s)) F = Some (map (elab_field (symtab_of s g) F) fdsF)).
Proof.
  intros mode s f m fds fd F U Hf Hd Hfd K H. cbn zeta. unfold elab_field. rewrite (elem_of_msg _ _ _ _ K H).
  split; [|split; [|split]].
  - intro E. rewrite E. reflexivity.
  - intro E. rewrite E. cbn. split; reflexivity.
  - intro E. rewrite E. reflexivity.
  - intros g fdsF Hg HdF. apply pelab_fields_exact; assumption.
Qed.

(* two declared messages with the same SIMPLE name keep their own descriptors *)
Lemma same_simple_name_own_descriptors : forall mode s g1 g2 F1 F2 fds1 fds2,
  msg_names_unique s -> In g1 s -> In g2 s -> In (DMsg F1 fds1) (pf_decls g1) -> In (DMsg F2 fds2) (pf_decls g2) ->
  last_comp F1 = last_comp F2 ->
  lookup_msg (pd_msgs (pelab mode s)) F1 = Some (map (elab_field (symtab_of s g1) F1) fds1) /\
  lookup_msg (pd_msgs (pelab mode s)) F2 = Some (map (elab_field (symtab_of s g2) F2) fds2).
Proof. intros. split; apply pelab_fields_exact; assumption. Qed.

(* ------------------------------------------------------------------------------------------------ *)
(* scoping resolution *)

Lemma resolve_in_sound : forall tab first rest scs F k,
  resolve_in tab first rest scs = Some (F, k) ->
  find_sym tab F = Some k /\ is_type k = true /\ exists sc, In sc scs /\ F = sc ++ first :: rest.
Proof.
  intros tab first rest scs. induction scs as [|sc more IH]; intros F k H; cbn in H; [discriminate|].
  assert (REC : resolve_in tab first rest more = Some (F, k) ->
                find_sym tab F = Some k /\ is_type k = true /\ exists sc0, In sc0 (sc :: more) /\ F = sc0 ++ first :: rest).
  { intro R. destruct (IH _ _ R) as [A [B [sc0 [C D]]]]. repeat split; try assumption. exists sc0. split; [right; exact C | exact D]. }
  destruct (find_sym tab (sc ++ [first])) as [k0|] eqn:E; [|exact (REC H)].
  destruct rest as [|r1 rest'].
  - destruct (is_type k0) eqn:T; [|exact (REC H)]. inversion H; subst.
    repeat split; try assumption. exists sc. split; [left; reflexivity | reflexivity].
  - destruct (is_aggregate k0); [|exact (REC H)].
    destruct (find_sym tab (sc ++ first :: r1 :: rest')) as [k'|] eqn:E2; [|discriminate].
    destruct (is_type k') eqn:T; [|discriminate]. inversion H; subst.
    repeat split; try assumption. exists sc. split; [left; reflexivity | reflexivity].
Qed.

Definition no_type_at (tab : symtab) (first : bytes) (sc : qname) : Prop :=
  match find_sym tab (sc ++ [first]) with Some k => is_type k = false | None => True end.

(* a simple name resolves in the INNERMOST enclosing scope that declares a type of that name *)
Lemma resolve_in_innermost : forall tab first scs F k,
  resolve_in tab first [] scs = Some (F, k) ->
  exists l1 sc l2, scs = l1 ++ sc :: l2 /\ F = sc ++ [first] /\ find_sym tab F = Some k /\ is_type k = true /\
                   Forall (no_type_at tab first) l1.
Proof.
  intros tab first scs. induction scs as [|sc more IH]; intros F k H; cbn in H; [discriminate|].
  assert (REC : no_type_at tab first sc -> resolve_in tab first [] more = Some (F, k) ->
     exists l1 sc0 l2, sc :: more = l1 ++ sc0 :: l2 /\ F = sc0 ++ [first] /\ find_sym tab F = Some k /\ is_type k = true /\
                       Forall (no_type_at tab first) l1).
  { intros NT R. destruct (IH _ _ R) as [l1 [sc0 [l2 [A [B [C [D E]]]]]]].
    exists (sc :: l1), sc0, l2. rewrite A. repeat split; try assumption. constructor; assumption. }
  unfold no_type_at in REC.
  destruct (find_sym tab (sc ++ [first])) as [k0|] eqn:E; [|exact (REC I H)].
  destruct (is_type k0) eqn:T; [|exact (REC eq_refl H)].
  inversion H; subst. exists [], sc, more. repeat split; try assumption. constructor.
Qed.

Lemma removelast_prefix : forall (A : Type) (l : list A), exists q, l = removelast l ++ q.
Proof.
  intros A l. destruct l as [|x l]; [exists []; reflexivity|].
  exists [last (x :: l) x]. apply app_removelast_last. discriminate.
Qed.

Lemma scopes_of_prefix : forall n sc p, In p (scopes_of n sc) -> exists q, sc = p ++ q.
Proof.
  induction n as [|n IH]; intros sc p H; cbn in H.
  - destruct H as [H|[]]. subst. exists []. rewrite app_nil_r. reflexivity.
  - destruct H as [H|H]; [subst; exists []; rewrite app_nil_r; reflexivity|].
    destruct (IH _ _ H) as [q Q]. destruct (removelast_prefix _ sc) as [q' Q'].
    exists (q ++ q'). rewrite app_assoc, <- Q. exact Q'.
Qed.

Lemma resolve_relative_simple : forall tab sc c r first F k,
  c <> 46 -> split_dots (c :: r) = [first] -> resolve tab sc (c :: r) = Some (F, k) ->
  exists l1 pre l2 post,
    scopes sc = l1 ++ pre :: l2 /\ sc = pre ++ post /\ F = pre ++ [first] /\
    find_sym tab F = Some k /\ is_type k = true /\ Forall (no_type_at tab first) l1.
Proof.
  intros tab sc c r first F k C S H. unfold resolve in H.
  destruct (Z.eqb_spec c 46); [contradiction|]. rewrite S in H.
  destruct (resolve_in_innermost _ _ _ _ _ H) as [l1 [pre [l2 [A [B [D [E G]]]]]]].
  assert (I : In pre (scopes sc)) by (rewrite A; apply in_or_app; right; left; reflexivity).
  destruct (scopes_of_prefix _ _ _ I) as [post P].
  exists l1, pre, l2, post. repeat split; assumption.
Qed.

Lemma resolve_sound : forall tab sc ref F k, resolve tab sc ref = Some (F, k) -> find_sym tab F = Some k /\ is_type k = true.
Proof.
  intros tab sc ref F k H. unfold resolve in H. destruct ref as [|c r]; [discriminate|].
  destruct (c =? 46).
  - destruct (find_sym tab (split_dots r)) as [k0|] eqn:E; [|discriminate].
    destruct (is_type k0) eqn:T; [|discriminate]. inversion H; subst. split; assumption.
  - destruct (split_dots (c :: r)) as [|first rest]; [discriminate|].
    destruct (resolve_in_sound _ _ _ _ _ _ H) as [A [B _]]. split; assumption.
Qed.

Lemma resolve_absolute : forall tab sc r F k, resolve tab sc (46 :: r) = Some (F, k) -> F = split_dots r.
Proof.
  intros tab sc r F k H. unfold resolve in H. cbn in H.
  destruct (find_sym tab (split_dots r)) as [k0|]; [|discriminate]. destruct (is_type k0); [|discriminate].
  inversion H; reflexivity.
Qed.

(* ------------------------------------------------------------------------------------------------ *)
(* services *)

Lemma select_svcs_first : forall x r, select_svcs 1 (x :: r) = [x].
Proof. reflexivity. Qed.
Lemma select_svcs_last : forall l x, select_svcs 0 (l ++ [x]) = [x].
Proof. intros. unfold select_svcs. cbn. rewrite rev_app_distr. reflexivity. Qed.
Lemma select_svcs_combine : forall l, select_svcs 2 l = l.
Proof. reflexivity. Qed.

Lemma pelab_methods_exact : forall mode s,
  pd_methods (pelab mode s) =
  flat_map (fun sv => map (elab_method (symtab_of s (main_file s)) (pf_pkg (main_file s))) (sd_methods sv))
           (select_svcs mode (pf_svcs (main_file s))).
Proof. reflexivity. Qed.

Lemma elab_method_flags : forall tab pkg m,
  let pm := elab_method tab pkg m in pm_name pm = md_name m /\ pm_cs pm = md_cs m /\ pm_ss pm = md_ss m.
Proof. intros. cbn. repeat split. Qed.

Lemma method_lookup_exact : forall d k pm, NoDup (map pm_name (pd_methods d)) ->
  (method_by_name d k = Some pm <-> In pm (pd_methods d) /\ pm_name pm = k).
Proof.
  intros d k pm N. unfold method_by_name.
  rewrite assocb_last_iff by (apply nodup_keys_functional; rewrite map_map; exact N).
  rewrite in_map_iff. split.
  - intros [x [E I]]. inversion E; subst. split; [exact I | reflexivity].
  - intros [I E]. exists pm. split; [rewrite E; reflexivity | exact I].
Qed.

Lemma method_lookup_absent : forall d k,
  (method_by_name d k = None <-> forall pm, In pm (pd_methods d) -> pm_name pm <> k).
Proof.
  intros d k. unfold method_by_name. rewrite assocb_last_none. rewrite map_map. cbn. split.
  - intros H pm I E. apply H. apply in_map_iff. exists pm. split; assumption.
  - intros H I. apply in_map_iff in I. destruct I as [pm [E I]]. exact (H pm I E).
Qed.

(* ------------------------------------------------------------------------------------------------ *)
(* default JSON names *)

Lemma upper_not_underscore : forall c, c <> 95 -> upper c <> 95.
Proof. intros c H. unfold upper. destruct ((97 <=? c) && (c <=? 122)) eqn:E; [|exact H]. apply andb_true_iff in E. lia. Qed.

Lemma json_go_no_underscore : forall s up, ~ In 95 (json_go up s).
Proof.
  induction s as [|c r IH]; intros up H; cbn in H; [exact H|].
  destruct (Z.eqb_spec c 95); [exact (IH _ H)|].
  destruct H as [H|H]; [|exact (IH _ H)].
  destruct up; [exact (upper_not_underscore c n H) | exact (n H)].
Qed.

Lemma json_default_no_underscore : forall s, ~ In 95 (json_default s).
Proof. intro s. apply json_go_no_underscore. Qed.

Lemma json_default_id : forall s, ~ In 95 s -> json_default s = s.
Proof.
  unfold json_default. induction s as [|c r IH]; intro H; cbn; [reflexivity|].
  destruct (Z.eqb_spec c 95); [exfalso; apply H; left; exact e|].
  f_equal. apply IH. intro I. apply H. right. exact I.
Qed.

(* ------------------------------------------------------------------------------------------------ *)
(* reflection of the executable uniqueness test *)

Lemma nodupb_NoDup : forall (A : Type) (eqb : A -> A -> bool), (forall x y, eqb x y = true <-> x = y) ->
  forall l, (fix nd (l : list A) := match l with [] => true | x :: r => negb (existsb (eqb x) r) && nd r end) l = true -> NoDup l.
Proof.
  intros A eqb H. induction l as [|x r IH]; intro E; [constructor|].
  apply andb_true_iff in E. destruct E as [E1 E2]. constructor; [|apply IH; exact E2].
  intro I. apply negb_true_iff in E1. assert (X : existsb (eqb x) r = true).
  { apply existsb_exists. exists x. split; [exact I | apply H; reflexivity]. }
  congruence.
Qed.

(* ------------------------------------------------------------------------------------------------ *)
(* the checker's validity test implies the hypotheses of the theorems above *)
From DG Require Import Check15.

Lemma nodupb_sound : forall (A : Type) (eqb : A -> A -> bool), (forall x y, eqb x y = true <-> x = y) ->
  forall l, nodupb eqb l = true -> NoDup l.
Proof.
  intros A eqb H. induction l as [|x r IH]; intro E; [constructor|]. cbn in E.
  apply andb_true_iff in E. destruct E as [E1 E2]. constructor; [|apply IH; exact E2].
  intro I. apply negb_true_iff in E1. assert (X : existsb (eqb x) r = true).
  { apply existsb_exists. exists x. split; [exact I | apply H; reflexivity]. }
  congruence.
Qed.

Definition is_msg_sym (p : qname * Z) : bool := snd p =? S_MSG.

Lemma filter_all_true : forall (A : Type) (P : A -> bool) l, (forall x, In x l -> P x = true) -> filter P l = l.
Proof.
  intros A P. induction l as [|x r IH]; intro H; cbn; [reflexivity|].
  rewrite (H x) by (left; reflexivity). f_equal. apply IH. intros y I. apply H. right. exact I.
Qed.

Lemma decl_msgs_keys : forall tab d, map fst (decl_msgs tab d) = map fst (filter is_msg_sym (decl_syms d)).
Proof.
  intros tab [m fds|e]; [|reflexivity]. cbn [decl_msgs decl_syms]. rewrite (filter_all_true _ is_msg_sym).
  - cbn. f_equal. rewrite !map_map. reflexivity.
  - intros x [I|I]; [subst; reflexivity|]. apply in_map_iff in I. destruct I as [fd [E _]]. subst. reflexivity.
Qed.

Lemma decls_msgs_keys : forall tab ds,
  map fst (flat_map (decl_msgs tab) ds) = map fst (filter is_msg_sym (flat_map decl_syms ds)).
Proof.
  intros tab. induction ds as [|d r IH]; [reflexivity|]. cbn [flat_map].
  rewrite filter_app, !map_app, IH, decl_msgs_keys. reflexivity.
Qed.

Lemma files_msgs_keys : forall (tabf : pfile -> symtab) l,
  map fst (flat_map (fun f => flat_map (decl_msgs (tabf f)) (pf_decls f)) l) =
  map fst (filter is_msg_sym (flat_map (fun f => flat_map decl_syms (pf_decls f)) l)).
Proof.
  intros tabf. induction l as [|f r IH]; [reflexivity|]. cbn [flat_map].
  rewrite filter_app, !map_app, IH, decls_msgs_keys. reflexivity.
Qed.

Lemma NoDup_map_filter : forall (A B : Type) (g : A -> B) (P : A -> bool) l, NoDup (map g l) -> NoDup (map g (filter P l)).
Proof.
  intros A B g P. induction l as [|x r IH]; intro N; [constructor|]. cbn in *. inversion N as [|? ? N1 N2]; subst.
  destruct (P x); [|apply IH; exact N2]. cbn. constructor; [|apply IH; exact N2].
  intro I. apply N1. apply in_map_iff in I. destruct I as [y [E I]]. apply filter_In in I.
  apply in_map_iff. exists y. split; [exact E | tauto].
Qed.

Lemma schema_ok_names_unique : forall mode s, schema_ok mode s = true -> msg_names_unique s.
Proof.
  intros mode s H. unfold schema_ok in H. destruct s as [|f0 r]; [discriminate|].
  repeat (apply andb_true_iff in H; destruct H as [H ?]).
  apply (nodupb_sound _ _ qname_eqb_eq) in H. unfold msg_names_unique, msg_table, file_msgs.
  rewrite (files_msgs_keys (fun f => symtab_of (f0 :: r) f)). apply NoDup_map_filter. exact H.
Qed.

Lemma decl_ok_numbers : forall tab m fds, decl_ok tab (DMsg m fds) = true -> numbers_ok (map (elab_field tab m) fds).
Proof.
  intros tab m fds H. cbn in H. apply andb_true_iff in H. destruct H as [H H3].
  apply andb_true_iff in H. destruct H as [H1 H2]. split.
  - destruct (pelab_fields_columns tab m fds) as [C _]. rewrite C.
    apply (nodupb_sound _ _ Z.eqb_eq). exact H1.
  - apply Forall_map. apply Forall_forall. intros fd I. rewrite forallb_forall in H3. specialize (H3 fd I).
    unfold fdecl_ok in H3. repeat (apply andb_true_iff in H3; destruct H3 as [H3 ?]).
    destruct (elab_field_basic tab m fd) as [E _]. cbn zeta in E. rewrite E. apply Z.leb_le. exact H3.
Qed.

(* ------------------------------------------------------------------------------------------------ *)
(* witness: the memo keyed by the simple name attaches the wrong descriptor (finding 1501)

   package p;
   message A { message Item { int32 a = 1; }  Item item = 1; }
   message B { message Item { string b = 2; } Item item = 1; }
   message Req { A a = 1; B b = 2; }
   service S { rpc M(Req) returns (Req); }                                                          *)

Definition w_p : bytes := [112].
Definition w_A : bytes := [65].
Definition w_B : bytes := [66].
Definition w_Item : bytes := [73; 116; 101; 109].
Definition w_Req : bytes := [82; 101; 113].
Definition w_fd (num : Z) (name : bytes) (kind : Z) (ref : bytes) : fdecl :=
  {| fd_num := num; fd_name := name; fd_json := None; fd_label := 0; fd_packopt := 0; fd_keykind := 0; fd_kind := kind; fd_ref := ref |}.

Definition witness_schema : schema :=
  [ {| pf_path := [115; 48]; pf_pkg := [w_p]; pf_imports := [];
       pf_decls := [ DMsg [w_p; w_A] [w_fd 1 [105;116;101;109] 0 w_Item];
                     DMsg [w_p; w_A; w_Item] [w_fd 1 [97] 5 []];
                     DMsg [w_p; w_B] [w_fd 1 [105;116;101;109] 0 w_Item];
                     DMsg [w_p; w_B; w_Item] [w_fd 2 [98] 9 []];
                     DMsg [w_p; w_Req] [w_fd 1 [97] 0 w_A; w_fd 2 [98] 0 w_B] ];
       pf_svcs := [ {| sd_name := [83]; sd_methods := [ {| md_name := [77]; md_in := w_Req; md_out := w_Req; md_cs := false; md_ss := false |} ] |} ] |} ].

(* which declaration the descriptor reached by Req.b.item was built from, under a memo keyed by [keyf] *)
Definition witness_follow (keyf : qname -> bytes) : option qname :=
  let d := pelab 0 witness_schema in
  let '(ms, st) := qmethods keyf (pd_msgs d) 8 (pd_methods d) in
  match ms with
  | (_, i, _) :: _ => q_follow (q_nodes st) [2; 1] i
  | [] => None
  end.

Lemma witness_valid : schema_ok 0 witness_schema = true.
Proof. vm_compute. reflexivity. Qed.

Lemma witness_spec : spec_follow (pd_msgs (pelab 0 witness_schema)) [2; 1] [w_p; w_Req] = Some [w_p; w_B; w_Item].
Proof. vm_compute. reflexivity. Qed.

Lemma witness_simple_memo : witness_follow key_simple = Some [w_p; w_A; w_Item].
Proof. vm_compute. reflexivity. Qed.

Lemma witness_full_memo : witness_follow key_full = Some [w_p; w_B; w_Item].
Proof. vm_compute. reflexivity. Qed.

Lemma memo_by_simple_name_refuted :
  exists s path root, schema_ok 0 s = true /\
    spec_follow (pd_msgs (pelab 0 s)) path root <>
    (let d := pelab 0 s in
     let '(ms, st) := qmethods key_simple (pd_msgs d) 8 (pd_methods d) in
     match ms with (_, i, _) :: _ => q_follow (q_nodes st) path i | [] => None end).
Proof.
  exists witness_schema, [2; 1], [w_p; w_Req]. split; [exact witness_valid|].
  rewrite witness_spec. change (Some [w_p; w_B; w_Item] <> witness_follow key_simple).
  rewrite witness_simple_memo. discriminate.
Qed.

Lemma field_keys_ok_cons : forall fd r,
  field_keys_ok (fd :: r) =
  negb (existsb (fun p : bytes * bytes => bytes_eqb (fst p) (fd_name fd) || bytes_eqb (fst p) (json_of fd)
                                      || bytes_eqb (snd p) (fd_name fd) || bytes_eqb (snd p) (json_of fd))
                (map (fun fd => (fd_name fd, json_of fd)) r)) && field_keys_ok r.
Proof. reflexivity. Qed.

Lemma decl_ok_keys : forall tab m fds, field_keys_ok fds = true -> keys_ok (map (elab_field tab m) fds).
Proof.
  intros tab m. induction fds as [|fd r IH]; intro H; [intros f g []|].
  rewrite field_keys_ok_cons in H. apply andb_true_iff in H. destruct H as [H1 H2].
  apply negb_true_iff in H1. specialize (IH H2).
  assert (X : forall fd', In fd' r ->
            fd_name fd' <> fd_name fd /\ fd_name fd' <> json_of fd /\ json_of fd' <> fd_name fd /\ json_of fd' <> json_of fd).
  { intros fd' I. assert (Y : existsb (fun p : bytes * bytes => bytes_eqb (fst p) (fd_name fd) || bytes_eqb (fst p) (json_of fd)
                                      || bytes_eqb (snd p) (fd_name fd) || bytes_eqb (snd p) (json_of fd))
                                (map (fun fd => (fd_name fd, json_of fd)) r) = true -> False) by congruence.
    repeat split; intro E; apply Y; apply existsb_exists; exists (fd_name fd', json_of fd');
      (split; [apply in_map_iff; exists fd'; split; [reflexivity | exact I]|]); cbn [fst snd]; rewrite E;
      rewrite bytes_eqb_refl; rewrite ?orb_true_r; reflexivity. }
  intros f g If Ig K. cbn [map] in If, Ig.
  pose proof (elab_field_basic tab m fd) as Bh. cbn zeta in Bh. destruct Bh as [_ [Bn [Bj _]]].
  destruct If as [If|If], Ig as [Ig|Ig].
  - congruence.
  - exfalso. subst f. apply in_map_iff in Ig. destruct Ig as [fd' [E I]]. subst g.
    pose proof (elab_field_basic tab m fd') as B'. cbn zeta in B'. destruct B' as [_ [Bn' [Bj' _]]].
    rewrite Bn, Bj, Bn', Bj' in K. destruct (X fd' I) as [X1 [X2 [X3 X4]]].
    destruct K as [K|[K|[K|K]]]; [apply X1 | apply X3 | apply X2 | apply X4]; congruence.
  - exfalso. subst g. apply in_map_iff in If. destruct If as [fd' [E I]]. subst f.
    pose proof (elab_field_basic tab m fd') as B'. cbn zeta in B'. destruct B' as [_ [Bn' [Bj' _]]].
    rewrite Bn, Bj, Bn', Bj' in K. destruct (X fd' I) as [X1 [X2 [X3 X4]]].
    destruct K as [K|[K|[K|K]]]; [apply X1 | apply X2 | apply X3 | apply X4]; congruence.
  - apply IH; assumption.
Qed.
