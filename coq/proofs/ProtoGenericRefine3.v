(* Refinement of the bulk lookups (GetMany: Node.Fields / Indexes / Gets, as coded with every repair applied)
   to the map of single lookups. *)
From Coq Require Import ZArith List Bool Lia.
From DG Require Import CaseFormat ProtoWireRef ProtoWireRefProofs ProtoMsg ProtoMsgProofs
  ProtoGeneric ProtoGenericAlg ProtoGenericDom ProtoGenericKids ProtoGenericProofs ProtoGenericRefine ProtoGenericRefine2.
Import ListNotations.
Local Open Scope Z_scope.

(* ------------------------------------------------------------------ pure part: filling the result slots child by child *)
Definition kid_step (k : atree) : pstep := match k with ATree st _ _ _ => st end.
Definition kid_out (k : atree) : Z * list Z := match k with ATree _ t raw _ => (t, raw) end.

Fixpoint fill (kids : list atree) (reqs : list pstep) (acc : list (option (Z * list Z))) (count need : Z) :=
  match kids with
  | [] => acc
  | k :: r =>
    if count <? need then
      let '(acc', b) := set_first (req_matches reqs (fun s => step_eqb (kid_step k) s)) (kid_out k) O acc in
      fill r reqs acc' (if b then count + 1 else count) need
    else acc
  end.

Fixpoint upd {A} (l : list A) (j : nat) (y : A) : list A :=
  match l, j with
  | [], _ => []
  | _ :: r, O => y :: r
  | a :: r, Datatypes.S j' => a :: upd r j' y
  end.

Lemma upd_length {A} (l : list A) : forall j y, length (upd l j y) = length l.
Proof. induction l as [|a l IH]; intros [|j] y; cbn [upd length]; try reflexivity. rewrite IH. reflexivity. Qed.

Lemma upd_nth_same {A} (l : list A) : forall j y, (j < length l)%nat -> nth_error (upd l j y) j = Some y.
Proof.
  induction l as [|a l IH]; intros j y H; [cbn in H; lia|].
  destruct j; [reflexivity|]. cbn [upd nth_error]. apply IH. cbn in H. lia.
Qed.

Lemma upd_nth_other {A} (l : list A) : forall j y i, i <> j -> nth_error (upd l j y) i = nth_error l i.
Proof.
  induction l as [|a l IH]; intros j y i H; [destruct j; reflexivity|].
  destruct j, i; cbn [upd nth_error]; try reflexivity; [contradiction|]. apply IH. lia.
Qed.

Lemma set_first_none {A} p (x : A) : forall l i,
  (forall j, (j < length l)%nat -> p (i + j)%nat = false) -> set_first p x i l = (l, false).
Proof.
  induction l as [|y l IH]; intros i H; [reflexivity|].
  cbn [set_first]. pose proof (H O ltac:(cbn; lia)) as H0. rewrite Nat.add_0_r in H0. rewrite H0.
  rewrite IH; [reflexivity|]. intros j Hj. replace (Datatypes.S i + j)%nat with (i + Datatypes.S j)%nat by lia. apply H. cbn. lia.
Qed.

Lemma set_first_unique {A} p (x : A) : forall l i j,
  (j < length l)%nat -> p (i + j)%nat = true -> (forall j', j' <> j -> p (i + j')%nat = false) ->
  set_first p x i l = (upd l j (Some x), true).
Proof.
  induction l as [|y l IH]; intros i j Hj Hp Hn; [cbn in Hj; lia|].
  cbn [set_first]. destruct j as [|j].
  - rewrite Nat.add_0_r in Hp. rewrite Hp. reflexivity.
  - pose proof (Hn O ltac:(lia)) as H0. rewrite Nat.add_0_r in H0. rewrite H0.
    rewrite (IH (Datatypes.S i) j); [reflexivity|cbn in Hj; lia|replace (Datatypes.S i + j)%nat with (i + Datatypes.S j)%nat by lia; exact Hp|].
    intros j' Hj'. replace (Datatypes.S i + j')%nat with (i + Datatypes.S j')%nat by lia. apply Hn. lia.
Qed.

Fixpoint count_some {A} (l : list (option A)) : Z :=
  match l with [] => 0 | Some _ :: r => 1 + count_some r | None :: r => count_some r end.

Lemma count_some_le {A} (l : list (option A)) : 0 <= count_some l <= plen l.
Proof. induction l as [|[a|] l IH]; cbn [count_some]; rewrite ?plen_cons; unfold plen in *; cbn [length]; lia. Qed.

Lemma count_some_full {A} (l : list (option A)) : plen l <= count_some l ->
  forall i y, nth_error l i = Some y -> y <> None.
Proof.
  induction l as [|[a|] l IH]; intros H i y Hn.
  - destruct i; discriminate.
  - cbn [count_some] in H. rewrite plen_cons in H. destruct i; cbn [nth_error] in Hn.
    + inversion Hn. discriminate.
    + apply (IH ltac:(lia) i y Hn).
  - cbn [count_some] in H. rewrite plen_cons in H. pose proof (count_some_le l). lia.
Qed.

Lemma count_some_upd {A} (l : list (option A)) : forall j x, nth_error l j = Some None ->
  count_some (upd l j (Some x)) = count_some l + 1.
Proof.
  induction l as [|[a|] l IH]; intros j x H.
  - destruct j; discriminate.
  - destruct j; [discriminate|]. cbn [upd count_some nth_error] in *. rewrite (IH j x H). lia.
  - destruct j; cbn [upd count_some nth_error] in *; [lia|]. apply (IH j x H).
Qed.

Lemma step_eqb_eq a b : step_eqb a b = true -> a = b.
Proof.
  destruct a, b; cbn [step_eqb]; intros H; try discriminate; try (apply Z.eqb_eq in H; subst; reflexivity).
  apply beqb_true in H. subst. reflexivity.
Qed.

Lemma find_kid_cons s k r : find_kid s (k :: r) = if step_eqb (kid_step k) s then Some k else find_kid s r.
Proof. destruct k. reflexivity. Qed.

Lemma find_kid_none s kids : ~ In s (map kid_step kids) -> find_kid s kids = None.
Proof.
  induction kids as [|k r IH]; intros H; [reflexivity|]. rewrite find_kid_cons.
  destruct (step_eqb (kid_step k) s) eqn:E.
  - apply step_eqb_eq in E. exfalso. apply H. left. exact E.
  - apply IH. intros Hin. apply H. right. exact Hin.
Qed.

Lemma existsb_false {A} (f : A -> bool) l : existsb f l = false -> forall x, In x l -> f x = false.
Proof.
  induction l as [|a l IH]; intros H x Hin; [contradiction|]. cbn [existsb] in H. apply orb_false_iff in H as [H1 H2].
  destruct Hin as [<-|Hin]; [exact H1|apply IH; assumption].
Qed.

Lemma fill_spec reqs : NoDup reqs -> forall kids acc count,
  NoDup (map kid_step kids) -> Forall (fun k => step_eqb (kid_step k) (kid_step k) = true) kids ->
  length acc = length reqs -> count = count_some acc ->
  (forall i s, nth_error reqs i = Some s -> nth_error acc i <> Some None -> ~ In s (map kid_step kids)) ->
  forall i s, nth_error reqs i = Some s ->
    nth_error (fill kids reqs acc count (plen reqs)) i =
    match find_kid s kids with Some k => Some (Some (kid_out k)) | None => nth_error acc i end.
Proof.
  intros Hnd. induction kids as [|k r IH]; intros acc count Hk Hrf Hlen Hc Hset i s Hi; [reflexivity|].
  cbn [fill]. rewrite find_kid_cons. cbn [map] in Hk. inversion Hk as [|? ? Hkn Hkr]; subst.
  inversion Hrf as [|? ? Hkk Hrr]; subst.
  assert (Hil : (i < length acc)%nat) by (rewrite Hlen; apply nth_error_Some; congruence).
  destruct (Z.ltb_spec (count_some acc) (plen reqs)) as [Hlt|Hge].
  - destruct (existsb (step_eqb (kid_step k)) reqs) eqn:Eex.
    + apply existsb_exists in Eex. destruct Eex as [st [Hin Est]]. apply step_eqb_eq in Est. subst st.
      destruct (In_nth_error _ _ Hin) as [j Hj].
      assert (Hjl : (j < length acc)%nat) by (rewrite Hlen; apply nth_error_Some; congruence).
      assert (Hother : forall j', j' <> j -> req_matches reqs (fun s0 => step_eqb (kid_step k) s0) (0 + j')%nat = false).
      { intros j' Hne. cbn [plus]. unfold req_matches. destruct (nth_error reqs j') as [s'|] eqn:Ej'; [|reflexivity].
        destruct (step_eqb (kid_step k) s') eqn:E; [|reflexivity]. apply step_eqb_eq in E. subst s'. exfalso. apply Hne.
        apply (proj1 (NoDup_nth_error reqs) Hnd); [apply nth_error_Some; congruence|congruence]. }
      rewrite (set_first_unique _ (kid_out k) acc O j Hjl); [| cbn [plus]; unfold req_matches; rewrite Hj; exact Hkk | exact Hother].
      assert (Haj : nth_error acc j = Some None).
      { destruct (nth_error acc j) as [y|] eqn:Ey; [|apply nth_error_None in Ey; lia].
        destruct y as [y|]; [|reflexivity]. exfalso. apply (Hset j (kid_step k) Hj); [rewrite Ey; discriminate|left; reflexivity]. }
      assert (Hset' : forall i' s', nth_error reqs i' = Some s' -> nth_error (upd acc j (Some (kid_out k))) i' <> Some None ->
                                    ~ In s' (map kid_step r)).
      { intros i' s' Hi' Hne. destruct (Nat.eq_dec i' j) as [->|Hd].
        - rewrite Hi' in Hj. inversion Hj. subst s'. exact Hkn.
        - rewrite upd_nth_other in Hne by exact Hd. intros Hin'. apply (Hset i' s' Hi' Hne). right. exact Hin'. }
      assert (Hc' : count_some acc + 1 = count_some (upd acc j (Some (kid_out k)))) by (rewrite count_some_upd by exact Haj; reflexivity).
      assert (Hlen' : length (upd acc j (Some (kid_out k))) = length reqs) by (rewrite upd_length; exact Hlen).
      rewrite (IH (upd acc j (Some (kid_out k))) (count_some acc + 1) Hkr Hrr Hlen' Hc' Hset' i s Hi).
      destruct (step_eqb (kid_step k) s) eqn:E.
      * apply step_eqb_eq in E. subst s.
        assert (i = j) by (apply (proj1 (NoDup_nth_error reqs) Hnd); [apply nth_error_Some; congruence|congruence]). subst i.
        rewrite (find_kid_none _ _ Hkn), upd_nth_same by exact Hjl. reflexivity.
      * assert (i <> j). { intros ->. rewrite Hi in Hj. inversion Hj. subst s. congruence. }
        rewrite upd_nth_other by assumption. reflexivity.
    + pose proof (existsb_false _ _ Eex) as Hno.
      rewrite set_first_none.
      * assert (Hset' : forall i' s', nth_error reqs i' = Some s' -> nth_error acc i' <> Some None -> ~ In s' (map kid_step r)).
        { intros i' s' Hi' Hne Hin'. apply (Hset i' s' Hi' Hne). right. exact Hin'. }
        rewrite (IH acc (count_some acc) Hkr Hrr Hlen eq_refl Hset' i s Hi).
        rewrite (Hno s (nth_error_In _ _ Hi)). reflexivity.
      * intros j _. cbn [plus]. unfold req_matches. destruct (nth_error reqs j) as [s'|] eqn:Ej; [|reflexivity].
        apply Hno. apply (nth_error_In _ _ Ej).
  - assert (Hfull : plen acc <= count_some acc) by (unfold plen in *; rewrite Hlen; exact Hge).
    destruct (nth_error acc i) as [y|] eqn:Ey; [|apply nth_error_None in Ey; lia].
    pose proof (count_some_full acc Hfull i y Ey) as Hy.
    assert (Hni : ~ In s (map kid_step (k :: r))) by (apply (Hset i s Hi); rewrite Ey; congruence).
    pose proof (find_kid_none s (k :: r) Hni) as Hf. rewrite find_kid_cons in Hf. rewrite Hf. reflexivity.
Qed.

Lemma set_first_length {A} p (x : A) : forall l i, length (fst (set_first p x i l)) = length l.
Proof.
  induction l as [|y l IH]; intros i; [reflexivity|]. cbn [set_first]. destruct (p i); [reflexivity|].
  specialize (IH (Datatypes.S i)). destruct (set_first p x (Datatypes.S i) l) as [r' b]. cbn [fst length] in *. rewrite IH. reflexivity.
Qed.

Lemma fill_length reqs need : forall kids acc count, length (fill kids reqs acc count need) = length acc.
Proof.
  induction kids as [|k r IH]; intros acc count; [reflexivity|]. cbn [fill]. destruct (count <? need); [|reflexivity].
  pose proof (set_first_length (req_matches reqs (fun s => step_eqb (kid_step k) s)) (kid_out k) acc O) as H.
  destruct (set_first _ _ _ acc) as [acc' b]. cbn [fst] in H. rewrite IH. exact H.
Qed.

Lemma nth_error_eq {A} (a : list A) : forall b, (forall i, nth_error a i = nth_error b i) -> a = b.
Proof.
  induction a as [|x a IH]; intros [|y b] H; try reflexivity; try (specialize (H O); discriminate).
  pose proof (H O) as H0. cbn in H0. inversion H0. subst. f_equal. apply IH. intros i. apply (H (Datatypes.S i)).
Qed.

(* the answer of a bulk lookup: per request, node type and bytes of the child it names, None when there is none *)
Definition many_of_kids (kids : list atree) (reqs : list pstep) : list (option (Z * list Z)) :=
  map (fun s => match find_kid s kids with Some k => Some (kid_out k) | None => None end) reqs.

Theorem fill_is_map reqs kids :
  NoDup reqs -> NoDup (map kid_step kids) -> Forall (fun k => step_eqb (kid_step k) (kid_step k) = true) kids ->
  fill kids reqs (map (fun _ => None) reqs) 0 (plen reqs) = many_of_kids kids reqs.
Proof.
  intros Hnd Hk Hrf. apply nth_error_eq. intros i.
  destruct (nth_error reqs i) as [s|] eqn:Hi.
  - assert (Hnone : forall j, nth_error (map (fun _ : pstep => @None (Z * list Z)) reqs) j <> Some None -> nth_error reqs j = None).
    { intros j Hj. destruct (nth_error reqs j) eqn:E; [|reflexivity]. exfalso. apply Hj. apply (map_nth_error _ _ _ E). }
    assert (Hc0 : 0 = count_some (map (fun _ : pstep => @None (Z * list Z)) reqs)) by (clear; induction reqs; [reflexivity|exact IHreqs]).
    assert (Hset : forall j s', nth_error reqs j = Some s' -> nth_error (map (fun _ : pstep => @None (Z * list Z)) reqs) j <> Some None ->
                                ~ In s' (map kid_step kids)).
    { intros j s' Hj Hne. rewrite (Hnone j Hne) in Hj. discriminate. }
    rewrite (fill_spec reqs Hnd kids _ 0 Hk Hrf (map_length _ _) Hc0 Hset i s Hi).
    rewrite (map_nth_error (fun _ : pstep => @None (Z * list Z)) _ _ Hi).
    unfold many_of_kids. erewrite map_nth_error by exact Hi.
    destruct (find_kid s kids); reflexivity.
  - assert (Hl : (length reqs <= i)%nat) by (apply nth_error_None; exact Hi).
    rewrite (proj2 (nth_error_None _ _)) by (rewrite fill_length, map_length; exact Hl).
    symmetry. apply nth_error_None. unfold many_of_kids. rewrite map_length. exact Hl.
Qed.
