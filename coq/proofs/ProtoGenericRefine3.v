(* Refinement of the bulk lookups (GetMany: Node.Fields / Indexes / Gets, as coded with every repair applied)
   to the map of single lookups. *)
From Coq Require Import ZArith List Bool Lia FinFun.
From DG Require Import CaseFormat ProtoWireRef ProtoWireRefProofs ProtoMsg ProtoMsgProofs
  ProtoGeneric ProtoGenericAlg ProtoGenericDom ProtoGenericKids ProtoGenericProofs ProtoGenericRefine ProtoGenericIface ProtoGenericRefine2.
Import ListNotations.
Local Open Scope Z_scope.

(* ------------------------------------------------------------------ pure part: filling the result slots child by child *)
Definition kid_step (k : atree) : pstep := match k with ATree st _ _ _ => st end.
Definition kid_out (k : atree) : Z * list Z := match k with ATree _ t raw _ => (t, raw) end.

Fixpoint fill (kids : list atree) (reqs : list pstep) (acc : list (option (Z * list Z))) (count need : Z) :=
  match kids with
  | [] => acc
  | k :: r =>
    if count <? need then
      let '(acc', b) := set_first (req_matches reqs (fun s => step_eqb (kid_step k) s)) (kid_out k) O acc in
      fill r reqs acc' (if b then count + 1 else count) need
    else acc
  end.

Fixpoint upd {A} (l : list A) (j : nat) (y : A) : list A :=
  match l, j with
  | [], _ => []
  | _ :: r, O => y :: r
  | a :: r, Datatypes.S j' => a :: upd r j' y
  end.

Lemma upd_length {A} (l : list A) : forall j y, length (upd l j y) = length l.
Proof. induction l as [|a l IH]; intros [|j] y; cbn [upd length]; try reflexivity. rewrite IH. reflexivity. Qed.

Lemma upd_nth_same {A} (l : list A) : forall j y, (j < length l)%nat -> nth_error (upd l j y) j = Some y.
Proof.
  induction l as [|a l IH]; intros j y H; [cbn in H; lia|].
  destruct j; [reflexivity|]. cbn [upd nth_error]. apply IH. cbn in H. lia.
Qed.

Lemma upd_nth_other {A} (l : list A) : forall j y i, i <> j -> nth_error (upd l j y) i = nth_error l i.
Proof.
  induction l as [|a l IH]; intros j y i H; [destruct j; reflexivity|].
  destruct j, i; cbn [upd nth_error]; try reflexivity; [contradiction|]. apply IH. lia.
Qed.

Lemma set_first_none {A} p (x : A) : forall l i,
  (forall j, (j < length l)%nat -> p (i + j)%nat = false) -> set_first p x i l = (l, false).
Proof.
  induction l as [|y l IH]; intros i H; [reflexivity|].
  cbn [set_first]. pose proof (H O ltac:(cbn; lia)) as H0. rewrite Nat.add_0_r in H0. rewrite H0.
  rewrite IH; [reflexivity|]. intros j Hj. replace (Datatypes.S i + j)%nat with (i + Datatypes.S j)%nat by lia. apply H. cbn. lia.
Qed.

Lemma set_first_unique {A} p (x : A) : forall l i j,
  (j < length l)%nat -> p (i + j)%nat = true -> (forall j', j' <> j -> p (i + j')%nat = false) ->
  set_first p x i l = (upd l j (Some x), true).
Proof.
  induction l as [|y l IH]; intros i j Hj Hp Hn; [cbn in Hj; lia|].
  cbn [set_first]. destruct j as [|j].
  - rewrite Nat.add_0_r in Hp. rewrite Hp. reflexivity.
  - pose proof (Hn O ltac:(lia)) as H0. rewrite Nat.add_0_r in H0. rewrite H0.
    rewrite (IH (Datatypes.S i) j); [reflexivity|cbn in Hj; lia|replace (Datatypes.S i + j)%nat with (i + Datatypes.S j)%nat by lia; exact Hp|].
    intros j' Hj'. replace (Datatypes.S i + j')%nat with (i + Datatypes.S j')%nat by lia. apply Hn. lia.
Qed.

Fixpoint count_some {A} (l : list (option A)) : Z :=
  match l with [] => 0 | Some _ :: r => 1 + count_some r | None :: r => count_some r end.

Lemma count_some_le {A} (l : list (option A)) : 0 <= count_some l <= plen l.
Proof. induction l as [|[a|] l IH]; cbn [count_some]; rewrite ?plen_cons; unfold plen in *; cbn [length]; lia. Qed.

Lemma count_some_full {A} (l : list (option A)) : plen l <= count_some l ->
  forall i y, nth_error l i = Some y -> y <> None.
Proof.
  induction l as [|[a|] l IH]; intros H i y Hn.
  - destruct i; discriminate.
  - cbn [count_some] in H. rewrite plen_cons in H. destruct i; cbn [nth_error] in Hn.
    + inversion Hn. discriminate.
    + apply (IH ltac:(lia) i y Hn).
  - cbn [count_some] in H. rewrite plen_cons in H. pose proof (count_some_le l). lia.
Qed.

Lemma count_some_upd {A} (l : list (option A)) : forall j x, nth_error l j = Some None ->
  count_some (upd l j (Some x)) = count_some l + 1.
Proof.
  induction l as [|[a|] l IH]; intros j x H.
  - destruct j; discriminate.
  - destruct j; [discriminate|]. cbn [upd count_some nth_error] in *. rewrite (IH j x H). lia.
  - destruct j; cbn [upd count_some nth_error] in *; [lia|]. apply (IH j x H).
Qed.

Lemma step_eqb_eq a b : step_eqb a b = true -> a = b.
Proof.
  destruct a, b; cbn [step_eqb]; intros H; try discriminate; try (apply Z.eqb_eq in H; subst; reflexivity).
  apply beqb_true in H. subst. reflexivity.
Qed.

Lemma find_kid_cons s k r : find_kid s (k :: r) = if step_eqb (kid_step k) s then Some k else find_kid s r.
Proof. destruct k. reflexivity. Qed.

Lemma find_kid_none s kids : ~ In s (map kid_step kids) -> find_kid s kids = None.
Proof.
  induction kids as [|k r IH]; intros H; [reflexivity|]. rewrite find_kid_cons.
  destruct (step_eqb (kid_step k) s) eqn:E.
  - apply step_eqb_eq in E. exfalso. apply H. left. exact E.
  - apply IH. intros Hin. apply H. right. exact Hin.
Qed.

Lemma existsb_false {A} (f : A -> bool) l : existsb f l = false -> forall x, In x l -> f x = false.
Proof.
  induction l as [|a l IH]; intros H x Hin; [contradiction|]. cbn [existsb] in H. apply orb_false_iff in H as [H1 H2].
  destruct Hin as [<-|Hin]; [exact H1|apply IH; assumption].
Qed.

Lemma fill_spec reqs : NoDup reqs -> forall kids acc count,
  NoDup (map kid_step kids) -> Forall (fun k => step_eqb (kid_step k) (kid_step k) = true) kids ->
  length acc = length reqs -> count = count_some acc ->
  (forall i s, nth_error reqs i = Some s -> nth_error acc i <> Some None -> ~ In s (map kid_step kids)) ->
  forall i s, nth_error reqs i = Some s ->
    nth_error (fill kids reqs acc count (plen reqs)) i =
    match find_kid s kids with Some k => Some (Some (kid_out k)) | None => nth_error acc i end.
Proof.
  intros Hnd. induction kids as [|k r IH]; intros acc count Hk Hrf Hlen Hc Hset i s Hi; [reflexivity|].
  cbn [fill]. rewrite find_kid_cons. cbn [map] in Hk. inversion Hk as [|? ? Hkn Hkr]; subst.
  inversion Hrf as [|? ? Hkk Hrr]; subst.
  assert (Hil : (i < length acc)%nat) by (rewrite Hlen; apply nth_error_Some; congruence).
  destruct (Z.ltb_spec (count_some acc) (plen reqs)) as [Hlt|Hge].
  - destruct (existsb (step_eqb (kid_step k)) reqs) eqn:Eex.
    + apply existsb_exists in Eex. destruct Eex as [st [Hin Est]]. apply step_eqb_eq in Est. subst st.
      destruct (In_nth_error _ _ Hin) as [j Hj].
      assert (Hjl : (j < length acc)%nat) by (rewrite Hlen; apply nth_error_Some; congruence).
      assert (Hother : forall j', j' <> j -> req_matches reqs (fun s0 => step_eqb (kid_step k) s0) (0 + j')%nat = false).
      { intros j' Hne. cbn [plus]. unfold req_matches. destruct (nth_error reqs j') as [s'|] eqn:Ej'; [|reflexivity].
        destruct (step_eqb (kid_step k) s') eqn:E; [|reflexivity]. apply step_eqb_eq in E. subst s'. exfalso. apply Hne.
        apply (proj1 (NoDup_nth_error reqs) Hnd); [apply nth_error_Some; congruence|congruence]. }
      rewrite (set_first_unique _ (kid_out k) acc O j Hjl); [| cbn [plus]; unfold req_matches; rewrite Hj; exact Hkk | exact Hother].
      assert (Haj : nth_error acc j = Some None).
      { destruct (nth_error acc j) as [y|] eqn:Ey; [|apply nth_error_None in Ey; lia].
        destruct y as [y|]; [|reflexivity]. exfalso. apply (Hset j (kid_step k) Hj); [rewrite Ey; discriminate|left; reflexivity]. }
      assert (Hset' : forall i' s', nth_error reqs i' = Some s' -> nth_error (upd acc j (Some (kid_out k))) i' <> Some None ->
                                    ~ In s' (map kid_step r)).
      { intros i' s' Hi' Hne. destruct (Nat.eq_dec i' j) as [->|Hd].
        - rewrite Hi' in Hj. inversion Hj. subst s'. exact Hkn.
        - rewrite upd_nth_other in Hne by exact Hd. intros Hin'. apply (Hset i' s' Hi' Hne). right. exact Hin'. }
      assert (Hc' : count_some acc + 1 = count_some (upd acc j (Some (kid_out k)))) by (rewrite count_some_upd by exact Haj; reflexivity).
      assert (Hlen' : length (upd acc j (Some (kid_out k))) = length reqs) by (rewrite upd_length; exact Hlen).
      rewrite (IH (upd acc j (Some (kid_out k))) (count_some acc + 1) Hkr Hrr Hlen' Hc' Hset' i s Hi).
      destruct (step_eqb (kid_step k) s) eqn:E.
      * apply step_eqb_eq in E. subst s.
        assert (i = j) by (apply (proj1 (NoDup_nth_error reqs) Hnd); [apply nth_error_Some; congruence|congruence]). subst i.
        rewrite (find_kid_none _ _ Hkn), upd_nth_same by exact Hjl. reflexivity.
      * assert (i <> j). { intros ->. rewrite Hi in Hj. inversion Hj. subst s. congruence. }
        rewrite upd_nth_other by assumption. reflexivity.
    + pose proof (existsb_false _ _ Eex) as Hno.
      rewrite set_first_none.
      * assert (Hset' : forall i' s', nth_error reqs i' = Some s' -> nth_error acc i' <> Some None -> ~ In s' (map kid_step r)).
        { intros i' s' Hi' Hne Hin'. apply (Hset i' s' Hi' Hne). right. exact Hin'. }
        rewrite (IH acc (count_some acc) Hkr Hrr Hlen eq_refl Hset' i s Hi).
        rewrite (Hno s (nth_error_In _ _ Hi)). reflexivity.
      * intros j _. cbn [plus]. unfold req_matches. destruct (nth_error reqs j) as [s'|] eqn:Ej; [|reflexivity].
        apply Hno. apply (nth_error_In _ _ Ej).
  - assert (Hfull : plen acc <= count_some acc) by (unfold plen in *; rewrite Hlen; exact Hge).
    destruct (nth_error acc i) as [y|] eqn:Ey; [|apply nth_error_None in Ey; lia].
    pose proof (count_some_full acc Hfull i y Ey) as Hy.
    assert (Hni : ~ In s (map kid_step (k :: r))) by (apply (Hset i s Hi); rewrite Ey; congruence).
    pose proof (find_kid_none s (k :: r) Hni) as Hf. rewrite find_kid_cons in Hf. rewrite Hf. reflexivity.
Qed.

Lemma set_first_length {A} p (x : A) : forall l i, length (fst (set_first p x i l)) = length l.
Proof.
  induction l as [|y l IH]; intros i; [reflexivity|]. cbn [set_first]. destruct (p i); [reflexivity|].
  specialize (IH (Datatypes.S i)). destruct (set_first p x (Datatypes.S i) l) as [r' b]. cbn [fst length] in *. rewrite IH. reflexivity.
Qed.

Lemma fill_length reqs need : forall kids acc count, length (fill kids reqs acc count need) = length acc.
Proof.
  induction kids as [|k r IH]; intros acc count; [reflexivity|]. cbn [fill]. destruct (count <? need); [|reflexivity].
  pose proof (set_first_length (req_matches reqs (fun s => step_eqb (kid_step k) s)) (kid_out k) acc O) as H.
  destruct (set_first _ _ _ acc) as [acc' b]. cbn [fst] in H. rewrite IH. exact H.
Qed.

Lemma nth_error_eq {A} (a : list A) : forall b, (forall i, nth_error a i = nth_error b i) -> a = b.
Proof.
  induction a as [|x a IH]; intros [|y b] H; try reflexivity; try (specialize (H O); discriminate).
  pose proof (H O) as H0. cbn in H0. inversion H0. subst. f_equal. apply IH. intros i. apply (H (Datatypes.S i)).
Qed.

(* the answer of a bulk lookup: per request, node type and bytes of the child it names, None when there is none *)
Definition many_of_kids (kids : list atree) (reqs : list pstep) : list (option (Z * list Z)) :=
  map (fun s => match find_kid s kids with Some k => Some (kid_out k) | None => None end) reqs.

Theorem fill_is_map reqs kids :
  NoDup reqs -> NoDup (map kid_step kids) -> Forall (fun k => step_eqb (kid_step k) (kid_step k) = true) kids ->
  fill kids reqs (map (fun _ => None) reqs) 0 (plen reqs) = many_of_kids kids reqs.
Proof.
  intros Hnd Hk Hrf. apply nth_error_eq. intros i.
  destruct (nth_error reqs i) as [s|] eqn:Hi.
  - assert (Hnone : forall j, nth_error (map (fun _ : pstep => @None (Z * list Z)) reqs) j <> Some None -> nth_error reqs j = None).
    { intros j Hj. destruct (nth_error reqs j) eqn:E; [|reflexivity]. exfalso. apply Hj. apply (map_nth_error _ _ _ E). }
    assert (Hc0 : 0 = count_some (map (fun _ : pstep => @None (Z * list Z)) reqs)) by (clear; induction reqs; [reflexivity|exact IHreqs]).
    assert (Hset : forall j s', nth_error reqs j = Some s' -> nth_error (map (fun _ : pstep => @None (Z * list Z)) reqs) j <> Some None ->
                                ~ In s' (map kid_step kids)).
    { intros j s' Hj Hne. rewrite (Hnone j Hne) in Hj. discriminate. }
    rewrite (fill_spec reqs Hnd kids _ 0 Hk Hrf (map_length _ _) Hc0 Hset i s Hi).
    rewrite (map_nth_error (fun _ : pstep => @None (Z * list Z)) _ _ Hi).
    unfold many_of_kids. erewrite map_nth_error by exact Hi.
    destruct (find_kid s kids); reflexivity.
  - assert (Hl : (length reqs <= i)%nat) by (apply nth_error_None; exact Hi).
    rewrite (proj2 (nth_error_None _ _)) by (rewrite fill_length, map_length; exact Hl).
    symmetry. apply nth_error_None. unfold many_of_kids. rewrite map_length. exact Hl.
Qed.

(* ------------------------------------------------------------------ SkipAllElements over the records of one field *)
Lemma sae_unpacked pre num vals w2 ewt :
  wf_wire (map (pair num) vals) = true -> inert num w2 ->
  skip_all_elements all_fixes (pre ++ wenc (map (pair num) vals) ++ wenc w2) (plen pre) num false ewt =
  SaOk (plen pre + plen (wenc (map (pair num) vals))) (plen vals).
Proof.
  intros Hwf Hin. unfold skip_all_elements.
  set (buf := pre ++ wenc (map (pair num) vals) ++ wenc w2).
  assert (Hlen : (length vals <= length buf)%nat).
  { unfold buf. rewrite !app_length. pose proof (wenc_length_ge (map (pair num) vals)) as H. rewrite map_length in H. lia. }
  replace (Datatypes.S (length buf)) with (length vals + Datatypes.S (length buf - length vals))%nat by lia.
  unfold buf. rewrite sau_run by assumption. f_equal; lia.
Qed.

Lemma sae_packed pre num k xs rest :
  1 <= num <= MAX_FIELD_NUMBER -> is_numeric k = true -> Forall (fun x => scalar_okb k x = true) xs ->
  plen (penc k xs) < 9223372036854775808 ->
  skip_all_elements all_fixes (pre ++ wenc_field (num, WBytes (penc k xs)) ++ rest) (plen pre) num true (wt_of_kind k) =
  SaOk (plen pre + plen (wenc_field (num, WBytes (penc k xs)))) (plen xs).
Proof.
  intros Hn Hk Hall Hlen.
  unfold skip_all_elements. change (f703 all_fixes) with true.
  pose proof (plen_nonneg (penc k xs)) as Hp0.
  set (lenb := varint_enc (plen (penc k xs))). set (tg := tagb num 2).
  assert (E0 : pre ++ wenc_field (num, WBytes (penc k xs)) ++ rest = pre ++ tg ++ (lenb ++ penc k xs ++ rest)).
  { rewrite wenc_field_tagb. cbn [fst snd wt_of_wval wenc_val]. fold tg lenb. repeat rewrite <- app_assoc. reflexivity. }
  rewrite E0. unfold tg at 1. rewrite ctag_enc; [|exact Hn|unfold wt_ok; auto]. fold tg.
  unfold aread_length. rewrite app_assoc, <- plen_app. unfold lenb at 1.
  rewrite cvar_enc by (change (2 ^ 64) with 18446744073709551616; lia). fold lenb.
  rewrite to_s64_small by lia.
  destruct (Z.ltb_spec (plen (penc k xs)) 0); [lia|]. cbn [orb].
  assert (Hfit : plen (pre ++ tg) + plen lenb + plen (penc k xs) <= plen ((pre ++ tg) ++ lenb ++ penc k xs ++ rest)).
  { rewrite !plen_app. pose proof (plen_nonneg rest). lia. }
  destruct (Z.gtb_spec (plen (pre ++ tg) + plen lenb + plen (penc k xs)) (plen ((pre ++ tg) ++ lenb ++ penc k xs ++ rest))); [lia|].
  assert (Hxl : (length xs <= length ((pre ++ tg) ++ lenb ++ penc k xs ++ rest))%nat).
  { rewrite !app_length. pose proof (penc_len k xs). lia. }
  replace (Datatypes.S (length ((pre ++ tg) ++ lenb ++ penc k xs ++ rest)))
    with (length xs + Datatypes.S (length ((pre ++ tg) ++ lenb ++ penc k xs ++ rest) - length xs))%nat by lia.
  rewrite app_assoc. rewrite <- plen_app.
  rewrite (sap_run k xs ((pre ++ tg) ++ lenb) rest _ 0 _ Hk Hall eq_refl).
  rewrite Z.eqb_refl. f_equal; try lia.
  rewrite wenc_field_tagb. cbn [fst snd wt_of_wval wenc_val]. fold tg lenb. rewrite !plen_app. lia.
Qed.

(* what the Fields loop reads at the first record of a field *)
Lemma field_hit S lbl t n v pre w2 :
  wf_fld S lbl t v = true -> 1 <= n <= MAX_FIELD_NUMBER -> inert n w2 ->
  plen (wenc (wfld n v)) < 9223372036854775808 ->
  let buf := pre ++ wenc (wfld n v) ++ wenc w2 in
  exists wt0 e, ctag buf (plen pre) = Some (n, wt0, plen (tagb n wt0)) /\
    askip buf (plen pre + plen (tagb n wt0)) wt0 = SkOk e /\
    (lbl = LSingular -> e = plen pre + plen (wenc (wfld n v)) /\ slice buf (plen pre + plen (tagb n wt0)) e = encode_elem v) /\
    (lbl <> LSingular -> exists c, skip_all_elements all_fixes buf (plen pre) n (desc_packed lbl t) (elem_wt t) =
                                   SaOk (plen pre + plen (wenc (wfld n v))) c).
Proof.
  intros Hwf Hn Hin Hlen buf. pose proof (wfld_wire _ _ _ _ n Hwf Hn) as Hww.
  destruct (val_tag S lbl t n v pre (wenc w2) Hwf Hn) as [w0 [ws [Ef [Hw0 [Hws [Hc Eb]]]]]].
  destruct (wfld_fvals _ _ _ _ n Hwf) as [Efv _].
  exists (wt_of_wval w0), (plen (pre ++ tagb n (wt_of_wval w0)) + plen (wenc_val w0)).
  split; [exact Hc|]. split.
  { unfold buf. rewrite Eb. rewrite <- plen_app. apply askip_val. exact Hw0. }
  split.
  - intros ->. destruct (wf_singular_facts _ _ _ Hwf) as [Hw [Hwt [Htt Ee]]].
    assert (Ew : w0 = sval v /\ ws = []) by (destruct v; cbn [wf_fld] in Hwf; try discriminate; cbn [fvals] in Ef; inversion Ef; auto).
    destruct Ew as [-> ->]. split.
    + rewrite (wfld_single _ _ _ n Hwf). unfold wenc. cbn [flat_map]. rewrite app_nil_r, wenc_field_tagb. cbn [fst snd]. rewrite !plen_app. lia.
    + unfold buf. rewrite Eb. rewrite <- plen_app. rewrite slice_app. symmetry. exact Ee.
  - intros Hns. unfold buf. destruct lbl as [|p|kk]; [contradiction| |].
    + destruct v as [| | |q vs|]; try (cbn [wf_fld] in Hwf; discriminate).
      destruct (wf_list_facts _ _ _ _ _ n Hwf) as [Hq [Hne [Hall Hcase]]]. cbn [desc_packed]. rewrite <- Hq.
      destruct q.
      * destruct Hcase as [k [xs [Et [Hk [Evs [Hxs [Ew Hl]]]]]]]. subst t. rewrite Ew in *.
        exists (plen xs). unfold elem_wt. cbn [kind_of_type].
        assert (Ewn : wenc [(n, WBytes (penc k xs))] = wenc_field (n, WBytes (penc k xs))) by (unfold wenc; cbn [flat_map]; apply app_nil_r).
        rewrite Ewn in *. apply sae_packed; try assumption.
        rewrite wenc_field_tagb in Hlen. cbn [fst snd wenc_val] in Hlen. rewrite !plen_app in Hlen.
        pose proof (plen_nonneg (tagb n (wt_of_wval (WBytes (penc k xs))))). pose proof (plen_nonneg (varint_enc (plen (penc k xs)))). lia.
      * exists (plen (fvals (VList false vs))). rewrite Efv in *. apply sae_unpacked; assumption.
    + exists (plen (fvals v)). cbn [desc_packed]. rewrite Efv in *. apply sae_unpacked; assumption.
Qed.

Lemma set_first_ext {A} p p' (x : A) : (forall i, p i = p' i) -> forall l i, set_first p x i l = set_first p' x i l.
Proof. intros H. induction l as [|y l IH]; intros i; [reflexivity|]. cbn [set_first]. rewrite H, IH. reflexivity. Qed.

(* ------------------------------------------------------------------ Node.Fields *)
Lemma fields_loop_fill S md fs : forall pre reqs acc count need fuel,
  fields_wf S md fs -> nodupb Z.eqb (map fst fs) = true -> plen (pre ++ encode_msg fs) < 9223372036854775808 ->
  a_fields_loop (length fs + Datatypes.S fuel) all_fixes md (pre ++ encode_msg fs) (plen pre) reqs acc count need =
  MOk (fill (map (msg_child md) fs) reqs acc count need).
Proof.
  induction fs as [|[n v] fs IH]; intros pre reqs acc count need fuel Hf Hnd Hlen.
  - cbn [length plus a_fields_loop map fill]. change (encode_msg []) with (@nil Z). rewrite app_nil_r, Z.ltb_irrefl. reflexivity.
  - cbn [map fst nodupb] in Hnd. apply andb_true_iff in Hnd as [Hx Hnd].
    inversion Hf as [|? ? [fd [Hfd [Hn Hv]]] Hf']; subst. cbn [fst snd] in *.
    destruct (fields_wf_wire _ _ _ Hf') as [Hw2 Hne2].
    assert (Hin : inert n (msg_wire fs)).
    { split; [exact Hw2|]. apply Hne2. apply Forall_forall. intros [m x] Hmx E. cbn [fst] in E. subst m.
      apply negb_true_iff in Hx. assert (existsb (Z.eqb n) (map fst fs) = true).
      { apply existsb_exists. exists n. split; [apply (in_map fst _ _ Hmx)|apply Z.eqb_refl]. } congruence. }
    rewrite encode_msg_cons in *. change (encode_msg fs) with (wenc (msg_wire fs)) in *.
    assert (Hl1 : plen (wenc (wfld n v)) < 9223372036854775808).
    { rewrite !plen_app in Hlen. pose proof (plen_nonneg pre). pose proof (plen_nonneg (wenc (msg_wire fs))). lia. }
    destruct (field_hit S (fd_label fd) (fd_type fd) n v pre (msg_wire fs) Hv Hn Hin Hl1) as [wt0 [e [Hc [Hs [Hsing Hrun]]]]].
    cbn [length plus a_fields_loop map fill].
    assert (Hlt : plen pre < plen (pre ++ wenc (wfld n v) ++ wenc (msg_wire fs))).
    { rewrite !plen_app. destruct (wfld_fvals _ _ _ _ n Hv) as [E Hne]. destruct (fvals v) as [|w0 ws]; [contradiction|]. rewrite E. cbn [map].
      rewrite wenc_cons, plen_app. pose proof (wenc_field_plen_pos (n, w0)). pose proof (plen_nonneg (wenc (map (pair n) ws))). pose proof (plen_nonneg (wenc (msg_wire fs))). lia. }
    destruct (Z.ltb_spec (plen pre) (plen (pre ++ wenc (wfld n v) ++ wenc (msg_wire fs)))); [|lia]. cbn [andb].
    destruct (count <? need); [|reflexivity].
    rewrite Hc, Hs, Hfd.
    assert (Hk : msg_child md (n, v) = ATree (PField n) (node_type (fd_label fd) (fd_type fd)) (node_raw (fd_label fd) n v) [])
      by (unfold msg_child; cbn [fst snd]; rewrite Hfd; reflexivity).
    rewrite Hk. cbn [kid_step kid_out].
    assert (Hext : forall i, req_matches reqs (fun s => match s with PField k => k =? n | _ => false end) i =
                             req_matches reqs (fun s => step_eqb (PField n) s) i).
    { intros i. unfold req_matches. destruct (nth_error reqs i) as [[ | | | | ]|]; cbn [step_eqb]; try reflexivity. apply Z.eqb_sym. }
    assert (Hhit : match fd_label fd with
                   | LSingular => Some (kind_of_type (fd_type fd), slice (pre ++ wenc (wfld n v) ++ wenc (msg_wire fs)) (plen pre + plen (tagb n wt0)) e, e)
                   | LRepeated p => match skip_all_elements all_fixes (pre ++ wenc (wfld n v) ++ wenc (msg_wire fs)) (plen pre) n (desc_packed (LRepeated p) (fd_type fd)) (elem_wt (fd_type fd)) with
                                    | SaOk e' _ => Some (node_type (LRepeated p) (fd_type fd), slice (pre ++ wenc (wfld n v) ++ wenc (msg_wire fs)) (plen pre) e', e')
                                    | _ => None end
                   | LMap kk => match skip_all_elements all_fixes (pre ++ wenc (wfld n v) ++ wenc (msg_wire fs)) (plen pre) n (desc_packed (LMap kk) (fd_type fd)) (elem_wt (fd_type fd)) with
                                | SaOk e' _ => Some (node_type (LMap kk) (fd_type fd), slice (pre ++ wenc (wfld n v) ++ wenc (msg_wire fs)) (plen pre) e', e')
                                | _ => None end
                   end = Some (node_type (fd_label fd) (fd_type fd), node_raw (fd_label fd) n v, plen (pre ++ wenc (wfld n v)))).
    { destruct (fd_label fd) as [|p|kk] eqn:El.
      - destruct (Hsing eq_refl) as [He Hsl].  rewrite Hsl, He. cbn [node_type node_raw]. rewrite plen_app. reflexivity.
      - destruct (Hrun ltac:(discriminate)) as [c Hc'].  rewrite Hc'. rewrite slice_app. cbn [node_raw]. rewrite plen_app. reflexivity.
      - destruct (Hrun ltac:(discriminate)) as [c Hc'].  rewrite Hc'. rewrite slice_app. cbn [node_raw]. rewrite plen_app. reflexivity. }
    rewrite Hhit.
    rewrite (set_first_ext _ _ _ Hext).
    destruct (set_first (req_matches reqs (fun s => step_eqb (PField n) s)) (node_type (fd_label fd) (fd_type fd), node_raw (fd_label fd) n v) 0 acc) as [acc' b].
    rewrite app_assoc. apply IH; [exact Hf'|exact Hnd|rewrite <- app_assoc; exact Hlen].
Qed.

Lemma nodupb_z l : nodupb Z.eqb l = true -> NoDup l.
Proof.
  induction l as [|x l IH]; intros H; [constructor|]. cbn [nodupb] in H. apply andb_true_iff in H as [H1 H2].
  constructor; [|apply IH; exact H2]. intros Hin. apply negb_true_iff in H1.
  assert (existsb (Z.eqb x) l = true) by (apply existsb_exists; exists x; split; [exact Hin|apply Z.eqb_refl]). congruence.
Qed.

Lemma msg_kids_steps md fs : map kid_step (map (msg_child md) fs) = map PField (map fst fs).
Proof.
  induction fs as [|[n v] fs IH]; [reflexivity|]. cbn [map fst]. rewrite IH. f_equal.
  unfold msg_child. cbn [fst snd]. destruct (find_field md n); reflexivity.
Qed.

Lemma msg_kids_ok md fs : nodupb Z.eqb (map fst fs) = true ->
  NoDup (map kid_step (map (msg_child md) fs)) /\
  Forall (fun k => step_eqb (kid_step k) (kid_step k) = true) (map (msg_child md) fs).
Proof.
  intros H. split.
  - rewrite msg_kids_steps. apply FinFun.Injective_map_NoDup; [intros a b E; inversion E; reflexivity|apply nodupb_z; exact H].
  - apply Forall_forall. intros k Hk. apply in_map_iff in Hk. destruct Hk as [[n v] [<- _]].
    unfold msg_child. cbn [fst snd]. destruct (find_field md n); cbn [kid_step step_eqb]; apply Z.eqb_refl.
Qed.

(* the node of a nested message, as every lookup returns it: length prefix + payload *)
Definition msg_node (name : list Z) (num : Z) (fs : pmsg) : anode :=
  mk_anode K_MESSAGE (encode_elem (VMsg fs)) 0 false LSingular (TMsg name) num.

Theorem getmany_fields_kids S name fs reqs nd :
  wf_fld S LSingular (TMsg name) (VMsg fs) = true ->
  (nd = root_node name (encode_msg fs) /\ plen (encode_msg fs) < 2 ^ 63) \/
  (exists num, nd = msg_node name num fs /\ plen (encode_elem (VMsg fs)) < 2 ^ 63) ->
  NoDup reqs -> (exists n r, reqs = PField n :: r) ->
  a_getmany all_fixes S nd reqs = MOk (many_of_kids (spec_children S LSingular (TMsg name) (VMsg fs)) reqs).
Proof.
  intros Hwf Hnd Hdup [n0 [r0 Er]]. destruct (wf_msg_facts _ _ _ Hwf) as [md [Hfm [Hnodup [Hl64 Hfs]]]].
  destruct (msg_kids_ok md fs Hnodup) as [Hk1 Hk2].
  change (2 ^ 63) with 9223372036854775808 in Hnd.
  assert (Ee : encode_elem (VMsg fs) = varint_enc (plen (encode_msg fs)) ++ encode_msg fs).
  { destruct (wf_singular_facts _ _ _ Hwf) as [_ [_ [_ E]]]. rewrite E. reflexivity. }
  pose proof (plen_nonneg (varint_enc (plen (encode_msg fs)))) as Hp1. pose proof (plen_nonneg (encode_msg fs)) as Hp2.
  cbn [spec_children]. rewrite Hfm. change (map _ fs) with (map (msg_child md) fs).
  rewrite <- (fill_is_map reqs _ Hdup Hk1 Hk2).
  unfold a_getmany. rewrite Er. rewrite <- Er.
  destruct Hnd as [[-> Hlen] | [num [-> Hlen]]]; [|rewrite Ee, plen_app in Hlen].
  - unfold root_node, msg_of. cbn [an_t an_raw an_root an_ty negb]. change (K_MESSAGE =? K_MESSAGE) with true. cbn [negb]. rewrite Hfm.
    destruct (fuel_split _ _ (encode_msg_len _ _ _ Hfs)) as [f Ef]. rewrite Ef.
    apply (fields_loop_fill S md fs [] reqs _ 0 (plen reqs) f Hfs Hnodup). cbn [app]. lia.
  - unfold msg_node, msg_of. cbn [an_t an_raw an_root an_ty negb]. change (K_MESSAGE =? K_MESSAGE) with true. cbn [negb]. rewrite Hfm.
    rewrite Ee.
    assert (Hal : aread_length (varint_enc (plen (encode_msg fs)) ++ encode_msg fs) 0 =
                  Some (plen (encode_msg fs), plen (varint_enc (plen (encode_msg fs))))).
    { unfold aread_length. pose proof (cvar_enc [] (plen (encode_msg fs)) (encode_msg fs)) as Hc. cbn [app] in Hc. change (plen (@nil Z)) with 0 in Hc.
      rewrite Hc by (change (2 ^ 64) with 18446744073709551616; lia). rewrite to_s64_small by lia. reflexivity. }
    rewrite Hal.
    assert (Hfu : (length fs <= length (varint_enc (plen (encode_msg fs)) ++ encode_msg fs))%nat)
      by (rewrite app_length; pose proof (encode_msg_len _ _ _ Hfs); lia).
    destruct (fuel_split _ _ Hfu) as [f Ef]. rewrite Ef.
    apply (fields_loop_fill S md fs _ reqs _ 0 (plen reqs) f Hfs Hnodup). rewrite plen_app. lia.
Qed.

(* ------------------------------------------------------------------ Node.Indexes *)
Lemma index_pred_ext reqs size i : 0 <= i < size -> forall j,
  req_matches reqs (fun st => match st with PIndex k => negb (k >=? size) && (k =? i) | _ => false end) j =
  req_matches reqs (fun s => step_eqb (PIndex i) s) j.
Proof.
  intros Hi j. unfold req_matches. destruct (nth_error reqs j) as [[ | |k| | ]|]; cbn [step_eqb]; try reflexivity.
  destruct (Z.eqb_spec k i) as [->|Hne].
  - rewrite Z.eqb_refl. destruct (Z.geb_spec i size); [lia|reflexivity].
  - rewrite andb_false_r. symmetry. apply Z.eqb_neq. lia.
Qed.

Lemma indexes_loop_packed k xs : forall pre reqs acc i count need size fuel,
  is_numeric k = true -> Forall (fun x => scalar_okb k x = true) xs -> 0 <= i -> i + plen xs <= size ->
  a_indexes_loop (length xs + Datatypes.S fuel) (pre ++ penc k xs) (plen pre) (wt_of_kind k) true k size reqs acc i count need =
  MOk (fill (index_children (TScalar k) i (map (VScalar k) xs)) reqs acc count need).
Proof.
  induction xs as [|x xs IH]; intros pre reqs acc i count need size fuel Hk Hall Hi Hsz.
  - cbn [length plus a_indexes_loop map index_children fill penc flat_map]. rewrite app_nil_r, Z.ltb_irrefl. reflexivity.
  - assert (Hx : scalar_okb k x = true) by (inversion Hall; assumption).
    assert (Hxs : Forall (fun x => scalar_okb k x = true) xs) by (inversion Hall; assumption).
    rewrite plen_cons in Hsz. pose proof (plen_nonneg xs) as Hpx.
    rewrite penc_cons. pose proof (scalar_val_plen_pos k x). pose proof (plen_nonneg (penc k xs)).
    cbn [length plus a_indexes_loop map index_children fill]. rewrite !plen_app.
    destruct (Z.ltb_spec (plen pre) (plen pre + (plen (wenc_val (scalar_to_wire k x)) + plen (penc k xs)))); [|lia]. cbn [andb].
    destruct (count <? need); [|reflexivity].
    destruct (scalar_rt k x Hk Hx) as [_ [Hwf Hwt]]. unfold list_next.
    assert (Hs : askip (pre ++ wenc_val (scalar_to_wire k x) ++ penc k xs) (plen pre) (wt_of_kind k) =
                 SkOk (plen pre + plen (wenc_val (scalar_to_wire k x)))) by (rewrite <- Hwt; apply askip_val; exact Hwf).
    rewrite Hs. rewrite slice_app. change (encode_elem (VScalar k x)) with (wenc_val (scalar_to_wire k x)).
    rewrite (set_first_ext _ _ _ (index_pred_ext reqs size i ltac:(lia))). cbn [kid_step kid_out kind_of_type].
    destruct (set_first (req_matches reqs (fun s => step_eqb (PIndex i) s)) (k, wenc_val (scalar_to_wire k x)) 0 acc) as [acc' b].
    rewrite <- plen_app, app_assoc. apply IH; try assumption; lia.
Qed.

Lemma indexes_loop_unpacked S t vs : forall pre reqs acc i count need size fuel fnum,
  Forall (fun x => wf_fld S LSingular t x = true) vs -> wf_wire (map (pair fnum) (map sval vs)) = true ->
  0 <= i -> i + plen vs <= size ->
  a_indexes_loop (length vs + Datatypes.S fuel) (pre ++ wenc (map (pair fnum) (map sval vs))) (plen pre) (elem_wt t) false
                 (kind_of_type t) size reqs acc i count need =
  MOk (fill (index_children t i vs) reqs acc count need).
Proof.
  induction vs as [|x vs IH]; intros pre reqs acc i count need size fuel fnum Hall Hwf Hi Hsz.
  - cbn [length plus a_indexes_loop map index_children fill wenc flat_map]. rewrite app_nil_r, Z.ltb_irrefl. reflexivity.
  - assert (Hx : wf_fld S LSingular t x = true) by (inversion Hall; assumption).
    assert (Hxs : Forall (fun x => wf_fld S LSingular t x = true) vs) by (inversion Hall; assumption).
    rewrite plen_cons in Hsz. pose proof (plen_nonneg vs) as Hpx.
    cbn [map] in *. cbn [wf_wire forallb] in Hwf. apply andb_true_iff in Hwf as [Hf Hws].
    destruct (wf_singular_facts _ _ _ Hx) as [Hw [Hwt [Htt Ee]]].
    rewrite wenc_cons. pose proof (wenc_field_plen_pos (fnum, sval x)). pose proof (plen_nonneg (wenc (map (pair fnum) (map sval vs)))).
    cbn [length plus a_indexes_loop index_children fill]. rewrite !plen_app.
    destruct (Z.ltb_spec (plen pre) (plen pre + (plen (wenc_field (fnum, sval x)) + plen (wenc (map (pair fnum) (map sval vs)))))); [|lia]. cbn [andb].
    destruct (count <? need); [|reflexivity].
    unfold list_next. destruct (record_skip pre (fnum, sval x) (wenc (map (pair fnum) (map sval vs))) Hf) as [Hc Hs]. cbn [fst snd] in Hc, Hs.
    rewrite Hwt in Hc, Hs. rewrite Hc, Hs.
    assert (Esl : slice (pre ++ wenc_field (fnum, sval x) ++ wenc (map (pair fnum) (map sval vs)))
                        (plen pre + plen (tagb fnum (elem_wt t))) (plen pre + plen (wenc_field (fnum, sval x))) = encode_elem x).
    { rewrite <- Hwt. rewrite wenc_field_tagb. cbn [fst snd]. rewrite <- !app_assoc. rewrite app_assoc. rewrite <- plen_app.
      replace (plen pre + plen (tagb fnum (wt_of_wval (sval x)) ++ wenc_val (sval x))) with (plen (pre ++ tagb fnum (wt_of_wval (sval x))) + plen (wenc_val (sval x)))
        by (rewrite !plen_app; lia).
      rewrite slice_app. symmetry. exact Ee. }
    rewrite Esl.
    rewrite (set_first_ext _ _ _ (index_pred_ext reqs size i ltac:(lia))). cbn [kid_step kid_out].
    destruct (set_first (req_matches reqs (fun s => step_eqb (PIndex i) s)) (kind_of_type t, encode_elem x) 0 acc) as [acc' b].
    rewrite <- plen_app, app_assoc. apply (IH _ reqs acc' (i + 1) _ need size fuel fnum Hxs Hws); lia.
Qed.

Lemma index_kids_steps t vs : forall i s, In s (map kid_step (index_children t i vs)) -> exists j, i <= j /\ s = PIndex j.
Proof.
  induction vs as [|x vs IH]; intros i s H; [contradiction|]. cbn [index_children map kid_step] in H. destruct H as [<-|H].
  - exists i. split; [lia|reflexivity].
  - destruct (IH _ _ H) as [j [Hj ->]]. exists j. split; [lia|reflexivity].
Qed.

Lemma index_kids_ok t vs : forall i,
  NoDup (map kid_step (index_children t i vs)) /\
  Forall (fun k => step_eqb (kid_step k) (kid_step k) = true) (index_children t i vs).
Proof.
  induction vs as [|x vs IH]; intros i; [split; constructor|]. destruct (IH (i + 1)) as [H1 H2].
  cbn [index_children map kid_step]. split.
  - constructor; [|exact H1]. intros Hin. destruct (index_kids_steps _ _ _ _ Hin) as [j [Hj E]]. inversion E. lia.
  - constructor; [cbn [kid_step step_eqb]; apply Z.eqb_refl|exact H2].
Qed.

Theorem getmany_indexes_kids S p t num q vs reqs :
  p = type_numeric t -> 1 <= num <= MAX_FIELD_NUMBER ->
  wf_fld S (LRepeated p) t (VList q vs) = true -> plen (wenc (wfld num (VList q vs))) < 2 ^ 63 ->
  NoDup reqs -> (exists i r, reqs = PIndex i :: r) ->
  a_getmany all_fixes S (list_node p t num (plen vs) (VList q vs)) reqs =
  MOk (many_of_kids (spec_children S (LRepeated p) t (VList q vs)) reqs).
Proof.
  intros Hp Hn Hwf Hlen Hdup [i0 [r0 Er]]. destruct (wf_list_facts _ _ _ _ _ num Hwf) as [Hq [Hne [Hall Hshape]]].
  destruct (index_kids_ok t vs 0) as [Hk1 Hk2]. cbn [spec_children].
  rewrite <- (fill_is_map reqs _ Hdup Hk1 Hk2).
  change (2 ^ 63) with 9223372036854775808 in Hlen.
  unfold a_getmany. rewrite Er. rewrite <- Er. unfold list_node. cbn [an_t an_raw an_ty an_size]. change (T_LIST =? T_LIST) with true. cbn [negb].
  destruct q.
  - destruct Hshape as [k [xs [Et [Hk [Evs [Hxs [Ew Hpl]]]]]]]. subst t vs. cbn [type_numeric]. rewrite Hk.
    rewrite Ew in *. set (tg := tagb num 2). set (lenb := varint_enc (plen (penc k xs))).
    assert (E0 : wenc [(num, WBytes (penc k xs))] = [] ++ tg ++ lenb ++ penc k xs).
    { unfold wenc. cbn [flat_map]. rewrite app_nil_r, wenc_field_tagb. reflexivity. }
    set (buf := wenc [(num, WBytes (penc k xs))]) in *.
    assert (Hc : ctag buf 0 = Some (num, 2, plen tg)).
    { rewrite E0. change 0 with (plen (@nil Z)). unfold tg. apply ctag_enc; [exact Hn|unfold wt_ok; auto]. }
    rewrite Hc. change (2 =? 2) with true. cbn [negb].
    assert (Hbl : plen (penc k xs) <= plen buf).
    { rewrite E0. cbn [app]. rewrite !plen_app. pose proof (plen_nonneg tg). pose proof (plen_nonneg lenb). lia. }
    pose proof (plen_nonneg (penc k xs)) as Hpn.
    assert (Hal : aread_length buf (plen tg) = Some (plen (penc k xs), plen (tg ++ lenb))).
    { unfold aread_length. replace buf with (tg ++ lenb ++ penc k xs ++ []) by (rewrite E0, app_nil_r; reflexivity).
      unfold lenb. rewrite cvar_enc by lia. rewrite to_s64_small by lia. fold lenb. rewrite !plen_app. reflexivity. }
    rewrite Hal.
    assert (Hfu : (length xs <= length buf)%nat) by (pose proof (penc_len k xs); rewrite !plen_len in Hbl; lia).
    destruct (fuel_split _ _ Hfu) as [f Ef]. rewrite Ef.
    replace buf with ((tg ++ lenb) ++ penc k xs) by (rewrite E0, <- app_assoc; reflexivity).
    unfold elem_wt. cbn [kind_of_type].
    apply (indexes_loop_packed k xs (tg ++ lenb) reqs _ 0 0 (plen reqs) _ f Hk Hxs); [lia|].
    unfold plen. rewrite map_length. lia.
  - symmetry in Hq. rewrite <- Hp in Hq. assert (Hnn : type_numeric t = false) by (destruct p; [discriminate Hq|congruence]).
    rewrite Hnn. rewrite Hshape in *.
    assert (Hw : wf_wire (map (pair num) (map sval vs)) = true).
    { destruct (wfld_fvals _ _ _ _ num Hwf) as [E _]. rewrite Hshape in E. rewrite E. apply map_pair_wf; [exact Hn|apply (fvals_wf _ _ _ _ Hwf)]. }
    destruct vs as [|x0 vs']; [contradiction|].
    assert (Hx0 : wf_fld S LSingular t x0 = true) by (inversion Hall; assumption).
    destruct (sval_bytes _ _ _ Hx0 Hnn) as [b0 Eb0].
    assert (Hc : exists tn, ctag (wenc (map (pair num) (map sval (x0 :: vs')))) 0 = Some (num, 2, tn)).
    { cbn [map]. rewrite wenc_cons. cbn [map wf_wire forallb] in Hw. apply andb_true_iff in Hw as [Hf _].
      destruct (record_skip [] (num, sval x0) (wenc (map (pair num) (map sval vs'))) Hf) as [Hc _]. cbn [app fst snd] in Hc.
      change (plen (@nil Z)) with 0 in Hc. rewrite Eb0 in Hc. cbn [wt_of_wval] in Hc. rewrite Eb0. eexists. exact Hc. }
    destruct Hc as [tn Hc]. rewrite Hc. change (2 =? 2) with true. cbn [negb].
    assert (Hfu : (length (x0 :: vs') <= length (wenc (map (pair num) (map sval (x0 :: vs')))))%nat).
    { pose proof (wenc_len (map (pair num) (map sval (x0 :: vs')))) as H. rewrite !map_length in H. exact H. }
    destruct (fuel_split _ _ Hfu) as [f Ef]. rewrite Ef.
    apply (indexes_loop_unpacked S t (x0 :: vs') [] reqs _ 0 0 (plen reqs) _ f num Hall Hw); lia.
Qed.

(* ------------------------------------------------------------------ Node.Gets *)
(* the key as the map iterator reads it *)
Definition read_key (kk : Z) (k : mkey) : mkey := match k with KInt _ v => KInt kk (to_s 64 v) | KStr b => KStr b end.

Lemma pair_next_entry S kk t k x pre rest fnum :
  (kk =? 9) || kind_is_int kk = true -> 1 <= fnum <= MAX_FIELD_NUMBER ->
  key_okb kk k = true -> wf_fld S LSingular t x = true -> wf_entry (entry_of (k, x)) = true ->
  plen (pre ++ wenc_field (erec fnum (entry_of (k, x))) ++ rest) < 9223372036854775808 ->
  exists vs, pair_next (pre ++ wenc_field (erec fnum (entry_of (k, x))) ++ rest) (plen pre) kk (elem_wt t) =
             PrOk (read_key kk k) vs (plen (pre ++ wenc_field (erec fnum (entry_of (k, x))))) (plen (pre ++ wenc_field (erec fnum (entry_of (k, x))))) /\
             slice (pre ++ wenc_field (erec fnum (entry_of (k, x))) ++ rest) vs (plen (pre ++ wenc_field (erec fnum (entry_of (k, x))))) = encode_elem x.
Proof.
  intros Hkk Hn Hk Hx Hwe Hlen'.
  destruct (wf_singular_facts _ _ _ Hx) as [Hw [Hwt [Htt Ee]]].
  set (e := entry_of (k, x)) in *.
  unfold wf_entry in Hwe. apply andb_true_iff in Hwe as [Hwe Hl]. apply andb_true_iff in Hwe as [Hkw Hxw]. apply Z.ltb_lt in Hl.
  pose proof (ebody_plen_pos e) as Hpos.
  set (tg := tagb fnum 2). set (lenb := varint_enc (plen (ebody e))).
  set (t1 := tagb 1 (wt_of_wval (kval (fst e)))). set (kb := wenc_val (kval (fst e))).
  set (t2 := tagb 2 (wt_of_wval (snd e))). set (xb := wenc_val (snd e)).
  set (buf := pre ++ wenc_field (erec fnum e) ++ rest) in *.
  assert (E0 : buf = pre ++ tg ++ (lenb ++ t1 ++ kb ++ t2 ++ xb ++ rest)).
  { unfold buf. rewrite erec_enc. unfold evalb. fold tg lenb. unfold ebody. fold t1 kb t2 xb. repeat rewrite <- app_assoc. reflexivity. }
  assert (E1 : buf = (pre ++ tg) ++ lenb ++ (t1 ++ kb ++ t2 ++ xb ++ rest)) by (rewrite E0; repeat rewrite <- app_assoc; reflexivity).
  assert (E2 : buf = (pre ++ tg ++ lenb) ++ t1 ++ (kb ++ t2 ++ xb ++ rest)) by (rewrite E0; repeat rewrite <- app_assoc; reflexivity).
  assert (E3 : buf = (pre ++ tg ++ lenb ++ t1) ++ kb ++ (t2 ++ xb ++ rest)) by (rewrite E0; repeat rewrite <- app_assoc; reflexivity).
  assert (E4 : buf = (pre ++ tg ++ lenb ++ t1 ++ kb) ++ t2 ++ (xb ++ rest)) by (rewrite E0; repeat rewrite <- app_assoc; reflexivity).
  assert (E5 : buf = (pre ++ tg ++ lenb ++ t1 ++ kb ++ t2) ++ xb ++ rest) by (rewrite E0; repeat rewrite <- app_assoc; reflexivity).
  assert (Hbl : plen (ebody e) <= plen buf).
  { rewrite E0, !plen_app. unfold ebody. fold t1 kb t2 xb. rewrite !plen_app.
    pose proof (plen_nonneg pre). pose proof (plen_nonneg tg). pose proof (plen_nonneg lenb). pose proof (plen_nonneg rest). lia. }
  exists (plen (pre ++ tg ++ lenb ++ t1 ++ kb ++ t2)).
  assert (Eend : plen (pre ++ tg ++ lenb ++ t1 ++ kb ++ t2) + plen xb = plen (pre ++ wenc_field (erec fnum e))).
  { rewrite erec_enc. unfold evalb. fold tg lenb. unfold ebody. fold t1 kb t2 xb. rewrite !plen_app. lia. }
  split.
  - unfold pair_next.
    assert (Hc0 : ctag buf (plen pre) = Some (fnum, 2, plen tg)).
    { rewrite E0. unfold tg. apply ctag_enc; [exact Hn|unfold wt_ok; auto]. }
    rewrite Hc0.
    assert (Hal : aread_length buf (plen pre + plen tg) = Some (plen (ebody e), plen (pre ++ tg ++ lenb))).
    { unfold aread_length. rewrite <- plen_app. rewrite E1. unfold lenb. rewrite cvar_enc by (change (2 ^ 64) with 18446744073709551616; lia).
      rewrite to_s64_small by lia. fold lenb. rewrite !plen_app. f_equal. f_equal. lia. }
    rewrite Hal.
    assert (Hc1 : ctag buf (plen (pre ++ tg ++ lenb)) = Some (1, wt_of_wval (kval (fst e)), plen t1)).
    { rewrite E2. unfold t1. apply ctag_enc; [unfold MAX_FIELD_NUMBER; lia|apply wt_of_wval_ok]. }
    rewrite Hc1.
    replace (plen (pre ++ tg ++ lenb) + plen t1) with (plen (pre ++ tg ++ lenb ++ t1)) by (rewrite !plen_app; lia).
    assert (Hkey : wt_of_wval (kval (fst e)) = wt_of_kind kk /\
                   (if kk =? 9
                    then match aread_string buf (plen (pre ++ tg ++ lenb ++ t1)) with Some (b, r) => Some (KStr b, r) | None => None end
                    else match aread_int buf (plen (pre ++ tg ++ lenb ++ t1)) kk with Some (x0, r) => Some (KInt kk x0, r) | None => None end)
                   = Some (read_key kk k, plen (pre ++ tg ++ lenb ++ t1 ++ kb))).
    { unfold e, entry_of in kb, t1 |- *. cbn [fst snd] in kb, t1 |- *. unfold kb, kval in *.
      destruct k as [k' v|bs]; cbn [key_okb] in Hk.
      - apply andb_true_iff in Hk as [Hk Hok]. apply andb_true_iff in Hk as [Ek Hnum]. apply Z.eqb_eq in Ek. subst k'.
        destruct (Z.eqb_spec kk 9) as [->|_]; [cbn in Hnum; discriminate|].
        assert (Hki : kind_is_int kk = true) by (apply orb_true_iff in Hkk; destruct Hkk as [E|E]; [discriminate E|exact E]).
        cbn [key_field snd read_key] in *. destruct (scalar_rt kk v Hnum Hok) as [_ [_ Hwtk]]. split; [exact Hwtk|].
        rewrite E3. rewrite aread_int_enc by assumption.
        rewrite !plen_app. f_equal. f_equal. lia.
      - apply andb_true_iff in Hk as [Ek Hlb]. apply Z.eqb_eq in Ek. subst kk. cbn [Z.eqb Pos.eqb]. apply Z.ltb_lt in Hlb.
        cbn [key_field snd read_key] in *. split; [reflexivity|]. rewrite E3. rewrite aread_string_enc by exact Hlb.
        rewrite !plen_app. f_equal. f_equal. lia. }
    destruct Hkey as [Hkwt Hkey]. rewrite Hkwt, Z.eqb_refl. cbn [negb]. rewrite Hkey.
    assert (Hc2 : ctag buf (plen (pre ++ tg ++ lenb ++ t1 ++ kb)) = Some (2, wt_of_wval (snd e), plen t2)).
    { rewrite E4. unfold t2. apply ctag_enc; [unfold MAX_FIELD_NUMBER; lia|apply wt_of_wval_ok]. }
    rewrite Hc2. unfold e at 1, entry_of at 1. cbn [snd]. rewrite Hwt, Z.eqb_refl. cbn [negb].
    replace (plen (pre ++ tg ++ lenb ++ t1 ++ kb) + plen t2) with (plen (pre ++ tg ++ lenb ++ t1 ++ kb ++ t2)) by (rewrite !plen_app; lia).
    assert (Hs : askip buf (plen (pre ++ tg ++ lenb ++ t1 ++ kb ++ t2)) (elem_wt t) = SkOk (plen (pre ++ tg ++ lenb ++ t1 ++ kb ++ t2) + plen xb)).
    { rewrite E5. rewrite <- Hwt. unfold xb, e, entry_of. cbn [snd]. apply askip_val. exact Hw. }
    rewrite Hs, Eend. reflexivity.
  - rewrite <- Eend. rewrite E5. rewrite slice_app. unfold xb, e, entry_of. cbn [snd]. symmetry. exact Ee.
Qed.

Lemma beqb_sym a b : bytes_eqb a b = bytes_eqb b a.
Proof.
  destruct (bytes_eqb a b) eqn:E1; destruct (bytes_eqb b a) eqn:E2; try reflexivity.
  - apply beqb_true in E1. subst b. rewrite bytes_eqb_refl in E2. discriminate.
  - apply beqb_true in E2. subst b. rewrite bytes_eqb_refl in E1. discriminate.
Qed.

Lemma key_pred_ext reqs kk k : forall j,
  req_matches reqs (fun s => key_is s (read_key kk k)) j = req_matches reqs (fun s => step_eqb (key_step k) s) j.
Proof.
  intros j. unfold req_matches. destruct (nth_error reqs j) as [s|]; [|reflexivity].
  destruct k as [k' v|b]; destruct s; cbn [read_key key_is key_step step_eqb]; try reflexivity. apply beqb_sym.
Qed.

Lemma gets_loop_fill S kk t kvs : forall pre reqs acc count need fuel fnum,
  (kk =? 9) || kind_is_int kk = true -> 1 <= fnum <= MAX_FIELD_NUMBER ->
  Forall (fun kx => key_okb kk (fst kx) = true /\ wf_fld S LSingular t (snd kx) = true /\ wf_entry (entry_of kx) = true) kvs ->
  plen (pre ++ wenc (map (erec fnum) (map entry_of kvs))) < 9223372036854775808 ->
  a_gets_loop (length kvs + Datatypes.S fuel) all_fixes (pre ++ wenc (map (erec fnum) (map entry_of kvs))) kk (elem_wt t) (kind_of_type t)
              reqs (plen pre) acc count need =
  MOk (fill (map (map_child t) kvs) reqs acc count need).
Proof.
  induction kvs as [|[k x] kvs IH]; intros pre reqs acc count need fuel fnum Hkk Hn Hall Hlen.
  - cbn [length plus a_gets_loop map fill wenc flat_map]. rewrite app_nil_r, Z.ltb_irrefl. reflexivity.
  - assert (Hkx : key_okb kk k = true /\ wf_fld S LSingular t x = true /\ wf_entry (entry_of (k, x)) = true) by (inversion Hall; assumption).
    assert (Hall' : Forall (fun kx => key_okb kk (fst kx) = true /\ wf_fld S LSingular t (snd kx) = true /\ wf_entry (entry_of kx) = true) kvs)
      by (inversion Hall; assumption).
    destruct Hkx as [Hk [Hx Hwe]]. cbn [fst snd] in Hk, Hx.
    cbn [map] in *. rewrite wenc_cons in *.
    destruct (pair_next_entry S kk t k x pre (wenc (map (erec fnum) (map entry_of kvs))) fnum Hkk Hn Hk Hx Hwe Hlen) as [vs [Hpn Hsl]].
    pose proof (wenc_field_plen_pos (erec fnum (entry_of (k, x)))). pose proof (plen_nonneg (wenc (map (erec fnum) (map entry_of kvs)))).
    cbn [length plus a_gets_loop fill].
    destruct (Z.ltb_spec (plen pre) (plen (pre ++ wenc_field (erec fnum (entry_of (k, x))) ++ wenc (map (erec fnum) (map entry_of kvs)))));
      [|rewrite !plen_app in *; lia]. cbn [andb].
    destruct (count <? need); [|reflexivity].
    change (f707 all_fixes) with true. cbn iota. rewrite Hpn, Hsl.
    rewrite (set_first_ext _ _ _ (key_pred_ext reqs kk k)).
    change (kid_out (map_child t (k, x))) with (kind_of_type t, encode_elem x). change (kid_step (map_child t (k, x))) with (key_step k).
    destruct (set_first (req_matches reqs (fun s => step_eqb (key_step k) s)) (kind_of_type t, encode_elem x) 0 acc) as [acc' b].
    rewrite app_assoc. apply IH; try assumption. rewrite <- app_assoc. exact Hlen.
Qed.

Lemma key_step_inj kk k k' : (kk =? 9) || kind_is_int kk = true -> key_okb kk k = true -> key_okb kk k' = true ->
  key_step k = key_step k' -> mkey_eqb k k' = true.
Proof.
  intros Hkk Hk Hk' E. destruct k as [a v|b], k' as [a' v'|b']; cbn [key_step] in E; try discriminate; cbn [key_okb mkey_eqb] in *.
  - apply andb_true_iff in Hk as [Hk Hok]. apply andb_true_iff in Hk as [Ek Hnum]. apply Z.eqb_eq in Ek. subst a.
    apply andb_true_iff in Hk' as [Hk' Hok']. apply andb_true_iff in Hk' as [Ek' _]. apply Z.eqb_eq in Ek'. subst a'.
    assert (Hki : kind_is_int kk = true).
    { apply orb_true_iff in Hkk. destruct Hkk as [E9|Hi]; [|exact Hi]. apply Z.eqb_eq in E9. subst kk. cbn in Hnum. discriminate. }
    inversion E as [E']. rewrite (to_s64_inj_okb kk v v' Hki Hok Hok' E'). rewrite !Z.eqb_refl. reflexivity.
  - inversion E. subst. apply bytes_eqb_refl.
Qed.

Lemma map_kids_ok kk t kvs : (kk =? 9) || kind_is_int kk = true ->
  Forall (fun kx : mkey * pval => key_okb kk (fst kx) = true) kvs -> nodupb mkey_eqb (map fst kvs) = true ->
  NoDup (map kid_step (map (map_child t) kvs)) /\
  Forall (fun k => step_eqb (kid_step k) (kid_step k) = true) (map (map_child t) kvs).
Proof.
  intros Hkk Hall Hnd. split.
  - induction kvs as [|[k x] kvs IH]; [constructor|]. cbn [map fst nodupb] in *. apply andb_true_iff in Hnd as [Hx Hnd].
    inversion Hall as [|? ? Hk Hall']; subst. cbn [fst] in Hk.
    constructor; [|apply IH; assumption]. unfold map_child at 1. cbn [kid_step fst].
    intros Hin. apply in_map_iff in Hin. destruct Hin as [c [Ec Hc]]. apply in_map_iff in Hc. destruct Hc as [[k' x'] [<- Hin']].
    unfold map_child in Ec. cbn [kid_step fst] in Ec.
    assert (Hk' : key_okb kk k' = true) by (rewrite Forall_forall in Hall'; apply (Hall' _ Hin')).
    pose proof (key_step_inj kk k k' Hkk Hk Hk' (eq_sym Ec)) as He.
    apply negb_true_iff in Hx. assert (existsb (mkey_eqb k) (map fst kvs) = true).
    { apply existsb_exists. exists k'. split; [apply (in_map fst _ _ Hin')|exact He]. } congruence.
  - apply Forall_forall. intros c Hc. apply in_map_iff in Hc. destruct Hc as [[k x] [<- _]].
    unfold map_child. cbn [kid_step fst]. destruct k; cbn [key_step step_eqb]; [apply Z.eqb_refl|apply bytes_eqb_refl].
Qed.

Theorem getmany_gets_kids S kk t num kvs reqs :
  (kk =? 9) || kind_is_int kk = true -> 1 <= num <= MAX_FIELD_NUMBER ->
  wf_fld S (LMap kk) t (VMap kvs) = true -> plen (wenc (wfld num (VMap kvs))) < 2 ^ 63 ->
  NoDup reqs -> (exists s r, reqs = s :: r /\ is_key_req s = true) ->
  a_getmany all_fixes S (map_node kk t num (plen kvs) (VMap kvs)) reqs =
  MOk (many_of_kids (spec_children S (LMap kk) t (VMap kvs)) reqs).
Proof.
  intros Hkk Hn Hwf Hlen Hdup [s0 [r0 [Er Hs0]]]. destruct (wf_map_facts _ _ _ _ num Hwf) as [Hne [Ew Hall]].
  assert (Hnd : nodupb mkey_eqb (map fst kvs) = true).
  { cbn [wf_fld] in Hwf. apply andb_true_iff in Hwf as [H _]. apply andb_true_iff in H as [_ H]. exact H. }
  assert (Hkeys : Forall (fun kx : mkey * pval => key_okb kk (fst kx) = true) kvs)
    by (eapply Forall_impl; [|exact Hall]; intros a Ha; cbn beta in Ha; destruct Ha as [Ha _]; exact Ha).
  destruct (map_kids_ok kk t kvs Hkk Hkeys Hnd) as [Hk1 Hk2]. cbn [spec_children]. change (map _ kvs) with (map (map_child t) kvs).
  rewrite <- (fill_is_map reqs _ Hdup Hk1 Hk2).
  change (2 ^ 63) with 9223372036854775808 in Hlen.
  assert (Hgo : a_getmany all_fixes S (map_node kk t num (plen kvs) (VMap kvs)) reqs =
                match ctag (wenc (wfld num (VMap kvs))) 0 with
                | Some (_, wt0, _) => if negb (wt0 =? 2) then MErr
                                      else a_gets_loop (Datatypes.S (length (wenc (wfld num (VMap kvs))))) all_fixes (wenc (wfld num (VMap kvs))) kk (elem_wt t) (kind_of_type t) reqs 0
                                                       (map (fun _ => None) reqs) 0 (plen reqs)
                | None => MErr end).
  { unfold a_getmany, map_node. cbn [an_t an_raw an_ty an_lbl]. change (T_MAP =? T_MAP) with true. cbn [negb]. rewrite Er.
    destruct s0; try discriminate Hs0; reflexivity. }
  rewrite Hgo. rewrite Ew in *.
  destruct kvs as [|kx kvs']; [contradiction|].
  assert (Hc : exists tn, ctag (wenc (map (erec num) (map entry_of (kx :: kvs')))) 0 = Some (num, 2, tn)).
  { cbn [map]. rewrite wenc_cons, erec_enc. pose proof (ctag_enc [] num 2 (evalb (entry_of kx) ++ wenc (map (erec num) (map entry_of kvs'))) Hn) as Hc.
    cbn [app] in Hc. change (plen (@nil Z)) with 0 in Hc. rewrite <- app_assoc. eexists. apply Hc. unfold wt_ok. auto. }
  destruct Hc as [tn Hc]. rewrite Hc. change (2 =? 2) with true. cbn [negb].
  assert (Hfu : (length (kx :: kvs') <= length (wenc (map (erec num) (map entry_of (kx :: kvs')))))%nat).
  { pose proof (wenc_len (map (erec num) (map entry_of (kx :: kvs')))) as H. rewrite !map_length in H. exact H. }
  destruct (fuel_split _ _ Hfu) as [f Ef]. rewrite Ef.
  apply (gets_loop_fill S kk t (kx :: kvs') [] reqs _ 0 (plen reqs) f num Hkk Hn Hall). cbn [app]. exact Hlen.
Qed.

(* ------------------------------------------------------------------ GetMany = map of single lookups *)
Lemma step_eq_refl a : step_eq a a = true.
Proof. destruct a; cbn [step_eq]; try apply Z.eqb_refl; apply bytes_eqb_refl. Qed.

Lemma nodupb_step_NoDup reqs : nodupb step_eq reqs = true -> NoDup reqs.
Proof.
  induction reqs as [|x l IH]; intros H; [constructor|]. cbn [nodupb] in H. apply andb_true_iff in H as [H1 H2].
  constructor; [|apply IH; exact H2]. intros Hin. apply negb_true_iff in H1.
  assert (existsb (step_eq x) l = true) by (apply existsb_exists; exists x; split; [exact Hin|apply step_eq_refl]). congruence.
Qed.

Lemma many_is_lookups S lbl t num v kids reqs :
  Forall (fun s => find_kid s kids = child_of_lres s (plookup S lbl t num v [s])) reqs ->
  many_of_kids kids reqs = map (lookup_out S lbl t num v) reqs.
Proof.
  intros H. unfold many_of_kids. apply map_ext_in. intros s Hs. rewrite Forall_forall in H. rewrite (H s Hs).
  unfold lookup_out, child_of_lres. destruct (plookup S lbl t num v [s]); reflexivity.
Qed.

Lemma reqs_okb_facts kind reqs : reqs_okb kind reqs = true ->
  NoDup reqs /\ Forall (fun s => kind s = true) reqs /\ exists s r, reqs = s :: r /\ kind s = true.
Proof.
  unfold reqs_okb. intros H. apply andb_true_iff in H as [H Hnd]. apply andb_true_iff in H as [Hne Hall].
  split; [apply nodupb_step_NoDup; exact Hnd|]. apply forallb_Forall in Hall. split; [exact Hall|].
  destruct reqs as [|s r]; [discriminate|]. exists s, r. split; [reflexivity|]. inversion Hall; assumption.
Qed.

Theorem getmany_fields S name fs reqs nd num0 :
  wf_fld S LSingular (TMsg name) (VMsg fs) = true ->
  (nd = root_node name (encode_msg fs) /\ plen (encode_msg fs) < 2 ^ 63) \/
  (exists num, nd = msg_node name num fs /\ plen (encode_elem (VMsg fs)) < 2 ^ 63) ->
  reqs_okb is_field_req reqs = true ->
  a_getmany all_fixes S nd reqs = MOk (map (lookup_out S LSingular (TMsg name) num0 (VMsg fs)) reqs).
Proof.
  intros Hwf Hnd Hr. destruct (reqs_okb_facts _ _ Hr) as [Hdup [Hall [s [r [Er Hs]]]]].
  rewrite (getmany_fields_kids S name fs reqs nd Hwf Hnd Hdup).
  - f_equal. apply many_is_lookups. eapply Forall_impl; [|exact Hall]. intros a Ha. destruct a; try discriminate Ha.
    apply children_lookup_msg. exact Hwf.
  - destruct s; try discriminate Hs. eauto.
Qed.

Theorem getmany_indexes S p t num q vs reqs :
  p = type_numeric t -> 1 <= num <= MAX_FIELD_NUMBER ->
  wf_fld S (LRepeated p) t (VList q vs) = true -> plen (wenc (wfld num (VList q vs))) < 2 ^ 63 ->
  reqs_okb is_index_req reqs = true ->
  a_getmany all_fixes S (list_node p t num (plen vs) (VList q vs)) reqs =
  MOk (map (lookup_out S (LRepeated p) t num (VList q vs)) reqs).
Proof.
  intros Hp Hn Hwf Hlen Hr. destruct (reqs_okb_facts _ _ Hr) as [Hdup [Hall [s [r [Er Hs]]]]].
  rewrite (getmany_indexes_kids S p t num q vs reqs Hp Hn Hwf Hlen Hdup).
  - f_equal. apply many_is_lookups. eapply Forall_impl; [|exact Hall]. intros a Ha. destruct a; try discriminate Ha.
    apply children_lookup_list.
  - destruct s; try discriminate Hs. eauto.
Qed.

Theorem getmany_gets S kk t num kvs reqs :
  (kk =? 9) || kind_is_int kk = true -> 1 <= num <= MAX_FIELD_NUMBER ->
  wf_fld S (LMap kk) t (VMap kvs) = true -> plen (wenc (wfld num (VMap kvs))) < 2 ^ 63 ->
  reqs_okb is_key_req reqs = true ->
  a_getmany all_fixes S (map_node kk t num (plen kvs) (VMap kvs)) reqs =
  MOk (map (lookup_out S (LMap kk) t num (VMap kvs)) reqs).
Proof.
  intros Hkk Hn Hwf Hlen Hr. destruct (reqs_okb_facts _ _ Hr) as [Hdup [Hall [s [r [Er Hs]]]]].
  rewrite (getmany_gets_kids S kk t num kvs reqs Hkk Hn Hwf Hlen Hdup).
  - f_equal. apply many_is_lookups. eapply Forall_impl; [|exact Hall]. intros a Ha.
    apply (children_lookup_map S kk t num kvs a Hwf); destruct a; try discriminate Ha; [exact Ha|exact Ha|exact I|exact I].
  - exists s, r. split; [exact Er|exact Hs].
Qed.

(* ================================================================== statements for props/Properties_C07.v *)
Lemma label_okb_ok lbl t num : label_okb lbl t num = true -> label_ok lbl t num.
Proof.
  destruct lbl as [|p|kk]; cbn [label_okb label_ok]; intros H; [exact I| |].
  - apply andb_true_iff in H as [H H2]. apply andb_true_iff in H as [H0 H1]. apply eqb_prop in H0. apply Z.leb_le in H1, H2. auto.
  - apply andb_true_iff in H as [H H2]. apply andb_true_iff in H as [H0 H1]. apply Z.leb_le in H1, H2. auto.
Qed.

Lemma node_domain_facts S lbl t num v : node_domain S lbl t num v = true ->
  schema_okb S = true /\ schema_packed_okb S = true /\ wf_fld S lbl t v = true /\ label_ok lbl t num /\ plen (node_raw lbl num v) < 2 ^ 63.
Proof.
  unfold node_domain. intros H. apply andb_true_iff in H as [H H5]. apply andb_true_iff in H as [H H4].
  apply andb_true_iff in H as [H H3]. apply andb_true_iff in H as [H1 H2]. apply Z.ltb_lt in H5. apply label_okb_ok in H4. auto.
Qed.

Lemma root_domain_facts S root m : root_domain S root m = true ->
  schema_okb S = true /\ schema_packed_okb S = true /\ wf_msg S root m = true /\ plen (encode_msg m) < 2 ^ 63.
Proof.
  unfold root_domain. intros H. apply andb_true_iff in H as [H H4].
  apply andb_true_iff in H as [H H3]. apply andb_true_iff in H as [H1 H2]. apply Z.ltb_lt in H4. auto.
Qed.

Lemma c07_children_root S root m : root_domain S root m = true ->
  a_load all_fixes S false (root_node root (encode_msg m)) =
    TOk (spec_children S LSingular (TMsg root) (VMsg m)) (plen (encode_msg m)) /\
  payload_of_children S LSingular (TMsg root) 0 (VMsg m) = Some (encode_msg m) /\
  (forall n, find_kid (PField n) (spec_children S LSingular (TMsg root) (VMsg m)) =
             child_of_lres (PField n) (plookup_root S root m [PField n])).
Proof.
  intros H. destruct (root_domain_facts _ _ _ H) as [_ [HP [Hwf _]]].
  split; [apply load_root_children; assumption|]. split; [apply payload_cover_msg; exact Hwf|].
  intros n. apply children_lookup_msg. exact Hwf.
Qed.

Lemma c07_children_list S p t num q vs : node_domain S (LRepeated p) t num (VList q vs) = true ->
  a_load all_fixes S false (node_of (LRepeated p) t num (VList q vs)) =
    TOk (spec_children S (LRepeated p) t (VList q vs)) (plen (node_raw (LRepeated p) num (VList q vs))) /\
  payload_of_children S (LRepeated p) t num (VList q vs) = Some (node_raw (LRepeated p) num (VList q vs)) /\
  (forall i, find_kid (PIndex i) (spec_children S (LRepeated p) t (VList q vs)) =
             child_of_lres (PIndex i) (plookup S (LRepeated p) t num (VList q vs) [PIndex i])).
Proof.
  intros H. destruct (node_domain_facts _ _ _ _ _ H) as [_ [_ [Hwf [[Hp Hn] Hlen]]]]. cbn [node_raw] in *.
  split; [apply (load_list_children S p t num (plen vs) q vs Hp Hn Hwf Hlen)|]. split; [apply payload_cover_list; exact Hwf|].
  intros i. apply children_lookup_list.
Qed.

Lemma c07_children_map S kk t num kvs : node_domain S (LMap kk) t num (VMap kvs) = true ->
  a_load all_fixes S false (node_of (LMap kk) t num (VMap kvs)) =
    TOk (spec_children S (LMap kk) t (VMap kvs)) (plen (node_raw (LMap kk) num (VMap kvs))) /\
  payload_of_children S (LMap kk) t num (VMap kvs) = Some (node_raw (LMap kk) num (VMap kvs)) /\
  (forall st, is_key_req st = true ->
             find_kid st (spec_children S (LMap kk) t (VMap kvs)) =
             child_of_lres st (plookup S (LMap kk) t num (VMap kvs) [st])).
Proof.
  intros H. destruct (node_domain_facts _ _ _ _ _ H) as [_ [_ [Hwf [[Hkk Hn] Hlen]]]]. cbn [node_raw] in *.
  split; [apply (load_map_children S kk t num (plen kvs) kvs Hkk Hn Hwf Hlen)|]. split; [apply payload_cover_map; exact Hwf|].
  intros st Hst. apply (children_lookup_map S kk t num kvs st Hwf); destruct st; try discriminate Hst; try exact I; exact Hst.
Qed.

Lemma c07_getmany_root S root m reqs : root_domain S root m = true -> reqs_okb is_field_req reqs = true ->
  a_getmany all_fixes S (root_node root (encode_msg m)) reqs = MOk (map (lookup_out S LSingular (TMsg root) 0 (VMsg m)) reqs).
Proof.
  intros H Hr. destruct (root_domain_facts _ _ _ H) as [_ [_ [Hwf Hlen]]].
  apply (getmany_fields S root m reqs _ 0 Hwf); [left; split; [reflexivity|exact Hlen]|exact Hr].
Qed.

Lemma c07_getmany_node S lbl t num v reqs :
  node_domain S lbl t num v = true -> is_container v = true -> reqs_okb (req_kind lbl) reqs = true ->
  a_getmany all_fixes S (node_of lbl t num v) reqs = MOk (map (lookup_out S lbl t num v) reqs).
Proof.
  intros H Hc Hr. destruct (node_domain_facts _ _ _ _ _ H) as [_ [_ [Hwf [Hlo Hlen]]]].
  destruct lbl as [|p|kk]; cbn [req_kind label_ok node_raw] in *.
  - destruct v as [| |fs| |]; try discriminate Hc; try (cbn [wf_fld] in Hwf; discriminate).
    destruct t as [k|name]; [cbn [wf_fld] in Hwf; discriminate|].
    apply (getmany_fields S name fs reqs _ num Hwf); [right; exists num; split; [reflexivity|exact Hlen]|exact Hr].
  - destruct v as [| | |q vs|]; try (cbn [wf_fld] in Hwf; discriminate). destruct Hlo as [Hp Hn].
    apply (getmany_indexes S p t num q vs reqs Hp Hn Hwf Hlen Hr).
  - destruct v as [| | | |kvs]; try (cbn [wf_fld] in Hwf; discriminate). destruct Hlo as [Hkk Hn].
    apply (getmany_gets S kk t num kvs reqs Hkk Hn Hwf Hlen Hr).
Qed.

Lemma c07_interface_node S lbl t num v fuel : node_domain S lbl t num v = true -> (height v <= fuel)%nat ->
  a_interface fuel all_fixes S (node_of lbl t num v) = IOk (to_gval v).
Proof.
  intros H Hh. destruct (node_domain_facts _ _ _ _ _ H) as [HS [HP [Hwf [Hlo Hlen]]]].
  unfold node_of. rewrite (a_interface_size_num fuel S _ _ (size_of v) 0 false lbl t num num).
  apply (a_interface_value S lbl t num v fuel HS HP Hwf Hlo Hlen Hh).
Qed.

Lemma c07_interface_root S root m fuel : root_domain S root m = true -> (height (VMsg m) <= fuel)%nat ->
  a_interface fuel all_fixes S (root_node root (encode_msg m)) = IOk (to_gval (VMsg m)).
Proof.
  intros H Hh. destruct (root_domain_facts _ _ _ H) as [HS [HP [Hwf Hlen]]].
  apply (a_interface_root S root m fuel HS HP Hwf Hlen Hh).
Qed.
