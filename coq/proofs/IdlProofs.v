(* C14 — proofs about the IDL elaboration of coq/model/Idl.v: an elaborated struct exposes exactly the declared (kept)
   fields, the service exposes exactly the declared functions, and lookups on the elaborated struct are exact. *)
From Coq Require Import ZArith List Bool Lia.
From DG Require Import CaseFormat GoSem Lookup LookupProofs Idl.
Import ListNotations.
Local Open Scope Z_scope.

(* the declared fields that end up in the descriptor: all but those marked dynamicgo.deprecated (and api.none in responses) *)
Definition kept_fields (target : Z) (fs : list ifield) : list ifield := filter (field_kept target) fs.

(* what one declared field must look like in the descriptor *)
Definition mirrors (intlit : bool) (p : program) (o : popts) (tf : ifile) (kind : Z) (root : bool) (rec : texpr -> option tdesc)
           (fd : ifield) (md : fmeta * tdesc) : Prop :=
  rec (f_type fd) = Some (snd md) /\ fst md = elab_meta intlit p o tf kind root fd (snd md).

Lemma elab_fields_exact rec intlit p o tf kind root target fs ms ks :
  elab_fields rec intlit p o tf kind root target fs = Some (ms, ks) ->
  Forall2 (mirrors intlit p o tf kind root rec) (kept_fields target fs) ms /\
  ks = flat_map (fun md => reg_keys (o_mapway o) (m_id (fst md)) (m_name (fst md)) (m_alias (fst md))) ms.
Proof.
  revert ms ks. induction fs as [|fd fs IH]; intros ms ks; simpl.
  - intros H. inversion H. subst. split; [constructor|reflexivity].
  - destruct (f_id fd <? 0); [discriminate|]. unfold kept_fields. simpl. destruct (field_kept target fd) eqn:Ek.
    + destruct (rec (f_type fd)) as [d|] eqn:Er; [|discriminate].
      destruct (elab_fields rec intlit p o tf kind root target fs) as [[ms' ks']|] eqn:Ef; [|discriminate].
      intros H. inversion H. subst. destruct (IH ms' ks' eq_refl) as [H1 H2]. split.
      * constructor; [split; [exact Er|reflexivity]|exact H1].
      * simpl. rewrite H2. reflexivity.
    + intros H. apply IH. exact H.
Qed.

(* ids / names / aliases / requiredness of the descriptor fields are those of the declared fields, in declaration order *)
Lemma mirrors_id intlit p o tf kind root rec fds ms :
  Forall2 (mirrors intlit p o tf kind root rec) fds ms ->
  map (fun md => m_id (fst md)) ms = map f_id fds /\ map (fun md => m_name (fst md)) ms = map f_name fds /\
  map (fun md => m_req (fst md)) ms = map (fun fd => req_of (if kind =? 1 then 2 else f_req fd)) fds /\
  map (fun md => m_alias (fst md)) ms = map (fun fd => alias_of root (o_bodyfast o) (f_name fd) (f_annos fd)) fds.
Proof.
  induction 1 as [|fd md fds ms [_ Hm] _ IH]; simpl; [repeat split; reflexivity|].
  destruct IH as [I1 [I2 [I3 I4]]]. rewrite Hm. simpl. rewrite I1, I2, I3, I4. repeat split; reflexivity.
Qed.

Lemma get_ref_in p f pkg i f' : get_ref p f pkg = Some (i, f') -> In f' p.
Proof.
  unfold get_ref, get_file. destruct (lookup pkg (fl_includes f)) as [j|]; [|discriminate].
  destruct (j <? 0); [discriminate|]. destruct (nth_error p (Z.to_nat j)) eqn:E; [|discriminate].
  intros H. inversion H. subst. eapply nth_error_In. exact E.
Qed.

Definition keys_of (o : popts) (ms : list (fmeta * tdesc)) : list (name * Z) :=
  flat_map (fun md => reg_keys (o_mapway o) (m_id (fst md)) (m_name (fst md)) (m_alias (fst md))) ms.

(* whatever type expression leads to it (typedef chains, includes): a struct descriptor produced by elab is the image of
   one declared struct-like [s] of a file of the program: same name, its annotations, and its kept fields one by one *)
Theorem elab_struct_exact intlit fuel : forall p o f sdepth rdepth target t tn sn ms ks an,
  In f p ->
  elab_type intlit fuel p o f sdepth rdepth target t = Some (DStruct tn sn ms ks an) ->
  exists tf s rec root,
    In tf p /\ get_slike tf sn = Some s /\ an = struct_annos o tf s /\
    Forall2 (mirrors intlit p o tf (s_kind s) root rec) (kept_fields target (s_fields s)) ms /\
    ks = keys_of o ms.
Proof.
  induction fuel as [|fuel IH]; intros p o f sdepth rdepth target t tn sn ms ks an Hin; [discriminate|].
  destruct t as [b|e|e|k v|n]; cbn [elab_type].
  - discriminate.
  - destruct (elab_type intlit fuel p o f sdepth (rdepth + 1) target e); discriminate.
  - destruct (elab_type intlit fuel p o f sdepth (rdepth + 1) target e); discriminate.
  - destruct (elab_type intlit fuel p o f sdepth (rdepth + 1) target k); [|discriminate].
    destruct (elab_type intlit fuel p o f sdepth (rdepth + 1) target v); discriminate.
  - destruct (split_last_dot n) as [pkg tn0].
    set (tree := match pkg with [] => Some f | _ => option_map snd (get_ref p f pkg) end).
    assert (Htree : forall tf, tree = Some tf -> In tf p).
    { intros tf. unfold tree. destruct pkg; [intros H; inversion H; subst; exact Hin|].
      destruct (get_ref p f (z :: pkg)) as [[i f']|] eqn:E; [|discriminate]. simpl. intros H. inversion H. subst.
      eapply get_ref_in. exact E. }
    destruct tree as [tf|]; [|discriminate]. specialize (Htree tf eq_refl).
    destruct (lookup tn0 (fl_typedefs tf)) as [t'|]; [apply IH; exact Htree|].
    destruct (lookup tn0 (fl_enums tf)); [discriminate|].
    destruct (get_slike tf tn0) as [s|] eqn:Es; [|discriminate].
    destruct sdepth as [|sd]; [discriminate|].
    destruct (elab_fields _ intlit p o tf (s_kind s) (rdepth =? 0) target (s_fields s)) as [[ms' ks']|] eqn:Ef; [|discriminate].
    intros H. inversion H. subst. destruct (elab_fields_exact _ _ _ _ _ _ _ _ _ _ _ Ef) as [H1 H2].
    exists tf, s, (elab_type intlit fuel p o tf sd (rdepth + 1) target), (rdepth =? 0).
    repeat split; try assumption.
Qed.

(* ------------------------------------------------------------------ functions *)

Lemma elab_funcs_names intlit fuel p o sd l : forall ds,
  elab_funcs intlit fuel p o sd l = Some ds -> map d_name ds = map (fun x => fn_name (snd x)) l.
Proof.
  induction l as [|[f fn] l IH]; intros ds; simpl.
  - intros H. inversion H. reflexivity.
  - destruct (elab_func intlit fuel p o f sd fn) as [d|] eqn:E; [|discriminate].
    destruct (elab_funcs intlit fuel p o sd l) as [ds'|]; [|discriminate]. intros H. inversion H. subst. simpl.
    rewrite (IH ds' eq_refl). f_equal.
    unfold elab_func in E. destruct (fn_args fn); [discriminate|].
    destruct (if o_fnmode o =? 2 then _ else _); [|discriminate].
    destruct (if o_fnmode o =? 1 then _ else _); [|discriminate]. inversion E. reflexivity.
Qed.

Lemma has_dup_false_nodup l : has_dup l = false -> NoDup l.
Proof.
  induction l as [|x l IH]; simpl; [constructor|]. intros H. apply orb_false_iff in H. destruct H as [H1 H2].
  constructor; [|apply IH; exact H2]. intros Hin.
  assert (existsb (name_eqb x) l = true).
  { apply existsb_exists. exists x. split; [exact Hin|]. apply key_eqb_refl. }
  congruence.
Qed.

(* the service descriptor exposes exactly the functions declared by the selected service(s) and inherited through `extends`,
   each once, under their declared names *)
Theorem elab_functions_exact samefile intlit sd p o sn ds :
  elab samefile intlit sd p o = Some (sn, ds) ->
  exists main rest svcs,
    p = main :: rest /\ selected_services o main = Some (sn, svcs) /\
    map d_name ds = map (fun x => fn_name (snd x)) (flat_map (all_funcs 16 samefile p main) svcs) /\
    NoDup (map d_name ds).
Proof.
  unfold elab. destruct p as [|main rest]; [discriminate|].
  destruct (selected_services o main) as [[sn' svcs]|] eqn:Es; [|discriminate].
  destruct (has_dup _) eqn:Ed; [discriminate|].
  destruct (elab_funcs intlit 64 (main :: rest) o sd _) as [ds'|] eqn:Ef; [|discriminate].
  intros H. inversion H. subst. exists main, rest, svcs. split; [reflexivity|]. split; [exact Es|].
  pose proof (elab_funcs_names _ _ _ _ _ _ _ Ef) as Hn. split; [exact Hn|].
  rewrite Hn. rewrite <- map_map. apply has_dup_false_nodup. rewrite map_map. exact Ed.
Qed.

(* ------------------------------------------------------------------ lookups on an elaborated struct *)

Lemma in_rev_iff {A} (x : A) l : In x (rev l) <-> In x l.
Proof. split; intros H; [apply in_rev; exact H|apply in_rev; rewrite rev_involutive; exact H]. Qed.

(* FieldByKey at specification level finds exactly the registered keys (aliases / names per MapFieldWay) *)
Theorem field_by_key_iff d k id :
  NoDup (map fst (struct_keys d)) -> (field_by_key d k = Some id <-> In (k, id) (struct_keys d)).
Proof.
  intros Hnd. unfold field_by_key. split.
  - intros H. apply assoc_in in H. apply (proj1 (in_rev_iff _ _)) in H. exact H.
  - intros H. apply in_assoc_nodup; [|apply (proj2 (in_rev_iff _ _)); exact H]. rewrite map_rev. apply NoDup_rev. exact Hnd.
Qed.

(* the structure behind FieldByKey (trie or hash, whichever Build chooses) computes field_by_key for EVERY key *)
Theorem struct_lookup_by_key d k :
  fnm_get (fnm_build (fnm_of_list (struct_keys d))) k = Some (field_by_key d k).
Proof. unfold field_by_key. apply fnm_get_of_list. Qed.

(* the structure behind FieldById computes field_by_id for EVERY id (ids are non-negative: FieldID is a uint16) *)
Theorem struct_lookup_by_id d :
  (forall md, In md (struct_fields d) -> 0 <= m_id (fst md)) ->
  exists m, fid_build (map (fun x => (m_id (fst x), fst x)) (struct_fields d)) = Some m /\
            forall id, 0 <= id -> fid_get m id = field_by_id d id.
Proof.
  intros Hpos.
  destruct (fid_get_build_last (map (fun x => (m_id (fst x), fst x)) (struct_fields d))) as [m [Hb Hg]].
  - intros id Hin. rewrite map_map in Hin. simpl in Hin. apply in_map_iff in Hin. destruct Hin as [md [<- Hin]]. apply Hpos. exact Hin.
  - exists m. split; [exact Hb|]. intros id Hid. rewrite Hg. destruct (id <? 0) eqn:E; [apply Z.ltb_lt in E; lia|].
    unfold field_by_id, assocZ_last. rewrite map_rev. reflexivity.
Qed.

Theorem field_by_id_iff d id m :
  NoDup (map (fun x => m_id (fst x)) (struct_fields d)) ->
  (field_by_id d id = Some m <-> exists t, In (m, t) (struct_fields d) /\ m_id m = id).
Proof.
  intros Hnd. unfold field_by_id.
  assert (G : forall l : list (fmeta * tdesc), NoDup (map (fun x => m_id (fst x)) l) ->
              (assocZ id (map (fun x => (m_id (fst x), fst x)) l) = Some m <-> exists t, In (m, t) l /\ m_id m = id)).
  { induction l as [|[m0 t0] l IH]; simpl.
    - intros _. split; [discriminate|intros [t [[] _]]].
    - intros Hn. inversion Hn as [|? ? Hni Hn']. subst. destruct (id =? m_id m0) eqn:E.
      + apply Z.eqb_eq in E. split.
        * intros H. inversion H. subst. exists t0. split; [left; reflexivity|reflexivity].
        * intros [t [[H|H] Hid]]; [inversion H; reflexivity|].
          exfalso. apply Hni. apply in_map_iff. exists (m, t). split; [simpl; congruence|exact H].
      + apply Z.eqb_neq in E. rewrite (IH Hn'). split.
        * intros [t [H Hid]]. exists t. split; [right; exact H|exact Hid].
        * intros [t [[H|H] Hid]]; [inversion H; subst; congruence|exists t; split; assumption]. }
  rewrite G.
  - split; intros [t [H Hid]]; exists t; (split; [|exact Hid]); [apply (proj1 (in_rev_iff _ _)); exact H|apply (proj2 (in_rev_iff _ _)); exact H].
  - rewrite map_rev. apply NoDup_rev. exact Hnd.
Qed.
