From Coq Require Import ZArith List Bool Lia.
From DG Require Import ProtoWireRef ProtoWireRefProofs CaseFormat ThriftCut ProtoCut ProtoCutProofs.
Import ListNotations.
Local Open Scope Z_scope.

(* ---- prefix stability of the primitives ---- *)
Lemma vdec_app rest : forall p k shift acc n0 v n, vdec k shift acc n0 p = (v, n) -> 0 <= n ->
  vdec k shift acc n0 (p ++ rest) = (v, n).
Proof.
  induction p as [|y r IH]; intros k shift acc n0 v n H Hn.
  - destruct k; cbn [vdec] in H; inversion H; subst; lia.
  - destruct k as [|k]; cbn [vdec app] in *.
    + exact H.
    + destruct (y <? 128); [exact H|]. apply IH; assumption.
Qed.

Lemma varint_dec_app p rest v n : varint_dec p = (v, n) -> 0 <= n -> varint_dec (p ++ rest) = (v, n).
Proof. unfold varint_dec. apply vdec_app. Qed.

Lemma skipn_app_le {A} (n : nat) (p rest : list A) : (n <= length p)%nat -> skipn n (p ++ rest) = skipn n p ++ rest.
Proof. intros H. rewrite skipn_app. replace (n - length p)%nat with O by lia. reflexivity. Qed.

Lemma firstn_app_le {A} (n : nat) (p rest : list A) : (n <= length p)%nat -> firstn n (p ++ rest) = firstn n p.
Proof. intros H. rewrite firstn_app. replace (n - length p)%nat with O by lia. cbn [firstn]. apply app_nil_r. Qed.

Lemma take_n_some n q a b : take_n n q = Some (a, b) -> q = a ++ b /\ Z.of_nat (length a) = n /\ 0 <= n.
Proof.
  unfold take_n. destruct (Z.ltb_spec n 0); [discriminate|]. destruct (Z.gtb_spec n (Z.of_nat (length q))); [discriminate|].
  cbn [orb]. intros Heq. inversion Heq; subst. split; [symmetry; apply firstn_skipn|]. split; [|lia].
  rewrite firstn_length. lia.
Qed.

Lemma take_n_app_rest n q a b rest : take_n n q = Some (a, b) -> take_n n (q ++ rest) = Some (a, b ++ rest).
Proof.
  intros H. pose proof (take_n_some _ _ _ _ H) as [Hq [Hl Hn]]. revert H. unfold take_n.
  destruct (Z.ltb_spec n 0); [discriminate|]. destruct (Z.gtb_spec n (Z.of_nat (length q))); [discriminate|]. cbn [orb].
  destruct (Z.gtb_spec n (Z.of_nat (length (q ++ rest)))); [rewrite app_length in *; lia|].
  intros Heq. inversion Heq; subst a b. f_equal. f_equal; [apply firstn_app_le|apply skipn_app_le]; lia.
Qed.

(* ---- inversion of the generic decoder ---- *)
Lemma wire_fields_nil fuel p : wire_fields fuel p = Some [] -> p = [].
Proof.
  destruct fuel as [|f]; [discriminate|]. cbn [wire_fields]. destruct p as [|b r]; [reflexivity|].
  destruct (varint_dec (b :: r)) as [v n]. destruct (n <? 0); [discriminate|].
  destruct ((v / 8 <? 1) || (v / 8 >? 2147483647)); [discriminate|].
  destruct (wire_value _ _) as [[raw rest]|]; [|discriminate]. destruct (wire_fields f rest); discriminate.
Qed.

Lemma wire_fields_cons fuel p num wt raw r : wire_fields fuel p = Some (WF num wt raw :: r) ->
  exists f v n p', fuel = S f /\ varint_dec p = (v, n) /\ 0 <= n /\ num = v / 8 /\ wt = v mod 8 /\ 1 <= num <= 2147483647 /\
                   wire_value wt (skipn (Z.to_nat n) p) = Some (raw, p') /\ wire_fields f p' = Some r /\ p <> [].
Proof.
  destruct fuel as [|f]; [discriminate|]. cbn [wire_fields]. destruct p as [|b q]; [discriminate|].
  destruct (varint_dec (b :: q)) as [v n] eqn:Ev. destruct (Z.ltb_spec n 0); [discriminate|].
  destruct (Z.ltb_spec (v / 8) 1); [discriminate|]. destruct (Z.gtb_spec (v / 8) 2147483647); [discriminate|]. cbn [orb].
  destruct (wire_value (v mod 8) (skipn (Z.to_nat n) (b :: q))) as [[raw' rest]|] eqn:Ew; [|discriminate].
  destruct (wire_fields f rest) as [l|] eqn:El; [|discriminate]. intros Heq. inversion Heq; subst.
  exists f, v, n, rest. repeat split; auto; try lia. discriminate.
Qed.

Definition small (bs : list Z) : Prop := bytes_ok bs /\ Z.of_nat (length bs) < 2 ^ 62.

Lemma bytes_ok_skipn n bs : bytes_ok bs -> bytes_ok (skipn n bs).
Proof.
  unfold bytes_ok. revert bs. induction n as [|n IH]; intros bs H; [exact H|]. destruct bs as [|b r]; [constructor|].
  cbn [skipn]. apply IH. inversion H; assumption.
Qed.

Lemma to_s64_small x : 0 <= x < 2 ^ 63 -> to_s 64 x = x.
Proof. intros H. unfold to_s. change (64 - 1) with 63. rewrite Z.mod_small by (change (2 ^ 64) with (2 * 2 ^ 63); lia). lia. Qed.

Lemma wire_value_split wt q raw q' : wire_value wt q = Some (raw, q') -> q = raw ++ q'.
Proof.
  unfold wire_value. destruct (wt =? 0).
  - destruct (varint_dec q) as [v m]. destruct (m <? 0); [discriminate|]. intros H. apply take_n_some in H. apply H.
  - destruct (wt =? 1); [intros H; apply take_n_some in H; apply H|].
    destruct (wt =? 5); [intros H; apply take_n_some in H; apply H|].
    destruct (wt =? 2); [|discriminate]. destruct (varint_dec q) as [v m]. destruct (m <? 0); [discriminate|].
    intros H. apply take_n_some in H. apply H.
Qed.

Lemma pskip_wire_value wt q raw q' rest : small q -> wire_value wt q = Some (raw, q') ->
  pskip wt (q ++ rest) = SkOk (q' ++ rest) /\ 0 <= wt < 8.
Proof.
  intros [Hb Hl]. unfold wire_value, pskip.
  destruct (Z.eqb_spec wt 0) as [->|N0].
  - destruct (varint_dec q) as [v m] eqn:Ev. destruct (Z.ltb_spec m 0); [discriminate|]. intros HW.
    rewrite (varint_dec_app q rest v m Ev) by lia. destruct (Z.ltb_spec m 0); [lia|].
    apply take_n_some in HW. destruct HW as [-> [Hm _]]. rewrite <- Hm, Nat2Z.id, <- app_assoc, skipn_app_exact. split; [reflexivity|lia].
  - destruct (Z.eqb_spec wt 1) as [->|N1].
    + cbn [Z.eqb]. intros HW. rewrite (take_n_app_rest _ _ _ _ rest HW). split; [reflexivity|lia].
    + destruct (Z.eqb_spec wt 5) as [->|N5].
      * intros HW. rewrite (take_n_app_rest _ _ _ _ rest HW). split; [reflexivity|lia].
      * destruct (Z.eqb_spec wt 2) as [->|N2]; [|discriminate].
        destruct (varint_dec q) as [len m] eqn:Ev. destruct (Z.ltb_spec m 0); [discriminate|]. intros HW.
        rewrite (varint_dec_app q rest len m Ev) by lia. destruct (Z.ltb_spec m 0); [lia|].
        pose proof (varint_dec_value q len m Hb Ev) as Hv.
        pose proof (varint_dec_result q len m Ev) as Hr.
        pose proof (take_n_some _ _ _ _ HW) as [Hq [Hlen Hn]].
        assert (Hm : 1 <= m <= Z.of_nat (length q)) by (destruct Hr as [[? ?]|[[? ?]|[? ?]]]; lia).
        assert (Hlen' : len + m <= Z.of_nat (length q)) by (rewrite Hq at 1; rewrite app_length; lia).
        destruct (Z.gtb_spec len (Z.of_nat (length (q ++ rest)) - m)); [rewrite app_length in *; lia|].
        rewrite Z.add_comm in HW. rewrite (take_n_app_rest _ _ _ _ rest HW). split; [reflexivity|lia].
Qed.

Lemma wire_fields_length : forall fuel p fs, wire_fields fuel p = Some fs -> (length fs <= length p)%nat.
Proof.
  induction fuel as [|f IH]; intros p fs H; [discriminate|]. destruct fs as [|[num wt raw] r]; [cbn; lia|].
  apply wire_fields_cons in H. destruct H as [f' [v [n [p' [Ef [Ev [Hn [_ [_ [_ [Hw [Hr _]]]]]]]]]]]]. injection Ef as <-.
  apply IH in Hr. apply wire_value_split in Hw. pose proof (varint_dec_result p v n Ev) as Hres.
  assert (Hm : 1 <= n <= Z.of_nat (length p)) by (destruct Hres as [[? ?]|[[? ?]|[? ?]]]; lia).
  assert (length (skipn (Z.to_nat n) p) = length p - Z.to_nat n)%nat by apply skipn_length.
  rewrite Hw in H. rewrite app_length in H. cbn [length]. lia.
Qed.

Lemma enc_tree_msg num wt kids :
  enc_tree (TMsg num wt kids) = varint_enc (num * 8 + wt) ++ varint_enc (Z.of_nat (length (enc_forest kids))) ++ enc_forest kids.
Proof.
  cbn [enc_tree].
  assert (E : (fix go (l : list wtree) : list Z := match l with [] => [] | k :: r => enc_tree k ++ go r end) kids = enc_forest kids).
  { unfold enc_forest. induction kids as [|k r IH]; [reflexivity|]. cbn [flat_map]. rewrite <- IH. reflexivity. }
  rewrite E. reflexivity.
Qed.

Lemma small_skipn n q : small q -> small (skipn n q).
Proof.
  intros [Hb Hl]. split; [apply bytes_ok_skipn; exact Hb|]. rewrite skipn_length. lia.
Qed.
Lemma small_app_r a b : small (a ++ b) -> small b.
Proof.
  intros [Hb Hl]. split; [unfold bytes_ok in *; apply Forall_app in Hb; apply Hb|]. rewrite app_length in Hl. lia.
Qed.
Lemma small_app_l a b : small (a ++ b) -> small a.
Proof.
  intros [Hb Hl]. split; [unfold bytes_ok in *; apply Forall_app in Hb; apply Hb|]. rewrite app_length in Hl. lia.
Qed.

Lemma vdec_prefix b : forall a k shift acc n0 v n, vdec k shift acc n0 (a ++ b) = (v, n) -> 0 <= n -> n - n0 <= Z.of_nat (length a) ->
  vdec k shift acc n0 a = (v, n).
Proof.
  induction a as [|y r IH]; intros k shift acc n0 v n H Hn Hl.
  - apply vdec_result in H. cbn [length] in Hl. destruct H as [[? ?]|[[? ?]|[? ?]]]; lia.
  - destruct k as [|k]; cbn [vdec app] in *.
    + exact H.
    + destruct (y <? 128); [exact H|]. apply IH; [exact H|exact Hn|]. cbn [length] in Hl. lia.
Qed.

Lemma varint_dec_prefix a b v n : varint_dec (a ++ b) = (v, n) -> 0 <= n -> n <= Z.of_nat (length a) -> varint_dec a = (v, n).
Proof. unfold varint_dec. intros H Hn Hl. apply (vdec_prefix b); auto. lia. Qed.

Lemma firstn_app_exact' {A} (a r : list A) : firstn (length (a ++ r) - length r) (a ++ r) = a.
Proof.
  rewrite app_length, Nat.add_sub. rewrite firstn_app, Nat.sub_diag, firstn_all. cbn [firstn]. apply app_nil_r.
Qed.

Section Refine.
  Variable d : pdefs.
  Variable dis : bool.

  Definition sub_ok (f : nat) : Prop := forall fi ti p rest forest,
    small (p ++ rest) -> pproject d dis f fi ti p = COk forest ->
    pbcut d dis false f fi ti (p ++ rest) (Z.of_nat (length rest)) = (0, rest, enc_forest forest).

  Lemma ptag_field p rest v n : varint_dec p = (v, n) -> 0 <= n -> 1 <= v / 8 <= 2147483647 ->
    ptag (p ++ rest) = Some (v / 8, v mod 8, skipn (Z.to_nat n) p ++ rest).
  Proof.
    intros Ev Hn Hnum. unfold ptag. rewrite (varint_dec_app p rest v n Ev Hn).
    destruct (Z.ltb_spec n 0); [lia|]. destruct (Z.gtb_spec (v / 8) 2147483647); [lia|]. destruct (Z.ltb_spec (v / 8) 1); [lia|].
    pose proof (varint_dec_result p v n Ev) as Hres.
    rewrite skipn_app_le by (destruct Hres as [[? ?]|[[? ?]|[? ?]]]; lia). reflexivity.
  Qed.

  Lemma pb_loop_refines f ffs tfs rest : sub_ok f ->
    forall fs wf p lf out forest, small (p ++ rest) ->
    wire_fields wf p = Some fs ->
    pproj_fields dis (pproject d dis f) ffs tfs fs = COk forest ->
    (length fs < lf)%nat ->
    pb_loop dis false (pbcut d dis false f) lf ffs tfs (p ++ rest) (Z.of_nat (length rest)) out = (0, rest, out ++ enc_forest forest).
  Proof.
    intros Hsub. induction fs as [|[num wt raw] r IH]; intros wf p lf out forest Hsm Hw Hp Hlf;
    (destruct lf as [|lf]; [cbn in Hlf; lia|]).
    - apply wire_fields_nil in Hw. subst p. cbn [pproj_fields] in Hp. inversion Hp; subst forest.
      cbn [pb_loop app]. rewrite Z.leb_refl. unfold enc_forest. cbn [flat_map]. rewrite app_nil_r. reflexivity.
    - apply wire_fields_cons in Hw. destruct Hw as [wf' [v [n [p' [-> [Ev [Hn [-> [-> [Hnum [Hwv [Hr Hne]]]]]]]]]]]].
      set (q := skipn (Z.to_nat n) p) in *.
      assert (Hsq : small (q ++ rest)).
      { pose proof (varint_dec_result p v n Ev) as Hres. unfold q. rewrite <- skipn_app_le by (destruct Hres as [[? ?]|[[? ?]|[? ?]]]; lia).
        apply small_skipn. exact Hsm. }
      pose proof (wire_value_split _ _ _ _ Hwv) as Hq.
      destruct (pskip_wire_value _ _ _ _ rest (small_app_l _ _ Hsq) Hwv) as [Hskip Hwt].
      assert (Hsp' : small (p' ++ rest)). { rewrite Hq, <- app_assoc in Hsq. apply (small_app_r _ _ Hsq). }
      cbn [pb_loop].
      destruct (Z.leb_spec (Z.of_nat (length (p ++ rest))) (Z.of_nat (length rest))) as [Hle|_].
      { exfalso. rewrite app_length in Hle. destruct p; [contradiction|cbn [length] in Hle; lia]. }
      rewrite (ptag_field p rest v n Ev Hn Hnum). fold q.
      cbn [pproj_fields] in Hp.
      assert (IHr : forall out' forest', pproj_fields dis (pproject d dis f) ffs tfs r = COk forest' ->
                pb_loop dis false (pbcut d dis false f) lf ffs tfs (p' ++ rest) (Z.of_nat (length rest)) out' = (0, rest, out' ++ enc_forest forest')).
      { intros out' forest' Hf'. apply (IH wf' p' lf out' forest' Hsp' Hr Hf'). cbn in Hlf. lia. }
      rewrite Hskip.
      destruct (pfind (v / 8) ffs) as [ff|].
      2:{ destruct dis; [discriminate|]. apply IHr. exact Hp. }
      destruct (pfind (v / 8) tfs) as [tf|]; [|apply IHr; exact Hp].
      destruct (negb (pf_kind ff =? pf_kind tf)); [discriminate|].
      destruct (pf_kind ff =? K_MESSAGE).
      + (* message-kind field: descend with the recomputed length *)
        destruct (Z.eqb_spec (v mod 8) 2) as [E2|]; cbn [negb] in Hp; [|discriminate].
        destruct (pproject d dis f (pf_sub ff) (pf_sub tf) (payload raw)) as [kids|] eqn:Ek; [|discriminate].
        destruct (pproj_fields dis (pproject d dis f) ffs tfs r) as [l|] eqn:El; [|discriminate]. inversion Hp; subst forest.
        unfold wire_value in Hwv. rewrite E2 in Hwv. cbn [Z.eqb] in Hwv.
        destruct (varint_dec q) as [len m] eqn:Evq. destruct (Z.ltb_spec m 0); [discriminate|].
        rewrite (varint_dec_app q rest len m Evq) by lia. destruct (Z.ltb_spec m 0); [lia|].
        pose proof (take_n_some _ _ _ _ Hwv) as [_ [Hlraw _]].
        pose proof (varint_dec_value q len m (proj1 (small_app_l _ _ Hsq)) Evq) as Hv.
        pose proof (varint_dec_result q len m Evq) as Hres.
        assert (Hm : 1 <= m) by (destruct Hres as [[? ?]|[[? ?]|[? ?]]]; lia).
        assert (Hraw : varint_dec raw = (len, m)).
        { apply (varint_dec_prefix raw p'); [rewrite <- Hq; exact Evq|lia|lia]. }
        assert (Hpay : payload raw = skipn (Z.to_nat m) raw) by (unfold payload; rewrite Hraw; reflexivity).
        assert (Hlp : Z.of_nat (length (payload raw)) = len) by (rewrite Hpay, skipn_length; lia).
        assert (Hsk : skipn (Z.to_nat m) (q ++ rest) = payload raw ++ (p' ++ rest)).
        { rewrite Hq, <- app_assoc. rewrite skipn_app_le by lia. rewrite Hpay. reflexivity. }
        rewrite Hsk.
        assert (Hsmall_len : len < 2 ^ 62).
        { destruct Hsq as [_ Hl]. rewrite Hq in Hl. rewrite !app_length in Hl. lia. }
        rewrite to_s64_small by lia.
        replace (Z.of_nat (length (payload raw ++ p' ++ rest)) - len) with (Z.of_nat (length (p' ++ rest)))
          by (rewrite (app_length (payload raw)); lia).
        rewrite (Hsub (pf_sub ff) (pf_sub tf) (payload raw) (p' ++ rest) kids); [|rewrite <- Hsk; apply small_skipn; exact Hsq|exact Ek].
        cbn [Z.eqb negb andb]. rewrite (IHr _ l eq_refl).
        change (enc_forest (TMsg (v / 8) (v mod 8) kids :: l)) with (enc_tree (TMsg (v / 8) (v mod 8) kids) ++ enc_forest l). rewrite enc_tree_msg.
        rewrite Z.mod_mod by lia. rewrite <- !app_assoc. reflexivity.
      + (* scalar-kind field: raw copy *)
        destruct (pproj_fields dis (pproject d dis f) ffs tfs r) as [l|] eqn:El; [|discriminate]. inversion Hp; subst forest.
        rewrite (IHr _ l eq_refl).
        assert (Hcopy : firstn (length (q ++ rest) - length (p' ++ rest)) (q ++ rest) = raw).
        { rewrite Hq, <- app_assoc. apply firstn_app_exact'. }
        rewrite Hcopy. change (enc_forest (TLeaf (v / 8) (v mod 8) raw :: l)) with (enc_tree (TLeaf (v / 8) (v mod 8) raw) ++ enc_forest l). cbn [enc_tree].
        rewrite Z.mod_mod by lia. rewrite <- !app_assoc. reflexivity.
  Qed.

  (* marshalTo (repaired: inner errors propagated) on a message the projection of which exists: the output is exactly the
     encoding of the projected wire tree (tags re-encoded, lengths recomputed), the input is consumed up to the tail *)
  Theorem pbcut_refines_pproject : forall fuel, sub_ok fuel.
  Proof.
    induction fuel as [|f IH]; intros fi ti p rest forest Hsm Hp; [discriminate|].
    cbn [pproject] in Hp. cbn [pbcut].
    destruct (pmsg_def d fi) as [ffs|]; [|discriminate]. destruct (pmsg_def d ti) as [tfs|]; [|discriminate].
    destruct (wire_fields (S (length p)) p) as [fs|] eqn:Ew; [|discriminate].
    rewrite (pb_loop_refines f ffs tfs rest IH fs _ p _ [] forest Hsm Ew Hp); [reflexivity|].
    pose proof (wire_fields_length _ _ _ Ew). rewrite app_length. lia.
  Qed.

  Corollary pbcut_whole_message fuel fi ti bs forest : small bs -> pproject d dis fuel fi ti bs = COk forest ->
    pbcut d dis false fuel fi ti bs 0 = (0, [], enc_forest forest).
  Proof.
    intros Hs Hp. pose proof (pbcut_refines_pproject fuel fi ti bs [] forest) as H. rewrite app_nil_r in H. apply H; assumption.
  Qed.
End Refine.

(* ================================================================== full refinement: success AND failure *)
Definition nilb {A} (l : list A) : bool := match l with [] => true | _ => false end.
Definition cls (r : pres) : Z := fst (fst r).

(* what the byte-level walker must do when the sequential spec says [spec]: on success the exact output and consumption,
   on an error of the domain (1 unknown field, 2 kind mismatch, 4 malformed / truncated) the same error class;
   5 = input outside the domain, nothing is claimed *)
Definition agrees (spec : cres (list wtree)) (beyond out : list Z) (r : pres) : Prop :=
  match spec with
  | COk forest => r = (0, beyond, out ++ enc_forest forest)
  | CErr c => c = 5 \/ (cls r = c /\ c <> 0)
  end.

Lemma nilb_app {A} (a b : list A) : nilb (a ++ b) = nilb b && nilb a.
Proof. destruct a, b; reflexivity. Qed.
Lemma nilb_true {A} (l : list A) : nilb l = true -> l = [].
Proof. destruct l; [reflexivity|discriminate]. Qed.

Lemma wire_value_none_pskip wt q : bytes_ok q -> (wt = 0 \/ wt = 1 \/ wt = 2 \/ wt = 5) -> wire_value wt q = None -> pskip wt q = SkErr.
Proof.
  intros Hb Hwt. unfold wire_value, pskip. destruct Hwt as [ -> | [ -> | [ -> | -> ]]]; cbn [Z.eqb Pos.eqb].
  - destruct (varint_dec q) as [v m] eqn:Ev. destruct (Z.ltb_spec m 0); [reflexivity|]. intros HN.
    exfalso. pose proof (varint_dec_result q v m Ev) as Hr. unfold take_n in HN.
    destruct (Z.ltb_spec m 0); [lia|]. destruct (Z.gtb_spec m (Z.of_nat (length q))); [|discriminate].
    destruct Hr as [[? ?]|[[? ?]|[? ?]]]; lia.
  - intros HN. rewrite HN. reflexivity.
  - destruct (varint_dec q) as [len m] eqn:Ev. destruct (Z.ltb_spec m 0); [reflexivity|]. intros HN.
    destruct (Z.gtb_spec len (Z.of_nat (length q) - m)); [reflexivity|]. rewrite Z.add_comm, HN. reflexivity.
  - intros HN. rewrite HN. reflexivity.
Qed.

Section Full.
  Variable d : pdefs.
  Variable dis : bool.

  Lemma pspec_loop_inc_never_ok rec : (forall fi ti bs be l, rec fi ti bs true be <> COk l) ->
    forall fuel ffs tfs bs be l, pspec_loop dis rec fuel ffs tfs bs true be <> COk l.
  Proof.
    intros Hrec. induction fuel as [|f IH]; intros ffs tfs bs be l; [discriminate|]. cbn [pspec_loop].
    destruct (wire_tag bs) as [| | |num wt r]; try (destruct be; discriminate); try discriminate.
    assert (Hskip : forall l', match wire_value wt r with Some (_, rest) => pspec_loop dis rec f ffs tfs rest true be | None => if be then CErr 4 else CErr 5 end <> COk l').
    { intros l'. destruct (wire_value wt r) as [[? rest]|]; [apply IH|destruct be; discriminate]. }
    destruct (pfind num ffs) as [ff|]; [|destruct dis; [discriminate|apply Hskip]].
    destruct (pfind num tfs) as [tf|]; [|apply Hskip].
    destruct (negb _); [discriminate|]. destruct (_ =? K_MESSAGE).
    - destruct (negb _); [discriminate|]. destruct (varint_dec r) as [len n]. destruct (n <? 0); [destruct be; discriminate|].
      destruct (len >=? 2 ^ 63); [discriminate|]. destruct (len <=? _).
      + destruct (rec _ _ _ _ _); [|discriminate].
        destruct (pspec_loop dis rec f ffs tfs _ true be) eqn:E; [exfalso; exact (IH _ _ _ _ _ E)|discriminate].
      + destruct be; [|discriminate]. destruct (rec _ _ _ _ _); discriminate.
    - destruct (wire_value wt r) as [[raw rest]|]; [|destruct be; discriminate].
      destruct (pspec_loop dis rec f ffs tfs rest true be) eqn:E; [exfalso; exact (IH _ _ _ _ _ E)|discriminate].
  Qed.

  Lemma pspec_inc_never_ok : forall fuel fi ti bs be l, pspec d dis fuel fi ti bs true be <> COk l.
  Proof.
    induction fuel as [|f IH]; intros fi ti bs be l; [discriminate|]. cbn [pspec].
    destruct (pmsg_def d fi); [|discriminate]. destruct (pmsg_def d ti); [|discriminate].
    apply pspec_loop_inc_never_ok. intros. apply IH.
  Qed.

  Definition sub_agrees (f : nat) : Prop := forall fi ti frame beyond inc stop,
    small (frame ++ beyond) -> (inc = true -> beyond = [] /\ stop < 0) -> (inc = false -> stop = Z.of_nat (length beyond)) ->
    agrees (pspec d dis f fi ti frame inc (nilb beyond)) beyond [] (pbcut d dis false f fi ti (frame ++ beyond) stop).

  Lemma wire_tag_cases bs :
    match wire_tag bs with
    | TgEnd => bs = []
    | TgBad => bs <> [] /\ ptag bs = None
    | TgOut => True
    | TgOk num wt r => bs <> [] /\ exists v n, varint_dec bs = (v, n) /\ 0 <= n /\ num = v / 8 /\ wt = v mod 8 /\ 1 <= num <= 2147483647 /\
                       r = skipn (Z.to_nat n) bs /\ (wt = 0 \/ wt = 1 \/ wt = 2 \/ wt = 5)
    end.
  Proof.
    unfold wire_tag, ptag. destruct bs as [|b q]; [reflexivity|].
    destruct (varint_dec (b :: q)) as [v n] eqn:Ev. destruct (Z.ltb_spec n 0); [split; [discriminate|reflexivity]|].
    destruct (Z.ltb_spec (v / 8) 1); cbn [orb].
    { split; [discriminate|]. destruct (v / 8 >? 2147483647); reflexivity. }
    destruct (Z.gtb_spec (v / 8) 2147483647); [split; [discriminate|reflexivity]|].
    assert (Hm : 0 <= v mod 8 < 8) by (apply Z.mod_pos_bound; lia).
    destruct (Z.eqb_spec (v mod 8) 3); [exact I|]. destruct (Z.eqb_spec (v mod 8) 4); [exact I|].
    destruct (Z.eqb_spec (v mod 8) 6); [exact I|]. destruct (Z.eqb_spec (v mod 8) 7); [exact I|]. cbn [orb].
    split; [discriminate|]. exists v, n. repeat split; auto; try lia.
  Qed.

  Lemma pb_loop_agrees f ffs tfs : sub_agrees f ->
    forall sf frame lf out beyond inc stop,
    small (frame ++ beyond) -> (inc = true -> beyond = [] /\ stop < 0) -> (inc = false -> stop = Z.of_nat (length beyond)) ->
    (length frame < lf)%nat ->
    agrees (pspec_loop dis (pspec d dis f) sf ffs tfs frame inc (nilb beyond)) beyond out
           (pb_loop dis false (pbcut d dis false f) lf ffs tfs (frame ++ beyond) stop out).
  Proof.
    intros Hsub. induction sf as [|sf IH]; intros frame lf out beyond inc stop Hsm Hinc Hcomp Hlf; [left; reflexivity|].
    destruct lf as [|lf]; [lia|]. cbn [pspec_loop pb_loop].
    set (be := nilb beyond) in *.
    assert (Hbe : be = true -> beyond = []) by (apply nilb_true).
    pose proof (wire_tag_cases frame) as Htag. destruct (wire_tag frame) as [| | |num wt r].
    - (* end of the frame *) subst frame. cbn [app]. destruct inc.
      + destruct (Hinc eq_refl) as [-> Hst]. cbn [length]. destruct (Z.leb_spec (Z.of_nat 0) stop); [lia|].
        cbn. right. split; [reflexivity|discriminate].
      + rewrite (Hcomp eq_refl), Z.leb_refl. unfold agrees, enc_forest. cbn [flat_map]. rewrite app_nil_r. reflexivity.
    - (* malformed tag *) destruct Htag as [Hne Hpt]. destruct be eqn:Eb; [|left; reflexivity].
      rewrite (Hbe eq_refl), app_nil_r in *. right.
      destruct (Z.leb_spec (Z.of_nat (length frame)) stop) as [Hle|_].
      { exfalso. destruct inc; [destruct (Hinc eq_refl); lia|rewrite (Hcomp eq_refl) in Hle; destruct frame; [contradiction|cbn [length] in Hle; lia]]. }
      rewrite Hpt. split; [reflexivity|discriminate].
    - left; reflexivity.
    - destruct Htag as [Hne [v [n [Ev [Hn [-> [-> [Hnum [-> Hwt]]]]]]]]].
      set (r := skipn (Z.to_nat n) frame) in *.
      destruct (Z.leb_spec (Z.of_nat (length (frame ++ beyond))) stop) as [Hle|_].
      { exfalso. rewrite app_length in Hle. destruct inc; [destruct (Hinc eq_refl); lia|rewrite (Hcomp eq_refl) in Hle; destruct frame; [contradiction|cbn [length] in Hle; lia]]. }
      assert (Hpt : ptag (frame ++ beyond) = Some (v / 8, v mod 8, r ++ beyond)).
      { unfold ptag. rewrite (varint_dec_app frame beyond v n Ev Hn). destruct (Z.ltb_spec n 0); [lia|].
        destruct (Z.gtb_spec (v / 8) 2147483647); [lia|]. destruct (Z.ltb_spec (v / 8) 1); [lia|].
        pose proof (varint_dec_result frame v n Ev) as Hres. unfold r.
        rewrite skipn_app_le by (destruct Hres as [[? ?]|[[? ?]|[? ?]]]; lia). reflexivity. }
      rewrite Hpt.
      pose proof (varint_dec_result frame v n Ev) as Hres.
      assert (Hn1 : 1 <= n <= Z.of_nat (length frame)) by (destruct Hres as [[? ?]|[[? ?]|[? ?]]]; lia).
      assert (Hsr : small (r ++ beyond)).
      { unfold r. rewrite <- skipn_app_le by lia. apply small_skipn. exact Hsm. }
      assert (Hrlen : (length r < length frame)%nat) by (unfold r; rewrite skipn_length; lia).
      (* the three ways a step ends *)
      assert (Hbad : forall res, (be = true -> cls res = 4) -> agrees (if be then CErr 4 else CErr 5) beyond out res).
      { intros res Hres4. destruct be; [right; split; [apply Hres4; reflexivity|discriminate]|left; reflexivity]. }
      assert (Hcont : forall rest out', (length rest <= length r)%nat -> small (rest ++ beyond) ->
                agrees (pspec_loop dis (pspec d dis f) sf ffs tfs rest inc be) beyond out'
                       (pb_loop dis false (pbcut d dis false f) lf ffs tfs (rest ++ beyond) stop out')).
      { intros rest out' Hl Hs. apply IH; auto. lia. }
      assert (Hskip : agrees (match wire_value (v mod 8) r with
                              | Some (_, rest) => pspec_loop dis (pspec d dis f) sf ffs tfs rest inc be
                              | None => if be then CErr 4 else CErr 5 end) beyond out
                             (match pskip (v mod 8) (r ++ beyond) with
                              | SkOk r' => pb_loop dis false (pbcut d dis false f) lf ffs tfs r' stop out
                              | SkErr => (4, r ++ beyond, out) end)).
      { destruct (wire_value (v mod 8) r) as [[raw rest]|] eqn:Ewv.
        - destruct (pskip_wire_value _ _ _ _ beyond (small_app_l _ _ Hsr) Ewv) as [-> _].
          pose proof (wire_value_split _ _ _ _ Ewv) as Hq.
          apply Hcont; [rewrite Hq, app_length; lia|]. rewrite Hq, <- app_assoc in Hsr. apply (small_app_r _ _ Hsr).
        - apply Hbad. intros Eb. rewrite (Hbe Eb), app_nil_r.
          rewrite (wire_value_none_pskip _ _ (proj1 (small_app_l _ _ Hsr)) Hwt Ewv). reflexivity. }
      destruct (pfind (v / 8) ffs) as [ff|].
      2:{ destruct dis; [right; split; [reflexivity|discriminate]|exact Hskip]. }
      destruct (pfind (v / 8) tfs) as [tf|]; [|exact Hskip].
      destruct (negb (pf_kind ff =? pf_kind tf)); [right; split; [reflexivity|discriminate]|].
      destruct (pf_kind ff =? K_MESSAGE).
      + (* message-kind field *)
        destruct (Z.eqb_spec (v mod 8) 2) as [E2|]; cbn [negb]; [|left; reflexivity].
        destruct (varint_dec r) as [len m] eqn:Evr.
        destruct (Z.ltb_spec m 0) as [Hm|Hm].
        { apply Hbad. intros Eb. rewrite (Hbe Eb), app_nil_r, Evr. destruct (Z.ltb_spec m 0); [reflexivity|lia]. }
        rewrite (varint_dec_app r beyond len m Evr Hm). destruct (Z.ltb_spec m 0); [lia|].
        destruct (Z.geb_spec len (2 ^ 63)) as [|Hl63]; [left; reflexivity|].
        pose proof (varint_dec_value r len m (proj1 (small_app_l _ _ Hsr)) Evr) as Hv.
        pose proof (varint_dec_result r len m Evr) as Hresr.
        assert (Hm1 : 1 <= m <= Z.of_nat (length r)) by (destruct Hresr as [[? ?]|[[? ?]|[? ?]]]; lia).
        rewrite to_s64_small by lia.
        set (r2 := skipn (Z.to_nat m) r) in *.
        assert (Hr2 : skipn (Z.to_nat m) (r ++ beyond) = r2 ++ beyond) by (unfold r2; apply skipn_app_le; lia).
        rewrite Hr2.
        assert (Hsr2 : small (r2 ++ beyond)) by (rewrite <- Hr2; apply small_skipn; exact Hsr).
        assert (Hr2len : (length r2 < length r)%nat) by (unfold r2; rewrite skipn_length; lia).
        destruct (Z.leb_spec len (Z.of_nat (length r2))) as [Hfit|Hover].
        * (* the sub message fits into the frame *)
          set (cf := firstn (Z.to_nat len) r2). set (after := skipn (Z.to_nat len) r2).
          assert (Hsplit : r2 = cf ++ after) by (symmetry; apply firstn_skipn).
          assert (Hcfl : Z.of_nat (length cf) = len) by (unfold cf; rewrite firstn_length; lia).
          assert (Hnb : be && match after with [] => true | _ :: _ => false end = nilb (after ++ beyond)).
          { rewrite nilb_app. unfold be. destruct (nilb beyond), after; reflexivity. }
          rewrite Hnb.
          pose proof (Hsub (pf_sub ff) (pf_sub tf) cf (after ++ beyond) false (Z.of_nat (length (r2 ++ beyond)) - len)) as Hs.
          rewrite app_assoc, <- Hsplit in Hs.
          specialize (Hs Hsr2 ltac:(discriminate) ltac:(intros _; rewrite Hsplit at 1; rewrite <- app_assoc, (app_length cf); lia)).
          destruct (pspec d dis f (pf_sub ff) (pf_sub tf) cf false (nilb (after ++ beyond))) as [kids|c].
          -- cbn [agrees] in Hs. rewrite Hs. cbn [Z.eqb negb andb app].
             assert (Hal : (length after <= length r)%nat) by (unfold after; rewrite skipn_length; lia).
             assert (Hsa : small (after ++ beyond)). { rewrite Hsplit, <- app_assoc in Hsr2. apply (small_app_r _ _ Hsr2). }
             pose proof (Hcont after ((out ++ varint_enc (v / 8 * 8 + (v mod 8) mod 8)) ++ varint_enc (Z.of_nat (length (enc_forest kids))) ++ enc_forest kids) Hal Hsa) as Hc.
             destruct (pspec_loop dis (pspec d dis f) sf ffs tfs after inc be) as [l|c]; [|exact Hc].
             cbn [agrees] in *. rewrite Hc.
             change (enc_forest (TMsg (v / 8) (v mod 8) kids :: l)) with (enc_tree (TMsg (v / 8) (v mod 8) kids) ++ enc_forest l).
             rewrite enc_tree_msg. rewrite Z.mod_mod by lia. rewrite <- !app_assoc. reflexivity.
          -- destruct Hs as [->|[Hc Hc0]]; [left; reflexivity|]. right. split; [|exact Hc0].
             destruct (pbcut d dis false f (pf_sub ff) (pf_sub tf) (r2 ++ beyond) (Z.of_nat (length (r2 ++ beyond)) - len)) as [[c' r3] o2].
             cbn [cls fst] in Hc. subst c'. destruct (Z.eqb_spec c 0); [contradiction|]. reflexivity.
        * (* the sub message overruns the frame *)
          destruct (Z.leb_spec len (Z.of_nat (length r2))); [lia|].
          destruct be eqn:Eb; [|left; reflexivity]. rewrite (Hbe eq_refl), app_nil_r in *.
          pose proof (Hsub (pf_sub ff) (pf_sub tf) r2 [] true (Z.of_nat (length r2) - len)) as Hs. rewrite app_nil_r in Hs.
          specialize (Hs Hsr2 ltac:(intros _; split; [reflexivity|lia]) ltac:(discriminate)). cbn [nilb] in Hs.
          destruct (pspec d dis f (pf_sub ff) (pf_sub tf) r2 true true) as [kids|c] eqn:Es; [exfalso; exact (pspec_inc_never_ok _ _ _ _ _ _ Es)|].
          destruct Hs as [->|[Hc Hc0]]; [left; reflexivity|]. right. split; [|exact Hc0].
          destruct (pbcut d dis false f (pf_sub ff) (pf_sub tf) r2 (Z.of_nat (length r2) - len)) as [[c' r3] o2].
          cbn [cls fst] in Hc. subst c'. destruct (Z.eqb_spec c 0); [contradiction|]. reflexivity.
      + (* scalar-kind field: raw copy of the record *)
        destruct (wire_value (v mod 8) r) as [[raw rest]|] eqn:Ewv.
        * destruct (pskip_wire_value _ _ _ _ beyond (small_app_l _ _ Hsr) Ewv) as [-> Hw8].
          pose proof (wire_value_split _ _ _ _ Ewv) as Hq.
          assert (Hcopy : firstn (length (r ++ beyond) - length (rest ++ beyond)) (r ++ beyond) = raw).
          { rewrite Hq, <- app_assoc. apply firstn_app_exact'. }
          rewrite Hcopy.
          assert (Hl : (length rest <= length r)%nat) by (rewrite Hq, app_length; lia).
          assert (Hs : small (rest ++ beyond)). { rewrite Hq, <- app_assoc in Hsr. apply (small_app_r _ _ Hsr). }
          pose proof (Hcont rest (out ++ varint_enc (v / 8 * 8 + (v mod 8) mod 8) ++ raw) Hl Hs) as Hc.
          destruct (pspec_loop dis (pspec d dis f) sf ffs tfs rest inc be) as [l|c]; [|exact Hc].
          cbn [agrees] in *. rewrite Hc.
          change (enc_forest (TLeaf (v / 8) (v mod 8) raw :: l)) with (enc_tree (TLeaf (v / 8) (v mod 8) raw) ++ enc_forest l).
          cbn [enc_tree]. rewrite Z.mod_mod by lia. rewrite <- !app_assoc. reflexivity.
        * apply Hbad. intros Eb. rewrite (Hbe Eb), app_nil_r.
          rewrite (wire_value_none_pskip _ _ (proj1 (small_app_l _ _ Hsr)) Hwt Ewv). reflexivity.
  Qed.

  (* FULL REFINEMENT: for every frame of the domain, complete or truncated, at every nesting depth, the byte-level walker
     (mirror of marshalTo) yields exactly the encoding of the projection and consumes exactly the frame when the sequential
     spec succeeds, and fails with the spec's error class when the spec fails *)
  Theorem pbcut_refines_pspec : forall fuel, sub_agrees fuel.
  Proof.
    induction fuel as [|f IH]; intros fi ti frame beyond inc stop Hsm Hinc Hcomp; [left; reflexivity|].
    cbn [pspec pbcut].
    destruct (pmsg_def d fi) as [ffs|]; [|left; reflexivity]. destruct (pmsg_def d ti) as [tfs|]; [|left; reflexivity].
    apply (pb_loop_agrees f ffs tfs IH); auto. rewrite app_length. lia.
  Qed.
End Full.

(* ================================================================== the sequential spec succeeds only with the declarative projection *)
Lemma bytes_ok_firstn n bs : bytes_ok bs -> bytes_ok (firstn n bs).
Proof.
  unfold bytes_ok. revert bs. induction n as [|n IH]; intros bs H; [constructor|]. destruct bs as [|b r]; [constructor|].
  cbn [firstn]. inversion H; subst. constructor; auto.
Qed.
Lemma bytes_ok_app_r a b : bytes_ok (a ++ b) -> bytes_ok b.
Proof. unfold bytes_ok. intros H. apply Forall_app in H. apply H. Qed.

Lemma skipn_skipn' {A} (a b : nat) (l : list A) : skipn a (skipn b l) = skipn (b + a) l.
Proof.
  revert l. induction b as [|b IH]; intros l; [reflexivity|]. destruct l as [|x r]; [cbn; destruct a; reflexivity|]. cbn [skipn Nat.add]. apply IH.
Qed.

Section Bridge.
  Variable d : pdefs.
  Variable dis : bool.

  Lemma pspec_loop_ok_pproj f ffs tfs :
    (forall fi ti bs be l, bytes_ok bs -> pspec d dis f fi ti bs false be = COk l -> pproject d dis f fi ti bs = COk l) ->
    forall sf bs be forest, bytes_ok bs -> pspec_loop dis (pspec d dis f) sf ffs tfs bs false be = COk forest ->
    forall wf, (length bs < wf)%nat ->
    exists fs, wire_fields wf bs = Some fs /\ pproj_fields dis (pproject d dis f) ffs tfs fs = COk forest.
  Proof.
    intros Hrec. induction sf as [|sf IH]; intros bs be forest Hb H wf Hwf; [discriminate|].
    destruct wf as [|wf]; [lia|]. cbn [pspec_loop] in H.
    pose proof (wire_tag_cases bs) as Htag. destruct (wire_tag bs) as [| | |num wt r].
    - subst bs. inversion H; subst. exists []. split; reflexivity.
    - destruct be; discriminate.
    - discriminate.
    - destruct Htag as [Hne [v [n [Ev [Hn [-> [-> [Hnum [-> Hwt]]]]]]]]].
      set (r := skipn (Z.to_nat n) bs) in *.
      pose proof (varint_dec_result bs v n Ev) as Hres.
      assert (Hn1 : 1 <= n <= Z.of_nat (length bs)) by (destruct Hres as [[? ?]|[[? ?]|[? ?]]]; lia).
      assert (Hrl : (length r < length bs)%nat) by (unfold r; rewrite skipn_length; lia).
      assert (Hbr : bytes_ok r) by (unfold r; apply bytes_ok_skipn; exact Hb).
      (* one step of the generic decoder *)
      assert (Hstep : forall raw rest fs', wire_value (v mod 8) r = Some (raw, rest) -> wire_fields wf rest = Some fs' ->
                wire_fields (S wf) bs = Some (WF (v / 8) (v mod 8) raw :: fs')).
      { intros raw rest fs' Hv Hf. cbn [wire_fields]. destruct bs as [|b0 q]; [contradiction|]. rewrite Ev.
        destruct (Z.ltb_spec n 0); [lia|]. destruct (Z.ltb_spec (v / 8) 1); [lia|]. destruct (Z.gtb_spec (v / 8) 2147483647); [lia|].
        cbn [orb]. fold r. rewrite Hv, Hf. reflexivity. }
      assert (Hskip : forall l, match wire_value (v mod 8) r with
                                | Some (_, rest) => pspec_loop dis (pspec d dis f) sf ffs tfs rest false be
                                | None => if be then CErr 4 else CErr 5 end = COk l ->
                exists raw rest fs', wire_value (v mod 8) r = Some (raw, rest) /\ wire_fields wf rest = Some fs' /\
                                     pproj_fields dis (pproject d dis f) ffs tfs fs' = COk l).
      { intros l Hl. destruct (wire_value (v mod 8) r) as [[raw rest]|] eqn:Ewv; [|destruct be; discriminate].
        pose proof (wire_value_split _ _ _ _ Ewv) as Hq.
        destruct (IH rest be l ltac:(rewrite Hq in Hbr; apply (bytes_ok_app_r _ _ Hbr)) Hl wf) as [fs' [Hf Hp]]; [rewrite Hq, app_length in Hrl; lia|].
        exists raw, rest, fs'. auto. }
      destruct (pfind (v / 8) ffs) as [ff|] eqn:Eff.
      2:{ destruct dis eqn:Ed; [discriminate|]. destruct (Hskip forest H) as [raw [rest [fs' [Hv [Hf Hp]]]]].
          exists (WF (v / 8) (v mod 8) raw :: fs'). split; [apply (Hstep raw rest fs' Hv Hf)|]. cbn [pproj_fields]. rewrite Eff. exact Hp. }
      destruct (pfind (v / 8) tfs) as [tf|] eqn:Etf.
      2:{ destruct (Hskip forest H) as [raw [rest [fs' [Hv [Hf Hp]]]]].
          exists (WF (v / 8) (v mod 8) raw :: fs'). split; [apply (Hstep raw rest fs' Hv Hf)|]. cbn [pproj_fields]. rewrite Eff, Etf. exact Hp. }
      destruct (negb (pf_kind ff =? pf_kind tf)) eqn:Ek; [discriminate|].
      destruct (pf_kind ff =? K_MESSAGE) eqn:Em.
      + destruct (Z.eqb_spec (v mod 8) 2) as [E2|]; cbn [negb] in H; [|discriminate].
        destruct (varint_dec r) as [len m] eqn:Evr. destruct (Z.ltb_spec m 0); [destruct be; discriminate|].
        destruct (Z.geb_spec len (2 ^ 63)); [discriminate|].
        pose proof (varint_dec_result r len m Evr) as Hresr.
        assert (Hm1 : 1 <= m <= Z.of_nat (length r)) by (destruct Hresr as [[? ?]|[[? ?]|[? ?]]]; lia).
        set (r2 := skipn (Z.to_nat m) r) in *.
        destruct (Z.leb_spec len (Z.of_nat (length r2))) as [Hfit|].
        2:{ destruct be; [|discriminate]. destruct (pspec d dis f (pf_sub ff) (pf_sub tf) r2 true true); discriminate. }
        destruct (pspec d dis f (pf_sub ff) (pf_sub tf) (firstn (Z.to_nat len) r2) false _) as [kids|] eqn:Ekids; [|discriminate].
        destruct (pspec_loop dis (pspec d dis f) sf ffs tfs (skipn (Z.to_nat len) r2) false be) as [l|] eqn:El; [|discriminate].
        inversion H; subst forest.
        assert (Hlen0 : 0 <= len) by (pose proof (varint_dec_value r len m Hbr Evr); lia).
        assert (Hr2l : length r2 = (length r - Z.to_nat m)%nat) by (unfold r2; apply skipn_length).
        assert (Hwv : wire_value (v mod 8) r = Some (firstn (Z.to_nat (m + len)) r, skipn (Z.to_nat len) r2)).
        { unfold wire_value. rewrite E2. cbn [Z.eqb Pos.eqb]. rewrite Evr. destruct (Z.ltb_spec m 0); [lia|].
          unfold take_n. destruct (Z.ltb_spec (m + len) 0); [lia|]. destruct (Z.gtb_spec (m + len) (Z.of_nat (length r))); [lia|].
          cbn [orb]. f_equal. f_equal. unfold r2. rewrite skipn_skipn'. f_equal. lia. }
        assert (Hpay : payload (firstn (Z.to_nat (m + len)) r) = firstn (Z.to_nat len) r2).
        { unfold payload.
          assert (Hpre : varint_dec (firstn (Z.to_nat (m + len)) r) = (len, m)).
          { apply (varint_dec_prefix _ (skipn (Z.to_nat (m + len)) r)); [rewrite firstn_skipn; exact Evr|lia|rewrite firstn_length; lia]. }
          rewrite Hpre. unfold r2. rewrite skipn_firstn_comm. f_equal. lia. }
        destruct (IH _ be l ltac:(unfold r2; apply bytes_ok_skipn, bytes_ok_skipn; exact Hbr) El wf) as [fs' [Hf Hp]]; [rewrite !skipn_length; lia|].
        exists (WF (v / 8) (v mod 8) (firstn (Z.to_nat (m + len)) r) :: fs'). split; [apply (Hstep _ _ fs' Hwv Hf)|].
        cbn [pproj_fields]. rewrite Eff, Etf, Ek, Em. destruct (Z.eqb_spec (v mod 8) 2); [|contradiction]. cbn [negb].
        unfold r2 in *. rewrite Hpay. rewrite (Hrec _ _ _ _ _ ltac:( apply bytes_ok_firstn, bytes_ok_skipn; exact Hbr) Ekids). rewrite Hp. reflexivity.
      + destruct (wire_value (v mod 8) r) as [[raw rest]|] eqn:Ewv; [|destruct be; discriminate].
        destruct (pspec_loop dis (pspec d dis f) sf ffs tfs rest false be) as [l|] eqn:El; [|discriminate]. inversion H; subst forest.
        pose proof (wire_value_split _ _ _ _ Ewv) as Hq.
        destruct (IH rest be l ltac:(rewrite Hq in Hbr; apply (bytes_ok_app_r _ _ Hbr)) El wf) as [fs' [Hf Hp]]; [rewrite Hq, app_length in Hrl; lia|].
        exists (WF (v / 8) (v mod 8) raw :: fs'). split; [apply (Hstep raw rest fs' eq_refl Hf)|].
        cbn [pproj_fields]. rewrite Eff, Etf, Ek, Em, Hp. reflexivity.
  Qed.

  (* whenever the sequential spec succeeds on a complete frame, the declarative projection (decode the level, keep the numbers
     declared by both schemas, project message-kind payloads) succeeds with the SAME tree: all exactness theorems about
     pproj_fields hold for what the walker outputs *)
  Theorem pspec_ok_pproject : forall fuel fi ti bs be l, bytes_ok bs ->
    pspec d dis fuel fi ti bs false be = COk l -> pproject d dis fuel fi ti bs = COk l.
  Proof.
    induction fuel as [|f IH]; intros fi ti bs be l Hb H; [discriminate|]. cbn [pspec] in H. cbn [pproject].
    destruct (pmsg_def d fi) as [ffs|]; [|discriminate]. destruct (pmsg_def d ti) as [tfs|]; [|discriminate].
    destruct (pspec_loop_ok_pproj f ffs tfs IH _ bs be l Hb H (S (length bs)) ltac:(lia)) as [fs [Hf Hp]].
    rewrite Hf. exact Hp.
  Qed.
End Bridge.
