(* Storage refinements of the Thrift DOM (StoreChildrenById / StoreChildrenByHash): the slot tables of
   ThriftDom.v return exactly what an association list returns, for all key sets and ALL hash functions. *)
From Coq Require Import ZArith List Bool Lia.
From DG Require Import ProtoWireRef ThriftWire ThriftDom.
Import ListNotations.
Local Open Scope Z_scope.

(* ---------------- lists ---------------- *)
Lemma set_nth_length {A} (x : A) : forall n l, length (set_nth n x l) = length l.
Proof. induction n; destruct l; cbn; auto. Qed.

Lemma nth_error_set_nth_eq {A} (x : A) : forall n l, (n < length l)%nat -> nth_error (set_nth n x l) n = Some x.
Proof. induction n; destruct l; cbn; intros; try lia; auto. apply IHn. lia. Qed.

Lemma nth_error_set_nth_neq {A} (x : A) : forall n l m, m <> n -> nth_error (set_nth n x l) m = nth_error l m.
Proof.
  induction n; destruct l; intros m Hm; cbn; auto.
  - destruct m; [lia|]. reflexivity.
  - destruct m; cbn; auto.
Qed.

Lemma In_nth_error_iff {A} (x : A) l : In x l <-> exists n, nth_error l n = Some x.
Proof. split; [apply In_nth_error|intros [n H]; eapply nth_error_In; eauto]. Qed.

Lemma assoc_In {A} (L : list (Z * A)) k a : NoDup (map fst L) -> (assoc k L = Some a <-> In (k, a) L).
Proof.
  induction L as [|[k' a'] L IH]; cbn; intros Hnd.
  - split; [discriminate|tauto].
  - inversion Hnd as [|? ? Hnin Hnd']; subst. destruct (Z.eqb_spec k' k) as [->|Hne].
    + split.
      * intros H; inversion H; auto.
      * intros [H|H]; [inversion H; auto|]. exfalso. apply Hnin. apply (in_map fst) in H. exact H.
    + rewrite IH by assumption. split; [auto|]. intros [H|H]; [inversion H; congruence|auto].
Qed.

Lemma option_eq_by_iff {A} (r1 r2 : option A) (X : A -> Prop) :
  (forall a, r1 = Some a <-> X a) -> (forall a, r2 = Some a <-> X a) -> r1 = r2.
Proof.
  intros H1 H2. destruct r1 as [a|].
  - symmetry. apply H2. apply H1. reflexivity.
  - destruct r2 as [b|]; [|reflexivity]. apply (proj2 (H1 b)). apply (proj1 (H2 b)). reflexivity.
Qed.

Section Hash.
  Context {A : Type}.
  Variable h : Z -> Z.
  Notation slot := (option (Z * A)).

  Definition znth (s : list slot) (p : Z) : option slot := nth_error s (Z.to_nat p).

  Lemma live_count_set (kv : Z * A) : forall n (s : list slot), nth_error s n = Some None ->
    length (live_slots (set_nth n (Some kv) s)) = S (length (live_slots s)).
  Proof.
    unfold live_slots. induction n; destruct s as [|x s]; cbn; intros H; try discriminate.
    - inversion H; subst. reflexivity.
    - rewrite !app_length. rewrite (IHn s H). lia.
  Qed.

  Lemma empty_exists : forall s : list slot, (length (live_slots s) < length s)%nat -> exists e, nth_error s e = Some None.
  Proof.
    unfold live_slots. induction s as [|x s IH]; cbn; intros H; [lia|].
    destruct x as [kv|].
    - cbn in H. destruct IH as [e He]; [lia|]. exists (S e). exact He.
    - exists O. reflexivity.
  Qed.

  Lemma In_set_nth (kv : Z * A) n (s : list slot) : nth_error s n = Some None ->
    forall x, In (Some x) (set_nth n (Some kv) s) <-> x = kv \/ In (Some x) s.
  Proof.
    intros Hn x. assert (Hlt : (n < length s)%nat) by (apply nth_error_Some; congruence).
    rewrite !In_nth_error_iff. split.
    - intros [m Hm]. destruct (Nat.eq_dec m n) as [->|Hne].
      + rewrite nth_error_set_nth_eq in Hm by assumption. inversion Hm; auto.
      + rewrite nth_error_set_nth_neq in Hm by assumption. right. eauto.
    - intros [->|[m Hm]].
      + exists n. apply nth_error_set_nth_eq. assumption.
      + exists m. rewrite nth_error_set_nth_neq; [assumption|]. intros ->. congruence.
  Qed.

  Section Table.
    Variable N : Z.
    Hypothesis Npos : 0 < N.

    Lemma step_mod p i : ((p + 1) mod N + i) mod N = (p + (i + 1)) mod N.
    Proof. rewrite Zplus_mod_idemp_l. f_equal. lia. Qed.

    Lemma seek_spec (s : list slot) : forall fuel p q, 0 <= p < N -> seek fuel N s p = Some q ->
      exists d : nat, (d < fuel)%nat /\ q = (p + Z.of_nat d) mod N /\ znth s q = Some None /\
        forall i : nat, (i < d)%nat -> exists kv, znth s ((p + Z.of_nat i) mod N) = Some (Some kv).
    Proof.
      induction fuel as [|fuel IH]; intros p q Hp; cbn; [discriminate|].
      destruct (nth_error s (Z.to_nat p)) as [[kv|]|] eqn:E; intros H; try discriminate.
      - destruct (IH ((p + 1) mod N) q) as [d [Hd [Hq [Hz Hpath]]]]; [apply Z.mod_pos_bound; lia|exact H|].
        exists (S d). split; [lia|]. split; [|split].
        + rewrite Hq. rewrite step_mod. f_equal. lia.
        + exact Hz.
        + intros i Hi. destruct i as [|i].
          * exists kv. cbn. rewrite Z.add_0_r. rewrite Z.mod_small by lia. exact E.
          * destruct (Hpath i) as [kv' Hkv']; [lia|]. exists kv'. rewrite step_mod in Hkv'.
            replace (p + Z.of_nat (S i)) with (p + (Z.of_nat i + 1)) by lia. exact Hkv'.
      - inversion H; subst. exists O. split; [lia|]. cbn. rewrite Z.add_0_r. rewrite Z.mod_small by lia.
        split; [reflexivity|]. split; [exact E|]. intros i Hi. lia.
    Qed.

    Lemma seek_finds (s : list slot) : length s = Z.to_nat N -> forall fuel p, 0 <= p < N ->
      (exists d : nat, (d < fuel)%nat /\ znth s ((p + Z.of_nat d) mod N) = Some None) ->
      exists q, seek fuel N s p = Some q.
    Proof.
      intros Hlen. induction fuel as [|fuel IH]; intros p Hp [d [Hd He]]; [lia|].
      cbn. destruct (nth_error s (Z.to_nat p)) as [[kv|]|] eqn:E.
      - destruct d as [|d].
        + cbn in He. rewrite Z.add_0_r, Z.mod_small in He by lia. unfold znth in He. congruence.
        + apply IH; [apply Z.mod_pos_bound; lia|]. exists d. split; [lia|]. rewrite step_mod.
          replace (p + (Z.of_nat d + 1)) with (p + Z.of_nat (S d)) by lia. exact He.
      - eauto.
      - apply nth_error_None in E. lia.
    Qed.

    Lemma reach (p e : Z) : 0 <= p < N -> 0 <= e < N ->
      exists d : nat, (d < Z.to_nat N)%nat /\ (p + Z.of_nat d) mod N = e.
    Proof.
      intros Hp He. exists (Z.to_nat ((e - p) mod N)).
      pose proof (Z.mod_pos_bound (e - p) N Npos). split; [lia|].
      rewrite Z2Nat.id by lia. rewrite Zplus_mod_idemp_r. replace (p + (e - p)) with e by lia. apply Z.mod_small. lia.
    Qed.

    Lemma probe_sound (s : list slot) k : forall fuel p a, probe fuel N s k p = Some a -> In (Some (k, a)) s.
    Proof.
      induction fuel as [|fuel IH]; intros p a; cbn; [discriminate|].
      destruct (nth_error s (Z.to_nat p)) as [[[k' a']|]|] eqn:E; try discriminate.
      destruct (Z.eqb_spec k' k) as [->|Hne]; intros H.
      - inversion H; subst. eapply nth_error_In; eauto.
      - eapply IH; eauto.
    Qed.

    Lemma probe_complete (s : list slot) k a : (forall a', In (Some (k, a')) s -> a' = a) ->
      forall (d fuel : nat) p, (d < fuel)%nat -> 0 <= p < N ->
      (forall i : nat, (i < d)%nat -> exists kv, znth s ((p + Z.of_nat i) mod N) = Some (Some kv)) ->
      znth s ((p + Z.of_nat d) mod N) = Some (Some (k, a)) ->
      probe fuel N s k p = Some a.
    Proof.
      intros Huniq. induction d as [|d IH]; intros fuel p Hd Hp Hpath Hat; (destruct fuel as [|fuel]; [lia|]); cbn.
      - cbn in Hat. rewrite Z.add_0_r, Z.mod_small in Hat by lia. unfold znth in Hat. rewrite Hat.
        rewrite Z.eqb_refl. reflexivity.
      - destruct (Hpath O) as [[k' a'] Hk]; [lia|]. cbn in Hk. rewrite Z.add_0_r, Z.mod_small in Hk by lia.
        unfold znth in Hk. rewrite Hk. destruct (Z.eqb_spec k' k) as [->|Hne].
        + f_equal. apply Huniq. eapply nth_error_In; eauto.
        + apply IH; [lia|apply Z.mod_pos_bound; lia| |].
          * intros i Hi. destruct (Hpath (S i)) as [kv Hkv]; [lia|]. exists kv. rewrite step_mod.
            replace (p + (Z.of_nat i + 1)) with (p + Z.of_nat (S i)) by lia. exact Hkv.
          * rewrite step_mod. replace (p + (Z.of_nat d + 1)) with (p + Z.of_nat (S d)) by lia. exact Hat.
    Qed.

    (* the table invariant: s holds exactly the entries of L, every entry is reachable from its home slot through
       occupied slots only *)
    Definition hinv (L : list (Z * A)) (s : list slot) : Prop :=
      length s = Z.to_nat N /\
      (forall kv, In (Some kv) s <-> In kv L) /\
      (length (live_slots s) <= length L)%nat /\
      (forall p k a, 0 <= p -> znth s p = Some (Some (k, a)) ->
         exists d : nat, (d < Z.to_nat N)%nat /\ p = (h k mod N + Z.of_nat d) mod N /\
           forall i : nat, (i < d)%nat -> exists kv, znth s ((h k mod N + Z.of_nat i) mod N) = Some (Some kv)).

    Lemma hinv_init : hinv [] (repeat None (Z.to_nat N)).
    Proof.
      split; [apply repeat_length|]. split; [|split].
      - intros kv. split; [|intros []]. intros H. apply repeat_spec in H. discriminate.
      - assert (forall n, live_slots (repeat (@None (Z * A)) n) = []) as ->; [|cbn; lia].
        induction n; cbn; auto.
      - intros p k a _ H. unfold znth in H. apply nth_error_In in H. apply repeat_spec in H. discriminate.
    Qed.

    Lemma hash_put_inv L s k a : hinv L s -> (length L < Z.to_nat N)%nat ->
      hinv (L ++ [(k, a)]) (hash_put h N s (k, a)).
    Proof.
      intros [Hlen [Hin [Hcnt Hpath]]] Hroom. unfold hash_put. cbn [fst].
      assert (Hhome : 0 <= h k mod N < N) by (apply Z.mod_pos_bound; lia).
      destruct (empty_exists s) as [e He]; [lia|].
      assert (HeN : (e < Z.to_nat N)%nat) by (rewrite <- Hlen; apply nth_error_Some; congruence).
      destruct (reach (h k mod N) (Z.of_nat e)) as [d0 [Hd0 Hr]]; [assumption|lia|].
      destruct (seek_finds s Hlen (Z.to_nat N) (h k mod N) Hhome) as [q Hq].
      { exists d0. split; [assumption|]. rewrite Hr. unfold znth. rewrite Nat2Z.id. exact He. }
      rewrite Hq. destruct (seek_spec s _ _ _ Hhome Hq) as [d [Hd [Hqd [Hempty Hlive]]]].
      assert (Hq0 : 0 <= q < N) by (rewrite Hqd; apply Z.mod_pos_bound; lia).
      unfold znth in Hempty.
      split; [rewrite set_nth_length; exact Hlen|]. split; [|split].
      - intros kv. rewrite (In_set_nth (k, a) _ s Hempty kv). rewrite in_app_iff. cbn. rewrite Hin. intuition congruence.
      - rewrite (live_count_set (k, a) _ s Hempty). rewrite app_length. cbn. lia.
      - intros p k' a' Hp0 Hat. unfold znth in Hat.
        assert (Hkeep : forall j kv, znth s j = Some (Some kv) -> 0 <= j -> znth (set_nth (Z.to_nat q) (Some (k, a)) s) j = Some (Some kv)).
        { intros j kv Hj Hj0. unfold znth in *. rewrite nth_error_set_nth_neq; [exact Hj|]. intros Heq.
          rewrite Heq in Hj. congruence. }
        destruct (Nat.eq_dec (Z.to_nat p) (Z.to_nat q)) as [Heq|Hne].
        + rewrite Heq in Hat. rewrite nth_error_set_nth_eq in Hat by (apply nth_error_Some; congruence).
          inversion Hat; subst k' a'. exists d. split; [assumption|]. split; [lia|].
          intros i Hi. destruct (Hlive i Hi) as [kv Hkv]. exists kv. apply Hkeep; [exact Hkv|].
          apply Z.mod_pos_bound; lia.
        + rewrite nth_error_set_nth_neq in Hat by assumption.
          destruct (Hpath p k' a' Hp0 Hat) as [d' [Hd' [Hp' Hl']]]. exists d'. split; [assumption|]. split; [assumption|].
          intros i Hi. destruct (Hl' i Hi) as [kv Hkv]. exists kv. apply Hkeep; [exact Hkv|].
          apply Z.mod_pos_bound; lia.
    Qed.

    Lemma hash_build_inv : forall kvs L s, hinv L s -> (length (L ++ kvs) < Z.to_nat N)%nat ->
      hinv (L ++ kvs) (fold_left (hash_put h N) kvs s).
    Proof.
      induction kvs as [|[k a] kvs IH]; intros L s Hinv Hroom; cbn.
      - rewrite app_nil_r. exact Hinv.
      - replace (L ++ (k, a) :: kvs) with ((L ++ [(k, a)]) ++ kvs) in * by (rewrite <- app_assoc; reflexivity).
        apply IH; [|exact Hroom]. apply hash_put_inv; [exact Hinv|]. rewrite !app_length in Hroom. cbn in Hroom. lia.
    Qed.

    Lemma hash_get_inv L s k : hinv L s -> NoDup (map fst L) -> hash_get h N s k = assoc k L.
    Proof.
      intros [Hlen [Hin [Hcnt Hpath]]] Hnd.
      apply (option_eq_by_iff _ _ (fun a => In (k, a) L)); [|intros a; apply assoc_In; exact Hnd].
      intros a. unfold hash_get. split.
      - intros H. apply Hin. eapply probe_sound; eauto.
      - intros H. apply Hin in H. apply In_nth_error in H. destruct H as [n Hn].
        destruct (Hpath (Z.of_nat n) k a) as [d [Hd [Hp Hl]]]; [lia|unfold znth; rewrite Nat2Z.id; exact Hn|].
        apply (probe_complete s k a) with (d := d); [|assumption|apply Z.mod_pos_bound; lia|exact Hl|].
        + intros a' Ha'. apply Hin in Ha'.
          assert (In (k, a) L) as Hka by (apply Hin; eapply nth_error_In; eauto).
          apply (assoc_In L k a' Hnd) in Ha'. apply (assoc_In L k a Hnd) in Hka. congruence.
        + rewrite <- Hp. unfold znth. rewrite Nat2Z.id. exact Hn.
    Qed.
  End Table.

  (* probing never loses a key: for ALL hash functions, distinct keys, any table larger than the key set *)
  Theorem hash_get_build (N : Z) (kvs : list (Z * A)) (k : Z) :
    NoDup (map fst kvs) -> zlen kvs < N -> hash_get h N (hash_build h N kvs) k = assoc k kvs.
  Proof.
    intros Hnd Hlt. assert (Npos : 0 < N) by (unfold zlen in Hlt; lia).
    apply hash_get_inv; [assumption| |assumption].
    unfold hash_build. apply (hash_build_inv N Npos kvs [] _ (hinv_init N)). cbn. unfold zlen in Hlt. lia.
  Qed.

  (* with the table size the code computes (N = 2 * size); the empty map has no table and no key *)
  Theorem hash_get_build_code_size (kvs : list (Z * A)) (k : Z) :
    NoDup (map fst kvs) -> hash_get h (hash_size kvs) (hash_build h (hash_size kvs) kvs) k = assoc k kvs.
  Proof.
    intros Hnd. destruct kvs as [|kv kvs]; [reflexivity|].
    apply hash_get_build; [assumption|]. unfold hash_size, zlen. cbn [length]. lia.
  Qed.

  (* the table is never full when an entry is inserted (termination of the probe loop in the code) *)
  Theorem hash_build_never_full (N : Z) (kvs : list (Z * A)) :
    zlen kvs < N -> exists e, nth_error (hash_build h N kvs) e = Some None.
  Proof.
    intros Hlt. assert (Npos : 0 < N) by (unfold zlen in Hlt; lia).
    assert (Hinv : hinv N kvs (hash_build h N kvs)).
    { unfold hash_build. apply (hash_build_inv N Npos kvs [] _ (hinv_init N)). cbn. unfold zlen in Hlt. lia. }
    destruct Hinv as [Hlen [_ [Hcnt _]]]. apply empty_exists. unfold zlen in Hlt. lia.
  Qed.
End Hash.

(* ---------------- StoreChildrenById ---------------- *)
Section ById.
  Context {A : Type}.
  Notation slot := (option (Z * A)).

  Lemma grow_length n (s : list slot) : (n <= length (grow n s))%nat.
  Proof. unfold grow. rewrite app_length, repeat_length. lia. Qed.

  Lemma nth_error_grow_live n (s : list slot) j x : nth_error (grow n s) j = Some (Some x) <-> nth_error s j = Some (Some x).
  Proof.
    unfold grow. destruct (Nat.lt_ge_cases j (length s)) as [Hlt|Hge].
    - rewrite nth_error_app1 by assumption. tauto.
    - rewrite nth_error_app2 by assumption. split; intros H.
      + apply nth_error_In in H. apply repeat_spec in H. discriminate.
      + apply nth_error_None in Hge. congruence.
  Qed.

  Lemma In_grow n (s : list slot) kv : In (Some kv) (grow n s) <-> In (Some kv) s.
  Proof.
    unfold grow. rewrite in_app_iff. split; [|auto]. intros [H|H]; [assumption|]. apply repeat_spec in H. discriminate.
  Qed.

  Lemma grow_slot n (s : list slot) j : (j < n)%nat -> (forall x, nth_error s j <> Some (Some x)) -> nth_error (grow n s) j = Some None.
  Proof.
    intros Hj Hnl. pose proof (grow_length n s) as Hlen.
    destruct (nth_error (grow n s) j) as [[x|]|] eqn:E.
    - apply nth_error_grow_live in E. exfalso. eapply Hnl; eauto.
    - reflexivity.
    - apply nth_error_None in E. lia.
  Qed.

  Definition binv (L : list (Z * A)) (st : list slot * Z) : Prop :=
    byid_threshold <= snd st /\
    (forall kv, In (Some kv) (fst st) <-> In kv L) /\
    (forall j i a, nth_error (fst st) j = Some (Some (i, a)) -> (j < 256)%nat -> i = Z.of_nat j) /\
    (forall j x, nth_error (fst st) j = Some (Some x) -> Z.of_nat j < snd st).

  Lemma binv_init : binv [] ([], byid_threshold).
  Proof.
    unfold binv, byid_threshold. cbn. split; [lia|]. split; [tauto|]. split; intros j; destruct j; cbn; discriminate.
  Qed.

  Lemma byid_put_inv L st f : binv L st -> 0 <= fst f -> ~ In (fst f) (map fst L) -> binv (L ++ [f]) (byid_put st f).
  Proof.
    destruct st as [s tp]. destruct f as [id a]. unfold binv, byid_threshold. cbn [fst snd].
    intros [Htp [Hin [Hlow Hhigh]]] Hid Hnew. unfold byid_put, byid_threshold. cbn [fst snd].
    destruct (Z.ltb_spec id 256) as [Hlt|Hge]; cbn [fst snd].
    - (* own slot *)
      set (p := Z.to_nat id).
      assert (Hslot : nth_error (grow (S p) s) p = Some None).
      { apply grow_slot; [lia|]. intros [i' a'] Hx. pose proof (Hlow p i' a' Hx ltac:(lia)) as Hi. subst p.
        rewrite Z2Nat.id in Hi by lia. subst i'. apply Hnew. apply nth_error_In in Hx. apply Hin in Hx.
        apply (in_map fst) in Hx. exact Hx. }
      split; [lia|]. split; [|split].
      + intros kv. rewrite (In_set_nth (id, a) _ _ Hslot kv). rewrite In_grow, Hin, in_app_iff. cbn. intuition congruence.
      + intros j i' a' Hj Hj256. destruct (Nat.eq_dec j p) as [->|Hne].
        * rewrite nth_error_set_nth_eq in Hj by (apply nth_error_Some; congruence). inversion Hj; subst. subst p. lia.
        * rewrite nth_error_set_nth_neq in Hj by assumption. apply nth_error_grow_live in Hj. eapply Hlow; eauto.
      + intros j x Hj. destruct (Nat.eq_dec j p) as [->|Hne].
        * subst p. lia.
        * rewrite nth_error_set_nth_neq in Hj by assumption. apply nth_error_grow_live in Hj. eapply Hhigh; eauto.
    - (* sequential slot from the threshold on *)
      set (p := Z.to_nat tp).
      assert (Hslot : nth_error (grow (S p) s) p = Some None).
      { apply grow_slot; [lia|]. intros x Hx. pose proof (Hhigh p x Hx). subst p. lia. }
      split; [lia|]. split; [|split].
      + intros kv. rewrite (In_set_nth (id, a) _ _ Hslot kv). rewrite In_grow, Hin, in_app_iff. cbn. intuition congruence.
      + intros j i' a' Hj Hj256. destruct (Nat.eq_dec j p) as [->|Hne].
        * subst p. lia.
        * rewrite nth_error_set_nth_neq in Hj by assumption. apply nth_error_grow_live in Hj. eapply Hlow; eauto.
      + intros j x Hj. destruct (Nat.eq_dec j p) as [->|Hne].
        * subst p. lia.
        * rewrite nth_error_set_nth_neq in Hj by assumption. apply nth_error_grow_live in Hj.
          pose proof (Hhigh j x Hj). lia.
  Qed.

  Lemma byid_build_inv : forall fs L st, binv L st -> NoDup (map fst (L ++ fs)) -> Forall (fun f => 0 <= fst f) fs ->
    binv (L ++ fs) (fold_left byid_put fs st).
  Proof.
    induction fs as [|f fs IH]; intros L st Hinv Hnd Hpos; cbn.
    - rewrite app_nil_r. exact Hinv.
    - inversion Hpos as [|? ? Hf Hpos']; subst.
      replace (L ++ f :: fs) with ((L ++ [f]) ++ fs) in * by (rewrite <- app_assoc; reflexivity).
      apply IH; [|exact Hnd|exact Hpos']. apply byid_put_inv; [exact Hinv|exact Hf|].
      rewrite !map_app in Hnd. cbn in Hnd. rewrite <- app_assoc in Hnd. cbn in Hnd.
      apply NoDup_remove_2 in Hnd. intros Hc. apply Hnd. apply in_or_app. left. exact Hc.
  Qed.

  Lemma scan_slots_sound id : forall (s : list slot) a, scan_slots id s = Some a -> In (Some (id, a)) s.
  Proof.
    induction s as [|[[i x]|] s IH]; cbn; intros a H; try discriminate.
    - destruct (Z.eqb_spec i id) as [->|Hne]; [inversion H; auto|right; auto].
    - right; auto.
  Qed.

  Lemma scan_slots_complete id : forall (s : list slot) a, In (Some (id, a)) s -> exists a', scan_slots id s = Some a'.
  Proof.
    induction s as [|[[i x]|] s IH]; cbn; intros a H; [tauto| |].
    - destruct (Z.eqb_spec i id) as [->|Hne]; [eauto|]. destruct H as [H|H]; [inversion H; congruence|eauto].
    - destruct H as [H|H]; [discriminate|eauto].
  Qed.

  Lemma byid_get_In (s : list slot) id a : byid_get s id = Some a -> In (Some (id, a)) s.
  Proof.
    unfold byid_get. intros H.
    destruct (id <? byid_threshold) eqn:Elt.
    - destruct (nth_error s (Z.to_nat id)) as [[[i x]|]|] eqn:E.
      + destruct (Z.eqb_spec i id) as [->|Hne].
        * inversion H; subst. eapply nth_error_In; eauto.
        * revert H. destruct (scan_slots id (skipn (Z.to_nat byid_threshold) s)) eqn:E1; intros H.
          -- inversion H; subst. apply scan_slots_sound in E1. rewrite <- (firstn_skipn (Z.to_nat byid_threshold) s). apply in_or_app; auto.
          -- apply scan_slots_sound in H. rewrite <- (firstn_skipn (Z.to_nat byid_threshold) s). apply in_or_app; auto.
      + revert H. destruct (scan_slots id (skipn (Z.to_nat byid_threshold) s)) eqn:E1; intros H.
        -- inversion H; subst. apply scan_slots_sound in E1. rewrite <- (firstn_skipn (Z.to_nat byid_threshold) s). apply in_or_app; auto.
        -- apply scan_slots_sound in H. rewrite <- (firstn_skipn (Z.to_nat byid_threshold) s). apply in_or_app; auto.
      + revert H. destruct (scan_slots id (skipn (Z.to_nat byid_threshold) s)) eqn:E1; intros H.
        -- inversion H; subst. apply scan_slots_sound in E1. rewrite <- (firstn_skipn (Z.to_nat byid_threshold) s). apply in_or_app; auto.
        -- apply scan_slots_sound in H. rewrite <- (firstn_skipn (Z.to_nat byid_threshold) s). apply in_or_app; auto.
    - revert H. destruct (scan_slots id (skipn (Z.to_nat byid_threshold) s)) eqn:E1; intros H.
      + inversion H; subst. apply scan_slots_sound in E1. rewrite <- (firstn_skipn (Z.to_nat byid_threshold) s). apply in_or_app; auto.
      + apply scan_slots_sound in H. rewrite <- (firstn_skipn (Z.to_nat byid_threshold) s). apply in_or_app; auto.
  Qed.

  Lemma byid_get_total (s : list slot) id a : In (Some (id, a)) s -> exists a', byid_get s id = Some a'.
  Proof.
    intros H. unfold byid_get.
    match goal with |- exists a', match ?fast with _ => _ end = _ => destruct fast as [x|]; [eauto|] end.
    destruct (scan_slots id (skipn (Z.to_nat byid_threshold) s)) eqn:E1; [eauto|].
    rewrite <- (firstn_skipn (Z.to_nat byid_threshold) s) in H. apply in_app_or in H. destruct H as [H|H].
    - eapply scan_slots_complete; eauto.
    - destruct (scan_slots_complete id _ a H) as [a' Ha']. congruence.
  Qed.

  (* direct index below the threshold, sequential above, holes allowed: every id is found, nothing else is *)
  Theorem byid_get_build (fs : list (Z * A)) (id : Z) :
    NoDup (map fst fs) -> Forall (fun f => 0 <= fst f) fs -> byid_get (byid_build fs) id = assoc id fs.
  Proof.
    intros Hnd Hpos.
    pose proof (byid_build_inv fs [] _ binv_init Hnd Hpos) as [_ [Hin _]]. cbn [app] in Hin.
    apply (option_eq_by_iff _ _ (fun a => In (id, a) fs)); [|intros a; apply assoc_In; exact Hnd].
    intros a. unfold byid_build. split.
    - intros H. apply Hin. apply byid_get_In. exact H.
    - intros H. apply Hin in H. destruct (byid_get_total _ id a H) as [a' Ha']. rewrite Ha'. f_equal.
      apply byid_get_In in Ha'. apply Hin in Ha'.
      apply (assoc_In fs id a' Hnd) in Ha'. apply Hin in H. apply (assoc_In fs id a Hnd) in H. congruence.
  Qed.

  (* the code as it is today: same answer inside the slice, index-out-of-range panic outside *)
  Theorem byid_get_code_spec (s : list slot) (id : Z) :
    byid_get_code s id = if (id <=? byid_threshold) && (zlen s <=? id) then GPanic else GRes (byid_get s id).
  Proof. reflexivity. Qed.
End ById.
