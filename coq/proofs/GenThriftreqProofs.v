(* (G) thrift/idl.go convertRequireness and the decisions RequiresBitmap.HandleRequires / CheckRequires take for a marked bit,
   translated from the Go source on every build (gen/Gen_thriftreq.v, go2coq abstract-environment mode), against
   model/Requireness.v (tracked, rule, handle_requires_decision, check_requires_decision) and model/ThriftCut.v (owed). *)
From Coq Require Import ZArith List Bool Lia.
From DG Require Import GoSem CaseFormat Requireness RequirenessProofs Gen_thriftreq Check20g.
From DG Require ThriftCut ThriftWire.
Import ListNotations.
Local Open Scope Z_scope.

(* ---------------------------------------------------------------- convertRequireness *)
Definition cr_f (id : Z) (reqBase respBase : bool) (old : Z) : convertRequireness_f :=
  {| convertRequireness_f_id := id; convertRequireness_f_isRequestBase := reqBase; convertRequireness_f_isResponseBase := respBase;
     convertRequireness_f_required := old |}.
Definition cr_o (p : popts) : convertRequireness_opts := {| convertRequireness_opts_SetOptionalBitmap := p_opt_bitmap p |}.

(* the value handed to RequiresBitmap.Set for an ordinary field *)
Definition bitmap_value (p : popts) (r : Z) : Z :=
  if r =? 0 then (if p_opt_bitmap p then RequiredRequireness else DefaultRequireness)
  else if r =? 2 then (if p_opt_bitmap p then DefaultRequireness else OptionalRequireness)
  else RequiredRequireness.

(* an ordinary field (not thrift base): f.required := the IDL requiredness, ONE call requires.Set(f.id, v) whose value marks the
   bit iff the model's [tracked] *)
Lemma convertRequireness_ordinary p f old : (f_req f = 0 \/ f_req f = 1 \/ f_req f = 2) ->
  convertRequireness (f_req f) (cr_f (f_id f) false false old) (cr_o p)
    = Some (go_req (f_req f), [(Eff_Set, [f_id f; bitmap_value p (f_req f)])]) /\
  set_marks (bitmap_value p (f_req f)) = tracked p f.
Proof.
  intros H. unfold tracked, bitmap_value, cr_o. destruct H as [H|[H|H]]; rewrite H; destruct (p_opt_bitmap p); split; reflexivity.
Qed.

(* a thrift base field (EnableThriftBase) is never tracked, whatever its requiredness and the parse options *)
Lemma convertRequireness_base r id rb sb old o : (r = 0 \/ r = 1 \/ r = 2) -> rb || sb = true ->
  convertRequireness r (cr_f id rb sb old) o = Some (go_req r, [(Eff_Set, [id; OptionalRequireness])]) /\ set_marks OptionalRequireness = false.
Proof.
  intros H Hb. destruct o as [so]. destruct H as [H|[H|H]]; subst r; destruct so, rb, sb; try discriminate; split; reflexivity.
Qed.

(* any other requiredness value panics (and nothing has been written) *)
Lemma convertRequireness_invalid r f o : r <> 0 -> r <> 1 -> r <> 2 -> convertRequireness r f o = None.
Proof.
  intros H0 H1 H2. unfold convertRequireness.
  destruct (Z.eqb_spec r 0); [contradiction|]. destruct (Z.eqb_spec r 2); [contradiction|]. destruct (Z.eqb_spec r 1); [contradiction|]. reflexivity.
Qed.

Lemma model_req_go_req r : (r = 0 \/ r = 1 \/ r = 2) -> model_req (go_req r) = r.
Proof. intros [H|[H|H]]; subst r; reflexivity. Qed.

(* ---------------------------------------------------------------- the marked-bit decisions *)
(* the id the block looks up: i-th word, j-th bit *)
Definition blk_id (i j : Z) : Z := wrapu 16 (wraps 64 (wraps 64 (i * 64) + j)).
Lemma blk_id_exact i j : 0 <= i < 1024 -> 0 <= j < 64 -> blk_id i j = i * 64 + j.
Proof.
  intros Hi Hj. unfold blk_id, wraps, wrapu. change (2 ^ (64 - 1)) with 9223372036854775808. change (2 ^ 64) with 18446744073709551616.
  change (2 ^ 16) with 65536.
  rewrite (Z.mod_small (i * 64 + 9223372036854775808)) by lia. replace (i * 64 + 9223372036854775808 - 9223372036854775808) with (i * 64) by lia.
  rewrite (Z.mod_small (i * 64 + j + 9223372036854775808)) by lia. rewrite Z.mod_small by lia. lia.
Qed.
(* ... and it is the id the model's scan produces for that position *)
Lemma blk_id_of_id id : 0 <= id < 65536 -> blk_id (id / 64) (id mod 64) = id.
Proof.
  intros H. rewrite blk_id_exact.
  - rewrite (Z.div_mod id 64) at 3 by lia. lia.
  - split; [apply Z.div_pos; lia|]. apply Z.div_lt_upper_bound; lia.
  - apply Z.mod_pos_bound. lia.
Qed.

(* what the block does for an action of the model: lookup of the field, then error / skip (the word is shifted) / handler *)
Definition marked_result (id v : Z) (a : action) : Z * Z * list (Z * list Z) :=
  match a with
  | AMissing => (Out_return, v, [(Eff_FieldById, [id]); (Eff_errMissRequiredField, [])])
  | ASkip => (Out_continue, Z.shiftr v 1, [(Eff_FieldById, [id])])
  | _ => (Out_fall, v, [(Eff_FieldById, [id]); (Eff_handler, [])])
  end.

Definition hr_f (p : popts) (f : fld) : HandleRequires_marked_f :=
  {| HandleRequires_marked_f_DefaultValue_isnil := negb (parsed_default p f); HandleRequires_marked_f_Required := go_req (f_req f) |}.

(* HandleRequires, for the descriptor field the model describes (Required() = the IDL requiredness, DefaultValue() == nil iff no parsed
   default): exactly the model's decision, for every word index, bit index and word content *)
Theorem HandleRequires_marked_is_decision p w f i v j : (f_req f = 0 \/ f_req f = 1 \/ f_req f = 2) ->
  HandleRequires_marked (w_require w) (w_default w) (w_optional w) i v j (hr_f p f)
    = marked_result (blk_id i j) v (handle_requires_decision p w f).
Proof.
  intros H. unfold HandleRequires_marked, handle_requires_decision, write_action, hr_f, marked_result, blk_id.
  cbn [HandleRequires_marked_f_DefaultValue_isnil HandleRequires_marked_f_Required].
  destruct w as [wr wd wo wu]. cbn [w_require w_default w_optional].
  destruct H as [H|[H|H]]; rewrite H; destruct wr, wd, wo, (parsed_default p f); reflexivity.
Qed.

Theorem HandleRequires_marked_is_rule p w f i v j : tracked p f = true -> (f_req f = 0 \/ f_req f = 1 \/ f_req f = 2) ->
  HandleRequires_marked (w_require w) (w_default w) (w_optional w) i v j (hr_f p f) = marked_result (blk_id i j) v (rule p w f).
Proof. intros Ht H. rewrite HandleRequires_marked_is_decision by exact H. rewrite handle_requires_is_rule by assumption. reflexivity. Qed.

Lemma decode_marked_result id v a : decode_marked (marked_result id v a) = Some (obs_of_action a id).
Proof. destruct a; reflexivity. Qed.

(* observable form: what a caller sees for the marked bit of id *)
Corollary HandleRequires_marked_observed p w f id v : tracked p f = true -> (f_req f = 0 \/ f_req f = 1 \/ f_req f = 2) -> 0 <= id < 65536 ->
  decode_marked (HandleRequires_marked (w_require w) (w_default w) (w_optional w) (id / 64) v (id mod 64) (hr_f p f))
    = Some (obs_of_action (rule p w f) id).
Proof.
  intros Ht H Hid. rewrite HandleRequires_marked_is_rule by assumption. rewrite blk_id_of_id by exact Hid. apply decode_marked_result.
Qed.

(* CheckRequires (cutting): a marked bit without a field is an error (errInvalidBitmapId), otherwise the model's decision *)
Definition ck_f (f : fld) : CheckRequires_marked_f :=
  {| CheckRequires_marked_f_Required := go_req (f_req f); CheckRequires_marked_f_isnil := false |}.

Theorem CheckRequires_marked_is_decision wd f i v j : (f_req f = 0 \/ f_req f = 1 \/ f_req f = 2) ->
  CheckRequires_marked wd i v j (ck_f f) = marked_result (blk_id i j) v (check_requires_decision wd f).
Proof.
  intros H. unfold CheckRequires_marked, check_requires_decision, ck_f, marked_result, blk_id.
  cbn [CheckRequires_marked_f_Required CheckRequires_marked_f_isnil].
  destruct H as [H|[H|H]]; rewrite H; destruct wd; reflexivity.
Qed.

Theorem CheckRequires_marked_nil wd i v j r :
  CheckRequires_marked wd i v j {| CheckRequires_marked_f_Required := r; CheckRequires_marked_f_isnil := true |}
    = (Out_return, v, [(Eff_FieldById, [blk_id i j]); (Eff_errInvalidBitmapId, [blk_id i j])]).
Proof. reflexivity. Qed.

(* the cutting model's [owed] (ThriftCut.v) takes, for a tracked target field that was not written, exactly check_requires_decision *)
Lemma owed_step_is_check_requires_decision o f r w :
  ThriftCut.mem_id (ThriftCut.fld_id f) w = false -> ThriftCut.tracked o f = true ->
  ThriftCut.owed o (f :: r) w =
    match check_requires_decision (ThriftCut.o_write_default o) {| f_id := ThriftCut.fld_id f; f_req := ThriftCut.fld_req f; f_hasdef := false |} with
    | AMissing => ThriftCut.CErr 3
    | ASkip => ThriftCut.owed o r w
    | _ => match ThriftCut.zero_of (ThriftCut.fld_ty f), ThriftCut.owed o r w with
           | Some z, ThriftCut.COk l => ThriftCut.COk ((ThriftCut.fld_id f, z) :: l)
           | None, _ => ThriftCut.CErr 4
           | _, ThriftCut.CErr c => ThriftCut.CErr c
           end
    end.
Proof.
  intros Hm Ht. cbn [ThriftCut.owed]. rewrite Hm, Ht. cbn [negb orb]. unfold check_requires_decision. cbn [f_req].
  destruct (ThriftCut.fld_req f =? 1); [reflexivity|]. destruct (ThriftCut.o_write_default o); reflexivity.
Qed.
