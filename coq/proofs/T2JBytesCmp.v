(* Soundness of the comparison of check 304 ([text_agrees] of model/T2JBytes.v): when the marker text of the walk is
   accepted against an implementation text, the implementation text is the walk's text with every double marker replaced
   by a JSON number lexeme that denotes exactly the marked bits (lex_is_f64) — byte-identical everywhere else. *)
From Coq Require Import ZArith List Bool Lia.
From DG Require Import Json Num JsonProofs JsonSound NumProofs T2J T2JBytes.
Import ListNotations.
Local Open Scope Z_scope.

(* a text as a sequence of literal bytes and doubles *)
Inductive tok := TBytes (bs : list Z) | TDouble (bits : Z).

Fixpoint render (fd : Z -> list Z) (ts : list tok) : list Z :=
  match ts with
  | [] => []
  | TBytes b :: r => b ++ render fd r
  | TDouble x :: r => fd x ++ render fd r
  end.

(* i is ts with every double spelled by some lexeme denoting its bits *)
Inductive agrees : list tok -> list Z -> Prop :=
| ag_nil : agrees [] []
| ag_bytes b ts i : agrees ts i -> agrees (TBytes b :: ts) (b ++ i)
| ag_double x l ts i : num_okb l = true -> lex_is_f64 l x = true -> agrees ts i -> agrees (TDouble x :: ts) (l ++ i).

Definition tok_ok (t : tok) : Prop :=
  match t with TBytes b => Forall (fun c => c <> 1) b | TDouble x => 0 <= x end.

Lemma scan_num_split : forall bs st l r, scan_num st bs = Some (l, r) -> bs = l ++ r.
Proof.
  induction bs as [|c t IH]; intros st l r H.
  - cbn in H. destruct (num_acc st); inversion H; reflexivity.
  - cbn [scan_num] in H. destruct (num_step st c) as [s|] eqn:E.
    + destruct (scan_num s t) as [[l1 r1]|] eqn:E2; [|discriminate]. inversion H; subst.
      cbn [app]. f_equal. exact (IH s l1 r E2).
    + destruct (num_acc st); inversion H; reflexivity.
Qed.

Lemma span_digits_app : forall ds c r, forallb is_digit ds = true -> is_digit c = false ->
  span_digits (ds ++ c :: r) = (ds, c :: r).
Proof.
  induction ds as [|d t IH]; intros c r Hd Hc.
  - cbn [app span_digits]. rewrite Hc. reflexivity.
  - cbn [forallb] in Hd. apply andb_true_iff in Hd. destruct Hd as [H1 H2].
    cbn [app span_digits]. rewrite H1. rewrite (IH c r H2 Hc). reflexivity.
Qed.

Lemma agrees_bytes : forall b fuel m i, Forall (fun c => c <> 1) b -> (length (b ++ m) < fuel)%nat ->
  text_agrees fuel (b ++ m) i = true ->
  exists i' fuel', i = b ++ i' /\ (length m < fuel')%nat /\ text_agrees fuel' m i' = true.
Proof.
  induction b as [|c b IH]; intros fuel m i Hb Hf H.
  - exists i, fuel. split; [reflexivity|]. split; [exact Hf|exact H].
  - inversion Hb as [|? ? Hc Hb']; subst.
    destruct fuel as [|fuel]; [cbn in Hf; lia|]. cbn [app text_agrees] in H.
    destruct (Z.eqb_spec c 1); [contradiction|].
    destruct i as [|c' i]; [discriminate|].
    apply andb_true_iff in H. destruct H as [Hcc H]. apply Z.eqb_eq in Hcc. subst c'.
    destruct (IH fuel m i Hb' ltac:(cbn [app length] in Hf; lia) H) as (i' & fuel' & -> & Hf' & H').
    exists i', fuel'. split; [reflexivity|]. split; assumption.
Qed.

Theorem text_agrees_sound : forall ts fuel i, Forall tok_ok ts -> (length (render fd_mark ts) < fuel)%nat ->
  text_agrees fuel (render fd_mark ts) i = true -> agrees ts i.
Proof.
  induction ts as [|t ts IH]; intros fuel i Hok Hf H.
  - destruct fuel as [|fuel]; [cbn in Hf; lia|]. cbn [render text_agrees] in H.
    destruct i; [constructor|discriminate].
  - inversion Hok as [|? ? Ht Hok']; subst. destruct t as [b|x]; cbn [tok_ok] in Ht; cbn [render] in *.
    + destruct (agrees_bytes b fuel _ i Ht Hf H) as (i' & fuel' & -> & Hf' & H').
      constructor. exact (IH fuel' i' Hok' Hf' H').
    + destruct fuel as [|fuel]; [cbn in Hf; lia|].
      unfold fd_mark in *. cbn [app] in H, Hf. rewrite <- app_assoc in H, Hf. cbn [app] in H, Hf.
      cbn [text_agrees] in H. change (1 =? 1) with true in H. cbn iota in H.
      destruct (fmt_nat_spec x Ht) as (Hd & Hv & _).
      rewrite (span_digits_app (fmt_nat x) 1 (render (fun bits => 1 :: fmt_nat bits ++ [1]) ts) Hd eq_refl) in H.
      destruct (scan_num N0 i) as [[l i']|] eqn:Es; [|discriminate].
      apply andb_true_iff in H. destruct H as [Hl H]. rewrite Hv in Hl.
      rewrite (scan_num_split i N0 l i' Es).
      constructor; [exact (scan_num_okb _ _ _ Es) | exact Hl |].
      apply (IH fuel i' Hok'); [|exact H].
      cbn [length] in Hf. rewrite app_length in Hf. cbn [length] in Hf. lia.
Qed.

(* marker-free text: the comparison is byte equality *)
Corollary text_agrees_plain : forall b i, Forall (fun c => c <> 1) b ->
  text_agrees (S (length b)) b i = true -> i = b.
Proof.
  intros b i Hb H.
  assert (A : agrees [TBytes b] i).
  { apply (text_agrees_sound [TBytes b] (S (length b)) i); [repeat constructor; exact Hb | cbn [render]; rewrite app_nil_r; lia | cbn [render]; rewrite app_nil_r; exact H]. }
  inversion A as [|? ? ? A'|]; subst. inversion A'; subst. apply app_nil_r.
Qed.

(* ------------------------------------------------------------------ completeness: no false alarm ----
   every text that is the token sequence with each double spelled by ANY JSON number lexeme denoting its bits is accepted,
   provided a double is followed by a byte that cannot continue a number (in JSON: a comma, a bracket, a brace, a quote)
   or by the end of the text — scan_num reads the longest numeric prefix *)
Definition starts_sep (r : list tok) : Prop :=
  match r with
  | [] => True
  | TBytes (c :: _) :: _ => is_numchar c = false
  | _ => False
  end.

Fixpoint sep_ok (ts : list tok) : Prop :=
  match ts with
  | [] => True
  | TDouble _ :: r => starts_sep r /\ sep_ok r
  | TBytes _ :: r => sep_ok r
  end.

Lemma agrees_stop ts i : starts_sep ts -> agrees ts i -> stop i = true.
Proof.
  intros Hs Ha. destruct ts as [|[b|x] ts]; cbn [starts_sep] in Hs.
  - inversion Ha. reflexivity.
  - destruct b as [|c b]; [destruct Hs|]. inversion Ha; subst. cbn [app stop]. rewrite Hs. reflexivity.
  - destruct Hs.
Qed.

Lemma bytes_complete : forall b fuel m i, Forall (fun c => c <> 1) b -> (length (b ++ m) < fuel)%nat ->
  (forall fuel', (length m < fuel')%nat -> text_agrees fuel' m i = true) ->
  text_agrees fuel (b ++ m) (b ++ i) = true.
Proof.
  induction b as [|c b IH]; intros fuel m i Hb Hf Hm; [apply Hm; exact Hf|].
  inversion Hb as [|? ? Hc Hb']; subst. destruct fuel as [|fuel]; [cbn in Hf; lia|].
  cbn [app text_agrees]. destruct (Z.eqb_spec c 1); [contradiction|].
  rewrite Z.eqb_refl. cbn [andb]. apply IH; [exact Hb' | cbn [app length] in Hf; lia | exact Hm].
Qed.

Theorem text_agrees_complete : forall ts i, agrees ts i -> Forall tok_ok ts -> sep_ok ts ->
  forall fuel, (length (render fd_mark ts) < fuel)%nat -> text_agrees fuel (render fd_mark ts) i = true.
Proof.
  intros ts i Ha. induction Ha as [|b ts i Ha IH|x l ts i Hl Hx Ha IH]; intros Hok Hsep fuel Hf.
  - destruct fuel as [|fuel]; [cbn in Hf; lia|]. reflexivity.
  - inversion Hok as [|? ? Ht Hok']; subst. cbn [render] in *. cbn [sep_ok] in Hsep.
    apply bytes_complete; [exact Ht | exact Hf | intros fuel' Hf'; exact (IH Hok' Hsep fuel' Hf')].
  - inversion Hok as [|? ? Ht Hok']; subst. cbn [tok_ok] in Ht. cbn [sep_ok] in Hsep. destruct Hsep as [Hst Hsep].
    cbn [render] in *. unfold fd_mark in *. cbn [app] in Hf |- *. rewrite <- app_assoc in Hf |- *. cbn [app] in Hf |- *.
    destruct fuel as [|fuel]; [cbn in Hf; lia|].
    cbn [text_agrees]. change (1 =? 1) with true. cbn iota.
    destruct (fmt_nat_spec x Ht) as (Hd & Hv & _).
    rewrite (span_digits_app (fmt_nat x) 1 (render (fun bits => 1 :: fmt_nat bits ++ [1]) ts) Hd eq_refl).
    rewrite (num_ok_scan l i Hl (agrees_stop ts i Hst Ha)).
    rewrite Hv, Hx. cbn [andb].
    apply (IH Hok' Hsep). cbn [length] in Hf. rewrite app_length in Hf. cbn [length] in Hf. lia.
Qed.
