(* Check 304 end to end on the model side: when the comparison accepts an implementation text against the marker walk of a
   conforming value, that text is the canonical text of the SPEC tree json_of o d v in which every double is spelled by a JSON
   number lexeme denoting exactly its bits. *)
From Coq Require Import ZArith List Bool Lia.
From DG Require Import ProtoWireRef ThriftWire ThriftWireProofs Json Num Base64 T2J T2JUnset JsonProofs NumProofs Base64Proofs T2JProofs T2JUnsetProofs
                       T2JBytes T2JBytesProofs T2JBytesCmp.
Import ListNotations.
Local Open Scope Z_scope.

(* the text of an expected tree (jexp_print) as tokens *)
Fixpoint jtoks (e : jexp) : list tok :=
  match e with
  | EBool b => [TBytes (if b then lit_true else lit_false)]
  | EInt z => [TBytes (fmt_int z)]
  | EDouble b => [TDouble b]
  | EStr s | EStrV s => [TBytes (quote_ref s)]
  | EByteV z => [TBytes (34 :: fmt_int z ++ [34])]
  | EQuoted e' =>
    match e' with
    | EInt z => [TBytes (34 :: fmt_int z ++ [34])]
    | EDouble b => [TBytes [34]; TDouble b; TBytes [34]]
    | _ => jtoks e'
    end
  | EArr xs =>
    TBytes [91] :: match xs with
                   | [] => [TBytes [93]]
                   | x :: l => jtoks x ++ flat_map (fun y => TBytes [44] :: jtoks y) l ++ [TBytes [93]]
                   end
  | EObj ms =>
    TBytes [123] :: match ms with
                    | [] => [TBytes [125]]
                    | m :: l => TBytes (quote_ref (fst m) ++ [58]) :: jtoks (snd m) ++
                                flat_map (fun y => TBytes (44 :: quote_ref (fst y) ++ [58]) :: jtoks (snd y)) l ++ [TBytes [125]]
                    end
  end.

(* double bits are non-negative (they are read off 8 bytes, or are the zero of a written unset field) *)
Fixpoint wshape (e : jexp) : bool :=
  match e with
  | EDouble b => 0 <=? b
  | EQuoted e' => wshape e'
  | EArr xs => forallb wshape xs
  | EObj ms => forallb (fun m => wshape (snd m)) ms
  | _ => true
  end.

Lemma render_app fd a b : render fd (a ++ b) = render fd a ++ render fd b.
Proof.
  induction a as [|t a IH]; [reflexivity|]. destruct t; cbn [app render]; rewrite IH, app_assoc; reflexivity.
Qed.

Section Print.
  Variable fd : Z -> list Z.

  Lemma print_tail_toks l : Forall (fun e => jexp_print fd e = render fd (jtoks e)) l ->
    eprint_tail (jexp_print fd) l = render fd (flat_map (fun y => TBytes [44] :: jtoks y) l ++ [TBytes [93]]).
  Proof.
    induction l as [|y l IH]; intros HF; [reflexivity|].
    inversion HF as [|? ? Hy HF']; subst.
    cbn [eprint_tail flat_map]. rewrite <- app_assoc. cbn [app render]. rewrite render_app.
    rewrite Hy, (IH HF'). reflexivity.
  Qed.

  Lemma print_mems_toks (l : list (list Z * jexp)) :
    Forall (fun m => jexp_print fd (snd m) = render fd (jtoks (snd m))) l ->
    eprint_mems (jexp_print fd) l ++ [125] =
    render fd (flat_map (fun y => TBytes (44 :: quote_ref (fst y) ++ [58]) :: jtoks (snd y)) l ++ [TBytes [125]]).
  Proof.
    induction l as [|y l IH]; intros HF; [reflexivity|].
    inversion HF as [|? ? Hy HF']; subst.
    cbn [eprint_mems flat_map]. unfold eprint_member. cbn [fst snd].
    rewrite <- (app_assoc (TBytes (44 :: quote_ref (fst y) ++ [58]) :: jtoks (snd y))).
    cbn [app render]. rewrite render_app.
    rewrite Hy, <- (IH HF'). f_equal. rewrite <- !app_assoc. reflexivity.
  Qed.

  Lemma print_toks : forall e, jexp_print fd e = render fd (jtoks e).
  Proof.
    induction e as [b | z | b | s | e IH | s | z | xs IH | ms IH] using jexp_ind';
      cbn [jexp_print jtoks render] in *; rewrite ?app_nil_r; try reflexivity.
    - destruct e; try exact IH; cbn [render]; rewrite ?app_nil_r; reflexivity.
    - destruct xs as [|x l]; [reflexivity|].
      inversion IH as [|? ? Hx Hl]; subst.
      rewrite render_app. rewrite Hx. rewrite (print_tail_toks l Hl). reflexivity.
    - destruct ms as [|m l]; [reflexivity|].
      inversion IH as [|? ? Hm Hl]; subst.
      unfold eprint_member. cbn [fst snd render]. rewrite render_app. rewrite Hm.
      rewrite (print_mems_toks l Hl). rewrite <- !app_assoc. reflexivity.
  Qed.
End Print.

(* ---- no token holds the marker byte ---- *)
Definition no1 (b : list Z) : Prop := Forall (fun c => c <> 1) b.

Lemma no1_of_forallb b : forallb (fun c => negb (c =? 1)) b = true -> no1 b.
Proof.
  intros H. rewrite forallb_forall in H. apply Forall_forall. intros c Hc. specialize (H c Hc).
  apply negb_true_iff, Z.eqb_neq in H. exact H.
Qed.

Lemma no1_app a b : no1 a -> no1 b -> no1 (a ++ b).
Proof. intros Ha Hb. apply Forall_app. split; assumption. Qed.

Lemma esc_byte_no1 c : 0 <= c < 256 -> forallb (fun x => negb (x =? 1)) (esc_byte c) = true.
Proof. intros Hc. apply (Z_range_forallb (fun c => forallb (fun x => negb (x =? 1)) (esc_byte c)) 256); [vm_compute; reflexivity | exact Hc]. Qed.

Lemma quote_ref_no1 s : jbytes_okb s = true -> no1 (quote_ref s).
Proof.
  intros Hs. unfold quote_ref. apply (no1_app [34]); [repeat constructor; discriminate|].
  apply no1_app; [|repeat constructor; discriminate].
  unfold escape. induction s as [|c s IH]; [constructor|].
  cbn [jbytes_okb forallb] in Hs. apply andb_true_iff in Hs. destruct Hs as [Hc Hs].
  cbn [flat_map]. apply no1_app; [|exact (IH Hs)].
  apply no1_of_forallb. apply esc_byte_no1. apply jbyte_okb_range. exact Hc.
Qed.

Lemma plain_no1 b : forallb plain b = true -> no1 b.
Proof.
  intros H. rewrite forallb_forall in H. apply Forall_forall. intros c Hc. specialize (H c Hc).
  unfold plain in H. rewrite !andb_true_iff, Z.leb_le in H. lia.
Qed.

Lemma fmt_int_no1 z : no1 (fmt_int z).
Proof. apply plain_no1, fmt_int_all_plain. Qed.

Lemma quoted_no1 b : no1 b -> no1 (34 :: b ++ [34]).
Proof. intros H. apply (no1_app [34]); [repeat constructor; discriminate|]. apply no1_app; [exact H | repeat constructor; discriminate]. Qed.

Lemma Forall_tok_app a b : Forall tok_ok a -> Forall tok_ok b -> Forall tok_ok (a ++ b).
Proof. intros Ha Hb. apply Forall_app. split; assumption. Qed.

Lemma jtoks_ok : forall e, jexp_bytes e = true -> wshape e = true -> Forall tok_ok (jtoks e).
Proof.
  induction e as [b | z | b | s | e IH | s | z | xs IH | ms IH] using jexp_ind'; intros Hb Hw;
    cbn [jtoks jexp_bytes wshape] in *.
  - constructor; [|constructor]. cbn [tok_ok]. destruct b; repeat constructor; discriminate.
  - constructor; [|constructor]. exact (fmt_int_no1 z).
  - constructor; [|constructor]. cbn [tok_ok]. apply Z.leb_le. exact Hw.
  - constructor; [|constructor]. exact (quote_ref_no1 s Hb).
  - destruct e; try exact (IH Hb Hw).
    + constructor; [|constructor]. exact (quoted_no1 _ (fmt_int_no1 z)).
    + cbn [wshape] in Hw. constructor; [repeat constructor; discriminate|]. constructor; [cbn [tok_ok]; apply Z.leb_le; exact Hw|].
      repeat constructor; discriminate.
  - constructor; [|constructor]. exact (quote_ref_no1 s Hb).
  - constructor; [|constructor]. exact (quoted_no1 _ (fmt_int_no1 z)).
  - constructor; [repeat constructor; discriminate|].
    destruct xs as [|x l]; [repeat constructor; discriminate|].
    inversion IH as [|? ? Hx Hl]; subst. cbn [forallb] in Hb, Hw.
    apply andb_true_iff in Hb. destruct Hb as [Hbx Hbl]. apply andb_true_iff in Hw. destruct Hw as [Hwx Hwl].
    apply Forall_tok_app; [exact (Hx Hbx Hwx)|]. apply Forall_tok_app; [|repeat constructor; discriminate].
    clear Hx Hbx Hwx IH. induction l as [|y l IHl]; [constructor|].
    inversion Hl as [|? ? Hy Hl']; subst. cbn [forallb] in Hbl, Hwl.
    apply andb_true_iff in Hbl. destruct Hbl as [Hby Hbl]. apply andb_true_iff in Hwl. destruct Hwl as [Hwy Hwl].
    cbn [flat_map]. constructor; [repeat constructor; discriminate|].
    apply Forall_tok_app; [exact (Hy Hby Hwy) | exact (IHl Hbl Hwl Hl')].
  - constructor; [repeat constructor; discriminate|].
    destruct ms as [|m l]; [repeat constructor; discriminate|].
    inversion IH as [|? ? Hm Hl]; subst. cbn [forallb] in Hb, Hw.
    apply andb_true_iff in Hb. destruct Hb as [Hbm Hbl]. apply andb_true_iff in Hbm. destruct Hbm as [Hkm Hbm].
    apply andb_true_iff in Hw. destruct Hw as [Hwm Hwl].
    constructor; [cbn [tok_ok]; apply no1_app; [exact (quote_ref_no1 _ Hkm) | repeat constructor; discriminate]|].
    apply Forall_tok_app; [exact (Hm Hbm Hwm)|]. apply Forall_tok_app; [|repeat constructor; discriminate].
    clear Hm Hbm Hwm Hkm IH. induction l as [|y l IHl]; [constructor|].
    inversion Hl as [|? ? Hy Hl']; subst. cbn [forallb] in Hbl, Hwl.
    apply andb_true_iff in Hbl. destruct Hbl as [Hby Hbl]. apply andb_true_iff in Hby. destruct Hby as [Hky Hby].
    apply andb_true_iff in Hwl. destruct Hwl as [Hwy Hwl].
    cbn [flat_map]. constructor.
    + cbn [tok_ok]. apply (no1_app [44]); [repeat constructor; discriminate|].
      apply no1_app; [exact (quote_ref_no1 _ Hky) | repeat constructor; discriminate].
    + apply Forall_tok_app; [exact (Hy Hby Hwy) | exact (IHl Hbl Hwl Hl')].
Qed.

(* ---- the spec tree of a well-formed value has the walk's shape (value mapping off) ---- *)
Lemma json_of_wshape o : o_value_mapping o = false -> forall v d e, wf v = true -> json_of o d v = TOk e -> wshape e = true.
Proof.
  intros Hvm. induction v as [b | z | z | z | z | z | s | vs IH | kt vt es IH | et es IH | et es IH] using tval_ind';
    intros d e Hw H; cbn [json_of] in H.
  - inversion H; reflexivity.
  - inversion H; reflexivity.
  - inversion H; reflexivity.
  - inversion H; reflexivity.
  - inversion H. destruct (o_int642string o); reflexivity.
  - inversion H. cbn [wshape]. cbn [wf] in Hw. apply andb_true_iff in Hw. exact (proj1 Hw).
  - destruct d as [| [|] | | |]; inversion H; reflexivity.
  - destruct d as [| | fs | |]; try discriminate.
    match type of H with match members_of ?l with _ => _ end = _ => destruct (members_of l) as [ms|] eqn:E end; [|discriminate].
    destruct (missing_required fs (map fst vs)); [discriminate|]. inversion H; subst.
    cbn [wshape]. apply forallb_Forall_true.
    apply (members_of_forall _ ms (fun k e => wshape e = true) E).
    intros k e' Hin. apply in_map_iff in Hin. destruct Hin as (iv & Hg & Hiv).
    destruct (find_field fs (fst iv)) as [f|] eqn:Ef; [|destruct (o_disallow_unknown o); discriminate].
    rewrite Hvm in Hg. cbn [andb] in Hg.
    destruct (json_of o (snd f) (snd iv)) as [e1|e1|c1] eqn:Ej; inversion Hg; subst.
    rewrite Forall_forall in IH. exact (IH iv Hiv (snd f) e' (wf_struct_fields vs Hw iv Hiv) Ej).
  - destruct d as [| | | dk dv |]; try discriminate.
    match type of H with match keyed ?a ?b with _ => _ end = _ => destruct (keyed a b) as [ms|] eqn:E end; [|discriminate].
    inversion H; subst. cbn [wshape]. apply forallb_Forall_true.
    rewrite Forall_forall in IH.
    apply (keyed_forall _ _ ms (fun k e => wshape e = true) E).
    intros k Hk e' He'. apply in_map_iff in He'. destruct He' as (en' & Hval & Hen').
    destruct (wf_map_entries _ _ _ Hw en' Hen') as [_ Hwv].
    exact (proj2 (IH en' Hen') dv e' Hwv Hval).
  - destruct d as [| | | | s de]; try discriminate.
    destruct (all_ok (map (json_of o de) es)) as [xs|] eqn:E; [|discriminate]. inversion H; subst.
    cbn [wshape]. apply forallb_Forall_true.
    apply (all_ok_forall _ xs (fun e => wshape e = true) E).
    intros e' He'. apply in_map_iff in He'. destruct He' as (y & Hy & Hin).
    rewrite Forall_forall in IH. exact (IH y Hin de e' (wf_set_elems _ _ Hw y Hin) Hy).
  - destruct d as [| | | | s de]; try discriminate.
    destruct (all_ok (map (json_of o de) es)) as [xs|] eqn:E; [|discriminate]. inversion H; subst.
    cbn [wshape]. apply forallb_Forall_true.
    apply (all_ok_forall _ xs (fun e => wshape e = true) E).
    intros e' He'. apply in_map_iff in He'. destruct He' as (y & Hy & Hin).
    rewrite Forall_forall in IH. exact (IH y Hin de e' (wf_list_elems _ _ Hw y Hin) Hy).
Qed.

(* ---- the same for every option (spec json_ofw: js_conv members, written unset fields) and for the root spec ---- *)
Lemma jsconv_scalar_wshape o x e : wf x = true -> jsconv_scalar o x = TOk e -> wshape e = true.
Proof.
  intros Hw H. destruct x; cbn [jsconv_scalar] in H; inversion H; subst; try reflexivity.
  cbn [wshape]. cbn [wf] in Hw. apply andb_true_iff in Hw. exact (proj1 Hw).
Qed.

Lemma jsconv_wshape o x e : wf x = true -> jsconv o x = TOk e -> wshape e = true.
Proof.
  intros Hw H. destruct x; try (exact (jsconv_scalar_wshape o _ e Hw H)).
  cbn [jsconv] in H. destruct (all_ok (map (jsconv_scalar o) elems)) as [xs|] eqn:E; [|discriminate]. inversion H; subst.
  cbn [wshape]. apply forallb_Forall_true.
  apply (all_ok_forall _ xs (fun e => wshape e = true) E).
  intros e' He'. apply in_map_iff in He'. destruct He' as (y & Hy & Hin).
  exact (jsconv_scalar_wshape o y e' (wf_list_elems _ _ Hw y Hin) Hy).
Qed.

Lemma zero_wshape d : wshape (zero_of d) = true.
Proof.
  destruct d as [t|b|fs|dk dv|s de]; try reflexivity.
  cbn [zero_of]. destruct (t =? T_BOOL); [reflexivity|]. destruct (t =? T_DOUBLE); reflexivity.
Qed.

Lemma unset_walk_wshape o : forall l p us, unset_walk o l p = inl us -> forallb (fun m => wshape (snd m)) us = true.
Proof.
  intros l p us H. apply forallb_forall. intros m Hm.
  destruct (unset_walk_sound o l p us H m Hm) as (f & _ & -> & _). cbn [snd]. apply zero_wshape.
Qed.

Lemma json_ofw_wshape o : forall v d e, wf v = true -> json_ofw o d v = TOk e -> wshape e = true.
Proof.
  induction v as [b | z | z | z | z | z | s | vs IH | kt vt es IH | et es IH | et es IH] using tval_ind';
    intros d e Hw H; cbn [json_ofw] in H.
  - inversion H; reflexivity.
  - inversion H; reflexivity.
  - inversion H; reflexivity.
  - inversion H; reflexivity.
  - inversion H. destruct (o_int642string o); reflexivity.
  - inversion H. cbn [wshape]. cbn [wf] in Hw. apply andb_true_iff in Hw. exact (proj1 Hw).
  - destruct d as [| [|] | | |]; inversion H; reflexivity.
  - destruct d as [| | fs | |]; try discriminate.
    match type of H with match members_of ?l with _ => _ end = _ => destruct (members_of l) as [ms|] eqn:E end; [|discriminate].
    destruct (unset_members o fs (map fst vs)) as [us|] eqn:Eu; [|discriminate]. inversion H; subst.
    cbn [wshape]. rewrite forallb_app. apply andb_true_iff. split; [|exact (unset_walk_wshape o _ _ us Eu)].
    apply forallb_Forall_true.
    apply (members_of_forall _ ms (fun k e => wshape e = true) E).
    intros k e' Hin. apply in_map_iff in Hin. destruct Hin as (iv & Hg & Hiv).
    destruct (find_field fs (fst iv)) as [f|] eqn:Ef; [|destruct (o_disallow_unknown o); discriminate].
    pose proof (wf_struct_fields vs Hw iv Hiv) as Hwx.
    destruct (o_value_mapping o && f_jsconv (fst f)).
    + destruct (jsconv o (snd iv)) as [e1|e1|c1] eqn:Ej; inversion Hg; subst. exact (jsconv_wshape o _ _ Hwx Ej).
    + destruct (json_ofw o (snd f) (snd iv)) as [e1|e1|c1] eqn:Ej; inversion Hg; subst.
      rewrite Forall_forall in IH. exact (IH iv Hiv (snd f) e' Hwx Ej).
  - destruct d as [| | | dk dv |]; try discriminate.
    match type of H with match keyed ?a ?b with _ => _ end = _ => destruct (keyed a b) as [ms|] eqn:E end; [|discriminate].
    inversion H; subst. cbn [wshape]. apply forallb_Forall_true.
    rewrite Forall_forall in IH.
    apply (keyed_forall _ _ ms (fun k e => wshape e = true) E).
    intros k Hk e' He'. apply in_map_iff in He'. destruct He' as (en' & Hval & Hen').
    destruct (wf_map_entries _ _ _ Hw en' Hen') as [_ Hwv].
    exact (proj2 (IH en' Hen') dv e' Hwv Hval).
  - destruct d as [| | | | s de]; try discriminate.
    destruct (all_ok (map (json_ofw o de) es)) as [xs|] eqn:E; [|discriminate]. inversion H; subst.
    cbn [wshape]. apply forallb_Forall_true.
    apply (all_ok_forall _ xs (fun e => wshape e = true) E).
    intros e' He'. apply in_map_iff in He'. destruct He' as (y & Hy & Hin).
    rewrite Forall_forall in IH. exact (IH y Hin de e' (wf_set_elems _ _ Hw y Hin) Hy).
  - destruct d as [| | | | s de]; try discriminate.
    destruct (all_ok (map (json_ofw o de) es)) as [xs|] eqn:E; [|discriminate]. inversion H; subst.
    cbn [wshape]. apply forallb_Forall_true.
    apply (all_ok_forall _ xs (fun e => wshape e = true) E).
    intros e' He'. apply in_map_iff in He'. destruct He' as (y & Hy & Hin).
    rewrite Forall_forall in IH. exact (IH y Hin de e' (wf_list_elems _ _ Hw y Hin) Hy).
Qed.

(* ---- check 304 accepts only the text of the spec tree, doubles spelled by lexemes denoting their bits: EVERY option ---- *)
Theorem check304_sound o v d n r m r' out :
  wf v = true -> conforms v d = true -> desc_wf d = true -> desc_ok d = true ->
  (depth v <= n)%nat -> (depth v <= max_skip_depth)%nat ->
  t2j_walk_gen fd_mark o n d (encode v ++ r) = Some (m, r') ->
  text_agrees (S (length m)) m out = true ->
  exists e, json_ofw o d v = TOk e /\ jexp_finite e = true /\ agrees (jtoks e) out.
Proof.
  intros Hw Hc Hdw Hdo Hd Hs Hwalk Hag.
  rewrite (walk_refines_w fd_mark o v d n r Hw Hc Hdw Hd Hs) in Hwalk.
  unfold walk_spec, spec_text_p in Hwalk.
  destruct (json_ofw o d v) as [e|e|c] eqn:E; try discriminate.
  destruct (jexp_finite e) eqn:Ef; [|discriminate]. inversion Hwalk; subst m r'.
  exists e. split; [reflexivity|]. split; [exact Ef|].
  pose proof (json_ofw_wshape o v d e Hw E) as Hsh.
  pose proof (json_ofw_bytes o v d e Hw Hdo E) as Hby.
  rewrite (print_toks fd_mark e) in Hag.
  exact (text_agrees_sound (jtoks e) _ out (jtoks_ok e Hby Hsh) (Nat.lt_succ_diag_r _) Hag).
Qed.

(* the walk's own text is of that form: the exact text and every accepted text differ at double lexemes only *)
Theorem walk_text_tokens o v d n r txt r' :
  wf v = true -> conforms v d = true -> desc_wf d = true ->
  (depth v <= n)%nat -> (depth v <= max_skip_depth)%nat ->
  t2j_walk n o d (encode v ++ r) = Some (txt, r') ->
  exists e, json_ofw o d v = TOk e /\ txt = render f64_exact_lexeme (jtoks e).
Proof.
  intros Hw Hc Hdw Hd Hs Hwalk. unfold t2j_walk in Hwalk.
  rewrite (walk_refines_w f64_exact_lexeme o v d n r Hw Hc Hdw Hd Hs) in Hwalk.
  unfold walk_spec, spec_text_p in Hwalk.
  destruct (json_ofw o d v) as [e|e|c] eqn:E; try discriminate.
  destruct (jexp_finite e); [|discriminate]. inversion Hwalk; subst.
  exists e. split; [reflexivity|]. apply print_toks.
Qed.

(* ------------------------------------------------------------------ completeness of check 304's comparison ----
   in the token sequence of a tree every double is followed by a byte that cannot continue a number *)
Lemma sep_ok_app_bytes a r : (forall t, In t a -> match t with TBytes _ => True | TDouble _ => False end) -> sep_ok r -> sep_ok (a ++ r).
Proof.
  intros Ha Hr. induction a as [|t a IH]; [exact Hr|]. cbn [app].
  pose proof (Ha t (or_introl eq_refl)) as Ht. destruct t; [|destruct Ht]. cbn [sep_ok]. apply IH. intros t' H'. apply Ha. right. exact H'.
Qed.

Definition SepP (e : jexp) : Prop := forall r, starts_sep r -> sep_ok r -> sep_ok (jtoks e ++ r) /\ (jtoks e <> [] ).

Lemma jtoks_nonnil : forall e, jtoks e <> [].
Proof.
  induction e as [b | z | b | s | e IH | s | z | xs IH | ms IH] using jexp_ind'; cbn [jtoks]; try discriminate.
  destruct e; try discriminate; exact IH.
Qed.

Lemma sep_tail_elems l r : Forall (fun e => forall r, starts_sep r -> sep_ok r -> sep_ok (jtoks e ++ r)) l ->
  sep_ok r ->
  sep_ok (flat_map (fun y => TBytes [44] :: jtoks y) l ++ TBytes [93] :: r) /\
  starts_sep (flat_map (fun y => TBytes [44] :: jtoks y) l ++ TBytes [93] :: r).
Proof.
  intros HF Hr. induction l as [|y l IH]; [split; [exact Hr | reflexivity]|].
  inversion HF as [|? ? Hy HF']; subst. destruct (IH HF') as [I1 I2].
  cbn [flat_map]. rewrite <- app_assoc. cbn [app sep_ok]. split; [|reflexivity].
  apply Hy; assumption.
Qed.

Lemma sep_tail_mems (l : list (list Z * jexp)) r :
  Forall (fun m => forall r, starts_sep r -> sep_ok r -> sep_ok (jtoks (snd m) ++ r)) l ->
  sep_ok r ->
  sep_ok (flat_map (fun y => TBytes (44 :: quote_ref (fst y) ++ [58]) :: jtoks (snd y)) l ++ TBytes [125] :: r) /\
  starts_sep (flat_map (fun y => TBytes (44 :: quote_ref (fst y) ++ [58]) :: jtoks (snd y)) l ++ TBytes [125] :: r).
Proof.
  intros HF Hr. induction l as [|y l IH]; [split; [exact Hr | reflexivity]|].
  inversion HF as [|? ? Hy HF']; subst. destruct (IH HF') as [I1 I2].
  cbn [flat_map]. rewrite <- app_assoc. cbn [app sep_ok]. split; [|reflexivity].
  apply Hy; assumption.
Qed.

Lemma jtoks_sep : forall e r, starts_sep r -> sep_ok r -> sep_ok (jtoks e ++ r).
Proof.
  induction e as [b | z | b | s | e IH | s | z | xs IH | ms IH] using jexp_ind'; intros r Hs Hr; cbn [jtoks].
  - exact Hr.
  - exact Hr.
  - cbn [app sep_ok]. split; assumption.
  - exact Hr.
  - destruct e; try exact (IH r Hs Hr); cbn [app sep_ok]; try exact Hr.
    split; [reflexivity|exact Hr].
  - exact Hr.
  - exact Hr.
  - cbn [app sep_ok]. destruct xs as [|x l]; [exact Hr|].
    inversion IH as [|? ? Hx Hl]; subst. destruct (sep_tail_elems l r Hl Hr) as [I1 I2].
    rewrite <- !app_assoc. cbn [app]. apply Hx; assumption.
  - cbn [app sep_ok]. destruct ms as [|m l]; [exact Hr|].
    inversion IH as [|? ? Hm Hl]; subst. destruct (sep_tail_mems l r Hl Hr) as [I1 I2].
    cbn [app sep_ok]. rewrite <- !app_assoc. cbn [app]. apply Hm; assumption.
Qed.

Lemma jtoks_sep_ok e : sep_ok (jtoks e).
Proof. rewrite <- (app_nil_r (jtoks e)). apply jtoks_sep; exact I. Qed.

(* check 304 never raises a false alarm on the text: whatever spells the spec tree with correctly rounded double lexemes
   (any JSON number lexeme denoting the bits) is accepted against the marker walk's text *)
Theorem check304_complete o v d n r m r' out e :
  wf v = true -> conforms v d = true -> desc_wf d = true -> desc_ok d = true ->
  (depth v <= n)%nat -> (depth v <= max_skip_depth)%nat ->
  t2j_walk_gen fd_mark o n d (encode v ++ r) = Some (m, r') ->
  json_ofw o d v = TOk e -> agrees (jtoks e) out ->
  text_agrees (S (length m)) m out = true.
Proof.
  intros Hw Hc Hdw Hdo Hd Hs Hwalk E Hag.
  rewrite (walk_refines_w fd_mark o v d n r Hw Hc Hdw Hd Hs) in Hwalk.
  unfold walk_spec, spec_text_p in Hwalk. rewrite E in Hwalk.
  destruct (jexp_finite e); [|discriminate]. inversion Hwalk; subst m r'.
  rewrite (print_toks fd_mark e).
  apply (text_agrees_complete (jtoks e) out Hag); [|apply jtoks_sep_ok|apply Nat.lt_succ_diag_r].
  exact (jtoks_ok e (json_ofw_bytes o v d e Hw Hdo E) (json_ofw_wshape o v d e Hw E)).
Qed.
