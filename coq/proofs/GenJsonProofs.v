(* (G) internal/json IsSpace, the internal/rt tables SafeSet / Hex and the per-byte steps of the portable quoteString
   (internal/json/api_compat.go), translated from the Go source on every build (gen/Gen_json.v, gen/Gen_rt.v, gen/Gen_jsonportable.v),
   against model/Json.v: is_ws, hex_digit, esc_byte (the escaping behind quote_ref). *)
From Coq Require Import ZArith List Bool Lia.
From DG Require Import GoSem GoSemLemmas GenProtowireProofs GenThriftProofs CaseFormat Json Check20g.
From DG Require Gen_rt Gen_json Gen_jsonportable.
Import ListNotations.
Local Open Scope Z_scope.

Lemma sweep_below (n : Z) (P : Z -> bool) : forallb P (seqZ 0 n) = true -> forall t, 0 <= t < n -> P t = true.
Proof. intros H t Ht. rewrite forallb_forall in H. apply H. apply seqZ_In. exact Ht. Qed.

Theorem IsSpace_is_ws c : 0 <= c < 256 -> Gen_json.IsSpace c = is_ws c.
Proof. intros H. apply eqb_prop. revert c H. apply byte_sweep. vm_compute. reflexivity. Qed.

Theorem Hex_is_hex_digit d : 0 <= d < 16 -> Gen_rt.Hex d = hex_digit d.
Proof. intros H. apply Z.eqb_eq. revert d H. apply (sweep_below 16). vm_compute. reflexivity. Qed.

(* an ASCII byte is "safe" (copied raw) exactly when the model's esc_byte leaves it alone *)
Theorem SafeSet_is_unescaped b : 0 <= b < 128 -> Gen_rt.SafeSet b = bytes_eqb (esc_byte b) [b].
Proof. intros H. apply eqb_prop. revert b H. apply (sweep_below 128). vm_compute. reflexivity. Qed.

Lemma bytes_eqb_true' a : forall b, bytes_eqb a b = true -> a = b.
Proof.
  induction a as [|x a IH]; intros [|y b] H; try discriminate; [reflexivity|].
  cbn in H. apply andb_true_iff in H. destruct H as [H1 H2]. apply Z.eqb_eq in H1. subst y. f_equal. apply IH. exact H2.
Qed.

(* what the ASCII step appends for an unsafe byte, as a function of the byte only *)
Definition ascii_suffix (b : Z) : list Z :=
  92 :: (if (b =? 92) || (b =? 34) then [b] else if b =? 10 then [110] else if b =? 13 then [114] else if b =? 9 then [116]
         else [117; 48; 48; Gen_rt.Hex (Z.shiftr b 4); Gen_rt.Hex (Z.land b 15)]).

Lemma ascii_suffix_is_esc_byte b : 0 <= b < 128 -> Gen_rt.SafeSet b = false -> ascii_suffix b = esc_byte b.
Proof.
  intros H. assert (E : implb (negb (Gen_rt.SafeSet b)) (bytes_eqb (ascii_suffix b) (esc_byte b)) = true).
  { revert b H. apply (sweep_below 128). vm_compute. reflexivity. }
  intros Hs. apply bytes_eqb_true'. rewrite Hs in E. exact E.
Qed.

Definition pending (e s : list Z) (start i : Z) : list Z := if start <? i then e ++ slice_range s start i else e.

Lemma quoteString_ascii_unfold e s start i b :
  Gen_jsonportable.quoteString_ascii e s start i b =
    if Gen_rt.SafeSet b then (Gen_jsonportable.Out_continue, wraps 64 (i + 1), e, start)
    else (Gen_jsonportable.Out_continue, wraps 64 (i + 1), pending e s start i ++ ascii_suffix b, wraps 64 (i + 1)).
Proof.
  unfold Gen_jsonportable.quoteString_ascii, pending, ascii_suffix.
  destruct (Gen_rt.SafeSet b); [reflexivity|].
  destruct (start <? i); destruct ((b =? 92) || (b =? 34)); destruct (b =? 10); destruct (b =? 13); destruct (b =? 9);
    cbv zeta; rewrite <- ?app_assoc; reflexivity.
Qed.

(* the ASCII step of quoteString: a safe byte is left pending (copied later as part of a run), an unsafe byte flushes the pending run
   s[start:i] and appends exactly esc_byte b; i advances by one *)
Theorem quoteString_ascii_is_esc_byte e s start i b : 0 <= b < 128 -> 0 <= i < 2 ^ 62 ->
  Gen_jsonportable.quoteString_ascii e s start i b =
    if bytes_eqb (esc_byte b) [b] then (Gen_jsonportable.Out_continue, i + 1, e, start)
    else (Gen_jsonportable.Out_continue, i + 1, pending e s start i ++ esc_byte b, i + 1).
Proof.
  intros Hb Hi. rewrite quoteString_ascii_unfold. rewrite <- SafeSet_is_unescaped by exact Hb.
  assert (W : wraps 64 (i + 1) = i + 1).
  { unfold wraps. change (2 ^ (64 - 1)) with 9223372036854775808. change (2 ^ 64) with 18446744073709551616.
    change (2 ^ 62) with 4611686018427387904 in Hi. rewrite Z.mod_small by lia. lia. }
  rewrite W. destruct (Gen_rt.SafeSet b) eqn:E; [reflexivity|]. rewrite ascii_suffix_is_esc_byte by assumption. reflexivity.
Qed.

(* the line-separator step: U+2028 / U+2029 are written as the six characters   /   (the native encoder leaves them raw:
   both spellings denote the same string) *)
Theorem quoteString_linesep_spec e s start i c : c = 8232 \/ c = 8233 -> 0 <= i < 2 ^ 62 ->
  Gen_jsonportable.quoteString_linesep e s start i c 3 =
    (Gen_jsonportable.Out_continue, pending e s start i ++ [92; 117; 50; 48; 50; hex_digit (c mod 16)], i + 3, i + 3).
Proof.
  intros Hc Hi. unfold Gen_jsonportable.quoteString_linesep, pending.
  assert (W : wraps 64 (i + 3) = i + 3).
  { unfold wraps. change (2 ^ (64 - 1)) with 9223372036854775808. change (2 ^ 64) with 18446744073709551616.
    change (2 ^ 62) with 4611686018427387904 in Hi. rewrite Z.mod_small by lia. lia. }
  rewrite W. destruct Hc; subst c; destruct (start <? i); cbv zeta; rewrite <- ?app_assoc; reflexivity.
Qed.
