(* C06 "decoders survive arbitrary bytes", Thrift side, for ARBITRARY byte lists (no well-formedness hypothesis):
   (A) the Thrift -> JSON byte walk (T2JBytes.t2j_walk_gen): the remainder is a strictly shorter SUFFIX of the input
       (the cursor only moves forward, by at least one byte, and never past the end), with an explicit-cursor wrapper;
       the text written is linear in the bytes consumed;
   (B) the DOM load (ThriftDom.load / load_child): suffix + progress, fuel/depth independence, a fuel-explicit copy that
       equals the model, and allocation (number of tree nodes, raw slices) linear in / inside the buffer;
   (C) an explicit-cursor wrapper for ThriftGeneric.get_by_path.
   Builds on proofs/RobustWalkProofs.v. *)
From Coq Require Import ZArith List Bool Lia.
From DG Require Import ProtoWireRef ProtoWireRefProofs ThriftWire ThriftWireProofs ThriftGeneric ThriftGenericProofs.
From DG Require Import Json Num Base64 T2J T2JUnset T2JBytes CaseFormat ThriftDom.
From DG Require Import RobustWalkProofs.
Import ListNotations.
Local Open Scope Z_scope.

(* ====================================================================================================== *)
(* generic: strictly shorter suffix = a cursor that moved forward, inside the buffer                        *)
(* ====================================================================================================== *)
Lemma suffix_cursor (r bs : list Z) : suffix_of r bs -> (length r < length bs)%nat ->
  exists c, (1 <= c <= length bs)%nat /\ r = skipn c bs.
Proof.
  intros [n ->] Hl. rewrite skipn_length in Hl. exists (Nat.min n (length bs)). split; [lia|].
  destruct (Nat.le_ge_cases n (length bs)) as [H|H].
  - rewrite Nat.min_l by assumption. reflexivity.
  - rewrite Nat.min_r by assumption. rewrite skipn_all. apply skipn_all2. assumption.
Qed.

Lemma suffix_as_length (r bs : list Z) : suffix_of r bs -> r = skipn (length bs - length r) bs.
Proof.
  intros [n ->]. rewrite skipn_length.
  destruct (Nat.le_ge_cases n (length bs)) as [H|H].
  - replace (length bs - (length bs - n))%nat with n by lia. reflexivity.
  - rewrite (skipn_all2 bs H). replace (length bs - (length bs - n))%nat with (length bs) by lia.
    symmetry. apply skipn_all.
Qed.

(* ====================================================================================================== *)
(* (A1) T2J byte walk: the remainder is a suffix                                                            *)
(* ====================================================================================================== *)
Lemma rd_int_suffix n bs z r : rd_int n bs = Some (z, r) -> suffix_of r bs.
Proof.
  unfold rd_int. destruct (take n bs) as [[x r1]|] eqn:E; [|discriminate]. intros H; inversion H; subst.
  eapply take_suffix; eassumption.
Qed.

Lemma rd_uint_suffix n bs z r : rd_uint n bs = Some (z, r) -> suffix_of r bs.
Proof.
  unfold rd_uint. destruct (take n bs) as [[x r1]|] eqn:E; [|discriminate]. intros H; inversion H; subst.
  eapply take_suffix; eassumption.
Qed.

Lemma rd_bytes_suffix bs s r : rd_bytes bs = Some (s, r) -> suffix_of r bs.
Proof.
  unfold rd_bytes. destruct (rd_int 4 bs) as [[n r1]|] eqn:E; [|discriminate]. apply rd_int_suffix in E.
  destruct ((n <? 0) || (n >? zlen r1)); [discriminate|]. intros H; inversion H; subst.
  eapply suffix_trans; [apply suffix_skipn|assumption].
Qed.

Section T2JSuffix.
  Variable fd : Z -> list Z.
  Variable o : Z.

  Lemma walk_scalar_suffix t bs txt r : walk_scalar fd o t bs = Some (txt, r) -> suffix_of r bs.
  Proof.
    unfold walk_scalar.
    destruct (t =? T_BOOL). { destruct bs; [discriminate|]. intros H; inversion H; subst. apply suffix_cons, suffix_refl. }
    destruct (t =? T_BYTE). { destruct (rd_int 1 bs) as [[z r1]|] eqn:E; [|discriminate]. intros H; inversion H; subst. eapply rd_int_suffix; eassumption. }
    destruct (t =? T_I16). { destruct (rd_int 2 bs) as [[z r1]|] eqn:E; [|discriminate]. intros H; inversion H; subst. eapply rd_int_suffix; eassumption. }
    destruct (t =? T_I32). { destruct (rd_int 4 bs) as [[z r1]|] eqn:E; [|discriminate]. intros H; inversion H; subst. eapply rd_int_suffix; eassumption. }
    destruct (t =? T_I64). { destruct (rd_int 8 bs) as [[z r1]|] eqn:E; [|discriminate]. intros H; inversion H; subst. eapply rd_int_suffix; eassumption. }
    destruct (t =? T_DOUBLE); [|discriminate].
    destruct (rd_uint 8 bs) as [[z r1]|] eqn:E; [|discriminate]. destruct (f64_is_finite z); [|discriminate].
    intros H; inversion H; subst. eapply rd_uint_suffix; eassumption.
  Qed.

  Lemma walk_string_suffix b bs txt r : walk_string o b bs = Some (txt, r) -> suffix_of r bs.
  Proof.
    unfold walk_string. destruct (rd_bytes bs) as [[s r1]|] eqn:E; [|discriminate]. intros H; inversion H; subst.
    eapply rd_bytes_suffix; eassumption.
  Qed.

  Lemma walk_key_t_suffix t bs txt r : walk_key_t o t bs = Some (txt, r) -> suffix_of r bs.
  Proof.
    unfold walk_key_t.
    destruct (t =? T_BYTE). { destruct (rd_int 1 bs) as [[z r1]|] eqn:E; [|discriminate]. intros H; inversion H; subst. eapply rd_int_suffix; eassumption. }
    destruct (t =? T_I16). { destruct (rd_int 2 bs) as [[z r1]|] eqn:E; [|discriminate]. intros H; inversion H; subst. eapply rd_int_suffix; eassumption. }
    destruct (t =? T_I32). { destruct (rd_int 4 bs) as [[z r1]|] eqn:E; [|discriminate]. intros H; inversion H; subst. eapply rd_int_suffix; eassumption. }
    destruct (t =? T_I64). { destruct (rd_int 8 bs) as [[z r1]|] eqn:E; [|discriminate]. intros H; inversion H; subst. eapply rd_int_suffix; eassumption. }
    destruct (t =? T_STRING); [|discriminate].
    destruct (rd_bytes bs) as [[s r1]|] eqn:E; [|discriminate]. intros H; inversion H; subst. eapply rd_bytes_suffix; eassumption.
  Qed.

  Lemma walk_key_suffix dk bs txt r : walk_key o dk bs = Some (txt, r) -> suffix_of r bs.
  Proof. apply walk_key_t_suffix. Qed.

  (* value mapping (api.js_conv) *)
  Lemma walk_vm_scalar_suffix t bs txt r : walk_vm_scalar fd o t bs = Some (txt, r) -> suffix_of r bs.
  Proof.
    unfold walk_vm_scalar. destruct (t =? T_DOUBLE); [|apply walk_key_t_suffix].
    destruct (rd_uint 8 bs) as [[z r1]|] eqn:E; [|discriminate]. destruct (f64_is_finite z); [|discriminate].
    intros H; inversion H; subst. eapply rd_uint_suffix; eassumption.
  Qed.

  Lemma walk_vm_elems_suffix : forall n et c bs txt r, walk_vm_elems fd o n et c bs = Some (txt, r) -> suffix_of r bs.
  Proof.
    induction n as [|n IH]; intros et c bs txt r; cbn [walk_vm_elems].
    - intros H; inversion H; subst. apply suffix_refl.
    - destruct (walk_vm_scalar fd o et bs) as [[t1 r1]|] eqn:E1; [|discriminate]. apply walk_vm_scalar_suffix in E1.
      destruct (walk_vm_elems fd o n et true r1) as [[tl r2]|] eqn:E2; [|discriminate]. apply IH in E2.
      intros H; inversion H; subst. exact (suffix_trans _ _ _ E2 E1).
  Qed.

  Lemma walk_vm_suffix d bs txt r : walk_vm fd o d bs = Some (txt, r) -> suffix_of r bs.
  Proof.
    unfold walk_vm. destruct d as [t|b|fs|dk dv|s de]; try apply walk_vm_scalar_suffix.
    destruct s; [apply walk_vm_scalar_suffix|].
    destruct bs as [|et r0]; [discriminate|].
    destruct (negb (valid_ttype et)); [discriminate|].
    destruct (skip_count r0) as [[sz r2]|] eqn:Ec; [|discriminate]. apply skip_count_suffix in Ec.
    destruct (sz >? zlen r2); [discriminate|].
    destruct (walk_vm_elems fd o (Z.to_nat sz) et false r2) as [[t r3]|] eqn:E; [|discriminate]. apply walk_vm_elems_suffix in E.
    intros H; inversion H; subst. apply suffix_cons. exact (suffix_trans _ _ _ E Ec).
  Qed.

  Section LoopsSuffix.
    Variable rec : tdesc -> list Z -> option (list Z * list Z).
    Variable bx : fmeta -> bool.
    Hypothesis rec_suf : forall d b t r, rec d b = Some (t, r) -> suffix_of r b.

    Lemma walk_fields_suffix : forall f fs c bm bs txt r,
      walk_fields fd o rec bx f fs c bm bs = Some (txt, r) -> suffix_of r bs.
    Proof.
      induction f as [|f IH]; intros fs c bm bs txt r; cbn [walk_fields]; [discriminate|].
      destruct bs as [|t r0]; [discriminate|].
      destruct (negb (valid_ttype t)); [discriminate|].
      destruct (t =? 0).
      { destruct (walk_unsets fd o (sort_flds fs) bm c); [|discriminate]. intros H; inversion H; subst. apply suffix_cons, suffix_refl. }
      destruct (rd_int 2 r0) as [[id r2]|] eqn:E2; [|discriminate]. apply rd_int_suffix in E2.
      destruct (T2J.find_field fs id) as [fl|].
      - destruct (bx (fst fl)).
        { destruct (skip_go T_STRUCT r2) as [r3|] eqn:E3; [|discriminate]. apply skip_go_suffix_of in E3.
          intros H. apply IH in H. apply suffix_cons. exact (suffix_trans _ _ _ H (suffix_trans _ _ _ E3 E2)). }
        destruct (if o_value_mapping o && f_jsconv (fst fl) then walk_vm fd o (snd fl) r2 else rec (snd fl) r2)
          as [[t1 r3]|] eqn:E3; [|discriminate].
        assert (S3 : suffix_of r3 r2).
        { destruct (o_value_mapping o && f_jsconv (fst fl)); [eapply walk_vm_suffix|eapply rec_suf]; eassumption. }
        clear E3. rename S3 into E3.
        destruct (walk_fields fd o rec bx f fs true (bm_clear id bm) r3) as [[tl r4]|] eqn:E4; [|discriminate].
        apply IH in E4. intros H; inversion H; subst.
        apply suffix_cons. eapply suffix_trans; [eassumption|]. eapply suffix_trans; eassumption.
      - destruct (o_disallow_unknown o); [discriminate|].
        destruct (skip_go t r2) as [r3|] eqn:E3; [|discriminate]. apply skip_go_suffix_of in E3.
        intros H. apply IH in H.
        apply suffix_cons. eapply suffix_trans; [eassumption|]. eapply suffix_trans; eassumption.
    Qed.

    Lemma walk_elems_suffix : forall n de c bs txt r, walk_elems rec n de c bs = Some (txt, r) -> suffix_of r bs.
    Proof.
      induction n as [|n IH]; intros de c bs txt r; cbn [walk_elems].
      - intros H; inversion H; subst. apply suffix_refl.
      - destruct (rec de bs) as [[t1 r1]|] eqn:E1; [|discriminate]. apply rec_suf in E1.
        destruct (walk_elems rec n de true r1) as [[tl r2]|] eqn:E2; [|discriminate]. apply IH in E2.
        intros H; inversion H; subst. eapply suffix_trans; eassumption.
    Qed.

    Lemma walk_pairs_suffix : forall n dk dv c bs txt r, walk_pairs o rec n dk dv c bs = Some (txt, r) -> suffix_of r bs.
    Proof.
      induction n as [|n IH]; intros dk dv c bs txt r; cbn [walk_pairs].
      - intros H; inversion H; subst. apply suffix_refl.
      - destruct (walk_key o dk bs) as [[kt r0]|] eqn:E0; [|discriminate]. apply walk_key_suffix in E0.
        destruct (rec dv r0) as [[t1 r1]|] eqn:E1; [|discriminate]. apply rec_suf in E1.
        destruct (walk_pairs o rec n dk dv true r1) as [[tl r2]|] eqn:E2; [|discriminate]. apply IH in E2.
        intros H; inversion H; subst. eapply suffix_trans; [eassumption|]. eapply suffix_trans; eassumption.
    Qed.
  End LoopsSuffix.

  Theorem t2j_walk_suffix : forall n d bs txt r, t2j_walk_gen fd o n d bs = Some (txt, r) -> suffix_of r bs.
  Proof.
    induction n as [|n IH]; intros d bs txt r; destruct d as [t|b|fs|dk dv|s de]; cbn [t2j_walk_gen];
      try discriminate; try apply walk_scalar_suffix; try apply walk_string_suffix.
    - destruct (walk_fields fd o (t2j_walk_gen fd o n) (fun _ => false) (S (length bs)) fs false (bm_init fs) bs) as [[t r1]|] eqn:E; [|discriminate].
      apply walk_fields_suffix in E; [|exact IH]. intros H; inversion H; subst. assumption.
    - destruct bs as [|kt [|vt r0]]; try discriminate.
      destruct (negb (valid_ttype kt && valid_ttype vt)); [discriminate|].
      destruct (skip_count r0) as [[sz r2]|] eqn:Ec; [|discriminate]. apply skip_count_suffix in Ec.
      destruct (negb ((kt =? desc_type dk) && (vt =? desc_type dv))); [discriminate|].
      destruct (sz >? zlen r2); [discriminate|].
      destruct (walk_pairs o (t2j_walk_gen fd o n) (Z.to_nat sz) dk dv false r2) as [[t r3]|] eqn:E; [|discriminate].
      apply walk_pairs_suffix in E; [|exact IH]. intros H; inversion H; subst.
      do 2 apply suffix_cons. eapply suffix_trans; eassumption.
    - destruct bs as [|et r0]; try discriminate.
      destruct (negb (valid_ttype et)); [discriminate|].
      destruct (skip_count r0) as [[sz r2]|] eqn:Ec; [|discriminate]. apply skip_count_suffix in Ec.
      destruct (negb (et =? desc_type de)); [discriminate|].
      destruct (sz >? zlen r2); [discriminate|].
      destruct (walk_elems (t2j_walk_gen fd o n) (Z.to_nat sz) de false r2) as [[t r3]|] eqn:E; [|discriminate].
      apply walk_elems_suffix in E; [|exact IH]. intros H; inversion H; subst.
      apply suffix_cons. eapply suffix_trans; eassumption.
  Qed.

  (* the walk = a cursor that moves forward by at least one byte and stays inside the buffer *)
  Corollary t2j_walk_cursor n d bs txt r : t2j_walk_gen fd o n d bs = Some (txt, r) ->
    exists c, (1 <= c <= length bs)%nat /\ r = skipn c bs.
  Proof.
    intros H. apply suffix_cursor; [eapply t2j_walk_suffix|eapply t2j_walk_shrinks]; eassumption.
  Qed.

  (* ---- (A2) explicit cursor: the walk started at offset c of ONE buffer returns the new offset ---- *)
  Definition t2j_at (n : nat) (d : tdesc) (bs : list Z) (c : nat) : option (list Z * nat) :=
    match t2j_walk_gen fd o n d (skipn c bs) with
    | Some (txt, r) => Some (txt, (length bs - length r)%nat)
    | None => None
    end.

  Theorem t2j_at_in_bounds n d bs c txt c' : (c <= length bs)%nat -> t2j_at n d bs c = Some (txt, c') ->
    (c < c' <= length bs)%nat /\
    exists r, t2j_walk_gen fd o n d (skipn c bs) = Some (txt, r) /\ r = skipn c' bs.
  Proof.
    intros Hc. unfold t2j_at.
    destruct (t2j_walk_gen fd o n d (skipn c bs)) as [[t r]|] eqn:E; [|discriminate].
    intros H; inversion H; subst. clear H.
    pose proof (t2j_walk_shrinks _ _ _ _ _ _ _ E) as Hl. rewrite skipn_length in Hl.
    pose proof (t2j_walk_suffix _ _ _ _ _ E) as Hs.
    split; [lia|]. exists r. split; [reflexivity|].
    apply suffix_as_length. eapply suffix_trans; [eassumption|apply suffix_skipn].
  Qed.

  (* successive reads through the wrapper never go back: the new offset is a valid start offset again *)
  Corollary t2j_at_next_valid n d bs c txt c' : (c <= length bs)%nat -> t2j_at n d bs c = Some (txt, c') -> (c' <= length bs)%nat.
  Proof. intros Hc H. apply t2j_at_in_bounds in H; [lia|assumption]. Qed.
End T2JSuffix.

(* ====================================================================================================== *)
(* (C) explicit cursor for the path search                                                                  *)
(* ====================================================================================================== *)
Definition gbp_at (t : Z) (bs : list Z) (c : nat) (p : list pstep) : gres :=
  get_by_path t (skipn c bs) (Z.of_nat c) p.

Theorem gbp_at_in_bounds t bs c p t' s e : (c <= length bs)%nat -> gbp_at t bs c p = GFound t' s e ->
  Z.of_nat c <= s /\ s < e /\ e <= zlen bs.
Proof.
  intros Hc H. unfold gbp_at in H. apply get_by_path_in_bounds in H.
  unfold zlen in *. rewrite skipn_length in H. lia.
Qed.

(* the span handed back, as a slice of the ROOT buffer, is not empty and lies inside it *)
Corollary gbp_at_slice t bs c p t' s e : (c <= length bs)%nat -> gbp_at t bs c p = GFound t' s e ->
  length (firstn (Z.to_nat (e - s)) (skipn (Z.to_nat s) bs)) = Z.to_nat (e - s) /\ (0 < Z.to_nat (e - s))%nat.
Proof.
  intros Hc H. apply gbp_at_in_bounds in H; [|assumption]. unfold zlen in H.
  rewrite firstn_length, skipn_length. lia.
Qed.

(* ====================================================================================================== *)
(* (B) ThriftDom.load: the DOM load walking arbitrary bytes                                                 *)
(* ====================================================================================================== *)

(* ---- elementary reads ---- *)
Lemma dec_count_len bs n r : dec_count bs = Some (n, r) ->
  (length bs = 4 + length r)%nat /\ (n <= length r)%nat /\ suffix_of r bs.
Proof.
  unfold dec_count. destruct (take 4 bs) as [[x r1]|] eqn:E; [|discriminate]. cbv zeta.
  destruct (dec_int x <? 0) eqn:E1; [discriminate|]. destruct (dec_int x >? zlen r1) eqn:E2; [discriminate|].
  intros H; inversion H; subst. apply Z.ltb_ge in E1. rewrite Z.gtb_ltb in E2. apply Z.ltb_ge in E2.
  pose proof (take_suffix _ _ _ _ E). apply take_len in E. unfold zlen in E2. repeat split; try assumption; lia.
Qed.

Lemma dec_scalar_shrinks t bs v r : dec_scalar t bs = Some (v, r) -> (length r < length bs)%nat.
Proof.
  unfold dec_scalar.
  destruct (t =? T_BOOL). { destruct bs; [discriminate|]. intros H; inversion H; subst. cbn [length]. lia. }
  destruct (t =? T_BYTE). { destruct (take 1 bs) as [[x r1]|] eqn:E; [|discriminate]. intros H; inversion H; subst. apply take_len in E. lia. }
  destruct (t =? T_I16). { destruct (take 2 bs) as [[x r1]|] eqn:E; [|discriminate]. intros H; inversion H; subst. apply take_len in E. lia. }
  destruct (t =? T_I32). { destruct (take 4 bs) as [[x r1]|] eqn:E; [|discriminate]. intros H; inversion H; subst. apply take_len in E. lia. }
  destruct (t =? T_I64). { destruct (take 8 bs) as [[x r1]|] eqn:E; [|discriminate]. intros H; inversion H; subst. apply take_len in E. lia. }
  destruct (t =? T_DOUBLE). { destruct (take 8 bs) as [[x r1]|] eqn:E; [|discriminate]. intros H; inversion H; subst. apply take_len in E. lia. }
  destruct (t =? T_STRING); [|discriminate].
  destruct (take 4 bs) as [[x r1]|] eqn:E; [|discriminate]. cbv zeta.
  destruct (dec_int x <? 0); [discriminate|].
  destruct (take (Z.to_nat (dec_int x)) r1) as [[s r2]|] eqn:E2; [|discriminate].
  intros H; inversion H; subst. apply take_len in E. apply take_len in E2. lia.
Qed.

(* a map key takes at least one byte, and what follows it is a suffix *)
Lemma read_key_suffix kt bs k r : read_key kt bs = Some (k, r) -> suffix_of r bs /\ (length r < length bs)%nat.
Proof.
  unfold read_key. destruct (kt =? T_STRING).
  { destruct (dec_scalar T_STRING bs) as [[v r1]|] eqn:E; [|discriminate]. destruct v; try discriminate.
    intros H; inversion H; subst. split; [eapply dec_scalar_suffix|eapply dec_scalar_shrinks]; eassumption. }
  destruct (is_int_type kt).
  { destruct (dec_scalar kt bs) as [[v r1]|] eqn:E; [|discriminate]. destruct (int_of_key v); [|discriminate].
    intros H; inversion H; subst. split; [eapply dec_scalar_suffix|eapply dec_scalar_shrinks]; eassumption. }
  destruct (skip_go kt bs) as [r1|] eqn:E; [|discriminate].
  intros H; inversion H; subst. split; [eapply skip_go_suffix_of|eapply skip_go_shrinks]; eassumption.
Qed.

(* ---- what a loaded tree allocates ---- *)
(* number of PathNodes *)
Fixpoint tree_nodes (x : tree) : nat :=
  match x with T _ _ _ _ next => S (fold_right (fun kc m => (tree_nodes (snd kc) + m)%nat) O next) end.
Definition kids_nodes (cs : list (pkey * tree)) : nat := fold_right (fun kc m => (tree_nodes (snd kc) + m)%nat) O cs.

(* a property of every node of a tree *)
Fixpoint tree_all (Q : tree -> Prop) (x : tree) : Prop :=
  match x with T _ _ _ _ next => Q x /\ fold_right (fun kc acc => tree_all Q (snd kc) /\ acc) True next end.
Definition kids_all (Q : tree -> Prop) (cs : list (pkey * tree)) : Prop :=
  fold_right (fun kc acc => tree_all Q (snd kc) /\ acc) True cs.

Lemma tree_all_here Q x : tree_all Q x -> Q x.
Proof. destruct x. intros [H _]. exact H. Qed.

Lemma tree_all_kids Q x : tree_all Q x -> kids_all Q (t_next x).
Proof. destruct x. intros [_ H]. exact H. Qed.

Lemma kids_all_Forall Q cs : kids_all Q cs <-> Forall (fun kc => tree_all Q (snd kc)) cs.
Proof.
  induction cs as [|kc cs IH]; cbn [kids_all fold_right]; split; intros H.
  - constructor. - exact I.
  - destruct H as [Ha Hb]. constructor; [assumption|]. apply IH. exact Hb.
  - inversion H; subst. split; [assumption|]. apply IH. assumption.
Qed.

Lemma tree_all_impl (Q Q' : tree -> Prop) : (forall y, Q y -> Q' y) -> forall x, tree_all Q x -> tree_all Q' x.
Proof.
  intros HQ. fix IH 1. intros [t et kt raw next]. cbn [tree_all]. intros [H1 H2]. split; [apply HQ; exact H1|].
  clear H1. induction next as [|kc next IHn]; cbn [fold_right] in *; [exact I|].
  destruct H2 as [Ha Hb]. split; [apply IH; exact Ha|apply IHn; exact Hb].
Qed.

(* raw is a contiguous slice of the buffer: no byte of it comes from elsewhere *)
Definition slice_of (raw buf : list Z) : Prop := exists a k, raw = firstn k (skipn a buf).

Lemma slice_of_length raw buf : slice_of raw buf -> (length raw <= length buf)%nat.
Proof. intros (a & k & ->). rewrite firstn_length, skipn_length. lia. Qed.

Lemma slice_of_nil buf : slice_of [] buf.
Proof. exists 0%nat, 0%nat. reflexivity. Qed.

Lemma slice_of_prefix b buf k : suffix_of b buf -> slice_of (firstn k b) buf.
Proof. intros [a ->]. exists a, k. reflexivity. Qed.

(* one unfolding of handleChild (same statement as ThriftDomProofs.load_child_eq; restated to keep this file independent) *)
Lemma load_child_unfold d rec ns t bs : load_child d rec ns t bs =
  if rec && is_container t then
    match d with
    | O => None
    | S d' =>
      if ns then
        match scan (load_child d' rec ns) t bs with
        | Some (et, kt, cs, rest) => Some (T t et kt [] cs, rest)
        | None => None
        end
      else
        match skip_go t bs with
        | None => None
        | Some rest0 =>
          let raw := firstn (length bs - length rest0) bs in
          match scan (load_child d' rec ns) t bs with
          | Some (et, kt, cs, rest) => Some (T t (hdr_et t raw) (hdr_kt t raw) raw cs, rest)
          | None => None
          end
        end
    end
  else
    match skip_go t bs with
    | None => None
    | Some rest => Some (leaf_of t (firstn (length bs - length rest) bs), rest)
    end.
Proof. destruct d; reflexivity. Qed.

(* ---- B1 + B3 in one induction: relative to a ROOT buffer of which every buffer met is a suffix ---- *)
Section LoadRoot.
  Variable root : list Z.
  Definition raw_inside (x : tree) : Prop := tree_all (fun y => slice_of (t_raw y) root) x.

  (* what one handleChild guarantees *)
  Definition child_good (child : Z -> list Z -> option (tree * list Z)) : Prop :=
    forall t b x r, suffix_of b root -> child t b = Some (x, r) ->
      suffix_of r b /\ (length r < length b)%nat /\ (tree_nodes x <= length b - length r)%nat /\ raw_inside x.

  Section Loops.
    Variable child : Z -> list Z -> option (tree * list Z).
    Hypothesis child_ok : child_good child.

    Lemma scan_fields_good : forall f bs cs r, suffix_of bs root -> scan_fields child f bs = Some (cs, r) ->
      suffix_of r bs /\ (length r < length bs)%nat /\ (kids_nodes cs + 1 <= length bs - length r)%nat /\
      kids_all (fun y => slice_of (t_raw y) root) cs.
    Proof.
      induction f as [|f IH]; intros bs cs r Hroot; cbn [scan_fields]; [discriminate|].
      destruct bs as [|t r0]; [discriminate|].
      destruct (t =? 0).
      { intros H; inversion H; subst. cbn [length kids_nodes kids_all fold_right].
        split; [apply suffix_cons, suffix_refl|]. repeat split; lia. }
      destruct (take 2 r0) as [[idb r2]|] eqn:E2; [|discriminate].
      pose proof (take_suffix _ _ _ _ E2) as S2. apply take_len in E2.
      assert (R2 : suffix_of r2 root).
      { exact (suffix_trans _ _ _ S2 (suffix_trans _ _ _ (suffix_cons t _ _ (suffix_refl r0)) Hroot)). }
      destruct (child t r2) as [[c r3]|] eqn:E3; [|discriminate].
      destruct (child_ok _ _ _ _ R2 E3) as (S3 & L3 & N3 & A3).
      assert (R3 : suffix_of r3 root) by exact (suffix_trans _ _ _ S3 R2).
      destruct (scan_fields child f r3) as [[cs' r4]|] eqn:E4; [|discriminate].
      destruct (IH _ _ _ R3 E4) as (S4 & L4 & N4 & A4).
      intros H; inversion H; subst. cbn [length kids_nodes kids_all fold_right snd] in *. fold (kids_nodes cs') in *.
      split. { apply suffix_cons. exact (suffix_trans _ _ _ S4 (suffix_trans _ _ _ S3 S2)). }
      split; [lia|]. split; [lia|]. split; assumption.
    Qed.

    Lemma scan_elems_good : forall n i et bs cs r, suffix_of bs root -> scan_elems child n i et bs = Some (cs, r) ->
      suffix_of r bs /\ (kids_nodes cs <= length bs - length r)%nat /\ kids_all (fun y => slice_of (t_raw y) root) cs.
    Proof.
      induction n as [|n IH]; intros i et bs cs r Hroot; cbn [scan_elems].
      - intros H; inversion H; subst. cbn [kids_nodes kids_all fold_right]. split; [apply suffix_refl|]. split; [lia|exact I].
      - destruct (child et bs) as [[c r1]|] eqn:E1; [|discriminate].
        destruct (child_ok _ _ _ _ Hroot E1) as (S1 & L1 & N1 & A1).
        assert (R1 : suffix_of r1 root) by exact (suffix_trans _ _ _ S1 Hroot).
        destruct (scan_elems child n (i + 1) et r1) as [[cs' r2]|] eqn:E2; [|discriminate].
        destruct (IH _ _ _ _ _ R1 E2) as (S2 & N2 & A2). pose proof (suffix_length _ _ S2) as LL.
        intros H; inversion H; subst. cbn [kids_nodes kids_all fold_right snd] in *. fold (kids_nodes cs') in *.
        split; [exact (suffix_trans _ _ _ S2 S1)|]. split; [lia|]. split; assumption.
    Qed.

    Lemma scan_pairs_good : forall n kt et bs cs r, suffix_of bs root -> scan_pairs child n kt et bs = Some (cs, r) ->
      suffix_of r bs /\ (kids_nodes cs <= length bs - length r)%nat /\ kids_all (fun y => slice_of (t_raw y) root) cs.
    Proof.
      induction n as [|n IH]; intros kt et bs cs r Hroot; cbn [scan_pairs].
      - intros H; inversion H; subst. cbn [kids_nodes kids_all fold_right]. split; [apply suffix_refl|]. split; [lia|exact I].
      - destruct (read_key kt bs) as [[k r0]|] eqn:E0; [|discriminate]. apply read_key_suffix in E0. destruct E0 as [S0 L0].
        assert (R0 : suffix_of r0 root) by exact (suffix_trans _ _ _ S0 Hroot).
        destruct (child et r0) as [[c r1]|] eqn:E1; [|discriminate].
        destruct (child_ok _ _ _ _ R0 E1) as (S1 & L1 & N1 & A1).
        assert (R1 : suffix_of r1 root) by exact (suffix_trans _ _ _ S1 R0).
        destruct (scan_pairs child n kt et r1) as [[cs' r2]|] eqn:E2; [|discriminate].
        destruct (IH _ _ _ _ _ R1 E2) as (S2 & N2 & A2). pose proof (suffix_length _ _ S2) as LL.
        intros H; inversion H; subst. cbn [kids_nodes kids_all fold_right snd] in *. fold (kids_nodes cs') in *.
        split; [exact (suffix_trans _ _ _ S2 (suffix_trans _ _ _ S1 S0))|]. split; [lia|]. split; assumption.
    Qed.

    (* scanChildren: the header / STOP byte pays for the node itself *)
    Lemma scan_good t bs et kt cs r : suffix_of bs root -> scan child t bs = Some (et, kt, cs, r) ->
      suffix_of r bs /\ (length r < length bs)%nat /\ (kids_nodes cs + 1 <= length bs - length r)%nat /\
      kids_all (fun y => slice_of (t_raw y) root) cs.
    Proof.
      intros Hroot. unfold scan. destruct (t =? T_STRUCT).
      { destruct (scan_fields child (S (length bs)) bs) as [[cs' r']|] eqn:E; [|discriminate].
        intros H; inversion H; subst. eapply scan_fields_good; eassumption. }
      destruct ((t =? T_LIST) || (t =? T_SET)).
      { destruct bs as [|et0 r0]; [discriminate|].
        destruct (dec_count r0) as [[n r2]|] eqn:Ec; [|discriminate]. apply dec_count_len in Ec. destruct Ec as (Lc & _ & Sc).
        assert (R2 : suffix_of r2 root).
        { exact (suffix_trans _ _ _ Sc (suffix_trans _ _ _ (suffix_cons et0 _ _ (suffix_refl r0)) Hroot)). }
        destruct (scan_elems child n 0 et0 r2) as [[cs' r3]|] eqn:E; [|discriminate].
        destruct (scan_elems_good _ _ _ _ _ _ R2 E) as (S3 & N3 & A3). pose proof (suffix_length _ _ S3) as LL.
        intros H; inversion H; subst. cbn [length].
        split; [apply suffix_cons; exact (suffix_trans _ _ _ S3 Sc)|]. split; [lia|]. split; [lia|assumption]. }
      destruct (t =? T_MAP); [|discriminate].
      destruct bs as [|kt0 [|et0 r0]]; try discriminate.
      destruct (valid_type kt0 && valid_type et0); [|discriminate].
      destruct (dec_count r0) as [[n r2]|] eqn:Ec; [|discriminate]. apply dec_count_len in Ec. destruct Ec as (Lc & _ & Sc).
      assert (R2 : suffix_of r2 root).
      { exact (suffix_trans _ _ _ Sc (suffix_trans _ _ _ (suffix_cons kt0 _ _ (suffix_cons et0 _ _ (suffix_refl r0))) Hroot)). }
      destruct (scan_pairs child n kt0 et0 r2) as [[cs' r3]|] eqn:E; [|discriminate].
      destruct (scan_pairs_good _ _ _ _ _ _ R2 E) as (S3 & N3 & A3). pose proof (suffix_length _ _ S3) as LL.
      intros H; inversion H; subst. cbn [length].
      split; [do 2 apply suffix_cons; exact (suffix_trans _ _ _ S3 Sc)|]. split; [lia|]. split; [lia|assumption].
    Qed.
  End Loops.

  Theorem load_child_good : forall d rec ns, child_good (load_child d rec ns).
  Proof.
    induction d as [|d IH]; intros rec ns t bs x r Hroot; rewrite load_child_unfold.
    - destruct (rec && is_container t); [discriminate|].
      destruct (skip_go t bs) as [rest|] eqn:E; [|discriminate]. intros H; inversion H; subst.
      pose proof (skip_go_shrinks _ _ _ E). split; [eapply skip_go_suffix_of; eassumption|]. split; [assumption|].
      unfold leaf_of, raw_inside. cbn [tree_nodes tree_all fold_right t_raw]. split; [lia|]. split; [|exact I].
      apply slice_of_prefix. assumption.
    - destruct (rec && is_container t).
      + destruct ns.
        * destruct (scan (load_child d rec true) t bs) as [[[[et kt] cs] rest]|] eqn:E; [|discriminate].
          destruct (scan_good _ (IH rec true) _ _ _ _ _ _ Hroot E) as (S1 & L1 & N1 & A1).
          intros H; inversion H; subst. split; [assumption|]. split; [assumption|].
          unfold raw_inside. cbn [tree_nodes tree_all t_raw]. fold (kids_nodes cs).
          split; [lia|]. split; [apply slice_of_nil|exact A1].
        * destruct (skip_go t bs) as [rest0|] eqn:E0; [|discriminate]. cbv zeta.
          destruct (scan (load_child d rec false) t bs) as [[[[et kt] cs] rest]|] eqn:E; [|discriminate].
          destruct (scan_good _ (IH rec false) _ _ _ _ _ _ Hroot E) as (S1 & L1 & N1 & A1).
          intros H; inversion H; subst. split; [assumption|]. split; [assumption|].
          unfold raw_inside. cbn [tree_nodes tree_all t_raw]. fold (kids_nodes cs).
          split; [lia|]. split; [apply slice_of_prefix; assumption|exact A1].
      + destruct (skip_go t bs) as [rest|] eqn:E; [|discriminate]. intros H; inversion H; subst.
        pose proof (skip_go_shrinks _ _ _ E). split; [eapply skip_go_suffix_of; eassumption|]. split; [assumption|].
        unfold leaf_of, raw_inside. cbn [tree_nodes tree_all fold_right t_raw]. split; [lia|]. split; [|exact I].
        apply slice_of_prefix. assumption.
  Qed.
End LoadRoot.

(* ---- B1: handleChild returns a strictly shorter suffix ---- *)
Theorem load_child_suffix d rec ns t bs x r : load_child d rec ns t bs = Some (x, r) ->
  suffix_of r bs /\ (length r < length bs)%nat.
Proof.
  intros H. destruct (load_child_good bs d rec ns t bs x r (suffix_refl bs) H) as (S1 & L1 & _). split; assumption.
Qed.

Corollary load_child_cursor d rec ns t bs x r : load_child d rec ns t bs = Some (x, r) ->
  exists c, (1 <= c <= length bs)%nat /\ r = skipn c bs.
Proof. intros H. apply load_child_suffix in H. destruct H. apply suffix_cursor; assumption. Qed.

Lemma load_child_le d rec ns t bs x r : load_child d rec ns t bs = Some (x, r) -> (length r <= length bs)%nat.
Proof. intros H. apply load_child_suffix in H. lia. Qed.

(* the loops of scanChildren with the real handleChild *)
Corollary scan_load_suffix d rec ns t bs et kt cs r : scan (load_child d rec ns) t bs = Some (et, kt, cs, r) ->
  suffix_of r bs /\ (length r < length bs)%nat.
Proof.
  intros H. destruct (scan_good bs _ (load_child_good bs d rec ns) _ _ _ _ _ _ (suffix_refl bs) H) as (S1 & L1 & _).
  split; assumption.
Qed.

(* ---- B3: allocation ---- *)
(* one PathNode per consumed byte at most *)
Theorem load_child_nodes_linear d rec ns t bs x r : load_child d rec ns t bs = Some (x, r) ->
  (tree_nodes x <= length bs - length r)%nat.
Proof.
  intros H. destruct (load_child_good bs d rec ns t bs x r (suffix_refl bs) H) as (_ & _ & N1 & _). assumption.
Qed.

(* every raw slice kept in the tree is a contiguous slice of the buffer handed in *)
Theorem load_child_raw_inside d rec ns t bs x r : load_child d rec ns t bs = Some (x, r) ->
  tree_all (fun y => slice_of (t_raw y) bs) x.
Proof.
  intros H. destruct (load_child_good bs d rec ns t bs x r (suffix_refl bs) H) as (_ & _ & _ & A1). assumption.
Qed.

Corollary load_child_raw_length d rec ns t bs x r : load_child d rec ns t bs = Some (x, r) ->
  tree_all (fun y => (length (t_raw y) <= length bs)%nat) x.
Proof.
  intros H. apply load_child_raw_inside in H. revert H. apply tree_all_impl. intros y. apply slice_of_length.
Qed.

(* Load of a whole buffer: at most one node per byte (the root included), all raw slices inside the buffer *)
Theorem load_nodes_linear rec ns t bs x : load rec ns t bs = Some x -> (tree_nodes x <= length bs)%nat.
Proof.
  unfold load. destruct (scan (load_child (length bs) rec ns) t bs) as [[[[et kt] cs] rest]|] eqn:E; [|discriminate].
  destruct (scan_good bs _ (load_child_good bs (length bs) rec ns) _ _ _ _ _ _ (suffix_refl bs) E) as (_ & _ & N1 & _).
  intros H; inversion H; subst. cbn [tree_nodes]. fold (kids_nodes cs). lia.
Qed.

Theorem load_raw_inside rec ns t bs x : load rec ns t bs = Some x -> tree_all (fun y => slice_of (t_raw y) bs) x.
Proof.
  unfold load. destruct (scan (load_child (length bs) rec ns) t bs) as [[[[et kt] cs] rest]|] eqn:E; [|discriminate].
  destruct (scan_good bs _ (load_child_good bs (length bs) rec ns) _ _ _ _ _ _ (suffix_refl bs) E) as (_ & _ & _ & A1).
  intros H; inversion H; subst. cbn [tree_all t_raw]. split; [|exact A1].
  exists 0%nat, (length bs). cbn [skipn]. symmetry. apply firstn_all.
Qed.

Corollary load_raw_length rec ns t bs x : load rec ns t bs = Some x ->
  tree_all (fun y => (length (t_raw y) <= length bs)%nat) x.
Proof.
  intros H. apply load_raw_inside in H. revert H. apply tree_all_impl. intros y. apply slice_of_length.
Qed.

(* ---- B2: fuel and depth ---- *)
(* scanChildren with an explicit fuel for the field loop (scan = scan_f (S (length bs))) *)
Definition scan_f (f : nat) (child : Z -> list Z -> option (tree * list Z)) (t : Z) (bs : list Z)
  : option (Z * Z * list (pkey * tree) * list Z) :=
  if t =? T_STRUCT then
    match scan_fields child f bs with
    | Some (cs, r) => Some (0, 0, cs, r)
    | None => None
    end
  else if (t =? T_LIST) || (t =? T_SET) then
    match bs with
    | et :: r =>
      match dec_count r with
      | Some (n, r2) => match scan_elems child n 0 et r2 with Some (cs, r3) => Some (et, 0, cs, r3) | None => None end
      | None => None
      end
    | [] => None
    end
  else if t =? T_MAP then
    match bs with
    | kt :: et :: r =>
      if valid_type kt && valid_type et then
        match dec_count r with
        | Some (n, r2) => match scan_pairs child n kt et r2 with Some (cs, r3) => Some (et, kt, cs, r3) | None => None end
        | None => None
        end
      else None
    | _ => None
    end
  else None.

Lemma scan_is_scan_f child t bs : scan child t bs = scan_f (S (length bs)) child t bs.
Proof. reflexivity. Qed.

Section LoadExt.
  Variables child child' : Z -> list Z -> option (tree * list Z).
  Hypothesis child'_le : forall t b x r, child' t b = Some (x, r) -> (length r <= length b)%nat.

  (* a field = type byte + 2 id bytes + child: the child's buffer is 3 bytes shorter, its remainder no longer *)
  Lemma scan_fields_ext_fuel : forall f f' bs, (length bs < f)%nat -> (length bs < f')%nat ->
    (forall t b, (length b < length bs)%nat -> child t b = child' t b) ->
    scan_fields child f bs = scan_fields child' f' bs.
  Proof.
    induction f as [|f IH]; intros f' bs Hf Hf' Hext; [lia|]. destruct f' as [|f']; [lia|]. cbn [scan_fields].
    destruct bs as [|t r0]; [reflexivity|].
    destruct (t =? 0); [reflexivity|].
    destruct (take 2 r0) as [[idb r2]|] eqn:E2; [|reflexivity]. apply take_len in E2. cbn [length] in *.
    rewrite (Hext t r2) by lia.
    destruct (child' t r2) as [[c r3]|] eqn:E3; [|reflexivity]. apply child'_le in E3.
    rewrite (IH f' r3); [reflexivity|lia|lia|]. intros t0 b Hb. apply Hext. lia.
  Qed.

  Lemma scan_elems_ext : forall n i et bs, (forall t b, (length b <= length bs)%nat -> child t b = child' t b) ->
    scan_elems child n i et bs = scan_elems child' n i et bs.
  Proof.
    induction n as [|n IH]; intros i et bs Hext; cbn [scan_elems]; [reflexivity|].
    rewrite (Hext et bs) by lia.
    destruct (child' et bs) as [[c r1]|] eqn:E1; [|reflexivity]. apply child'_le in E1.
    rewrite (IH (i + 1) et r1); [reflexivity|]. intros t0 b Hb. apply Hext. lia.
  Qed.

  Lemma scan_pairs_ext : forall n kt et bs, (forall t b, (length b <= length bs)%nat -> child t b = child' t b) ->
    scan_pairs child n kt et bs = scan_pairs child' n kt et bs.
  Proof.
    induction n as [|n IH]; intros kt et bs Hext; cbn [scan_pairs]; [reflexivity|].
    destruct (read_key kt bs) as [[k r0]|] eqn:E0; [|reflexivity]. apply read_key_suffix in E0. destruct E0 as [_ L0].
    rewrite (Hext et r0) by lia.
    destruct (child' et r0) as [[c r1]|] eqn:E1; [|reflexivity]. apply child'_le in E1.
    rewrite (IH kt et r1); [reflexivity|]. intros t0 b Hb. apply Hext. lia.
  Qed.

  (* scanChildren: any two field-loop fuels above |bs|, any two handleChild that agree on STRICTLY shorter buffers *)
  Lemma scan_f_ext_fuel f f' t bs : (length bs < f)%nat -> (length bs < f')%nat ->
    (forall t b, (length b < length bs)%nat -> child t b = child' t b) ->
    scan_f f child t bs = scan_f f' child' t bs.
  Proof.
    intros Hf Hf' Hext. unfold scan_f. destruct (t =? T_STRUCT).
    { rewrite (scan_fields_ext_fuel f f' bs Hf Hf' Hext). reflexivity. }
    destruct ((t =? T_LIST) || (t =? T_SET)).
    { destruct bs as [|et0 r0]; [reflexivity|].
      destruct (dec_count r0) as [[n r2]|] eqn:Ec; [|reflexivity]. apply dec_count_len in Ec. destruct Ec as (Lc & _ & _).
      rewrite (scan_elems_ext n 0 et0 r2); [reflexivity|]. intros t0 b Hb. apply Hext. cbn [length]. lia. }
    destruct (t =? T_MAP); [|reflexivity].
    destruct bs as [|kt0 [|et0 r0]]; try reflexivity.
    destruct (valid_type kt0 && valid_type et0); [|reflexivity].
    destruct (dec_count r0) as [[n r2]|] eqn:Ec; [|reflexivity]. apply dec_count_len in Ec. destruct Ec as (Lc & _ & _).
    rewrite (scan_pairs_ext n kt0 et0 r2); [reflexivity|]. intros t0 b Hb. apply Hext. cbn [length]. lia.
  Qed.
End LoadExt.

(* the field loop of scanChildren does not depend on its fuel (for a handleChild whose remainders are no longer than
   its inputs): S (length bs), the fuel scan gives it, is enough *)
Theorem scan_fields_fuel_stable child :
  (forall t b x r, child t b = Some (x, r) -> (length r <= length b)%nat) ->
  forall f f' bs, (length bs < f)%nat -> (length bs < f')%nat -> scan_fields child f bs = scan_fields child f' bs.
Proof. intros Hle f f' bs Hf Hf'. apply scan_fields_ext_fuel; auto. Qed.

Lemma scan_f_nil f child t : scan_f (S f) child t [] = None.
Proof.
  unfold scan_f. destruct (t =? T_STRUCT); [reflexivity|]. destruct ((t =? T_LIST) || (t =? T_SET)); [reflexivity|].
  destruct (t =? T_MAP); reflexivity.
Qed.

Lemma scan_nil child t : scan child t [] = None.
Proof. rewrite scan_is_scan_f. apply scan_f_nil. Qed.

Lemma load_child_nil_container d rec ns t : rec && is_container t = true -> load_child d rec ns t [] = None.
Proof.
  intros Hc. rewrite load_child_unfold, Hc. destruct d; [reflexivity|]. destruct ns.
  - rewrite scan_nil. reflexivity.
  - destruct (skip_go t []); [|reflexivity]. cbv zeta. rewrite scan_nil. reflexivity.
Qed.

(* nesting: a child lives in a buffer at least 3 bytes shorter than its parent's, so the depth fuel |bs| is enough and
   every larger one gives the same answer *)
Theorem load_child_depth_stable : forall d d' rec ns t bs, (length bs <= d)%nat -> (length bs <= d')%nat ->
  load_child d rec ns t bs = load_child d' rec ns t bs.
Proof.
  induction d as [|d IH]; intros d' rec ns t bs Hd Hd'.
  - destruct bs; [|cbn [length] in Hd; lia].
    destruct (rec && is_container t) eqn:Hc.
    + rewrite !load_child_nil_container by assumption. reflexivity.
    + rewrite (load_child_unfold 0), (load_child_unfold d'), Hc. reflexivity.
  - destruct d' as [|d'].
    + destruct bs; [|cbn [length] in Hd'; lia].
      destruct (rec && is_container t) eqn:Hc.
      * rewrite !load_child_nil_container by assumption. reflexivity.
      * rewrite (load_child_unfold (S d)), (load_child_unfold 0), Hc. reflexivity.
    + rewrite (load_child_unfold (S d)), (load_child_unfold (S d')).
      destruct (rec && is_container t); [|reflexivity].
      assert (E : scan (load_child d rec ns) t bs = scan (load_child d' rec ns) t bs).
      { rewrite !scan_is_scan_f. apply scan_f_ext_fuel; [apply load_child_le|lia|lia|].
        intros t0 b Hb. apply IH; lia. }
      rewrite E. reflexivity.
Qed.

(* ---- fuel-explicit copy of Load: ONE field-loop fuel f for every struct, depth fuel d ---- *)
Fixpoint load_child_f (f : nat) (d : nat) (rec ns : bool) (t : Z) (bs : list Z) {struct d} : option (tree * list Z) :=
  if rec && is_container t then
    match d with
    | O => None
    | S d' =>
      if ns then
        match scan_f f (load_child_f f d' rec ns) t bs with
        | Some (et, kt, cs, rest) => Some (T t et kt [] cs, rest)
        | None => None
        end
      else
        match skip_go t bs with
        | None => None
        | Some rest0 =>
          let raw := firstn (length bs - length rest0) bs in
          match scan_f f (load_child_f f d' rec ns) t bs with
          | Some (et, kt, cs, rest) => Some (T t (hdr_et t raw) (hdr_kt t raw) raw cs, rest)
          | None => None
          end
        end
    end
  else
    match skip_go t bs with
    | None => None
    | Some rest => Some (leaf_of t (firstn (length bs - length rest) bs), rest)
    end.

Definition load_f (f d : nat) (rec ns : bool) (t : Z) (bs : list Z) : option tree :=
  match scan_f f (load_child_f f d rec ns) t bs with
  | Some (et, kt, cs, _) => Some (T t (hdr_et t bs) (hdr_kt t bs) bs cs)
  | None => None
  end.

Lemma load_child_f_unfold f d rec ns t bs : load_child_f f d rec ns t bs =
  if rec && is_container t then
    match d with
    | O => None
    | S d' =>
      if ns then
        match scan_f f (load_child_f f d' rec ns) t bs with
        | Some (et, kt, cs, rest) => Some (T t et kt [] cs, rest)
        | None => None
        end
      else
        match skip_go t bs with
        | None => None
        | Some rest0 =>
          let raw := firstn (length bs - length rest0) bs in
          match scan_f f (load_child_f f d' rec ns) t bs with
          | Some (et, kt, cs, rest) => Some (T t (hdr_et t raw) (hdr_kt t raw) raw cs, rest)
          | None => None
          end
        end
    end
  else
    match skip_go t bs with
    | None => None
    | Some rest => Some (leaf_of t (firstn (length bs - length rest) bs), rest)
    end.
Proof. destruct d; reflexivity. Qed.

(* same depth fuel, any field-loop fuel above the length of the buffer: the model's handleChild *)
Lemma load_child_f_eq : forall d f rec ns t bs, (length bs < f)%nat ->
  load_child_f f d rec ns t bs = load_child d rec ns t bs.
Proof.
  induction d as [|d IH]; intros f rec ns t bs Hf; rewrite load_child_f_unfold, load_child_unfold; [reflexivity|].
  destruct (rec && is_container t); [|reflexivity].
  assert (E : scan_f f (load_child_f f d rec ns) t bs = scan (load_child d rec ns) t bs).
  { rewrite scan_is_scan_f. apply scan_f_ext_fuel; [apply load_child_le|lia|lia|].
    intros t0 b Hb. apply IH. lia. }
  rewrite E. reflexivity.
Qed.

(* every field-loop fuel above |bs| and every depth fuel >= |bs| give the model's Load: a None of load is never
   "out of fuel" *)
Theorem load_total f d rec ns t bs : (length bs < f)%nat -> (length bs <= d)%nat ->
  load_f f d rec ns t bs = load rec ns t bs.
Proof.
  intros Hf Hd. unfold load_f, load.
  assert (E : scan_f f (load_child_f f d rec ns) t bs = scan (load_child (length bs) rec ns) t bs).
  { rewrite scan_is_scan_f. apply scan_f_ext_fuel; [apply load_child_le|lia|lia|].
    intros t0 b Hb. rewrite load_child_f_eq by lia. apply load_child_depth_stable; lia. }
  rewrite E. reflexivity.
Qed.

Corollary load_fuel_independent f f' d d' rec ns t bs :
  (length bs < f)%nat -> (length bs < f')%nat -> (length bs <= d)%nat -> (length bs <= d')%nat ->
  load_f f d rec ns t bs = load_f f' d' rec ns t bs.
Proof. intros. rewrite !load_total by assumption. reflexivity. Qed.

(* ====================================================================================================== *)
(* (A3) T2J byte walk: the text written is linear in the bytes consumed                                     *)
(* ====================================================================================================== *)

(* ---- lengths of the printers ---- *)
Lemma fmt_nat_aux_length : forall fuel n acc, (length (fmt_nat_aux fuel n acc) <= fuel + length acc)%nat.
Proof.
  induction fuel as [|f IH]; intros n acc; cbn [fmt_nat_aux]; [lia|].
  destruct (n <? 10); [cbn [length]; lia|]. specialize (IH (n / 10) ((48 + n mod 10) :: acc)). cbn [length] in IH. lia.
Qed.

(* crude but enough for linearity: one character per binary digit, plus the sign *)
Lemma fmt_int_length z j : 0 <= j -> Z.abs z <= 2 ^ j -> (length (fmt_int z) <= Z.to_nat j + 2)%nat.
Proof.
  intros Hj Hz.
  assert (G : forall m, 0 <= m <= 2 ^ j -> (length (fmt_nat m) <= Z.to_nat j + 1)%nat).
  { intros m Hm. unfold fmt_nat. pose proof (fmt_nat_aux_length (S (Z.to_nat (Z.log2 m))) m []) as H. cbn [length] in H.
    assert (Z.log2 m <= j).
    { rewrite <- (Z.log2_pow2 j Hj). apply Z.log2_le_mono. lia. }
    pose proof (Z.log2_nonneg m). lia. }
  unfold fmt_int. destruct (z <? 0) eqn:E.
  - apply Z.ltb_lt in E. cbn [length]. specialize (G (- z)). lia.
  - apply Z.ltb_ge in E. specialize (G z). lia.
Qed.

Lemma to_s_range k x : 0 < k -> - 2 ^ (k - 1) <= to_s k x < 2 ^ (k - 1).
Proof.
  intros Hk. unfold to_s. replace (2 ^ k) with (2 * 2 ^ (k - 1)).
  - assert (0 < 2 ^ (k - 1)) by (apply Z.pow_pos_nonneg; lia).
    pose proof (Z.mod_pos_bound (x + 2 ^ (k - 1)) (2 * 2 ^ (k - 1))). lia.
  - rewrite <- Z.pow_succ_r by lia. f_equal. lia.
Qed.

Lemma dec_int_abs x : (0 < length x)%nat -> Z.abs (dec_int x) <= 2 ^ (8 * Z.of_nat (length x) - 1).
Proof. intros H. unfold dec_int. pose proof (to_s_range (8 * Z.of_nat (length x)) (dec_uint x)). lia. Qed.

Lemma rd_int_fmt n bs z r : (0 < n)%nat -> rd_int n bs = Some (z, r) ->
  length bs = (n + length r)%nat /\ Z.abs z <= 2 ^ (8 * Z.of_nat n - 1) /\ (length (fmt_int z) <= 8 * n + 1)%nat.
Proof.
  intros Hn. unfold rd_int. destruct (take n bs) as [[x r1]|] eqn:E; [|discriminate]. intros H; inversion H; subst.
  apply take_len in E. destruct E as [E1 E2]. split; [assumption|].
  assert (A : Z.abs (dec_int x) <= 2 ^ (8 * Z.of_nat (length x) - 1)) by (apply dec_int_abs; lia).
  rewrite E2 in A. split; [exact A|]. pose proof (fmt_int_length (dec_int x) (8 * Z.of_nat n - 1)) as L. lia.
Qed.

Lemma byte_image_fmt o z : Z.abs z <= 2 ^ 7 -> (length (fmt_int (byte_image o z)) <= 10)%nat.
Proof.
  intros Hz. unfold byte_image. destruct (o_byte_as_uint8 o).
  - pose proof (Z.mod_pos_bound z 256). pose proof (fmt_int_length (z mod 256) 8). change (2 ^ 8) with 256 in *. lia.
  - pose proof (fmt_int_length z 7). lia.
Qed.

Lemma esc_byte_le6 c : (length (esc_byte c) <= 6)%nat.
Proof.
  unfold esc_byte.
  repeat match goal with |- context [if ?b then _ else _] => destruct b end; cbn [length]; lia.
Qed.

Lemma escape_le6 s : (length (escape s) <= 6 * length s)%nat.
Proof.
  unfold escape. induction s as [|c s IH]; cbn [flat_map length]; [lia|].
  rewrite app_length. pose proof (esc_byte_le6 c). lia.
Qed.

Lemma quote_ref_le s : (length (quote_ref s) <= 6 * length s + 2)%nat.
Proof. unfold quote_ref. cbn [length]. rewrite app_length. cbn [length]. pose proof (escape_le6 s). lia. Qed.

Lemma b64_encode_len bs : length (b64_encode bs) = (4 * ((length bs + 2) / 3))%nat.
Proof.
  (* same statement as Base64Proofs.b64_encode_length; reproved on the 3-step recursion to keep this file independent *)
  assert (G : forall n (l : list Z), (length l <= n)%nat -> length (b64_encode l) = (4 * ((length l + 2) / 3))%nat).
  { induction n as [|n IH]; intros l Hl.
    - destruct l; [reflexivity|cbn [length] in Hl; lia].
    - destruct l as [|a [|b [|c l]]]; try reflexivity.
      cbn [b64_encode length]. rewrite IH by (cbn [length] in Hl; lia).
      replace (S (S (S (length l))) + 2)%nat with ((length l + 2) + 1 * 3)%nat by lia.
      rewrite Nat.div_add by lia. lia. }
  apply (G (length bs)). lia.
Qed.

Lemma rd_bytes_split bs s r : rd_bytes bs = Some (s, r) -> length bs = (4 + length s + length r)%nat.
Proof.
  unfold rd_bytes. destruct (rd_int 4 bs) as [[n r1]|] eqn:E; [|discriminate]. apply rd_int_len in E.
  destruct ((n <? 0) || (n >? zlen r1)) eqn:Eb; [discriminate|]. intros H; inversion H; subst.
  apply orb_false_iff in Eb. destruct Eb as [E1 E2]. apply Z.ltb_ge in E1. rewrite Z.gtb_ltb in E2. apply Z.ltb_ge in E2.
  unfold zlen in E2. rewrite firstn_length, skipn_length. lia.
Qed.

(* the longest quoted member name anywhere in a descriptor *)
Fixpoint desc_maxkey (d : tdesc) : nat :=
  match d with
  | DScalar _ | DString _ => O
  | DStruct fs => fold_right (fun f m => Nat.max (Nat.max (length (quote_ref (f_key (fst f)))) (desc_maxkey (snd f))) m) O fs
  | DMap dk dv => Nat.max (desc_maxkey dk) (desc_maxkey dv)
  | DList _ de => desc_maxkey de
  end.

Lemma desc_maxkey_field (fs : list (fmeta * tdesc)) fl M : (desc_maxkey (DStruct fs) <= M)%nat -> In fl fs ->
  (length (quote_ref (f_key (fst fl))) <= M)%nat /\ (desc_maxkey (snd fl) <= M)%nat.
Proof.
  cbn [desc_maxkey]. induction fs as [|f fs IH]; cbn [fold_right In]; intros H Hin; [contradiction|].
  destruct Hin as [->|Hin]; [lia|]. apply IH; [lia|assumption].
Qed.

(* the largest number of fields of a struct anywhere in a descriptor *)
Fixpoint desc_maxfields (d : tdesc) : nat :=
  match d with
  | DScalar _ | DString _ => O
  | DStruct fs => Nat.max (length fs) (fold_right (fun f m => Nat.max (desc_maxfields (snd f)) m) O fs)
  | DMap dk dv => Nat.max (desc_maxfields dk) (desc_maxfields dv)
  | DList _ de => desc_maxfields de
  end.

Lemma desc_maxfields_field (fs : list (fmeta * tdesc)) N : (desc_maxfields (DStruct fs) <= N)%nat ->
  (length fs <= N)%nat /\ forall fl, In fl fs -> (desc_maxfields (snd fl) <= N)%nat.
Proof.
  cbn [desc_maxfields]. intros H. split; [lia|].
  assert (H' : (fold_right (fun f m => Nat.max (desc_maxfields (snd f)) m) O fs <= N)%nat) by lia. clear H.
  induction fs as [|f fs IH]; cbn [fold_right In] in *; intros fl Hin; [contradiction|].
  destruct Hin as [->|Hin]; [lia|]. apply IH; [lia|assumption].
Qed.

(* handleUnsets scans the fields in ascending id: a permutation of the declared fields *)
Lemma insert_fld_length f l : length (insert_fld f l) = S (length l).
Proof.
  induction l as [|g l IH]; cbn [insert_fld]; [reflexivity|].
  destruct (f_id (fst f) <=? f_id (fst g)); cbn [length]; [reflexivity|]. rewrite IH. reflexivity.
Qed.

Lemma insert_fld_in f l x : In x (insert_fld f l) -> x = f \/ In x l.
Proof.
  induction l as [|g l IH]; cbn [insert_fld].
  - intros [<-|[]]. left; reflexivity.
  - destruct (f_id (fst f) <=? f_id (fst g)).
    + intros [<-|H]; [left; reflexivity|right; exact H].
    + intros [<-|H]; [right; left; reflexivity|]. destruct (IH H) as [->|H']; [left; reflexivity|right; right; exact H'].
Qed.

Lemma sort_flds_length fs : length (sort_flds fs) = length fs.
Proof.
  unfold sort_flds. induction fs as [|f fs IH]; cbn [fold_right length]; [reflexivity|].
  rewrite insert_fld_length. fold (sort_flds fs) in *. rewrite IH. reflexivity.
Qed.

Lemma sort_flds_in fs x : In x (sort_flds fs) -> In x fs.
Proof.
  unfold sort_flds. induction fs as [|f fs IH]; cbn [fold_right In]; [tauto|].
  intros H. apply insert_fld_in in H. destruct H as [->|H]; [left; reflexivity|right; apply IH; exact H].
Qed.

Section T2JLinear.
  Variable fd : Z -> list Z.
  Variable o : Z.
  Variables F M N K : nat.
  Hypothesis fd_le : forall b, (length (fd b) <= F)%nat.
  Hypothesis K_ge : (13 + F + M <= K)%nat.
  (* what handleUnsets may write at the STOP byte of a struct with at most N fields and keys of at most M characters
     (with the closing brace), plus the opening brace and one separator, is paid for by the STOP byte *)
  Hypothesis unsets_le : forall (fs : list (fmeta * tdesc)) bm c tl, (length fs <= N)%nat ->
    (forall f, In f fs -> (length (quote_ref (f_key (fst f))) <= M)%nat) ->
    walk_unsets fd o fs bm c = Some tl -> (length tl + 2 <= K)%nat.

  (* "txt plus s more characters are paid for by the bytes between bs and r, at K characters a byte" *)
  Definition paid (s : nat) (txt bs r : list Z) : Prop := (length txt + s + K * length r <= K * length bs)%nat.

  Lemma paid_take s txt bs r c : length bs = (c + length r)%nat -> (length txt + s <= K * c)%nat -> paid s txt bs r.
  Proof. unfold paid. intros -> H. lia. Qed.

  Lemma walk_scalar_paid t bs txt r : walk_scalar fd o t bs = Some (txt, r) -> paid 1 txt bs r.
  Proof.
    unfold walk_scalar.
    destruct (t =? T_BOOL).
    { destruct bs as [|b r0]; [discriminate|]. intros H; inversion H; subst. apply (paid_take _ _ _ _ 1%nat); [reflexivity|].
      destruct (b =? 1); cbn [length lit_true lit_false]; lia. }
    destruct (t =? T_BYTE).
    { destruct (rd_int 1 bs) as [[z r1]|] eqn:E; [|discriminate]. intros H; inversion H; subst.
      apply rd_int_fmt in E; [|lia]. destruct E as (E1 & E2 & _). apply (paid_take _ _ _ _ 1%nat); [assumption|].
      pose proof (byte_image_fmt o z E2). lia. }
    destruct (t =? T_I16).
    { destruct (rd_int 2 bs) as [[z r1]|] eqn:E; [|discriminate]. intros H; inversion H; subst.
      apply rd_int_fmt in E; [|lia]. destruct E as (E1 & _ & E3). apply (paid_take _ _ _ _ 2%nat); [assumption|lia]. }
    destruct (t =? T_I32).
    { destruct (rd_int 4 bs) as [[z r1]|] eqn:E; [|discriminate]. intros H; inversion H; subst.
      apply rd_int_fmt in E; [|lia]. destruct E as (E1 & _ & E3). apply (paid_take _ _ _ _ 4%nat); [assumption|lia]. }
    destruct (t =? T_I64).
    { destruct (rd_int 8 bs) as [[z r1]|] eqn:E; [|discriminate]. intros H; inversion H; subst.
      apply rd_int_fmt in E; [|lia]. destruct E as (E1 & _ & E3). apply (paid_take _ _ _ _ 8%nat); [assumption|].
      destruct (o_int642string o); cbn [length]; rewrite ?app_length; cbn [length]; lia. }
    destruct (t =? T_DOUBLE); [|discriminate].
    destruct (rd_uint 8 bs) as [[z r1]|] eqn:E; [|discriminate]. destruct (f64_is_finite z); [|discriminate].
    intros H; inversion H; subst. apply rd_uint_len in E. apply (paid_take _ _ _ _ 8%nat); [assumption|].
    pose proof (fd_le z). lia.
  Qed.

  Lemma walk_string_paid b bs txt r : walk_string o b bs = Some (txt, r) -> paid 1 txt bs r.
  Proof.
    unfold walk_string. destruct (rd_bytes bs) as [[s r1]|] eqn:E; [|discriminate]. intros H; inversion H; subst.
    apply rd_bytes_split in E. apply (paid_take _ _ _ _ (4 + length s)%nat); [lia|].
    assert (L : (length (if b && negb (o_no_base64 o) then 34%Z :: b64_encode s ++ [34%Z] else quote_ref s) <= 6 * length s + 2)%nat).
    { destruct (b && negb (o_no_base64 o)).
      - cbn [length]. rewrite app_length, b64_encode_len. cbn [length].
        assert (4 * ((length s + 2) / 3) <= 6 * length s)%nat.
        { destruct (length s) as [|m]; [reflexivity|]. pose proof (Nat.div_mod (S m + 2) 3). pose proof (Nat.mod_upper_bound (S m + 2) 3). lia. }
        lia.
      - apply quote_ref_le. }
    nia.
  Qed.

  (* the key text AND the ':' that follows it *)
  Lemma walk_key_t_paid t bs txt r : walk_key_t o t bs = Some (txt, r) -> paid 1 txt bs r.
  Proof.
    unfold walk_key_t.
    destruct (t =? T_BYTE).
    { destruct (rd_int 1 bs) as [[z r1]|] eqn:E; [|discriminate]. intros H; inversion H; subst.
      apply rd_int_fmt in E; [|lia]. destruct E as (E1 & E2 & _). apply (paid_take _ _ _ _ 1%nat); [assumption|].
      pose proof (byte_image_fmt o z E2). cbn [length]. rewrite app_length. cbn [length]. lia. }
    destruct (t =? T_I16).
    { destruct (rd_int 2 bs) as [[z r1]|] eqn:E; [|discriminate]. intros H; inversion H; subst.
      apply rd_int_fmt in E; [|lia]. destruct E as (E1 & _ & E3). apply (paid_take _ _ _ _ 2%nat); [assumption|].
      cbn [length]. rewrite app_length. cbn [length]. lia. }
    destruct (t =? T_I32).
    { destruct (rd_int 4 bs) as [[z r1]|] eqn:E; [|discriminate]. intros H; inversion H; subst.
      apply rd_int_fmt in E; [|lia]. destruct E as (E1 & _ & E3). apply (paid_take _ _ _ _ 4%nat); [assumption|].
      cbn [length]. rewrite app_length. cbn [length]. lia. }
    destruct (t =? T_I64).
    { destruct (rd_int 8 bs) as [[z r1]|] eqn:E; [|discriminate]. intros H; inversion H; subst.
      apply rd_int_fmt in E; [|lia]. destruct E as (E1 & _ & E3). apply (paid_take _ _ _ _ 8%nat); [assumption|].
      cbn [length]. rewrite app_length. cbn [length]. lia. }
    destruct (t =? T_STRING); [|discriminate].
    destruct (rd_bytes bs) as [[s r1]|] eqn:E; [|discriminate]. intros H; inversion H; subst.
    apply rd_bytes_split in E. apply (paid_take _ _ _ _ (4 + length s)%nat); [lia|].
    pose proof (quote_ref_le s). nia.
  Qed.

  Lemma walk_key_paid dk bs txt r : walk_key o dk bs = Some (txt, r) -> paid 1 txt bs r.
  Proof. apply walk_key_t_paid. Qed.

  Lemma sep_le c : (length (sep c) <= 1)%nat.
  Proof. destruct c; cbn; lia. Qed.

  (* value mapping (api.js_conv): quoted scalars, or a list of them *)
  Lemma walk_vm_scalar_paid t bs txt r : walk_vm_scalar fd o t bs = Some (txt, r) -> paid 1 txt bs r.
  Proof.
    unfold walk_vm_scalar. destruct (t =? T_DOUBLE); [|apply walk_key_t_paid].
    destruct (rd_uint 8 bs) as [[z r1]|] eqn:E; [|discriminate]. destruct (f64_is_finite z); [|discriminate].
    intros H; inversion H; subst. apply rd_uint_len in E. apply (paid_take _ _ _ _ 8%nat); [assumption|].
    cbn [length]. rewrite app_length. cbn [length]. pose proof (fd_le z). lia.
  Qed.

  Lemma walk_vm_elems_paid : forall n et c bs txt r,
    walk_vm_elems fd o n et c bs = Some (txt, r) -> (length txt + K * length r <= 1 + K * length bs)%nat.
  Proof.
    induction n as [|n IH]; intros et c bs txt r; cbn [walk_vm_elems].
    - intros H; inversion H; subst. cbn [length]. lia.
    - destruct (walk_vm_scalar fd o et bs) as [[t1 r1]|] eqn:E1; [|discriminate]. apply walk_vm_scalar_paid in E1.
      destruct (walk_vm_elems fd o n et true r1) as [[tl r2]|] eqn:E2; [|discriminate]. apply IH in E2.
      intros H; inversion H; subst. unfold paid in *. rewrite !app_length. pose proof (sep_le c). lia.
  Qed.

  Lemma walk_vm_paid d bs txt r : walk_vm fd o d bs = Some (txt, r) -> paid 1 txt bs r.
  Proof.
    unfold walk_vm. destruct d as [t|b|fs|dk dv|s de]; try apply walk_vm_scalar_paid.
    destruct s; [apply walk_vm_scalar_paid|].
    destruct bs as [|et r0]; [discriminate|].
    destruct (negb (valid_ttype et)); [discriminate|].
    destruct (skip_count r0) as [[sz r2]|] eqn:Ec; [|discriminate]. apply skip_count_len in Ec. destruct Ec as (Ec & _).
    destruct (sz >? zlen r2); [discriminate|].
    destruct (walk_vm_elems fd o (Z.to_nat sz) et false r2) as [[t r3]|] eqn:E; [|discriminate]. apply walk_vm_elems_paid in E.
    intros H; inversion H; subst. unfold paid. cbn [length]. rewrite Ec. lia.
  Qed.

  Section LoopsPaid.
    Variable rec : tdesc -> list Z -> option (list Z * list Z).
    Variable bx : fmeta -> bool.
    Hypothesis rec_paid : forall d b t r, (desc_maxkey d <= M)%nat -> (desc_maxfields d <= N)%nat ->
      rec d b = Some (t, r) -> paid 1 t b r.

    (* the fields and the closing brace, with room for the opening brace and the separator after the struct *)
    Lemma walk_fields_paid : forall f fs c bm bs txt r, (length fs <= N)%nat ->
      (forall fl, In fl fs -> (length (quote_ref (f_key (fst fl))) <= M)%nat /\ (desc_maxkey (snd fl) <= M)%nat /\
                              (desc_maxfields (snd fl) <= N)%nat) ->
      walk_fields fd o rec bx f fs c bm bs = Some (txt, r) -> paid 2 txt bs r.
    Proof.
      induction f as [|f IH]; intros fs c bm bs txt r Hn Hfs; cbn [walk_fields]; [discriminate|].
      destruct bs as [|t r0]; [discriminate|].
      destruct (negb (valid_ttype t)); [discriminate|].
      destruct (t =? 0).
      { destruct (walk_unsets fd o (sort_flds fs) bm c) as [tl|] eqn:Eu; [|discriminate]. intros H; inversion H; subst.
        apply (paid_take _ _ _ _ 1%nat); [reflexivity|].
        apply unsets_le in Eu; [lia|rewrite sort_flds_length; assumption|].
        intros f0 Hin. apply sort_flds_in in Hin. apply (Hfs f0 Hin). }
      destruct (rd_int 2 r0) as [[id r2]|] eqn:E2; [|discriminate]. apply rd_int_len in E2.
      destruct (T2J.find_field fs id) as [fl|] eqn:Ef.
      - apply find_field_in in Ef. destruct (Hfs fl Ef) as (Hk & Hd & Hd2).
        destruct (bx (fst fl)).
        { destruct (skip_go T_STRUCT r2) as [r3|] eqn:E3; [|discriminate]. apply skip_go_shrinks in E3.
          intros H. apply (IH _ _ _ _ _ _ Hn Hfs) in H. unfold paid in *. cbn [length]. rewrite E2.
          assert (K * length r3 <= K * length r2)%nat by (apply Nat.mul_le_mono_l; lia). lia. }
        destruct (if o_value_mapping o && f_jsconv (fst fl) then walk_vm fd o (snd fl) r2 else rec (snd fl) r2)
          as [[t1 r3]|] eqn:E3; [|discriminate].
        assert (P3 : paid 1 t1 r2 r3).
        { destruct (o_value_mapping o && f_jsconv (fst fl)); [eapply walk_vm_paid|eapply (rec_paid _ _ _ _ Hd Hd2)]; exact E3. }
        clear E3. rename P3 into E3.
        destruct (walk_fields fd o rec bx f fs true (bm_clear id bm) r3) as [[tl r4]|] eqn:E4; [|discriminate].
        apply (IH _ _ _ _ _ _ Hn Hfs) in E4. intros H; inversion H; subst.
        clear H IH Hfs. unfold paid, quote_ref in *. repeat first [rewrite app_length in * | progress cbn [length] in * ]. rewrite E2.
        pose proof (sep_le c). lia.
      - destruct (o_disallow_unknown o); [discriminate|].
        destruct (skip_go t r2) as [r3|] eqn:E3; [|discriminate]. apply skip_go_shrinks in E3.
        intros H. apply (IH _ _ _ _ _ _ Hn Hfs) in H. unfold paid in *. cbn [length]. rewrite E2.
        assert (K * length r3 <= K * length r2)%nat by (apply Nat.mul_le_mono_l; lia). lia.
    Qed.

    (* the elements and the closing bracket: the bracket is the one character not paid by an element *)
    Lemma walk_elems_paid : forall n de c bs txt r, (desc_maxkey de <= M)%nat -> (desc_maxfields de <= N)%nat ->
      walk_elems rec n de c bs = Some (txt, r) -> (length txt + K * length r <= 1 + K * length bs)%nat.
    Proof.
      induction n as [|n IH]; intros de c bs txt r Hd Hd2; cbn [walk_elems].
      - intros H; inversion H; subst. cbn [length]. lia.
      - destruct (rec de bs) as [[t1 r1]|] eqn:E1; [|discriminate]. apply (rec_paid _ _ _ _ Hd Hd2) in E1.
        destruct (walk_elems rec n de true r1) as [[tl r2]|] eqn:E2; [|discriminate]. apply (IH _ _ _ _ _ Hd Hd2) in E2.
        intros H; inversion H; subst. unfold paid in *. rewrite !app_length. pose proof (sep_le c). lia.
    Qed.

    Lemma walk_pairs_paid : forall n dk dv c bs txt r, (desc_maxkey dv <= M)%nat -> (desc_maxfields dv <= N)%nat ->
      walk_pairs o rec n dk dv c bs = Some (txt, r) -> (length txt + K * length r <= 1 + K * length bs)%nat.
    Proof.
      induction n as [|n IH]; intros dk dv c bs txt r Hd Hd2; cbn [walk_pairs].
      - intros H; inversion H; subst. cbn [length]. lia.
      - destruct (walk_key o dk bs) as [[kt r0]|] eqn:E0; [|discriminate]. apply walk_key_paid in E0.
        destruct (rec dv r0) as [[t1 r1]|] eqn:E1; [|discriminate]. apply (rec_paid _ _ _ _ Hd Hd2) in E1.
        destruct (walk_pairs o rec n dk dv true r1) as [[tl r2]|] eqn:E2; [|discriminate]. apply (IH _ _ _ _ _ _ Hd Hd2) in E2.
        intros H; inversion H; subst. unfold paid in *. rewrite !app_length. cbn [length]. rewrite app_length.
        pose proof (sep_le c). lia.
    Qed.
  End LoopsPaid.

  Theorem t2j_walk_paid : forall n d bs txt r, (desc_maxkey d <= M)%nat -> (desc_maxfields d <= N)%nat ->
    t2j_walk_gen fd o n d bs = Some (txt, r) -> paid 1 txt bs r.
  Proof.
    induction n as [|n IH]; intros d bs txt r Hd Hd2; destruct d as [t|b|fs|dk dv|s de]; cbn [t2j_walk_gen];
      try discriminate; try apply walk_scalar_paid; try apply walk_string_paid.
    - destruct (walk_fields fd o (t2j_walk_gen fd o n) (fun _ => false) (S (length bs)) fs false (bm_init fs) bs) as [[t r1]|] eqn:E; [|discriminate].
      apply desc_maxfields_field in Hd2. destruct Hd2 as [Hn Hf2].
      apply (walk_fields_paid _ _ IH) in E.
      + intros H; inversion H; subst. unfold paid in *. cbn [length]. lia.
      + assumption.
      + intros fl Hin. destruct (desc_maxkey_field fs fl M Hd Hin). auto.
    - destruct bs as [|kt [|vt r0]]; try discriminate.
      destruct (negb (valid_ttype kt && valid_ttype vt)); [discriminate|].
      destruct (skip_count r0) as [[sz r2]|] eqn:Ec; [|discriminate]. apply skip_count_len in Ec. destruct Ec as (Ec & _).
      destruct (negb ((kt =? desc_type dk) && (vt =? desc_type dv))); [discriminate|].
      destruct (sz >? zlen r2); [discriminate|].
      destruct (walk_pairs o (t2j_walk_gen fd o n) (Z.to_nat sz) dk dv false r2) as [[t r3]|] eqn:E; [|discriminate].
      apply (walk_pairs_paid _ IH) in E; [|cbn [desc_maxkey] in Hd; lia|cbn [desc_maxfields] in Hd2; lia].
      intros H; inversion H; subst. unfold paid. cbn [length]. rewrite Ec. lia.
    - destruct bs as [|et r0]; try discriminate.
      destruct (negb (valid_ttype et)); [discriminate|].
      destruct (skip_count r0) as [[sz r2]|] eqn:Ec; [|discriminate]. apply skip_count_len in Ec. destruct Ec as (Ec & _).
      destruct (negb (et =? desc_type de)); [discriminate|].
      destruct (sz >? zlen r2); [discriminate|].
      destruct (walk_elems (t2j_walk_gen fd o n) (Z.to_nat sz) de false r2) as [[t r3]|] eqn:E; [|discriminate].
      apply (walk_elems_paid _ IH) in E; [|cbn [desc_maxkey] in Hd; lia|cbn [desc_maxfields] in Hd2; lia].
      intros H; inversion H; subst. unfold paid. cbn [length]. rewrite Ec. lia.
  Qed.
End T2JLinear.

(* ---- what handleUnsets writes at the STOP byte ---- *)
Lemma zero_text_le fd F d : (forall b, (length (fd b) <= F)%nat) -> (length (zero_text fd d) <= 5 + F)%nat.
Proof.
  intros HF. destruct d as [t|b|fs|dk dv|s de]; cbn [zero_text length]; try lia.
  destruct (t =? T_BOOL); [cbn; lia|]. destruct (t =? T_DOUBLE); [pose proof (HF 0); lia|]. cbn. lia.
Qed.

(* one member  ,"key":zero  per declared field at most, and the closing brace *)
Lemma walk_unsets_len fd o F M : (forall b, (length (fd b) <= F)%nat) ->
  forall (fs : list (fmeta * tdesc)) bm c tl, (forall f, In f fs -> (length (quote_ref (f_key (fst f))) <= M)%nat) ->
  walk_unsets fd o fs bm c = Some tl -> (length tl <= length fs * (7 + F + M) + 1)%nat.
Proof.
  intros HF. induction fs as [|f fs IH]; intros bm c tl Hk; cbn [walk_unsets].
  - intros H; inversion H; subst. cbn [length]. lia.
  - assert (Hk' : forall g, In g fs -> (length (quote_ref (f_key (fst g))) <= M)%nat) by (intros g Hg; apply Hk; right; exact Hg).
    assert (G : forall c', walk_unsets fd o fs bm c' = Some tl -> (length tl <= S (length fs) * (7 + F + M) + 1)%nat).
    { intros c' H. apply (IH _ _ _ Hk') in H. cbn [Nat.mul]. lia. }
    assert (W : forall c', match walk_unsets fd o fs bm true with
                           | Some tl0 => Some (sep c' ++ quote_ref (f_key (fst f)) ++ 58 :: zero_text fd (snd f) ++ tl0)
                           | None => None
                           end = Some tl -> (length tl <= S (length fs) * (7 + F + M) + 1)%nat).
    { intros c'. destruct (walk_unsets fd o fs bm true) as [tl0|] eqn:E; [|discriminate]. apply (IH _ _ _ Hk') in E.
      intros H; inversion H; subst. clear H.
      pose proof (Hk f (or_introl eq_refl)) as Hq. pose proof (zero_text_le fd F (snd f) HF) as Hz.
      assert (Hs : (length (sep c') <= 1)%nat) by (destruct c'; cbn; lia). clear IH Hk Hk' G.
      unfold quote_ref in *. repeat first [rewrite app_length in * | progress cbn [length] in * ]. cbn [Nat.mul]. lia. }
    cbn [length]. destruct (negb (bm_isset bm (f_id (fst f)))); [apply G|].
    destruct (f_req (fst f) =? 1).
    + destruct (o_write_required o); [apply W|discriminate].
    + destruct ((f_req (fst f) =? 0) && o_write_default o); [apply W|apply G].
Qed.

(* with WriteRequireField and WriteDefaultField off, handleUnsets writes the closing brace only *)
Lemma walk_unsets_off fd o : o_write_required o = false -> o_write_default o = false ->
  forall (fs : list (fmeta * tdesc)) bm c tl, walk_unsets fd o fs bm c = Some tl -> tl = [125].
Proof.
  intros Hr Hd. induction fs as [|f fs IH]; intros bm c tl; cbn [walk_unsets].
  - intros H; inversion H; reflexivity.
  - rewrite Hr, Hd, andb_false_r. destruct (negb (bm_isset bm (f_id (fst f)))); [apply IH|].
    destruct (f_req (fst f) =? 1); [discriminate|apply IH].
Qed.

(* the text (and one more character) costs at most  (13 + F + desc_maxkey d) * (1 + desc_maxfields d)  characters per byte
   consumed, where F bounds the double lexemes: the STOP byte of a struct may have to pay for one  ,"key":zero  per
   declared field (WriteRequireField / WriteDefaultField).  In particular no output without input, and for a fixed
   descriptor the output of a walk over bs is O(|bs|) *)
Theorem t2j_walk_output_linear fd o F n d bs txt r : (forall b, (length (fd b) <= F)%nat) ->
  t2j_walk_gen fd o n d bs = Some (txt, r) ->
  (length txt + 1 <= (13 + F + desc_maxkey d) * (1 + desc_maxfields d) * (length bs - length r))%nat.
Proof.
  intros HF H. pose proof (t2j_walk_shrinks _ _ _ _ _ _ _ H) as Hl.
  apply (t2j_walk_paid fd o F (desc_maxkey d) (desc_maxfields d) ((13 + F + desc_maxkey d) * (1 + desc_maxfields d)) HF) in H.
  - unfold paid in H. rewrite Nat.mul_sub_distr_l. lia.
  - nia.
  - intros fs bm c tl Hn Hk Hu. apply (walk_unsets_len fd o F (desc_maxkey d) HF fs bm c tl Hk) in Hu.
    assert (length fs * (7 + F + desc_maxkey d) <= desc_maxfields d * (7 + F + desc_maxkey d))%nat
      by (apply Nat.mul_le_mono_r; exact Hn).
    nia.
  - apply Nat.le_refl.
  - apply Nat.le_refl.
Qed.

(* with the two write options off the bound does not depend on the number of declared fields *)
Theorem t2j_walk_output_linear_nowrite fd o F n d bs txt r : (forall b, (length (fd b) <= F)%nat) ->
  o_write_required o = false -> o_write_default o = false ->
  t2j_walk_gen fd o n d bs = Some (txt, r) ->
  (length txt + 1 <= (13 + F + desc_maxkey d) * (length bs - length r))%nat.
Proof.
  intros HF Hr Hd H. pose proof (t2j_walk_shrinks _ _ _ _ _ _ _ H) as Hl.
  apply (t2j_walk_paid fd o F (desc_maxkey d) (desc_maxfields d) (13 + F + desc_maxkey d) HF) in H.
  - unfold paid in H. rewrite Nat.mul_sub_distr_l. lia.
  - apply Nat.le_refl.
  - intros fs bm c tl _ _ Hu. apply (walk_unsets_off fd o Hr Hd) in Hu. subst tl. cbn [length]. lia.
  - apply Nat.le_refl.
  - apply Nat.le_refl.
Qed.

Corollary t2j_at_output_linear fd o F n d bs c txt c' : (forall b, (length (fd b) <= F)%nat) -> (c <= length bs)%nat ->
  t2j_at fd o n d bs c = Some (txt, c') ->
  (length txt + 1 <= (13 + F + desc_maxkey d) * (1 + desc_maxfields d) * (c' - c))%nat.
Proof.
  intros HF Hc. unfold t2j_at.
  destruct (t2j_walk_gen fd o n d (skipn c bs)) as [[t r]|] eqn:E; [|discriminate]. intros H; inversion H; subst.
  pose proof (t2j_walk_shrinks _ _ _ _ _ _ _ E) as Hl.
  apply (t2j_walk_output_linear _ _ F) in E; [|assumption]. rewrite skipn_length in *.
  replace (length bs - length r - c)%nat with (length bs - c - length r)%nat by lia. assumption.
Qed.
