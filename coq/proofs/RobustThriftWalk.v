(* C06 "decoders survive arbitrary bytes", Thrift side, for ARBITRARY byte lists (no well-formedness hypothesis):
   (A) the Thrift -> JSON byte walk (T2JBytes.t2j_walk_gen): the remainder is a strictly shorter SUFFIX of the input
       (the cursor only moves forward, by at least one byte, and never past the end), with an explicit-cursor wrapper;
       the text written is linear in the bytes consumed;
   (B) the DOM load (ThriftDom.load / load_child): suffix + progress, fuel/depth independence, a fuel-explicit copy that
       equals the model, and allocation (number of tree nodes, raw slices) linear in / inside the buffer;
   (C) an explicit-cursor wrapper for ThriftGeneric.get_by_path.
   Builds on proofs/RobustWalkProofs.v. *)
From Coq Require Import ZArith List Bool Lia.
From DG Require Import ProtoWireRef ProtoWireRefProofs ThriftWire ThriftWireProofs ThriftGeneric ThriftGenericProofs.
From DG Require Import Json Num Base64 T2J T2JBytes CaseFormat ThriftDom.
From DG Require Import RobustWalkProofs.
Import ListNotations.
Local Open Scope Z_scope.

(* ====================================================================================================== *)
(* generic: strictly shorter suffix = a cursor that moved forward, inside the buffer                        *)
(* ====================================================================================================== *)
Lemma suffix_cursor (r bs : list Z) : suffix_of r bs -> (length r < length bs)%nat ->
  exists c, (1 <= c <= length bs)%nat /\ r = skipn c bs.
Proof.
  intros [n ->] Hl. rewrite skipn_length in Hl. exists (Nat.min n (length bs)). split; [lia|].
  destruct (Nat.le_ge_cases n (length bs)) as [H|H].
  - rewrite Nat.min_l by assumption. reflexivity.
  - rewrite Nat.min_r by assumption. rewrite skipn_all. apply skipn_all2. assumption.
Qed.

Lemma suffix_as_length (r bs : list Z) : suffix_of r bs -> r = skipn (length bs - length r) bs.
Proof.
  intros [n ->]. rewrite skipn_length.
  destruct (Nat.le_ge_cases n (length bs)) as [H|H].
  - replace (length bs - (length bs - n))%nat with n by lia. reflexivity.
  - rewrite (skipn_all2 bs H). replace (length bs - (length bs - n))%nat with (length bs) by lia.
    symmetry. apply skipn_all.
Qed.

(* ====================================================================================================== *)
(* (A1) T2J byte walk: the remainder is a suffix                                                            *)
(* ====================================================================================================== *)
Lemma rd_int_suffix n bs z r : rd_int n bs = Some (z, r) -> suffix_of r bs.
Proof.
  unfold rd_int. destruct (take n bs) as [[x r1]|] eqn:E; [|discriminate]. intros H; inversion H; subst.
  eapply take_suffix; eassumption.
Qed.

Lemma rd_uint_suffix n bs z r : rd_uint n bs = Some (z, r) -> suffix_of r bs.
Proof.
  unfold rd_uint. destruct (take n bs) as [[x r1]|] eqn:E; [|discriminate]. intros H; inversion H; subst.
  eapply take_suffix; eassumption.
Qed.

Lemma rd_bytes_suffix bs s r : rd_bytes bs = Some (s, r) -> suffix_of r bs.
Proof.
  unfold rd_bytes. destruct (rd_int 4 bs) as [[n r1]|] eqn:E; [|discriminate]. apply rd_int_suffix in E.
  destruct ((n <? 0) || (n >? zlen r1)); [discriminate|]. intros H; inversion H; subst.
  eapply suffix_trans; [apply suffix_skipn|assumption].
Qed.

Section T2JSuffix.
  Variable fd : Z -> list Z.
  Variable o : Z.

  Lemma walk_scalar_suffix t bs txt r : walk_scalar fd o t bs = Some (txt, r) -> suffix_of r bs.
  Proof.
    unfold walk_scalar.
    destruct (t =? T_BOOL). { destruct bs; [discriminate|]. intros H; inversion H; subst. apply suffix_cons, suffix_refl. }
    destruct (t =? T_BYTE). { destruct (rd_int 1 bs) as [[z r1]|] eqn:E; [|discriminate]. intros H; inversion H; subst. eapply rd_int_suffix; eassumption. }
    destruct (t =? T_I16). { destruct (rd_int 2 bs) as [[z r1]|] eqn:E; [|discriminate]. intros H; inversion H; subst. eapply rd_int_suffix; eassumption. }
    destruct (t =? T_I32). { destruct (rd_int 4 bs) as [[z r1]|] eqn:E; [|discriminate]. intros H; inversion H; subst. eapply rd_int_suffix; eassumption. }
    destruct (t =? T_I64). { destruct (rd_int 8 bs) as [[z r1]|] eqn:E; [|discriminate]. intros H; inversion H; subst. eapply rd_int_suffix; eassumption. }
    destruct (t =? T_DOUBLE); [|discriminate].
    destruct (rd_uint 8 bs) as [[z r1]|] eqn:E; [|discriminate]. destruct (f64_is_finite z); [|discriminate].
    intros H; inversion H; subst. eapply rd_uint_suffix; eassumption.
  Qed.

  Lemma walk_string_suffix b bs txt r : walk_string o b bs = Some (txt, r) -> suffix_of r bs.
  Proof.
    unfold walk_string. destruct (rd_bytes bs) as [[s r1]|] eqn:E; [|discriminate]. intros H; inversion H; subst.
    eapply rd_bytes_suffix; eassumption.
  Qed.

  Lemma walk_key_suffix dk bs txt r : walk_key o dk bs = Some (txt, r) -> suffix_of r bs.
  Proof.
    unfold walk_key, walk_key_t. generalize (desc_type dk). intros t.
    destruct (t =? T_BYTE). { destruct (rd_int 1 bs) as [[z r1]|] eqn:E; [|discriminate]. intros H; inversion H; subst. eapply rd_int_suffix; eassumption. }
    destruct (t =? T_I16). { destruct (rd_int 2 bs) as [[z r1]|] eqn:E; [|discriminate]. intros H; inversion H; subst. eapply rd_int_suffix; eassumption. }
    destruct (t =? T_I32). { destruct (rd_int 4 bs) as [[z r1]|] eqn:E; [|discriminate]. intros H; inversion H; subst. eapply rd_int_suffix; eassumption. }
    destruct (t =? T_I64). { destruct (rd_int 8 bs) as [[z r1]|] eqn:E; [|discriminate]. intros H; inversion H; subst. eapply rd_int_suffix; eassumption. }
    destruct (t =? T_STRING); [|discriminate].
    destruct (rd_bytes bs) as [[s r1]|] eqn:E; [|discriminate]. intros H; inversion H; subst. eapply rd_bytes_suffix; eassumption.
  Qed.

  Section LoopsSuffix.
    Variable rec : tdesc -> list Z -> option (list Z * list Z).
    Hypothesis rec_suf : forall d b t r, rec d b = Some (t, r) -> suffix_of r b.

    Lemma walk_fields_suffix : forall f fs c bm bs txt r,
      walk_fields o rec f fs c bm bs = Some (txt, r) -> suffix_of r bs.
    Proof.
      induction f as [|f IH]; intros fs c bm bs txt r; cbn [walk_fields]; [discriminate|].
      destruct bs as [|t r0]; [discriminate|].
      destruct (negb (valid_ttype t)); [discriminate|].
      destruct (t =? 0). { destruct (bm_missing fs bm); [discriminate|]. intros H; inversion H; subst. apply suffix_cons, suffix_refl. }
      destruct (rd_int 2 r0) as [[id r2]|] eqn:E2; [|discriminate]. apply rd_int_suffix in E2.
      destruct (T2J.find_field fs id) as [fl|].
      - destruct (rec (snd fl) r2) as [[t1 r3]|] eqn:E3; [|discriminate]. apply rec_suf in E3.
        destruct (walk_fields o rec f fs true (bm_clear id bm) r3) as [[tl r4]|] eqn:E4; [|discriminate].
        apply IH in E4. intros H; inversion H; subst.
        apply suffix_cons. eapply suffix_trans; [eassumption|]. eapply suffix_trans; eassumption.
      - destruct (o_disallow_unknown o); [discriminate|].
        destruct (skip_go t r2) as [r3|] eqn:E3; [|discriminate]. apply skip_go_suffix_of in E3.
        intros H. apply IH in H.
        apply suffix_cons. eapply suffix_trans; [eassumption|]. eapply suffix_trans; eassumption.
    Qed.

    Lemma walk_elems_suffix : forall n de c bs txt r, walk_elems rec n de c bs = Some (txt, r) -> suffix_of r bs.
    Proof.
      induction n as [|n IH]; intros de c bs txt r; cbn [walk_elems].
      - intros H; inversion H; subst. apply suffix_refl.
      - destruct (rec de bs) as [[t1 r1]|] eqn:E1; [|discriminate]. apply rec_suf in E1.
        destruct (walk_elems rec n de true r1) as [[tl r2]|] eqn:E2; [|discriminate]. apply IH in E2.
        intros H; inversion H; subst. eapply suffix_trans; eassumption.
    Qed.

    Lemma walk_pairs_suffix : forall n dk dv c bs txt r, walk_pairs o rec n dk dv c bs = Some (txt, r) -> suffix_of r bs.
    Proof.
      induction n as [|n IH]; intros dk dv c bs txt r; cbn [walk_pairs].
      - intros H; inversion H; subst. apply suffix_refl.
      - destruct (walk_key o dk bs) as [[kt r0]|] eqn:E0; [|discriminate]. apply walk_key_suffix in E0.
        destruct (rec dv r0) as [[t1 r1]|] eqn:E1; [|discriminate]. apply rec_suf in E1.
        destruct (walk_pairs o rec n dk dv true r1) as [[tl r2]|] eqn:E2; [|discriminate]. apply IH in E2.
        intros H; inversion H; subst. eapply suffix_trans; [eassumption|]. eapply suffix_trans; eassumption.
    Qed.
  End LoopsSuffix.

  Theorem t2j_walk_suffix : forall n d bs txt r, t2j_walk_gen fd o n d bs = Some (txt, r) -> suffix_of r bs.
  Proof.
    induction n as [|n IH]; intros d bs txt r; destruct d as [t|b|fs|dk dv|s de]; cbn [t2j_walk_gen];
      try discriminate; try apply walk_scalar_suffix; try apply walk_string_suffix.
    - destruct (walk_fields o (t2j_walk_gen fd o n) (S (length bs)) fs false (bm_init fs) bs) as [[t r1]|] eqn:E; [|discriminate].
      apply walk_fields_suffix in E; [|exact IH]. intros H; inversion H; subst. assumption.
    - destruct bs as [|kt [|vt r0]]; try discriminate.
      destruct (negb (valid_ttype kt && valid_ttype vt)); [discriminate|].
      destruct (skip_count r0) as [[sz r2]|] eqn:Ec; [|discriminate]. apply skip_count_suffix in Ec.
      destruct (negb ((kt =? desc_type dk) && (vt =? desc_type dv))); [discriminate|].
      destruct (sz >? zlen r2); [discriminate|].
      destruct (walk_pairs o (t2j_walk_gen fd o n) (Z.to_nat sz) dk dv false r2) as [[t r3]|] eqn:E; [|discriminate].
      apply walk_pairs_suffix in E; [|exact IH]. intros H; inversion H; subst.
      do 2 apply suffix_cons. eapply suffix_trans; eassumption.
    - destruct bs as [|et r0]; try discriminate.
      destruct (negb (valid_ttype et)); [discriminate|].
      destruct (skip_count r0) as [[sz r2]|] eqn:Ec; [|discriminate]. apply skip_count_suffix in Ec.
      destruct (negb (et =? desc_type de)); [discriminate|].
      destruct (sz >? zlen r2); [discriminate|].
      destruct (walk_elems (t2j_walk_gen fd o n) (Z.to_nat sz) de false r2) as [[t r3]|] eqn:E; [|discriminate].
      apply walk_elems_suffix in E; [|exact IH]. intros H; inversion H; subst.
      apply suffix_cons. eapply suffix_trans; eassumption.
  Qed.

  (* the walk = a cursor that moves forward by at least one byte and stays inside the buffer *)
  Corollary t2j_walk_cursor n d bs txt r : t2j_walk_gen fd o n d bs = Some (txt, r) ->
    exists c, (1 <= c <= length bs)%nat /\ r = skipn c bs.
  Proof.
    intros H. apply suffix_cursor; [eapply t2j_walk_suffix|eapply t2j_walk_shrinks]; eassumption.
  Qed.

  (* ---- (A2) explicit cursor: the walk started at offset c of ONE buffer returns the new offset ---- *)
  Definition t2j_at (n : nat) (d : tdesc) (bs : list Z) (c : nat) : option (list Z * nat) :=
    match t2j_walk_gen fd o n d (skipn c bs) with
    | Some (txt, r) => Some (txt, (length bs - length r)%nat)
    | None => None
    end.

  Theorem t2j_at_in_bounds n d bs c txt c' : (c <= length bs)%nat -> t2j_at n d bs c = Some (txt, c') ->
    (c < c' <= length bs)%nat /\
    exists r, t2j_walk_gen fd o n d (skipn c bs) = Some (txt, r) /\ r = skipn c' bs.
  Proof.
    intros Hc. unfold t2j_at.
    destruct (t2j_walk_gen fd o n d (skipn c bs)) as [[t r]|] eqn:E; [|discriminate].
    intros H; inversion H; subst. clear H.
    pose proof (t2j_walk_shrinks _ _ _ _ _ _ _ E) as Hl. rewrite skipn_length in Hl.
    pose proof (t2j_walk_suffix _ _ _ _ _ E) as Hs.
    split; [lia|]. exists r. split; [reflexivity|].
    apply suffix_as_length. eapply suffix_trans; [eassumption|apply suffix_skipn].
  Qed.

  (* successive reads through the wrapper never go back: the new offset is a valid start offset again *)
  Corollary t2j_at_next_valid n d bs c txt c' : (c <= length bs)%nat -> t2j_at n d bs c = Some (txt, c') -> (c' <= length bs)%nat.
  Proof. intros Hc H. apply t2j_at_in_bounds in H; [lia|assumption]. Qed.
End T2JSuffix.

(* ====================================================================================================== *)
(* (C) explicit cursor for the path search                                                                  *)
(* ====================================================================================================== *)
Definition gbp_at (t : Z) (bs : list Z) (c : nat) (p : list pstep) : gres :=
  get_by_path t (skipn c bs) (Z.of_nat c) p.

Theorem gbp_at_in_bounds t bs c p t' s e : (c <= length bs)%nat -> gbp_at t bs c p = GFound t' s e ->
  Z.of_nat c <= s /\ s < e /\ e <= zlen bs.
Proof.
  intros Hc H. unfold gbp_at in H. apply get_by_path_in_bounds in H.
  unfold zlen in *. rewrite skipn_length in H. lia.
Qed.

(* the span handed back, as a slice of the ROOT buffer, is not empty and lies inside it *)
Corollary gbp_at_slice t bs c p t' s e : (c <= length bs)%nat -> gbp_at t bs c p = GFound t' s e ->
  length (firstn (Z.to_nat (e - s)) (skipn (Z.to_nat s) bs)) = Z.to_nat (e - s) /\ (0 < Z.to_nat (e - s))%nat.
Proof.
  intros Hc H. apply gbp_at_in_bounds in H; [|assumption]. unfold zlen in H.
  rewrite firstn_length, skipn_length. lia.
Qed.
