(* (G) thrift/binary_skip.go skipn / skipstr / next_nopanic (the primitives SkipGo is built from), translated from the Go source on
   every build (gen/Gen_thrift.v), against ThriftWire.drop / take (C01) and the explicit-cursor machines Robust.skipn_m / skipstr_m (C06). *)
From Coq Require Import ZArith List Bool Lia.
From DG Require Import GoSem GoSemLemmas CaseFormat ProtoWireRef ThriftWire Gen_thrift Check20h GenProtoskipProofs.
From DG Require Robust GenThriftProofs.
Import ListNotations.
Local Open Scope Z_scope.

Lemma skipn_closed buf rd n : in_buf buf rd -> 0 <= n < 2 ^ 62 ->
  BinaryProtocol_skipn buf rd n = if rd + n >? blen buf then (Err_io_EOF, buf, rd) else (0, buf, rd + n).
Proof.
  intros [Hr Hb] Hn. unfold BinaryProtocol_skipn. change (2 ^ 62) with 4611686018427387904 in *.
  rewrite wraps_small by (change (2 ^ (64 - 1)) with 9223372036854775808; lia). reflexivity.
Qed.

(* skipn = ThriftWire.drop on the bytes from the cursor on *)
Theorem skipn_is_drop buf rd n : in_buf buf rd -> 0 <= n < 2 ^ 62 ->
  fst (tskip_gen 0 buf rd n) = tskip_model 0 buf rd n.
Proof.
  intros H Hn. pose proof H as [Hr Hb]. pose proof (blen_slice_from buf rd Hr) as L.
  unfold tskip_gen, tskip_model. cbn [Z.eqb]. rewrite skipn_closed by assumption. unfold drop, zlen. fold (blen (slice_from buf rd)).
  replace (n <? 0) with false by (symmetry; apply Z.ltb_ge; lia). rewrite L.
  destruct (rd + n >? blen buf) eqn:E.
  - replace (n >? blen buf - rd) with true by (symmetry; apply Z.gtb_lt; apply Z.gtb_lt in E; lia). reflexivity.
  - replace (n >? blen buf - rd) with false by (symmetry; rewrite Z.gtb_ltb in *; apply Z.ltb_ge; apply Z.ltb_ge in E; lia).
    cbn [fst]. rewrite Z.gtb_ltb in E; apply Z.ltb_ge in E. rewrite blen_skipn by lia. rewrite L. f_equal. lia.
Qed.

(* next_nopanic = skipn that also returns the bytes it stepped over (ThriftWire.take) *)
Theorem next_nopanic_is_take buf rd n : in_buf buf rd -> 0 <= n < 2 ^ 62 ->
  BinaryProtocol_next_nopanic buf rd n =
    if rd + n >? blen buf then ([], Err_io_EOF, buf, rd) else (slice_range buf rd (rd + n), 0, buf, rd + n).
Proof.
  intros [Hr Hb] Hn. unfold BinaryProtocol_next_nopanic. change (2 ^ 62) with 4611686018427387904 in *.
  rewrite wraps_small by (change (2 ^ (64 - 1)) with 9223372036854775808; lia). reflexivity.
Qed.

(* ---------------------------------------------------------------- against the cursor machines of Robust.v *)
Definition out_obs (o : Robust.out) : option (bool * Z) :=
  match o with Robust.Ok s => Some (true, Robust.cur s) | Robust.Er _ s => Some (false, Robust.cur s) | _ => None end.

Theorem skipn_is_skipn_m buf n s : in_buf buf (Robust.cur s) -> 0 <= n < 2 ^ 62 ->
  out_obs (Robust.skipn_m buf n s) = Some (fst (tskip_gen 0 buf (Robust.cur s) n)).
Proof.
  intros H Hn. unfold tskip_gen. cbn [Z.eqb]. rewrite skipn_closed by assumption. unfold Robust.skipn_m, zlen. fold (blen buf).
  destruct (Robust.cur s + n >? blen buf); reflexivity.
Qed.

Lemma skipn_cons {A} (l : list A) : forall k b, nth_error l k = Some b -> skipn k l = b :: skipn (S k) l.
Proof. induction l as [|x l IH]; intros [|k] b H; try discriminate; cbn in *; [inversion H; reflexivity | apply IH; exact H]. Qed.

Lemma fetch_value bs n : forall i acc s, 0 <= i -> i + Z.of_nat n <= blen bs ->
  exists s', Robust.fetch bs n i acc s = Some (be_acc n (skipn (Z.to_nat i) bs) acc, s') /\ Robust.cur s' = Robust.cur s.
Proof.
  induction n as [|n IH]; intros i acc s Hi Hn; cbn [Robust.fetch be_acc]; [eexists; split; reflexivity|].
  unfold Robust.rd1. replace (i <? 0) with false by (symmetry; apply Z.ltb_ge; lia).
  destruct (nth_error bs (Z.to_nat i)) as [b|] eqn:E; [|apply nth_error_None in E; unfold blen in Hn; lia].
  rewrite (skipn_cons _ _ _ E).
  destruct (IH (i + 1) (acc * 256 + b) (Robust.logrd i s)) as (s' & Hf & Hc); [lia|lia|].
  replace (Z.to_nat (i + 1)) with (S (Z.to_nat i)) in Hf by lia. exists s'. split; [exact Hf | exact Hc].
Qed.

Lemma be_acc_bound n : forall l acc, bytes_ok l -> 0 <= acc -> 0 <= be_acc n l acc < (acc + 1) * 256 ^ Z.of_nat n.
Proof.
  induction n as [|n IH]; intros l acc Hl Ha; cbn [be_acc]; [cbn; lia|].
  rewrite Nat2Z.inj_succ, Z.pow_succ_r by lia. assert (P : 0 < 256 ^ Z.of_nat n) by (apply Z.pow_pos_nonneg; lia).
  destruct l as [|x r].
  - specialize (IH [] (acc * 256) Hl ltac:(lia)). nia.
  - inversion Hl as [|? ? Hx Hr]; subst. unfold byte_ok in Hx. specialize (IH r (acc * 256 + x) Hr ltac:(lia)). nia.
Qed.

(* skipstr = the machine skipstr_m: same tests in the same order (the `sz < 0` test is dead code in both), same cursor *)
Theorem skipstr_is_skipstr_m buf s : bytes_ok buf -> in_buf buf (Robust.cur s) ->
  out_obs (Robust.skipstr_m buf s) = Some (fst (tskip_gen 1 buf (Robust.cur s) 0)).
Proof.
  intros Hok H. pose proof H as [Hr Hb]. change (2 ^ 62) with 4611686018427387904 in Hb.
  unfold tskip_gen. cbn [Z.eqb Pos.eqb]. unfold BinaryProtocol_skipstr, Robust.skipstr_m, zlen. fold (blen buf).
  rewrite wraps_small by (change (2 ^ (64 - 1)) with 9223372036854775808; lia).
  destruct (Robust.cur s + 4 >? blen buf) eqn:E4; [reflexivity|].
  rewrite Z.gtb_ltb in E4; apply Z.ltb_ge in E4.
  unfold Robust.get. rewrite Z.add_0_r.
  destruct (fetch_value buf 4 (Robust.cur s) 0 s ltac:(lia) ltac:(cbn; lia)) as (s' & Hf & Hc). rewrite Hf.
  unfold be_get, slice_from. change (Z.to_nat 4) with 4%nat.
  pose proof (be_acc_bound 4 (skipn (Z.to_nat (Robust.cur s)) buf) 0 (bytes_ok_slice_from buf (Robust.cur s) Hok) ltac:(lia)) as B.
  change ((0 + 1) * 256 ^ Z.of_nat 4) with 4294967296 in B.
  set (sz := be_acc 4 (skipn (Z.to_nat (Robust.cur s)) buf) 0) in *.
  replace (sz <? 0) with false by (symmetry; apply Z.ltb_ge; lia). rewrite Hc.
  rewrite wraps_small by (change (2 ^ (64 - 1)) with 9223372036854775808; lia).
  destruct (Robust.cur s + 4 + sz >? blen buf) eqn:E; cbn [out_obs Robust.cur Robust.adv fst Z.eqb]; rewrite ?Hc; [reflexivity|]. f_equal. f_equal. lia.
Qed.

(* ---------------------------------------------------------------- skipstr against ThriftWire.skipstr (buffers below 2 GiB) *)
Lemma be_acc_firstn n : forall l acc, (n <= length l)%nat -> be_acc n (firstn n l) acc = be_acc n l acc.
Proof.
  induction n as [|n IH]; intros l acc H; [reflexivity|]. destruct l as [|x r]; [cbn in H; lia|].
  cbn [firstn be_acc]. apply IH. cbn in H. lia.
Qed.

Theorem skipstr_is_skipstr buf rd : bytes_ok buf -> in_buf buf rd -> blen buf < 2 ^ 31 ->
  fst (tskip_gen 1 buf rd 0) = tskip_model 1 buf rd 0.
Proof.
  intros Hok H H31. pose proof H as [Hr Hb]. change (2 ^ 62) with 4611686018427387904 in Hb. change (2 ^ 31) with 2147483648 in H31.
  pose proof (blen_slice_from buf rd Hr) as L.
  unfold tskip_gen, tskip_model. cbn [Z.eqb Pos.eqb]. unfold BinaryProtocol_skipstr, skipstr, take.
  rewrite wraps_small by (change (2 ^ (64 - 1)) with 9223372036854775808; lia).
  destruct (rd + 4 >? blen buf) eqn:E4.
  - apply Z.gtb_lt in E4. replace (4 <=? length (slice_from buf rd))%nat with false; [reflexivity|].
    symmetry. apply Nat.leb_gt. unfold blen in *. lia.
  - rewrite Z.gtb_ltb in E4; apply Z.ltb_ge in E4.
    assert (L4 : (4 <= length (slice_from buf rd))%nat) by (unfold blen in *; lia).
    replace (4 <=? length (slice_from buf rd))%nat with true by (symmetry; apply Nat.leb_le; exact L4).
    assert (D : dec_uint (firstn 4 (slice_from buf rd)) = be_get 4 (slice_from buf rd)).
    { rewrite <- (GenThriftProofs.be_get_dec_uint 4) by (rewrite firstn_length; lia). unfold be_get. change (Z.to_nat (Z.of_nat 4)) with 4%nat.
      change (Z.to_nat 4) with 4%nat. apply be_acc_firstn. exact L4. }
    pose proof (be_acc_bound 4 (slice_from buf rd) 0 (bytes_ok_slice_from buf rd Hok) ltac:(lia)) as B.
    change ((0 + 1) * 256 ^ Z.of_nat 4) with 4294967296 in B. fold (be_get 4 (slice_from buf rd)) in B. change (Z.to_nat 4) with 4%nat in B.
    unfold dec_int. rewrite D, firstn_length, Nat.min_l by exact L4. change (8 * Z.of_nat 4) with 32.
    unfold be_get in *. change (Z.to_nat 4) with 4%nat in *. set (sz := be_acc 4 (slice_from buf rd) 0) in *.
    replace (sz <? 0) with false by (symmetry; apply Z.ltb_ge; lia).
    assert (Ls : blen (skipn 4 (slice_from buf rd)) = blen buf - rd - 4) by (unfold blen in *; rewrite skipn_length; lia).
    destruct (Z_lt_ge_dec sz 2147483648) as [Hs|Hs].
    + assert (T : to_s 32 sz = sz).
      { unfold to_s. change (2 ^ (32 - 1)) with 2147483648. change (2 ^ 32) with 4294967296. rewrite Z.mod_small by lia. lia. }
      rewrite T. replace (sz <? 0) with false by (symmetry; apply Z.ltb_ge; lia).
      rewrite wraps_small by (change (2 ^ (64 - 1)) with 9223372036854775808; lia).
      unfold drop, zlen. fold (blen (skipn 4 (slice_from buf rd))). rewrite Ls.
      replace (sz <? 0) with false by (symmetry; apply Z.ltb_ge; lia).
      destruct (rd + 4 + sz >? blen buf) eqn:E.
      * apply Z.gtb_lt in E. replace (sz >? blen buf - rd - 4) with true by (symmetry; apply Z.gtb_lt; lia). reflexivity.
      * rewrite Z.gtb_ltb in E; apply Z.ltb_ge in E.
        replace (sz >? blen buf - rd - 4) with false by (symmetry; rewrite Z.gtb_ltb; apply Z.ltb_ge; lia).
        cbn [fst]. f_equal. unfold blen in *. rewrite !skipn_length. rewrite skipn_length in Ls. lia.
    + (* a declared length of 2 GiB or more: negative as int32 for the model, beyond the buffer for the code *)
      assert (T : to_s 32 sz <? 0 = true).
      { apply Z.ltb_lt. unfold to_s. change (2 ^ (32 - 1)) with 2147483648. change (2 ^ 32) with 4294967296.
        replace (sz + 2147483648) with (sz - 2147483648 + 1 * 4294967296) by lia. rewrite Z.mod_add by lia. rewrite Z.mod_small by lia. lia. }
      rewrite T. rewrite wraps_small by (change (2 ^ (64 - 1)) with 9223372036854775808; lia).
      replace (rd + 4 + sz >? blen buf) with true by (symmetry; apply Z.gtb_lt; lia). reflexivity.
Qed.

(* ---------------------------------------------------------------- SkipGo: the fixed-size fast paths *)
From DG Require Gen_thriftskipfast.
(* a list / set / map of fixed-size elements is skipped by ONE skipn of count x width - the exact product, as ThriftWire.skip and the
   machine of Robust.v compute it (an int32 product would wrap for counts above 2^31 / width) *)
Theorem SkipGo_fast_paths_exact :
  (forall vt sz, 0 <= vt < 256 -> 0 <= sz < 2 ^ 31 ->
     Gen_thriftskipfast.SkipGo_list_fast vt sz = (Gen_thriftskipfast.Out_return, [(Gen_thriftskipfast.Eff_skipn, [sz * fixed_size vt])])) /\
  (forall kt vt sz, 0 <= kt < 256 -> 0 <= vt < 256 -> 0 <= sz < 2 ^ 31 ->
     Gen_thriftskipfast.SkipGo_map_fast sz (Gen_thriftskipfast.typeSize kt) (Gen_thriftskipfast.typeSize vt)
       = (Gen_thriftskipfast.Out_return, [(Gen_thriftskipfast.Eff_skipn, [sz * (fixed_size kt + fixed_size vt)])])).
Proof.
  assert (TS : forall t, 0 <= t < 256 -> Gen_thriftskipfast.typeSize t = fixed_size t /\ -1 <= fixed_size t <= 8).
  { intros t Ht. assert (E : (Gen_thriftskipfast.typeSize t =? fixed_size t) && (-1 <=? fixed_size t) && (fixed_size t <=? 8) = true).
    { revert t Ht. apply GenThriftProofs.byte_sweep. vm_compute. reflexivity. }
    apply andb_true_iff in E. destruct E as [E E3]. apply andb_true_iff in E. destruct E as [E1 E2].
    apply Z.eqb_eq in E1. apply Z.leb_le in E2. apply Z.leb_le in E3. lia. }
  change (2 ^ 31) with 2147483648. split.
  - intros vt sz Hv Hs. unfold Gen_thriftskipfast.SkipGo_list_fast. destruct (TS vt Hv) as [-> B].
    rewrite wraps_small by (change (2 ^ (64 - 1)) with 9223372036854775808; nia). reflexivity.
  - intros kt vt sz Hk Hv Hs. unfold Gen_thriftskipfast.SkipGo_map_fast. destruct (TS kt Hk) as [-> Bk]. destruct (TS vt Hv) as [-> Bv].
    rewrite (wraps_small 64 (fixed_size kt + fixed_size vt)) by (change (2 ^ (64 - 1)) with 9223372036854775808; lia).
    rewrite wraps_small by (change (2 ^ (64 - 1)) with 9223372036854775808; nia). reflexivity.
Qed.
