(* C06 — the arbitrary-bytes cursor machines of model/Robust.v compute the same function as the
   list-based models that carry the round-trip theorems (ThriftWire.skip / decode, ProtoMsg.wdec).
   Stated in props/Properties_C06.v. *)
From Coq Require Import ZArith List Bool Lia.
From DG Require Import ProtoWireRef ProtoWireRefProofs ThriftWire ThriftWireProofs ThriftEnvelope Robust RobustProofs.
Import ListNotations.
Local Open Scope Z_scope.

(* ------------------------------------------------------------------ lists *)

Lemma skipn_skipn' {A} (l : list A) : forall y x, skipn x (skipn y l) = skipn (y + x) l.
Proof.
  induction l as [|a l IH]; intros y x.
  - rewrite !skipn_nil. reflexivity.
  - destruct y; [reflexivity|]. cbn [skipn Nat.add]. apply IH.
Qed.

Lemma take_some n (l : list Z) : (n <= length l)%nat -> ThriftWire.take n l = Some (firstn n l, skipn n l).
Proof. intros H. unfold ThriftWire.take. destruct (Nat.leb_spec n (length l)); [reflexivity | lia]. Qed.

Lemma take_none n (l : list Z) : (length l < n)%nat -> ThriftWire.take n l = None.
Proof. intros H. unfold ThriftWire.take. destruct (Nat.leb_spec n (length l)); [lia | reflexivity]. Qed.

(* big-endian accumulation, as [fetch] does it *)
Fixpoint be (acc : Z) (l : list Z) : Z := match l with [] => acc | b :: r => be (acc * 256 + b) r end.

Lemma dec_int4 x : length x = 4%nat -> dec_int x = to_s 32 (be 0 x).
Proof.
  intros H. destruct x as [|a [|b [|c [|d [|e x]]]]]; try discriminate H.
  unfold dec_int, dec_uint. change (8 * Z.of_nat (length [a; b; c; d])) with 32. f_equal.
  cbn [length rev app le_dec be]. ring.
Qed.

Lemma be4_range x : bytes_ok x -> length x = 4%nat -> 0 <= be 0 x < 4294967296.
Proof.
  intros Hb H. destruct x as [|a [|b [|c [|d [|e x]]]]]; try discriminate H.
  inversion Hb as [|? ? Ha Hb1]; subst. inversion Hb1 as [|? ? Hb' Hb2]; subst.
  inversion Hb2 as [|? ? Hc Hb3]; subst. inversion Hb3 as [|? ? Hd _]; subst.
  unfold byte_ok in *. cbn [be]. lia.
Qed.

Lemma to_s32_small v : 0 <= v < 2147483648 -> to_s 32 v = v.
Proof.
  intros H. unfold to_s. change (2 ^ (32 - 1)) with 2147483648. change (2 ^ 32) with 4294967296.
  Z.div_mod_to_equations. lia.
Qed.

Lemma to_s32_big v : 2147483648 <= v < 4294967296 -> to_s 32 v < 0.
Proof.
  intros H. unfold to_s. change (2 ^ (32 - 1)) with 2147483648. change (2 ^ 32) with 4294967296.
  Z.div_mod_to_equations. lia.
Qed.

Lemma bytes_ok_firstn n (l : list Z) : bytes_ok l -> bytes_ok (firstn n l).
Proof.
  intros H. unfold bytes_ok in *. rewrite <- (firstn_skipn n l) in H. apply Forall_app in H. tauto.
Qed.

Lemma bytes_ok_skipn n (l : list Z) : bytes_ok l -> bytes_ok (skipn n l).
Proof.
  intros H. unfold bytes_ok in *. rewrite <- (firstn_skipn n l) in H. apply Forall_app in H. tauto.
Qed.

(* ------------------------------------------------------------------ cursor vs suffix *)

Section Suffix.
Variable bs : list Z.

Definition suffix (s : st) : list Z := skipn (Z.to_nat (cur s)) bs.

Lemma suffix_cur s s' : cur s' = cur s -> suffix s' = suffix s.
Proof. intros H. unfold suffix. rewrite H. reflexivity. Qed.

Lemma suffix_len s : inv bs s -> Z.of_nat (length (suffix s)) = zlen bs - cur s.
Proof. intros [H _]. unfold suffix, zlen in *. rewrite skipn_length. lia. Qed.

Lemma suffix_adv s s' n : inv bs s -> cur s' = cur s -> 0 <= n ->
  suffix (adv n s') = skipn (Z.to_nat n) (suffix s).
Proof.
  intros Hs Hc Hn. unfold suffix, adv; cbn [cur]. rewrite skipn_skipn'. f_equal. destruct Hs as [Hs _]. lia.
Qed.

Lemma fetch_val n : forall i acc s, inv bs s -> 0 <= i -> i + Z.of_nat n <= zlen bs ->
  exists s', fetch bs n i acc s = Some (be acc (firstn n (skipn (Z.to_nat i) bs)), s') /\ same bs s s'.
Proof.
  induction n as [|n IH]; intros i acc s Hs Hi Hn; cbn [fetch].
  - exists s. split; [reflexivity | apply same_refl; assumption].
  - destruct (rd1_some bs i) as (b & Hb & Hnth); [lia|]. rewrite Hb.
    rewrite (skipn_nth_cons bs _ b Hnth). cbn [firstn be].
    destruct (IH (i + 1) (acc * 256 + b) (logrd i s)) as (s' & Hf & Hsame); try lia.
    + fin. constructor; [lia | assumption].
    + replace (Z.to_nat (i + 1)) with (S (Z.to_nat i)) in Hf by lia.
      exists s'. split; [exact Hf|]. fin.
Qed.

Lemma get_val n off s k : inv bs s -> 0 <= off -> cur s + off + Z.of_nat n <= zlen bs ->
  exists s', get bs n off s k = k (be 0 (firstn n (skipn (Z.to_nat off) (suffix s)))) s' /\ same bs s s'.
Proof.
  intros Hs Ho Hn. unfold get.
  destruct (fetch_val n (cur s + off) 0 s) as (s' & Hf & Hsame); try assumption; [destruct Hs as [Hs _]; lia|].
  rewrite Hf. exists s'. split; [|assumption].
  unfold suffix. rewrite skipn_skipn'. do 4 f_equal. destruct Hs as [Hs _]. lia.
Qed.

(* a cursor-machine result against a list-model result *)
Definition oref (o : out) (m : option (list Z)) : Prop :=
  match o with
  | Ok s' => m = Some (suffix s')
  | Er _ _ => m = None
  | OutOfFuel => True
  | OverRead _ => False
  | Panic _ => False
  end.

Lemma skipn_ref n s : inv bs s -> 0 <= n -> oref (skipn_m bs n s) (drop n (suffix s)).
Proof.
  intros Hs Hn. unfold skipn_m, drop, zlen at 2. rewrite (suffix_len s Hs).
  destruct (Z.ltb_spec n 0); [lia|].
  destruct (Z.gtb_spec (cur s + n) (zlen bs)); destruct (Z.gtb_spec n (zlen bs - cur s)); try lia; cbn [oref].
  - reflexivity.
  - rewrite (suffix_adv s s n); auto.
Qed.

Hypothesis Hbytes : bytes_ok bs.
Hypothesis Hlen : zlen bs < 2 ^ 31.

Lemma skipstr_ref s : inv bs s -> oref (skipstr_m bs s) (skipstr (suffix s)).
Proof.
  intros Hs. unfold skipstr_m, skipstr. pose proof (suffix_len s Hs) as Hl.
  destruct (Z.gtb_spec (cur s + 4) (zlen bs)).
  { rewrite take_none by lia. reflexivity. }
  rewrite take_some by lia.
  destruct (get_val 4 0 s (fun sz s' =>
      if sz <? 0 then Er E_SIZE s'
      else if cur s' + 4 + sz >? zlen bs then Er E_EOF s' else Ok (adv (4 + sz) s')) Hs) as (s1 & E & E1);
    [lia | lia |]. rewrite E. clear E. change (Z.to_nat 0) with 0%nat. rewrite skipn_O.
  set (x := firstn 4 (suffix s)).
  assert (Hx : length x = 4%nat) by (apply firstn_length_le; lia).
  assert (Hxb : bytes_ok x) by (apply bytes_ok_firstn, bytes_ok_skipn, Hbytes).
  pose proof (be4_range x Hxb Hx) as Hr. rewrite (dec_int4 x Hx). cbv zeta.
  change (2 ^ 31) with 2147483648 in Hlen.
  assert (Hc1 : cur s1 = cur s) by (unfold same in E1; tauto).
  assert (Hl4 : zlen (skipn 4 (suffix s)) = zlen bs - cur s - 4) by (unfold zlen in *; rewrite skipn_length; lia).
  destruct (Z.ltb_spec (be 0 x) 0); [lia|].
  destruct (Z.gtb_spec (cur s1 + 4 + be 0 x) (zlen bs)); cbn [oref].
  - destruct (Z.lt_ge_cases (be 0 x) 2147483648).
    + rewrite to_s32_small by lia. destruct (Z.ltb_spec (be 0 x) 0); [reflexivity|].
      unfold drop. rewrite Hl4. destruct (Z.ltb_spec (be 0 x) 0); [reflexivity|].
      destruct (Z.gtb_spec (be 0 x) (zlen bs - cur s - 4)); [reflexivity | lia].
    + pose proof (to_s32_big (be 0 x) ltac:(lia)). destruct (Z.ltb_spec (to_s 32 (be 0 x)) 0); [reflexivity | lia].
  - destruct Hs as [Hs0 Hs']. rewrite to_s32_small by lia.
    destruct (Z.ltb_spec (be 0 x) 0); [lia|].
    unfold drop. rewrite Hl4. destruct (Z.ltb_spec (be 0 x) 0); [lia|].
    destruct (Z.gtb_spec (be 0 x) (zlen bs - cur s - 4)); [lia|].
    rewrite (suffix_adv s s1 (4 + be 0 x)); [|split; assumption|assumption|lia].
    rewrite skipn_skipn'. do 2 f_equal. lia.
Qed.

End Suffix.

(* ------------------------------------------------------------------ (A) Thrift skip *)

Section SkipRefine.
Variable bs : list Z.
Hypothesis Hbytes : bytes_ok bs.
Hypothesis Hlen : zlen bs < 2 ^ 31.

Lemma get_val' n off s0 s k l v :
  inv bs s -> cur s = cur s0 -> 0 <= off -> cur s + off + Z.of_nat n <= zlen bs ->
  firstn n (skipn (Z.to_nat off) (suffix bs s0)) = l -> be 0 l = v ->
  exists s', get bs n off s k = k v s' /\ cur s' = cur s0 /\ inv bs s'.
Proof.
  intros Hs Hc Ho Hn Hl Hv.
  destruct (get_val bs n off s k Hs Ho Hn) as (s' & E & E1).
  rewrite (suffix_cur bs s0 s Hc), Hl, Hv in E.
  exists s'. split; [exact E|]. unfold same in E1. split; [lia | tauto].
Qed.

Lemma skipn_cases n s : inv bs s -> 0 <= n ->
  (skipn_m bs n s = Er E_EOF s /\ drop n (suffix bs s) = None) \/
  (skipn_m bs n s = Ok (adv n s) /\ drop n (suffix bs s) = Some (suffix bs (adv n s)) /\ inv bs (adv n s)).
Proof.
  intros Hs Hn. pose proof (skipn_ref bs n s Hs Hn) as H. unfold skipn_m in *.
  destruct (Z.gtb_spec (cur s + n) (zlen bs)); cbn [oref] in H; [left; auto|].
  right. split; [reflexivity|]. split; [exact H|]. fin.
Qed.

Lemma skipstr_inv s : inv bs s ->
  match skipstr_m bs s with Ok s' => inv bs s' /\ cur s + 4 <= cur s' | _ => True end.
Proof. intros Hs. apply skipstr_wp; [assumption | intros; exact I | intros; fin]. Qed.

Definition sref (k : stask) (s : st) (o : out) : Prop :=
  match k with
  | KVal t d => oref bs o (skip (Z.to_nat d) t (suffix bs s))
  | KFields d => forall lf, (length (suffix bs s) < lf)%nat ->
                 oref bs o (skip_fields (skip (Z.to_nat (d - 1))) lf (suffix bs s))
  | KElems n et d => 0 <= n -> fixed_size et <= 0 ->
                 oref bs o (skip_elems (skip (Z.to_nat (d - 1))) (Z.to_nat n) et (suffix bs s))
  | KPairs n kt vt d => 0 <= n ->
                 oref bs o (skip_pairs (skip (Z.to_nat (d - 1))) (Z.to_nat n) kt vt (suffix bs s))
  end.

Ltac gstep n off s0 s Hs El l v s1 Hc1 Hi1 :=
  match goal with |- context [get bs n off s ?k] =>
    let E := fresh "E" in
    destruct (get_val' n off s0 s k l v Hs) as (s1 & E & Hc1 & Hi1);
    [ try assumption; try reflexivity; lia | lia | lia | rewrite El; reflexivity | reflexivity
    | rewrite E; clear E; cbv beta ]
  end.

(* a recursive call in non-tail position: combine the refinement IH with srun_post *)
Ltac rcall IH f k s Hi s' Href Hpost :=
  pose proof (IH k s Hi) as Href; pose proof (srun_post bs f k s Hi) as Hpost;
  destruct (srun bs f k s) as [s'|? ?|?|?|]; unfold spost, sadv in Hpost;
  cbn [oref seq_out sref] in Href |- *; [ | | contradiction | contradiction | exact I].

Lemma srun_ref : forall f k s, inv bs s -> sref k s (srun bs f k s).
Proof.
  induction f as [|f IH]; intros k s Hs.
  { destruct k; cbn [srun sref]; intros; exact I. }
  destruct k as [t d|d|n et d|n kt vt d]; cbn [srun sref]; cbv zeta.
  - (* KVal *)
    destruct (Z.leb_spec d 0) as [Hd|Hd].
    { replace (Z.to_nat d) with 0%nat by lia. reflexivity. }
    replace (Z.to_nat d) with (S (Z.to_nat (d - 1))) by lia. rewrite skip_S. cbv zeta.
    set (s0 := enter (skip_limit - d + 1) s).
    assert (Hc0 : cur s0 = cur s) by reflexivity.
    assert (Hi0 : inv bs s0) by (subst s0; fin).
    rewrite <- (suffix_cur bs s s0 Hc0). clearbody s0. clear Hc0 Hs s.
    pose proof (suffix_len bs s0 Hi0) as Hl.
    destruct (Z.gtb_spec (fixed_size t) 0). { apply skipn_ref; [assumption | lia]. }
    destruct (t =? T_STRING). { apply skipstr_ref; assumption. }
    destruct (t =? T_STRUCT). { apply (IH (KFields d) s0 Hi0). lia. }
    destruct (t =? T_MAP).
    { destruct (Z.gtb_spec (cur s0 + 6) (zlen bs)).
      { destruct (suffix bs s0) as [|kt [|vt r]]; try reflexivity. cbn [oref length] in *.
        unfold skip_count. rewrite take_none by lia. reflexivity. }
      destruct (suffix bs s0) as [|kt [|vt r]] eqn:El; cbn [length] in Hl; try lia.
      gstep 1%nat 0 s0 s0 Hi0 El [kt] kt s1 Hc1 Hi1.
      gstep 1%nat 1 s0 s1 Hi1 El [vt] vt s2 Hc2 Hi2.
      gstep 4%nat 2 s0 s2 Hi2 El (firstn 4 r) (be 0 (firstn 4 r)) s3 Hc3 Hi3.
      unfold skip_count. rewrite take_some by lia.
      rewrite (dec_int4 (firstn 4 r)) by (apply firstn_length_le; lia). cbv zeta.
      set (sz := to_s 32 (be 0 (firstn 4 r))). clearbody sz.
      destruct (Z.ltb_spec sz 0) as [Hsz|Hsz]; [reflexivity|].
      assert (Hr2 : suffix bs (adv 6 s3) = skipn 4 r)
        by (rewrite (suffix_adv bs s0 s3 6) by (assumption || lia); rewrite El; reflexivity).
      rewrite <- Hr2.
      assert (Hi4 : inv bs (adv 6 s3)) by fin.
      pose proof (suffix_len bs (adv 6 s3) Hi4) as Hl4.
      assert (Hloop : oref bs (srun bs f (KPairs sz kt vt d) (adv 6 s3))
                (if sz >? zlen (suffix bs (adv 6 s3)) then None
                 else skip_pairs (skip (Z.to_nat (d - 1))) (Z.to_nat sz) kt vt (suffix bs (adv 6 s3)))).
      { destruct (Z.gtb_spec sz (zlen (suffix bs (adv 6 s3)))) as [Hgt|Hle].
        - pose proof (srun_post bs f (KPairs sz kt vt d) (adv 6 s3) Hi4) as Hp.
          destruct (srun bs f (KPairs sz kt vt d) (adv 6 s3)); unfold spost, sadv in Hp; cbn [oref];
            [|reflexivity|assumption|assumption|exact I].
          unfold zlen at 1 in Hgt. unfold inv in Hp. lia.
        - apply (IH (KPairs sz kt vt d) (adv 6 s3) Hi4). lia. }
      destruct (Z.gtb_spec (fixed_size kt) 0); destruct (Z.gtb_spec (fixed_size vt) 0); cbn [andb];
        try exact Hloop.
      apply skipn_ref; [assumption | nia]. }
    destruct ((t =? T_SET) || (t =? T_LIST)); [|reflexivity].
    destruct (Z.gtb_spec (cur s0 + 5) (zlen bs)).
    { destruct (suffix bs s0) as [|et r]; try reflexivity. cbn [oref length] in *.
      unfold skip_count. rewrite take_none by lia. reflexivity. }
    destruct (suffix bs s0) as [|et r] eqn:El; cbn [length] in Hl; try lia.
    gstep 1%nat 0 s0 s0 Hi0 El [et] et s1 Hc1 Hi1.
    gstep 4%nat 1 s0 s1 Hi1 El (firstn 4 r) (be 0 (firstn 4 r)) s2 Hc2 Hi2.
    unfold skip_count. rewrite take_some by lia.
    rewrite (dec_int4 (firstn 4 r)) by (apply firstn_length_le; lia). cbv zeta.
    set (sz := to_s 32 (be 0 (firstn 4 r))). clearbody sz.
    destruct (Z.ltb_spec sz 0) as [Hsz|Hsz]; [reflexivity|].
    assert (Hr2 : suffix bs (adv 5 s2) = skipn 4 r)
      by (rewrite (suffix_adv bs s0 s2 5) by (assumption || lia); rewrite El; reflexivity).
    rewrite <- Hr2.
    assert (Hi4 : inv bs (adv 5 s2)) by fin.
    pose proof (suffix_len bs (adv 5 s2) Hi4) as Hl4.
    destruct (Z.gtb_spec (fixed_size et) 0) as [Hes|Hes]. { apply skipn_ref; [assumption | nia]. }
    destruct (Z.gtb_spec sz (zlen (suffix bs (adv 5 s2)))) as [Hgt|Hle].
    + pose proof (srun_post bs f (KElems sz et d) (adv 5 s2) Hi4) as Hp.
      destruct (srun bs f (KElems sz et d) (adv 5 s2)); unfold spost, sadv in Hp; cbn [oref];
        [|reflexivity|assumption|assumption|exact I].
      unfold zlen at 1 in Hgt. unfold inv in Hp. lia.
    + apply (IH (KElems sz et d) (adv 5 s2) Hi4); lia.
  - (* KFields *)
    intros lf Hlf. pose proof (suffix_len bs s Hs) as Hl.
    destruct (Z.gtb_spec (cur s + 1) (zlen bs)).
    { destruct (suffix bs s) as [|tp r]; [|cbn [length] in Hl; lia].
      destruct lf; [cbn [length] in Hlf; lia | reflexivity]. }
    destruct (suffix bs s) as [|tp r] eqn:El; cbn [length] in Hl, Hlf; [lia|].
    destruct lf as [|lf]; [lia|]. cbn [skip_fields].
    gstep 1%nat 0 s s Hs El [tp] tp s1 Hc1 Hi1.
    assert (Hr : suffix bs (adv 1 s1) = r)
      by (rewrite (suffix_adv bs s s1 1) by (assumption || lia); rewrite El; reflexivity).
    destruct (tp =? 0); [cbn [oref]; rewrite Hr; reflexivity|].
    rewrite <- Hr. assert (Hi1' : inv bs (adv 1 s1)) by fin.
    destruct (skipn_cases 2 (adv 1 s1) Hi1' ltac:(lia)) as [(Em & Ed) | (Em & Ed & Hi2)]; rewrite Em, Ed;
      cbn [seq_out]; [reflexivity|].
    set (s2 := adv 2 (adv 1 s1)) in *. assert (Hc2 : cur s2 = cur s + 3) by (subst s2; fin). clearbody s2.
    cbv zeta. destruct (Z.gtb_spec (fixed_size tp) 0).
    + destruct (skipn_cases (fixed_size tp) s2 Hi2 ltac:(lia)) as [(Em3 & Ed3) | (Em3 & Ed3 & Hi3)];
        rewrite Em3, Ed3; cbn [seq_out]; [reflexivity|].
      apply (IH (KFields d) (adv (fixed_size tp) s2) Hi3).
      pose proof (suffix_len bs _ Hi3) as Hl3.
      change (cur (adv (fixed_size tp) s2)) with (cur s2 + fixed_size tp) in Hl3. lia.
    + rcall IH f (KVal tp (d - 1)) s2 Hi2 s3 Href Hpost; rewrite Href; [|reflexivity].
      destruct Hpost as (Hi3 & Hadv & _).
      apply (IH (KFields d) s3 Hi3).
      pose proof (suffix_len bs _ Hi3) as Hl3. lia.
  - (* KElems *)
    intros Hn Hfix. destruct (Z.leb_spec n 0) as [Hn0|Hn0].
    { replace (Z.to_nat n) with 0%nat by lia. reflexivity. }
    replace (Z.to_nat n) with (S (Z.to_nat (n - 1))) by lia. cbn [skip_elems]. unfold skip_one. cbv zeta.
    destruct (Z.gtb_spec (fixed_size et) 0); [lia|].
    destruct (et =? T_STRING).
    + pose proof (skipstr_ref bs Hbytes Hlen s Hs) as Href. pose proof (skipstr_inv s Hs) as Hpost.
      destruct (skipstr_m bs s) as [s1|? ?|?|?|]; cbn [oref seq_out] in Href |- *;
        [ | rewrite Href; reflexivity | contradiction | contradiction | exact I].
      rewrite Href. destruct Hpost as (Hi1 & _).
      apply (IH (KElems (n - 1) et d) s1 Hi1); lia.
    + rcall IH f (KVal et (d - 1)) s Hs s1 Href Hpost; rewrite Href; [|reflexivity].
      destruct Hpost as (Hi1 & _).
      apply (IH (KElems (n - 1) et d) s1 Hi1); lia.
  - (* KPairs *)
    intros Hn. destruct (Z.leb_spec n 0) as [Hn0|Hn0].
    { replace (Z.to_nat n) with 0%nat by lia. reflexivity. }
    replace (Z.to_nat n) with (S (Z.to_nat (n - 1))) by lia. cbn [skip_pairs].
    assert (Hone : forall t s1, inv bs s1 ->
      let o := (if fixed_size t >? 0 then skipn_m bs (fixed_size t) s1
                else if t =? T_STRING then skipstr_m bs s1 else srun bs f (KVal t (d - 1)) s1) in
      oref bs o (skip_one (skip (Z.to_nat (d - 1))) t (suffix bs s1)) /\
      match o with Ok s' => inv bs s' | _ => True end).
    { intros t s1 Hs1. unfold skip_one. cbv zeta.
      destruct (Z.gtb_spec (fixed_size t) 0).
      { destruct (skipn_cases (fixed_size t) s1 Hs1 ltac:(lia)) as [(Em & Ed) | (Em & Ed & Hi)];
          rewrite Em, Ed; cbn [oref]; auto. }
      destruct (t =? T_STRING).
      { split; [apply skipstr_ref; assumption|].
        pose proof (skipstr_inv s1 Hs1) as Hp. destruct (skipstr_m bs s1); tauto. }
      split; [apply (IH (KVal t (d - 1)) s1 Hs1)|].
      pose proof (srun_post bs f (KVal t (d - 1)) s1 Hs1) as Hp.
      destruct (srun bs f (KVal t (d - 1)) s1); unfold spost in Hp; tauto. }
    destruct (Hone kt s Hs) as (Href1 & Hp1). cbv zeta in Href1, Hp1.
    match type of Href1 with oref _ ?o _ => destruct o as [s1|? ?|?|?|] end;
      cbn [oref seq_out] in Href1 |- *; [ | rewrite Href1; reflexivity | contradiction | contradiction | exact I].
    rewrite Href1.
    destruct (Hone vt s1 Hp1) as (Href2 & Hp2). cbv zeta in Href2, Hp2.
    match type of Href2 with oref _ ?o _ => destruct o as [s2|? ?|?|?|] end;
      cbn [oref seq_out] in Href2 |- *; [ | rewrite Href2; reflexivity | contradiction | contradiction | exact I].
    rewrite Href2.
    apply (IH (KPairs (n - 1) kt vt d) s2 Hp2). lia.
Qed.

Lemma depth_eq : Z.to_nat skip_limit = max_skip_depth.
Proof. reflexivity. Qed.

Theorem skip_refines t :
  match skip_go_m t bs with
  | Ok s => skip_go t bs = Some (skipn (Z.to_nat (cur s)) bs)
  | Er _ _ => skip_go t bs = None
  | _ => False
  end.
Proof.
  pose proof (srun_ref (fuel_for bs) (KVal t skip_limit) st0 (inv_st0 bs)) as H.
  pose proof (skip_go_progress bs t) as Hp. unfold skip_go_m in *. unfold skip_go.
  unfold sref in H. rewrite depth_eq in H. change (suffix bs st0) with bs in H.
  destruct (srun bs (fuel_for bs) (KVal t skip_limit) st0); unfold oref in H; try assumption.
  congruence.
Qed.

(* general form: any start state, any depth budget, any fuel *)
Theorem srun_ref_val fuel t d s : inv bs s ->
  match srun bs fuel (KVal t d) s with
  | Ok s' => skip (Z.to_nat d) t (suffix bs s) = Some (suffix bs s')
  | Er _ _ => skip (Z.to_nat d) t (suffix bs s) = None
  | OutOfFuel => True
  | _ => False
  end.
Proof. intros Hs. exact (srun_ref fuel (KVal t d) s Hs). Qed.

End SkipRefine.

(* ------------------------------------------------------------------ (B) Thrift reader vs decoder *)

Lemma dec_scalar_bool l : dec_scalar T_BOOL l = match l with b :: r => Some (VBool b, r) | [] => None end.
Proof. reflexivity. Qed.
Lemma dec_scalar_byte l : dec_scalar T_BYTE l =
  match ThriftWire.take 1 l with Some (x, r) => Some (VByte (dec_int x), r) | None => None end.
Proof. reflexivity. Qed.
Lemma dec_scalar_i16 l : dec_scalar T_I16 l =
  match ThriftWire.take 2 l with Some (x, r) => Some (VI16 (dec_int x), r) | None => None end.
Proof. reflexivity. Qed.
Lemma dec_scalar_i32 l : dec_scalar T_I32 l =
  match ThriftWire.take 4 l with Some (x, r) => Some (VI32 (dec_int x), r) | None => None end.
Proof. reflexivity. Qed.
Lemma dec_scalar_i64 l : dec_scalar T_I64 l =
  match ThriftWire.take 8 l with Some (x, r) => Some (VI64 (dec_int x), r) | None => None end.
Proof. reflexivity. Qed.
Lemma dec_scalar_double l : dec_scalar T_DOUBLE l =
  match ThriftWire.take 8 l with Some (x, r) => Some (VDouble (dec_uint x), r) | None => None end.
Proof. reflexivity. Qed.
Lemma dec_scalar_string l : dec_scalar T_STRING l =
  match ThriftWire.take 4 l with
  | Some (x, r) => let n := dec_int x in
      if n <? 0 then None
      else match ThriftWire.take (Z.to_nat n) r with Some (s, r') => Some (VString s, r') | None => None end
  | None => None
  end.
Proof. reflexivity. Qed.

Lemma decode_listset d t l : t = T_LIST \/ t = T_SET ->
  decode (S d) t l =
  match l with
  | et :: r =>
    match dec_count r with
    | Some (n, r2) =>
      match dec_elems (decode d) n et r2 with
      | Some (es, r3) => Some ((if t =? T_SET then VSet et es else VList et es), r3)
      | None => None
      end
    | None => None
    end
  | _ => None
  end.
Proof. intros [-> | ->]; reflexivity. Qed.

Section ReadRefine.
Variable bs : list Z.
Variable clamp : bool.
Variable lim : Z.

(* where the reader accepts, the decoder returns some value and the same remaining input *)
Definition dref {A} (o : out) (m : option (A * list Z)) : Prop :=
  match o with Ok s' => exists v, m = Some (v, suffix bs s') | _ => True end.

Lemma suffix_at s s' n : inv bs s -> cur s' = cur s + n -> 0 <= n ->
  suffix bs s' = skipn (Z.to_nat n) (suffix bs s).
Proof.
  intros [Hs _] Hc Hn. unfold suffix. rewrite Hc, skipn_skipn'. f_equal. lia.
Qed.

Lemma next_be_wpv (P : out -> Prop) n s k :
  inv bs s -> P (Er E_EOF s) ->
  (forall s', same bs s s' -> cur s + Z.of_nat n <= zlen bs ->
     P (k (be 0 (firstn n (suffix bs s))) (adv (Z.of_nat n) s'))) ->
  P (next_be bs n s k).
Proof.
  intros Hs He Hk. unfold next_be.
  destruct (Z.gtb_spec (cur s + Z.of_nat n) (zlen bs)); [assumption|].
  destruct (get_val bs n 0 s (fun v s' => k v (adv (Z.of_nat n) s')) Hs) as (s' & E & E1); [lia | lia |].
  rewrite E. change (Z.to_nat 0) with 0%nat. rewrite skipn_O. apply Hk; [assumption | lia].
Qed.

(* fixed-width scalars: the reader's next(n) is the decoder's take n *)
Lemma scalar_take n (g : st -> st) s :
  (forall s, cur (g s) = cur s) -> (forall s, inv bs s -> inv bs (g s)) -> inv bs s ->
  match next_be bs n s (fun _ s => Ok (g s)) with
  | Ok s' => ThriftWire.take n (suffix bs s) = Some (firstn n (suffix bs s), suffix bs s') /\ inv bs s'
  | _ => True
  end.
Proof.
  intros Hg Hg2 Hs. apply next_be_wpv; [assumption | exact I |]. intros s1 E1 Hb.
  pose proof (suffix_len bs s Hs) as Hl. rewrite take_some by lia.
  assert (Hc : cur (g (adv (Z.of_nat n) s1)) = cur s + Z.of_nat n) by (rewrite Hg; fin).
  split; [|apply Hg2; fin].
  rewrite (suffix_at s _ (Z.of_nat n) Hs Hc) by lia. rewrite Nat2Z.id. reflexivity.
Qed.

Lemma rstring_dref s : inv bs s ->
  dref (rstring bs s) (dec_scalar T_STRING (suffix bs s)) /\
  match rstring bs s with Ok s' => inv bs s' | _ => True end.
Proof.
  intros Hs. split; [|apply rstring_wp; [assumption | intros; exact I | intros; assumption]].
  unfold rstring. apply next_be_wpv; [assumption | exact I |]. intros s1 E1 Hb. cbv zeta.
  pose proof (suffix_len bs s Hs) as Hl.
  rewrite dec_scalar_string, take_some by lia.
  rewrite (dec_int4 (firstn 4 (suffix bs s))) by (apply firstn_length_le; lia). cbv zeta.
  set (sz := to_s 32 (be 0 (firstn 4 (suffix bs s)))). clearbody sz.
  destruct (Z.ltb_spec sz 0); cbn [orb]; [exact I|].
  destruct (Z.gtb_spec sz (zlen bs - cur (adv (Z.of_nat 4) s1))) as [Hgt|Hle]; [exact I|].
  assert (Hc1 : cur s1 = cur s) by (unfold same in E1; tauto).
  change (cur (adv (Z.of_nat 4) s1)) with (cur s1 + Z.of_nat 4) in Hle.
  cbn [dref]. rewrite take_some by (rewrite skipn_length; lia).
  eexists. do 2 f_equal.
  rewrite (suffix_at s (charge C_STR (adv sz (adv (Z.of_nat 4) s1))) (4 + sz) Hs) by (fin; lia).
  rewrite skipn_skipn'. f_equal. lia.
Qed.

Definition rref (k : rtask) (s : st) (o : out) : Prop :=
  match k with
  | RVal t d => dref o (decode (Z.to_nat d) t (suffix bs s))
  | RFields d => forall lf, (length (suffix bs s) < lf)%nat ->
                 dref o (dec_fields (decode (Z.to_nat (d - 1))) lf (suffix bs s))
  | RElems n et d => 0 <= n ->
                 dref o (dec_elems (decode (Z.to_nat (d - 1))) (Z.to_nat n) et (suffix bs s))
  | RPairs n kt vt d => 0 <= n ->
                 dref o (dec_pairs (decode (Z.to_nat (d - 1))) (Z.to_nat n) kt vt (suffix bs s))
  end.

(* one fixed-width scalar: reader branch [next_be n s (fun _ s => Ok (g s))] against [dec_scalar t] *)
Ltac scal n g s0 Hi0 lem :=
  let H := fresh "H" in
  pose proof (scalar_take n g s0 (fun _ => eq_refl) ltac:(intros; fin) Hi0) as H; cbv beta in H;
  rewrite decode_scalar by reflexivity; rewrite lem;
  match type of H with match ?o with _ => _ end => destruct o; try exact I end;
  destruct H as (H & _); rewrite H; eexists; reflexivity.

(* same, also delivering [inv] of the final state (used for map keys) *)
Ltac keyscal n s1 Hs1 lem :=
  let H := fresh "H" in
  pose proof (scalar_take n (fun s => s) s1 (fun _ => eq_refl) (fun _ Hx => Hx) Hs1) as H; cbv beta in H;
  rewrite decode_scalar by reflexivity; rewrite lem;
  match type of H with match ?o with _ => _ end => destruct o; try (split; exact I) end;
  destruct H as (H & ?); split; [rewrite H; eexists; reflexivity | assumption].

Ltac rcall2 IH f k s Hi s' Href Hpost :=
  pose proof (IH k s Hi) as Href; pose proof (rrun_post bs clamp lim f k s Hi) as Hpost;
  destruct (rrun bs clamp lim f k s) as [s'|? ?|?|?|]; cbn [seq_out]; try exact I;
  unfold rpost, radv in Hpost; cbn [rref dref] in Href.

Lemma rrun_ref : forall f k s, inv bs s -> rref k s (rrun bs clamp lim f k s).
Proof.
  induction f as [|f IH]; intros k s Hs.
  { destruct k; cbn [rrun rref]; intros; exact I. }
  destruct k as [t d|d|n et d|n kt vt d]; cbn [rrun rref]; cbv beta zeta.
  - (* RVal *)
    destruct (Z.leb_spec d 0) as [Hd|Hd]; [exact I|].
    replace (Z.to_nat d) with (S (Z.to_nat (d - 1))) by lia.
    set (s0 := enter (lim - d + 1) s).
    assert (Hc0 : cur s0 = cur s) by reflexivity.
    assert (Hi0 : inv bs s0) by (subst s0; fin).
    rewrite <- (suffix_cur bs s s0 Hc0). clearbody s0. clear Hc0 Hs s.
    pose proof (suffix_len bs s0 Hi0) as Hl.
    destruct (Z.eqb_spec t T_BOOL) as [->|N1]; cbn [orb].
    { pose proof (scalar_take 1 (fun s => s) s0 (fun _ => eq_refl) (fun _ Hx => Hx) Hi0) as H; cbv beta in H.
      rewrite decode_scalar by reflexivity. rewrite dec_scalar_bool.
      destruct (next_be bs 1 s0 (fun _ s => Ok s)); try exact I. destruct H as (H & _).
      destruct (suffix bs s0) as [|b r]; cbn [ThriftWire.take length Nat.leb firstn skipn] in H; [discriminate|].
      inversion H. eexists. reflexivity. }
    destruct (Z.eqb_spec t T_BYTE) as [->|N2]. { scal 1%nat (fun s : st => s) s0 Hi0 dec_scalar_byte. }
    destruct (Z.eqb_spec t T_I16) as [->|N3]. { scal 2%nat (charge C_BOX) s0 Hi0 dec_scalar_i16. }
    destruct (Z.eqb_spec t T_I32) as [->|N4]. { scal 4%nat (charge C_BOX) s0 Hi0 dec_scalar_i32. }
    destruct (Z.eqb_spec t T_I64) as [->|N5]; cbn [orb]. { scal 8%nat (charge C_BOX) s0 Hi0 dec_scalar_i64. }
    destruct (Z.eqb_spec t T_DOUBLE) as [->|N6]. { scal 8%nat (charge C_BOX) s0 Hi0 dec_scalar_double. }
    destruct (Z.eqb_spec t T_STRING) as [->|N7].
    { destruct (rstring_dref s0 Hi0) as (H & _). rewrite decode_scalar by reflexivity. exact H. }
    destruct ((t =? T_LIST) || (t =? T_SET)) eqn:Els.
    { assert (Hls : t = T_LIST \/ t = T_SET)
        by (apply orb_true_iff in Els; destruct Els as [E|E]; apply Z.eqb_eq in E; auto).
      rewrite (decode_listset _ t _ Hls).
      apply next_be_wpv; [assumption | exact I |]. intros s1 E1 Hb1.
      destruct (suffix bs s0) as [|et r] eqn:El; cbn [length] in Hl; [lia|].
      change (be 0 (firstn 1 (et :: r))) with et.
      destruct (type_valid et); cbn [negb]; [|exact I].
      assert (Hc1 : cur s1 = cur s0) by (unfold same in E1; tauto).
      assert (Hi1 : inv bs (adv (Z.of_nat 1) s1)) by fin.
      assert (Hr : suffix bs (adv (Z.of_nat 1) s1) = r)
        by (rewrite (suffix_at s0 (adv (Z.of_nat 1) s1) 1 Hi0) by (fin; lia); rewrite El; reflexivity).
      apply next_be_wpv; [assumption | exact I |]. intros s2 E2 Hb2. rewrite Hr.
      change (cur (adv (Z.of_nat 1) s1)) with (cur s1 + Z.of_nat 1) in Hb2.
      unfold dec_count. rewrite take_some by lia.
      rewrite (dec_int4 (firstn 4 r)) by (apply firstn_length_le; lia). cbv zeta.
      set (sz := to_s 32 (be 0 (firstn 4 r))). clearbody sz.
      destruct (Z.ltb_spec sz 0) as [Hsz|Hsz]; [exact I|].
      set (s3 := charge (C_SLICE + hint bs clamp C_SLOT sz (adv (Z.of_nat 4) s2)) (adv (Z.of_nat 4) s2)).
      assert (Hc3 : cur s3 = cur s0 + 5) by (subst s3; fin).
      assert (Hi3 : inv bs s3) by (subst s3; fin).
      assert (Hr3 : suffix bs s3 = skipn 4 r)
        by (rewrite (suffix_at s0 s3 5 Hi0 Hc3) by lia; rewrite El; reflexivity).
      pose proof (suffix_len bs s3 Hi3) as Hl3. rewrite Hr3 in Hl3.
      clearbody s3.
      rcall2 IH f (RElems sz et d) s3 Hi3 s' Href Hpost.
      specialize (Href Hsz). destruct Href as (es & He). rewrite Hr3 in He.
      destruct Hpost as ((Hb' & _) & Hadv & _).
      destruct (Z.gtb_spec sz (zlen (skipn 4 r))) as [Hgt|Hle]; [unfold zlen at 1 in Hgt; lia|].
      rewrite He. eexists. reflexivity. }
    destruct (Z.eqb_spec t T_MAP) as [->|N10].
    { rewrite decode_map.
      apply next_be_wpv; [assumption | exact I |]. intros s1 E1 Hb1.
      destruct (suffix bs s0) as [|kt r0] eqn:El; cbn [length] in Hl; [lia|].
      change (be 0 (firstn 1 (kt :: r0))) with kt.
      destruct (type_valid kt); cbn [negb]; [|exact I].
      assert (Hc1 : cur s1 = cur s0) by (unfold same in E1; tauto).
      assert (Hi1 : inv bs (adv (Z.of_nat 1) s1)) by fin.
      assert (Hr0 : suffix bs (adv (Z.of_nat 1) s1) = r0)
        by (rewrite (suffix_at s0 (adv (Z.of_nat 1) s1) 1 Hi0) by (fin; lia); rewrite El; reflexivity).
      apply next_be_wpv; [assumption | exact I |]. intros s2 E2 Hb2. rewrite Hr0.
      change (cur (adv (Z.of_nat 1) s1)) with (cur s1 + Z.of_nat 1) in Hb2.
      destruct r0 as [|vt r]; cbn [length] in Hl; [lia|].
      change (be 0 (firstn 1 (vt :: r))) with vt.
      destruct (type_valid vt); cbn [negb]; [|exact I].
      assert (Hc2 : cur s2 = cur s0 + 1) by (unfold same in E2; fin).
      assert (Hi2 : inv bs (adv (Z.of_nat 1) s2)) by fin.
      assert (Hr : suffix bs (adv (Z.of_nat 1) s2) = r)
        by (rewrite (suffix_at s0 (adv (Z.of_nat 1) s2) 2 Hi0) by (fin; lia); rewrite El; reflexivity).
      apply next_be_wpv; [assumption | exact I |]. intros s3 E3 Hb3. rewrite Hr.
      change (cur (adv (Z.of_nat 1) s2)) with (cur s2 + Z.of_nat 1) in Hb3.
      unfold dec_count. rewrite take_some by lia.
      rewrite (dec_int4 (firstn 4 r)) by (apply firstn_length_le; lia). cbv zeta.
      set (sz := to_s 32 (be 0 (firstn 4 r))). clearbody sz.
      destruct (Z.ltb_spec sz 0) as [Hsz|Hsz]; [exact I|].
      set (s4 := charge (C_MAPHDR + hint bs clamp C_MAPENT sz (adv (Z.of_nat 4) s3)) (adv (Z.of_nat 4) s3)).
      assert (Hc4 : cur s4 = cur s0 + 6) by (subst s4; fin).
      assert (Hi4 : inv bs s4) by (subst s4; fin).
      assert (Hr4 : suffix bs s4 = skipn 4 r)
        by (rewrite (suffix_at s0 s4 6 Hi0 Hc4) by lia; rewrite El; reflexivity).
      pose proof (suffix_len bs s4 Hi4) as Hl4. rewrite Hr4 in Hl4.
      clearbody s4.
      rcall2 IH f (RPairs sz kt vt d) s4 Hi4 s' Href Hpost.
      specialize (Href Hsz). destruct Href as (es & He). rewrite Hr4 in He.
      destruct Hpost as ((Hb' & _) & Hadv & _).
      destruct (Z.gtb_spec sz (zlen (skipn 4 r))) as [Hgt|Hle]; [unfold zlen at 1 in Hgt; lia|].
      rewrite He. eexists. reflexivity. }
    destruct (Z.eqb_spec t T_STRUCT) as [->|N11]; [|exact I].
    rewrite decode_struct.
    assert (Hi1 : inv bs (charge C_MAPHDR s0)) by fin.
    rcall2 IH f (RFields d) (charge C_MAPHDR s0) Hi1 s' Href Hpost.
    change (suffix bs (charge C_MAPHDR s0)) with (suffix bs s0) in Href.
    destruct (Href (S (length (suffix bs s0))) ltac:(lia)) as (fs & Hf). rewrite Hf. eexists. reflexivity.
  - (* RFields *)
    intros lf Hlf. pose proof (suffix_len bs s Hs) as Hl.
    apply next_be_wpv; [assumption | exact I |]. intros s1 E1 Hb1.
    destruct (suffix bs s) as [|tp r] eqn:El; cbn [length] in Hl, Hlf; [lia|].
    destruct lf as [|lf]; [lia|]. cbn [dec_fields].
    change (be 0 (firstn 1 (tp :: r))) with tp.
    destruct (type_valid tp); cbn [negb]; [|exact I].
    assert (Hc1 : cur s1 = cur s) by (unfold same in E1; tauto).
    assert (Hi1 : inv bs (adv (Z.of_nat 1) s1)) by fin.
    assert (Hr : suffix bs (adv (Z.of_nat 1) s1) = r)
      by (rewrite (suffix_at s (adv (Z.of_nat 1) s1) 1 Hs) by (fin; lia); rewrite El; reflexivity).
    destruct (tp =? 0). { cbn [dref]. eexists. rewrite Hr. reflexivity. }
    apply next_be_wpv; [assumption | exact I |]. intros s2 E2 Hb2.
    change (cur (adv (Z.of_nat 1) s1)) with (cur s1 + Z.of_nat 1) in Hb2.
    rewrite take_some by lia.
    set (s3 := adv (Z.of_nat 2) s2).
    assert (Hc3 : cur s3 = cur s + 3) by (subst s3; unfold same in E2; fin).
    assert (Hi3 : inv bs s3) by (subst s3; fin).
    assert (Hr3 : suffix bs s3 = skipn 2 r)
      by (rewrite (suffix_at s s3 3 Hs Hc3) by lia; rewrite El; reflexivity).
    clearbody s3.
    rcall2 IH f (RVal tp (d - 1)) s3 Hi3 s4 Href Hpost.
    destruct Href as (x & Hx). rewrite Hr3 in Hx. rewrite Hx.
    destruct Hpost as (Hi4 & Hadv & _).
    assert (Hi4' : inv bs (charge (2 * C_MAPENT) s4)) by fin.
    rcall2 IH f (RFields d) (charge (2 * C_MAPENT) s4) Hi4' s5 Href2 Hpost2.
    change (suffix bs (charge (2 * C_MAPENT) s4)) with (suffix bs s4) in Href2.
    pose proof (suffix_len bs s4 Hi4) as Hl4.
    destruct (Href2 lf ltac:(lia)) as (fs & Hfs). rewrite Hfs. eexists. reflexivity.
  - (* RElems *)
    intros Hn. destruct (Z.leb_spec n 0) as [Hn0|Hn0].
    { replace (Z.to_nat n) with 0%nat by lia. cbn [dec_elems dref]. eexists. reflexivity. }
    replace (Z.to_nat n) with (S (Z.to_nat (n - 1))) by lia. cbn [dec_elems].
    rcall2 IH f (RVal et (d - 1)) s Hs s1 Href Hpost.
    destruct Href as (x & Hx). rewrite Hx. destruct Hpost as (Hi1 & _).
    rcall2 IH f (RElems (n - 1) et d) s1 Hi1 s2 Href2 Hpost2.
    destruct (Href2 ltac:(lia)) as (xs & Hxs). rewrite Hxs. eexists. reflexivity.
  - (* RPairs *)
    intros Hn. destruct (Z.leb_spec n 0) as [Hn0|Hn0].
    { replace (Z.to_nat n) with 0%nat by lia. cbn [dec_pairs dref]. eexists. reflexivity. }
    replace (Z.to_nat n) with (S (Z.to_nat (n - 1))) by lia. cbn [dec_pairs].
    assert (Hkey : forall s1, inv bs s1 ->
      let o := (if kt =? T_STRING then rstring bs s1
                else if kt =? T_BYTE then next_be bs 1 s1 (fun _ s => Ok s)
                else if kt =? T_I16 then next_be bs 2 s1 (fun _ s => Ok s)
                else if kt =? T_I32 then next_be bs 4 s1 (fun _ s => Ok s)
                else if kt =? T_I64 then next_be bs 8 s1 (fun _ s => Ok s)
                else rrun bs clamp lim f (RVal kt (d - 1)) s1) in
      dref o (decode (Z.to_nat (d - 1)) kt (suffix bs s1)) /\
      match o with Ok s' => inv bs s' | _ => True end).
    { intros s1 Hs1. cbv zeta.
      destruct (Z.eqb_spec kt T_STRING) as [->|K1].
      { rewrite decode_scalar by reflexivity. apply rstring_dref. assumption. }
      destruct (Z.eqb_spec kt T_BYTE) as [->|K2]. { keyscal 1%nat s1 Hs1 dec_scalar_byte. }
      destruct (Z.eqb_spec kt T_I16) as [->|K3]. { keyscal 2%nat s1 Hs1 dec_scalar_i16. }
      destruct (Z.eqb_spec kt T_I32) as [->|K4]. { keyscal 4%nat s1 Hs1 dec_scalar_i32. }
      destruct (Z.eqb_spec kt T_I64) as [->|K5]. { keyscal 8%nat s1 Hs1 dec_scalar_i64. }
      split; [apply (IH (RVal kt (d - 1)) s1 Hs1)|].
      pose proof (rrun_post bs clamp lim f (RVal kt (d - 1)) s1 Hs1) as Hp.
      destruct (rrun bs clamp lim f (RVal kt (d - 1)) s1); unfold rpost in Hp; tauto. }
    destruct (Hkey s Hs) as (Href1 & Hp1). cbv zeta in Href1, Hp1.
    match type of Href1 with dref ?o _ => destruct o as [s1|? ?|?|?|] end; cbn [seq_out]; try exact I.
    destruct Href1 as (k & Hk). rewrite Hk.
    rcall2 IH f (RVal vt (d - 1)) s1 Hp1 s2 Href2 Hpost2.
    destruct Href2 as (x & Hx). rewrite Hx. destruct Hpost2 as (Hi2 & _).
    rcall2 IH f (RPairs (n - 1) kt vt d) s2 Hi2 s3 Href3 Hpost3.
    destruct (Href3 ltac:(lia)) as (es & Hes). rewrite Hes. eexists. reflexivity.
Qed.

(* general form for values *)
Theorem rrun_ref_val fuel t d s s' :
  inv bs s -> rrun bs clamp lim fuel (RVal t d) s = Ok s' ->
  exists v, decode (Z.to_nat d) t (suffix bs s) = Some (v, suffix bs s').
Proof.
  intros Hs E. pose proof (rrun_ref fuel (RVal t d) s Hs) as H. rewrite E in H. exact H.
Qed.

End ReadRefine.

Theorem reader_refines_decode bs t s :
  read_any_coded t bs = Ok s -> exists v, decode (S (length bs)) t bs = Some (v, skipn (Z.to_nat (cur s)) bs).
Proof.
  intros E. unfold read_any_coded in E.
  apply (rrun_ref_val bs false (zlen bs + 1) _ _ _ _ _ (inv_st0 bs)) in E.
  replace (Z.to_nat (zlen bs + 1)) with (S (length bs)) in E by (unfold zlen; lia). exact E.
Qed.

Theorem reader_clamped_refines_decode bs t s :
  read_any_clamped t bs = Ok s -> exists v, decode max_skip_depth t bs = Some (v, skipn (Z.to_nat (cur s)) bs).
Proof.
  intros E. unfold read_any_clamped in E.
  apply (rrun_ref_val bs true skip_limit _ _ _ _ _ (inv_st0 bs)) in E.
  rewrite depth_eq in E. exact E.
Qed.

(* ------------------------------------------------------------------ (C) protobuf wire *)
From DG Require Import ProtoMsg.

Section ProtoRefine.
Variable bs : list Z.

Lemma ptake_some n (l : list Z) : 0 <= n <= plen l ->
  ProtoMsg.take n l = Some (firstn (Z.to_nat n) l, skipn (Z.to_nat n) l).
Proof.
  intros H. unfold ProtoMsg.take.
  destruct (Z.leb_spec 0 n); [|lia]. destruct (Z.leb_spec n (plen l)); [reflexivity | lia].
Qed.

Lemma ptake_none n (l : list Z) : n < 0 \/ plen l < n -> ProtoMsg.take n l = None.
Proof.
  intros H. unfold ProtoMsg.take.
  destruct (Z.leb_spec 0 n); [|reflexivity]. destruct (Z.leb_spec n (plen l)); [lia | reflexivity].
Qed.

Lemma suffix_plen s : inv bs s -> plen (suffix bs s) = zlen bs - cur s.
Proof. intros Hs. unfold plen. apply suffix_len. assumption. Qed.

(* fixed-width wire types: a bounds test against the remaining input on both sides *)
Lemma pskip_fixed_ref n s :
  inv bs s -> 0 <= n ->
  match skipn_m bs n s with
  | Ok s' => ProtoMsg.take n (suffix bs s) = Some (firstn (Z.to_nat n) (suffix bs s), suffix bs s') /\ s' = adv n s
  | Er _ _ => ProtoMsg.take n (suffix bs s) = None
  | _ => False
  end.
Proof.
  intros Hs Hn. pose proof (suffix_plen s Hs) as Hl. unfold skipn_m.
  destruct (Z.gtb_spec (cur s + n) (zlen bs)).
  - apply ptake_none. lia.
  - rewrite ptake_some by lia. rewrite (suffix_adv bs s s n) by (assumption || reflexivity). auto.
Qed.

Theorem pskip_ref wt s :
  inv bs s -> (wt = 0 \/ wt = 1 \/ wt = 2 \/ wt = 5) ->
  match pskip bs false wt s with
  | Ok s' => exists v, wdec_val wt (suffix bs s) = Some (v, suffix bs s')
  | Er _ _ => wdec_val wt (suffix bs s) = None
  | _ => False
  end.
Proof.
  intros Hs Hwt. pose proof (suffix_plen s Hs) as Hl.
  pose proof (cvarint_post bs s Hs) as Hv. change (skipn (Z.to_nat (cur s)) bs) with (suffix bs s) in Hv.
  destruct Hwt as [->|[->|[->| ->]]]; unfold pskip, wdec_val, rvarint; cbn [Z.eqb Pos.eqb].
  - (* varint *)
    destruct (cvarint bs s) as [v n s1|c s1|j]; unfold vpost, same in Hv; [| |contradiction].
    + destruct Hv as ((Hc1 & _ & _ & Hi1) & Hn & Hb & Hr). rewrite Hr.
      destruct (Z.gtb_spec (cur s1 + n) (zlen bs)); [lia|].
      destruct (Z.ltb_spec n 0); [lia|].
      eexists. rewrite (suffix_adv bs s s1 n) by (assumption || lia). reflexivity.
    + destruct Hv as (_ & Hc & Hr). destruct (varint_dec (suffix bs s)) as [v n]. cbn [snd] in Hr. subst n.
      destruct (Z.ltb_spec c 0); [reflexivity | lia].
  - (* fixed64 *)
    pose proof (pskip_fixed_ref 8 s Hs ltac:(lia)) as H.
    destruct (skipn_m bs 8 s); try assumption.
    + destruct H as (H & _). rewrite H. eexists. reflexivity.
    + rewrite H. reflexivity.
  - (* bytes *)
    destruct (cvarint bs s) as [v n s1|c s1|j]; unfold vpost, same in Hv; [| |contradiction].
    + destruct Hv as ((Hc1 & _ & _ & Hi1) & Hn & Hb & Hr). rewrite Hr.
      destruct (Z.ltb_spec n 0); [lia|].
      assert (Hl2 : plen (skipn (Z.to_nat n) (suffix bs s)) = zlen bs - cur s - n)
        by (unfold plen in *; rewrite skipn_length; lia).
      destruct (Z.ltb_spec v 0); cbn [orb].
      { rewrite ptake_none by lia. reflexivity. }
      destruct (Z.gtb_spec v (zlen bs - cur s1 - n)).
      { rewrite ptake_none by lia. reflexivity. }
      rewrite ptake_some by lia. eexists.
      rewrite (suffix_adv bs s s1 (n + v)) by (assumption || lia).
      rewrite skipn_skipn'. do 3 f_equal. lia.
    + destruct Hv as (_ & Hc & Hr). destruct (varint_dec (suffix bs s)) as [v n]. cbn [snd] in Hr. subst n.
      destruct (Z.ltb_spec c 0); [reflexivity | lia].
  - (* fixed32 *)
    pose proof (pskip_fixed_ref 4 s Hs ltac:(lia)) as H.
    destruct (skipn_m bs 4 s); try assumption.
    + destruct H as (H & _). rewrite H. eexists. reflexivity.
    + rewrite H. reflexivity.
Qed.

(* remark: group / reserved wire types are accepted by the code (nothing consumed) and rejected by wdec_val *)
Lemma pskip_other_wt wt s coded :
  wt <> 0 -> wt <> 1 -> wt <> 2 -> wt <> 5 ->
  pskip bs coded wt s = Ok s /\ forall l, wdec_val wt l = None.
Proof.
  intros H0 H1 H2 H5. unfold pskip, wdec_val.
  destruct (Z.eqb_spec wt 0); [contradiction|]. destruct (Z.eqb_spec wt 5); [contradiction|].
  destruct (Z.eqb_spec wt 1); [contradiction|]. destruct (Z.eqb_spec wt 2); [contradiction|]. auto.
Qed.

Lemma wdec_val_wt wt l x : wdec_val wt l = Some x -> wt = 0 \/ wt = 1 \/ wt = 2 \/ wt = 5.
Proof.
  unfold wdec_val. intros H.
  destruct (Z.eqb_spec wt 0); [auto|]. destruct (Z.eqb_spec wt 1); [auto|].
  destruct (Z.eqb_spec wt 5); [auto|]. destruct (Z.eqb_spec wt 2); [auto|]. discriminate.
Qed.

(* every buffer the wire decoder accepts is walked to its end by the unknown-field loop *)
Lemma pfields_ref : forall f lf s w,
  inv bs s -> wdec_loop lf (suffix bs s) = Some w ->
  match pfields bs false f s with
  | Ok s' => cur s' = zlen bs
  | OutOfFuel => True
  | _ => False
  end.
Proof.
  induction f as [|f IH]; intros lf s w Hs Hw; cbn [pfields]; [exact I|].
  pose proof (suffix_len bs s Hs) as Hl.
  destruct (Z.geb_spec (cur s) (zlen bs)) as [Hge|Hlt]; [destruct Hs as [Hs _]; lia|].
  destruct (suffix bs s) as [|x r] eqn:El; [cbn [length] in Hl; lia|].
  destruct lf as [|lf]; cbn [wdec_loop] in Hw; [discriminate|].
  rewrite <- El in Hw.
  destruct (wdec_field (suffix bs s)) as [[fl r']|] eqn:Ef; [|discriminate].
  destruct (wdec_loop lf r') as [w'|] eqn:Ew; [|discriminate].
  unfold wdec_field in Ef. unfold ptag, rvarint.
  pose proof (cvarint_post bs s Hs) as Hv. change (skipn (Z.to_nat (cur s)) bs) with (suffix bs s) in Hv.
  destruct (cvarint bs s) as [v n s1|c s1|j]; unfold vpost, same in Hv; [| |contradiction].
  - destruct Hv as ((Hc1 & _ & _ & Hi1) & Hn & Hb & Hr). rewrite Hr in Ef.
    destruct (Z.ltb_spec n 0); [lia|].
    destruct (Z.gtb_spec (cur s1 + n) (zlen bs)); [lia|].
    unfold MAX_FIELD_NUMBER in Ef.
    destruct (Z.ltb_spec (v / 8) 1); cbn [orb] in Ef; [discriminate|].
    destruct (Z.gtb_spec (v / 8) 536870911); [discriminate|].
    destruct (Z.gtb_spec (v / 8) 2147483647); [lia|].
    destruct (Z.ltb_spec (v / 8) 1); [lia|].
    assert (Hi2 : inv bs (adv n s1)) by fin.
    rewrite <- (suffix_adv bs s s1 n) in Ef by (assumption || lia).
    destruct (wdec_val (v mod 8) (suffix bs (adv n s1))) as [[wv r'']|] eqn:Eval; [|discriminate].
    inversion Ef; subst fl r''. clear Ef.
    pose proof (pskip_ref (v mod 8) (adv n s1) Hi2 (wdec_val_wt _ _ _ Eval)) as Hp.
    pose proof (pskip_post bs false (v mod 8) (adv n s1) Hi2) as Hpp.
    destruct (pskip bs false (v mod 8) (adv n s1)) as [s2|? ?|?|?|]; cbn [seq_out]; try contradiction.
    + destruct Hp as (wv' & Hp). rewrite Eval in Hp. inversion Hp; subst.
      unfold ppost in Hpp. apply (IH lf s2 w'); tauto.
    + rewrite Eval in Hp. discriminate.
  - destruct Hv as (_ & Hc & Hr). destruct (varint_dec (suffix bs s)) as [v n]. cbn [snd] in Hr. subst n.
    destruct (Z.ltb_spec c 0); [discriminate | lia].
Qed.

Theorem wdec_accepts_implies_pfields w :
  wdec bs = Some w -> exists s, pfields_m false bs = Ok s /\ cur s = zlen bs.
Proof.
  intros Hw. unfold wdec in Hw.
  pose proof (pfields_ref (fuel_for bs) (length bs) st0 w (inv_st0 bs) Hw) as H.
  pose proof (pfields_progress bs false) as Hp. unfold pfields_m in *.
  destruct (pfields bs false (fuel_for bs) st0) as [s| | | |]; try contradiction.
  exists s. auto.
Qed.

End ProtoRefine.
