(* C03 at algorithm level, the ROOT (do):
   (A) ConvertException.  [root_walkw_x] is T2JUnset.root_walkw with ONE correction: its exception branch keeps the members
       that handleUnsets appends to the error text (root_walkw drops them: its header says the harness does not combine
       ConvertException with the write options).  [root_walkw_x_forget]: forgetting those members gives root_walkw exactly.
       [walk_rootx_refines]: the byte walk t2j_walk_rootx prints root_walkw_x — the xwalk of T2JBytesProofs.v IS its TExc
       branch (and its member branch), bitmap scan = unset_members, finiteness of the earlier members = the check before TExc.
   (B) check 304's soundness / completeness for the root walk with response-base extraction. *)
From Coq Require Import ZArith List Bool Lia.
From DG Require Import ProtoWireRef ThriftWire ThriftWireProofs Json Num Base64 T2J T2JUnset JsonProofs NumProofs Base64Proofs T2JProofs T2JUnsetProofs
                       T2JBytes T2JBytesProofs T2JBytesCmp T2JBytesTok.
Import ListNotations.
Local Open Scope Z_scope.

(* ------------------------------------------------------------------ (A) the corrected root spec *)
Fixpoint root_walkw_x (o : Z) (fs : list (fmeta * tdesc)) (vs : list (Z * tval))
                      (acc : list (list Z * jexp)) (seen : list Z) : xres :=
  match vs with
  | [] => match unset_members o fs seen with inr _ => XErr | inl us => XObj (rev acc ++ us) end
  | (id, x) :: r =>
    match find_field fs id with
    | None => if o_disallow_unknown o then XErr else root_walkw_x o fs r acc seen
    | Some f =>
      if o_thrift_base o && o_base_in_ctx o && f_respbase (fst f) then root_walkw_x o fs r acc (id :: seen)
      else if o_convert_exception o && negb (id =? 0) then
        match field_valuew o f x with
        | TOk e => if negb (forallb (fun m => jexp_finite (snd m)) acc) then XErr
                   else match unset_members o fs (id :: seen) with inr _ => XErr | inl us => XExc e us end
        | _ => XErr
        end
      else
        match field_valuew o f x with
        | TOk e => root_walkw_x o fs r ((f_key (fst f), e) :: acc) (id :: seen)
        | _ => XErr
        end
    end
  end.

(* root_walkw is root_walkw_x with the appended members forgotten (and an error class attached) *)
Definition forgets (t : tres) (x : xres) : Prop :=
  match x with
  | XObj ms => t = TOk (EObj ms)
  | XExc e _ => t = TExc e
  | XErr => exists c, t = TErr c
  end.

Lemma root_walkw_x_forget o fs : forall vs acc seen bs, forgets (fst (root_walkw o fs vs acc seen bs)) (root_walkw_x o fs vs acc seen).
Proof.
  induction vs as [|[id x] vs IH]; intros acc seen bs; cbn [root_walkw root_walkw_x].
  - destruct (unset_members o fs seen); cbn [fst forgets]; [reflexivity|eexists; reflexivity].
  - destruct (find_field fs id) as [f|].
    + destruct (o_thrift_base o && o_base_in_ctx o && f_respbase (fst f)); [apply IH|].
      destruct (o_convert_exception o && negb (id =? 0)).
      * destruct (field_valuew o f x); cbn [fst forgets]; try (eexists; reflexivity).
        destruct (negb (forallb (fun m => jexp_finite (snd m)) acc)); cbn [fst forgets]; [eexists; reflexivity|].
        destruct (unset_members o fs (id :: seen)); cbn [fst forgets]; [reflexivity|eexists; reflexivity].
      * destruct (field_valuew o f x); cbn [fst forgets]; try (eexists; reflexivity). apply IH.
    + destruct (o_disallow_unknown o); [cbn [fst forgets]; eexists; reflexivity | apply IH].
Qed.

(* the text the corrected spec prescribes *)
Definition spec_x (fd : Z -> list Z) (x : xres) : option wres :=
  match x with
  | XObj ms => if mem_finite ms then Some (WText (jexp_print fd (EObj ms))) else None
  | XExc e us => if jexp_finite e then Some (WExc (jexp_print fd e ++ obj_mems fd true us)) else None
  | XErr => None
  end.

(* the same for the loop result seen after the members acc (reversed) *)
Definition lift_x (fd : Z -> list Z) (acc : list (list Z * jexp)) (x : xres) : option wres :=
  match x with
  | XObj ms => if mem_finite (rev acc ++ ms) then Some (WText (jexp_print fd (EObj (rev acc ++ ms)))) else None
  | XExc e us => if mem_finite acc && jexp_finite e then Some (WExc (jexp_print fd e ++ obj_mems fd true us)) else None
  | XErr => None
  end.

(* the bitmap says which declared fields were met *)
Definition bm_inv (fs : list (fmeta * tdesc)) (bm : list Z) (seen : list Z) : Prop :=
  forall f, In f fs -> (f_req (fst f) =? 2) = false -> bm_isset bm (f_id (fst f)) = negb (is_present seen f).

Lemma bm_inv_init fs : bm_inv fs (bm_init fs) [].
Proof. intros f Hin Hr. rewrite (bm_isset_init_any fs f Hin Hr). reflexivity. Qed.

Lemma bm_inv_clear fs bm seen id : bm_inv fs bm seen -> bm_inv fs (bm_clear id bm) (id :: seen).
Proof.
  intros H f Hin Hr. rewrite bm_isset_clear, (H f Hin Hr). unfold is_present. cbn [existsb].
  rewrite (Z.eqb_sym (f_id (fst f)) id). destruct (id =? f_id (fst f)), (existsb (fun id0 => id0 =? f_id (fst f)) seen); reflexivity.
Qed.

Lemma unset_walk_bm_inv o fs bm seen : bm_inv fs bm seen -> forall l, (forall f, In f l -> In f fs) ->
  unset_walk_bm o l bm = unset_walk o l seen.
Proof.
  intros Hinv. induction l as [|f l IH]; intros Hl; [reflexivity|].
  assert (Hin : In f fs) by (apply Hl; left; reflexivity).
  assert (IH' := IH (fun g Hg => Hl g (or_intror Hg))).
  cbn [unset_walk_bm unset_walk]. rewrite IH'.
  destruct (Z.eqb_spec (f_req (fst f)) 1) as [E1|N1].
  - rewrite (Hinv f Hin) by (rewrite E1; reflexivity). rewrite negb_involutive. reflexivity.
  - destruct (Z.eqb_spec (f_req (fst f)) 0) as [E0|N0].
    + rewrite (Hinv f Hin) by (rewrite E0; reflexivity). rewrite negb_involutive. reflexivity.
    + cbn [andb]. destruct (negb (bm_isset bm (f_id (fst f)))), (is_present seen f); reflexivity.
Qed.

Lemma mem_finite_app a b : mem_finite (a ++ b) = mem_finite a && mem_finite b.
Proof. apply forallb_app. Qed.

Lemma mem_finite_rev a : mem_finite (rev a) = mem_finite a.
Proof.
  induction a as [|m a IH]; [reflexivity|]. cbn [rev]. rewrite mem_finite_app, IH. unfold mem_finite. cbn [forallb].
  rewrite andb_true_r. apply andb_comm.
Qed.

Section Ident.
  Variable fd : Z -> list Z.
  Variable o : Z.
  Hypothesis Hce : o_convert_exception o = true.
  Variable fs : list (fmeta * tdesc).

  (* THE IDENTIFICATION: the decoded-field loop of the walk (bitmap, compositional, finiteness member by member) is the
     corrected root spec (seen-list, accumulators, finiteness of the accumulated members at the exception field) *)
  Lemma xwalk_is_root_walkw_x : forall vs acc seen bm, bm_inv fs bm seen ->
    lift_x fd acc (xwalk o (root_bx o) fs vs bm) = spec_x fd (root_walkw_x o fs vs acc seen).
  Proof.
    induction vs as [|[id x] vs IH]; intros acc seen bm Hinv.
    - cbn [xwalk root_walkw_x]. unfold unset_members.
      rewrite (unset_walk_bm_inv o fs bm seen Hinv (sort_flds fs) (In_sort_flds fs)).
      destruct (unset_walk o (sort_flds fs) seen); reflexivity.
    - cbn [xwalk root_walkw_x fst snd].
      destruct (find_field fs id) as [f|] eqn:Ef.
      + change (o_thrift_base o && o_base_in_ctx o && f_respbase (fst f)) with (root_bx o (fst f)).
        destruct (root_bx o (fst f)); [exact (IH acc (id :: seen) _ (bm_inv_clear fs bm seen id Hinv))|].
        rewrite Hce. cbn [andb]. change (field_valuew o f x) with (fvalw o f x).
        destruct (fvalw o f x) as [e|e|c]; [|destruct (negb (id =? 0)); reflexivity|destruct (negb (id =? 0)); reflexivity].
        destruct (negb (id =? 0)).
        * unfold unset_members.
          rewrite (unset_walk_bm_inv o fs _ _ (bm_inv_clear fs bm seen id Hinv) (sort_flds fs) (In_sort_flds fs)).
          fold (mem_finite acc).
          destruct (jexp_finite e) eqn:Efin, (mem_finite acc) eqn:Eacc; cbn [negb lift_x spec_x andb];
            destruct (unset_walk o (sort_flds fs) (id :: seen)); cbn [lift_x spec_x]; rewrite ?Efin, ?Eacc; reflexivity.
        * rewrite <- (IH ((f_key (fst f), e) :: acc) (id :: seen) _ (bm_inv_clear fs bm seen id Hinv)).
          destruct (jexp_finite e) eqn:Efin.
          -- destruct (xwalk o (root_bx o) fs vs (bm_clear id bm)) as [ms|e' us|]; cbn [lift_x rev]; try reflexivity.
             ++ rewrite <- app_assoc. reflexivity.
             ++ unfold mem_finite at 2. cbn [forallb snd]. rewrite Efin. reflexivity.
          -- destruct (xwalk o (root_bx o) fs vs (bm_clear id bm)) as [ms|e' us|]; cbn [lift_x rev]; try reflexivity.
             ++ rewrite !mem_finite_app, mem_finite_rev. unfold mem_finite at 2. cbn [forallb snd]. rewrite Efin.
                cbn [andb]. rewrite andb_false_r. reflexivity.
             ++ unfold mem_finite. cbn [forallb snd]. rewrite Efin. reflexivity.
      + destruct (o_disallow_unknown o); [reflexivity|]. exact (IH acc seen bm Hinv).
  Qed.
End Ident.

(* what the members branch of xwalk holds is finite: the partial theorem's text is spec_x's *)
Lemma unset_walk_bm_finite o : forall l bm us, unset_walk_bm o l bm = inl us -> mem_finite us = true.
Proof.
  induction l as [|f l IH]; intros bm us H; cbn [unset_walk_bm] in H.
  - inversion H. reflexivity.
  - assert (Emit : match unset_walk_bm o l bm with inl us0 => inl ((f_key (fst f), zero_of (snd f)) :: us0) | inr c => inr c end = inl us ->
                   mem_finite us = true).
    { intros H'. destruct (unset_walk_bm o l bm) as [us0|] eqn:E; [|discriminate]. inversion H'; subst.
      unfold mem_finite. cbn [forallb snd]. rewrite zero_finite. exact (IH bm us0 E). }
    destruct (negb (bm_isset bm (f_id (fst f)))); [exact (IH bm us H)|].
    destruct (f_req (fst f) =? 1).
    + destruct (o_write_required o); [exact (Emit H) | discriminate].
    + destruct ((f_req (fst f) =? 0) && o_write_default o); [exact (Emit H) | exact (IH bm us H)].
Qed.

Lemma xwalk_finite o bx fs : forall vs bm,
  match xwalk o bx fs vs bm with
  | XObj ms => mem_finite ms = true
  | XExc e _ => jexp_finite e = true
  | XErr => True
  end.
Proof.
  induction vs as [|[id x] vs IH]; intros bm; cbn [xwalk fst snd].
  - destruct (unset_walk_bm o (sort_flds fs) bm) as [us|] eqn:E; [exact (unset_walk_bm_finite o _ _ us E) | exact I].
  - destruct (find_field fs id) as [f|]; [|destruct (o_disallow_unknown o); [exact I | apply IH]].
    destruct (bx (fst f)); [apply IH|].
    destruct (fvalw o f x) as [e|e|c]; try exact I.
    destruct (jexp_finite e) eqn:Efin; [|exact I].
    destruct (negb (id =? 0)).
    + destruct (unset_walk_bm o (sort_flds fs) (bm_clear id bm)); [exact Efin | exact I].
    + specialize (IH (bm_clear id bm)). destruct (xwalk o bx fs vs (bm_clear id bm)); try exact IH.
      unfold mem_finite in *. cbn [forallb snd]. rewrite Efin, IH. reflexivity.
Qed.

(* do under ConvertException refines the corrected root spec: a document, or the exception's JSON followed by what
   handleUnsets appends as the text of the error, or an error — for every lexeme function *)
Theorem walk_rootx_refines fd o fs vs n r : o_convert_exception o = true ->
  wf (VStruct vs) = true -> conforms (VStruct vs) (DStruct fs) = true -> desc_wf (DStruct fs) = true -> base_is_struct (DStruct fs) ->
  (depth (VStruct vs) <= S n)%nat -> (depth (VStruct vs) <= max_skip_depth)%nat ->
  t2j_walk_rootx fd o (S n) (DStruct fs) (encode (VStruct vs) ++ r) = spec_x fd (root_walkw_x o fs vs [] []).
Proof.
  intros Hce Hw Hc Hdw Hbs Hd Hs.
  rewrite (walk_rootx_refines_partial fd o fs vs n r Hce Hw Hc Hdw Hbs Hd Hs).
  rewrite <- (xwalk_is_root_walkw_x fd o Hce fs vs [] [] (bm_init fs) (bm_inv_init fs)).
  pose proof (xwalk_finite o (root_bx o) fs vs (bm_init fs)) as Hf.
  destruct (xwalk o (root_bx o) fs vs (bm_init fs)) as [ms|e us|]; cbn [lift_x rev app]; [rewrite Hf|rewrite Hf|]; reflexivity.
Qed.

(* with the write options off nothing is appended: the exception text is the JSON of root_walkw's TExc tree *)
Theorem walk_rootx_refines_off fd o fs vs n r : o_convert_exception o = true ->
  o_write_default o = false -> o_write_required o = false ->
  wf (VStruct vs) = true -> conforms (VStruct vs) (DStruct fs) = true -> desc_wf (DStruct fs) = true -> base_is_struct (DStruct fs) ->
  (depth (VStruct vs) <= S n)%nat -> (depth (VStruct vs) <= max_skip_depth)%nat ->
  t2j_walk_rootx fd o (S n) (DStruct fs) (encode (VStruct vs) ++ r) =
  match fst (t2j_specw o (DStruct fs) (VStruct vs)) with
  | TOk e => if jexp_finite e then Some (WText (jexp_print fd e)) else None
  | TExc e => if jexp_finite e then Some (WExc (jexp_print fd e)) else None
  | TErr _ => None
  end.
Proof.
  intros Hce Hwd Hwr Hw Hc Hdw Hbs Hd Hs.
  rewrite (walk_rootx_refines fd o fs vs n r Hce Hw Hc Hdw Hbs Hd Hs).
  cbn [t2j_specw]. pose proof (root_walkw_x_forget o fs vs [] [] None) as Hf.
  assert (Hus : forall vs' acc seen e us, root_walkw_x o fs vs' acc seen = XExc e us -> us = []).
  { induction vs' as [|[id x] vs' IH]; intros acc seen e us H; cbn [root_walkw_x] in H.
    - destruct (unset_members o fs seen); discriminate.
    - destruct (find_field fs id) as [f|]; [|destruct (o_disallow_unknown o); [discriminate | exact (IH _ _ _ _ H)]].
      destruct (o_thrift_base o && o_base_in_ctx o && f_respbase (fst f)); [exact (IH _ _ _ _ H)|].
      destruct (o_convert_exception o && negb (id =? 0)).
      + destruct (field_valuew o f x); try discriminate.
        destruct (negb (forallb (fun m => jexp_finite (snd m)) acc)); [discriminate|].
        rewrite (unset_members_off o fs _ Hwd Hwr) in H. destruct (missing_required fs (id :: seen)); [discriminate|].
        inversion H. reflexivity.
      + destruct (field_valuew o f x); try discriminate. exact (IH _ _ _ _ H). }
  destruct (root_walkw_x o fs vs [] []) as [ms|e us|] eqn:E; cbn [forgets] in Hf.
  - rewrite Hf. reflexivity.
  - rewrite Hf. rewrite (Hus vs [] [] e us E). cbn [spec_x obj_mems eprint_mems]. rewrite app_nil_r. reflexivity.
  - destruct Hf as [c Hf]. rewrite Hf. reflexivity.
Qed.

(* ------------------------------------------------------------------ (B) check 304 on the root walk with base extraction *)
Definition egood (e : jexp) : Prop := jexp_bytes e = true /\ wshape e = true.
Definition mgood (m : list Z * jexp) : Prop := jbytes_okb (fst m) = true /\ egood (snd m).

Lemma field_valuew_good o f x e : wf x = true -> desc_ok (snd f) = true -> field_valuew o f x = TOk e -> egood e.
Proof.
  intros Hw Hd H. unfold field_valuew in H. destruct (o_value_mapping o && f_jsconv (fst f)).
  - split; [exact (jsconv_bytes o x e Hw H) | exact (jsconv_wshape o x e Hw H)].
  - split; [exact (json_ofw_bytes o x (snd f) e Hw Hd H) | exact (json_ofw_wshape o x (snd f) e Hw H)].
Qed.

Lemma obj_good l : Forall mgood l -> egood (EObj l).
Proof.
  intros H. split; cbn [jexp_bytes wshape]; apply forallb_forall; intros m Hm; rewrite Forall_forall in H;
    destruct (H m Hm) as [Hk [Hb Hs]]; [rewrite Hk, Hb; reflexivity | exact Hs].
Qed.

Lemma unset_good o fs l p us : desc_ok (DStruct fs) = true -> (forall f, In f l -> In f fs) -> unset_walk o l p = inl us -> Forall mgood us.
Proof.
  intros Hd Hl H. apply Forall_forall. intros m Hm.
  pose proof (unset_walk_bytes o fs Hd l p us Hl H) as Hb. rewrite forallb_forall in Hb. specialize (Hb m Hm).
  pose proof (unset_walk_wshape o l p us H) as Hs. rewrite forallb_forall in Hs. specialize (Hs m Hm).
  apply andb_true_iff in Hb. destruct Hb as [Hk Hb]. split; [exact Hk | split; [exact Hb | exact Hs]].
Qed.

Lemma root_walkw_good o fs : desc_ok (DStruct fs) = true -> forall vs acc seen bs e,
  (forall iv, In iv vs -> wf (snd iv) = true) -> Forall mgood acc ->
  fst (root_walkw o fs vs acc seen bs) = TOk e -> egood e.
Proof.
  intros Hd. induction vs as [|[id x] vs IH]; intros acc seen bs e Hw Hacc H; cbn [root_walkw] in H.
  - cbn [fst] in H. unfold unset_members in H. destruct (unset_walk o (sort_flds fs) seen) as [us|] eqn:Eu; [|discriminate].
    inversion H; subst. apply obj_good. apply Forall_app. split; [apply Forall_rev; exact Hacc|].
    exact (unset_good o fs _ _ us Hd (In_sort_flds fs) Eu).
  - assert (Hwr : forall iv, In iv vs -> wf (snd iv) = true) by (intros iv Hiv; apply Hw; right; exact Hiv).
    assert (Hwx : wf x = true) by (apply (Hw (id, x)); left; reflexivity).
    destruct (find_field fs id) as [f|] eqn:Ef.
    + pose proof (find_field_in _ _ _ Ef) as Hfin.
      pose proof Hd as Hd'. cbn [desc_ok] in Hd'. rewrite forallb_forall in Hd'. specialize (Hd' f Hfin). apply andb_true_iff in Hd'. destruct Hd' as [Hk Hdf].
      destruct (o_thrift_base o && o_base_in_ctx o && f_respbase (fst f)); [exact (IH _ _ _ e Hwr Hacc H)|].
      destruct (o_convert_exception o && negb (id =? 0)).
      * destruct (field_valuew o f x); cbn [fst] in H; try discriminate.
        destruct (negb (forallb (fun m => jexp_finite (snd m)) acc)); [discriminate|].
        destruct (unset_members o fs (id :: seen)); discriminate.
      * destruct (field_valuew o f x) as [e1|e1|c1] eqn:Ev; cbn [fst] in H; try discriminate.
        apply (IH ((f_key (fst f), e1) :: acc) (id :: seen) bs e Hwr); [|exact H].
        constructor; [|exact Hacc]. split; [exact Hk | exact (field_valuew_good o f x e1 Hwx Hdf Ev)].
    + destruct (o_disallow_unknown o); [cbn [fst] in H; discriminate|]. exact (IH _ _ _ e Hwr Hacc H).
Qed.

Lemma t2j_specw_good o d v e : wf v = true -> desc_ok d = true -> fst (t2j_specw o d v) = TOk e -> egood e.
Proof.
  intros Hw Hd H.
  assert (J : forall d', desc_ok d' = true -> json_ofw o d' v = TOk e -> egood e)
    by (intros d' Hd' H'; split; [exact (json_ofw_bytes o v d' e Hw Hd' H') | exact (json_ofw_wshape o v d' e Hw H')]).
  unfold t2j_specw in H. destruct d as [t|b|fs|dk dv|s de]; try (exact (J _ Hd H)).
  destruct v as [ | | | | | | |vs| | | ]; try (exact (J _ Hd H)).
  apply (root_walkw_good o fs Hd vs [] [] None e); [exact (wf_struct_fields vs Hw) | constructor | exact H].
Qed.

(* SOUNDNESS at the root: a text accepted against the marker walk of do (thrift base extraction included, ConvertException
   off) is the token sequence of the ROOT spec tree with every double spelled by a lexeme denoting its bits *)
Theorem check304_root_sound o v d n r m r' out : o_convert_exception o = false ->
  wf v = true -> conforms v d = true -> desc_wf d = true -> desc_ok d = true -> base_is_struct d ->
  (depth v <= n)%nat -> (depth v <= max_skip_depth)%nat ->
  t2j_walk_root fd_mark o n d (encode v ++ r) = Some (m, r') ->
  text_agrees (S (length m)) m out = true ->
  exists e, fst (t2j_specw o d v) = TOk e /\ jexp_finite e = true /\ agrees (jtoks e) out.
Proof.
  intros Hce Hw Hc Hdw Hdo Hbs Hd Hs Hwalk Hag.
  rewrite (walk_root_refines fd_mark o v d n r Hce Hw Hc Hdw Hbs Hd Hs) in Hwalk.
  unfold walk_spec, spec_text_p in Hwalk.
  destruct (fst (t2j_specw o d v)) as [e|e|c] eqn:E; try discriminate.
  destruct (jexp_finite e) eqn:Ef; [|discriminate]. inversion Hwalk; subst m r'.
  exists e. split; [reflexivity|]. split; [exact Ef|].
  destruct (t2j_specw_good o d v e Hw Hdo E) as [Hby Hsh].
  rewrite (print_toks fd_mark e) in Hag.
  exact (text_agrees_sound (jtoks e) _ out (jtoks_ok e Hby Hsh) (Nat.lt_succ_diag_r _) Hag).
Qed.

(* COMPLETENESS at the root: no false alarm *)
Theorem check304_root_complete o v d n r m r' out e : o_convert_exception o = false ->
  wf v = true -> conforms v d = true -> desc_wf d = true -> desc_ok d = true -> base_is_struct d ->
  (depth v <= n)%nat -> (depth v <= max_skip_depth)%nat ->
  t2j_walk_root fd_mark o n d (encode v ++ r) = Some (m, r') ->
  fst (t2j_specw o d v) = TOk e -> agrees (jtoks e) out ->
  text_agrees (S (length m)) m out = true.
Proof.
  intros Hce Hw Hc Hdw Hdo Hbs Hd Hs Hwalk E Hag.
  rewrite (walk_root_refines fd_mark o v d n r Hce Hw Hc Hdw Hbs Hd Hs) in Hwalk.
  unfold walk_spec, spec_text_p in Hwalk. rewrite E in Hwalk.
  destruct (jexp_finite e); [|discriminate]. inversion Hwalk; subst m r'.
  rewrite (print_toks fd_mark e).
  destruct (t2j_specw_good o d v e Hw Hdo E) as [Hby Hsh].
  apply (text_agrees_complete (jtoks e) out Hag); [exact (jtoks_ok e Hby Hsh)|apply jtoks_sep_ok|apply Nat.lt_succ_diag_r].
Qed.
