(* C13 — the round-trip theorems with the formatter contracts DISCHARGED for the models' own exact-decimal printers
   (proofs/F64Exact.v, F32Exact.v, FloatContracts.v).  The statements with the contract as a hypothesis (RoundTripProofs.v,
   RoundTripPProofs.v) remain the ones that speak about an arbitrary printer, e.g. the implementation's shortest round-trip
   f64toa, whose contract is checked per output and not proved. *)
From Coq Require Import ZArith List Bool Lia.
From DG Require Import CaseFormat ProtoWireRef ThriftWire ThriftWireProofs Json JsonProofs Num NumProofs Base64 T2J J2T RoundTrip RoundTripProofs
                       F64Exact FloatContracts.
From DG Require ProtoMsg P2J J2P RoundTripP RoundTripPProofs.
Import ListNotations.
Local Open Scope Z_scope.

Theorem f64_exact_contract_proved : f64_exact_contract.
Proof. intros b Hb Hf. exact (f64_exact_contract_holds b Hb Hf). Qed.

Theorem dlex_contract_exact : dlex_contract f64_exact_lexeme.
Proof. exact (exact_contract_dlex f64_exact_contract_proved). Qed.

Theorem t2j_j2t_id_closed : forall D o o' t v n r,
  matching_opts o o' -> rt_dom D t v = true -> (depth v <= n)%nat -> Z.of_nat (depth v) <= max_level -> stop r = true ->
  exists txt, t2j_text o (tdesc_of D n t) v = Some txt /\ j2t_text strict D o' t (txt ++ r) = Ok (encode v).
Proof. exact (t2j_j2t_id f64_exact_contract_proved). Qed.

Theorem j2t_t2j_denotes_closed : forall D o o' t v n c,
  matching_opts o o' -> rt_dom D t v = true -> wf v = true -> (depth v <= n)%nat -> Z.of_nat (depth v) <= max_level ->
  t2j_text o (tdesc_of D n t) v = Some c ->
  exists b v' c' j,
    j2t_text strict D o' t c = Ok b /\ decode_all (tcode t) b = Some v' /\
    t2j_text o (tdesc_of D n t) v' = Some c' /\
    json_parse c = Some j /\ json_parse c' = Some j /\ json_same j j = true /\ v' = v /\ c' = c.
Proof. exact (j2t_t2j_denotes f64_exact_contract_proved). Qed.

Module P.
Import ProtoMsg P2J J2P RoundTripP RoundTripPProofs.
Theorem p2j_j2p_denotes_closed : forall S dis root m,
  schema_names_ok S -> wf_msg S root m = true -> p_dom S LSingular (TMsg root) (VMsg m) = true ->
  wf_msg S root (m_norm m) = true ->
  exists j, pjson_of S RoundTripPProofs.p2j_plain root m = Some j /\ pdenote dis S root j = ROk (m_norm m).
Proof. exact (p2j_j2p_denotes f64_lex_contract_holds f32_lex_contract_holds). Qed.

Theorem p2j_j2p_bytes_closed : forall S dis root m,
  schema_names_ok S -> wf_msg S root m = true -> p_dom S LSingular (TMsg root) (VMsg m) = true ->
  wf_msg S root (m_norm m) = true ->
  exists j b, pjson_of S RoundTripPProofs.p2j_plain root m = Some j /\ j2p_spec dis S root j = ROk b /\
              decode_top S root b = Some (m_norm m).
Proof. exact (p2j_j2p_bytes f64_lex_contract_holds f32_lex_contract_holds). Qed.
End P.
