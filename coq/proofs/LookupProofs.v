(* C14 — proofs about the lookup structures of coq/model/Lookup.v: each one refines an association list. *)
From Coq Require Import ZArith List Bool Lia Arith PeanoNat.
From DG Require Import CaseFormat Lookup.
Import ListNotations.
Local Open Scope Z_scope.

(* ------------------------------------------------------------------ keys *)

Lemma key_eqb_refl k : key_eqb k k = true.
Proof. unfold key_eqb, bytes_eqb. induction k; simpl; [reflexivity|]. rewrite Z.eqb_refl. exact IHk. Qed.

Lemma key_eqb_eq a b : key_eqb a b = true <-> a = b.
Proof.
  split; [|intros ->; apply key_eqb_refl].
  unfold key_eqb, bytes_eqb. revert b. induction a as [|x a IH]; intros [|y b]; simpl; intros H; try discriminate; [reflexivity|].
  apply andb_true_iff in H. destruct H as [H1 H2]. apply Z.eqb_eq in H1. subst. f_equal. apply IH. exact H2.
Qed.

Lemma key_eqb_neq a b : key_eqb a b = false <-> a <> b.
Proof.
  split.
  - intros H E. apply key_eqb_eq in E. congruence.
  - intros H. destruct (key_eqb a b) eqn:E; [|reflexivity]. apply key_eqb_eq in E. contradiction.
Qed.

Lemma key_eqb_sym a b : key_eqb a b = key_eqb b a.
Proof.
  destruct (key_eqb a b) eqn:E.
  - apply key_eqb_eq in E. subst. symmetry. apply key_eqb_refl.
  - symmetry. apply key_eqb_neq. apply key_eqb_neq in E. congruence.
Qed.

Definition key_dec (a b : key) : {a = b} + {a <> b} := list_eq_dec Z.eq_dec a b.

(* ------------------------------------------------------------------ association lists *)

Lemma assoc_app {V} k (a b : list (key * V)) :
  assoc k (a ++ b) = match assoc k a with Some v => Some v | None => assoc k b end.
Proof. induction a as [|[k' v] a IH]; simpl; [reflexivity|]. destruct (key_eqb k k'); [reflexivity|exact IH]. Qed.

Lemma assoc_none_notin {V} k (l : list (key * V)) : assoc k l = None <-> ~ In k (map fst l).
Proof.
  induction l as [|[k' v] l IH]; simpl; [tauto|].
  destruct (key_eqb k k') eqn:E.
  - apply key_eqb_eq in E. subst. split; [discriminate|]. intros H. exfalso. apply H. left. reflexivity.
  - apply key_eqb_neq in E. rewrite IH. split; intros H; [intros [H1|H1]; [congruence|tauto]|tauto].
Qed.

Lemma assoc_in {V} k v (l : list (key * V)) : assoc k l = Some v -> In (k, v) l.
Proof.
  induction l as [|[k' v'] l IH]; simpl; [discriminate|].
  destruct (key_eqb k k') eqn:E.
  - apply key_eqb_eq in E. subst. intros H. inversion H. left. reflexivity.
  - intros H. right. apply IH. exact H.
Qed.

Lemma in_assoc_nodup {V} k v (l : list (key * V)) : NoDup (map fst l) -> In (k, v) l -> assoc k l = Some v.
Proof.
  induction l as [|[k' v'] l IH]; simpl; [tauto|].
  intros Hnd [H|H].
  - inversion H. subst. rewrite key_eqb_refl. reflexivity.
  - inversion Hnd as [|? ? Hn Hnd']. subst. destruct (key_eqb k k') eqn:E.
    + apply key_eqb_eq in E. subst. exfalso. apply Hn. change k' with (fst (k', v)). apply in_map. exact H.
    + apply IH; assumption.
Qed.

Lemma upsert_assoc {V} k v (l : list (key * V)) k' :
  assoc k' (upsert k v l) = if key_eqb k' k then Some v else assoc k' l.
Proof.
  induction l as [|[k0 v0] l IH]; simpl.
  - destruct (key_eqb k' k); reflexivity.
  - destruct (key_eqb k k0) eqn:E; simpl.
    + apply key_eqb_eq in E. subst k0. destruct (key_eqb k' k); reflexivity.
    + rewrite IH. destruct (key_eqb k' k0) eqn:E2; [|reflexivity].
      apply key_eqb_eq in E2. subst k0. rewrite key_eqb_sym, E. reflexivity.
Qed.

Lemma upsert_keys {V} k v (l : list (key * V)) :
  map fst (upsert k v l) = if is_some (assoc k l) then map fst l else map fst l ++ [k].
Proof.
  induction l as [|[k0 v0] l IH]; simpl; [reflexivity|].
  destruct (key_eqb k k0) eqn:E; simpl; [reflexivity|]. rewrite IH. destruct (is_some (assoc k l)); reflexivity.
Qed.

Lemma upsert_nodup {V} k v (l : list (key * V)) : NoDup (map fst l) -> NoDup (map fst (upsert k v l)).
Proof.
  intros H. rewrite upsert_keys. destruct (assoc k l) eqn:E; simpl; [exact H|].
  apply assoc_none_notin in E.
  apply NoDup_rev in H. rewrite <- (rev_involutive (map fst l ++ [k])). apply NoDup_rev. rewrite rev_app_distr. simpl.
  constructor; [rewrite <- in_rev; exact E|exact H].
Qed.

(* assoc over Z keys *)
Lemma assocZ_app {V} id (a b : list (Z * V)) :
  assocZ id (a ++ b) = match assocZ id a with Some v => Some v | None => assocZ id b end.
Proof. induction a as [|[i v] a IH]; simpl; [reflexivity|]. destruct (id =? i); [reflexivity|exact IH]. Qed.

Lemma assocZ_none_notin {V} id (l : list (Z * V)) : assocZ id l = None <-> ~ In id (map fst l).
Proof.
  induction l as [|[i v] l IH]; simpl; [tauto|].
  destruct (id =? i) eqn:E.
  - apply Z.eqb_eq in E. subst. split; [discriminate|]. intros H. exfalso. apply H. left. reflexivity.
  - apply Z.eqb_neq in E. rewrite IH. split; intros H; [intros [H1|H1]; [congruence|tauto]|tauto].
Qed.

Lemma upsertZ_assoc {V} id v (l : list (Z * V)) id' :
  assocZ id' (upsertZ id v l) = if id' =? id then Some v else assocZ id' l.
Proof.
  induction l as [|[i0 v0] l IH]; simpl.
  - destruct (id' =? id); reflexivity.
  - destruct (id =? i0) eqn:E; simpl.
    + apply Z.eqb_eq in E. subst i0. destruct (id' =? id); reflexivity.
    + rewrite IH. destruct (id' =? i0) eqn:E2; [|reflexivity].
      apply Z.eqb_eq in E2. subst i0. rewrite Z.eqb_sym, E. reflexivity.
Qed.

(* ------------------------------------------------------------------ list helpers *)

Lemma set_nth_length {A} n (x : A) l : length (set_nth n x l) = length l.
Proof. revert n. induction l as [|y l IH]; intros [|n]; simpl; try reflexivity. rewrite IH. reflexivity. Qed.

Lemma nth_set_nth {A} n m (x d : A) l : (n < length l)%nat -> nth m (set_nth n x l) d = if (m =? n)%nat then x else nth m l d.
Proof.
  revert n m. induction l as [|y l IH]; intros [|n] [|m]; simpl; intros H; try lia; try reflexivity.
  apply IH. lia.
Qed.

Lemma nth_set_nth_other {A} n m (x d : A) l : m <> n -> nth m (set_nth n x l) d = nth m l d.
Proof.
  revert n m. induction l as [|y l IH]; intros [|n] [|m]; simpl; intros H; try lia; try reflexivity.
  apply IH. lia.
Qed.

Lemma upd_nth_length {A} n (f : A -> A) l : length (upd_nth n f l) = length l.
Proof. revert n. induction l as [|y l IH]; intros [|n]; simpl; try reflexivity. rewrite IH. reflexivity. Qed.

Lemma nth_error_upd_nth {A} n m (f : A -> A) l :
  nth_error (upd_nth n f l) m = if (m =? n)%nat then option_map f (nth_error l m) else nth_error l m.
Proof.
  revert n m. induction l as [|y l IH]; intros [|n] [|m]; simpl; try reflexivity.
  - destruct (m =? n)%nat; reflexivity.
  - apply IH.
Qed.

(* ------------------------------------------------------------------ FieldIDMap *)

(* last binding wins *)
Definition assocZ_last {V} (id : Z) (l : list (Z * V)) : option V := assocZ id (rev l).

Definition fid_inv {V} (m : fidmap V) (fs : list (Z * V)) : Prop :=
  (forall id, 0 <= id -> nth (Z.to_nat id) (fid_m m) None = assocZ_last id fs) /\
  (forall id, In id (map fst fs) -> id < Z.of_nat (length (fid_m m))).

Lemma nth_app_repeat_none {V} (l : list (option V)) n k : nth k (l ++ repeat None n) None = nth k l None.
Proof.
  destruct (Nat.lt_ge_cases k (length l)) as [H|H].
  - apply app_nth1. exact H.
  - rewrite app_nth2 by exact H. rewrite (nth_overflow l) by exact H.
    destruct (Nat.lt_ge_cases (k - length l) n) as [H2|H2].
    + apply nth_repeat.
    + apply nth_overflow. rewrite repeat_length. exact H2.
Qed.

Lemma fid_set_inv {V} (m : fidmap V) fs id v :
  0 <= id -> fid_inv m fs -> exists m', fid_set m id v = Some m' /\ fid_inv m' (fs ++ [(id, v)]).
Proof.
  intros Hid [H1 H2]. unfold fid_set. destruct (id <? 0) eqn:E; [apply Z.ltb_lt in E; lia|].
  eexists. split; [reflexivity|]. cbv zeta. unfold fid_inv. cbn [fid_m fid_all].
  set (mm := if Z.of_nat (length (fid_m m)) <=? id then _ else _).
  assert (Hlen : (Z.to_nat id < length mm)%nat).
  { unfold mm. destruct (Z.of_nat (length (fid_m m)) <=? id) eqn:E2.
    - apply Z.leb_le in E2. rewrite app_length, repeat_length. lia.
    - apply Z.leb_gt in E2. lia. }
  assert (Hmm : forall k, nth k mm None = nth k (fid_m m) None).
  { intros k. unfold mm. destruct (Z.of_nat (length (fid_m m)) <=? id); [apply nth_app_repeat_none|reflexivity]. }
  assert (Hge : (length (fid_m m) <= length mm)%nat).
  { unfold mm. destruct (Z.of_nat (length (fid_m m)) <=? id); [rewrite app_length; lia|lia]. }
  split.
  - intros id' Hid'. simpl. rewrite nth_set_nth by exact Hlen.
    unfold assocZ_last. rewrite rev_app_distr. simpl.
    destruct (Z.to_nat id' =? Z.to_nat id)%nat eqn:E3.
    + apply Nat.eqb_eq in E3. assert (id' = id) by lia. subst. rewrite Z.eqb_refl. reflexivity.
    + apply Nat.eqb_neq in E3. assert (id' <> id) by (intros ->; apply E3; reflexivity).
      destruct (id' =? id) eqn:E4; [apply Z.eqb_eq in E4; contradiction|].
      rewrite Hmm. apply H1. exact Hid'.
  - intros id' Hin. simpl. rewrite set_nth_length. rewrite map_app, in_app_iff in Hin. simpl in Hin.
    destruct Hin as [Hin|[Hin|[]]].
    + specialize (H2 _ Hin). lia.
    + subst. lia.
Qed.

Lemma fid_build_inv {V} (fs : list (Z * V)) :
  (forall id, In id (map fst fs) -> 0 <= id) -> exists m, fid_build fs = Some m /\ fid_inv m fs.
Proof.
  unfold fid_build.
  assert (G : forall (fs pre : list (Z * V)) m, fid_inv m pre -> (forall id, In id (map fst fs) -> 0 <= id) ->
    exists m', fold_left (fun om f => match om with Some m => fid_set m (fst f) (snd f) | None => None end) fs (Some m) = Some m' /\ fid_inv m' (pre ++ fs)).
  { clear fs. induction fs as [|[id v] fs IH]; intros pre m Hinv Hpos; simpl.
    - exists m. rewrite app_nil_r. split; [reflexivity|exact Hinv].
    - destruct (fid_set_inv m pre id v) as [m' [Hs Hi]]; [apply Hpos; left; reflexivity|exact Hinv|].
      rewrite Hs. destruct (IH (pre ++ [(id, v)]) m' Hi) as [m'' [Hf Hi']]; [intros; apply Hpos; right; assumption|].
      exists m''. split; [exact Hf|]. rewrite <- app_assoc in Hi'. exact Hi'. }
  intros Hpos. apply (G fs [] fid_empty); [|exact Hpos].
  split; [intros id _; simpl; destruct (Z.to_nat id); reflexivity|intros id []].
Qed.

Lemma assocZ_rev_nodup {V} id (l : list (Z * V)) : NoDup (map fst l) -> assocZ id (rev l) = assocZ id l.
Proof.
  induction l as [|[i v] l IH]; simpl; [reflexivity|]. intros Hnd. inversion Hnd as [|? ? Hn Hnd']. subst.
  rewrite assocZ_app. rewrite IH by exact Hnd'. simpl. destruct (id =? i) eqn:E.
  - apply Z.eqb_eq in E. subst. apply assocZ_none_notin in Hn. rewrite Hn. reflexivity.
  - destruct (assocZ id l); reflexivity.
Qed.

(* FieldIDMap.Get after Set of all fields: the last binding of the id, for EVERY id >= 0 *)
Theorem fid_get_build_last {V} (fs : list (Z * V)) :
  (forall id, In id (map fst fs) -> 0 <= id) ->
  exists m, fid_build fs = Some m /\ forall id, fid_get m id = if id <? 0 then None else assocZ_last id fs.
Proof.
  intros Hpos. destruct (fid_build_inv fs Hpos) as [m [Hb [H1 H2]]]. exists m. split; [exact Hb|].
  intros id. unfold fid_get. destruct (id <? 0) eqn:E.
  - destruct (Z.of_nat (length (fid_m m)) <=? id); reflexivity.
  - apply Z.ltb_ge in E. destruct (Z.of_nat (length (fid_m m)) <=? id) eqn:E2; [|apply H1; exact E].
    apply Z.leb_le in E2. symmetry. unfold assocZ_last.
    destruct (assocZ id (rev fs)) eqn:E3; [|reflexivity]. exfalso.
    assert (In id (map fst fs)).
    { destruct (in_dec Z.eq_dec id (map fst (rev fs))) as [Hi|Hi].
      - rewrite map_rev in Hi. apply in_rev in Hi. exact Hi.
      - apply assocZ_none_notin in Hi. congruence. }
    specialize (H2 _ H). lia.
Qed.

Theorem fid_get_build {V} (fs : list (Z * V)) :
  NoDup (map fst fs) -> (forall id, In id (map fst fs) -> 0 <= id) ->
  exists m, fid_build fs = Some m /\ forall id, fid_get m id = assocZ id fs.
Proof.
  intros Hnd Hpos. destruct (fid_get_build_last fs Hpos) as [m [Hb Hg]]. exists m. split; [exact Hb|].
  intros id. rewrite Hg. unfold assocZ_last. rewrite assocZ_rev_nodup by exact Hnd.
  destruct (id <? 0) eqn:E; [|reflexivity]. apply Z.ltb_lt in E. symmetry. apply assocZ_none_notin.
  intros Hin. specialize (Hpos _ Hin). lia.
Qed.

(* ------------------------------------------------------------------ TrieTree *)

(* shape invariant maintained by Set: a node that was never visited (Leaves == nil) has no index *)
Definition tn_ok {V} (c : tnode V) : Prop := tn_leaves c = None -> tn_index c = [].

Fixpoint twf {V} (ps : list Z) (n : tnode V) : Prop :=
  match ps with
  | [] => True
  | _ :: ps' => Forall (fun c => tn_ok c /\ twf ps' c) (tn_index n)
  end.

Lemma twf_ensure {V} ps (n : tnode V) : twf ps n -> twf ps (tn_ensure n).
Proof. destruct ps; simpl; intros H; exact H. Qed.

Lemma twf_fresh {V} ps : twf ps (@tn_fresh V).
Proof. destruct ps; simpl; [exact I|constructor]. Qed.

Lemma tn_ensure_some {V} (n : tnode V) l : tn_leaves n = Some l -> tn_ensure n = n.
Proof. destruct n as [ls idx]. simpl. intros ->. reflexivity. Qed.

Lemma tn_get_ensure {V} ps k (c : tnode V) :
  tn_ok c -> tn_get ps k (tn_ensure c) = match tn_leaves c with None => None | Some _ => tn_get ps k c end.
Proof.
  intros Hok. destruct (tn_leaves c) as [l|] eqn:E.
  - rewrite (tn_ensure_some c l E). reflexivity.
  - specialize (Hok E). destruct c as [ls idx]. simpl in *. subst. unfold tn_ensure. simpl.
    destruct ps as [|p ps]; simpl; [reflexivity|]. destruct (bucket p k); reflexivity.
Qed.

Lemma Forall_upd_nth {A} (P : A -> Prop) n f l : Forall P l -> (forall x, P x -> P (f x)) -> Forall P (upd_nth n f l).
Proof.
  intros H Hf. revert n. induction H as [|x l Hx Hl IH]; intros [|n]; simpl; try constructor; auto.
Qed.

Lemma Forall_grow {V} (P : tnode V -> Prop) j idx : Forall P idx -> P tn_fresh -> Forall P (grow j idx).
Proof.
  intros H Hf. unfold grow. destruct (length idx <=? j)%nat; [|exact H].
  apply Forall_app. split; [exact H|]. apply Forall_forall. intros x Hx. apply repeat_spec in Hx. subst. exact Hf.
Qed.

Lemma grow_length {V} j (idx : list (tnode V)) : (j < length (grow j idx))%nat.
Proof.
  unfold grow. destruct (length idx <=? j)%nat eqn:E.
  - apply Nat.leb_le in E. rewrite app_length, repeat_length. lia.
  - apply Nat.leb_gt in E. exact E.
Qed.

Lemma nth_error_grow {V} j (idx : list (tnode V)) m :
  nth_error (grow j idx) m = match nth_error idx m with
                             | Some c => Some c
                             | None => if (m <? length (grow j idx))%nat then Some tn_fresh else None
                             end.
Proof.
  unfold grow. destruct (length idx <=? j)%nat eqn:E.
  - destruct (nth_error idx m) eqn:E2.
    + rewrite nth_error_app1; [exact E2|]. apply nth_error_Some. congruence.
    + apply nth_error_None in E2. rewrite nth_error_app2 by exact E2.
      rewrite app_length, repeat_length.
      destruct (m <? length idx + (S j - length idx))%nat eqn:E3.
      * apply Nat.ltb_lt in E3. rewrite nth_error_repeat; [reflexivity|lia].
      * apply Nat.ltb_ge in E3. apply nth_error_None. rewrite repeat_length. lia.
  - destruct (nth_error idx m) eqn:E2; [reflexivity|]. apply nth_error_None in E2.
    destruct (m <? length idx)%nat eqn:E3; [apply Nat.ltb_lt in E3; lia|reflexivity].
Qed.

Lemma tn_set_leaves_some {V} ps k v (n : tnode V) l : tn_leaves n = Some l -> exists l', tn_leaves (tn_set ps k v n) = Some l'.
Proof. destruct ps; simpl; intros H; [eexists; reflexivity|exists l; exact H]. Qed.

Lemma tn_set_spec {V} ps : forall k' v (n : tnode V), twf ps n ->
  twf ps (tn_set ps k' v n) /\
  forall k, tn_get ps k (tn_set ps k' v n) = if key_eqb k k' then Some v else tn_get ps k n.
Proof.
  induction ps as [|p ps IH]; intros k' v n Hwf.
  - split; [exact I|]. intros k. simpl. rewrite upsert_assoc.
    destruct (key_eqb k k'); [reflexivity|]. destruct (tn_leaves n); reflexivity.
  - simpl in Hwf. split.
    + simpl. apply Forall_upd_nth.
      * apply Forall_grow; [exact Hwf|]. split; [intros _; reflexivity|apply twf_fresh].
      * intros c [Hok Hc]. split.
        -- intros Hn. destruct (tn_set_leaves_some ps k' v (tn_ensure c) _ eq_refl) as [l' Hl']. congruence.
        -- apply IH. apply twf_ensure. exact Hc.
    + intros k. simpl. rewrite nth_error_upd_nth. rewrite !nth_error_grow.
      pose proof (grow_length (bucket p k') (tn_index n)) as Hgl.
      destruct (bucket p k =? bucket p k')%nat eqn:Ej.
      * apply Nat.eqb_eq in Ej. rewrite Ej.
        assert (Hc : exists c0, (match nth_error (tn_index n) (bucket p k') with
                                 | Some c => Some c
                                 | None => if (bucket p k' <? length (grow (bucket p k') (tn_index n)))%nat then Some tn_fresh else None
                                 end) = Some c0 /\ tn_ok c0 /\ twf ps c0 /\
                                 (match nth_error (tn_index n) (bucket p k') with
                                  | None => None
                                  | Some c => match tn_leaves c with None => None | Some _ => tn_get ps k c end
                                  end) = match tn_leaves c0 with None => None | Some _ => tn_get ps k c0 end).
        { destruct (nth_error (tn_index n) (bucket p k')) as [c|] eqn:En.
          - exists c. rewrite Forall_forall in Hwf. apply nth_error_In in En. destruct (Hwf _ En). auto.
          - apply Nat.ltb_lt in Hgl. rewrite Hgl. exists tn_fresh. split; [reflexivity|].
            split; [intros _; reflexivity|]. split; [apply twf_fresh|reflexivity]. }
        destruct Hc as [c0 [H0 [Hok [Hwc Hsame]]]]. rewrite H0. simpl. rewrite Hsame.
        destruct (tn_set_leaves_some ps k' v (tn_ensure c0) _ eq_refl) as [l' Hl']. rewrite Hl'.
        destruct (IH k' v (tn_ensure c0) (twf_ensure _ _ Hwc)) as [_ Hg]. rewrite Hg.
        rewrite tn_get_ensure by exact Hok. reflexivity.
      * apply Nat.eqb_neq in Ej.
        assert (Hk : key_eqb k k' = false). { apply key_eqb_neq. intros ->. apply Ej. reflexivity. }
        rewrite Hk. destruct (nth_error (tn_index n) (bucket p k)) as [c|]; [reflexivity|].
        destruct (bucket p k <? length (grow (bucket p k') (tn_index n)))%nat; reflexivity.
Qed.

Lemma assoc_rev_nodup {V} k (l : list (key * V)) : NoDup (map fst l) -> assoc k (rev l) = assoc k l.
Proof.
  induction l as [|[k0 v] l IH]; simpl; [reflexivity|]. intros Hnd. inversion Hnd as [|? ? Hn Hnd']. subst.
  rewrite assoc_app. rewrite IH by exact Hnd'. simpl. destruct (key_eqb k k0) eqn:E.
  - apply key_eqb_eq in E. subst. apply assoc_none_notin in Hn. rewrite Hn. reflexivity.
  - destruct (assoc k l); reflexivity.
Qed.

Definition trie_inv {V} (ps : list Z) (t : trie V) (pre : list (key * V)) : Prop :=
  t_positions t = ps /\ twf ps (t_root t) /\ tn_ok (t_root t) /\
  (forall k, k <> [] -> tn_get ps k (tn_ensure (t_root t)) = assoc k (rev pre)) /\
  t_empty t = assoc [] (rev pre) /\
  (tn_leaves (t_root t) = None -> forall k, In k (map fst pre) -> k = []).

Lemma trie_set_inv {V} ps (t : trie V) pre k' v :
  trie_inv ps t pre -> trie_inv ps (trie_set t k' v) (pre ++ [(k', v)]).
Proof.
  intros [Hp [Hwf [Hok [Hg [He Hl]]]]]. unfold trie_set. destruct k' as [|b k'].
  - unfold trie_inv. simpl. rewrite rev_app_distr. simpl. repeat split; try assumption.
    + intros k Hk. destruct k; [contradiction|]. simpl. apply Hg. discriminate.
    + intros Hn k Hin. rewrite map_app, in_app_iff in Hin. destruct Hin as [Hin|[Hin|[]]]; [apply Hl; assumption|symmetry; exact Hin].
  - rewrite Hp. destruct (tn_set_spec ps (b :: k') v (tn_ensure (t_root t)) (twf_ensure _ _ Hwf)) as [Hwf' Hg'].
    destruct (tn_set_leaves_some ps (b :: k') v (tn_ensure (t_root t)) _ eq_refl) as [l' Hl'].
    unfold trie_inv. cbn [t_positions t_root t_empty]. rewrite rev_app_distr. cbn [rev app].
    split; [reflexivity|]. split; [exact Hwf'|]. split; [intros Hn; congruence|]. split; [|split].
    + intros k Hk. rewrite (tn_ensure_some _ _ Hl'). rewrite Hg'. cbn [assoc]. destruct (key_eqb k (b :: k')); [reflexivity|].
      apply Hg. exact Hk.
    + cbn [assoc key_eqb bytes_eqb list_eqb]. exact He.
    + intros Hn. congruence.
Qed.

Lemma trie_build_inv {V} ps (kvs : list (key * V)) : trie_inv ps (trie_build ps kvs) kvs.
Proof.
  unfold trie_build.
  assert (G : forall (kvs pre : list (key * V)) t, trie_inv ps t pre ->
             trie_inv ps (fold_left (fun t kv => trie_set t (fst kv) (snd kv)) kvs t) (pre ++ kvs)).
  { clear kvs. induction kvs as [|[k v] kvs IH]; intros pre t H; simpl.
    - rewrite app_nil_r. exact H.
    - replace (pre ++ (k, v) :: kvs) with ((pre ++ [(k, v)]) ++ kvs) by (rewrite <- app_assoc; reflexivity).
      apply IH. apply trie_set_inv. exact H. }
  apply (G kvs [] (trie_new ps)).
  unfold trie_inv, trie_new. simpl. repeat split.
  - apply twf_fresh.
  - intros k _. unfold tn_ensure. simpl. destruct ps as [|p ps]; simpl; [reflexivity|]. destruct (bucket p k); reflexivity.
  - intros _ k [].
Qed.

Lemma trie_get_inv {V} ps (t : trie V) pre k : trie_inv ps t pre -> trie_get t k = assoc k (rev pre).
Proof.
  intros [Hp [Hwf [Hok [Hg [He Hl]]]]]. unfold trie_get. destruct k as [|b k]; [exact He|].
  rewrite <- Hg by discriminate. rewrite tn_get_ensure by exact Hok. rewrite Hp. reflexivity.
Qed.

(* TrieTree.Get after Set of all pairs, for EVERY byte string k and ANY list of positions: last binding of k *)
Theorem trie_get_build_last {V} ps (kvs : list (key * V)) k : trie_get (trie_build ps kvs) k = assoc k (rev kvs).
Proof. apply (trie_get_inv ps). apply trie_build_inv. Qed.

Theorem trie_get_build {V} ps (kvs : list (key * V)) k :
  NoDup (map fst kvs) -> trie_get (trie_build ps kvs) k = assoc k kvs.
Proof. intros H. rewrite trie_get_build_last. apply assoc_rev_nodup. exact H. Qed.

(* the nil dereference of TrieTree.Get cannot happen once a non-empty key was Set *)
Theorem trie_get_no_panic {V} ps (kvs : list (key * V)) k :
  (exists k0, In k0 (map fst kvs) /\ k0 <> []) -> trie_get_panics (trie_build ps kvs) k = false.
Proof.
  intros [k0 [Hin Hne]]. destruct (trie_build_inv ps kvs) as [_ [_ [_ [_ [_ Hl]]]]].
  unfold trie_get_panics. destruct k; [reflexivity|].
  destruct (tn_leaves (t_root (trie_build ps kvs))) eqn:E; [reflexivity|]. exfalso. apply Hne. apply (Hl eq_refl). exact Hin.
Qed.

(* native twin, tree built before fix 0d2d3ac: whenever it does not read out of bounds it returns what the Go code returns *)
Lemma tn_get_native_nospare_agrees {V} ps : forall k (n : tnode V) r, tn_get_native_nospare ps k n = Some r -> r = tn_get ps k n.
Proof.
  induction ps as [|p ps IH]; intros k n r; simpl.
  - intros H. inversion H. reflexivity.
  - destruct (length (tn_index n) <? bucket p k)%nat eqn:E.
    + apply Nat.ltb_lt in E. intros H. inversion H. subst.
      destruct (nth_error (tn_index n) (bucket p k)) eqn:E2; [|reflexivity].
      assert (nth_error (tn_index n) (bucket p k) <> None) by congruence. apply nth_error_Some in H0. lia.
    + destruct (nth_error (tn_index n) (bucket p k)) as [c|]; [|discriminate].
      destruct (tn_leaves c); [apply IH|]. intros H. inversion H. reflexivity.
Qed.

(* ... and it reads out of bounds as soon as a level of the walk computes a bucket equal to the index length *)
Lemma tn_get_native_nospare_oob_root {V} p ps k (n : tnode V) :
  bucket p k = length (tn_index n) -> tn_get_native_nospare (p :: ps) k n = None.
Proof.
  intros H. simpl. rewrite H. rewrite Nat.ltb_irrefl.
  destruct (nth_error (tn_index n) (length (tn_index n))) eqn:E; [|reflexivity].
  assert (nth_error (tn_index n) (length (tn_index n)) <> None) by congruence. apply nth_error_Some in H0. lia.
Qed.

(* native twin, tree with the spare node (fix 0d2d3ac): same agreement ... *)
Lemma tn_get_native_agrees {V} ps : forall k (n : tnode V) r, tn_get_native ps k n = Some r -> r = tn_get ps k n.
Proof.
  induction ps as [|p ps IH]; intros k n r; simpl.
  - intros H. inversion H. reflexivity.
  - destruct (length (tn_index n) <? bucket p k)%nat eqn:E.
    + apply Nat.ltb_lt in E. intros H. inversion H. subst.
      destruct (nth_error (tn_index n) (bucket p k)) eqn:E2; [|reflexivity].
      assert (nth_error (tn_index n) (bucket p k) <> None) by congruence. apply nth_error_Some in H0. lia.
    + destruct (nth_error (tn_index n) (bucket p k)) as [c|].
      * destruct (tn_leaves c); [apply IH|]. intros H. inversion H. reflexivity.
      * destruct (tn_index n); [discriminate|]. intros H. inversion H. reflexivity.
Qed.

(* ... and the walk never leaves allocated memory on a tree in which every visited node has a non-empty index or is a leaf level:
   in particular on every trie with one position into which a non-empty key was Set (what FieldNameMap.Build constructs) *)
Lemma tn_get_native_total_one {V} p k (n : tnode V) : tn_index n <> [] -> tn_get_native [p] k n = Some (tn_get [p] k n).
Proof.
  intros Hne. simpl. destruct (length (tn_index n) <? bucket p k)%nat eqn:E.
  - apply Nat.ltb_lt in E. destruct (nth_error (tn_index n) (bucket p k)) eqn:E2; [|reflexivity].
    assert (nth_error (tn_index n) (bucket p k) <> None) by congruence. apply nth_error_Some in H. lia.
  - destruct (nth_error (tn_index n) (bucket p k)) as [c|].
    + destruct (tn_leaves c); reflexivity.
    + destruct (tn_index n); [contradiction|reflexivity].
Qed.

(* ------------------------------------------------------------------ HashMap: probe paths *)

Fixpoint steps (N p f : nat) : list nat :=
  match f with O => [] | S f' => p :: steps N ((S p) mod N) f' end.

Lemma steps_closed N p f : N <> O -> (p < N)%nat -> steps N p f = map (fun i => (p + i) mod N)%nat (seq 0 f).
Proof.
  intros HN. revert p. induction f as [|f IH]; intros p Hp; [reflexivity|].
  cbn [steps]. rewrite IH by (apply Nat.mod_upper_bound; exact HN).
  cbn [seq map]. rewrite Nat.add_0_r. rewrite (Nat.mod_small p N) by exact Hp. f_equal.
  rewrite <- seq_shift, map_map. apply map_ext. intros i.
  rewrite Nat.add_mod_idemp_l by exact HN. f_equal. lia.
Qed.

Lemma steps_bound N p f q : N <> O -> (p < N)%nat -> In q (steps N p f) -> (q < N)%nat.
Proof.
  intros HN Hp. rewrite steps_closed by assumption. rewrite in_map_iff. intros [i [<- _]]. apply Nat.mod_upper_bound. exact HN.
Qed.

Lemma steps_cover N p q : N <> O -> (p < N)%nat -> (q < N)%nat -> In q (steps N p N).
Proof.
  intros HN Hp Hq. rewrite steps_closed by assumption. apply in_map_iff.
  destruct (Nat.le_gt_cases p q) as [H|H].
  - exists (q - p)%nat. split; [|apply in_seq; lia]. replace (p + (q - p))%nat with q by lia. apply Nat.mod_small. exact Hq.
  - exists (N - p + q)%nat. split; [|apply in_seq; lia].
    replace (p + (N - p + q))%nat with (q + 1 * N)%nat by lia. rewrite Nat.mod_add by exact HN. apply Nat.mod_small. exact Hq.
Qed.

Fixpoint scan_get {V} (T : htable V) (h : Z) (k : key) (path : list nat) : option (option V) :=
  match path with
  | [] => None
  | p :: r =>
    let s := hm_slot T p in
    if hs_hash s =? 0 then Some None
    else if (hs_hash s =? h) && key_eqb (hs_key s) k then Some (hs_val s)
    else scan_get T h k r
  end.

Lemma probe_get_scan {V} f (T : htable V) h k p : hm_probe_get f T h k p = scan_get T h k (steps (length T) p f).
Proof.
  revert p. induction f as [|f IH]; intros p; [reflexivity|]. cbn [hm_probe_get steps scan_get].
  destruct (hs_hash (hm_slot T p) =? 0); [reflexivity|].
  destruct ((hs_hash (hm_slot T p) =? h) && key_eqb (hs_key (hm_slot T p)) k); [reflexivity|]. apply IH.
Qed.

Definition is_free {V} (T : htable V) (q : nat) : bool := hs_hash (hm_slot T q) =? 0.

Lemma probe_empty_find {V} f (T : htable V) p : hm_probe_empty f T p = find (is_free T) (steps (length T) p f).
Proof.
  revert p. induction f as [|f IH]; intros p; [reflexivity|]. cbn [hm_probe_empty steps find]. unfold is_free at 1.
  destruct (hs_hash (hm_slot T p) =? 0); [reflexivity|]. apply IH.
Qed.

Lemma find_split {A} (P : A -> bool) l e :
  find P l = Some e -> exists l1 l2, l = l1 ++ e :: l2 /\ P e = true /\ forall x, In x l1 -> P x = false.
Proof.
  induction l as [|x l IH]; simpl; [discriminate|]. destruct (P x) eqn:E.
  - intros H. inversion H. subst. exists [], l. split; [reflexivity|]. split; [exact E|intros ? []].
  - intros H. destruct (IH H) as [l1 [l2 [H1 [H2 H3]]]]. exists (x :: l1), l2. subst. split; [reflexivity|]. split; [exact H2|].
    intros y [<-|Hy]; [exact E|apply H3; exact Hy].
Qed.

Lemma find_some_exists {A} (P : A -> bool) l x : In x l -> P x = true -> exists e, find P l = Some e.
Proof.
  induction l as [|y l IH]; simpl; [tauto|]. intros [<-|H] Hx.
  - rewrite Hx. eexists. reflexivity.
  - destruct (P y); [eexists; reflexivity|apply IH; assumption].
Qed.

Definition hpath {V} (T : htable V) (h : Z) : list nat := steps (length T) (hm_home T h) (length T).

Lemma hm_home_lt {V} (T : htable V) h : length T <> O -> (hm_home T h < length T)%nat.
Proof.
  intros HN. unfold hm_home. assert (0 < Z.of_nat (length T)) by lia.
  pose proof (Z.mod_pos_bound h _ H). lia.
Qed.

(* ------------------------------------------------------------------ HashMap: invariant *)

Definition hinv {V} (T : htable V) (kvs : list (key * V)) : Prop :=
  (forall i, (i < length T)%nat -> hs_hash (hm_slot T i) <> 0 ->
     hs_hash (hm_slot T i) = djb (hs_key (hm_slot T i)) /\
     (exists v, hs_val (hm_slot T i) = Some v /\ In (hs_key (hm_slot T i), v) kvs) /\
     exists l1 l2, hpath T (hs_hash (hm_slot T i)) = l1 ++ i :: l2 /\ forall j, In j l1 -> is_free T j = false) /\
  (forall k v, In (k, v) kvs -> exists i, (i < length T)%nat /\ hm_slot T i = HS (djb k) k (Some v)).

Definition has_free {V} (T : htable V) : Prop := exists q, (q < length T)%nat /\ is_free T q = true.

Lemma scan_no_match {V} (T : htable V) h k path :
  (forall p, In p path -> is_free T p = false -> hs_key (hm_slot T p) <> k) ->
  (exists q, In q path /\ is_free T q = true) -> scan_get T h k path = Some None.
Proof.
  induction path as [|p path IH]; intros Hnm [q [Hq Hf]]; [destruct Hq|]. cbn [scan_get].
  destruct (hs_hash (hm_slot T p) =? 0) eqn:E; [reflexivity|].
  destruct (key_eqb (hs_key (hm_slot T p)) k) eqn:E2.
  - apply key_eqb_eq in E2. exfalso. apply (Hnm p); [left; reflexivity|exact E|exact E2].
  - rewrite andb_false_r. apply IH.
    + intros p' Hp'. apply Hnm. right. exact Hp'.
    + destruct Hq as [<-|Hq]; [unfold is_free in Hf; congruence|]. exists q. split; assumption.
Qed.

Lemma hm_get_correct {V} (T : htable V) kvs k :
  hinv T kvs -> NoDup (map fst kvs) -> (forall k0, In k0 (map fst kvs) -> djb k0 <> 0) -> has_free T ->
  hm_get T k = Some (assoc k kvs).
Proof.
  intros [Hs Hk] Hnd Hz [q [Hq Hfree]]. assert (HN : length T <> O) by lia.
  unfold hm_get. rewrite probe_get_scan. fold (hpath T (djb k)).
  destruct (assoc k kvs) as [v|] eqn:Ea.
  - apply assoc_in in Ea. destruct (Hk _ _ Ea) as [i [Hi Hsl]].
    assert (Hne : hs_hash (hm_slot T i) <> 0).
    { rewrite Hsl. simpl. apply Hz. change k with (fst (k, v)). apply in_map. exact Ea. }
    destruct (Hs i Hi Hne) as [_ [_ [l1 [l2 [Hp Hl1]]]]]. rewrite Hsl in Hp. simpl in Hp. rewrite Hp.
    clear Hp. induction l1 as [|j l1 IH]; cbn [app scan_get].
    + rewrite Hsl. simpl. destruct (djb k =? 0) eqn:E0; [apply Z.eqb_eq in E0; rewrite Hsl in Hne; simpl in Hne; contradiction|].
      rewrite Z.eqb_refl, key_eqb_refl. reflexivity.
    + pose proof (Hl1 j (or_introl eq_refl)) as Hj. unfold is_free in Hj. rewrite Hj.
      destruct ((hs_hash (hm_slot T j) =? djb k) && key_eqb (hs_key (hm_slot T j)) k) eqn:Em.
      * apply andb_true_iff in Em. destruct Em as [_ Em]. apply key_eqb_eq in Em.
        assert (Hjl : (j < length T)%nat).
        { destruct (Nat.lt_ge_cases j (length T)) as [H|H]; [exact H|]. unfold hm_slot in Hj. rewrite nth_overflow in Hj by exact H. discriminate. }
        apply Z.eqb_neq in Hj. destruct (Hs j Hjl Hj) as [_ [[v' [Hv' Hin]] _]]. rewrite Em in Hin.
        rewrite Hv'. f_equal. f_equal.
        pose proof (in_assoc_nodup _ _ _ Hnd Hin) as A1. pose proof (in_assoc_nodup _ _ _ Hnd Ea) as A2. congruence.
      * apply IH. intros j' Hj'. apply Hl1. right. exact Hj'.
  - apply scan_no_match.
    + intros p Hp Hf Hkey. unfold hpath in Hp. apply steps_bound in Hp; [|exact HN|apply hm_home_lt; exact HN].
      unfold is_free in Hf. apply Z.eqb_neq in Hf. destruct (Hs p Hp Hf) as [_ [[v' [_ Hin]] _]]. rewrite Hkey in Hin.
      apply assoc_none_notin in Ea. apply Ea. change k with (fst (k, v')). apply in_map. exact Hin.
    + exists q. split; [|exact Hfree]. unfold hpath. apply steps_cover; [exact HN|apply hm_home_lt; exact HN|exact Hq].
Qed.

Lemma hm_slot_set_nth {V} (T : htable V) p s i : (p < length T)%nat -> hm_slot (set_nth p s T) i = if (i =? p)%nat then s else hm_slot T i.
Proof. intros H. unfold hm_slot. apply nth_set_nth. exact H. Qed.

Lemma hm_set_inv {V} (T : htable V) kvs kvs' k v :
  hinv T kvs -> has_free T -> djb k <> 0 -> (forall k0, In k0 (map fst kvs) -> djb k0 <> 0) -> incl kvs kvs' -> In (k, v) kvs' ->
  (forall k0 v0, In (k0, v0) kvs' -> In (k0, v0) kvs \/ (k0, v0) = (k, v)) ->
  hinv (hm_set T k v) kvs' /\ length (hm_set T k v) = length T.
Proof.
  intros [Hs Hk] [q [Hq Hfree]] Hz Hzs Hincl Hin Hsub. assert (HN : length T <> O) by lia.
  unfold hm_set. rewrite probe_empty_find. fold (hpath T (djb k)).
  destruct (find_some_exists (is_free T) (hpath T (djb k)) q) as [e He];
    [unfold hpath; apply steps_cover; [exact HN|apply hm_home_lt; exact HN|exact Hq]|exact Hfree|].
  rewrite He. destruct (find_split _ _ _ He) as [l1 [l2 [Hp [Hfe Hl1]]]].
  assert (Hel : (e < length T)%nat).
  { apply (steps_bound (length T) (hm_home T (djb k)) (length T)); [exact HN|apply hm_home_lt; exact HN|].
    unfold hpath in Hp. rewrite Hp. apply in_or_app. right. left. reflexivity. }
  split; [|apply set_nth_length].
  assert (Hpath : forall h, hpath (set_nth e (HS (djb k) k (Some v)) T) h = hpath T h).
  { intros h. unfold hpath, hm_home. rewrite set_nth_length. reflexivity. }
  assert (Hfree' : forall j, is_free T j = false -> is_free (set_nth e (HS (djb k) k (Some v)) T) j = false).
  { intros j Hj. unfold is_free. rewrite hm_slot_set_nth by exact Hel. destruct (j =? e)%nat; [simpl; apply Z.eqb_neq; exact Hz|exact Hj]. }
  split.
  - intros i Hi. rewrite set_nth_length in Hi. rewrite hm_slot_set_nth by exact Hel.
    destruct (i =? e)%nat eqn:Ei.
    + apply Nat.eqb_eq in Ei. subst i. simpl. intros _. split; [reflexivity|]. split; [exists v; split; [reflexivity|exact Hin]|].
      exists l1, l2. rewrite Hpath. split; [exact Hp|]. intros j Hj. apply Hfree'. apply Hl1. exact Hj.
    + intros Hne. destruct (Hs i Hi Hne) as [H1 [[v0 [H2 H3]] [m1 [m2 [H4 H5]]]]]. split; [exact H1|].
      split; [exists v0; split; [exact H2|apply Hincl; exact H3]|].
      exists m1, m2. rewrite Hpath. split; [exact H4|]. intros j Hj. apply Hfree'. apply H5. exact Hj.
  - intros k0 v0 Hin0. destruct (Hsub _ _ Hin0) as [Hold|Hnew].
    + destruct (Hk _ _ Hold) as [i [Hi Hsl]]. exists i. rewrite set_nth_length. split; [exact Hi|].
      rewrite hm_slot_set_nth by exact Hel. destruct (i =? e)%nat eqn:Ei; [|exact Hsl].
      apply Nat.eqb_eq in Ei. subst i. unfold is_free in Hfe. rewrite Hsl in Hfe. simpl in Hfe. apply Z.eqb_eq in Hfe.
      exfalso. (* the old pair would sit in a free slot: its hash would be 0 *)
      apply (Hzs k0); [change k0 with (fst (k0, v0)); apply in_map; exact Hold|exact Hfe].
    + inversion Hnew. subst. exists e. rewrite set_nth_length. split; [exact Hel|].
      rewrite hm_slot_set_nth by exact Hel. rewrite Nat.eqb_refl. reflexivity.
Qed.

(* ------------------------------------------------------------------ HashMap: the table is never full *)

Definition nfull {V} (T : htable V) : nat := length (filter (fun s => negb (hs_hash s =? 0)) T).

Lemma nfull_free {V} (T : htable V) : (nfull T < length T)%nat -> has_free T.
Proof.
  unfold nfull, has_free, is_free, hm_slot. induction T as [|s T IH]; simpl; [lia|].
  destruct (hs_hash s =? 0) eqn:E; simpl.
  - intros _. exists O. split; [lia|exact E].
  - intros H. destruct IH as [q [Hq Hf]]; [lia|]. exists (S q). split; [lia|exact Hf].
Qed.

Lemma nfull_set_nth {V} (T : htable V) p s : (nfull (set_nth p s T) <= S (nfull T))%nat.
Proof.
  unfold nfull. revert p. induction T as [|x T IH]; intros [|p]; simpl; try lia.
  - destruct (negb (hs_hash s =? 0)), (negb (hs_hash x =? 0)); simpl; lia.
  - specialize (IH p). destruct (negb (hs_hash x =? 0)); simpl; lia.
Qed.

Lemma nfull_new {V} n : nfull (@hm_new V n) = O.
Proof. unfold nfull, hm_new. induction n; simpl; [reflexivity|exact IHn]. Qed.

Lemma hm_set_nfull {V} (T : htable V) k v : (nfull (hm_set T k v) <= S (nfull T))%nat.
Proof. unfold hm_set. destruct (hm_probe_empty _ _ _); [apply nfull_set_nth|lia]. Qed.

Lemma hinv_new {V} n : hinv (@hm_new V n) [].
Proof.
  split; [|intros k v []]. intros i Hi Hne. exfalso. apply Hne. unfold hm_slot, hm_new.
  destruct (Nat.lt_ge_cases i n) as [H|H]; [rewrite nth_repeat; reflexivity|].
  rewrite nth_overflow by (rewrite repeat_length; exact H). reflexivity.
Qed.

Lemma nodup_app_l {A} (a b : list A) : NoDup (a ++ b) -> NoDup a.
Proof. induction a as [|x a IH]; simpl; intros H; [constructor|]. inversion H. subst. constructor; [rewrite in_app_iff in *; tauto|auto]. Qed.

(* guarded insertion as FieldNameMap.Build does it (`o := Get(k); if o == nil { Set(k, v) }`); for distinct keys the guard
   always lets the Set happen, so this also covers plain insertion *)
Definition hm_insert {V} (guard : bool) (T : htable V) (kv : key * V) : htable V :=
  if guard then match hm_get T (fst kv) with Some (Some _) => T | _ => hm_set T (fst kv) (snd kv) end
  else hm_set T (fst kv) (snd kv).

Lemma hm_fold_inv {V} guard (ins : list (key * V)) : forall (T : htable V) pre,
  hinv T pre -> NoDup (map fst (pre ++ ins)) -> (forall k0, In k0 (map fst (pre ++ ins)) -> djb k0 <> 0) ->
  (nfull T + length ins < length T)%nat ->
  let T' := fold_left (hm_insert guard) ins T in
  hinv T' (pre ++ ins) /\ length T' = length T /\ (nfull T' <= nfull T + length ins)%nat.
Proof.
  induction ins as [|[k v] ins IH]; intros T pre Hinv Hnd Hz Hn; cbn [fold_left].
  - rewrite app_nil_r. split; [exact Hinv|]. split; [reflexivity|lia].
  - assert (Hfree : has_free T) by (apply nfull_free; simpl in Hn; lia).
    assert (Hnd1 : NoDup (map fst (pre ++ [(k, v)]))).
    { replace (pre ++ (k, v) :: ins) with ((pre ++ [(k, v)]) ++ ins) in Hnd by (rewrite <- app_assoc; reflexivity).
      rewrite map_app in Hnd. apply nodup_app_l in Hnd. exact Hnd. }
    assert (Hnotin : ~ In k (map fst pre)).
    { rewrite map_app in Hnd1. simpl in Hnd1. apply NoDup_remove_2 in Hnd1. rewrite app_nil_r in Hnd1. exact Hnd1. }
    assert (Hstep : hm_insert guard T (k, v) = hm_set T k v).
    { unfold hm_insert. destruct guard; [|reflexivity]. cbn [fst snd].
      rewrite (hm_get_correct T pre k Hinv).
      - apply assoc_none_notin in Hnotin. rewrite Hnotin. reflexivity.
      - rewrite map_app in Hnd. apply nodup_app_l in Hnd. exact Hnd.
      - intros k0 H0. apply Hz. rewrite map_app, in_app_iff. left. exact H0.
      - exact Hfree. }
    rewrite Hstep.
    destruct (hm_set_inv T pre (pre ++ [(k, v)]) k v Hinv Hfree) as [Hinv' Hlen'].
    + apply Hz. rewrite map_app, in_app_iff. right. left. reflexivity.
    + intros k0 H0. apply Hz. rewrite map_app, in_app_iff. left. exact H0.
    + apply incl_appl. apply incl_refl.
    + apply in_or_app. right. left. reflexivity.
    + intros k0 v0 H0. apply in_app_or in H0. destruct H0 as [H0|[H0|[]]]; [left; exact H0|right; symmetry; exact H0].
    + pose proof (hm_set_nfull T k v) as Hnf.
      replace (pre ++ (k, v) :: ins) with ((pre ++ [(k, v)]) ++ ins) in * by (rewrite <- app_assoc; reflexivity).
      destruct (IH (hm_set T k v) (pre ++ [(k, v)]) Hinv' Hnd Hz) as [H1 [H2 H3]]; [simpl in Hn; lia|].
      split; [exact H1|]. split; [lia|]. simpl. lia.
Qed.

(* caching.HashMap used directly: Get after Set of all pairs, for EVERY byte string k.
   Hypotheses forced by the proof: no key hashes to 0 (hash 0 is the empty-slot marker), the table is larger than the key set. *)
Theorem hm_get_build {V} load (kvs : list (key * V)) k :
  NoDup (map fst kvs) -> (forall k0, In k0 (map fst kvs) -> djb k0 <> 0) -> (length kvs < length kvs * load)%nat ->
  hm_get (hm_build load kvs) k = Some (assoc k kvs).
Proof.
  intros Hnd Hz Hload. unfold hm_build.
  pose proof (hm_fold_inv false kvs (hm_new (length kvs * load)) [] (hinv_new _)) as H. cbn [app] in H.
  unfold hm_insert in H. destruct H as [H1 [H2 H3]]; [exact Hnd|exact Hz|rewrite nfull_new; unfold hm_new; rewrite repeat_length; lia|].
  apply hm_get_correct; [exact H1|exact Hnd|exact Hz|]. apply nfull_free.
  rewrite nfull_new in H3. unfold hm_new in H2 at 2. rewrite repeat_length in H2. rewrite H2. simpl in H3. lia.
Qed.

(* ------------------------------------------------------------------ FieldNameMap *)

Lemma fnm_of_list_all {V} (kvs : list (key * V)) :
  NoDup (map fst (fn_all (fnm_of_list kvs))) /\ (forall k, assoc k (fn_all (fnm_of_list kvs)) = assoc k (rev kvs)) /\
  fn_impl (fnm_of_list kvs) = FNone.
Proof.
  unfold fnm_of_list.
  assert (G : forall (kvs pre : list (key * V)) m, NoDup (map fst (fn_all m)) -> (forall k, assoc k (fn_all m) = assoc k (rev pre)) -> fn_impl m = FNone ->
     let m' := fold_left (fun m kv => fnm_set m (fst kv) (snd kv)) kvs m in
     NoDup (map fst (fn_all m')) /\ (forall k, assoc k (fn_all m') = assoc k (rev (pre ++ kvs))) /\ fn_impl m' = FNone).
  { clear kvs. induction kvs as [|[k v] kvs IH]; intros pre m Hnd Ha Hi; cbn [fold_left].
    - rewrite app_nil_r. auto.
    - replace (pre ++ (k, v) :: kvs) with ((pre ++ [(k, v)]) ++ kvs) by (rewrite <- app_assoc; reflexivity).
      apply IH; cbn [fnm_set fn_all fn_impl fst snd].
      + apply upsert_nodup. exact Hnd.
      + intros k'. rewrite upsert_assoc. rewrite rev_app_distr. cbn [rev app assoc]. rewrite Ha. reflexivity.
      + exact Hi. }
  apply (G kvs [] fnm_empty); [constructor|reflexivity|reflexivity].
Qed.

Lemma trie_get_with_empty {V} (t : trie V) e k :
  t_empty t = Some e -> trie_get (Trie (t_count t) (t_positions t) (Some e) (t_root t)) k = trie_get t k.
Proof. intros H. unfold trie_get. destruct k; [cbn [t_empty]; symmetry; exact H|reflexivity]. Qed.

(* FieldNameMap.Get after Build — whichever structure is chosen, before (fallback = false) or after (fallback = true) fix
   bd82c3d — for EVERY byte string k.  The only hypothesis is the one the hash path forces: if Build takes the hash path,
   no key may have DJB hash 0. *)
Theorem fnm_get_build_gen {V} fallback (m : fnmap V) k :
  fn_impl m = FNone -> NoDup (map fst (fn_all m)) ->
  (build_pos fallback (fn_maxlen m) (fn_all m) = None -> forall k0, In k0 (map fst (fn_all m)) -> djb k0 <> 0) ->
  fnm_get (fnm_build_gen fallback m) k = Some (assoc k (fn_all m)).
Proof.
  intros Hi Hnd Hz. unfold fnm_build_gen in *.
  destruct (fn_all m) as [|kv0 rest] eqn:Eall.
  - unfold fnm_get. rewrite Hi. reflexivity.
  - rewrite <- Eall in *. set (empty := if 0 <? fn_maxlen m then assoc [] (fn_all m) else None) in *.
    assert (Hempty : forall e, empty = Some e -> assoc [] (fn_all m) = Some e).
    { unfold empty. destruct (0 <? fn_maxlen m); [auto|discriminate]. }
    destruct (build_pos fallback (fn_maxlen m) (fn_all m)) as [p|].
    + unfold fnm_get. cbn [fn_impl]. f_equal.
      destruct empty as [e|] eqn:Ee.
      * rewrite trie_get_with_empty; [apply trie_get_build; exact Hnd|].
        pose proof (trie_get_build [Z.of_nat p] (fn_all m) [] Hnd) as H. unfold trie_get in H. rewrite H. apply Hempty. reflexivity.
      * apply trie_get_build. exact Hnd.
    + specialize (Hz eq_refl).
      unfold fnm_get. cbn [fn_impl].
      pose proof (hm_fold_inv true (fn_all m) (hm_new (length (fn_all m) * load_factor)) [] (hinv_new _)) as H. cbn [app] in H.
      assert (Hlen : (0 < length (fn_all m))%nat) by (rewrite Eall; simpl; lia).
      destruct H as [H1 [H2 H3]]; [exact Hnd|exact Hz|rewrite nfull_new; unfold hm_new, load_factor; rewrite repeat_length; lia|].
      unfold hm_insert in H1, H2, H3. rewrite nfull_new in H3. unfold hm_new in H2. rewrite repeat_length in H2.
      set (T := fold_left _ (fn_all m) _) in *.
      destruct empty as [e|] eqn:Ee.
      * assert (Hin : In ([], e) (fn_all m)) by (apply assoc_in; apply Hempty; reflexivity).
        destruct (hm_set_inv T (fn_all m) (fn_all m) [] e H1) as [H4 H5].
        -- apply nfull_free. rewrite H2. unfold load_factor. lia.
        -- apply Hz. change (@nil Z) with (fst (@nil Z, e)). apply in_map. exact Hin.
        -- exact Hz.
        -- apply incl_refl.
        -- exact Hin.
        -- intros; left; assumption.
        -- apply hm_get_correct; [exact H4|exact Hnd|exact Hz|]. apply nfull_free.
           pose proof (hm_set_nfull T [] e). rewrite H5, H2. unfold load_factor. lia.
      * apply hm_get_correct; [exact H1|exact Hnd|exact Hz|]. apply nfull_free. rewrite H2. unfold load_factor. lia.
Qed.

(* ---- the repaired Build never puts a key the hash map cannot hold on the hash path *)

Lemma hash_map_safe_djb k : hash_map_safe k = true -> djb k <> 0.
Proof. unfold hash_map_safe. intros H. apply andb_true_iff in H. destruct H as [_ H]. apply negb_true_iff in H. apply Z.eqb_neq. exact H. Qed.

Lemma distinct_at_pos {V} i (kvs : list (key * V)) : kvs <> [] -> (1 <= distinct_at i kvs)%nat.
Proof.
  destruct kvs as [|kv kvs]; [contradiction|]. intros _. unfold distinct_at.
  assert (In (char_at i (fst kv)) (nodup Z.eq_dec (map (fun kv0 => char_at i (fst kv0)) (kv :: kvs)))) by (apply nodup_In; left; reflexivity).
  destruct (nodup _ _); [destruct H|simpl; lia].
Qed.

Lemma best_scan_keeps {V} (kvs : list (key * V)) count pos : forall bn bd b, exists b', best_scan kvs count pos bn bd (Some b) = Some b'.
Proof.
  induction pos as [|i IH]; intros bn bd b; simpl; [eexists; reflexivity|].
  destruct (rat_lt count (Z.of_nat (distinct_at i kvs)) bn bd); apply IH.
Qed.

Lemma best_pos_some {V} maxlen (kvs : list (key * V)) : kvs <> [] -> (0 < Z.to_nat maxlen)%nat -> exists p, best_pos maxlen kvs = Some p.
Proof.
  intros Hne Hpos. unfold best_pos. destruct (Z.to_nat maxlen) as [|i]; [lia|]. simpl.
  pose proof (distinct_at_pos i kvs Hne) as Hl.
  assert (E : rat_lt (Z.of_nat (length kvs)) (Z.of_nat (distinct_at i kvs)) (Z.of_nat (length kvs) + 1) 1 = true).
  { unfold rat_lt. apply Z.ltb_lt. nia. }
  rewrite E. apply best_scan_keeps.
Qed.

(* the invariant of FieldNameMap.Set: maxKeyLength bounds every key *)
Definition fnm_wf {V} (m : fnmap V) : Prop := forall k, In k (map fst (fn_all m)) -> Z.of_nat (length k) <= fn_maxlen m.

Lemma build_pos_none_safe {V} (m : fnmap V) :
  fnm_wf m -> build_pos true (fn_maxlen m) (fn_all m) = None -> forall k0, In k0 (map fst (fn_all m)) -> djb k0 <> 0.
Proof.
  intros Hwf Hb k0 Hin. unfold build_pos in Hb. destruct (ideal_pos (fn_maxlen m) (fn_all m)); [discriminate|]. simpl in Hb.
  destruct (forallb (fun kv => hash_map_safe (fst kv)) (fn_all m)) eqn:Es.
  - rewrite forallb_forall in Es. apply in_map_iff in Hin. destruct Hin as [kv [<- Hin]]. apply hash_map_safe_djb. apply Es. exact Hin.
  - simpl in Hb. destruct (Nat.eq_dec (Z.to_nat (fn_maxlen m)) 0) as [E0|E0].
    + (* maxKeyLength = 0: every key is empty *)
      specialize (Hwf k0 Hin). destruct k0; [vm_compute; discriminate|]. simpl in Hwf. lia.
    + destruct (best_pos_some (fn_maxlen m) (fn_all m)) as [p Hp]; [|lia|congruence].
      intros E. rewrite E in Hin. destruct Hin.
Qed.

(* since fix bd82c3d: FieldNameMap.Get after Build = association list lookup for EVERY byte string, no hypothesis on the keys *)
Theorem fnm_get_build {V} (m : fnmap V) k :
  fn_impl m = FNone -> NoDup (map fst (fn_all m)) -> fnm_wf m -> fnm_get (fnm_build m) k = Some (assoc k (fn_all m)).
Proof.
  intros Hi Hnd Hwf. apply fnm_get_build_gen; [exact Hi|exact Hnd|]. apply build_pos_none_safe. exact Hwf.
Qed.

(* ... and whenever the hash map is used, every key in it is one it can hold (Go and native twin alike) *)
Theorem fnm_hash_only_safe {V} (m : fnmap V) :
  fnm_wf m -> fnm_uses_hash m = true -> forall k0, In k0 (map fst (fn_all m)) -> hash_map_safe k0 = true.
Proof.
  intros Hwf Hu k0 Hin. unfold fnm_uses_hash, fnm_build, fnm_build_gen in Hu.
  destruct (fn_all m) as [|kv0 rest] eqn:Eall; [destruct Hin|]. rewrite <- Eall in *.
  destruct (build_pos true (fn_maxlen m) (fn_all m)) eqn:Eb; [discriminate|].
  unfold build_pos in Eb. destruct (ideal_pos (fn_maxlen m) (fn_all m)); [discriminate|]. simpl in Eb.
  destruct (forallb (fun kv => hash_map_safe (fst kv)) (fn_all m)) eqn:Es.
  - rewrite forallb_forall in Es. apply in_map_iff in Hin. destruct Hin as [kv [<- Hin]]. apply Es. exact Hin.
  - simpl in Eb. destruct (Nat.eq_dec (Z.to_nat (fn_maxlen m)) 0) as [E0|E0].
    + specialize (Hwf k0 Hin). destruct k0; [vm_compute; reflexivity|]. simpl in Hwf. lia.
    + destruct (best_pos_some (fn_maxlen m) (fn_all m)) as [p Hp]; [|lia|congruence].
      intros E. rewrite E in Hin. destruct Hin.
Qed.

Lemma fnm_of_list_wf {V} (kvs : list (key * V)) : fnm_wf (fnm_of_list kvs).
Proof.
  unfold fnm_of_list.
  assert (G : forall (kvs : list (key * V)) m, fnm_wf m -> fnm_wf (fold_left (fun m kv => fnm_set m (fst kv) (snd kv)) kvs m)).
  { clear kvs. induction kvs as [|[k v] kvs IH]; intros m H; simpl; [exact H|]. apply IH.
    intros k' Hin. cbn [fnm_set fn_all fn_maxlen fst snd] in *. rewrite upsert_keys in Hin.
    assert (Hc : In k' (map fst (fn_all m)) \/ k' = k).
    { destruct (is_some (assoc k (fn_all m))); [left; exact Hin|]. apply in_app_or in Hin. destruct Hin as [Hin|[Hin|[]]]; auto. }
    destruct Hc as [Hc|Hc]; [specialize (H k' Hc); lia|subst; lia]. }
  apply G. intros k [].
Qed.

(* build_either_way for a map filled through FieldNameMap.Set (duplicates allowed: the last value of a key wins) *)
Theorem fnm_get_of_list {V} (kvs : list (key * V)) k :
  fnm_get (fnm_build (fnm_of_list kvs)) k = Some (assoc k (rev kvs)).
Proof.
  destruct (fnm_of_list_all kvs) as [Hnd [Ha Hi]]. rewrite <- Ha. apply fnm_get_build; [exact Hi|exact Hnd|apply fnm_of_list_wf].
Qed.

(* the code before the fix needed the hash-0 hypothesis (findings 1401) *)
Theorem fnm_get_of_list_prefix {V} (kvs : list (key * V)) k :
  (forall k0, In k0 (map fst kvs) -> djb k0 <> 0) ->
  fnm_get (fnm_build_prefix (fnm_of_list kvs)) k = Some (assoc k (rev kvs)).
Proof.
  intros Hz. destruct (fnm_of_list_all kvs) as [Hnd [Ha Hi]]. rewrite <- Ha. apply fnm_get_build_gen; [exact Hi|exact Hnd|].
  intros _ k0 Hin. apply Hz.
  destruct (assoc k0 (fn_all (fnm_of_list kvs))) eqn:E.
  - rewrite Ha in E. apply assoc_in in E. apply in_rev in E. change k0 with (fst (k0, v)). apply in_map. exact E.
  - apply assoc_none_notin in E. contradiction.
Qed.
