(* Correct rounding: the algorithm Num.fp_mag (hence dec2f64 / dec2f32) satisfies the decidable specification Num.fp_rounds_to
   (round to nearest, ties to the even pattern, subnormals, overflow to infinity) for EVERY decimal, and the specification
   determines the result.  Generic in the format (p, emin) with 2 <= p, emin <= 0, 1 <= 2 - emin - p. *)
From Coq Require Import ZArith List Bool Lia.
From DG Require Import Json Num FpExact.
Import ListNotations.
Local Open Scope Z_scope.

Lemma cmp_mul_r a b c : 0 < c -> (a * c ?= b * c) = (a ?= b).
Proof. intros H. symmetry. apply Zmult_compare_compat_r. lia. Qed.

Section Format.
  Variables p emin : Z.
  Hypothesis Hp : 2 <= p.
  Hypothesis Hemin : emin <= 0.
  Hypothesis Hrange : 1 <= 2 - emin - p.

  Let P := 2 ^ (p - 1).
  Lemma P_pos : 2 <= P.
  Proof. unfold P. replace (p - 1) with (Z.succ (p - 2)) by lia. rewrite Z.pow_succ_r by lia. pose proof (pow2_pos (p - 2) ltac:(lia)). lia. Qed.
  Lemma P_even : Z.even P = true.
  Proof. unfold P. replace (p - 1) with (Z.succ (p - 2)) by lia. rewrite Z.pow_succ_r by lia. rewrite Z.even_mul. reflexivity. Qed.
  Lemma pow_p : 2 ^ p = 2 * P.
  Proof. unfold P. rewrite <- Z.pow_succ_r by lia. f_equal. lia. Qed.

  Definition bitsof (k q : Z) : Z := (k - emin) * P + q.
  (* canonical representation of a pattern: exponent k >= emin and mantissa q, full width unless k = emin *)
  Definition canon (k q : Z) : Prop := (k = emin /\ 0 <= q < 2 * P) \/ (emin < k /\ P <= q < 2 * P).

  Lemma mant_expo k q : canon k q -> fp_mant p (bitsof k q) = q /\ fp_expo p emin (bitsof k q) = k.
  Proof.
    pose proof P_pos as HP. intros Hc. unfold fp_mant, fp_expo, bitsof. fold P.
    destruct (Z_lt_le_dec q P) as [Hq|Hq].
    - assert (k = emin) by (destruct Hc as [[? ?]|[? ?]]; lia). subst k.
      assert (0 <= q) by (destruct Hc as [[? ?]|[? ?]]; lia).
      replace ((emin - emin) * P + q) with q by lia.
      rewrite Z.div_small, Z.mod_small by lia. cbn. split; reflexivity.
    - assert (Hk : emin <= k) by (destruct Hc as [[? ?]|[? ?]]; lia).
      assert (Hq2 : q < 2 * P) by (destruct Hc as [[? ?]|[? ?]]; lia).
      assert (Ed : ((k - emin) * P + q) / P = k - emin + 1).
      { symmetry. apply (Z.div_unique _ _ _ (q - P)); lia. }
      assert (Em : ((k - emin) * P + q) mod P = q - P).
      { symmetry. apply (Z.mod_unique _ _ (k - emin + 1)); lia. }
      rewrite Ed, Em. destruct (Z.eqb_spec (k - emin + 1) 0); [lia|]. split; lia.
  Qed.

  (* ---- comparisons of x = N/D with dyadic numbers, all scaled to integers ---- *)
  Definition decN (m e : Z) : Z := if 0 <=? e then m * 10 ^ e else m.
  Definition decD (e : Z) : Z := if 0 <=? e then 1 else 10 ^ (- e).

  Lemma decD_pos e : 0 < decD e.
  Proof. unfold decD. destruct (Z.leb_spec 0 e); [lia|]. apply Z.pow_pos_nonneg; lia. Qed.

  Lemma cmp_scale m e M K a : 0 <= a -> 0 <= K + a ->
    cmp_dec_dyadic m e M K = (decN m e * 2 ^ a ?= M * 2 ^ (K + a) * decD e).
  Proof.
    intros Ha HKa. unfold cmp_dec_dyadic, decN, decD.
    assert (HD : (if e <? 0 then 10 ^ (- e) else 1) = (if 0 <=? e then 1 else 10 ^ (- e))).
    { destruct (Z.ltb_spec e 0), (Z.leb_spec 0 e); try lia; reflexivity. }
    rewrite HD. set (D := if 0 <=? e then 1 else 10 ^ (- e)).
    set (N := m * (if 0 <=? e then 10 ^ e else 1)).
    assert (HN : (if 0 <=? e then m * 10 ^ e else m) = N) by (unfold N; destruct (0 <=? e); lia).
    rewrite HN.
    destruct (Z.ltb_spec K 0) as [HK|HK]; destruct (Z.leb_spec 0 K) as [HK'|HK']; try lia.
    - (* K < 0 *)
      rewrite Z.mul_1_r.
      rewrite <- (cmp_mul_r _ _ (2 ^ (K + a))) by (apply pow2_pos; lia).
      replace (N * 2 ^ (- K) * 2 ^ (K + a)) with (N * 2 ^ a).
      + replace (M * D * 2 ^ (K + a)) with (M * 2 ^ (K + a) * D) by ring. reflexivity.
      + replace (N * 2 ^ (- K) * 2 ^ (K + a)) with (N * (2 ^ (- K) * 2 ^ (K + a))) by ring.
        rewrite <- Z.pow_add_r by lia. do 2 f_equal. lia.
    - rewrite Z.mul_1_r.
      rewrite <- (cmp_mul_r _ _ (2 ^ a)) by (apply pow2_pos; lia).
      replace (M * 2 ^ K * D * 2 ^ a) with (M * 2 ^ (K + a) * D); [reflexivity|].
      rewrite Z.pow_add_r by lia. ring.
  Qed.

  Section Decimal.
    Variables N D : Z.
    Hypothesis HN : 0 < N.
    Hypothesis HD : 0 < D.
    Definition numk (k : Z) : Z := if 0 <=? k then N else N * 2 ^ (- k).
    Definition denk (k : Z) : Z := if 0 <=? k then D * 2 ^ k else D.
    Lemma denk_pos k : 0 < denk k.
    Proof. unfold denk. destruct (Z.leb_spec 0 k); [pose proof (pow2_pos k ltac:(lia)); nia|lia]. Qed.

    (* X = N * 2^(1-emin): x in units of half the least quantum *)
    Definition X : Z := N * 2 ^ (1 - emin).
    Lemma X_den k : emin <= k -> X * denk k = 2 * numk k * 2 ^ (k - emin) * D.
    Proof.
      intros Hk. unfold X, numk, denk. destruct (Z.leb_spec 0 k) as [H0|H0].
      - replace (2 * N * 2 ^ (k - emin) * D) with (N * (2 ^ 1 * 2 ^ (k - emin)) * D) by (change (2 ^ 1) with 2; ring).
        rewrite <- Z.pow_add_r by lia. replace (N * 2 ^ (1 - emin) * (D * 2 ^ k)) with (N * (2 ^ (1 - emin) * 2 ^ k) * D) by ring.
        rewrite <- Z.pow_add_r by lia. do 3 f_equal. lia.
      - replace (2 * (N * 2 ^ (- k)) * 2 ^ (k - emin) * D) with (N * (2 ^ 1 * (2 ^ (- k) * 2 ^ (k - emin))) * D) by (change (2 ^ 1) with 2; ring).
        rewrite <- !Z.pow_add_r by lia. do 3 f_equal. lia.
    Qed.

    Lemma cmp_c k c : emin <= k -> (X ?= c * 2 ^ (k - emin) * D) = (2 * numk k ?= c * denk k).
    Proof.
      intros Hk. pose proof (denk_pos k) as Hd. pose proof (pow2_pos (k - emin) ltac:(lia)) as HG.
      rewrite <- (cmp_mul_r _ _ (denk k)) by exact Hd. rewrite X_den by exact Hk.
      replace (2 * numk k * 2 ^ (k - emin) * D) with (2 * numk k * (2 ^ (k - emin) * D)) by ring.
      replace (c * 2 ^ (k - emin) * D * denk k) with (c * denk k * (2 ^ (k - emin) * D)) by ring.
      apply cmp_mul_r. nia.
    Qed.
  End Decimal.

  (* successor of a canonical pair *)
  Definition nxt (k q : Z) : Z * Z := if q + 1 <? 2 * P then (k, q + 1) else (k + 1, P).
  Lemma nxt_ok k q : canon k q -> canon (fst (nxt k q)) (snd (nxt k q)) /\ bitsof k q + 1 = bitsof (fst (nxt k q)) (snd (nxt k q)).
  Proof.
    pose proof P_pos as HP. intros Hc. unfold nxt. destruct (Z.ltb_spec (q + 1) (2 * P)) as [H|H]; cbn [fst snd].
    - split; [|unfold bitsof; lia]. destruct Hc as [[? ?]|[? ?]]; [left|right]; lia.
    - assert (q = 2 * P - 1) by (destruct Hc as [[? ?]|[? ?]]; lia). subst q.
      split; [right; destruct Hc as [[? ?]|[? ?]]; lia | unfold bitsof; lia].
  Qed.

  (* the value of a canonical pair in units of the least quantum *)
  Definition W (k q : Z) : Z := q * 2 ^ (k - emin).

  Lemma mid_cmp m e k q : canon k q ->
    cmp_dec_dyadic m e (fst (fp_mid p emin (bitsof k q))) (snd (fp_mid p emin (bitsof k q))) =
    (X (decN m e) ?= (W k q + W (fst (nxt k q)) (snd (nxt k q))) * decD e).
  Proof.
    intros Hc. destruct (nxt_ok k q Hc) as [Hc2 Hb].
    destruct (mant_expo k q Hc) as [Hm1 He1].
    destruct (mant_expo _ _ Hc2) as [Hm2 He2].
    unfold fp_mid. cbv zeta. rewrite Hb, Hm1, He1, Hm2, He2. cbn [fst snd].
    set (k2 := fst (nxt k q)) in *. set (q2 := snd (nxt k q)) in *.
    assert (Hk : emin <= k) by (destruct Hc as [[? ?]|[? ?]]; lia).
    assert (Hk2 : k <= k2) by (unfold k2, nxt; destruct (q + 1 <? 2 * P); cbn; lia).
    rewrite (cmp_scale m e _ (k - 1) (1 - emin)) by lia. unfold X.
    replace (k - 1 + (1 - emin)) with (k - emin) by lia. unfold W.
    replace ((q + q2 * 2 ^ (k2 - k)) * 2 ^ (k - emin)) with (q * 2 ^ (k - emin) + q2 * (2 ^ (k2 - k) * 2 ^ (k - emin))) by ring.
    rewrite <- Z.pow_add_r by lia. replace (k2 - k + (k - emin)) with (k2 - emin) by lia. reflexivity.
  Qed.

  (* ---- the normalisation step of the algorithm: which exponent it picks and what the quotient looks like ---- *)
  Section Normalise.
    Variables N D : Z.
    Hypothesis HN : 0 < N.
    Hypothesis HD : 0 < D.
    Local Notation num := (numk N).
    Local Notation den := (denk D).

    Lemma scale_id k : num k * den (k + 1) = 2 * num (k + 1) * den k.
    Proof.
      unfold numk, denk. destruct (Z.leb_spec 0 k) as [H|H]; destruct (Z.leb_spec 0 (k + 1)) as [H1|H1]; try lia.
      - rewrite Z.pow_add_r by lia. change (2 ^ 1) with 2. ring.
      - assert (k = -1) by lia. subst k. change (- -1) with 1. change (-1 + 1) with 0. change (2 ^ 1) with 2. change (2 ^ 0) with 1. ring.
      - replace (- k) with (1 + - (k + 1)) by lia. rewrite Z.pow_add_r by lia. change (2 ^ 1) with 2. ring.
    Qed.

    Lemma scale_gen j k : j <= k -> num j * den k = 2 ^ (k - j) * num k * den j.
    Proof.
      intros Hjk. unfold numk, denk.
      destruct (Z.leb_spec 0 j) as [Hj|Hj]; destruct (Z.leb_spec 0 k) as [Hk|Hk]; try lia.
      - replace k with ((k - j) + j) at 1 by lia. rewrite Z.pow_add_r by lia. ring.
      - replace (k - j) with (- j + k) by lia. rewrite Z.pow_add_r by lia. ring.
      - replace (- j) with ((k - j) + - k) by lia. rewrite Z.pow_add_r by lia. ring.
    Qed.

    Let lN := Z.log2 N.
    Let lD := Z.log2 D.
    Let k0 := lN - lD - p.

    (* x / 2^k < 2^(p+1) for every k >= k0 *)
    Lemma upper_bound k : k0 <= k -> num k < 2 * (2 * P) * den k.
    Proof.
      intros Hk. destruct (Z.log2_spec N HN) as [_ HNu]. destruct (Z.log2_spec D HD) as [HDl _]. fold lN in HNu. fold lD in HDl.
      pose proof (Z.log2_nonneg N) as HlN. pose proof (Z.log2_nonneg D) as HlD. fold lN in HlN. fold lD in HlD.
      rewrite <- pow_p. unfold numk, denk.
      assert (H2 : 2 * 2 ^ p = 2 ^ (p + 1)) by (rewrite Z.pow_add_r by lia; change (2 ^ 1) with 2; ring).
      rewrite H2. destruct (Z.leb_spec 0 k) as [H|H].
      - apply Z.lt_le_trans with (2 ^ Z.succ lN); [exact HNu|].
        apply Z.le_trans with (2 ^ lD * 2 ^ (p + 1 + k)).
        + rewrite <- Z.pow_add_r by lia. apply Z.pow_le_mono_r; unfold k0 in Hk; lia.
        + rewrite Z.pow_add_r by lia. pose proof (pow2_pos (p + 1) ltac:(lia)). pose proof (pow2_pos k H). nia.
      - apply Z.lt_le_trans with (2 ^ Z.succ lN * 2 ^ (- k)); [pose proof (pow2_pos (- k) ltac:(lia)); nia|].
        apply Z.le_trans with (2 ^ lD * 2 ^ (p + 1)).
        + rewrite <- !Z.pow_add_r by lia. apply Z.pow_le_mono_r; unfold k0 in Hk; lia.
        + pose proof (pow2_pos (p + 1) ltac:(lia)). nia.
    Qed.

    (* x / 2^k0 >= 2^(p-1) *)
    Lemma lower_bound : P * den k0 <= num k0.
    Proof.
      destruct (Z.log2_spec N HN) as [HNl _]. destruct (Z.log2_spec D HD) as [_ HDu]. fold lN in HNl. fold lD in HDu.
      pose proof (Z.log2_nonneg N) as HlN. pose proof (Z.log2_nonneg D) as HlD. fold lN in HlN. fold lD in HlD.
      unfold numk, denk, P. destruct (Z.leb_spec 0 k0) as [H|H].
      - apply Z.le_trans with (2 ^ lN); [|exact HNl].
        apply Z.le_trans with (2 ^ (p - 1) * (2 ^ Z.succ lD * 2 ^ k0)).
        + pose proof (pow2_pos (p - 1) ltac:(lia)). pose proof (pow2_pos k0 H). nia.
        + rewrite <- !Z.pow_add_r by lia. apply Z.pow_le_mono_r; unfold k0; lia.
      - apply Z.le_trans with (2 ^ lN * 2 ^ (- k0)); [|pose proof (pow2_pos (- k0) ltac:(lia)); nia].
        apply Z.le_trans with (2 ^ (p - 1) * 2 ^ Z.succ lD).
        + pose proof (pow2_pos (p - 1) ltac:(lia)). nia.
        + rewrite <- !Z.pow_add_r by lia. apply Z.pow_le_mono_r; unfold k0; lia.
    Qed.

    Definition k1a : Z := Z.max k0 emin.
    Definition q1a : Z := num k1a / den k1a.
    Definition ka : Z := if 2 ^ p <=? q1a then k1a + 1 else k1a.
    Definition qa : Z := num ka / den ka.
    Definition ra : Z := num ka mod den ka.
    Definition rnd : Z := if 2 * ra <? den ka then qa else if den ka <? 2 * ra then qa + 1 else if Z.even qa then qa else qa + 1.
    Definition inf_bits : Z := (2 * (2 - emin - p) + 1) * P.

    Lemma fp_tail_eq : fp_tail p emin N D = if inf_bits <=? bitsof ka rnd then inf_bits else bitsof ka rnd.
    Proof.
      unfold fp_tail. cbv zeta. fold lN lD. fold k0. fold k1a.
      assert (E1 : (if 0 <=? k1a then N / (D * 2 ^ k1a) else N * 2 ^ (- k1a) / D) = q1a).
      { unfold q1a, numk, denk. destruct (0 <=? k1a); reflexivity. }
      rewrite E1. fold ka. reflexivity.
    Qed.

    Lemma ka_ge : emin <= ka.
    Proof. unfold ka, k1a. destruct (2 ^ p <=? q1a); lia. Qed.

    Lemma qa_spec : num ka = qa * den ka + ra /\ 0 <= ra < den ka.
    Proof.
      pose proof (denk_pos D HD ka) as Hd. unfold qa, ra. split; [rewrite Z.mul_comm; apply Z.div_mod; lia | apply Z.mod_pos_bound; lia].
    Qed.

    Lemma ka_canon : canon ka qa.
    Proof.
      pose proof P_pos as HP.
      assert (Hk01 : k0 <= k1a) by (unfold k1a; lia).
      pose proof (upper_bound k1a Hk01) as Hub.
      pose proof (denk_pos D HD k1a) as Hd1.
      assert (Hn1 : 0 <= num k1a).
      { unfold numk. destruct (0 <=? k1a); [lia|]. pose proof (pow2_pos (- k1a)). destruct (Z.leb_spec 0 (- k1a)); [specialize (H H0); nia|]. rewrite Z.pow_neg_r by lia. lia. }
      assert (Hq1 : 0 <= q1a < 2 * (2 * P)).
      { unfold q1a. split; [apply Z.div_pos; lia | apply Z.div_lt_upper_bound; lia]. }
      destruct (Z.leb_spec (2 * P) q1a) as [Hbig|Hsmall].
      - (* one more binade *)
        assert (Eka : ka = k1a + 1) by (unfold ka; rewrite pow_p; destruct (Z.leb_spec (2 * P) q1a); lia).
        unfold qa. rewrite Eka.
        right. pose proof (scale_id k1a) as Hid.
        pose proof (denk_pos D HD (k1a + 1)) as Hd2.
        assert (Hlo : 2 * P * den k1a <= num k1a).
        { apply Z.le_trans with (q1a * den k1a); [nia|]. unfold q1a. rewrite Z.mul_comm. apply Z.mul_div_le. lia. }
        split; [unfold k1a; lia|]. split.
        + apply Z.div_le_lower_bound; [lia|]. nia.
        + apply Z.div_lt_upper_bound; [lia|]. nia.
      - assert (Eka : ka = k1a) by (unfold ka; rewrite pow_p; destruct (Z.leb_spec (2 * P) q1a); lia).
        unfold qa. rewrite Eka. fold q1a.
        destruct (Z.eq_dec k1a emin) as [E|E].
        + left. split; [exact E | lia].
        + right. assert (Ek : k1a = k0) by (unfold k1a in *; lia). split; [unfold k1a in *; lia|]. split; [|lia].
          unfold q1a. rewrite Ek. apply Z.div_le_lower_bound; [rewrite <- Ek; lia|]. pose proof lower_bound. lia.
    Qed.
  End Normalise.

  (* ---- the midpoints around the pattern bitsof k q, as comparisons of 2*num with multiples of den ---- *)
  Section Mid.
    Variables m e : Z.
    Hypothesis Hm : 0 < m.
    Let N := decN m e.
    Let D := decD e.
    Lemma N_pos : 0 < N.
    Proof. unfold N, decN. destruct (Z.leb_spec 0 e); [assert (0 < 10 ^ e) by (apply Z.pow_pos_nonneg; lia); nia | lia]. Qed.
    Lemma D_pos : 0 < D.
    Proof. apply decD_pos. Qed.
    Local Notation num := (numk N).
    Local Notation den := (denk D).
    Definition cmpmid (b : Z) : comparison := cmp_dec_dyadic m e (fst (fp_mid p emin b)) (snd (fp_mid p emin b)).

    Lemma cmp_W k c : emin <= k -> (X N ?= c * 2 ^ (k - emin) * D) = (2 * num k ?= c * den k).
    Proof. apply cmp_c; [exact D_pos]. Qed.

    (* midpoint above bitsof k q, q below full width *)
    Lemma upper_cmp k q : canon k q -> cmpmid (bitsof k q) = (2 * num k ?= (2 * q + 1) * den k).
    Proof.
      pose proof P_pos as HP. intros Hc. unfold cmpmid. rewrite (mid_cmp m e k q Hc). fold N D.
      assert (Hk : emin <= k) by (destruct Hc as [[? ?]|[? ?]]; lia).
      rewrite <- cmp_W by exact Hk. f_equal. f_equal. unfold W, nxt.
      destruct (Z.ltb_spec (q + 1) (2 * P)) as [H|H]; cbn [fst snd].
      - ring.
      - assert (q = 2 * P - 1) by (destruct Hc as [[? ?]|[? ?]]; lia). subst q.
        replace (k + 1 - emin) with (1 + (k - emin)) by lia. rewrite Z.pow_add_r by lia. change (2 ^ 1) with 2. ring.
    Qed.

    (* midpoint above bitsof k (2P) = bitsof (k+1) P *)
    Lemma upper_cmp_top k : emin <= k -> cmpmid (bitsof k (2 * P)) = (2 * num k ?= (4 * P + 2) * den k).
    Proof.
      pose proof P_pos as HP. intros Hk.
      assert (Eb : bitsof k (2 * P) = bitsof (k + 1) P) by (unfold bitsof; lia). rewrite Eb.
      assert (Hc : canon (k + 1) P) by (right; lia).
      unfold cmpmid. rewrite (mid_cmp m e (k + 1) P Hc). fold N D.
      rewrite <- cmp_W by exact Hk. f_equal. f_equal. unfold W, nxt.
      destruct (Z.ltb_spec (P + 1) (2 * P)) as [H|H]; [|lia]. cbn [fst snd].
      replace (k + 1 - emin) with (1 + (k - emin)) by lia. rewrite Z.pow_add_r by lia. change (2 ^ 1) with 2. ring.
    Qed.

    (* midpoint below bitsof k q when the predecessor has the same exponent *)
    Lemma lower_cmp k q : emin <= k -> 1 <= q <= 2 * P -> (k = emin \/ P < q) ->
      cmpmid (bitsof k q - 1) = (2 * num k ?= (2 * q - 1) * den k).
    Proof.
      pose proof P_pos as HP. intros Hk Hq Hkq.
      assert (Eb : bitsof k q - 1 = bitsof k (q - 1)) by (unfold bitsof; lia). rewrite Eb.
      assert (Hc : canon k (q - 1)) by (destruct (Z.eq_dec k emin); [left|right]; lia).
      unfold cmpmid. rewrite (mid_cmp m e k (q - 1) Hc). fold N D.
      rewrite <- cmp_W by exact Hk. f_equal. f_equal. unfold W, nxt.
      replace (q - 1 + 1) with q by lia.
      destruct (Z.ltb_spec q (2 * P)) as [H|H]; cbn [fst snd].
      - ring.
      - assert (q = 2 * P) by lia. subst q.
        replace (k + 1 - emin) with (1 + (k - emin)) by lia. rewrite Z.pow_add_r by lia. change (2 ^ 1) with 2. ring.
    Qed.

    (* midpoint below bitsof k P for k > emin: the predecessor lives one binade lower *)
    Lemma lower_cmp_edge k : emin < k -> cmpmid (bitsof k P - 1) = (2 * num (k - 1) ?= (4 * P - 1) * den (k - 1)).
    Proof.
      pose proof P_pos as HP. intros Hk.
      assert (Eb : bitsof k P - 1 = bitsof (k - 1) (2 * P - 1)) by (unfold bitsof; lia). rewrite Eb.
      assert (Hc : canon (k - 1) (2 * P - 1)) by (destruct (Z.eq_dec (k - 1) emin); [left|right]; lia).
      unfold cmpmid. rewrite (mid_cmp m e (k - 1) (2 * P - 1) Hc). fold N D.
      rewrite <- cmp_W by lia. f_equal. f_equal. unfold W, nxt.
      destruct (Z.ltb_spec (2 * P - 1 + 1) (2 * P)) as [H|H]; [lia|]. cbn [fst snd].
      replace (k - 1 + 1 - emin) with (1 + (k - 1 - emin)) by lia. rewrite Z.pow_add_r by lia. change (2 ^ 1) with 2. ring.
    Qed.

    (* the specification after its early exits, with the midpoints as [cmpmid] *)
    Definition rt_core (b : Z) : bool :=
      (if b =? 0 then true else match cmpmid (b - 1) with Gt => true | Eq => Z.even b | Lt => false end) &&
      (if b =? inf_bits then true else match cmpmid b with Lt => true | Eq => Z.even b | Gt => false end).

    Lemma even_bitsof k q : Z.even (bitsof k q) = Z.even q.
    Proof. unfold bitsof. rewrite Z.even_add, Z.even_mul, P_even, orb_true_r. destruct (Z.even q); reflexivity. Qed.

    Lemma inf_even : Z.even inf_bits = true.
    Proof. unfold inf_bits. rewrite Z.even_mul, P_even. apply orb_true_r. Qed.

    Let k := ka N D.
    Let q := qa N D.
    Let r := ra N D.
    Let q' := rnd N D.

    Lemma core_facts : emin <= k /\ canon k q /\ num k = q * den k + r /\ 0 <= r < den k /\
      ((q' = q /\ (2 * r < den k \/ (2 * r = den k /\ Z.even q = true))) \/
       (q' = q + 1 /\ (den k < 2 * r \/ (2 * r = den k /\ Z.even q = false)))).
    Proof.
      pose proof (qa_spec N D D_pos) as [H1 H2]. split; [apply ka_ge|]. split; [apply ka_canon; [exact N_pos|exact D_pos]|].
      split; [exact H1|]. split; [exact H2|]. unfold q', rnd. fold k q r.
      destruct (Z.ltb_spec (2 * r) (den k)); [left; split; [reflexivity|left; assumption]|].
      destruct (Z.ltb_spec (den k) (2 * r)); [right; split; [reflexivity|left; assumption]|].
      destruct (Z.even q) eqn:E; [left|right]; (split; [reflexivity|right; split; [lia|reflexivity]]).
    Qed.

    (* the rounded pattern before the overflow test satisfies the specification whenever it is in range *)
    Lemma core_b0 : bitsof k q' <= inf_bits -> rt_core (bitsof k q') = true.
    Proof.
      pose proof P_pos as HP. destruct core_facts as (Hk & Hc & Hnum & Hr & Hq').
      pose proof (denk_pos D D_pos k) as Hden.
      intros Hle. unfold rt_core. rewrite even_bitsof.
      assert (Hq'r : 0 <= q' <= 2 * P /\ (k = emin \/ P <= q') /\ q <= q').
      { destruct Hc as [[? ?]|[? ?]]; destruct Hq' as [[-> _]|[-> _]]; lia. }
      destruct Hq'r as (Hq'1 & Hq'2 & Hqq').
      apply andb_true_iff. split.
      - (* lower neighbour *)
        destruct (Z.eqb_spec (bitsof k q') 0) as [|Hb0]; [reflexivity|].
        destruct (Z.eq_dec q' P) as [EP|NP]; [destruct (Z_lt_le_dec emin k) as [Hek|Hek]|].
        + (* first pattern of a binade: predecessor one binade lower *)
          rewrite EP, (lower_cmp_edge k Hek).
          assert (q = P) by (destruct Hc as [[? ?]|[? ?]]; lia).
          pose proof (scale_id N D (k - 1)) as Hid. replace (k - 1 + 1) with k in Hid by lia.
          pose proof (denk_pos D D_pos (k - 1)) as Hd1.
          assert (2 * P * den (k - 1) <= num (k - 1)) by nia.
          destruct (Z.compare_spec (2 * num (k - 1)) ((4 * P - 1) * den (k - 1))); try lia; reflexivity.
        + assert (Hke : k = emin) by lia. assert (Hq1 : 1 <= q') by lia.
          rewrite (lower_cmp k q' Hk (conj Hq1 (proj2 Hq'1)) (or_introl Hke)).
          destruct Hq' as [[E Hr']|[E Hr']]; rewrite E in *.
          * destruct (Z.compare_spec (2 * num k) ((2 * q - 1) * den k)); try nia; reflexivity.
          * destruct (Z.compare_spec (2 * num k) ((2 * (q + 1) - 1) * den k)) as [He|He|He]; try reflexivity.
            -- destruct Hr' as [?|[? Hev]]; [nia|]. rewrite Z.even_add, Hev. reflexivity.
            -- exfalso. destruct Hr' as [?|[? ?]]; nia.
        + assert (Hcond : k = emin \/ P < q') by lia.
          assert (Hq1 : 1 <= q') by (destruct (Z.eq_dec q' 0) as [E0|]; [subst q'; unfold bitsof in Hb0; rewrite E0 in Hb0; destruct Hcond; nia | lia]).
          rewrite (lower_cmp k q' Hk (conj Hq1 (proj2 Hq'1)) Hcond).
          destruct Hq' as [[E Hr']|[E Hr']]; rewrite E in *.
          * destruct (Z.compare_spec (2 * num k) ((2 * q - 1) * den k)); try nia; reflexivity.
          * destruct (Z.compare_spec (2 * num k) ((2 * (q + 1) - 1) * den k)) as [He|He|He]; try reflexivity.
            -- destruct Hr' as [?|[? Hev]]; [nia|]. rewrite Z.even_add, Hev. reflexivity.
            -- exfalso. destruct Hr' as [?|[? ?]]; nia.
      - (* upper neighbour *)
        destruct (Z.eqb_spec (bitsof k q') inf_bits) as [|Hbi]; [reflexivity|].
        destruct (Z.eq_dec q' (2 * P)) as [E2|N2].
        + rewrite E2, (upper_cmp_top k Hk).
          assert (q = 2 * P - 1) by (destruct Hc as [[? ?]|[? ?]]; destruct Hq' as [[? _]|[? _]]; lia).
          destruct (Z.compare_spec (2 * num k) ((4 * P + 2) * den k)); try nia; reflexivity.
        + assert (Hcq : canon k q') by (destruct Hq'2; [left|destruct (Z.eq_dec k emin); [left|right]]; lia).
          rewrite (upper_cmp k q' Hcq).
          destruct Hq' as [[E Hr']|[E Hr']]; rewrite E in *.
          * destruct (Z.compare_spec (2 * num k) ((2 * q + 1) * den k)) as [He|He|He]; try reflexivity.
            -- destruct Hr' as [?|[? Hev]]; [nia|exact Hev].
            -- exfalso. destruct Hr' as [?|[? ?]]; nia.
          * destruct (Z.compare_spec (2 * num k) ((2 * (q + 1) + 1) * den k)); try nia; reflexivity.
    Qed.

    Lemma inf_as_bits : inf_bits = bitsof (emin + 2 * (2 - emin - p)) P.
    Proof. unfold inf_bits, bitsof. ring. Qed.

    Lemma bitsof_nonneg : 0 <= bitsof k q'.
    Proof.
      pose proof P_pos as HP. destruct core_facts as (Hk & Hc & _ & _ & Hq'). unfold bitsof.
      assert (0 <= q') by (destruct Hc as [[? ?]|[? ?]]; destruct Hq' as [[-> _]|[-> _]]; lia). nia.
    Qed.

    (* overflow: the rounded pattern lies beyond the infinity pattern *)
    Lemma core_capped : inf_bits < bitsof k q' -> rt_core inf_bits = true.
    Proof.
      pose proof P_pos as HP. destruct core_facts as (Hk & Hc & Hnum & Hr & Hq').
      pose proof (denk_pos D D_pos k) as Hden.
      intros Hlt. set (kI := emin + 2 * (2 - emin - p)).
      assert (HkI : emin < kI) by (unfold kI; lia).
      assert (Hq'u : q' <= 2 * P) by (destruct Hc as [[? ?]|[? ?]]; destruct Hq' as [[-> _]|[-> _]]; lia).
      assert (HkkI : kI <= k).
      { rewrite inf_as_bits in Hlt. fold kI in Hlt. unfold bitsof in Hlt. nia. }
      assert (HqP : P <= q) by (destruct Hc as [[? ?]|[? ?]]; lia).
      unfold rt_core. rewrite Z.eqb_refl, andb_true_r.
      destruct (Z.eqb_spec inf_bits 0) as [|_]; [reflexivity|].
      rewrite inf_as_bits. fold kI. rewrite (lower_cmp_edge kI HkI).
      pose proof (scale_gen N D (kI - 1) k ltac:(lia)) as Hsc.
      pose proof (denk_pos D D_pos (kI - 1)) as Hd1.
      assert (H2 : 2 <= 2 ^ (k - (kI - 1))).
      { change 2 with (2 ^ 1) at 1. apply Z.pow_le_mono_r; lia. }
      assert (Hge : 2 * P * den (kI - 1) <= num (kI - 1)).
      { apply Z.mul_le_mono_pos_r with (p := den k); [exact Hden|]. rewrite Hsc.
        assert (P * den k <= num k) by nia.
        apply Z.le_trans with (2 * (P * den k) * den (kI - 1)); [lia|].
        apply Z.mul_le_mono_nonneg_r; [lia|]. nia. }
      destruct (Z.compare_spec (2 * num (kI - 1)) ((4 * P - 1) * den (kI - 1))); try lia; reflexivity.
    Qed.

    Lemma core_correct : let b := fp_tail p emin N D in 0 <= b <= inf_bits /\ rt_core b = true.
    Proof.
      cbv zeta. rewrite (fp_tail_eq N D). fold k q'. pose proof bitsof_nonneg as H0.
      assert (Hinf : 0 < inf_bits) by (unfold inf_bits; pose proof P_pos; nia).
      destruct (Z.leb_spec inf_bits (bitsof k q')) as [Hc|Hc].
      - split; [lia|]. destruct (Z.eq_dec (bitsof k q') inf_bits) as [E|E].
        + rewrite <- E. apply core_b0. lia.
        + apply core_capped. lia.
      - split; [lia|]. apply core_b0. lia.
    Qed.
  End Mid.

  Lemma fp_rounds_to_unfold m e b : fp_rounds_to p emin m e b =
    if (b <? 0) || (inf_bits <? b) then false else
    if m <=? 0 then b =? 0 else
    if e + Z.log2 m / 3 + 1 <? (emin - p) / 3 - 8 then b =? 0 else
    if (2 - emin) / 3 + 8 <? e then b =? inf_bits else rt_core m e b.
  Proof.
    unfold fp_rounds_to, rt_core, cmpmid, inf_bits. fold P.
    destruct (fp_mid p emin (b - 1)) as [M1 K1]. destruct (fp_mid p emin b) as [M2 K2]. reflexivity.
  Qed.

  Theorem fp_mag_correct : forall m e, fp_rounds_to p emin m e (fp_mag p emin m e) = true.
  Proof.
    intros m e. rewrite fp_mag_unfold, fp_rounds_to_unfold.
    assert (Hinf : 0 < inf_bits) by (unfold inf_bits; pose proof P_pos; nia).
    destruct (Z.leb_spec m 0) as [Hm|Hm].
    - destruct (Z.ltb_spec 0 0); [lia|]. destruct (Z.ltb_spec inf_bits 0); [lia|]. reflexivity.
    - destruct (e + Z.log2 m / 3 + 1 <? (emin - p) / 3 - 8).
      + destruct (Z.ltb_spec 0 0); [lia|]. destruct (Z.ltb_spec inf_bits 0); [lia|]. reflexivity.
      + destruct ((2 - emin) / 3 + 8 <? e).
        * fold P. fold inf_bits. destruct (Z.ltb_spec inf_bits 0); [lia|]. destruct (Z.ltb_spec inf_bits inf_bits); [lia|].
          cbn [orb]. apply Z.eqb_refl.
        * destruct (core_correct m e Hm) as [[Hb0 Hb1] Hrt]. fold (decN m e) (decD e).
          destruct (Z.ltb_spec (fp_tail p emin (decN m e) (decD e)) 0); [lia|].
          destruct (Z.ltb_spec inf_bits (fp_tail p emin (decN m e) (decD e))); [lia|]. exact Hrt.
  Qed.

  (* ---- uniqueness: the specification admits at most one pattern ---- *)
  Lemma rep_ok b : 0 <= b -> canon (fp_expo p emin b) (fp_mant p b) /\ bitsof (fp_expo p emin b) (fp_mant p b) = b.
  Proof.
    pose proof P_pos as HP. intros Hb. unfold fp_expo, fp_mant, bitsof. fold P.
    pose proof (Z.div_mod b P ltac:(lia)) as Hdm. pose proof (Z.mod_pos_bound b P ltac:(lia)) as Hmod.
    assert (Hdiv : 0 <= b / P) by (apply Z.div_pos; lia).
    destruct (Z.eqb_spec (b / P) 0) as [E|E].
    - split; [left; split; [reflexivity|lia]|]. rewrite E in Hdm. lia.
    - split; [destruct (Z.eq_dec (b / P) 1); [left|right]; lia|]. nia.
  Qed.

  (* value of a pattern in units of the least quantum, and its quantum *)
  Definition Wb (b : Z) : Z := fp_mant p b * 2 ^ (fp_expo p emin b - emin).
  Definition Gb (b : Z) : Z := 2 ^ (fp_expo p emin b - emin).

  Lemma Gb_pos b : 0 <= b -> 0 < Gb b.
  Proof. intros Hb. destruct (rep_ok b Hb) as [Hc _]. unfold Gb. apply pow2_pos. destruct Hc as [[? ?]|[? ?]]; lia. Qed.

  Lemma Wb_succ b : 0 <= b -> Wb (b + 1) = Wb b + Gb b.
  Proof.
    pose proof P_pos as HP. intros Hb. destruct (rep_ok b Hb) as [Hc Hbits].
    destruct (nxt_ok _ _ Hc) as [Hc2 Hb2]. rewrite Hbits in Hb2.
    destruct (mant_expo _ _ Hc2) as [Hm2 He2]. rewrite <- Hb2 in Hm2, He2.
    unfold Wb, Gb. rewrite Hm2, He2. set (k := fp_expo p emin b) in *. set (q := fp_mant p b) in *.
    assert (Hk : emin <= k) by (destruct Hc as [[? ?]|[? ?]]; lia).
    unfold nxt. destruct (Z.ltb_spec (q + 1) (2 * P)) as [H|H]; cbn [fst snd].
    - ring.
    - assert (q = 2 * P - 1) by (destruct Hc as [[? ?]|[? ?]]; lia).
      replace (k + 1 - emin) with (1 + (k - emin)) by lia. rewrite Z.pow_add_r by lia. change (2 ^ 1) with 2. nia.
  Qed.

  Definition Sb (b : Z) : Z := Wb b + Wb (b + 1).

  Lemma Sb_succ b : 0 <= b -> Sb b < Sb (b + 1).
  Proof.
    intros Hb. unfold Sb. rewrite (Wb_succ (b + 1)) by lia. rewrite (Wb_succ b) by lia.
    pose proof (Gb_pos b Hb). pose proof (Gb_pos (b + 1) ltac:(lia)). lia.
  Qed.

  Lemma Sb_mono a b : 0 <= a -> a < b -> Sb a < Sb b.
  Proof.
    intros Ha Hab. replace b with (a + 1 + Z.of_nat (Z.to_nat (b - a - 1))) by lia.
    induction (Z.to_nat (b - a - 1)) as [|n IH].
    - rewrite Z.add_0_r. apply Sb_succ. exact Ha.
    - rewrite Nat2Z.inj_succ. replace (a + 1 + Z.succ (Z.of_nat n)) with (a + 1 + Z.of_nat n + 1) by lia.
      apply Z.lt_trans with (Sb (a + 1 + Z.of_nat n)); [exact IH | apply Sb_succ; lia].
  Qed.

  Lemma cmpmid_Sb m e b : 0 <= b -> cmpmid m e b = (X (decN m e) ?= Sb b * decD e).
  Proof.
    intros Hb. destruct (rep_ok b Hb) as [Hc Hbits]. unfold cmpmid. rewrite <- Hbits at 1 2. rewrite (mid_cmp m e _ _ Hc).
    destruct (nxt_ok _ _ Hc) as [Hc2 Hb2]. rewrite Hbits in Hb2.
    destruct (mant_expo _ _ Hc2) as [Hm2 He2]. rewrite <- Hb2 in Hm2, He2.
    unfold Sb, Wb, W. rewrite Hm2, He2. reflexivity.
  Qed.

  Lemma rt_core_unique m e b b' : 0 <= b -> b < b' -> b' <= inf_bits ->
    rt_core m e b = true -> rt_core m e b' = true -> False.
  Proof.
    intros Hb Hlt Hb' H1 H2. unfold rt_core in H1, H2.
    apply andb_true_iff in H1. destruct H1 as [_ Hu]. apply andb_true_iff in H2. destruct H2 as [Hl _].
    destruct (Z.eqb_spec b inf_bits) as [|_]; [lia|].
    destruct (Z.eqb_spec b' 0) as [|_]; [lia|].
    rewrite (cmpmid_Sb m e b Hb) in Hu. rewrite (cmpmid_Sb m e (b' - 1) ltac:(lia)) in Hl.
    pose proof (decD_pos e) as HD.
    destruct (Z.eq_dec b (b' - 1)) as [E|E].
    - rewrite <- E in Hl.
      destruct (Z.compare_spec (X (decN m e)) (Sb b * decD e)); try discriminate.
      (* a tie: both neighbours would have to be even *)
      assert (b' = b + 1) by lia. subst b'. rewrite Z.even_add in Hl. rewrite Hu in Hl. discriminate.
    - pose proof (Sb_mono b (b' - 1) Hb ltac:(lia)) as Hm.
      destruct (Z.compare_spec (X (decN m e)) (Sb b * decD e)); destruct (Z.compare_spec (X (decN m e)) (Sb (b' - 1) * decD e)); try discriminate; nia.
  Qed.

  Theorem fp_rounds_to_unique : forall m e b, fp_rounds_to p emin m e b = true -> b = fp_mag p emin m e.
  Proof.
    intros m e b H. pose proof (fp_mag_correct m e) as Hc. rewrite fp_rounds_to_unfold in H, Hc. rewrite fp_mag_unfold in *.
    destruct (Z.ltb_spec b 0) as [|Hb0]; [discriminate|]. destruct (Z.ltb_spec inf_bits b) as [|Hbi]; [discriminate|]. cbn [orb] in H.
    destruct (m <=? 0); [apply Z.eqb_eq in H; exact H|].
    destruct (e + Z.log2 m / 3 + 1 <? (emin - p) / 3 - 8); [apply Z.eqb_eq in H; exact H|].
    destruct ((2 - emin) / 3 + 8 <? e); [apply Z.eqb_eq in H; fold P; fold inf_bits; exact H|].
    set (b' := fp_tail p emin (if 0 <=? e then m * 10 ^ e else m) (if 0 <=? e then 1 else 10 ^ (- e))) in *.
    destruct (Z.ltb_spec b' 0) as [|Hb0']; [discriminate|]. destruct (Z.ltb_spec inf_bits b') as [|Hbi']; [discriminate|]. cbn [orb] in Hc.
    destruct (Z.lt_trichotomy b b') as [Hlt|[Heq|Hgt]]; [|exact Heq|].
    - exfalso. exact (rt_core_unique m e b b' Hb0 Hlt Hbi' H Hc).
    - exfalso. exact (rt_core_unique m e b' b Hb0' Hgt Hbi Hc H).
  Qed.
End Format.
