(* (G) theorems about the definitions generated from proto/binary/binary.go:
   the scalar reader selected by ReadBaseTypeWithDesc inverts the writer selected by
   WriteBaseTypeWithDesc, for every scalar kind and every value of the kind's Go type. *)
From Coq Require Import ZArith List Bool Lia.
From DG Require Import GoSem GoSemLemmas ProtoWireRef ProtoWireRefProofs Gen_protowire GenProtowireProofs Gen_proto Gen_protobinary.
Import ListNotations.
Local Open Scope Z_scope.

Definition in_gotype (g : Z * Z) (v : Z) : Prop :=
  let '(c, w) := g in
  if c =? 0 then 0 <= v < 2 ^ w
  else if c =? 1 then - 2 ^ (w - 1) <= v < 2 ^ (w - 1)
  else if c =? 2 then v = 0 \/ v = 1
  else if c =? 3 then 0 <= v < 2 ^ w
  else False.

Definition scalar_kinds : list Z := [8; 14; 5; 17; 13; 3; 18; 4; 15; 7; 2; 16; 6; 1].

Lemma bytes_ok_app a b : bytes_ok a -> bytes_ok b -> bytes_ok (a ++ b).
Proof. unfold bytes_ok. intros. apply Forall_app. auto. Qed.

Lemma next_after_write buf e :
  0 < blen e -> blen buf + blen e < 2 ^ 63 ->
  BinaryProtocol_next (buf ++ e) (blen buf) (blen e) = (slice_range (buf ++ e) (blen buf) (blen buf + blen e), 0, buf ++ e, blen buf + blen e).
Proof.
  intros He Hmax. unfold BinaryProtocol_next. cbv zeta.
  destruct (Z.leb_spec (blen e) 0); [lia|].
  pose proof (blen_nonneg buf). change (2 ^ 63) with 9223372036854775808 in Hmax.
  rewrite blen_app.
  rewrite !wraps_small by (try change (2 ^ (64 - 1)) with 9223372036854775808; lia).
  destruct (Z.gtb_spec (blen e) (blen buf + blen e - blen buf)); [lia|]. reflexivity.
Qed.

Lemma varint_len_pos v : 0 < blen (varint_enc v).
Proof. unfold blen, varint_enc. pose proof (venc_length_bounds 9 v). lia. Qed.

Lemma varint_len_le v : blen (varint_enc v) <= 10.
Proof. unfold blen, varint_enc. pose proof (venc_length_bounds 9 v). lia. Qed.

(* reading a varint right after it has been appended *)
Lemma consume_after_append buf x : bytes_ok buf -> 0 <= x < 2 ^ 64 ->
  ConsumeVarint (slice_from (buf ++ varint_enc x) (blen buf)) = (x, blen (varint_enc x)).
Proof.
  intros Hb Hx. rewrite slice_from_app.
  rewrite ConsumeVarint_ref by (apply varint_enc_bytes_ok; exact Hx).
  rewrite <- (app_nil_r (varint_enc x)) at 1. rewrite varint_dec_enc by exact Hx. reflexivity.
Qed.

Lemma fixed_after_append n buf x : bytes_ok buf -> 0 <= x < 256 ^ Z.of_nat n ->
  slice_from (buf ++ le_enc n x) (blen buf) = le_enc n x /\ le_dec n (le_enc n x) = x /\ blen (le_enc n x) = Z.of_nat n.
Proof.
  intros Hb Hx. rewrite slice_from_app. split; [reflexivity|]. split.
  - rewrite <- (app_nil_r (le_enc n x)). apply le_dec_enc. exact Hx.
  - unfold blen. rewrite le_enc_length. reflexivity.
Qed.

Ltac consts :=
  change (2 ^ 64) with 18446744073709551616 in *; change (2 ^ 63) with 9223372036854775808 in *;
  change (2 ^ (64 - 1)) with 9223372036854775808 in *; change (2 ^ 32) with 4294967296 in *;
  change (2 ^ (32 - 1)) with 2147483648 in *; change (2 ^ 31) with 2147483648 in *;
  change (2 ^ 62) with 4611686018427387904 in *; change (2 ^ 8) with 256 in *; change (2 ^ (8 - 1)) with 128 in *;
  change (2 ^ 1) with 2 in *.

Ltac wrap_arith := unfold wraps, wrapu; consts; Z.div_mod_to_equations; lia.

(* one varint-coded kind: the written value is [enc v], the reader applies [dec] to the raw varint *)
Lemma varint_kind_roundtrip buf x :
  bytes_ok buf -> blen buf < 2 ^ 62 -> 0 <= x < 2 ^ 64 ->
  let buf' := AppendVarint buf x in
  bytes_ok buf' /\
  ConsumeVarint (slice_from buf' (blen buf)) = (x, blen (varint_enc x)) /\
  BinaryProtocol_next buf' (blen buf) (blen (varint_enc x)) =
    (slice_range buf' (blen buf) (blen buf + blen (varint_enc x)), 0, buf', blen buf') .
Proof.
  intros Hb Hl Hx. cbv zeta. rewrite AppendVarint_ref by exact Hx.
  split; [apply bytes_ok_app; [exact Hb|apply varint_enc_bytes_ok; exact Hx]|].
  split; [apply consume_after_append; assumption|].
  rewrite next_after_write.
  - rewrite blen_app. reflexivity.
  - apply varint_len_pos.
  - pose proof (varint_len_le x). consts. lia.
Qed.

Lemma fixed32_kind_roundtrip buf x :
  bytes_ok buf -> blen buf < 2 ^ 62 -> 0 <= x < 2 ^ 32 ->
  let buf' := AppendFixed32 buf x in
  bytes_ok buf' /\
  ConsumeFixed32 (slice_from buf' (blen buf)) = (x, 4) /\
  BinaryProtocol_next buf' (blen buf) 4 = (slice_range buf' (blen buf) (blen buf + 4), 0, buf', blen buf').
Proof.
  intros Hb Hl Hx. cbv zeta. rewrite AppendFixed32_ref by lia.
  assert (Hx' : 0 <= x < 256 ^ Z.of_nat 4) by (change (256 ^ Z.of_nat 4) with (2 ^ 32); exact Hx).
  destruct (fixed_after_append 4 buf x Hb Hx') as (Hs & Hd & Hlen).
  split; [apply bytes_ok_app; [exact Hb|apply le_enc_bytes_ok]|].
  split.
  - rewrite Hs. rewrite ConsumeFixed32_ref by apply le_enc_bytes_ok. rewrite Hlen. cbn [Z.ltb Z.of_nat Pos.of_succ_nat Pos.succ Z.compare Pos.compare Pos.compare_cont].
    rewrite Hd. reflexivity.
  - change 4 with (Z.of_nat 4). rewrite <- Hlen. rewrite next_after_write.
    + rewrite blen_app. reflexivity.
    + lia.
    + rewrite Hlen. consts. lia.
Qed.

Lemma fixed64_kind_roundtrip buf x :
  bytes_ok buf -> blen buf < 2 ^ 62 -> 0 <= x < 2 ^ 64 ->
  let buf' := AppendFixed64 buf x in
  bytes_ok buf' /\
  ConsumeFixed64 (slice_from buf' (blen buf)) = (x, 8) /\
  BinaryProtocol_next buf' (blen buf) 8 = (slice_range buf' (blen buf) (blen buf + 8), 0, buf', blen buf').
Proof.
  intros Hb Hl Hx. cbv zeta. rewrite AppendFixed64_ref by lia.
  assert (Hx' : 0 <= x < 256 ^ Z.of_nat 8) by (change (256 ^ Z.of_nat 8) with (2 ^ 64); exact Hx).
  destruct (fixed_after_append 8 buf x Hb Hx') as (Hs & Hd & Hlen).
  split; [apply bytes_ok_app; [exact Hb|apply le_enc_bytes_ok]|].
  split.
  - rewrite Hs. rewrite ConsumeFixed64_ref by apply le_enc_bytes_ok. rewrite Hlen. cbn [Z.ltb Z.of_nat Pos.of_succ_nat Pos.succ Z.compare Pos.compare Pos.compare_cont].
    rewrite Hd. reflexivity.
  - change 8 with (Z.of_nat 8). rewrite <- Hlen. rewrite next_after_write.
    + rewrite blen_app. reflexivity.
    + lia.
    + rewrite Hlen. consts. lia.
Qed.

Ltac unfold_rw :=
  unfold BinaryProtocol_WriteBool, BinaryProtocol_WriteEnum, BinaryProtocol_WriteInt32, BinaryProtocol_WriteSint32,
    BinaryProtocol_WriteUint32, BinaryProtocol_WriteInt64, BinaryProtocol_WriteSint64, BinaryProtocol_WriteUint64,
    BinaryProtocol_WriteSfixed32, BinaryProtocol_WriteFixed32, BinaryProtocol_WriteFloat, BinaryProtocol_WriteSfixed64,
    BinaryProtocol_WriteFixed64, BinaryProtocol_WriteDouble,
    BinaryEncoder_EncodeBool, BinaryEncoder_EncodeEnum, BinaryEncoder_EncodeInt32, BinaryEncoder_EncodeSint32,
    BinaryEncoder_EncodeUint32, BinaryEncoder_EncodeInt64, BinaryEncoder_EncodeSint64, BinaryEncoder_EncodeUint64,
    BinaryEncoder_EncodeSfixed32, BinaryEncoder_EncodeFixed32, BinaryEncoder_EncodeFloat32, BinaryEncoder_EncodeSfixed64,
    BinaryEncoder_EncodeFixed64, BinaryEncoder_EncodeDouble,
    BinaryProtocol_ReadBool, BinaryProtocol_ReadEnum, BinaryProtocol_ReadInt32, BinaryProtocol_ReadSint32,
    BinaryProtocol_ReadUint32, BinaryProtocol_ReadInt64, BinaryProtocol_ReadSint64, BinaryProtocol_ReadUint64,
    BinaryProtocol_ReadSfixed32, BinaryProtocol_ReadFixed32, BinaryProtocol_ReadFloat, BinaryProtocol_ReadSfixed64,
    BinaryProtocol_ReadFixed64, BinaryProtocol_ReadDouble,
    BinaryDecoder_DecodeBool, BinaryDecoder_DecodeInt32, BinaryDecoder_DecodeSint32,
    BinaryDecoder_DecodeUint32, BinaryDecoder_DecodeInt64, BinaryDecoder_DecodeSint64, BinaryDecoder_DecodeUint64,
    BinaryDecoder_DecodeSfixed32, BinaryDecoder_DecodeFixed32, BinaryDecoder_DecodeFloat32, BinaryDecoder_DecodeSfixed64,
    BinaryDecoder_DecodeFixed64, BinaryDecoder_DecodeDouble in *.

Ltac kind_start Hg Hv :=
  cbn in Hg; inversion Hg; subst; clear Hg; cbn in Hv;
  cbn [WriteBase_scalar ReadBase_scalar Z.eqb Pos.eqb]; cbv zeta; unfold_rw.

Ltac varint_case fin :=
  eexists; split; [reflexivity|];
  match goal with |- context [AppendVarint ?buf ?x] =>
    let Hx := fresh "Hx" in
    assert (Hx : 0 <= x < 2 ^ 64) by fin;
    let Hok := fresh "Hok" in let Hc := fresh "Hc" in let Hn := fresh "Hn" in
    destruct (varint_kind_roundtrip buf x ltac:(assumption) ltac:(assumption) Hx) as (Hok & Hc & Hn);
    cbv zeta in Hok, Hc, Hn;
    split; [exact Hok|]; split; [reflexivity|];
    rewrite Hc; pose proof (varint_len_pos x);
    destruct (Z.ltb_spec (blen (varint_enc x)) 0); [lia|];
    rewrite Hn
  end.

Ltac fixed_go lem buf x fin :=
    let Hok := fresh "Hok" in let Hc := fresh "Hc" in let Hn := fresh "Hn" in
    destruct (lem buf x ltac:(assumption) ltac:(assumption) ltac:(fin)) as (Hok & Hc & Hn);
    cbv zeta in Hok, Hc, Hn;
    split; [exact Hok|]; split; [reflexivity|];
    rewrite Hc; cbn [Z.ltb Z.compare]; rewrite Hn.

Ltac fixed_case lem fin :=
  eexists; split; [reflexivity|];
  lazymatch goal with
  | |- context [AppendFixed32 ?buf ?x] => fixed_go lem buf x fin
  | |- context [AppendFixed64 ?buf ?x] => fixed_go lem buf x fin
  end.

Ltac finish := repeat f_equal; try wrap_arith.

Theorem dispatch_inverse t g v buf :
  In t scalar_kinds -> bytes_ok buf -> blen buf < 2 ^ 62 ->
  WriteBase_gotype t = Some g -> in_gotype g v ->
  exists buf', WriteBase_scalar t buf 0 v = Some (0, buf', 0) /\ bytes_ok buf' /\
    ReadBase_gotype t = Some g /\
    ReadBase_scalar t buf' (blen buf) = Some (v, 0, buf', blen buf').
Proof.
  intros Hin Hb Hl Hg Hv.
  unfold scalar_kinds in Hin. cbn [In] in Hin.
  repeat (destruct Hin as [<-|Hin]); [..|contradiction].
  - (* BOOL *)
    kind_start Hg Hv. destruct Hv as [-> | ->]; cbn [Z.eqb negb]; unfold BinaryProtocol_WriteUint64, BinaryEncoder_EncodeUint64.
    + varint_case ltac:(consts; lia). reflexivity.
    + varint_case ltac:(consts; lia). reflexivity.
  - (* ENUM *)
    kind_start Hg Hv. varint_case ltac:(apply wrapu_range; lia). finish.
  - (* INT32 *)
    kind_start Hg Hv. varint_case ltac:(apply wrapu_range; lia). finish.
  - (* SINT32 *)
    kind_start Hg Hv.
    varint_case ltac:(rewrite EncodeZigZag_ref by (consts; lia); apply zigzag_enc_range; consts; lia).
    repeat f_equal. rewrite EncodeZigZag_ref by (consts; lia).
    change 4294967295 with (Z.ones 32). rewrite Z.land_ones by lia.
    assert (Hr : 0 <= zigzag_enc v < 2 ^ 32) by (unfold zigzag_enc; consts; destruct (Z.ltb_spec v 0); lia).
    rewrite Z.mod_small by exact Hr. rewrite DecodeZigZag_ref by (consts; lia).
    rewrite zigzag_dec_enc. apply wraps_small; [lia|consts; lia].
  - (* UINT32 *)
    kind_start Hg Hv. varint_case ltac:(consts; lia). finish.
  - (* INT64 *)
    kind_start Hg Hv. varint_case ltac:(apply wrapu_range; lia). finish.
  - (* SINT64 *)
    kind_start Hg Hv.
    varint_case ltac:(rewrite EncodeZigZag_ref by (consts; lia); apply zigzag_enc_range; consts; lia).
    repeat f_equal. rewrite EncodeZigZag_ref by (consts; lia).
    rewrite DecodeZigZag_ref by (apply zigzag_enc_range; consts; lia). apply zigzag_dec_enc.
  - (* UINT64 *)
    kind_start Hg Hv. varint_case ltac:(consts; lia). finish.
  - (* SFIX32 *)
    kind_start Hg Hv. fixed_case fixed32_kind_roundtrip ltac:(apply wrapu_range; lia). finish.
  - (* FIX32 *)
    kind_start Hg Hv. fixed_case fixed32_kind_roundtrip ltac:(apply wrapu_range; lia). finish.
  - (* FLOAT *)
    kind_start Hg Hv. fixed_case fixed32_kind_roundtrip ltac:(consts; lia). finish.
  - (* SFIX64 *)
    kind_start Hg Hv. fixed_case fixed64_kind_roundtrip ltac:(apply wrapu_range; lia). finish.
  - (* FIX64 *)
    kind_start Hg Hv. fixed_case fixed64_kind_roundtrip ltac:(apply wrapu_range; lia). finish.
  - (* DOUBLE *)
    kind_start Hg Hv. fixed_case fixed64_kind_roundtrip ltac:(consts; lia). finish.
Qed.
