(* dec2f64 / dec2f32 (model/Num.v) are correctly rounded: they satisfy the decidable specification f64_rounds_to / f32_rounds_to
   for EVERY decimal (sign, mantissa, power of ten) — round to nearest, ties to the even pattern, subnormals, overflow to the
   infinity pattern, zero with its sign — and the specification determines the bits.  Instances of proofs/FpRound.v. *)
From Coq Require Import ZArith List Bool Lia.
From DG Require Import Json Num FpExact FpRound.
Import ListNotations.
Local Open Scope Z_scope.

Lemma fp_mag_range p emin : 2 <= p -> emin <= 0 -> 1 <= 2 - emin - p -> forall m e,
  0 <= fp_mag p emin m e <= inf_bits p emin.
Proof.
  intros Hp He Hr m e. pose proof (fp_mag_correct p emin Hp He Hr m e) as H.
  rewrite (fp_rounds_to_unfold p emin) in H.
  destruct (Z.ltb_spec (fp_mag p emin m e) 0); [discriminate|].
  destruct (Z.ltb_spec (inf_bits p emin) (fp_mag p emin m e)); [discriminate|]. lia.
Qed.

(* ---- binary64 ---- *)
Theorem dec2f64_mag_correct : forall m e, fp_rounds_to 53 (-1074) m e (dec2f64_mag m e) = true.
Proof. intros. apply fp_mag_correct; lia. Qed.

Theorem dec2f64_mag_unique : forall m e b, fp_rounds_to 53 (-1074) m e b = true -> b = dec2f64_mag m e.
Proof. intros m e b. apply fp_rounds_to_unique; lia. Qed.

Lemma dec2f64_mag_range : forall m e, 0 <= dec2f64_mag m e <= 2047 * 2 ^ 52.
Proof. intros. exact (fp_mag_range 53 (-1074) ltac:(lia) ltac:(lia) ltac:(lia) m e). Qed.

Theorem dec2f64_correct : forall d, f64_rounds_to d (dec2f64 d) = true.
Proof.
  intros [[neg m] e]. unfold f64_rounds_to, dec2f64. pose proof (dec2f64_mag_range m e) as Hr.
  change (2 ^ 52) with 4503599627370496 in Hr. change (2 ^ 63) with 9223372036854775808.
  assert (Hmod : ((if neg then 9223372036854775808 else 0) + dec2f64_mag m e) mod 9223372036854775808 = dec2f64_mag m e).
  { destruct neg; [|apply Z.mod_small; lia].
    rewrite Z.add_comm. rewrite <- (Z.mul_1_l 9223372036854775808) at 1. rewrite Z.mod_add by lia. apply Z.mod_small. lia. }
  rewrite Hmod, dec2f64_mag_correct, andb_true_r.
  destruct neg; [destruct (Z.leb_spec 9223372036854775808 (9223372036854775808 + dec2f64_mag m e)); [reflexivity|lia]
                |destruct (Z.leb_spec 9223372036854775808 (0 + dec2f64_mag m e)); [lia|reflexivity]].
Qed.

Theorem dec2f64_unique : forall d b, 0 <= b < 2 ^ 64 -> f64_rounds_to d b = true -> b = dec2f64 d.
Proof.
  intros [[neg m] e] b Hb H. unfold f64_rounds_to in H. apply andb_true_iff in H. destruct H as [Hs Hm].
  apply dec2f64_mag_unique in Hm. apply eqb_prop in Hs. unfold dec2f64. rewrite <- Hm, Hs.
  change (2 ^ 63) with 9223372036854775808 in *. change (2 ^ 64) with 18446744073709551616 in Hb.
  destruct (Z.leb_spec 9223372036854775808 b); Z.div_mod_to_equations; lia.
Qed.

(* every lexeme the reader accepts is judged "denotes exactly these bits" by the checkers' comparison, and only for those bits *)
Theorem lex2f64_is_f64 : forall l b, lex2f64 l = Some b -> lex_is_f64 l b = true.
Proof.
  intros l b H. unfold lex2f64 in H. unfold lex_is_f64. destruct (lex_decimal l) as [d|]; [|discriminate].
  cbn [option_map] in H. inversion H; subst b. rewrite Z.eqb_refl, dec2f64_correct. reflexivity.
Qed.
Theorem lex_is_f64_lex2f64 : forall l b, lex_is_f64 l b = true -> lex2f64 l = Some b.
Proof.
  intros l b H. unfold lex_is_f64 in H. unfold lex2f64. destruct (lex_decimal l) as [d|]; [|discriminate].
  apply andb_true_iff in H. destruct H as [H _]. apply Z.eqb_eq in H. cbn [option_map]. rewrite H. reflexivity.
Qed.
Corollary lex_is_f64_iff : forall l b, lex_is_f64 l b = true <-> lex2f64 l = Some b.
Proof. intros. split; [apply lex_is_f64_lex2f64 | apply lex2f64_is_f64]. Qed.

(* ---- binary32 ---- *)
Theorem dec2f32_mag_correct : forall m e, fp_rounds_to 24 (-149) m e (dec2f32_mag m e) = true.
Proof. intros. apply fp_mag_correct; lia. Qed.

Theorem dec2f32_mag_unique : forall m e b, fp_rounds_to 24 (-149) m e b = true -> b = dec2f32_mag m e.
Proof. intros m e b. apply fp_rounds_to_unique; lia. Qed.

Lemma dec2f32_mag_range : forall m e, 0 <= dec2f32_mag m e <= 255 * 2 ^ 23.
Proof. intros. exact (fp_mag_range 24 (-149) ltac:(lia) ltac:(lia) ltac:(lia) m e). Qed.

Theorem dec2f32_correct : forall d, f32_rounds_to d (dec2f32 d) = true.
Proof.
  intros [[neg m] e]. unfold f32_rounds_to, dec2f32. pose proof (dec2f32_mag_range m e) as Hr.
  change (2 ^ 23) with 8388608 in Hr. change (2 ^ 31) with 2147483648.
  assert (Hmod : ((if neg then 2147483648 else 0) + dec2f32_mag m e) mod 2147483648 = dec2f32_mag m e).
  { destruct neg; [|apply Z.mod_small; lia].
    rewrite Z.add_comm. rewrite <- (Z.mul_1_l 2147483648) at 1. rewrite Z.mod_add by lia. apply Z.mod_small. lia. }
  rewrite Hmod, dec2f32_mag_correct, andb_true_r.
  destruct neg; [destruct (Z.leb_spec 2147483648 (2147483648 + dec2f32_mag m e)); [reflexivity|lia]
                |destruct (Z.leb_spec 2147483648 (0 + dec2f32_mag m e)); [lia|reflexivity]].
Qed.

Theorem dec2f32_unique : forall d b, 0 <= b < 2 ^ 32 -> f32_rounds_to d b = true -> b = dec2f32 d.
Proof.
  intros [[neg m] e] b Hb H. unfold f32_rounds_to in H. apply andb_true_iff in H. destruct H as [Hs Hm].
  apply dec2f32_mag_unique in Hm. apply eqb_prop in Hs. unfold dec2f32. rewrite <- Hm, Hs.
  change (2 ^ 31) with 2147483648 in *. change (2 ^ 32) with 4294967296 in Hb.
  destruct (Z.leb_spec 2147483648 b); Z.div_mod_to_equations; lia.
Qed.

Theorem lex2f32_is_f32 : forall l b, lex2f32 l = Some b -> lex_is_f32 l b = true.
Proof.
  intros l b H. unfold lex2f32 in H. unfold lex_is_f32. destruct (lex_decimal l) as [d|]; [|discriminate].
  cbn [option_map] in H. inversion H; subst b. rewrite Z.eqb_refl, dec2f32_correct. reflexivity.
Qed.
