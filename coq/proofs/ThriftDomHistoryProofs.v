(* Thrift DOM: edit histories at value level — slots with cleared entries, well-formedness of the denoted value,
   struct / map values as finite maps (equality with the plain value edits ast_step up to element order). *)
From Coq Require Import ZArith List Bool Lia.
From DG Require Import ProtoWireRef ProtoWireRefProofs ThriftWire ThriftWireProofs CaseFormat ThriftGeneric ThriftDom ThriftDomProofs ThriftDomSlots.
Import ListNotations.
Local Open Scope Z_scope.

(* ---------------- a tree node and its slots ---------------- *)
Lemma live_pairs_slots kids : live_pairs kids = live_of (slots_of kids).
Proof.
  unfold live_pairs, live_of, slots_of. induction kids as [|kd kids IH]; [reflexivity|].
  cbn [map flat_map fst snd]. rewrite IH. reflexivity.
Qed.

Lemma val_of_node t et kt raw kids : val_of_dom (DNode t et kt raw kids) = val_of_slots t et kt (slots_of kids).
Proof. cbn [val_of_dom]. unfold val_of_slots. rewrite <- live_pairs_slots. reflexivity. Qed.

Lemma find_kid_slots k kids : find_kid k (slots_of kids) = option_map val_of_dom (find_kid k kids).
Proof.
  unfold slots_of. induction kids as [|kd kids IH]; [reflexivity|]. cbn [map find_kid fst snd].
  destruct (key_eqb (fst kd) k); [reflexivity|exact IH].
Qed.

Lemma has_kid_slots k kids : has_kid k (slots_of kids) = has_kid k kids.
Proof. unfold has_kid. rewrite find_kid_slots. destruct (find_kid k kids); reflexivity. Qed.

Lemma slots_of_upd k (g : dom -> dom) (x : option tval) kids : (forall c, val_of_dom (g c) = x) ->
  slots_of (upd_kid k g kids) = upd_kid k (fun _ => x) (slots_of kids).
Proof.
  intros Hg. unfold slots_of. induction kids as [|kd kids IH]; [reflexivity|]. cbn [upd_kid map fst snd].
  destruct (key_eqb (fst kd) k); cbn [map fst snd]; [rewrite Hg; reflexivity|rewrite IH; reflexivity].
Qed.

Lemma slots_of_step kids o : slots_of (kids_step kids o) = aslots_step (slots_of kids) o.
Proof.
  destruct o as [k x|k|k]; cbn [kids_step aslots_step]; [| |reflexivity].
  - unfold set_kids. rewrite has_kid_slots. destruct (has_kid k kids).
    + apply slots_of_upd. reflexivity.
    + destruct (is_index_key k); [reflexivity|]. unfold slots_of. rewrite map_app. reflexivity.
  - apply slots_of_upd. reflexivity.
Qed.

Lemma set_kids_nil k x kids : set_kids k x kids = [] -> kids = [].
Proof.
  unfold set_kids. destruct (has_kid k kids).
  - destruct kids as [|[k1 c1] kids]; [reflexivity|]. cbn [upd_kid fst snd]. destruct (key_eqb k1 k); discriminate.
  - destruct (is_index_key k); [auto|]. destruct kids; discriminate.
Qed.

Lemma dom_step_kids t et kt raw kids o : dom_step (DNode t et kt raw kids) o = DNode t et kt raw (kids_step kids o).
Proof.
  destruct o as [k x|k|k]; cbn [dom_step open_node kids_step]; try reflexivity.
  destruct (set_kids k x kids) as [|s0 sr] eqn:Es; [|reflexivity]. apply set_kids_nil in Es. subst kids. reflexivity.
Qed.

Lemma dom_history_kids : forall ops t et kt raw kids,
  fold_left dom_step ops (DNode t et kt raw kids) = DNode t et kt raw (fold_left kids_step ops kids).
Proof. induction ops as [|o ops IH]; intros; [reflexivity|]. cbn [fold_left]. rewrite dom_step_kids. apply IH. Qed.

Lemma slots_history : forall ops kids, slots_of (fold_left kids_step ops kids) = fold_left aslots_step ops (slots_of kids).
Proof. induction ops as [|o ops IH]; intros; [reflexivity|]. cbn [fold_left]. rewrite IH, slots_of_step. reflexivity. Qed.

(* tree history at value level: the edited tree denotes the value of the edited slots, for every container kind and
   every history (a set after a clear of the same key revives the slot in place) *)
Theorem tree_history_slots ops t et kt raw kids :
  val_of_dom (fold_left dom_step ops (DNode t et kt raw kids)) =
  val_of_slots t et kt (fold_left aslots_step ops (slots_of kids)).
Proof. rewrite dom_history_kids, val_of_node, slots_history. reflexivity. Qed.

(* ---------------- well-formedness of the denoted value ---------------- *)
Lemma to_s_range k x : 0 < k -> - 2 ^ (k - 1) <= to_s k x < 2 ^ (k - 1).
Proof.
  intros Hk. unfold to_s. assert (2 ^ k = 2 * 2 ^ (k - 1)) as E.
  { replace k with (1 + (k - 1)) at 1 by lia. rewrite Z.pow_add_r by lia. reflexivity. }
  assert (0 < 2 ^ (k - 1)) by (apply Z.pow_pos_nonneg; lia).
  pose proof (Z.mod_pos_bound (x + 2 ^ (k - 1)) (2 ^ k) ltac:(lia)). lia.
Qed.

Lemma in_sb_intro k z : - 2 ^ (k - 1) <= z < 2 ^ (k - 1) -> in_sb k z = true.
Proof. intros H. unfold in_sb. apply andb_true_iff. split; [apply Z.leb_le|apply Z.ltb_lt]; lia. Qed.

Lemma valid_type_byte t : valid_type t = true -> byte_okb t = true.
Proof.
  unfold valid_type, is_container. intros H.
  repeat (apply orb_true_iff in H; destruct H as [H|H]); apply Z.eqb_eq in H; subst; reflexivity.
Qed.

Lemma key_typed_map_facts kt k : key_typed T_MAP kt k ->
  wf (val_of_key kt k) = true /\ type_of (val_of_key kt k) = kt /\ key_of_val (val_of_key kt k) = k.
Proof.
  unfold key_typed. change (T_MAP =? T_STRUCT) with false. change (T_MAP =? T_MAP) with true. cbn iota.
  destruct k as [|id|i|s|n|b]; try tauto.
  - intros [-> [Hb Hl]]. cbn [val_of_key wf type_of key_of_val]. rewrite Hb. apply Z.ltb_lt in Hl. rewrite Hl. auto.
  - unfold int_key_range, val_of_key.
    destruct (Z.eqb_spec kt T_BYTE) as [-> |N1].
    + intros H. apply andb_true_iff in H. destruct H as [H0 H1]. apply Z.leb_le in H0. apply Z.ltb_lt in H1.
      cbn [wf type_of key_of_val]. split; [apply in_sb_intro; apply to_s_range; lia|]. split; [reflexivity|].
      f_equal. change 256 with (2 ^ 8). rewrite to_s_mod by lia. apply Z.mod_small. change (2 ^ 8) with 256. lia.
    + destruct (Z.eqb_spec kt T_I16) as [-> |N2].
      { intros H. pose proof (in_sb_true _ _ H) as Hr. rewrite to_s_small by lia. cbn [wf type_of key_of_val]. auto. }
      destruct (Z.eqb_spec kt T_I32) as [-> |N3].
      { intros H. pose proof (in_sb_true _ _ H) as Hr. rewrite to_s_small by lia. cbn [wf type_of key_of_val]. auto. }
      destruct (Z.eqb_spec kt T_I64) as [-> |N4]; [|discriminate].
      intros H. pose proof (in_sb_true _ _ H) as Hr. rewrite to_s_small by lia. cbn [wf type_of key_of_val]. auto.
  - intros [Hs [Hi [kv [Hw [Ht ->]]]]]. unfold val_of_key. subst kt. rewrite decode_encode_exact by exact Hw.
    split; [exact Hw|]. split; [reflexivity|].
    destruct kv; cbn [key_of_val]; try reflexivity; cbn [type_of] in *; try congruence; discriminate Hi.
Qed.

Lemma live_of_typed t et kt s : slots_wf t et kt s ->
  Forall (fun kv => key_typed t kt (fst kv) /\ val_typed t et (snd kv)) (live_of s).
Proof.
  unfold slots_wf, live_of. induction 1 as [|[k [x|]] s [Hk Hx] _ IH]; cbn [flat_map fst snd app]; [constructor| |exact IH].
  constructor; [split; assumption|exact IH].
Qed.

Lemma live_of_length s : (length (live_of s) <= length s)%nat.
Proof. unfold live_of. induction s as [|[k [x|]] s IH]; cbn [flat_map snd app length]; lia. Qed.

Lemma container_neq_struct t : is_container t = true -> t <> T_STRUCT -> t = T_MAP \/ t = T_SET \/ t = T_LIST.
Proof. intros H N. destruct (container_cases t H) as [E|E]; [contradiction|exact E]. Qed.

(* the value a well-typed slot list denotes is well-formed: ids in range, counts = number of live slots < 2^31,
   element / key / value types as the header says *)
Theorem wf_of_slots t et kt s v : slots_wf t et kt s -> hdr_typed t et kt -> zlen s < 2 ^ 31 ->
  val_of_slots t et kt s = Some v -> wf v = true.
Proof.
  intros Hs [Hc [Het Hkt]] Hlen Hv. pose proof (live_of_typed _ _ _ _ Hs) as Hl. pose proof (live_of_length s) as Hn.
  unfold val_of_slots in Hv. rewrite Forall_forall in Hl.
  assert (Hcount : forall {B} (g : pkey * tval -> B), (zlen (map g (live_of s)) <? 2 ^ 31) = true).
  { intros B g. apply Z.ltb_lt. unfold zlen in *. rewrite map_length. lia. }
  destruct (container_cases t Hc) as [-> |[-> |[-> | ->]]].
  - change (T_STRUCT =? T_STRUCT) with true in Hv. cbn iota in Hv. inversion Hv; subst v. cbn [wf].
    apply forallb_forall. intros f Hin. apply in_map_iff in Hin. destruct Hin as [kv [<- Hin]]. cbn [fst snd].
    destruct (Hl kv Hin) as [_ [Hw _]]. rewrite Hw. rewrite in_sb_intro; [reflexivity|apply to_s_range; lia].
  - change (T_MAP =? T_STRUCT) with false in Hv. change (T_MAP =? T_LIST) with false in Hv. change (T_MAP =? T_SET) with false in Hv.
    change (T_MAP =? T_MAP) with true in Hv. cbn iota in Hv. inversion Hv; subst v. cbn [wf].
    destruct Het as [E|Het]; [discriminate E|]. specialize (Hkt eq_refl).
    rewrite (valid_type_byte _ Hkt), (valid_type_byte _ Het), Hkt, Het, Hcount, orb_true_r. cbn [andb].
    apply forallb_forall. intros e Hin. apply in_map_iff in Hin. destruct Hin as [kv [<- Hin]]. cbn [fst snd].
    destruct (Hl kv Hin) as [Hk [Hw [E|Ht]]]; [discriminate E|].
    destruct (key_typed_map_facts kt (fst kv) Hk) as [Hkw [Hkty _]].
    rewrite Hkty, Ht, !Z.eqb_refl, Hkw, Hw. reflexivity.
  - change (T_SET =? T_STRUCT) with false in Hv. change (T_SET =? T_LIST) with false in Hv. change (T_SET =? T_SET) with true in Hv.
    cbn iota in Hv. inversion Hv; subst v. cbn [wf].
    destruct Het as [E|Het]; [discriminate E|].
    rewrite (valid_type_byte _ Het), Het, Hcount, orb_true_r. cbn [andb].
    apply forallb_forall. intros e Hin. apply in_map_iff in Hin. destruct Hin as [kv [<- Hin]].
    destruct (Hl kv Hin) as [_ [Hw [E|Ht]]]; [discriminate E|]. rewrite Ht, Z.eqb_refl, Hw. reflexivity.
  - change (T_LIST =? T_STRUCT) with false in Hv. change (T_LIST =? T_LIST) with true in Hv.
    cbn iota in Hv. inversion Hv; subst v. cbn [wf].
    destruct Het as [E|Het]; [discriminate E|].
    rewrite (valid_type_byte _ Het), Het, Hcount, orb_true_r. cbn [andb].
    apply forallb_forall. intros e Hin. apply in_map_iff in Hin. destruct Hin as [kv [<- Hin]].
    destruct (Hl kv Hin) as [_ [Hw [E|Ht]]]; [discriminate E|]. rewrite Ht, Z.eqb_refl, Hw. reflexivity.
Qed.

Lemma upd_kid_slots_wf t et kt k y s : slots_wf t et kt s -> (match y with Some x => val_typed t et x | None => True end) ->
  slots_wf t et kt (upd_kid k (fun _ => y) s).
Proof.
  unfold slots_wf. intros H Hy. induction H as [|[k0 c] s [Hk Hc] Hl IH]; cbn [upd_kid fst snd]; [constructor|].
  destruct (key_eqb k0 k); constructor; cbn [fst snd] in *; auto.
Qed.

Lemma upd_kid_length {A} k (g : A -> A) (l : list (pkey * A)) : length (upd_kid k g l) = length l.
Proof. induction l as [|[k0 c] l IH]; cbn [upd_kid fst snd length]; [reflexivity|]. destruct (key_eqb k0 k); cbn [length]; congruence. Qed.

Lemma aslots_step_wf t et kt s o : slots_wf t et kt s -> op_typed t et kt o ->
  slots_wf t et kt (aslots_step s o) /\ (length (aslots_step s o) <= S (length s))%nat.
Proof.
  intros Hs Ho. destruct o as [k x|k|k]; cbn [aslots_step op_typed] in *.
  - destruct Ho as [Hk Hx]. destruct (has_kid k s).
    + split; [apply upd_kid_slots_wf; assumption|rewrite upd_kid_length; lia].
    + destruct (is_index_key k); [split; [exact Hs|lia]|]. split.
      * unfold slots_wf. apply Forall_app. split; [exact Hs|]. constructor; [split; assumption|constructor].
      * rewrite app_length. cbn. lia.
  - split; [apply upd_kid_slots_wf; [exact Hs|exact I]|rewrite upd_kid_length; lia].
  - split; [exact Hs|lia].
Qed.

Lemma aslots_history_wf t et kt : forall ops s, slots_wf t et kt s -> Forall (op_typed t et kt) ops ->
  slots_wf t et kt (fold_left aslots_step ops s) /\ (length (fold_left aslots_step ops s) <= length s + length ops)%nat.
Proof.
  induction ops as [|o ops IH]; intros s Hs Ho; [split; [exact Hs|cbn; lia]|].
  inversion Ho as [|? ? Ho1 Ho']; subst. cbn [fold_left length].
  destruct (aslots_step_wf t et kt s o Hs Ho1) as [Hs' Hl]. destruct (IH _ Hs' Ho') as [Hw Hl']. split; [exact Hw|lia].
Qed.

(* ---------------- keyed lists as finite maps ---------------- *)
Lemma find_kid_notin {A} k (l : list (pkey * A)) : ~ In k (map fst l) -> find_kid k l = None.
Proof.
  induction l as [|[k0 c] l IH]; cbn [map find_kid fst snd]; [reflexivity|]. intros H.
  destruct (key_eqb k0 k) eqn:E; [apply key_eqb_eq in E; subst; exfalso; apply H; left; reflexivity|].
  apply IH. intros Hin. apply H. right. exact Hin.
Qed.

Lemma find_kid_in {A} k (l : list (pkey * A)) c : find_kid k l = Some c -> In k (map fst l).
Proof.
  induction l as [|[k0 c0] l IH]; cbn [map find_kid fst snd]; [discriminate|].
  destruct (key_eqb k0 k) eqn:E; [apply key_eqb_eq in E; subst; left; reflexivity|]. intros H. right. apply IH. exact H.
Qed.

Lemma has_kid_false_notin {A} k (l : list (pkey * A)) : has_kid k l = false -> ~ In k (map fst l).
Proof.
  unfold has_kid. induction l as [|[k0 c] l IH]; cbn [map find_kid fst snd]; [tauto|].
  destruct (key_eqb k0 k) eqn:E; [discriminate|]. intros H [Hin|Hin]; [subst; rewrite key_eqb_refl in E; discriminate|].
  apply IH; assumption.
Qed.

Lemma upd_kid_keys_eq {A} k (g : A -> A) (l : list (pkey * A)) : map fst (upd_kid k g l) = map fst l.
Proof. induction l as [|[k0 c] l IH]; cbn [upd_kid map fst snd]; [reflexivity|]. destruct (key_eqb k0 k); cbn [map fst]; congruence. Qed.

Lemma del_kid_keys_incl {A} k (l : list (pkey * A)) x : In x (map fst (del_kid k l)) -> In x (map fst l).
Proof.
  induction l as [|[k0 c] l IH]; cbn [del_kid map fst snd]; [tauto|]. destruct (key_eqb k0 k); cbn [map fst In]; [auto|].
  intros [H|H]; auto.
Qed.

Lemma del_kid_nodup {A} k (l : list (pkey * A)) : NoDup (map fst l) -> NoDup (map fst (del_kid k l)).
Proof.
  induction l as [|[k0 c] l IH]; cbn [del_kid map fst snd]; [auto|]. intros H. inversion H as [|? ? Hn Hr]; subst.
  destruct (key_eqb k0 k); [exact Hr|]. cbn [map fst]. constructor; [|apply IH; exact Hr].
  intros Hin. apply Hn. eapply del_kid_keys_incl; eauto.
Qed.

Lemma find_kid_del {A} k (l : list (pkey * A)) k' : NoDup (map fst l) ->
  find_kid k' (del_kid k l) = if key_eqb k k' then None else find_kid k' l.
Proof.
  induction l as [|[k0 c] l IH]; cbn [del_kid map find_kid fst snd]; intros Hnd; [destruct (key_eqb k k'); reflexivity|].
  inversion Hnd as [|? ? Hn Hr]; subst.
  destruct (key_eqb k0 k) eqn:E0.
  - apply key_eqb_eq in E0. subst k0. destruct (key_eqb k k') eqn:E.
    + apply key_eqb_eq in E. subst k'. apply find_kid_notin. exact Hn.
    + reflexivity.
  - cbn [find_kid fst snd]. destruct (key_eqb k0 k') eqn:E1.
    + destruct (key_eqb k k') eqn:E; [|reflexivity]. apply key_eqb_eq in E, E1. subst. rewrite key_eqb_refl in E0. discriminate.
    + apply IH. exact Hr.
Qed.

Lemma estep_get l o k' : NoDup (map fst l) -> find_kid k' (estep l o) = vstep (find_kid k' l) o k'.
Proof.
  intros Hnd. destruct o as [k x|k|k]; cbn [estep vstep]; [| |reflexivity].
  - unfold has_kid. destruct (find_kid k l) as [c|] eqn:Ek.
    + rewrite find_kid_upd. destruct (key_eqb k k') eqn:E; [|reflexivity]. apply key_eqb_eq in E. subst k'. rewrite Ek. reflexivity.
    + rewrite find_kid_app. cbn [find_kid fst snd]. destruct (key_eqb k k') eqn:E.
      * apply key_eqb_eq in E. subst k'. rewrite Ek. reflexivity.
      * destruct (find_kid k' l); reflexivity.
  - apply find_kid_del. exact Hnd.
Qed.

Lemma NoDup_app_one {A} (l : list A) x : NoDup l -> ~ In x l -> NoDup (l ++ [x]).
Proof.
  induction l as [|a l IH]; cbn; intros Hnd Hn; [constructor; [tauto|constructor]|].
  inversion Hnd as [|? ? Ha Hr]; subst. constructor.
  - rewrite in_app_iff. cbn. intros [H|[H|[]]]; [contradiction|subst; apply Hn; left; reflexivity].
  - apply IH; [exact Hr|]. intros H. apply Hn. right. exact H.
Qed.

Lemma estep_nodup l o : NoDup (map fst l) -> NoDup (map fst (estep l o)).
Proof.
  intros Hnd. destruct o as [k x|k|k]; cbn [estep]; [| |exact Hnd].
  - destruct (has_kid k l) eqn:Eh; [rewrite upd_kid_keys_eq; exact Hnd|].
    rewrite map_app. cbn [map fst]. apply NoDup_app_one; [exact Hnd|apply has_kid_false_notin; exact Eh].
  - apply del_kid_nodup. exact Hnd.
Qed.

(* ---------------- slots as finite maps ---------------- *)
Definition flat (o : option (option tval)) : option tval := match o with Some (Some x) => Some x | _ => None end.

Lemma live_of_keys_incl s k : In k (map fst (live_of s)) -> In k (map fst s).
Proof.
  unfold live_of. induction s as [|[k0 [x|]] s IH]; cbn [flat_map map fst snd app In]; [tauto| |]; intros H.
  - destruct H as [H|H]; auto.
  - auto.
Qed.

Lemma live_of_nodup s : NoDup (map fst s) -> NoDup (map fst (live_of s)).
Proof.
  unfold live_of. induction s as [|[k0 [x|]] s IH]; cbn [flat_map map fst snd app]; intros H; [constructor| |];
  inversion H as [|? ? Hn Hr]; subst.
  - constructor; [|apply IH; exact Hr]. intros Hin. apply Hn. apply live_of_keys_incl. exact Hin.
  - apply IH. exact Hr.
Qed.

Lemma find_live_of s k : NoDup (map fst s) -> find_kid k (live_of s) = flat (find_kid k s).
Proof.
  unfold live_of. induction s as [|[k0 [x|]] s IH]; cbn [flat_map map find_kid fst snd app]; intros H; [reflexivity| |];
  inversion H as [|? ? Hn Hr]; subst.
  - cbn [find_kid fst snd]. destruct (key_eqb k0 k); [reflexivity|apply IH; exact Hr].
  - destruct (key_eqb k0 k) eqn:E; [|apply IH; exact Hr]. apply key_eqb_eq in E. subst k0. cbn [flat].
    apply find_kid_notin. intros Hin. apply Hn. apply live_of_keys_incl. exact Hin.
Qed.

Lemma aslots_step_nodup s o : NoDup (map fst s) -> NoDup (map fst (aslots_step s o)).
Proof.
  intros Hnd. destruct o as [k x|k|k]; cbn [aslots_step]; [| |exact Hnd].
  - destruct (has_kid k s) eqn:Eh; [rewrite upd_kid_keys_eq; exact Hnd|]. destruct (is_index_key k); [exact Hnd|].
    rewrite map_app. cbn [map fst]. apply NoDup_app_one; [exact Hnd|apply has_kid_false_notin; exact Eh].
  - rewrite upd_kid_keys_eq. exact Hnd.
Qed.

Definition op_key_not_index (o : top) : Prop := match o with OSet k _ => is_index_key k = false | _ => True end.

Lemma aslots_step_get s o k' : op_key_not_index o ->
  flat (find_kid k' (aslots_step s o)) = vstep (flat (find_kid k' s)) o k'.
Proof.
  intros Hni. destruct o as [k x|k|k]; cbn [aslots_step vstep op_key_not_index] in *; [| |reflexivity].
  - unfold has_kid. destruct (find_kid k s) as [c|] eqn:Ek.
    + rewrite find_kid_upd. destruct (key_eqb k k') eqn:E; [|reflexivity]. apply key_eqb_eq in E. subst k'. rewrite Ek. reflexivity.
    + rewrite Hni. rewrite find_kid_app. cbn [find_kid fst snd]. destruct (key_eqb k k') eqn:E.
      * apply key_eqb_eq in E. subst k'. rewrite Ek. reflexivity.
      * destruct (find_kid k' s); reflexivity.
  - rewrite find_kid_upd. destruct (key_eqb k k'); [|reflexivity]. destruct (find_kid k' s); reflexivity.
Qed.

(* ---------------- the plain value edits on the entries ---------------- *)
Definition sentries (fs : list (Z * tval)) : list (pkey * tval) := map (fun f => (KField (fid (fst f)), snd f)) fs.
Definition mentries (es : list (tval * tval)) : list (pkey * tval) := map (fun e => (key_of_val (fst e), snd e)) es.

Lemma struct_upd_entries id x : forall fs,
  match ast_upd_field id x fs with
  | Some fs' => has_kid (KField id) (sentries fs) = true /\ sentries fs' = upd_kid (KField id) (fun _ => x) (sentries fs)
  | None => has_kid (KField id) (sentries fs) = false
  end.
Proof.
  unfold has_kid, sentries. induction fs as [|[i y] fs IH]; [reflexivity|].
  cbn [ast_upd_field map find_kid upd_kid fst snd key_eqb]. destruct (fid i =? id); [split; reflexivity|].
  destruct (ast_upd_field id x fs) as [fs'|]; [|exact IH]. destruct IH as [Hh Hu]. split; [exact Hh|].
  cbn [map fst snd]. rewrite Hu. reflexivity.
Qed.

Lemma struct_del_entries id : forall fs, sentries (ast_del_field id fs) = del_kid (KField id) (sentries fs).
Proof.
  unfold sentries. induction fs as [|[i y] fs IH]; [reflexivity|].
  cbn [ast_del_field map del_kid fst snd key_eqb]. destruct (fid i =? id); [reflexivity|]. cbn [map fst snd]. rewrite IH. reflexivity.
Qed.

Lemma map_upd_entries k x : forall es,
  match ast_upd_key k x es with
  | Some es' => has_kid k (mentries es) = true /\ mentries es' = upd_kid k (fun _ => x) (mentries es)
  | None => has_kid k (mentries es) = false
  end.
Proof.
  unfold has_kid, mentries. induction es as [|[kv y] es IH]; [reflexivity|].
  cbn [ast_upd_key map find_kid upd_kid fst snd]. destruct (key_eqb (key_of_val kv) k); [split; reflexivity|].
  destruct (ast_upd_key k x es) as [es'|]; [|exact IH]. destruct IH as [Hh Hu]. split; [exact Hh|].
  cbn [map fst snd]. rewrite Hu. reflexivity.
Qed.

Lemma map_del_entries k : forall es, mentries (ast_del_key k es) = del_kid k (mentries es).
Proof.
  unfold mentries. induction es as [|[kv y] es IH]; [reflexivity|].
  cbn [ast_del_key map del_kid fst snd]. destruct (key_eqb (key_of_val kv) k); [reflexivity|]. cbn [map fst snd]. rewrite IH. reflexivity.
Qed.

(* struct or map value of the node's kind *)
Definition shape_ok (t et kt : Z) (w : tval) : Prop :=
  (t = T_STRUCT /\ exists fs, w = VStruct fs) \/ (t = T_MAP /\ exists es, w = VMap kt et es).

Lemma key_typed_not_index t kt k : t = T_STRUCT \/ t = T_MAP -> key_typed t kt k -> is_index_key k = false.
Proof.
  intros [-> | ->]; unfold key_typed.
  - change (T_STRUCT =? T_STRUCT) with true. cbn iota. destruct k; tauto.
  - change (T_MAP =? T_STRUCT) with false. change (T_MAP =? T_MAP) with true. cbn iota. destruct k; tauto.
Qed.

Lemma ventries_ast_step t et kt w o : shape_ok t et kt w -> op_typed t et kt o ->
  ventries (ast_step w o) = estep (ventries w) o /\ shape_ok t et kt (ast_step w o).
Proof.
  intros [[-> [fs ->]]|[-> [es ->]]] Ho.
  - (* struct *)
    destruct o as [k x|k|k]; cbn [op_typed] in Ho.
    + destruct Ho as [Hk _]. unfold key_typed in Hk. change (T_STRUCT =? T_STRUCT) with true in Hk. cbn iota in Hk.
      destruct k as [|id|i|s|n|b]; try contradiction. cbn [ast_step estep ventries].
      pose proof (struct_upd_entries id x fs) as Hu. fold (sentries fs). destruct (ast_upd_field id x fs) as [fs'|].
      * destruct Hu as [Hh Hu]. rewrite Hh. cbn [ventries]. fold (sentries fs'). split; [exact Hu|left; eauto].
      * rewrite Hu. cbn [ventries]. split; [|left; eauto]. unfold sentries. rewrite map_app. cbn [map fst snd].
        rewrite fid_to_s by exact Hk. reflexivity.
    + unfold key_typed in Ho. change (T_STRUCT =? T_STRUCT) with true in Ho. cbn iota in Ho.
      destruct k as [|id|i|s|n|b]; try contradiction. cbn [ast_step estep ventries].
      split; [apply struct_del_entries|left; eauto].
    + cbn [ast_step estep]. split; [reflexivity|left; eauto].
  - (* map *)
    destruct o as [k x|k|k]; cbn [op_typed] in Ho.
    + destruct Ho as [Hk _]. destruct (key_typed_map_facts kt k Hk) as [_ [_ Hkk]].
      unfold key_typed in Hk. change (T_MAP =? T_STRUCT) with false in Hk. change (T_MAP =? T_MAP) with true in Hk. cbn iota in Hk.
      pose proof (map_upd_entries k x es) as Hu. fold (mentries es) in *.
      assert (Hstep : ast_step (VMap kt et es) (OSet k x) =
                      match ast_upd_key k x es with Some es' => VMap kt et es' | None => VMap kt et (es ++ [(val_of_key kt k, x)]) end)
        by (destruct k; try contradiction; reflexivity).
      rewrite Hstep. cbn [estep ventries]. fold (mentries es). destruct (ast_upd_key k x es) as [es'|].
      * destruct Hu as [Hh Hu]. rewrite Hh. cbn [ventries]. fold (mentries es'). split; [exact Hu|right; eauto].
      * rewrite Hu. cbn [ventries]. split; [|right; eauto]. unfold mentries. rewrite map_app. cbn [map fst snd]. rewrite Hkk. reflexivity.
    + assert (Hstep : ast_step (VMap kt et es) (OClear k) = VMap kt et (ast_del_key k es)) by (destruct k; reflexivity).
      rewrite Hstep. cbn [estep ventries]. split; [apply map_del_entries|right; eauto].
    + cbn [ast_step estep]. split; [reflexivity|right; eauto].
Qed.

(* the entries of the value a typed slot list denotes are its live slots *)
Lemma ventries_of_slots t et kt s w : t = T_STRUCT \/ t = T_MAP -> slots_wf t et kt s -> val_of_slots t et kt s = Some w ->
  ventries w = live_of s /\ shape_ok t et kt w.
Proof.
  intros Ht Hs Hw. pose proof (live_of_typed _ _ _ _ Hs) as Hl. unfold val_of_slots in Hw. destruct Ht as [-> | ->].
  - change (T_STRUCT =? T_STRUCT) with true in Hw. cbn iota in Hw. inversion Hw; subst w. split; [|left; eauto].
    cbn [ventries]. rewrite map_map. cbn [fst snd]. rewrite <- (map_id (live_of s)) at 2. apply map_ext_in.
    intros [k x] Hin. rewrite Forall_forall in Hl. destruct (Hl _ Hin) as [Hk _]. cbn [fst snd] in *.
    unfold key_typed in Hk. change (T_STRUCT =? T_STRUCT) with true in Hk. cbn iota in Hk.
    destruct k; try contradiction. cbn [key_l]. rewrite fid_to_s by exact Hk. reflexivity.
  - change (T_MAP =? T_STRUCT) with false in Hw. change (T_MAP =? T_LIST) with false in Hw. change (T_MAP =? T_SET) with false in Hw.
    change (T_MAP =? T_MAP) with true in Hw. cbn iota in Hw. inversion Hw; subst w. split; [|right; eauto].
    cbn [ventries]. rewrite map_map. cbn [fst snd]. rewrite <- (map_id (live_of s)) at 2. apply map_ext_in.
    intros [k x] Hin. rewrite Forall_forall in Hl. destruct (Hl _ Hin) as [Hk _]. cbn [fst snd] in *.
    destruct (key_typed_map_facts kt k Hk) as [_ [_ Hkk]]. rewrite Hkk. reflexivity.
Qed.

(* struct and map roots, ANY history (sets, clears, set after clear of the same key): the value the edited tree denotes
   and the plainly edited value (ast_step: replace or append, remove) are the same finite map — same fields / entries
   up to their order *)
Theorem slots_history_ext t et kt : t = T_STRUCT \/ t = T_MAP ->
  forall ops s w, slots_wf t et kt s -> NoDup (map fst s) -> Forall (op_typed t et kt) ops ->
  shape_ok t et kt w -> NoDup (map fst (ventries w)) -> (forall k, find_kid k (ventries w) = flat (find_kid k s)) ->
  forall v', val_of_slots t et kt (fold_left aslots_step ops s) = Some v' ->
  forall k, vget v' k = vget (fold_left ast_step ops w) k.
Proof.
  intros Ht. induction ops as [|o ops IH]; intros s w Hs Hnd Hops Hsh Hwnd Hrel v' Hv' k.
  - cbn [fold_left] in *. destruct (ventries_of_slots t et kt s v' Ht Hs Hv') as [He _].
    unfold vget. rewrite He. rewrite find_live_of by exact Hnd. symmetry. apply Hrel.
  - inversion Hops as [|? ? Ho Hops']; subst. cbn [fold_left] in *.
    destruct (ventries_ast_step t et kt w o Hsh Ho) as [He Hsh'].
    destruct (aslots_step_wf t et kt s o Hs Ho) as [Hs' _].
    apply (IH (aslots_step s o) (ast_step w o)); try assumption.
    + apply aslots_step_nodup. exact Hnd.
    + rewrite He. apply estep_nodup. exact Hwnd.
    + intros k0. rewrite He. rewrite estep_get by exact Hwnd. rewrite Hrel. symmetry. apply aslots_step_get.
      destruct o as [k1 x|k1|k1]; cbn [op_key_not_index]; try exact I. destruct Ho as [Hk _].
      eapply key_typed_not_index; eauto.
Qed.

(* ---------------- the root Load builds: its slots ---------------- *)
Definition init_slots (v : tval) : aslots := slots_of (kids_of DLeaf v).

Lemma slots_of_index_keys (f : tval -> dom) es : (forall e, In e es -> val_of_dom (f e) = Some e) ->
  forall i, slots_of (index_keys i (map f es)) = slots_of (index_keys i (map DLeaf es)).
Proof.
  intros H. unfold slots_of. induction es as [|e es IH]; intros i; [reflexivity|].
  cbn [map index_keys fst snd val_of_dom]. rewrite (H e (or_introl eq_refl)). f_equal. apply IH. intros; apply H; right; assumption.
Qed.

Lemma slots_of_kids (f : tval -> dom) v : (forall c, child_of c v -> val_of_dom (f c) = Some c) ->
  slots_of (kids_of f v) = init_slots v.
Proof.
  intros H. unfold init_slots. destruct v as [b|z|z|z|z|z|s|fs|kt vt es|et es|et es]; try reflexivity; cbn [kids_of child_of] in *.
  - unfold slots_of. rewrite !map_map. apply map_ext_in. intros x Hin. cbn [fst snd val_of_dom]. rewrite H; [reflexivity|apply in_map; exact Hin].
  - unfold slots_of. rewrite !map_map. apply map_ext_in. intros x Hin. cbn [fst snd val_of_dom]. rewrite H; [reflexivity|apply in_map; exact Hin].
  - apply slots_of_index_keys. exact H.
  - apply slots_of_index_keys. exact H.
Qed.

Lemma key_of_val_typed k : wf k = true -> key_typed T_MAP (type_of k) (key_of_val k).
Proof.
  intros Hwf. unfold key_typed. change (T_MAP =? T_STRUCT) with false. change (T_MAP =? T_MAP) with true. cbn iota.
  destruct k as [b|z|z|z|z|z|s|fs|kt vt es|et es|et es]; cbn [key_of_val type_of];
  try (split; [discriminate|split; [reflexivity|eexists; split; [exact Hwf|split; reflexivity]]]).
  - unfold int_key_range. change (T_BYTE =? T_BYTE) with true. cbn iota.
    pose proof (Z.mod_pos_bound z 256 ltac:(lia)). apply andb_true_iff. split; [apply Z.leb_le|apply Z.ltb_lt]; lia.
  - exact Hwf.
  - exact Hwf.
  - exact Hwf.
  - cbn [wf] in Hwf. apply andb_true_iff in Hwf. destruct Hwf as [Hb Hl]. apply Z.ltb_lt in Hl. auto.
Qed.

Lemma Forall_index_slots (P : pkey * option tval -> Prop) es : (forall i e, In e es -> P (KIndex i, Some e)) ->
  forall i, Forall P (slots_of (index_keys i (map DLeaf es))).
Proof.
  intros H. unfold slots_of. induction es as [|e es IH]; intros i; cbn [map index_keys fst snd val_of_dom]; constructor.
  - apply H. left. reflexivity.
  - apply IH. intros; apply H; right; assumption.
Qed.

Lemma init_slots_wf v : wf v = true -> slots_wf (type_of v) (et_of v) (kt_of v) (init_slots v).
Proof.
  intros Hwf. unfold init_slots, slots_wf.
  destruct v as [b|z|z|z|z|z|s|fs|kt vt es|et es|et es]; try constructor; cbn [kids_of type_of et_of kt_of].
  - unfold slots_of. rewrite map_map. rewrite Forall_forall. intros ks Hin. apply in_map_iff in Hin. destruct Hin as [f [<- Hin]].
    cbn [fst snd val_of_dom]. cbn [wf] in Hwf. rewrite forallb_forall in Hwf. specialize (Hwf f Hin). apply andb_true_iff in Hwf.
    split.
    + unfold key_typed. change (T_STRUCT =? T_STRUCT) with true. cbn iota. unfold fid. apply Z.mod_pos_bound. lia.
    + split; [tauto|left; reflexivity].
  - unfold slots_of. rewrite map_map. rewrite Forall_forall. intros ks Hin. apply in_map_iff in Hin. destruct Hin as [e [<- Hin]].
    cbn [fst snd val_of_dom]. cbn [wf] in Hwf. repeat (apply andb_true_iff in Hwf; destruct Hwf as [Hwf ?]).
    match goal with H : forallb _ es = true |- _ => rewrite forallb_forall in H; specialize (H e Hin) end.
    repeat match goal with H : _ && _ = true |- _ => apply andb_true_iff in H; destruct H end.
    repeat match goal with H : (_ =? _) = true |- _ => apply Z.eqb_eq in H end.
    split.
    + subst kt. apply key_of_val_typed. assumption.
    + split; [assumption|right; assumption].
  - apply Forall_index_slots. intros i e Hin. cbn [fst snd]. cbn [wf] in Hwf. repeat (apply andb_true_iff in Hwf; destruct Hwf as [Hwf ?]).
    match goal with H : forallb _ es = true |- _ => rewrite forallb_forall in H; specialize (H e Hin) end.
    repeat match goal with H : _ && _ = true |- _ => apply andb_true_iff in H; destruct H end.
    repeat match goal with H : (_ =? _) = true |- _ => apply Z.eqb_eq in H end.
    split; [exact I|]. split; [assumption|right; assumption].
  - apply Forall_index_slots. intros i e Hin. cbn [fst snd]. cbn [wf] in Hwf. repeat (apply andb_true_iff in Hwf; destruct Hwf as [Hwf ?]).
    match goal with H : forallb _ es = true |- _ => rewrite forallb_forall in H; specialize (H e Hin) end.
    repeat match goal with H : _ && _ = true |- _ => apply andb_true_iff in H; destruct H end.
    repeat match goal with H : (_ =? _) = true |- _ => apply Z.eqb_eq in H end.
    split; [exact I|]. split; [assumption|right; assumption].
Qed.

Lemma nonempty_valid {A} (es : list A) (b : bool) : es <> [] -> (zlen es =? 0) || b = true -> b = true.
Proof.
  intros Hne H. apply orb_true_iff in H. destruct H as [H|H]; [|exact H].
  apply Z.eqb_eq in H. destruct es; [congruence|unfold zlen in H; cbn in H; lia].
Qed.

Lemma hdr_typed_of_wf v : wf v = true -> kids_of DLeaf v <> [] -> hdr_typed (type_of v) (et_of v) (kt_of v).
Proof.
  intros Hwf Hne. unfold hdr_typed.
  destruct v as [b|z|z|z|z|z|s|fs|kt vt es|et es|et es]; cbn [kids_of] in Hne; try congruence; cbn [type_of et_of kt_of wf] in *.
  - split; [reflexivity|]. split; [left; reflexivity|discriminate].
  - assert (Hes : es <> []) by (intros ->; apply Hne; reflexivity).
    apply andb_true_iff in Hwf. destruct Hwf as [Hwf _]. apply andb_true_iff in Hwf. destruct Hwf as [_ Hv].
    apply (nonempty_valid es _ Hes) in Hv. apply andb_true_iff in Hv. destruct Hv as [Hk Hvt].
    split; [reflexivity|]. split; [right; exact Hvt|intros _; exact Hk].
  - assert (Hes : es <> []) by (intros ->; apply Hne; reflexivity).
    apply andb_true_iff in Hwf. destruct Hwf as [Hwf _]. apply andb_true_iff in Hwf. destruct Hwf as [_ Hv].
    apply (nonempty_valid es _ Hes) in Hv. split; [reflexivity|]. split; [right; exact Hv|discriminate].
  - assert (Hes : es <> []) by (intros ->; apply Hne; reflexivity).
    apply andb_true_iff in Hwf. destruct Hwf as [Hwf _]. apply andb_true_iff in Hwf. destruct Hwf as [_ Hv].
    apply (nonempty_valid es _ Hes) in Hv. split; [reflexivity|]. split; [right; exact Hv|discriminate].
Qed.

Lemma key_typed_fits kt k : key_typed T_MAP kt k -> key_fits kt k.
Proof.
  intros Hk. destruct (key_typed_map_facts kt k Hk) as [_ [_ Hkk]].
  unfold key_typed in Hk. change (T_MAP =? T_STRUCT) with false in Hk. change (T_MAP =? T_MAP) with true in Hk. cbn iota in Hk.
  destruct k as [|id|i|s|n|b]; try contradiction; cbn [key_fits].
  - tauto.
  - unfold int_key_range in Hk. unfold is_int_type.
    destruct (kt =? T_BYTE); [reflexivity|]. destruct (kt =? T_I16); [rewrite orb_true_r; reflexivity|].
    destruct (kt =? T_I32); [rewrite !orb_true_r; reflexivity|]. destruct (kt =? T_I64); [rewrite !orb_true_r; reflexivity|discriminate].
  - destruct Hk as [Hs [Hi [kv [Hw [Ht Hb]]]]]. split; [exact Hs|]. split; [exact Hi|].
    subst b kt. unfold val_of_key. rewrite decode_encode_exact by exact Hw. reflexivity.
Qed.

Lemma typed_hist_ok t et kt raw : forall ops kids, Forall (op_typed t et kt) ops -> hist_ok (DNode t et kt raw kids) ops.
Proof.
  induction ops as [|o ops IH]; intros kids Ho; cbn [hist_ok]; [exact I|]. inversion Ho as [|? ? Ho1 Ho']; subst. split.
  - destruct o as [k x|k|k]; cbn [step_ok open_node]; try exact I. intros ->. destruct Ho1 as [Hk _]. apply key_typed_fits. exact Hk.
  - rewrite dom_step_kids. apply IH. exact Ho'.
Qed.

(* ================= the full statement, every container root, every typed history ================= *)
Theorem tree_history_full rec v ops :
  wf v = true -> kids_of DLeaf v <> [] ->
  Forall (op_typed (type_of v) (et_of v) (kt_of v)) ops ->
  zlen (init_slots v) + zlen ops < 2 ^ 31 ->
  exists v',
    val_of_slots (type_of v) (et_of v) (kt_of v) (fold_left aslots_step ops (init_slots v)) = Some v' /\
    marshal (tree_of_dom (fold_left dom_step ops (dom_of rec false v))) = Some (encode v') /\
    wf v' = true /\
    decode (S (length (encode v'))) (type_of v') (encode v') = Some (v', []).
Proof.
  intros Hwf Hne Hops Hlen. destruct (dom_of_sound rec v Hwf) as [Hv Hok].
  unfold dom_of in *. set (f := if rec then dom_deep false else DLeaf) in *.
  assert (Hch : forall c, child_of c v -> val_of_dom (f c) = Some c).
  { intros c Hc. subst f. destruct rec; [apply dom_deep_sound; eapply wf_child; eauto|reflexivity]. }
  pose proof (slots_of_kids f v Hch) as Hsl.
  assert (Hk : kids_of f v <> []).
  { intros E. apply Hne. pose proof Hsl as Hs2. rewrite E in Hs2. unfold init_slots, slots_of in Hs2. cbn in Hs2.
    destruct (kids_of DLeaf v); [reflexivity|discriminate]. }
  destruct (kids_of f v) as [|k0 kr] eqn:Ek; [congruence|]. rewrite <- Ek in *. clear Ek k0 kr.
  set (t := type_of v) in *. set (et := et_of v) in *. set (kt := kt_of v) in *.
  pose proof (init_slots_wf v Hwf) as Hsw. fold t et kt in Hsw.
  destruct (aslots_history_wf t et kt ops (init_slots v) Hsw Hops) as [Hsw' Hl'].
  pose proof (hdr_typed_of_wf v Hwf Hne) as Hh. fold t et kt in Hh.
  pose proof (tree_history_slots ops t et kt (encode v) (kids_of f v)) as Hts. rewrite Hsl in Hts.
  destruct (dom_history_marshal ops _ Hok ltac:(discriminate) (typed_hist_ok t et kt (encode v) ops _ Hops)) as [v' [Hv' Hm]].
  exists v'. rewrite Hts in Hv'. split; [exact Hv'|]. split; [exact Hm|].
  assert (Hw' : wf v' = true).
  { apply (wf_of_slots t et kt _ v' Hsw' Hh); [|exact Hv']. unfold zlen in *. lia. }
  split; [exact Hw'|]. apply decode_encode_exact. exact Hw'.
Qed.

(* struct and map roots with distinct keys: the value denoted by the edited tree and the plainly edited value
   fold ast_step ops v have the same fields / entries (equality up to their order), for ANY typed history *)
Theorem tree_history_ast_ext v ops : wf v = true -> type_of v = T_STRUCT \/ type_of v = T_MAP ->
  NoDup (map fst (init_slots v)) ->
  Forall (op_typed (type_of v) (et_of v) (kt_of v)) ops ->
  forall v', val_of_slots (type_of v) (et_of v) (kt_of v) (fold_left aslots_step ops (init_slots v)) = Some v' ->
  forall k, vget v' k = vget (fold_left ast_step ops v) k.
Proof.
  intros Hwf Ht Hnd Hops v' Hv' k.
  pose proof (init_slots_wf v Hwf) as Hsw.
  assert (Hv0 : val_of_slots (type_of v) (et_of v) (kt_of v) (init_slots v) = Some v).
  { destruct (dom_of_sound false v Hwf) as [Hv _]. unfold dom_of in Hv.
    destruct (kids_of DLeaf v) as [|k0 kr] eqn:Ek.
    - unfold init_slots. rewrite Ek. destruct v; cbn in Ek |- *; try (destruct Ht; discriminate);
      match goal with H : map _ ?l = [] |- _ => destruct l; [reflexivity|discriminate] end.
    - rewrite <- Ek in Hv. rewrite val_of_node in Hv. exact Hv. }
  destruct (ventries_of_slots _ _ _ _ v Ht Hsw Hv0) as [He Hsh].
  apply (slots_history_ext (type_of v) (et_of v) (kt_of v) Ht ops (init_slots v) v) with (v' := v'); try assumption.
  - rewrite He. apply live_of_nodup. exact Hnd.
  - intros k0. rewrite He. apply find_live_of. exact Hnd.
Qed.

(* ---------------- list / set roots: histories of sets by index are exactly the plain value edits ---------------- *)
Definition idx_slots (j : Z) (es : list tval) : aslots := index_keys j (map Some es).

Lemma init_slots_list v es : (exists et, v = VList et es \/ v = VSet et es) -> init_slots v = idx_slots 0 es.
Proof.
  intros [et [-> | ->]]; unfold init_slots, idx_slots; cbn [kids_of]; unfold slots_of; generalize 0;
  induction es as [|e es IH]; intros j; cbn [map index_keys fst snd val_of_dom]; try reflexivity; rewrite IH; reflexivity.
Qed.

Lemma upd_kid_absent {A} k (g : A -> A) (l : list (pkey * A)) : has_kid k l = false -> upd_kid k g l = l.
Proof.
  unfold has_kid. induction l as [|[k0 c] l IH]; cbn [upd_kid find_kid fst snd]; [reflexivity|].
  destruct (key_eqb k0 k); [discriminate|]. intros H. rewrite IH by exact H. reflexivity.
Qed.

Lemma aslots_set_index s i x : aslots_step s (OSet (KIndex i) x) = upd_kid (KIndex i) (fun _ => Some x) s.
Proof. cbn [aslots_step is_index_key]. destruct (has_kid (KIndex i) s) eqn:E; [reflexivity|]. symmetry. apply upd_kid_absent. exact E. Qed.

Lemma upd_idx_slots x i : forall es j,
  upd_kid (KIndex i) (fun _ => Some x) (idx_slots j es) =
  idx_slots j (if (j <=? i) && (i <? j + zlen es) then ast_upd_nth (Z.to_nat (i - j)) x es else es).
Proof.
  unfold idx_slots. induction es as [|e es IH]; intros j.
  - cbn [map index_keys upd_kid]. destruct ((j <=? i) && (i <? j + zlen (@nil tval))); [destruct (Z.to_nat (i - j))|]; reflexivity.
  - cbn [map index_keys upd_kid fst snd key_eqb]. replace (zlen (e :: es)) with (1 + zlen es) by (unfold zlen; cbn [length]; lia).
    destruct (Z.eqb_spec j i) as [-> |Hne].
    + destruct (Z.leb_spec i i); [|lia]. destruct (Z.ltb_spec i (i + (1 + zlen es))); [|unfold zlen in *; lia].
      cbn [andb]. rewrite Z.sub_diag. cbn [Z.to_nat ast_upd_nth map index_keys]. reflexivity.
    + rewrite IH. f_equal.
      destruct (Z.leb_spec (j + 1) i), (Z.ltb_spec i (j + 1 + zlen es)), (Z.leb_spec j i), (Z.ltb_spec i (j + (1 + zlen es)));
        cbn [andb]; try lia; try reflexivity.
      replace (Z.to_nat (i - j)) with (S (Z.to_nat (i - (j + 1)))) by lia. cbn [ast_upd_nth map]. reflexivity.
Qed.

Definition index_set_op (o : top) : Prop := match o with OSet (KIndex _) _ => True | OGet _ => True | _ => False end.

Lemma live_idx_slots es : forall j, map snd (live_of (idx_slots j es)) = es.
Proof. unfold idx_slots, live_of. induction es as [|e es IH]; intros j; cbn [map index_keys flat_map fst snd app]; [reflexivity|]. rewrite IH. reflexivity. Qed.

Theorem list_history_sets et es : forall ops, Forall index_set_op ops ->
  val_of_slots T_LIST et 0 (fold_left aslots_step ops (idx_slots 0 es)) = Some (fold_left ast_step ops (VList et es)) /\
  val_of_slots T_SET et 0 (fold_left aslots_step ops (idx_slots 0 es)) = Some (fold_left ast_step ops (VSet et es)).
Proof.
  intros ops. revert es. induction ops as [|o ops IH]; intros es Ho.
  - cbn [fold_left]. unfold val_of_slots. cbn. rewrite live_idx_slots. auto.
  - inversion Ho as [|? ? Ho1 Ho']; subst. cbn [fold_left]. destruct o as [k x|k|k]; cbn [index_set_op] in Ho1; try contradiction.
    + destruct k as [|id|i|s|n|b]; try contradiction. rewrite aslots_set_index, upd_idx_slots.
      cbn [ast_step]. rewrite Z.add_0_l, Z.sub_0_r.
      destruct ((0 <=? i) && (i <? zlen es)); apply IH; exact Ho'.
    + cbn [aslots_step ast_step]. apply IH. exact Ho'.
Qed.
