(* C10: theorems about the spec-level edits (model/ProtoEdit.v) and the PathNode marshaller. *)
From Coq Require Import ZArith List Bool Arith Lia.
From DG Require Import CaseFormat ProtoWireRef ProtoWireRefProofs ProtoMsg ProtoMsgProofs ProtoSpecLen ProtoSpecLenProofs
  ProtoRelen ProtoRelenProofs ProtoEdit.
Import ListNotations.
Local Open Scope Z_scope.

(* ---------------------------------------------------------------- every successful edit yields a well-formed message *)
Lemma pset_wf S root m p x m' e : pset S root m p x = Some (m', e) -> wf_msg S root m' = true.
Proof.
  unfold pset. destruct (pset_at S LSingular (TMsg root) (VMsg m) p x) as [[v e']|]; [|discriminate].
  destruct v; try discriminate. destruct (wf_msg S root fs) eqn:E; [|discriminate].
  intros H. inversion H. subst. exact E.
Qed.

Lemma punset_wf S root m p m' r : wf_msg S root m = true -> punset S root m p = Some (m', r) -> wf_msg S root m' = true.
Proof.
  intros Hm. unfold punset. destruct p as [|st rest]; [discriminate|].
  destruct (punset_at S LSingular (TMsg root) (VMsg m) (st :: rest)) as [| | |v]; try discriminate.
  - intros H. inversion H. subst. exact Hm.
  - destruct v; try discriminate. destruct (wf_msg S root fs) eqn:E; [|discriminate].
    intros H. inversion H. subst. exact E.
Qed.

Lemma pset_many_wf S root xs : forall m m', wf_msg S root m = true -> pset_many S root m xs = Some m' -> wf_msg S root m' = true.
Proof.
  induction xs as [|[n x] r IH]; intros m m' Hm; cbn [pset_many].
  - intros H. inversion H. subst. exact Hm.
  - destruct (pset S root m [PField n] x) as [[m1 e]|] eqn:E; [|discriminate].
    apply IH. eapply pset_wf. exact E.
Qed.

Lemma pstep_op_wf S root m o m' : wf_msg S root m = true -> pstep_op S root m o = Some m' -> wf_msg S root m' = true.
Proof.
  intros Hm. destruct o as [p x|p|xs]; cbn [pstep_op].
  - destruct (pset S root m p x) as [[m1 e]|] eqn:E; [|discriminate]. intros H. inversion H. subst. eapply pset_wf; exact E.
  - destruct (punset S root m p) as [[m1 r]|] eqn:E; [|discriminate]. intros H. inversion H. subst. eapply punset_wf; eassumption.
  - destruct xs as [|a xs]; [intros H; inversion H; subst; exact Hm|].
    destruct (nodupb Z.eqb (map fst (a :: xs))); [|discriminate]. apply pset_many_wf. exact Hm.
Qed.

Lemma pstep_total_wf S root m o : wf_msg S root m = true -> wf_msg S root (pstep_total S root m o) = true.
Proof.
  intros Hm. unfold pstep_total. destruct (pstep_op S root m o) as [m'|] eqn:E; [|exact Hm].
  eapply pstep_op_wf; eassumption.
Qed.

(* the re-encoded result decodes to exactly the edited message: every length prefix is consistent *)
Theorem pset_roundtrip S root m p x m' e :
  pset S root m p x = Some (m', e) -> decode_top S root (encode_msg m') = Some m'.
Proof. intros H. apply decode_top_encode. eapply pset_wf. exact H. Qed.

(* histories: the invariant holds after EVERY prefix of operations (failed operations leave the state) *)
Lemma fold_wf S root ops : forall m, wf_msg S root m = true -> wf_msg S root (fold_left (pstep_total S root) ops m) = true.
Proof.
  induction ops as [|o r IH]; intros m Hm; cbn [fold_left]; [exact Hm|].
  apply IH. apply pstep_total_wf. exact Hm.
Qed.

Theorem history_wf S root m ops k :
  wf_msg S root m = true ->
  let mk := fold_left (pstep_total S root) (firstn k ops) m in
  wf_msg S root mk = true /\ decode_top S root (encode_msg mk) = Some mk.
Proof.
  intros Hm mk. assert (H : wf_msg S root mk = true) by (apply fold_wf; exact Hm).
  split; [exact H|]. apply decode_top_encode. exact H.
Qed.

(* ---------------------------------------------------------------- the marshaller writes the canonical encoding *)
Section MarshalProofs.
  Variable jk : list Z -> list Z.
  Hypothesis jk_cap : forall b, (9 <= length (jk b))%nat.

  Lemma with_spec_correct b body payload :
    plen payload < 2 ^ 31 ->
    (forall b1, body b1 = b1 ++ payload) ->
    with_spec jk b body = b ++ varint_enc (plen payload) ++ payload.
  Proof.
    intros Hlen Hbody. unfold with_spec, append_spec. rewrite Hbody.
    rewrite <- app_assoc.
    apply (finish_spec_correct b 0 payload).
    - unfold plen in Hlen. apply Nat2Z.inj_lt.
      replace (Z.of_nat (2 ^ 31)%nat) with (2 ^ 31)%Z by (rewrite Nat2Z.inj_pow; reflexivity). exact Hlen.
    - apply jk_cap.
  Qed.

  Lemma fold_append {A} (F : list Z -> A -> list Z) (g : A -> list Z) (l : list A) :
    Forall (fun a => forall acc, F acc a = acc ++ g a) l ->
    forall b, fold_left F l b = b ++ flat_map g l.
  Proof.
    induction 1 as [|a r Ha _ IH]; intros b; cbn [fold_left flat_map]; [rewrite app_nil_r; reflexivity|].
    rewrite Ha, IH, <- app_assoc. reflexivity.
  Qed.

  Lemma wenc_flat_map {A} (h : A -> list wfield) (l : list A) :
    wenc (flat_map h l) = flat_map (fun a => wenc (h a)) l.
  Proof. induction l as [|a r IH]; cbn [flat_map]; [reflexivity|]. rewrite wenc_app, IH. reflexivity. Qed.

  Lemma wenc_single f : wenc [f] = wenc_field f.
  Proof. rewrite wenc_cons. cbn. apply app_nil_r. Qed.

  Lemma wenc_bytes_field n bs : wenc_field (n, WBytes bs) = tag_bytes n 2 ++ varint_enc (plen bs) ++ bs.
  Proof. reflexivity. Qed.

  (* every field value is written as its canonical wire records, whatever the buffer in front of it *)
  Theorem mar_fld_correct v : forall n b, sizes_okb v = true -> mar_fld jk n v b = b ++ wenc (wfld n v).
  Proof.
    induction v as [k x|k bs|fs IH|q vs IH|kvs IH] using pval_ind'; intros n b Hs.
    - cbn [mar_fld wfld]. rewrite wenc_single. reflexivity.
    - cbn [mar_fld wfld]. rewrite wenc_single. reflexivity.
    - cbn [mar_fld wfld sizes_okb] in *. apply andb_true_iff in Hs as [Hlen Hall]. apply Z.ltb_lt in Hlen.
      rewrite wenc_single, wenc_bytes_field.
      rewrite (with_spec_correct (b ++ tag_bytes n 2) _ (wenc (flat_map (fun nv => wfld (fst nv) (snd nv)) fs))).
      + rewrite <- app_assoc. reflexivity.
      + exact Hlen.
      + intros b1. rewrite wenc_flat_map.
        apply (fold_append (fun acc nv => mar_fld jk (fst nv) (snd nv) acc) (fun nv => wenc (wfld (fst nv) (snd nv)))).
        rewrite forallb_forall in Hall. rewrite Forall_forall in *. intros nv Hin acc.
        apply IH; [exact Hin|apply Hall; exact Hin].
    - destruct q.
      + cbn [mar_fld wfld sizes_okb] in *. apply Z.ltb_lt in Hs.
        rewrite wenc_single, wenc_bytes_field.
        rewrite (with_spec_correct (b ++ tag_bytes n 2) _ (flat_map packed_elem vs)).
        * rewrite <- app_assoc. reflexivity.
        * exact Hs.
        * intros b1. reflexivity.
      + cbn [mar_fld wfld sizes_okb] in *. rewrite wenc_flat_map.
        apply (fold_append (fun acc x => mar_fld jk n x acc) (fun x => wenc (wfld n x))).
        rewrite forallb_forall in Hs. rewrite Forall_forall in *. intros x Hin acc.
        apply IH; [exact Hin|apply Hs; exact Hin].
    - cbn [mar_fld wfld sizes_okb] in *.
      assert (E : wenc (map (fun kx => (n, WBytes (wenc (key_field (fst kx) :: wfld 2 (snd kx))))) kvs)
                  = flat_map (fun kx => wenc_field (n, WBytes (wenc (key_field (fst kx) :: wfld 2 (snd kx))))) kvs).
      { clear. induction kvs as [|kx r IHr]; [reflexivity|]. cbn [map flat_map]. rewrite wenc_cons, IHr. reflexivity. }
      rewrite E.
      apply (fold_append _ (fun kx => wenc_field (n, WBytes (wenc (key_field (fst kx) :: wfld 2 (snd kx)))))).
      rewrite forallb_forall in Hs. rewrite Forall_forall in *. intros kx Hin acc.
      specialize (Hs kx Hin). apply andb_true_iff in Hs as [Hlen Hv]. apply Z.ltb_lt in Hlen.
      rewrite wenc_bytes_field.
      rewrite (with_spec_correct (acc ++ tag_bytes n 2) _ (wenc (key_field (fst kx) :: wfld 2 (snd kx)))).
      + rewrite <- app_assoc. reflexivity.
      + exact Hlen.
      + intros b1. rewrite (IH kx Hin 2 _ Hv). rewrite wenc_cons, <- app_assoc. reflexivity.
  Qed.

  Theorem pmarshal_correct m : sizes_okb (VMsg m) = true -> pmarshal jk m = encode_msg m.
  Proof.
    intros Hs. cbn [sizes_okb] in Hs. apply andb_true_iff in Hs as [_ Hall].
    unfold pmarshal, encode_msg, msg_wire. rewrite wenc_flat_map.
    change (flat_map (fun a => wenc (wfld (fst a) (snd a))) m) with ([] ++ flat_map (fun a => wenc (wfld (fst a) (snd a))) m).
    apply (fold_append (fun acc nv => mar_fld jk (fst nv) (snd nv) acc) (fun nv => wenc (wfld (fst nv) (snd nv)))).
    rewrite forallb_forall in Hall. apply Forall_forall. intros nv Hin acc.
    apply mar_fld_correct. apply Hall. exact Hin.
  Qed.

  (* Load (the decoder) then Marshal of a canonical encoding: the same bytes, hence the same message *)
  Theorem pmarshal_pload S root m :
    wf_msg S root m = true -> sizes_okb (VMsg m) = true ->
    exists t, pload S root (encode_msg m) = Some t /\
              pmarshal jk t = encode_msg m /\
              decode_top S root (pmarshal jk t) = Some m.
  Proof.
    intros Hwf Hs. exists m. unfold pload.
    rewrite decode_top_encode by exact Hwf. split; [reflexivity|].
    rewrite pmarshal_correct by exact Hs. split; [reflexivity|].
    apply decode_top_encode. exact Hwf.
  Qed.
End MarshalProofs.

(* ---------------------------------------------------------------- the loop as coded vs. the walk over every ancestor *)
Lemma relen_coded_fold addrs : forall b d pk,
  rs_buf (fold_left relen_coded_step (map (fun a => (a, PT_FIELD)) addrs) (mk_rstate b d 1 pk)) = fst (relen b d addrs).
Proof.
  induction addrs as [|a r IH]; intros b d pk; [reflexivity|].
  cbn [map fold_left]. unfold relen. cbn [fold_left fst snd].
  unfold relen_coded_step at 2. cbn [rs_prev rs_buf rs_diff rs_packed]. cbn [Z.eqb orb].
  destruct (relen_step b d a) as [[b' d'] ip]. fold (relen b' d' r).
  destruct ip; cbn [prev_of_pt PT_FIELD]; apply IH.
Qed.

(* paths made of field steps only (messages inside messages): the coded loop touches every ancestor, i.e. it IS relen.
   a0 = address of the target's own level (never touched). *)
Theorem relen_coded_fields b d pk a0 addrs :
  relen_coded b d pk ((a0, PT_FIELD) :: map (fun a => (a, PT_FIELD)) addrs) = fst (relen b d addrs).
Proof.
  unfold relen_coded. cbn [fold_left]. unfold relen_coded_step at 2. cbn [rs_prev rs_packed rs_buf rs_diff Z.eqb orb andb].
  apply relen_coded_fold.
Qed.

(* ---------------------------------------------------------------- relen on wire trees (ProtoMsg.wenc) *)
Definition wframe := (list wfield * Z * list wfield)%type.
Definition to_frame (f : wframe) : frame :=
  (wenc (fst (fst f)), varint_enc (snd (fst f) * 8 + 2), wenc (snd f)).
(* the wire tree around the records x, frames inside-out *)
Fixpoint wwrap (fr : list wframe) (x : list wfield) : list wfield :=
  match fr with
  | [] => x
  | f :: outer => wwrap outer [(snd (fst f), WBytes (wenc (fst (fst f) ++ x ++ snd f)))]
  end.

Lemma wrapE_wire fr : forall x, wrapE (map to_frame fr) (wenc x) = wenc (wwrap fr x).
Proof.
  induction fr as [|f outer IH]; intros x; [reflexivity|].
  cbn [map wrapE wwrap]. rewrite <- IH. f_equal.
  unfold encE1, fr_body, to_frame, fr_tag, fr_pre, fr_post. cbn [fst snd].
  rewrite wenc_cons. cbn [wenc flat_map]. rewrite app_nil_r. unfold wenc_field. cbn [fst snd wt_of_wval wenc_val].
  rewrite !wenc_app. reflexivity.
Qed.

(* buffer = encoding of a wire tree in which the records xo lie under the length-delimited ancestors fr (messages,
   packed lists, map entries all encode as (n, WBytes payload)); replacing the span of xo by the encoding of xn and
   re-patching every ancestor gives the encoding of the tree with xo replaced by xn *)
Theorem relen_correct_wire fr xo xn R1 R2 :
  frames_ok (map to_frame fr) (wenc xo) (wenc xn) -> frames_nonempty (map to_frame fr) (wenc xn) ->
  let b := wenc (R1 ++ wwrap fr xo ++ R2) in
  let s := (length (wenc R1) + length (ctxA (map to_frame fr) (wenc xo)))%nat in
  let b1 := splice b s (s + length (wenc xo)) (wenc xn) in
  fst (relen b1 (blen b1 - blen b) (map (fun a => (length (wenc R1) + a)%nat) (frame_addrs (map to_frame fr) (wenc xo))))
  = wenc (R1 ++ wwrap fr xn ++ R2).
Proof.
  intros Hok Hne b s b1. unfold b1, s, b.
  rewrite !wenc_app, <- !wrapE_wire.
  apply relen_correct_nonempty; assumption.
Qed.

(* ---------------------------------------------------------------- the flagged transcription of updateByteLen
   (ProtoEditCoded.relen_coded_g) with every repair flag off IS ProtoRelen.relen_coded, the loop of the pinned tree *)
From DG Require Import ProtoEditCoded.

Lemma relen_step_g_true b d a : relen_step_g true b d a = relen_step b d a.
Proof.
  unfold relen_step_g, relen_step.
  destruct (varint_dec (skipn a b)) as [v tagOff].
  destruct (varint_dec (skipn (Z.to_nat tagOff) (skipn a b))) as [len lenOff].
  rewrite andb_true_r. reflexivity.
Qed.

Lemma relen_coded_step_g_old st a pt :
  relen_coded_step_g no_fixes st (Z.of_nat a, pt) = relen_coded_step st (a, pt).
Proof.
  unfold relen_coded_step_g, relen_coded_step. cbn [fx_mapentry fx_emptied no_fixes andb orb].
  rewrite Nat2Z.id, relen_step_g_true. rewrite orb_false_r.
  destruct ((rs_prev st =? 1) || (rs_prev st =? 2) && rs_packed st); [|reflexivity].
  destruct (relen_step (rs_buf st) (rs_diff st) a) as [[b' d'] ip]. cbn [negb]. rewrite andb_true_r. reflexivity.
Qed.

Theorem relen_coded_g_old b d pk lv :
  relen_coded_g no_fixes b d pk (map (fun l => (Z.of_nat (fst l), snd l)) lv) = relen_coded b d pk lv.
Proof.
  unfold relen_coded_g, relen_coded. generalize (mk_rstate b d 0 pk) as st.
  induction lv as [|[a pt] r IH]; intros st; [reflexivity|].
  cbn [map fold_left fst snd]. rewrite relen_coded_step_g_old. apply IH.
Qed.
