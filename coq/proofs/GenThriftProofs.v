(* (G) the model's leaf tables are the ones in the Go source (regenerated every run). Types are bytes: 0..255. *)
From Coq Require Import ZArith List Bool Lia.
From DG Require Import GoSem GoSemLemmas ProtoWireRef ProtoWireRefProofs ThriftWire ThriftWireProofs ThriftGeneric ThriftEnvelope Gen_thrift GenProtowireProofs.
Import ListNotations.
Local Open Scope Z_scope.

Lemma byte_sweep (P : Z -> bool) : forallb P (seqZ 0 256) = true -> forall t, 0 <= t < 256 -> P t = true.
Proof. intros H t Ht. rewrite forallb_forall in H. apply H. apply seqZ_In. exact Ht. Qed.

Theorem typeSize_is_fixed_size t : 0 <= t < 256 -> typeSize t = fixed_size t.
Proof. intros H. apply Z.eqb_eq. revert t H. apply byte_sweep. vm_compute. reflexivity. Qed.

Theorem Type_IsInt_is_int_type t : 0 <= t < 256 -> Type_IsInt t = is_int_type t.
Proof. intros H. apply eqb_prop. revert t H. apply byte_sweep. vm_compute. reflexivity. Qed.

Theorem Type_IsComplex_is_container t : 0 <= t < 256 -> Type_IsComplex t = is_container t.
Proof. intros H. apply eqb_prop. revert t H. apply byte_sweep. vm_compute. reflexivity. Qed.

Theorem Type_Valid_is_type_valid t : 0 <= t < 256 -> Type_Valid t = type_valid t.
Proof. intros H. apply eqb_prop. revert t H. apply byte_sweep. vm_compute. reflexivity. Qed.

(* big-endian reads of the generated decoders = the model's dec_int on the first n bytes *)
Lemma be_acc_le_dec n : forall bs acc, length bs = n -> be_acc n bs acc = acc * 256 ^ Z.of_nat n + le_dec n (rev bs).
Proof.
  induction n as [|n IH]; intros bs acc Hl.
  - destruct bs; [|discriminate]. cbn. lia.
  - destruct bs as [|x r]; [discriminate|]. cbn [be_acc rev]. injection Hl as Hl.
    rewrite IH by exact Hl.
    assert (E : le_dec (S n) (rev r ++ [x]) = le_dec n (rev r) + x * 256 ^ Z.of_nat n).
    { clear IH. assert (Hr : length (rev r) = n) by (rewrite rev_length; exact Hl).
      revert Hr. generalize (rev r) as l. clear. revert x.
      induction n as [|n IH]; intros x l Hr.
      - destruct l; [|discriminate]. cbn. lia.
      - destruct l as [|y l]; [discriminate|]. injection Hr as Hr. cbn [app]. 
        change (le_dec (S (S n)) (y :: l ++ [x])) with (y + 256 * le_dec (S n) (l ++ [x])).
        rewrite IH by exact Hr. cbn [le_dec]. rewrite (Nat2Z.inj_succ n), Z.pow_succ_r by lia. lia. }
    rewrite E. rewrite (Nat2Z.inj_succ n), Z.pow_succ_r by lia. lia.
Qed.

Theorem be_get_dec_uint n bs : length bs = n -> be_get (Z.of_nat n) bs = dec_uint bs.
Proof. intros H. unfold be_get, dec_uint. rewrite Nat2Z.id, H. rewrite be_acc_le_dec by exact H. lia. Qed.

Theorem DecodeInt32_is_dec_int bs : length bs = 4%nat -> bytes_ok bs -> BinaryEncoding_DecodeInt32 bs = dec_int bs.
Proof.
  intros Hl Hb. unfold BinaryEncoding_DecodeInt32. change 4 with (Z.of_nat 4). rewrite be_get_dec_uint by exact Hl.
  unfold dec_int, to_s, wraps. rewrite Hl. reflexivity.
Qed.

Theorem DecodeInt16_is_dec_int bs : length bs = 2%nat -> bytes_ok bs -> BinaryEncoding_DecodeInt16 bs = dec_int bs.
Proof.
  intros Hl Hb. unfold BinaryEncoding_DecodeInt16. change 2 with (Z.of_nat 2). rewrite be_get_dec_uint by exact Hl.
  unfold dec_int, to_s, wraps. rewrite Hl. reflexivity.
Qed.

Theorem DecodeInt64_is_dec_int bs : length bs = 8%nat -> bytes_ok bs -> BinaryEncoding_DecodeInt64 bs = dec_int bs.
Proof.
  intros Hl Hb. unfold BinaryEncoding_DecodeInt64. change 8 with (Z.of_nat 8). rewrite be_get_dec_uint by exact Hl.
  unfold dec_int, to_s, wraps. rewrite Hl. reflexivity.
Qed.
