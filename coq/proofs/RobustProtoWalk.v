(* C06 for the protobuf walkers, on ARBITRARY input:
     (A) model/P2JBytes.v        conv/p2j byte walk: every remainder is a suffix of the current buffer at a
                                 position 1..|bs| (cursor in bounds + progress); output length linear in the input
     (B) model/ProtoGenericAlg.v proto/generic path search (explicit offsets): offsets stay inside the buffer,
                                 the fuels the definitions give themselves suffice, no Panic result once 710 is fixed
   Builds on proofs/RobustWalkProofs.v (shrink / fuel-stability lemmas). *)
From Coq Require Import ZArith List Bool Lia.
From DG Require Import ProtoWireRef ProtoWireRefProofs CaseFormat ProtoMsg Json Num Base64 P2J P2JBytes RobustWalkProofs.
Import ListNotations.
Local Open Scope Z_scope.

(* ================================================================== (A1) remainders are suffixes *)

Lemma ptake_suffix n bs x r : ProtoMsg.take n bs = Some (x, r) -> suffix_of r bs.
Proof.
  unfold ProtoMsg.take. destruct ((0 <=? n) && (n <=? plen bs)); [|discriminate].
  intros H; inversion H; subst. apply suffix_skipn.
Qed.

Theorem wdec_val_suffix wt bs v r : wdec_val wt bs = Some (v, r) -> suffix_of r bs.
Proof.
  unfold wdec_val.
  destruct (wt =? 0).
  { destruct (varint_dec bs) as [x n]. destruct (n <? 0); [discriminate|].
    intros H; inversion H; subst. apply suffix_skipn. }
  destruct (wt =? 1).
  { destruct (ProtoMsg.take 8 bs) as [[x r1]|] eqn:E; [|discriminate]. intros H; inversion H; subst.
    eapply ptake_suffix; eassumption. }
  destruct (wt =? 5).
  { destruct (ProtoMsg.take 4 bs) as [[x r1]|] eqn:E; [|discriminate]. intros H; inversion H; subst.
    eapply ptake_suffix; eassumption. }
  destruct (wt =? 2); [|discriminate].
  destruct (varint_dec bs) as [l n]. destruct (n <? 0); [discriminate|].
  destruct (ProtoMsg.take l (skipn (Z.to_nat n) bs)) as [[x r1]|] eqn:Et; [|discriminate].
  intros H; inversion H; subst. eapply suffix_trans; [eapply ptake_suffix; eassumption | apply suffix_skipn].
Qed.

Lemma rd_tag_suffix bs num wt r : rd_tag bs = Some (num, wt, r) -> suffix_of r bs.
Proof.
  unfold rd_tag. destruct (varint_dec bs) as [tag n]. destruct (n <? 0); [discriminate|]. cbv zeta.
  destruct ((tag / 8 >? 2147483647) || (tag / 8 <? 1)); [discriminate|].
  intros H; inversion H; subst. apply suffix_skipn.
Qed.

Lemma rd_len_suffix bs l r : rd_len bs = Some (l, r) -> suffix_of r bs.
Proof.
  unfold rd_len. destruct (varint_dec bs) as [x n]. destruct (n <? 0); [discriminate|].
  intros H; inversion H; subst. apply suffix_skipn.
Qed.

Lemma skip_val_suffix wt bs r : skip_val wt bs = Some r -> suffix_of r bs.
Proof.
  unfold skip_val. destruct ((wt =? 0) || (wt =? 1) || (wt =? 2) || (wt =? 5)).
  - destruct (wdec_val wt bs) as [[v r1]|] eqn:E; [|discriminate]. intros H; inversion H; subst.
    eapply wdec_val_suffix; eassumption.
  - intros H; inversion H; subst. apply suffix_refl.
Qed.

Section P2JSuffix.
  Variable fl : Z -> list Z.
  Variable o : p2j_opts.
  Variable rec : list Z -> list Z -> option text.   (* ANY one-level-down message walker *)

  Lemma read_single_suffix t bs x r : read_single fl o rec t bs = Some (x, r) -> suffix_of r bs.
  Proof.
    unfold read_single. destruct t as [k|name].
    - destruct (is_byteskind k).
      + destruct (wdec_val 2 bs) as [[w r1]|] eqn:E; [|discriminate]. destruct w; try discriminate.
        intros H; inversion H; subst. eapply wdec_val_suffix; eassumption.
      + destruct (is_numeric k); [|discriminate].
        destruct (wdec_val (wt_of_kind k) bs) as [[w r1]|] eqn:E; [|discriminate].
        destruct (value_text fl o k (go_value k (wval_u w))); [|discriminate].
        intros H; inversion H; subst. eapply wdec_val_suffix; eassumption.
    - destruct (wdec_val 2 bs) as [[w r1]|] eqn:E; [|discriminate]. destruct w; try discriminate.
      destruct (rec name bs0); [|discriminate].
      intros H; inversion H; subst. eapply wdec_val_suffix; eassumption.
  Qed.

  Lemma unpacked_loop_suffix : forall f t n bs more rest,
    unpacked_loop fl o rec f t n bs = Some (more, rest) -> suffix_of rest bs.
  Proof.
    induction f as [|f IH]; intros t n bs more rest; destruct bs as [|c bs]; cbn [unpacked_loop];
      try discriminate; try (intros H; inversion H; subst; apply suffix_refl).
    destruct (rd_tag (c :: bs)) as [[[num wt] r]|] eqn:Et; [|discriminate]. apply rd_tag_suffix in Et.
    destruct (negb (num =? n)). { intros H; inversion H; subst. apply suffix_refl. }
    destruct (read_single fl o rec t r) as [[x r']|] eqn:Es; [|discriminate]. apply read_single_suffix in Es.
    destruct (unpacked_loop fl o rec f t n r') as [[m rs]|] eqn:El; [|discriminate]. apply IH in El.
    intros H; inversion H; subst. eauto using suffix_trans.
  Qed.

  Lemma read_entry_suffix kk t bs x r : read_entry fl o rec kk t bs = Some (x, r) -> suffix_of r bs.
  Proof.
    unfold read_entry.
    destruct (rd_len bs) as [[l r0]|] eqn:E0; [|discriminate]. apply rd_len_suffix in E0.
    destruct (rd_tag r0) as [[[n1 w1] r1]|] eqn:E1; [|discriminate]. apply rd_tag_suffix in E1.
    destruct (read_single fl o rec (TScalar kk) r1) as [[k r2]|] eqn:E2; [|discriminate]. apply read_single_suffix in E2.
    cbv zeta.
    destruct (rd_tag r2) as [[[n3 w3] r3]|] eqn:E3; [|discriminate]. apply rd_tag_suffix in E3.
    destruct (read_single fl o rec t r3) as [[v r4]|] eqn:E4; [|discriminate]. apply read_single_suffix in E4.
    intros H; inversion H; subst. eauto 6 using suffix_trans.
  Qed.

  Lemma map_loop_suffix : forall f kk t n bs more rest,
    map_loop fl o rec f kk t n bs = Some (more, rest) -> suffix_of rest bs.
  Proof.
    induction f as [|f IH]; intros kk t n bs more rest; destruct bs as [|c bs]; cbn [map_loop];
      try discriminate; try (intros H; inversion H; subst; apply suffix_refl).
    destruct (rd_tag (c :: bs)) as [[[num wt] r]|] eqn:Et; [|discriminate]. apply rd_tag_suffix in Et.
    destruct (negb (num =? n)). { intros H; inversion H; subst. apply suffix_refl. }
    destruct (read_entry fl o rec kk t r) as [[x r']|] eqn:Es; [|discriminate]. apply read_entry_suffix in Es.
    destruct (map_loop fl o rec f kk t n r') as [[m rs]|] eqn:El; [|discriminate]. apply IH in El.
    intros H; inversion H; subst. eauto using suffix_trans.
  Qed.

  Lemma walk_list_suffix n t wt bs x r : walk_list fl o rec n t wt bs = Some (x, r) -> suffix_of r bs.
  Proof.
    unfold walk_list. destruct ((wt =? 2) && type_numeric t).
    - destruct (rd_len bs) as [[l r0]|] eqn:E0; [|discriminate]. apply rd_len_suffix in E0.
      destruct (ProtoMsg.take l r0) as [[payload rest]|] eqn:E1; [|discriminate]. apply ptake_suffix in E1.
      destruct (packed_loop fl o rec (S (length payload)) t payload); [|discriminate].
      intros H; inversion H; subst. eauto using suffix_trans.
    - destruct (read_single fl o rec t bs) as [[y r0]|] eqn:E0; [|discriminate]. apply read_single_suffix in E0.
      destruct (unpacked_loop fl o rec (S (length r0)) t n r0) as [[m rs]|] eqn:E1; [|discriminate].
      apply unpacked_loop_suffix in E1. intros H; inversion H; subst. eauto using suffix_trans.
  Qed.

  Lemma walk_map_suffix n kk t bs x r : walk_map fl o rec n kk t bs = Some (x, r) -> suffix_of r bs.
  Proof.
    unfold walk_map.
    destruct (read_entry fl o rec kk t bs) as [[y r0]|] eqn:E0; [|discriminate]. apply read_entry_suffix in E0.
    destruct (map_loop fl o rec (S (length r0)) kk t n r0) as [[m rs]|] eqn:E1; [|discriminate].
    apply map_loop_suffix in E1. intros H; inversion H; subst. eauto using suffix_trans.
  Qed.

  Lemma walk_field_suffix fd wt bs x r : walk_field fl o rec fd wt bs = Some (x, r) -> suffix_of r bs.
  Proof.
    unfold walk_field. destruct (fd_label fd).
    - apply read_single_suffix.
    - apply walk_list_suffix.
    - apply walk_map_suffix.
  Qed.

  (* ================================================================== (A2) cursor form *)

  (* a suffix that is strictly shorter is the input from a position 1..|bs| *)
  Lemma suffix_shorter_pos r bs : suffix_of r bs -> (length r < length bs)%nat ->
    exists c, (1 <= c <= length bs)%nat /\ r = skipn c bs.
  Proof.
    intros [n ->] Hl. rewrite skipn_length in Hl.
    destruct (Nat.le_gt_cases n (length bs)) as [Hn|Hn].
    - exists n. split; [lia | reflexivity].
    - exists (length bs). split; [lia|]. rewrite skipn_all, skipn_all2 by lia. reflexivity.
  Qed.

  (* one field of a message: the cursor moves forward and stays inside the message buffer *)
  Theorem walk_field_cursor fd wt bs x r : walk_field fl o rec fd wt bs = Some (x, r) ->
    exists c, (1 <= c <= length bs)%nat /\ r = skipn c bs.
  Proof.
    intros H. apply suffix_shorter_pos; [eapply walk_field_suffix | eapply walk_field_shrinks]; eassumption.
  Qed.

  Theorem read_single_cursor t bs x r : read_single fl o rec t bs = Some (x, r) ->
    exists c, (1 <= c <= length bs)%nat /\ r = skipn c bs.
  Proof.
    intros H. apply suffix_shorter_pos; [eapply read_single_suffix | eapply read_single_shrinks]; eassumption.
  Qed.

  Theorem read_entry_cursor kk t bs x r : read_entry fl o rec kk t bs = Some (x, r) ->
    exists c, (1 <= c <= length bs)%nat /\ r = skipn c bs.
  Proof.
    intros H. apply suffix_shorter_pos; [eapply read_entry_suffix | eapply read_entry_shrinks]; eassumption.
  Qed.
End P2JSuffix.

Theorem rd_tag_cursor bs num wt r : rd_tag bs = Some (num, wt, r) ->
  exists c, (1 <= c <= length bs)%nat /\ r = skipn c bs.
Proof.
  intros H. apply suffix_shorter_pos; [eapply rd_tag_suffix | eapply rd_tag_shrinks]; eassumption.
Qed.

Theorem wdec_val_cursor wt bs v r : wdec_val wt bs = Some (v, r) ->
  exists c, (1 <= c <= length bs)%nat /\ r = skipn c bs.
Proof.
  intros H. apply suffix_shorter_pos; [eapply wdec_val_suffix | eapply wdec_val_shrinks]; eassumption.
Qed.

(* ================================================================== (B) proto/generic path search *)
From DG Require Import ProtoGeneric ProtoGenericAlg.

Lemma bytes_ok_skipn' n (l : list Z) : bytes_ok l -> bytes_ok (skipn n l).
Proof.
  intros H. unfold bytes_ok in *. rewrite <- (firstn_skipn n l) in H. apply Forall_app in H. tauto.
Qed.

Lemma bytes_ok_firstn' n (l : list Z) : bytes_ok l -> bytes_ok (firstn n l).
Proof.
  intros H. unfold bytes_ok in *. rewrite <- (firstn_skipn n l) in H. apply Forall_app in H. tauto.
Qed.

(* wire types whose Skip consumes at least one byte *)
Definition wt_progress (wt : Z) : Prop := wt = 0 \/ wt = 1 \/ wt = 2 \/ wt = 5.

Section GenericBounds.
Variable buf : list Z.
Hypothesis Hb : bytes_ok buf.

Definition inb (rd : Z) : Prop := 0 <= rd <= plen buf.

Lemma plen_nonneg' : 0 <= plen buf.
Proof. unfold plen. lia. Qed.

Lemma at_plen rd : inb rd -> plen (at_ buf rd) = plen buf - rd.
Proof. intros H. unfold inb, at_, plen in *. rewrite skipn_length. lia. Qed.

(* ---- (B1) the elementary reads *)

Lemma cvar_inb rd v n : inb rd -> cvar buf rd = Some (v, n) ->
  1 <= n <= 10 /\ rd + n <= plen buf /\ 0 <= v < 2 ^ 64.
Proof.
  intros Hrd. unfold cvar. destruct (varint_dec (at_ buf rd)) as [v0 n0] eqn:E.
  destruct (Z.ltb_spec n0 0); [discriminate|]. intros HH; inversion HH; subst.
  pose proof (varint_dec_result _ _ _ E) as Hr.
  pose proof (varint_dec_value _ _ _ (bytes_ok_skipn' _ _ Hb) E) as Hv.
  pose proof (at_plen rd Hrd) as Hl. unfold plen in Hl at 1. intuition lia.
Qed.

Lemma ctag_inb rd num wt n : inb rd -> ctag buf rd = Some (num, wt, n) ->
  1 <= n <= 10 /\ rd + n <= plen buf /\ 1 <= num <= 2147483647 /\ 0 <= wt < 8.
Proof.
  intros Hrd. unfold ctag. destruct (cvar buf rd) as [[v n0]|] eqn:E; [|discriminate].
  destruct (Z.gtb_spec (v / 8) 2147483647); cbn [orb]; [discriminate|].
  destruct (Z.ltb_spec (v / 8) 1); [discriminate|].
  intros HH; inversion HH; subst. apply (cvar_inb rd _ _ Hrd) in E.
  pose proof (Z.mod_pos_bound v 8). intuition lia.
Qed.

Definition skres_inb (rd wt : Z) (r : skres) : Prop :=
  match r with
  | SkOk rd' => rd <= rd' <= plen buf /\ (wt_progress wt -> rd < rd')
  | SkErr => True
  | SkPanic => False
  end.

Lemma askip_inb rd wt : inb rd -> skres_inb rd wt (askip buf rd wt).
Proof.
  intros Hrd. unfold askip, skres_inb, wt_progress. pose proof Hrd as [H0 H1].
  destruct (Z.eqb_spec wt 0) as [W0|W0].
  { destruct (cvar buf rd) as [[v n]|] eqn:E; [|exact I]. apply (cvar_inb rd _ _ Hrd) in E. lia. }
  destruct (Z.eqb_spec wt 5) as [W5|W5]. { destruct (Z.leb_spec (rd + 4) (plen buf)); [lia | exact I]. }
  destruct (Z.eqb_spec wt 1) as [W1|W1]. { destruct (Z.leb_spec (rd + 8) (plen buf)); [lia | exact I]. }
  destruct (Z.eqb_spec wt 2) as [W2|W2].
  { destruct (cvar buf rd) as [[v n]|] eqn:E; [|exact I]. apply (cvar_inb rd _ _ Hrd) in E.
    destruct (Z.gtb_spec v (plen buf - rd - n)); [exact I | lia]. }
  lia.
Qed.

Lemma askip_never_panics rd wt : askip buf rd wt <> SkPanic.
Proof.
  unfold askip.
  destruct (wt =? 0). { destruct (cvar buf rd) as [[v n]|]; discriminate. }
  destruct (wt =? 5). { destruct (rd + 4 <=? plen buf); discriminate. }
  destruct (wt =? 1). { destruct (rd + 8 <=? plen buf); discriminate. }
  destruct (wt =? 2); [|discriminate].
  destruct (cvar buf rd) as [[v n]|]; [|discriminate]. destruct (v >? plen buf - rd - n); discriminate.
Qed.

Lemma aread_length_inb rd len rd' : inb rd -> aread_length buf rd = Some (len, rd') ->
  rd < rd' <= plen buf /\ - 2 ^ 63 <= len < 2 ^ 63.
Proof.
  intros Hrd. unfold aread_length. destruct (cvar buf rd) as [[v n]|] eqn:E; [|discriminate].
  intros HH; inversion HH; subst. apply (cvar_inb rd _ _ Hrd) in E. split; [lia|].
  unfold to_s. change (2 ^ (64 - 1)) with (2 ^ 63). change (2 ^ 64) with (2 * 2 ^ 63).
  pose proof (Z.mod_pos_bound (v + 2 ^ 63) (2 * 2 ^ 63) ltac:(lia)). lia.
Qed.

Lemma aread_string_inb rd b rd' : inb rd -> aread_string buf rd = Some (b, rd') ->
  rd < rd' <= plen buf /\ plen b <= rd' - rd /\ bytes_ok b.
Proof.
  intros Hrd. unfold aread_string. destruct (cvar buf rd) as [[m n]|] eqn:E; [|discriminate].
  apply (cvar_inb rd _ _ Hrd) in E.
  destruct (Z.gtb_spec m (plen buf - rd - n)); [discriminate|].
  intros HH; inversion HH; subst. split; [lia|]. split.
  - unfold plen. rewrite firstn_length. lia.
  - apply bytes_ok_firstn', bytes_ok_skipn', Hb.
Qed.

Lemma aread_int_inb rd kk x rd' : inb rd -> aread_int buf rd kk = Some (x, rd') -> rd < rd' <= plen buf.
Proof.
  intros Hrd. unfold aread_int. pose proof Hrd as [H0 H1].
  destruct ((kk =? 5) || (kk =? 17) || (kk =? 3) || (kk =? 18) || (kk =? 13) || (kk =? 4)).
  { destruct (cvar buf rd) as [[u n]|] eqn:E; [|discriminate]. apply (cvar_inb rd _ _ Hrd) in E.
    intros HH; inversion HH; subst. lia. }
  destruct (kk =? 15). { destruct (Z.leb_spec (rd + 4) (plen buf)); [|discriminate]. intros HH; inversion HH; subst. lia. }
  destruct (kk =? 16). { destruct (Z.leb_spec (rd + 8) (plen buf)); [|discriminate]. intros HH; inversion HH; subst. lia. }
  destruct (kk =? 7). { destruct (Z.leb_spec (rd + 4) (plen buf)); [|discriminate]. intros HH; inversion HH; subst. lia. }
  destruct (kk =? 6); [|discriminate].
  destruct (Z.leb_spec (rd + 8) (plen buf)); [|discriminate]. intros HH; inversion HH; subst. lia.
Qed.

End GenericBounds.

(* ---- (B2) the loops: offsets inside the buffer, no panic, fuel sufficiency *)
Section GenericLoops.
Variable buf : list Z.
Hypothesis Hb : bytes_ok buf.

Local Notation ib := (inb buf).

Definition sares_inb (rd : Z) (r : sares) : Prop :=
  match r with SaOk rd' _ => rd <= rd' <= plen buf | SaErr => True | SaPanic => False end.

(* found offset = cursor, not before the start, inside the buffer *)
Definition sres_fwd (rd : Z) (r : sres) : Prop :=
  match r with
  | SFound start rd' => start = rd' /\ rd <= rd' <= plen buf
  | SPanic => False
  | _ => True
  end.

Ltac skip_at rd wt Hrd rd1 Ha :=
  pose proof (askip_inb buf Hb rd wt Hrd) as Ha;
  destruct (askip buf rd wt) as [rd1| |]; cbn [skres_inb] in Ha; [ | try exact I | contradiction].

Lemma skip_all_packed_inb : forall f rd lim ewt cnt, ib rd -> sares_inb rd (skip_all_packed f buf rd lim ewt cnt).
Proof.
  induction f as [|f IH]; intros rd lim ewt cnt Hrd; cbn [skip_all_packed]; [exact I|].
  destruct (rd <? lim); [|cbn [sares_inb]; unfold inb in *; lia].
  skip_at rd ewt Hrd rd1 Ha.
  assert (Hrd1 : ib rd1) by (unfold inb in *; lia).
  pose proof (IH rd1 lim ewt (cnt + 1) Hrd1) as H.
  destruct (skip_all_packed f buf rd1 lim ewt (cnt + 1)); cbn [sares_inb] in *; try assumption. lia.
Qed.

Lemma skip_all_unpacked_inb : forall f rd fnum cnt, ib rd -> sares_inb rd (skip_all_unpacked f buf rd fnum cnt).
Proof.
  induction f as [|f IH]; intros rd fnum cnt Hrd; cbn [skip_all_unpacked]; [exact I|].
  destruct (rd <? plen buf); [|cbn [sares_inb]; unfold inb in *; lia].
  destruct (ctag buf rd) as [[[num ewt] n]|] eqn:Et; [|exact I]. apply (ctag_inb buf Hb rd _ _ _ Hrd) in Et.
  destruct (negb (num =? fnum)); [cbn [sares_inb]; unfold inb in *; lia|].
  assert (Hrd0 : ib (rd + n)) by (unfold inb in *; lia).
  skip_at (rd + n) ewt Hrd0 rd1 Ha.
  assert (Hrd1 : ib rd1) by (unfold inb in *; lia).
  pose proof (IH rd1 fnum (cnt + 1) Hrd1) as H.
  destruct (skip_all_unpacked f buf rd1 fnum (cnt + 1)); cbn [sares_inb] in *; try assumption. lia.
Qed.

Theorem skip_all_elements_inb fx rd fnum packed ewt : ib rd ->
  sares_inb rd (skip_all_elements fx buf rd fnum packed ewt).
Proof.
  intros Hrd. unfold skip_all_elements. destruct packed; [|apply skip_all_unpacked_inb; assumption].
  destruct (ctag buf rd) as [[[num wt] n]|] eqn:Et; [|exact I]. apply (ctag_inb buf Hb rd _ _ _ Hrd) in Et.
  assert (Hrd0 : ib (rd + n)) by (unfold inb in *; lia).
  destruct (aread_length buf (rd + n)) as [[len rd0]|] eqn:El; [|exact I].
  apply (aread_length_inb buf Hb _ _ _ Hrd0) in El.
  assert (Hrd1 : ib rd0) by (unfold inb in *; lia).
  destruct (f703 fx).
  - destruct ((len <? 0) || (rd0 + len >? plen buf)); [exact I|].
    pose proof (skip_all_packed_inb (S (length buf)) rd0 (rd0 + len) ewt 0 Hrd1) as H.
    destruct (skip_all_packed (S (length buf)) buf rd0 (rd0 + len) ewt 0); cbn [sares_inb] in *; try assumption.
    destruct (rd1 =? rd0 + len); cbn [sares_inb]; [lia | exact I].
  - pose proof (skip_all_packed_inb (S (length buf)) rd0 (rd0 + len) 0 0 Hrd1) as H.
    destruct (skip_all_packed (S (length buf)) buf rd0 (rd0 + len) 0 0); cbn [sares_inb] in *; try assumption. lia.
Qed.

Lemma search_field_id_inb : forall f rd id lim, ib rd -> sres_fwd rd (search_field_id f buf rd id lim).
Proof.
  induction f as [|f IH]; intros rd id lim Hrd; cbn [search_field_id]; [exact I|].
  destruct (rd <? lim); [|exact I].
  destruct (ctag buf rd) as [[[num wt] n]|] eqn:Et; [|exact I]. apply (ctag_inb buf Hb rd _ _ _ Hrd) in Et.
  destruct (num =? id); [cbn [sres_fwd]; unfold inb in *; lia|].
  assert (Hrd0 : ib (rd + n)) by (unfold inb in *; lia).
  skip_at (rd + n) wt Hrd0 rd1 Ha.
  assert (Hrd1 : ib rd1) by (unfold inb in *; lia).
  pose proof (IH rd1 id lim Hrd1) as H.
  destruct (search_field_id f buf rd1 id lim); cbn [sres_fwd] in *; try assumption. lia.
Qed.

Lemma search_index_packed_inb : forall f fx rd lim idx ewt cnt, ib rd ->
  sres_fwd rd (search_index_packed f fx buf rd lim idx ewt cnt).
Proof.
  induction f as [|f IH]; intros fx rd lim idx ewt cnt Hrd; cbn [search_index_packed]; [exact I|].
  destruct ((rd <? lim) && (cnt <? idx)).
  - skip_at rd ewt Hrd rd1 Ha.
    assert (Hrd1 : ib rd1) by (unfold inb in *; lia).
    pose proof (IH fx rd1 lim idx ewt (cnt + 1) Hrd1) as H.
    destruct (search_index_packed f fx buf rd1 lim idx ewt (cnt + 1)); cbn [sres_fwd] in *; try assumption. lia.
  - destruct (f701 fx && (rd >=? lim)); [exact I|].
    destruct (cnt <? idx); [exact I|]. cbn [sres_fwd]. unfold inb in *. lia.
Qed.

(* the unpacked index search: the cursor is always inside; the returned start offset is inside once defect 701
   (index = length is "found") is repaired — as coded it can point up to one tag length beyond the buffer *)
Definition sres_unpacked (fx : fixes) (r : sres) : Prop :=
  match r with
  | SFound start rd' => 0 <= rd' <= plen buf /\ 0 <= start <= plen buf + 10 /\ (f701 fx = true -> start <= plen buf)
  | SPanic => False
  | _ => True
  end.

Lemma search_index_unpacked_inb : forall f fx rd idx ewt fnum cnt result ex,
  ib rd -> 0 <= result <= plen buf + 10 -> (idx <= cnt -> result <= plen buf) ->
  sres_unpacked fx (search_index_unpacked f fx buf rd idx ewt fnum cnt result ex).
Proof.
  assert (Hfin : forall fx idx rd cnt result ex,
    ib rd -> 0 <= result <= plen buf + 10 -> (idx <= cnt -> ex = true -> result <= plen buf) ->
    sres_unpacked fx (if f701 fx && negb ex then SNotFound else if cnt <? idx then SNotFound else SFound result rd)).
  { intros fx idx rd cnt result ex Hrd Hres Hc.
    destruct (f701 fx) eqn:E7; destruct ex; cbn [andb negb]; try exact I;
      (destruct (Z.ltb_spec cnt idx); [exact I|]); cbn [sres_unpacked]; unfold inb in *;
      (split; [lia|]); (split; [lia|]); rewrite E7; intros HH; try discriminate HH; apply Hc; [lia | reflexivity]. }
  induction f as [|f IH]; intros fx rd idx ewt fnum cnt result ex Hrd Hres Hc; cbn [search_index_unpacked]; [exact I|].
  destruct ((rd <? plen buf) && (cnt <? idx)) eqn:Eloop; [|apply Hfin; auto].
  apply andb_true_iff in Eloop. destruct Eloop as [_ Ecnt]. apply Z.ltb_lt in Ecnt.
  skip_at rd ewt Hrd rd1 Ha.
  assert (Hrd1 : ib rd1) by (unfold inb in *; lia).
  cbv zeta.
  destruct (rd1 <? plen buf); [|apply Hfin; auto; intros; discriminate].
  destruct (ctag buf rd1) as [[[num wt] n]|] eqn:Et; [|exact I]. apply (ctag_inb buf Hb rd1 _ _ _ Hrd1) in Et.
  destruct (negb (num =? fnum)); [apply Hfin; auto; intros; discriminate|].
  destruct (Z.ltb_spec (cnt + 1) idx).
  - apply IH; unfold inb in *; lia.
  - apply IH; unfold inb in *; lia.
Qed.

Theorem search_index_inb fx rd idx ewt packed fnum :
  ib rd ->
  (f702 fx = true -> idx = 0 -> packed = false -> plen (varint_enc (fnum * 8 + ewt)) <= rd) ->
  sres_unpacked fx (search_index fx buf rd idx ewt packed fnum).
Proof.
  intros Hrd H702. unfold search_index.
  destruct (f701 fx && (idx <? 0)); [exact I|].
  destruct packed.
  - destruct (aread_length buf rd) as [[len rd0]|] eqn:El; [|exact I].
    apply (aread_length_inb buf Hb _ _ _ Hrd) in El.
    assert (Hrd0 : ib rd0) by (unfold inb in *; lia).
    pose proof (search_index_packed_inb (S (length buf)) fx rd0 (rd0 + len) idx ewt 0 Hrd0) as H.
    destruct (search_index_packed (S (length buf)) fx buf rd0 (rd0 + len) idx ewt 0);
      cbn [sres_fwd sres_unpacked] in *; try assumption. unfold inb in *. intuition lia.
  - cbv zeta. apply search_index_unpacked_inb; unfold inb in *; try lia.
    destruct (f702 fx) eqn:E2; cbn [andb]; [|lia].
    destruct (Z.eqb_spec idx 0); [|lia].
    specialize (H702 eq_refl e eq_refl). unfold plen in *. lia.
Qed.

(* the key readers handed to search_key move the cursor forward inside the buffer *)
Definition rdkey_ok (rdkey : Z -> option (bool * Z)) : Prop :=
  forall r hit r', ib r -> rdkey r = Some (hit, r') -> r < r' <= plen buf.

Lemma search_key_inb : forall f rdkey rd fnum, rdkey_ok rdkey -> ib rd ->
  sres_fwd rd (search_key f buf rdkey rd fnum).
Proof.
  induction f as [|f IH]; intros rdkey rd fnum Hk Hrd; cbn [search_key]; [exact I|].
  destruct (rd <? plen buf); [|exact I].
  destruct (aread_length buf rd) as [[len rd1]|] eqn:El; [|exact I].
  apply (aread_length_inb buf Hb _ _ _ Hrd) in El.
  assert (Hrd1 : ib rd1) by (unfold inb in *; lia).
  destruct (ctag buf rd1) as [[[num1 wt1] n1]|] eqn:Et1; [|exact I]. apply (ctag_inb buf Hb rd1 _ _ _ Hrd1) in Et1.
  assert (Hrd1' : ib (rd1 + n1)) by (unfold inb in *; lia).
  destruct (rdkey (rd1 + n1)) as [[hit rd2]|] eqn:Ek; [|exact I]. apply (Hk _ _ _ Hrd1') in Ek.
  destruct hit; [cbn [sres_fwd]; lia|].
  assert (Hrd2 : ib rd2) by (unfold inb in *; lia).
  destruct (ctag buf rd2) as [[[num2 vwt] n2]|] eqn:Et2; [|exact I]. apply (ctag_inb buf Hb rd2 _ _ _ Hrd2) in Et2.
  assert (Hrd2' : ib (rd2 + n2)) by (unfold inb in *; lia).
  skip_at (rd2 + n2) vwt Hrd2' rd3 Ha.
  destruct (rd3 >=? plen buf); [exact I|].
  assert (Hrd3 : ib rd3) by (unfold inb in *; lia).
  destruct (ctag buf rd3) as [[[num3 wt3] n3]|] eqn:Et3; [|exact I]. apply (ctag_inb buf Hb rd3 _ _ _ Hrd3) in Et3.
  destruct (negb (num3 =? fnum)); [exact I|].
  assert (Hrd3' : ib (rd3 + n3)) by (unfold inb in *; lia).
  pose proof (IH rdkey (rd3 + n3) fnum Hk Hrd3') as H.
  destruct (search_key f buf rdkey (rd3 + n3) fnum); cbn [sres_fwd] in *; try assumption. lia.
Qed.

Lemma rdkey_str_ok k : rdkey_ok (fun r => match aread_string buf r with
                                           | Some (b, r') => Some (bytes_eqb b k, r') | None => None end).
Proof.
  intros r hit r' Hr. destruct (aread_string buf r) as [[b r1]|] eqn:E; [|discriminate].
  intros HH; inversion HH; subst. apply (aread_string_inb buf Hb _ _ _ Hr) in E. lia.
Qed.

Lemma rdkey_int_ok kk k : rdkey_ok (fun r => match aread_int buf r kk with
                                              | Some (x, r') => Some (x =? k, r') | None => None end).
Proof.
  intros r hit r' Hr. destruct (aread_int buf r kk) as [[x r1]|] eqn:E; [|discriminate].
  intros HH; inversion HH; subst. apply (aread_int_inb buf Hb _ _ _ _ Hr) in E. lia.
Qed.

(* ---- fuel: every loop makes progress, so any fuel above (bytes left + 1) gives the same answer;
   the definitions run them with S (length buf) *)
Definition enough (f : nat) (rd : Z) : Prop := plen buf - rd + 1 <= Z.of_nat f.

Lemma skip_all_packed_fuel : forall f f' rd lim ewt cnt,
  wt_progress ewt -> ib rd -> enough f rd -> enough f' rd ->
  skip_all_packed f buf rd lim ewt cnt = skip_all_packed f' buf rd lim ewt cnt.
Proof.
  unfold enough.
  induction f as [|f IH]; intros f' rd lim ewt cnt Hw Hrd Hf Hf'; [unfold inb in *; lia|].
  destruct f' as [|f']; [unfold inb in *; lia|]. cbn [skip_all_packed].
  destruct (rd <? lim); [|reflexivity].
  skip_at rd ewt Hrd rd1 Ha; [|reflexivity]. destruct Ha as [Ha Hp]. specialize (Hp Hw).
  apply IH; [assumption | unfold inb in *; lia | lia | lia].
Qed.

Lemma skip_all_unpacked_fuel : forall f f' rd fnum cnt,
  ib rd -> enough f rd -> enough f' rd ->
  skip_all_unpacked f buf rd fnum cnt = skip_all_unpacked f' buf rd fnum cnt.
Proof.
  unfold enough.
  induction f as [|f IH]; intros f' rd fnum cnt Hrd Hf Hf'; [unfold inb in *; lia|].
  destruct f' as [|f']; [unfold inb in *; lia|]. cbn [skip_all_unpacked].
  destruct (rd <? plen buf); [|reflexivity].
  destruct (ctag buf rd) as [[[num ewt] n]|] eqn:Et; [|reflexivity]. apply (ctag_inb buf Hb rd _ _ _ Hrd) in Et.
  destruct (negb (num =? fnum)); [reflexivity|].
  assert (Hrd0 : ib (rd + n)) by (unfold inb in *; lia).
  skip_at (rd + n) ewt Hrd0 rd1 Ha; [|reflexivity]. destruct Ha as [Ha _].
  apply IH; [unfold inb in *; lia | lia | lia].
Qed.

Lemma search_field_id_fuel : forall f f' rd id lim,
  ib rd -> enough f rd -> enough f' rd ->
  search_field_id f buf rd id lim = search_field_id f' buf rd id lim.
Proof.
  unfold enough.
  induction f as [|f IH]; intros f' rd id lim Hrd Hf Hf'; [unfold inb in *; lia|].
  destruct f' as [|f']; [unfold inb in *; lia|]. cbn [search_field_id].
  destruct (rd <? lim); [|reflexivity].
  destruct (ctag buf rd) as [[[num wt] n]|] eqn:Et; [|reflexivity]. apply (ctag_inb buf Hb rd _ _ _ Hrd) in Et.
  destruct (num =? id); [reflexivity|].
  assert (Hrd0 : ib (rd + n)) by (unfold inb in *; lia).
  skip_at (rd + n) wt Hrd0 rd1 Ha; [|reflexivity]. destruct Ha as [Ha _].
  apply IH; [unfold inb in *; lia | lia | lia].
Qed.

Lemma search_index_packed_fuel : forall f f' fx rd lim idx ewt cnt,
  wt_progress ewt -> ib rd -> enough f rd -> enough f' rd ->
  search_index_packed f fx buf rd lim idx ewt cnt = search_index_packed f' fx buf rd lim idx ewt cnt.
Proof.
  unfold enough.
  induction f as [|f IH]; intros f' fx rd lim idx ewt cnt Hw Hrd Hf Hf'; [unfold inb in *; lia|].
  destruct f' as [|f']; [unfold inb in *; lia|]. cbn [search_index_packed].
  destruct ((rd <? lim) && (cnt <? idx)); [|reflexivity].
  skip_at rd ewt Hrd rd1 Ha; [|reflexivity]. destruct Ha as [Ha Hp]. specialize (Hp Hw).
  apply IH; [assumption | unfold inb in *; lia | lia | lia].
Qed.

(* the unpacked search needs no hypothesis on the element wire type: the tag between two elements is progress;
   one extra unit of fuel pays for the final call that only reports *)
Lemma search_index_unpacked_fuel : forall f f' fx rd idx ewt fnum cnt result ex,
  ib rd -> enough f rd -> enough f' rd ->
  search_index_unpacked f fx buf rd idx ewt fnum cnt result ex =
  search_index_unpacked f' fx buf rd idx ewt fnum cnt result ex.
Proof.
  unfold enough.
  induction f as [|f IH]; intros f' fx rd idx ewt fnum cnt result ex Hrd Hf Hf'; [unfold inb in *; lia|].
  destruct f' as [|f']; [unfold inb in *; lia|]. cbn [search_index_unpacked].
  destruct ((rd <? plen buf) && (cnt <? idx)) eqn:Eloop; [|reflexivity].
  apply andb_true_iff in Eloop. destruct Eloop as [Erd Ecnt]. apply Z.ltb_lt in Erd. apply Z.ltb_lt in Ecnt.
  skip_at rd ewt Hrd rd1 Ha; [|reflexivity]. destruct Ha as [Ha _]. cbv zeta.
  destruct (rd1 <? plen buf); [|reflexivity].
  assert (Hrd1 : ib rd1) by (unfold inb in *; lia).
  destruct (ctag buf rd1) as [[[num wt] n]|] eqn:Et; [|reflexivity]. apply (ctag_inb buf Hb rd1 _ _ _ Hrd1) in Et.
  destruct (negb (num =? fnum)); [reflexivity|].
  destruct (Z.ltb_spec (cnt + 1) idx) as [Hlt|Hge].
  - apply IH; [unfold inb in *; lia | lia | lia].
  - (* the element wanted has been reached: the next call reports without looping *)
    destruct f as [|f]; [lia|]. destruct f' as [|f']; [lia|]. cbn [search_index_unpacked].
    destruct (Z.ltb_spec (cnt + 1) idx); [lia|]. rewrite andb_false_r. reflexivity.
Qed.

Lemma search_key_fuel : forall f f' rdkey rd fnum,
  rdkey_ok rdkey -> ib rd -> enough f rd -> enough f' rd ->
  search_key f buf rdkey rd fnum = search_key f' buf rdkey rd fnum.
Proof.
  unfold enough.
  induction f as [|f IH]; intros f' rdkey rd fnum Hk Hrd Hf Hf'; [unfold inb in *; lia|].
  destruct f' as [|f']; [unfold inb in *; lia|]. cbn [search_key].
  destruct (rd <? plen buf); [|reflexivity].
  destruct (aread_length buf rd) as [[len rd1]|] eqn:El; [|reflexivity].
  apply (aread_length_inb buf Hb _ _ _ Hrd) in El.
  assert (Hrd1 : ib rd1) by (unfold inb in *; lia).
  destruct (ctag buf rd1) as [[[num1 wt1] n1]|] eqn:Et1; [|reflexivity]. apply (ctag_inb buf Hb rd1 _ _ _ Hrd1) in Et1.
  assert (Hrd1' : ib (rd1 + n1)) by (unfold inb in *; lia).
  destruct (rdkey (rd1 + n1)) as [[hit rd2]|] eqn:Ek; [|reflexivity]. apply (Hk _ _ _ Hrd1') in Ek.
  destruct hit; [reflexivity|].
  assert (Hrd2 : ib rd2) by (unfold inb in *; lia).
  destruct (ctag buf rd2) as [[[num2 vwt] n2]|] eqn:Et2; [|reflexivity]. apply (ctag_inb buf Hb rd2 _ _ _ Hrd2) in Et2.
  assert (Hrd2' : ib (rd2 + n2)) by (unfold inb in *; lia).
  skip_at (rd2 + n2) vwt Hrd2' rd3 Ha; [|reflexivity]. destruct Ha as [Ha _].
  destruct (rd3 >=? plen buf); [reflexivity|].
  assert (Hrd3 : ib rd3) by (unfold inb in *; lia).
  destruct (ctag buf rd3) as [[[num3 wt3] n3]|] eqn:Et3; [|reflexivity]. apply (ctag_inb buf Hb rd3 _ _ _ Hrd3) in Et3.
  destruct (negb (num3 =? fnum)); [reflexivity|].
  apply IH; [assumption | unfold inb in *; lia | lia | lia].
Qed.

(* the fuel the definitions use, S (length buf), is enough from every position inside the buffer *)
Lemma enough_default rd : ib rd -> enough (S (length buf)) rd.
Proof. unfold enough, inb, plen. lia. Qed.

Lemma enough_more f rd : ib rd -> (length buf < f)%nat -> enough f rd.
Proof. unfold enough, inb, plen. lia. Qed.

End GenericLoops.

(* ================================================================== (B3) getByPath as a whole *)

(* ---- no Panic result once err.(Node) (710) is repaired; no hypothesis on the buffer, the schema or the path *)
Section NoPanic.

Lemma skip_all_packed_np : forall f buf rd lim ewt cnt, skip_all_packed f buf rd lim ewt cnt <> SaPanic.
Proof.
  induction f as [|f IH]; intros; cbn [skip_all_packed]; [discriminate|].
  destruct (rd <? lim); [|discriminate].
  pose proof (askip_never_panics buf rd ewt) as H. destruct (askip buf rd ewt); [apply IH | discriminate | contradiction].
Qed.

Lemma skip_all_unpacked_np : forall f buf rd fnum cnt, skip_all_unpacked f buf rd fnum cnt <> SaPanic.
Proof.
  induction f as [|f IH]; intros; cbn [skip_all_unpacked]; [discriminate|].
  destruct (rd <? plen buf); [|discriminate].
  destruct (ctag buf rd) as [[[num ewt] n]|]; [|discriminate].
  destruct (negb (num =? fnum)); [discriminate|].
  pose proof (askip_never_panics buf (rd + n) ewt) as H.
  destruct (askip buf (rd + n) ewt); [apply IH | discriminate | contradiction].
Qed.

Lemma skip_all_elements_np fx buf rd fnum packed ewt : skip_all_elements fx buf rd fnum packed ewt <> SaPanic.
Proof.
  unfold skip_all_elements. destruct packed; [|apply skip_all_unpacked_np].
  destruct (ctag buf rd) as [[[num wt] n]|]; [|discriminate].
  destruct (aread_length buf (rd + n)) as [[len rd0]|]; [|discriminate].
  destruct (f703 fx); [|apply skip_all_packed_np].
  destruct ((len <? 0) || (rd0 + len >? plen buf)); [discriminate|].
  pose proof (skip_all_packed_np (S (length buf)) buf rd0 (rd0 + len) ewt 0) as H.
  destruct (skip_all_packed (S (length buf)) buf rd0 (rd0 + len) ewt 0); try discriminate; [|contradiction].
  destruct (rd1 =? rd0 + len); discriminate.
Qed.

Lemma search_field_id_np : forall f buf rd id lim, search_field_id f buf rd id lim <> SPanic.
Proof.
  induction f as [|f IH]; intros; cbn [search_field_id]; [discriminate|].
  destruct (rd <? lim); [|discriminate].
  destruct (ctag buf rd) as [[[num wt] n]|]; [|discriminate].
  destruct (num =? id); [discriminate|].
  pose proof (askip_never_panics buf (rd + n) wt) as H.
  destruct (askip buf (rd + n) wt); [apply IH | discriminate | contradiction].
Qed.

Lemma search_index_packed_np : forall f fx buf rd lim idx ewt cnt,
  search_index_packed f fx buf rd lim idx ewt cnt <> SPanic.
Proof.
  induction f as [|f IH]; intros; cbn [search_index_packed]; [discriminate|].
  destruct ((rd <? lim) && (cnt <? idx)).
  - pose proof (askip_never_panics buf rd ewt) as H.
    destruct (askip buf rd ewt); [apply IH | discriminate | contradiction].
  - destruct (f701 fx && (rd >=? lim)); [discriminate|]. destruct (cnt <? idx); discriminate.
Qed.

Lemma search_index_unpacked_np : forall f fx buf rd idx ewt fnum cnt result ex,
  search_index_unpacked f fx buf rd idx ewt fnum cnt result ex <> SPanic.
Proof.
  assert (Hfin : forall fx idx rd cnt result ex,
    (if f701 fx && negb ex then SNotFound else if cnt <? idx then SNotFound else SFound result rd) <> SPanic).
  { intros. destruct (f701 fx && negb ex); [discriminate|]. destruct (cnt <? idx); discriminate. }
  induction f as [|f IH]; intros; cbn [search_index_unpacked]; [discriminate|].
  destruct ((rd <? plen buf) && (cnt <? idx)); [|apply Hfin].
  pose proof (askip_never_panics buf rd ewt) as H.
  destruct (askip buf rd ewt) as [rd1| |]; [|discriminate|contradiction]. cbv zeta.
  destruct (rd1 <? plen buf); [|apply Hfin].
  destruct (ctag buf rd1) as [[[num wt] n]|]; [|discriminate].
  destruct (negb (num =? fnum)); [apply Hfin | apply IH].
Qed.

Lemma search_index_np fx buf rd idx ewt packed fnum : search_index fx buf rd idx ewt packed fnum <> SPanic.
Proof.
  unfold search_index. destruct (f701 fx && (idx <? 0)); [discriminate|].
  destruct packed; [|apply search_index_unpacked_np].
  destruct (aread_length buf rd) as [[len rd0]|]; [apply search_index_packed_np | discriminate].
Qed.

Lemma search_key_np : forall f buf rdkey rd fnum, search_key f buf rdkey rd fnum <> SPanic.
Proof.
  induction f as [|f IH]; intros; cbn [search_key]; [discriminate|].
  destruct (rd <? plen buf); [|discriminate].
  destruct (aread_length buf rd) as [[len rd1]|]; [|discriminate].
  destruct (ctag buf rd1) as [[[num1 wt1] n1]|]; [|discriminate].
  destruct (rdkey (rd1 + n1)) as [[[|] rd2]|]; try discriminate.
  destruct (ctag buf rd2) as [[[num2 vwt] n2]|]; [|discriminate].
  pose proof (askip_never_panics buf (rd2 + n2) vwt) as H.
  destruct (askip buf (rd2 + n2) vwt) as [rd3| |]; [|discriminate|contradiction].
  destruct (rd3 >=? plen buf); [discriminate|].
  destruct (ctag buf rd3) as [[[num3 wt3] n3]|]; [|discriminate].
  destruct (negb (num3 =? fnum)); [discriminate | apply IH].
Qed.

Variable fx : fixes.
Hypothesis H710 : f710 fx = true.

Lemma gbp_final_np buf lbl t num tt start rd : gbp_final fx buf lbl t num tt start rd <> GPanicA.
Proof.
  unfold gbp_final. destruct ((tt =? T_LIST) || (tt =? T_MAP)).
  - pose proof (skip_all_elements_np fx buf rd num (desc_packed lbl t) (elem_wt t)) as H.
    destruct (skip_all_elements fx buf rd num (desc_packed lbl t) (elem_wt t)); [discriminate | | contradiction].
    rewrite H710. discriminate.
  - cbv zeta.
    destruct (if desc_packed lbl t then Some (start, rd)
              else match ctag buf rd with Some (_, _, n) => Some (rd + n, rd + n) | None => None end)
      as [[start' rd1]|]; [|discriminate].
    pose proof (askip_never_panics buf rd1 (elem_wt t)) as H.
    destruct (askip buf rd1 (elem_wt t)) as [rd2| |]; [|discriminate|contradiction].
    destruct (rd2 <? start'); discriminate.
Qed.

(* what the path loop does with a search result *)
Ltac after_np IH :=
  match goal with
  | |- match ?r with SFound _ _ => _ | SNotFound => _ | SErrNode => _ | SErrRaw => _ | SPanic => _ end <> GPanicA =>
    let Hr := fresh "Hr" in
    assert (Hr : r <> SPanic) by (first [apply search_field_id_np | apply search_index_np | apply search_key_np]);
    destruct r as [start rd1| | | |]; try congruence; try discriminate;
    try (rewrite H710; discriminate);
    try match goal with |- context [ProtoMsg.is_nil ?p'] => destruct (ProtoMsg.is_nil p') end;
    try discriminate; try apply gbp_final_np;
    try (destruct (ctag _ rd1) as [[[? ?] ?]|]; [apply IH | discriminate])
  end.

Lemma gbp_loop_np S : forall p buf rd isroot lbl t num, gbp_loop fx S buf p rd isroot lbl t num <> GPanicA.
Proof.
  induction p as [|s p' IH]; intros buf rd isroot lbl t num; cbn [gbp_loop]; [discriminate|]. cbv zeta.
  destruct s as [n|nm|i|k|k].
  - destruct (if isroot then Some (plen buf, rd) else aread_length buf rd) as [[mlen rd0]|]; [|discriminate].
    destruct lbl; try discriminate; destruct t as [kk|name]; try discriminate;
      (destruct (find_msg S name) as [md|]; [|discriminate]);
      cbn [step_field]; (destruct (find_field md n) as [fd|]; [after_np IH|]);
      match goal with |- context [search_field_id ?f ?b ?r ?i ?l] =>
        pose proof (search_field_id_np f b r i l) as Hn; destruct (search_field_id f b r i l) end;
      try congruence; try discriminate; try (rewrite H710; discriminate);
      destruct (ProtoMsg.is_nil p'); discriminate.
  - destruct (if isroot then Some (plen buf, rd) else aread_length buf rd) as [[mlen rd0]|]; [|discriminate].
    destruct lbl; try discriminate; destruct t as [kk|name]; try discriminate;
      (destruct (find_msg S name) as [md|]; [|discriminate]);
      cbn [step_field]; (destruct (find_field_name md nm) as [fd|]; [after_np IH | discriminate]).
  - destruct lbl; try discriminate. after_np IH.
  - destruct lbl; try discriminate. after_np IH.
  - destruct lbl; try discriminate. after_np IH.
Qed.

Theorem gbp_no_panic S root buf p : gbp fx S root buf p <> GPanicA.
Proof. unfold gbp. destruct p; [discriminate | apply gbp_loop_np]. Qed.

End NoPanic.

(* ---- fuel: getByPath with ANY extra fuel in every loop is the same function *)

Lemma venc_S f v : venc (S f) v = if v <? 128 then [v] else (v mod 128 + 128) :: venc f (v / 128).
Proof. reflexivity. Qed.

(* a decoded varint is at least as long as the minimal encoding of its value *)
Lemma vdec_min_len k : forall shift acc n l v m,
  vdec k shift acc n l = (v, m) -> 0 <= m -> bytes_ok l -> 0 <= shift ->
  exists w, v = acc + w * 2 ^ shift /\ 0 <= w /\ Z.of_nat (length (venc (S k) w)) <= m - n.
Proof.
  induction k as [|k IH]; intros shift acc n l v m H Hm Hb Hs; destruct l as [|y r]; cbn [vdec] in H;
    try (inversion H; subst; lia); inversion Hb as [|? ? Hy Hr]; subst; unfold byte_ok in Hy.
  - destruct (Z.ltb_spec y 2); inversion H; subst; [|lia].
    exists y. split; [reflexivity|]. split; [lia|]. rewrite venc_S. destruct (Z.ltb_spec y 128); cbn [length]; lia.
  - destruct (Z.ltb_spec y 128) as [Hlt|Hge].
    + inversion H; subst. exists y. split; [reflexivity|]. split; [lia|].
      rewrite venc_S. destruct (Z.ltb_spec y 128); [cbn [length]; lia | lia].
    + destruct (IH _ _ _ _ _ _ H Hm Hr ltac:(lia)) as (w' & Hv & Hw & Hlen).
      exists ((y - 128) + 128 * w'). split; [|split; [lia|]].
      * rewrite Hv, pow2_add by lia. change (2 ^ 7) with 128. ring.
      * rewrite venc_S. destruct (Z.ltb_spec (y - 128 + 128 * w') 128); [cbn [length]; lia|].
        replace ((y - 128 + 128 * w') / 128) with w' by (Z.div_mod_to_equations; lia).
        cbn [length]. lia.
Qed.

Lemma varint_dec_min_len l v m : bytes_ok l -> varint_dec l = (v, m) -> 0 <= m ->
  0 <= v /\ plen (varint_enc v) <= m.
Proof.
  intros Hb H Hm. destruct (vdec_min_len 9 0 0 0 l v m H Hm Hb ltac:(lia)) as (w & Hv & Hw & Hlen).
  rewrite Z.pow_0_r in Hv. assert (v = w) by lia. subst w. split; [assumption|].
  unfold plen, varint_enc. lia.
Qed.

Lemma venc_len_same : forall k a b, 0 <= a -> 0 <= b -> a / 8 = b / 8 -> length (venc k a) = length (venc k b).
Proof.
  induction k as [|k IH]; intros a b Ha Hb Hab; [reflexivity|]. rewrite !venc_S.
  assert (Hd : a / 128 = b / 128).
  { change 128 with (8 * 16). rewrite <- !Z.div_div by lia. rewrite Hab. reflexivity. }
  destruct (Z.ltb_spec a 128); destruct (Z.ltb_spec b 128); try reflexivity.
  - exfalso. Z.div_mod_to_equations. lia.
  - exfalso. Z.div_mod_to_equations. lia.
  - cbn [length]. f_equal. apply IH; [apply Z.div_pos; lia | apply Z.div_pos; lia | rewrite Hd; reflexivity].
Qed.

Lemma venc_len_mono : forall k a b, 0 <= a <= b -> (length (venc k a) <= length (venc k b))%nat.
Proof.
  induction k as [|k IH]; intros a b Hab; [cbn; lia|]. rewrite !venc_S.
  destruct (Z.ltb_spec a 128); destruct (Z.ltb_spec b 128); cbn [length]; try lia.
  apply le_n_S. apply IH. split; [apply Z.div_pos; lia | apply Z.div_le_mono; lia].
Qed.

(* the step back of repair 702 (one minimal tag of the list's field) never leaves the buffer when the cursor
   stands right behind a tag of that field *)
Lemma tag_len_le buf rd_t v n num ewt :
  bytes_ok buf -> 0 <= rd_t -> cvar buf rd_t = Some (v, n) -> v / 8 = num -> 1 <= num -> -1 <= ewt <= 7 ->
  plen (varint_enc (num * 8 + ewt)) <= n.
Proof.
  intros Hb Hrd Hc Hv Hnum Hw. unfold cvar in Hc.
  destruct (varint_dec (at_ buf rd_t)) as [v0 n0] eqn:E. destruct (Z.ltb_spec n0 0); [discriminate|].
  inversion Hc; subst v0 n0.
  destruct (varint_dec_min_len _ _ _ (bytes_ok_skipn' _ _ Hb) E ltac:(lia)) as [Hv0 Hlen].
  unfold plen, varint_enc in *.
  destruct (Z.eq_dec ewt (-1)) as [->|Hne].
  - pose proof (venc_len_mono 10 (num * 8 + -1) v ltac:(Z.div_mod_to_equations; lia)). lia.
  - rewrite (venc_len_same 10 (num * 8 + ewt) v); [lia | lia | lia |]. Z.div_mod_to_equations. lia.
Qed.

Lemma elem_wt_range t : -1 <= elem_wt t <= 7.
Proof.
  unfold elem_wt, wt_of_kind.
  repeat match goal with |- context [if ?c then _ else _] => destruct c end; lia.
Qed.

Lemma numeric_wt_progress t : type_numeric t = true -> wt_progress (elem_wt t).
Proof.
  destruct t as [k|name]; cbn [type_numeric]; [|discriminate]. unfold is_numeric, elem_wt, wt_progress. cbn [kind_of_type].
  cbv zeta. intros H. apply orb_true_iff in H. destruct H as [H|H]; [apply orb_true_iff in H; destruct H as [H|H]|];
    apply Z.eqb_eq in H; auto.
Qed.

(* search_field_id finds a tag of the wanted number *)
Lemma search_field_id_found : forall f buf rd id lim start rd',
  search_field_id f buf rd id lim = SFound start rd' ->
  exists v n, cvar buf rd' = Some (v, n) /\ v / 8 = id /\ ctag buf rd' = Some (id, v mod 8, n).
Proof.
  induction f as [|f IH]; intros buf rd id lim start rd'; cbn [search_field_id]; [discriminate|].
  destruct (rd <? lim); [|discriminate].
  destruct (ctag buf rd) as [[[num wt] n]|] eqn:Et; [|discriminate].
  destruct (Z.eqb_spec num id) as [->|Hne].
  - intros HH; inversion HH; subst. unfold ctag in Et |- *.
    destruct (cvar buf rd') as [[v n0]|]; [|discriminate].
    destruct ((v / 8 >? 2147483647) || (v / 8 <? 1)); [discriminate|]. inversion Et; subst.
    exists v, n. auto.
  - destruct (askip buf (rd + n) wt); try discriminate. apply IH.
Qed.

(* getByPath with x more units of fuel in EVERY loop (copies of the model definitions, the fuel S (length buf)
   replaced by S (x + length buf)); x = 0 is the model itself *)
Section Fuelled.
Variable x : nat.
Definition fu (b : list Z) : nat := S (x + length b).

Definition skip_all_elements_x (fx : fixes) (buf : list Z) (rd fnum : Z) (packed : bool) (ewt : Z) : sares :=
  if packed then
    match ctag buf rd with
    | None => SaErr
    | Some (_, _, n) =>
      match aread_length buf (rd + n) with
      | None => SaErr
      | Some (len, rd0) =>
        if f703 fx then
          if (len <? 0) || (rd0 + len >? plen buf) then SaErr
          else match skip_all_packed (fu buf) buf rd0 (rd0 + len) ewt 0 with
               | SaOk rd' c => if rd' =? rd0 + len then SaOk rd' c else SaErr
               | r => r
               end
        else skip_all_packed (fu buf) buf rd0 (rd0 + len) 0 0
      end
    end
  else skip_all_unpacked (fu buf) buf rd fnum 0.

Definition search_index_x (fx : fixes) (buf : list Z) (rd idx ewt : Z) (packed : bool) (fnum : Z) : sres :=
  if f701 fx && (idx <? 0) then SNotFound
  else if packed then
    match aread_length buf rd with
    | None => SErrRaw
    | Some (len, rd0) => search_index_packed (fu buf) fx buf rd0 (rd0 + len) idx ewt 0
    end
  else
    let rd' := if f702 fx && (idx =? 0) then rd - plen (varint_enc (fnum * 8 + ewt)) else rd in
    search_index_unpacked (fu buf) fx buf rd' idx ewt fnum 0 rd true.

Definition gbp_final_x (fx : fixes) (buf : list Z) (lbl : flabel) (t : ftype) (num : Z) (tt start rd : Z) : gout :=
  if (tt =? T_LIST) || (tt =? T_MAP) then
    match skip_all_elements_x fx buf rd num (desc_packed lbl t) (elem_wt t) with
    | SaErr => if f710 fx then GErrA else GPanicA
    | SaPanic => GPanicA
    | SaOk rd' size => GFoundA tt (slice buf start rd') size
    end
  else
    let after_tag :=
      if desc_packed lbl t then Some (start, rd)
      else match ctag buf rd with Some (_, _, n) => Some (rd + n, rd + n) | None => None end in
    match after_tag with
    | None => GErrA
    | Some (start', rd1) =>
      match askip buf rd1 (elem_wt t) with
      | SkErr => GErrA
      | SkPanic => GPanicA
      | SkOk rd2 => if rd2 <? start' then GUnmodelled else GFoundA tt (slice buf start' rd2) 0
      end
    end.

Fixpoint gbp_loop_x (fx : fixes) (S : schema) (buf : list Z) (p : list pstep) (rd : Z) (isroot : bool)
         (lbl : flabel) (t : ftype) (num : Z) {struct p} : gout :=
  match p with
  | [] => GUnmodelled
  | s :: p' =>
    let last := ProtoMsg.is_nil p' in
    let after (buf : list Z) (r : sres) (lbl' : flabel) (t' : ftype) (num' tt : Z) : gout :=
      match r with
      | SFound start rd1 =>
        if last then gbp_final_x fx buf lbl' t' num' tt start rd1
        else match ctag buf rd1 with
             | None => GErrA
             | Some (_, _, n) => gbp_loop_x fx S buf p' (rd1 + n) false lbl' t' num'
             end
      | SNotFound => if last then GNotFoundA else GErrA
      | SErrNode => GErrA
      | SErrRaw => if f710 fx then GErrA else GPanicA
      | SPanic => GPanicA
      end in
    match s with
    | PField _ | PName _ =>
      match (if isroot then Some (plen buf, rd) else aread_length buf rd) with
      | None => GErrA
      | Some (mlen, rd0) =>
        let buf' := if f704 fx && (0 <=? rd0 + mlen) && (rd0 + mlen <? plen buf) then firstn (Z.to_nat (rd0 + mlen)) buf else buf in
        match lbl, t with
        | LMap _, _ => GUnmodelled
        | _, TScalar _ => GUnmodelled
        | _, TMsg name =>
          match find_msg S name with
          | None => GUnmodelled
          | Some md =>
            match s, step_field md s with
            | PField n, None =>
              match search_field_id (fu buf') buf' rd0 n (rd0 + mlen) with
              | SFound _ _ => GUnmodelled
              | r => after buf' r lbl t num K_MESSAGE
              end
            | _, Some fd =>
              after buf' (search_field_id (fu buf') buf' rd0 (fd_num fd) (rd0 + mlen))
                    (fd_label fd) (fd_type fd) (fd_num fd) (node_type (fd_label fd) (fd_type fd))
            | _, None => GErrA
            end
          end
        end
      end
    | PIndex i =>
      match lbl with
      | LRepeated _ =>
        after buf (search_index_x fx buf rd i (elem_wt t) (type_numeric t) num) lbl t num (kind_of_type t)
      | _ => GUnmodelled
      end
    | PStrKey k =>
      match lbl with
      | LMap _ =>
        after buf (search_key (fu buf) buf
                 (fun r => match aread_string buf r with
                           | Some (b, r') => Some (bytes_eqb b k, r')
                           | None => None
                           end) rd num)
              LSingular t 0 (kind_of_type t)
      | _ => GUnmodelled
      end
    | PIntKey k =>
      match lbl with
      | LMap kk =>
        after buf (search_key (fu buf) buf
                 (fun r => match aread_int buf r kk with
                           | Some (x, r') => Some (x =? k, r')
                           | None => None
                           end) rd num)
              LSingular t 0 (kind_of_type t)
      | _ => GUnmodelled
      end
    end
  end.

Definition gbp_x (fx : fixes) (S : schema) (root : list Z) (buf : list Z) (p : list pstep) : gout :=
  match p with
  | [] => GFoundA K_MESSAGE buf 0
  | _ => gbp_loop_x fx S buf p 0 true LSingular (TMsg root) 0
  end.
End Fuelled.

Definition head_index (p : list pstep) : bool := match p with PIndex _ :: _ => true | _ => false end.
Definition is_rep (lbl : flabel) : bool := match lbl with LRepeated _ => true | _ => false end.

(* an index step is not followed by another index step (a list element is never itself a list) *)
Fixpoint no_double_index (p : list pstep) : Prop :=
  match p with
  | [] => True
  | s :: p' => (match s with PIndex _ => head_index p' = false | _ => True end) /\ no_double_index p'
  end.

(* the cursor stands right behind a tag of field [num] *)
Definition tag_before (buf : list Z) (rd num : Z) : Prop :=
  exists rd_t v n, 0 <= rd_t /\ cvar buf rd_t = Some (v, n) /\ v / 8 = num /\ rd = rd_t + n.

Section FuelledEq.
Variable x : nat.
Variable fx : fixes.

Lemma enough_fu buf rd : inb buf rd -> enough buf (fu x buf) rd.
Proof. unfold enough, fu, inb, plen. lia. Qed.

Lemma sae_x_eq buf rd fnum packed ewt :
  bytes_ok buf -> inb buf rd -> (packed = true -> f703 fx = true -> wt_progress ewt) ->
  skip_all_elements_x x fx buf rd fnum packed ewt = skip_all_elements fx buf rd fnum packed ewt.
Proof.
  intros Hb Hrd Hw. unfold skip_all_elements_x, skip_all_elements. destruct packed.
  - destruct (ctag buf rd) as [[[num wt] n]|] eqn:Et; [|reflexivity]. apply (ctag_inb buf Hb rd _ _ _ Hrd) in Et.
    assert (Hrd' : inb buf (rd + n)) by (unfold inb in *; lia).
    destruct (aread_length buf (rd + n)) as [[len rd0]|] eqn:El; [|reflexivity].
    apply (aread_length_inb buf Hb _ _ _ Hrd') in El.
    assert (Hrd0 : inb buf rd0) by (unfold inb in *; lia).
    destruct (f703 fx) eqn:E3.
    + destruct ((len <? 0) || (rd0 + len >? plen buf)); [reflexivity|].
      rewrite (skip_all_packed_fuel buf Hb (fu x buf) (S (length buf)) rd0 (rd0 + len) ewt 0);
        [reflexivity | auto | assumption | apply enough_fu; assumption | apply enough_default; assumption].
    + apply skip_all_packed_fuel; [assumption | left; reflexivity | assumption | apply enough_fu; assumption
                                  | apply enough_default; assumption].
  - apply skip_all_unpacked_fuel; [assumption | assumption | apply enough_fu; assumption | apply enough_default; assumption].
Qed.

Lemma si_x_eq buf rd idx ewt packed fnum :
  bytes_ok buf -> inb buf rd -> (packed = true -> wt_progress ewt) ->
  (f702 fx = true -> idx = 0 -> packed = false -> plen (varint_enc (fnum * 8 + ewt)) <= rd) ->
  search_index_x x fx buf rd idx ewt packed fnum = search_index fx buf rd idx ewt packed fnum.
Proof.
  intros Hb Hrd Hw H702. unfold search_index_x, search_index.
  destruct (f701 fx && (idx <? 0)); [reflexivity|]. destruct packed.
  - destruct (aread_length buf rd) as [[len rd0]|] eqn:El; [|reflexivity].
    apply (aread_length_inb buf Hb _ _ _ Hrd) in El.
    assert (Hrd0 : inb buf rd0) by (unfold inb in *; lia).
    apply search_index_packed_fuel; [assumption | auto | assumption | apply enough_fu; assumption
                                    | apply enough_default; assumption].
  - cbv zeta.
    assert (Hrd' : inb buf (if f702 fx && (idx =? 0) then rd - plen (varint_enc (fnum * 8 + ewt)) else rd)).
    { destruct (f702 fx) eqn:E2; cbn [andb]; [|assumption].
      destruct (Z.eqb_spec idx 0) as [E0|]; [|assumption].
      specialize (H702 eq_refl E0 eq_refl). unfold inb, plen in *. lia. }
    apply search_index_unpacked_fuel; [assumption | assumption | apply enough_fu; assumption
                                      | apply enough_default; assumption].
Qed.

Lemma final_x_eq buf lbl t num tt start rd :
  bytes_ok buf -> inb buf rd ->
  gbp_final_x x fx buf lbl t num tt start rd = gbp_final fx buf lbl t num tt start rd.
Proof.
  intros Hb Hrd. unfold gbp_final_x, gbp_final.
  destruct ((tt =? T_LIST) || (tt =? T_MAP)); [|reflexivity].
  rewrite sae_x_eq; [reflexivity | assumption | assumption |].
  intros Hp _. apply numeric_wt_progress. destruct lbl; cbn [desc_packed] in Hp; try discriminate. apply andb_prop in Hp; exact (proj2 Hp).
Qed.

Lemma sfi_x_eq buf rd0 id lim :
  bytes_ok buf -> (rd0 < lim -> inb buf rd0) ->
  search_field_id (fu x buf) buf rd0 id lim = search_field_id (S (length buf)) buf rd0 id lim.
Proof.
  intros Hb Hrd. destruct (Z.ltb_spec rd0 lim) as [Hlt|Hge].
  - specialize (Hrd Hlt). apply search_field_id_fuel; [assumption | assumption | apply enough_fu; assumption
                                                      | apply enough_default; assumption].
  - unfold fu. cbn [search_field_id]. destruct (Z.ltb_spec rd0 lim); [lia | reflexivity].
Qed.

Lemma sfi_found_inb buf f rd0 id lim start rd1 :
  bytes_ok buf -> (rd0 < lim -> inb buf rd0) ->
  search_field_id f buf rd0 id lim = SFound start rd1 -> inb buf rd1.
Proof.
  intros Hb Hrd Hr. destruct (Z.ltb_spec rd0 lim) as [Hlt|Hge].
  - pose proof (search_field_id_inb buf Hb f rd0 id lim (Hrd Hlt)) as H. rewrite Hr in H. cbn [sres_fwd] in H.
    specialize (Hrd Hlt). unfold inb in *. lia.
  - destruct f; cbn [search_field_id] in Hr; [discriminate|].
    destruct (Z.ltb_spec rd0 lim); [lia | discriminate].
Qed.

Lemma gbp_loop_x_eq S : forall p buf rd isroot lbl t num,
  no_double_index p -> bytes_ok buf -> inb buf rd ->
  (head_index p = true -> is_rep lbl = true -> tag_before buf rd num /\ 1 <= num) ->
  gbp_loop_x x fx S buf p rd isroot lbl t num = gbp_loop fx S buf p rd isroot lbl t num.
Proof.
  induction p as [|s p' IH]; intros buf rd isroot lbl t num Hnd Hb Hrd Htag; [reflexivity|].
  destruct Hnd as [Hs Hnd'].
  cbn [gbp_loop_x gbp_loop]. cbv zeta.
  assert (Hafter : forall buf0 r lbl' t' num' tt,
    bytes_ok buf0 ->
    (forall start rd1, r = SFound start rd1 ->
       inb buf0 rd1 /\
       (head_index p' = true -> is_rep lbl' = true ->
        exists v n, cvar buf0 rd1 = Some (v, n) /\ v / 8 = num' /\ 1 <= num')) ->
    match r with
    | SFound start rd1 =>
      if ProtoMsg.is_nil p' then gbp_final_x x fx buf0 lbl' t' num' tt start rd1
      else match ctag buf0 rd1 with
           | None => GErrA
           | Some (_, _, n) => gbp_loop_x x fx S buf0 p' (rd1 + n) false lbl' t' num'
           end
    | SNotFound => if ProtoMsg.is_nil p' then GNotFoundA else GErrA
    | SErrNode => GErrA
    | SErrRaw => if f710 fx then GErrA else GPanicA
    | SPanic => GPanicA
    end =
    match r with
    | SFound start rd1 =>
      if ProtoMsg.is_nil p' then gbp_final fx buf0 lbl' t' num' tt start rd1
      else match ctag buf0 rd1 with
           | None => GErrA
           | Some (_, _, n) => gbp_loop fx S buf0 p' (rd1 + n) false lbl' t' num'
           end
    | SNotFound => if ProtoMsg.is_nil p' then GNotFoundA else GErrA
    | SErrNode => GErrA
    | SErrRaw => if f710 fx then GErrA else GPanicA
    | SPanic => GPanicA
    end).
  { intros buf0 r lbl' t' num' tt Hb0 Hr. destruct r as [start rd1| | | |]; try reflexivity.
    destruct (Hr start rd1 eq_refl) as (Hi1 & Hj).
    destruct (ProtoMsg.is_nil p'); [apply final_x_eq; assumption|].
    destruct (ctag buf0 rd1) as [[[num1 wt1] n1]|] eqn:Et; [|reflexivity].
    pose proof (ctag_inb buf0 Hb0 rd1 _ _ _ Hi1 Et) as Hc.
    apply IH; [assumption | assumption | unfold inb in *; lia |].
    intros Hh Hrep. destruct (Hj Hh Hrep) as (v & n & Hcv & Hv & Hn). split; [|assumption].
    exists rd1, v, n. split; [unfold inb in Hi1; lia|]. split; [assumption|]. split; [assumption|].
    unfold ctag in Et. rewrite Hcv in Et.
    destruct ((v / 8 >? 2147483647) || (v / 8 <? 1)); [discriminate|]. inversion Et. reflexivity. }
  destruct s as [n|nm|i|k|k].
  - (* PField *)
    assert (Hopt : forall mlen rd0, (if isroot then Some (plen buf, rd) else aread_length buf rd) = Some (mlen, rd0) ->
                   inb buf rd0).
    { intros mlen rd0 E. destruct isroot; [inversion E; subst; assumption|].
      apply (aread_length_inb buf Hb _ _ _ Hrd) in E. unfold inb in *. lia. }
    destruct (if isroot then Some (plen buf, rd) else aread_length buf rd) as [[mlen rd0]|]; [|reflexivity].
    specialize (Hopt mlen rd0 eq_refl).
    set (buf' := if f704 fx && (0 <=? rd0 + mlen) && (rd0 + mlen <? plen buf)
                 then firstn (Z.to_nat (rd0 + mlen)) buf else buf).
    assert (Hb' : bytes_ok buf') by (subst buf'; destruct (f704 fx && _ && _); [apply bytes_ok_firstn'|]; assumption).
    assert (Hi' : rd0 < rd0 + mlen -> inb buf' rd0).
    { intros Hm. subst buf'. destruct (f704 fx && (0 <=? rd0 + mlen) && (rd0 + mlen <? plen buf)) eqn:Ec; [|assumption].
      apply andb_true_iff in Ec. destruct Ec as [Ec E2]. apply Z.ltb_lt in E2.
      unfold inb, plen in *. rewrite firstn_length. lia. }
    destruct lbl; try reflexivity; (destruct t as [kk|name]; [reflexivity|]);
      (destruct (find_msg S name) as [md|]; [|reflexivity]); cbn [step_field];
      (destruct (find_field md n) as [fd|];
       [ rewrite (sfi_x_eq buf' rd0 (fd_num fd) (rd0 + mlen) Hb' Hi'); apply Hafter; [assumption|];
         intros start rd1 Hr; split;
         [ eapply sfi_found_inb; eassumption
         | intros _ _; destruct (search_field_id_found _ _ _ _ _ _ _ Hr) as (v & n0 & Hc & Hv & Hct);
           exists v, n0; split; [assumption|]; split; [assumption|];
           pose proof (ctag_inb buf' Hb' rd1 _ _ _ (sfi_found_inb _ _ _ _ _ _ _ Hb' Hi' Hr) Hct); lia ]
       | rewrite (sfi_x_eq buf' rd0 n (rd0 + mlen) Hb' Hi'); reflexivity ]).
  - (* PName *)
    assert (Hopt : forall mlen rd0, (if isroot then Some (plen buf, rd) else aread_length buf rd) = Some (mlen, rd0) ->
                   inb buf rd0).
    { intros mlen rd0 E. destruct isroot; [inversion E; subst; assumption|].
      apply (aread_length_inb buf Hb _ _ _ Hrd) in E. unfold inb in *. lia. }
    destruct (if isroot then Some (plen buf, rd) else aread_length buf rd) as [[mlen rd0]|]; [|reflexivity].
    specialize (Hopt mlen rd0 eq_refl).
    set (buf' := if f704 fx && (0 <=? rd0 + mlen) && (rd0 + mlen <? plen buf)
                 then firstn (Z.to_nat (rd0 + mlen)) buf else buf).
    assert (Hb' : bytes_ok buf') by (subst buf'; destruct (f704 fx && _ && _); [apply bytes_ok_firstn'|]; assumption).
    assert (Hi' : rd0 < rd0 + mlen -> inb buf' rd0).
    { intros Hm. subst buf'. destruct (f704 fx && (0 <=? rd0 + mlen) && (rd0 + mlen <? plen buf)) eqn:Ec; [|assumption].
      apply andb_true_iff in Ec. destruct Ec as [Ec E2]. apply Z.ltb_lt in E2.
      unfold inb, plen in *. rewrite firstn_length. lia. }
    destruct lbl; try reflexivity; (destruct t as [kk|name]; [reflexivity|]);
      (destruct (find_msg S name) as [md|]; [|reflexivity]); cbn [step_field];
      (destruct (find_field_name md nm) as [fd|]; [|reflexivity]);
      rewrite (sfi_x_eq buf' rd0 (fd_num fd) (rd0 + mlen) Hb' Hi'); (apply Hafter; [assumption|]);
      intros start rd1 Hr;
      (split;
       [ eapply sfi_found_inb; eassumption
       | intros _ _; destruct (search_field_id_found _ _ _ _ _ _ _ Hr) as (v & n0 & Hc & Hv & Hct);
         exists v, n0; (split; [assumption|]); (split; [assumption|]);
         pose proof (ctag_inb buf' Hb' rd1 _ _ _ (sfi_found_inb _ _ _ _ _ _ _ Hb' Hi' Hr) Hct); lia ]).
  - (* PIndex *)
    destruct lbl as [|q|kk]; try reflexivity.
    assert (H702 : f702 fx = true -> i = 0 -> type_numeric t = false ->
                   plen (varint_enc (num * 8 + elem_wt t)) <= rd).
    { intros _ _ _. destruct (Htag eq_refl eq_refl) as ((rd_t & v & n & Hrt & Hcv & Hv & ->) & Hnum).
      pose proof (tag_len_le buf rd_t v n num (elem_wt t) Hb Hrt Hcv Hv Hnum (elem_wt_range t)). lia. }
    rewrite (si_x_eq buf rd i (elem_wt t) (type_numeric t) num Hb Hrd (numeric_wt_progress t) H702).
    apply Hafter; [assumption|]. intros start rd1 Hr. split.
    + pose proof (search_index_inb buf Hb fx rd i (elem_wt t) (type_numeric t) num Hrd H702) as H.
      rewrite Hr in H. cbn [sres_unpacked] in H. unfold inb. tauto.
    + intros Hh. rewrite Hs in Hh. discriminate.
  - (* PStrKey *)
    destruct lbl as [|q|kk]; try reflexivity.
    rewrite (search_key_fuel buf Hb (fu x buf) (Datatypes.S (length buf)) _ rd num (rdkey_str_ok buf Hb k) Hrd
               (enough_fu buf rd Hrd) (enough_default buf rd Hrd)).
    apply Hafter; [assumption|]. intros start rd1 Hr. split.
    + pose proof (search_key_inb buf Hb (Datatypes.S (length buf)) _ rd num (rdkey_str_ok buf Hb k) Hrd) as H.
      rewrite Hr in H. cbn [sres_fwd] in H. unfold inb in *. lia.
    + intros _ Hrep. discriminate.
  - (* PIntKey *)
    destruct lbl as [|q|kk]; try reflexivity.
    rewrite (search_key_fuel buf Hb (fu x buf) (Datatypes.S (length buf)) _ rd num (rdkey_int_ok buf Hb kk k) Hrd
               (enough_fu buf rd Hrd) (enough_default buf rd Hrd)).
    apply Hafter; [assumption|]. intros start rd1 Hr. split.
    + pose proof (search_key_inb buf Hb (Datatypes.S (length buf)) _ rd num (rdkey_int_ok buf Hb kk k) Hrd) as H.
      rewrite Hr in H. cbn [sres_fwd] in H. unfold inb in *. lia.
    + intros _ Hrep. discriminate.
Qed.

(* getByPath never needs more fuel than it gives itself *)
Theorem gbp_fuel_independent S root buf p :
  bytes_ok buf -> no_double_index p -> gbp_x x fx S root buf p = gbp fx S root buf p.
Proof.
  intros Hb Hnd. unfold gbp_x, gbp. destruct p as [|s p]; [reflexivity|].
  apply gbp_loop_x_eq; [assumption | assumption | unfold inb, plen; lia |].
  intros _ Hrep. discriminate.
Qed.

End FuelledEq.

(* ---- corollaries for the fully repaired tree, and the counterexamples that delimit the statements above *)
Definition fixes_all : fixes := mk_fixes true true true true true true true true true true.

Corollary gbp_all_fixes_no_panic S root buf p : gbp fixes_all S root buf p <> GPanicA.
Proof. apply gbp_no_panic. reflexivity. Qed.

(* as coded (701 open) the unpacked index search reports index = length as found, with a start offset BEYOND the
   buffer: field 16 (two-byte tag), two one-byte elements, index 2; repaired: not found *)
Example search_index_as_coded_offset_outside :
  let b := [128; 1; 7; 128; 1; 9] in
  plen b = 6 /\ search_index no_fixes b 2 2 0 false 16 = SFound 7 6 /\
  search_index fixes_all b 2 2 0 false 16 = SNotFound.
Proof. vm_compute. repeat split; reflexivity. Qed.

(* without the progress hypothesis the packed search does depend on its fuel (an element wire type that Skip does
   not know consumes nothing: the loop is bounded by the index, not by the input) *)
Example search_index_packed_needs_progress :
  search_index_packed 3 no_fixes [5; 1; 2; 3; 4; 5] 1 6 5 (-1) 0 = SErrRaw /\
  search_index_packed 9 no_fixes [5; 1; 2; 3; 4; 5] 1 6 5 (-1) 0 = SFound 1 1.
Proof. vm_compute. split; reflexivity. Qed.

(* the side condition of search_index_inb: called on its own at a cursor in front of which there is no tag,
   repair 702 steps back out of the buffer *)
Example search_index_702_needs_tag_before : search_index fixes_all [8; 1] 0 0 0 false 1 = SFound 0 (-1).
Proof. vm_compute. reflexivity. Qed.

(* ================================================================== (A3) the JSON text is linear in the input *)
From DG Require Import Base64Proofs.

Lemma fmt_nat_aux_len : forall fuel n acc, (length (fmt_nat_aux fuel n acc) <= fuel + length acc)%nat.
Proof.
  induction fuel as [|f IH]; intros n acc; cbn [fmt_nat_aux]; [lia|].
  destruct (n <? 10); [cbn [length]; lia|]. specialize (IH (n / 10) ((48 + n mod 10) :: acc)). cbn [length] in IH. lia.
Qed.

Lemma fmt_nat_len64 n : 0 <= n <= 2 ^ 64 -> (length (fmt_nat n) <= 65)%nat.
Proof.
  intros Hn. unfold fmt_nat.
  pose proof (fmt_nat_aux_len (S (Z.to_nat (Z.log2 n))) n []) as H. cbn [length] in H.
  assert (Z.log2 n <= 64).
  { destruct (Z.eq_dec n 0) as [->|]; [cbn; lia|].
    replace 64 with (Z.log2 (2 ^ 64)) by (apply Z.log2_pow2; lia). apply Z.log2_le_mono. lia. }
  pose proof (Z.log2_nonneg n). lia.
Qed.

Lemma fmt_int_len64 z : Z.abs z <= 2 ^ 64 -> (length (fmt_int z) <= 66)%nat.
Proof.
  intros Hz. unfold fmt_int. destruct (Z.ltb_spec z 0).
  - pose proof (fmt_nat_len64 (- z) ltac:(lia)). cbn [length]. lia.
  - pose proof (fmt_nat_len64 z ltac:(lia)). lia.
Qed.

Lemma esc_byte_le6 c : (length (esc_byte c) <= 6)%nat.
Proof. unfold esc_byte. repeat match goal with |- context [if ?b then _ else _] => destruct b end; cbn [length]; lia. Qed.

Lemma escape_le6' s : (length (escape s) <= 6 * length s)%nat.
Proof.
  unfold escape. induction s as [|c s IH]; [cbn; lia|]. cbn [flat_map length]. rewrite app_length.
  pose proof (esc_byte_le6 c). lia.
Qed.

Lemma quote_ref_le' s : (length (quote_ref s) <= 6 * length s + 2)%nat.
Proof. unfold quote_ref. cbn [length]. rewrite app_length. cbn [length]. pose proof (escape_le6' s). lia. Qed.

Lemma b64_text_le b : (length (b64_encode b) <= 4 * length b + 4)%nat.
Proof.
  rewrite b64_encode_length. pose proof (Nat.div_le_upper_bound (length b + 2) 3 (length b + 1) ltac:(lia) ltac:(lia)). lia.
Qed.

Lemma go_value_range k u : 0 <= u < 2 ^ 64 -> Z.abs (go_value k u) <= 2 ^ 64.
Proof.
  intros Hu. unfold go_value. change (2 ^ 64) with 18446744073709551616 in *.
  destruct (k =? K_BOOL). { destruct (u mod 256 =? 1); lia. }
  unfold scalar_of_u, to_s, zigzag_dec.
  change (2 ^ (32 - 1)) with 2147483648. change (2 ^ 32) with 4294967296.
  change (2 ^ (64 - 1)) with 9223372036854775808. change (2 ^ 64) with 18446744073709551616.
  repeat match goal with |- context [if ?b then _ else _] => destruct b end; try lia;
    Z.div_mod_to_equations; lia.
Qed.

Lemma wdec_val_ok wt bs v r : bytes_ok bs -> wdec_val wt bs = Some (v, r) ->
  bytes_ok r /\ 0 <= wval_u v < 2 ^ 64 /\ (forall b, v = WBytes b -> bytes_ok b).
Proof.
  intros Hb H. split.
  { destruct (wdec_val_suffix _ _ _ _ H) as [n ->]. apply bytes_ok_skipn'. assumption. }
  unfold wdec_val in H. unfold ProtoMsg.take in H.
  destruct (wt =? 0).
  { destruct (varint_dec bs) as [x n] eqn:E. destruct (n <? 0); [discriminate|]. inversion H; subst.
    cbn [wval_u]. split; [eapply varint_dec_value; eassumption | intros; discriminate]. }
  destruct (wt =? 1).
  { destruct ((0 <=? 8) && (8 <=? plen bs)); [|discriminate]. injection H as Hv Hr'. subst v r. cbn [wval_u].
    split; [|intros; discriminate].
    pose proof (le_dec_range 8 (firstn (Z.to_nat 8) bs) (bytes_ok_firstn' _ _ Hb)) as Hr.
    change (256 ^ Z.of_nat 8) with (2 ^ 64) in Hr. exact Hr. }
  destruct (wt =? 5).
  { destruct ((0 <=? 4) && (4 <=? plen bs)); [|discriminate]. injection H as Hv Hr'. subst v r. cbn [wval_u].
    split; [|intros; discriminate].
    pose proof (le_dec_range 4 (firstn (Z.to_nat 4) bs) (bytes_ok_firstn' _ _ Hb)) as Hr.
    destruct Hr as [Hr0 Hr1]. split; [exact Hr0 | eapply Z.lt_trans; [exact Hr1 | reflexivity]]. }
  destruct (wt =? 2); [|discriminate].
  destruct (varint_dec bs) as [l n]. destruct (n <? 0); [discriminate|].
  destruct ((0 <=? l) && (l <=? plen (skipn (Z.to_nat n) bs))); [|discriminate]. inversion H; subst.
  cbn [wval_u]. split; [change (2 ^ 64) with 18446744073709551616; lia|].
  intros b Hbq. inversion Hbq; subst. apply bytes_ok_firstn', bytes_ok_skipn'. assumption.
Qed.

Lemma consumed_of {A} (r bs : list A) : (length r < length bs)%nat ->
  exists c, (length bs = c + length r /\ 1 <= c)%nat.
Proof. intros H. exists (length bs - length r)%nat. lia. Qed.

(* the largest quoted member key of a schema *)
Definition keys_max (Sc : schema) : nat :=
  fold_right (fun md m => Nat.max (fold_right (fun fd m' => Nat.max (length (quote_ref (fd_json fd))) m') 0%nat (md_fields md)) m)
             0%nat Sc.

Lemma keys_max_ge Sc md fd : In md Sc -> In fd (md_fields md) -> (length (quote_ref (fd_json fd)) <= keys_max Sc)%nat.
Proof.
  intros Hmd Hfd. unfold keys_max. induction Sc as [|m Sc IH]; [contradiction|]. cbn [fold_right].
  destruct Hmd as [->|Hmd]; [|specialize (IH Hmd); lia].
  assert (H : (length (quote_ref (fd_json fd)) <=
               fold_right (fun fd m' => Nat.max (length (quote_ref (fd_json fd))) m') 0 (md_fields md))%nat).
  { induction (md_fields md) as [|g fs IHf]; [contradiction|]. cbn [fold_right].
    destruct Hfd as [->|Hfd]; [lia | specialize (IHf Hfd); lia]. }
  lia.
Qed.

Section P2JOutput.
  Variable fl : Z -> list Z.
  Variable o : p2j_opts.
  Variable F : nat.
  Hypothesis HF : forall b, (length (fl b) <= F)%nat.        (* the float printer emits at most F characters *)
  Variable Sc : schema.
  Variable KEYS : nat.
  Hypothesis HKEYS : forall md fd, In md Sc -> In fd (md_fields md) -> (length (quote_ref (fd_json fd)) <= KEYS)%nat.
  (* characters per input byte *)
  Variable K : nat.
  Hypothesis K72 : (72 <= K)%nat.
  Hypothesis KF : (F + 2 <= K)%nat.
  Hypothesis KK : (KEYS + 2 <= K)%nat.

  Lemma Kc c : (1 <= c -> K <= K * c)%nat.
  Proof. intros. nia. Qed.
  Lemma Kmono a b : (a <= b -> K * a <= K * b)%nat.
  Proof. intros. nia. Qed.

  Lemma value_text_len k v t : Z.abs v <= 2 ^ 64 -> value_text fl o k v = Some t -> (length t + 2 <= K)%nat.
  Proof.
    intros Hv. unfold value_text.
    destruct (k =? K_BOOL). { intros HH; inversion HH; subst. destruct (v =? 0); cbn [length lit_false lit_true]; lia. }
    destruct (k =? K_DOUBLE). { destruct (f64_is_finite v); [|discriminate]. intros HH; inversion HH; subst. pose proof (HF v). lia. }
    destruct (k =? K_FLOAT). { destruct (f32_is_finite v); [|discriminate]. intros HH; inversion HH; subst.
                               pose proof (HF (widen32 v)). lia. }
    pose proof (fmt_int_len64 v Hv).
    destruct ((k =? K_INT64) && o_int64_string o); intros HH; inversion HH; subst; cbn [length]; rewrite ?app_length; cbn [length]; lia.
  Qed.

  Lemma bytes_text_len k b : (length (bytes_text k b) <= 6 * length b + 6)%nat.
  Proof.
    unfold bytes_text. destruct (k =? K_STRING).
    - pose proof (quote_ref_le' b). lia.
    - cbn [length]. rewrite app_length. cbn [length]. pose proof (b64_text_le b). lia.
  Qed.

  Section Level.
    Variable rec : list Z -> list Z -> option text.
    Hypothesis Hrec : forall name body t, bytes_ok body -> rec name body = Some t -> (length t <= K * length body + 2)%nat.

    (* a value: at least one byte consumed, its text (plus two characters of slack for quotes / brackets) paid by them *)
    Lemma read_single_out t bs x r : bytes_ok bs -> read_single fl o rec t bs = Some (x, r) ->
      exists c, (length bs = c + length r /\ 1 <= c /\ length x + 2 <= K * c)%nat /\ bytes_ok r.
    Proof.
      intros Hb H. destruct (consumed_of r bs (read_single_shrinks fl o rec t bs x r H)) as (c & Hc & Hc1).
      exists c. pose proof (Kc c Hc1) as HK.
      unfold read_single in H. destruct t as [k|name].
      - destruct (is_byteskind k).
        + destruct (wdec_val 2 bs) as [[w r1]|] eqn:E; [|discriminate]. destruct w as [| | |b]; try discriminate.
          inversion H; subst. destruct (wdec_val_ok _ _ _ _ Hb E) as (Hr & _ & _).
          pose proof (wdec_val_bytes_len _ _ _ _ E) as Hl. pose proof (bytes_text_len k b) as Ht.
          pose proof (Kmono (length b + 1) c ltac:(lia)). split; [|assumption]. repeat split; try lia; try nia.
        + destruct (is_numeric k); [|discriminate].
          destruct (wdec_val (wt_of_kind k) bs) as [[w r1]|] eqn:E; [|discriminate].
          destruct (value_text fl o k (go_value k (wval_u w))) as [tx|] eqn:Ev; [|discriminate].
          inversion H; subst. destruct (wdec_val_ok _ _ _ _ Hb E) as (Hr & Hu & _).
          pose proof (value_text_len _ _ _ (go_value_range k _ Hu) Ev). split; [|assumption]. lia.
      - destruct (wdec_val 2 bs) as [[w r1]|] eqn:E; [|discriminate]. destruct w as [| | |body]; try discriminate.
        destruct (rec name body) as [tx|] eqn:Er; [|discriminate]. inversion H; subst.
        destruct (wdec_val_ok _ _ _ _ Hb E) as (Hr & _ & Hbody).
        pose proof (Hrec _ _ _ (Hbody body eq_refl) Er) as Ht.
        pose proof (wdec_val_bytes_len _ _ _ _ E) as Hl.
        pose proof (Kmono (length body + 1) c ltac:(lia)). split; [|assumption]. repeat split; try lia; try nia.
    Qed.

    Lemma packed_loop_out : forall f t payload x, bytes_ok payload ->
      packed_loop fl o rec f t payload = Some x -> (length x <= K * length payload)%nat.
    Proof.
      induction f as [|f IH]; intros t payload x Hb; destruct payload as [|c0 p]; cbn [packed_loop];
        try discriminate; try (intros HH; inversion HH; subst; cbn [length]; lia).
      destruct (read_single fl o rec t (c0 :: p)) as [[y r]|] eqn:E; [|discriminate].
      destruct (read_single_out _ _ _ _ Hb E) as (c & (Hc & Hc1 & Hy) & Hr).
      destruct r as [|c1 r].
      - intros HH; inversion HH; subst. rewrite Hc. cbn [length]. nia.
      - destruct (packed_loop fl o rec f t (c1 :: r)) as [more|] eqn:El; [|discriminate].
        apply IH in El; [|assumption]. intros HH; inversion HH; subst.
        rewrite app_length. cbn [length] in *. rewrite Hc. nia.
    Qed.

    Lemma unpacked_loop_out : forall f t n bs more rest, bytes_ok bs ->
      unpacked_loop fl o rec f t n bs = Some (more, rest) ->
      exists c, (length bs = c + length rest /\ length more <= K * c)%nat /\ bytes_ok rest.
    Proof.
      induction f as [|f IH]; intros t n bs more rest Hb; destruct bs as [|c0 bs]; cbn [unpacked_loop];
        try discriminate; try (intros HH; inversion HH; subst; exists 0%nat; cbn [length]; split; [lia | constructor]).
      destruct (rd_tag (c0 :: bs)) as [[[num wt] r]|] eqn:Et; [|discriminate].
      destruct (consumed_of _ _ (rd_tag_shrinks _ _ _ _ Et)) as (ct & Hct & Hct1).
      assert (Hr : bytes_ok r) by (destruct (rd_tag_suffix _ _ _ _ Et) as [m ->]; apply bytes_ok_skipn'; assumption).
      destruct (negb (num =? n)). { intros HH; inversion HH; subst. exists 0%nat. cbn [length]. split; [lia | assumption]. }
      destruct (read_single fl o rec t r) as [[x r']|] eqn:Es; [|discriminate].
      destruct (read_single_out _ _ _ _ Hr Es) as (cx & (Hcx & Hcx1 & Hx) & Hr').
      destruct (unpacked_loop fl o rec f t n r') as [[m rs]|] eqn:El; [|discriminate].
      destruct (IH _ _ _ _ _ Hr' El) as (c' & (Hc' & Hm) & Hrs).
      intros HH; inversion HH; subst. exists (ct + cx + c')%nat. split; [|assumption].
      cbn [length] in *. rewrite app_length. pose proof (Kc ct Hct1). split; [lia | nia].
    Qed.

    Lemma read_entry_out kk t bs x r : bytes_ok bs -> read_entry fl o rec kk t bs = Some (x, r) ->
      exists c, (length bs = c + length r /\ 1 <= c /\ length x + 2 <= K * c)%nat /\ bytes_ok r.
    Proof.
      intros Hb. unfold read_entry.
      destruct (rd_len bs) as [[l r0]|] eqn:E0; [|discriminate].
      destruct (consumed_of _ _ (rd_len_shrinks _ _ _ E0)) as (c0 & Hc0 & Hc01).
      assert (Hr0 : bytes_ok r0) by (destruct (rd_len_suffix _ _ _ E0) as [m ->]; apply bytes_ok_skipn'; assumption).
      destruct (rd_tag r0) as [[[n1 w1] r1]|] eqn:E1; [|discriminate].
      destruct (consumed_of _ _ (rd_tag_shrinks _ _ _ _ E1)) as (c1 & Hc1 & Hc11).
      assert (Hr1 : bytes_ok r1) by (destruct (rd_tag_suffix _ _ _ _ E1) as [m ->]; apply bytes_ok_skipn'; assumption).
      destruct (read_single fl o rec (TScalar kk) r1) as [[k r2]|] eqn:E2; [|discriminate].
      destruct (read_single_out _ _ _ _ Hr1 E2) as (c2 & (Hc2 & Hc21 & Hk) & Hr2).
      cbv zeta.
      destruct (rd_tag r2) as [[[n3 w3] r3]|] eqn:E3; [|discriminate].
      destruct (consumed_of _ _ (rd_tag_shrinks _ _ _ _ E3)) as (c3 & Hc3 & Hc31).
      assert (Hr3 : bytes_ok r3) by (destruct (rd_tag_suffix _ _ _ _ E3) as [m ->]; apply bytes_ok_skipn'; assumption).
      destruct (read_single fl o rec t r3) as [[v r4]|] eqn:E4; [|discriminate].
      destruct (read_single_out _ _ _ _ Hr3 E4) as (c4 & (Hc4 & Hc41 & Hv) & Hr4).
      intros HH; inversion HH; subst. exists (c0 + c1 + c2 + c3 + c4)%nat. split; [|assumption].
      pose proof (Kc c0 Hc01).
      assert (Hkey : forall q : bool, (length (if q then 34%Z :: k ++ [34%Z] else k) <= length k + 2)%nat).
      { intros [|]; cbn [length]; rewrite ?app_length; cbn [length]; lia. }
      pose proof (Hkey (negb (kk =? K_STRING) && negb ((kk =? K_INT64) && o_int64_string o))) as Hkey'.
      rewrite app_length. cbn [length]. repeat split; try lia; try nia.
    Qed.

    Lemma map_loop_out : forall f kk t n bs more rest, bytes_ok bs ->
      map_loop fl o rec f kk t n bs = Some (more, rest) ->
      exists c, (length bs = c + length rest /\ length more <= K * c)%nat /\ bytes_ok rest.
    Proof.
      induction f as [|f IH]; intros kk t n bs more rest Hb; destruct bs as [|c0 bs]; cbn [map_loop];
        try discriminate; try (intros HH; inversion HH; subst; exists 0%nat; cbn [length]; split; [lia | constructor]).
      destruct (rd_tag (c0 :: bs)) as [[[num wt] r]|] eqn:Et; [|discriminate].
      destruct (consumed_of _ _ (rd_tag_shrinks _ _ _ _ Et)) as (ct & Hct & Hct1).
      assert (Hr : bytes_ok r) by (destruct (rd_tag_suffix _ _ _ _ Et) as [m ->]; apply bytes_ok_skipn'; assumption).
      destruct (negb (num =? n)). { intros HH; inversion HH; subst. exists 0%nat. cbn [length]. split; [lia | assumption]. }
      destruct (read_entry fl o rec kk t r) as [[x r']|] eqn:Es; [|discriminate].
      destruct (read_entry_out _ _ _ _ _ Hr Es) as (cx & (Hcx & Hcx1 & Hx) & Hr').
      destruct (map_loop fl o rec f kk t n r') as [[m rs]|] eqn:El; [|discriminate].
      destruct (IH _ _ _ _ _ _ Hr' El) as (c' & (Hc' & Hm) & Hrs).
      intros HH; inversion HH; subst. exists (ct + cx + c')%nat. split; [|assumption].
      cbn [length] in *. rewrite app_length. pose proof (Kc ct Hct1). split; [lia | nia].
    Qed.

    (* one field value (of any shape): at least one byte, text paid by the bytes consumed *)
    Lemma walk_field_out fd wt bs x r : bytes_ok bs -> walk_field fl o rec fd wt bs = Some (x, r) ->
      exists c, (length bs = c + length r /\ 1 <= c /\ length x <= K * c)%nat /\ bytes_ok r.
    Proof.
      intros Hb. unfold walk_field. destruct (fd_label fd) as [|q|kk].
      - intros H. destruct (read_single_out _ _ _ _ Hb H) as (c & (H1 & H2 & H3) & H4). exists c. split; [lia | assumption].
      - unfold walk_list. destruct ((wt =? 2) && type_numeric (fd_type fd)).
        + destruct (rd_len bs) as [[l r0]|] eqn:E0; [|discriminate].
          destruct (consumed_of _ _ (rd_len_shrinks _ _ _ E0)) as (c0 & Hc0 & Hc01).
          assert (Hr0 : bytes_ok r0) by (destruct (rd_len_suffix _ _ _ E0) as [m ->]; apply bytes_ok_skipn'; assumption).
          destruct (ProtoMsg.take l r0) as [[payload rest]|] eqn:E1; [|discriminate].
          pose proof (ptake_len _ _ _ _ E1) as (Hl0 & Hl1 & Hl2).
          assert (Hp : bytes_ok payload /\ bytes_ok rest).
          { unfold ProtoMsg.take in E1. destruct ((0 <=? l) && (l <=? plen r0)); [|discriminate]. inversion E1; subst.
            split; [apply bytes_ok_firstn' | apply bytes_ok_skipn']; assumption. }
          destruct (packed_loop fl o rec (S (length payload)) (fd_type fd) payload) as [y|] eqn:Ep; [|discriminate].
          apply packed_loop_out in Ep; [|tauto].
          intros HH; inversion HH; subst. exists (c0 + length payload)%nat. split; [|tauto].
          cbn [length]. rewrite app_length. cbn [length]. pose proof (Kc c0 Hc01). repeat split; try lia; try nia.
        + destruct (read_single fl o rec (fd_type fd) bs) as [[y r0]|] eqn:E0; [|discriminate].
          destruct (read_single_out _ _ _ _ Hb E0) as (c0 & (Hc0 & Hc01 & Hy) & Hr0).
          destruct (unpacked_loop fl o rec (S (length r0)) (fd_type fd) (fd_num fd) r0) as [[m rs]|] eqn:E1; [|discriminate].
          destruct (unpacked_loop_out _ _ _ _ _ _ Hr0 E1) as (c' & (Hc' & Hm) & Hrs).
          intros HH; inversion HH; subst. exists (c0 + c')%nat. split; [|assumption].
          cbn [length]. rewrite !app_length. cbn [length]. repeat split; try lia; try nia.
      - unfold walk_map.
        destruct (read_entry fl o rec kk (fd_type fd) bs) as [[y r0]|] eqn:E0; [|discriminate].
        destruct (read_entry_out _ _ _ _ _ Hb E0) as (c0 & (Hc0 & Hc01 & Hy) & Hr0).
        destruct (map_loop fl o rec (S (length r0)) kk (fd_type fd) (fd_num fd) r0) as [[m rs]|] eqn:E1; [|discriminate].
        destruct (map_loop_out _ _ _ _ _ _ _ Hr0 E1) as (c' & (Hc' & Hm) & Hrs).
        intros HH; inversion HH; subst. exists (c0 + c')%nat. split; [|assumption].
        cbn [length]. rewrite !app_length. cbn [length]. repeat split; try lia; try nia.
    Qed.

    (* the message loop: every member (comma, key, colon, value) is paid by its tag and its value bytes *)
    Lemma walk_fields_out md : In md Sc -> forall f comma bs txt, bytes_ok bs ->
      walk_fields fl o rec f md comma bs = Some txt -> (length txt <= K * length bs)%nat.
    Proof.
      intros Hmd. induction f as [|f IH]; intros comma bs txt Hb; destruct bs as [|c0 bs]; cbn [walk_fields];
        try discriminate; try (intros HH; inversion HH; subst; cbn [length]; lia).
      destruct (rd_tag (c0 :: bs)) as [[[num wt] r]|] eqn:Et; [|discriminate].
      destruct (consumed_of _ _ (rd_tag_shrinks _ _ _ _ Et)) as (ct & Hct & Hct1).
      assert (Hr : bytes_ok r) by (destruct (rd_tag_suffix _ _ _ _ Et) as [m ->]; apply bytes_ok_skipn'; assumption).
      pose proof (Kc ct Hct1) as HKt.
      destruct (find_field md num) as [fd|] eqn:Ef.
      - apply find_some in Ef. destruct Ef as [Hin _]. pose proof (HKEYS md fd Hmd Hin) as Hkey.
        destruct (walk_field fl o rec fd wt r) as [[x r']|] eqn:Ew; [|discriminate].
        destruct (walk_field_out _ _ _ _ _ Hr Ew) as (cx & (Hcx & Hcx1 & Hx) & Hr').
        destruct (walk_fields fl o rec f md true r') as [more|] eqn:El; [|discriminate].
        apply IH in El; [|assumption]. intros HH.
        assert (Htxt : (if comma then [44] else []) ++ quote_ref (fd_json fd) ++ 58 :: x ++ more = txt) by congruence.
        clear HH. subst txt. set (q := quote_ref (fd_json fd)) in *. clearbody q.
        rewrite !app_length. cbn [length] in *. rewrite !app_length.
        assert ((length (if comma then [44%Z] else []) <= 1)%nat) by (destruct comma; cbn; lia).
        nia.
      - destruct (o_disallow_unknown o); [discriminate|].
        destruct (skip_val wt r) as [r'|] eqn:Es; [|discriminate].
        pose proof (skip_val_le _ _ _ Es) as Hle.
        assert (Hr' : bytes_ok r') by (destruct (skip_val_suffix _ _ _ Es) as [m ->]; apply bytes_ok_skipn'; assumption).
        intros H. apply IH in H; [|assumption]. pose proof (Kmono (length r') (length (c0 :: bs)) ltac:(lia)). lia.
    Qed.

    Lemma walk_body_out name body t : bytes_ok body ->
      walk_body fl o Sc rec name body = Some t -> (length t <= K * length body + 2)%nat.
    Proof.
      intros Hb. unfold walk_body. destruct (find_msg Sc name) as [md|] eqn:Em; [|discriminate].
      apply find_some in Em. destruct Em as [Hin _].
      destruct (walk_fields fl o rec (S (length body)) md false body) as [x|] eqn:E; [|discriminate].
      apply (walk_fields_out md Hin) in E; [|assumption].
      intros HH; inversion HH; subst. cbn [length]. rewrite app_length. cbn [length]. lia.
    Qed.
  End Level.

  Theorem walk_msg_out : forall fuel name body t, bytes_ok body ->
    walk_msg fl o Sc fuel name body = Some t -> (length t <= K * length body + 2)%nat.
  Proof.
    induction fuel as [|f IH]; intros name body t Hb; cbn [walk_msg]; [discriminate|].
    apply walk_body_out; [|assumption]. intros nm b tx Hbb. apply IH. assumption.
  Qed.
End P2JOutput.

(* the JSON text conv/p2j emits for ANY byte string it accepts is at most (72 + F + KEYS) * |bs| + 2 characters,
   F = longest float lexeme of the printer, KEYS = longest quoted member key of the schema *)
Theorem p2j_output_linear fl F fuel o Sc name bs txt :
  (forall b, (length (fl b) <= F)%nat) -> bytes_ok bs ->
  p2j_walk_gen fl fuel o Sc name bs = Some txt ->
  (length txt <= (72 + F + keys_max Sc) * length bs + 2)%nat.
Proof.
  intros HF Hb H. unfold p2j_walk_gen in H.
  apply (walk_msg_out fl o F HF Sc (keys_max Sc) (keys_max_ge Sc) (72 + F + keys_max Sc)%nat
           ltac:(lia) ltac:(lia) ltac:(lia) fuel name bs txt Hb H).
Qed.

(* non-vacuity: {"a":150,"b":["hi","\n"]} — 25 characters from 10 bytes *)
Example p2j_output_example :
  let S1 : schema := [mk_mdesc [77] [mk_fdesc 1 [97] [97] LSingular (TScalar 5);
                                      mk_fdesc 2 [98] [98] (LRepeated true) (TScalar 9)]] in
  p2j_walk 3 (mk_p2j_opts false false) S1 [77] [8; 150; 1; 18; 2; 104; 105; 18; 1; 10] =
    Some [123; 34; 97; 34; 58; 49; 53; 48; 44; 34; 98; 34; 58; 91; 34; 104; 105; 34; 44; 34; 92; 110; 34; 93; 125] /\
  keys_max S1 = 3%nat.
Proof. vm_compute. split; reflexivity. Qed.
