(* Thrift DOM: marshal inverts load; the byte walk of load builds exactly the specified tree; tree edits. *)
From Coq Require Import ZArith List Bool Lia.
From DG Require Import ProtoWireRef ProtoWireRefProofs ThriftWire ThriftWireProofs CaseFormat ThriftGeneric ThriftDom.
Import ListNotations.
Local Open Scope Z_scope.

(* ---------------- induction principle for typed trees ---------------- *)
Section DomInd.
  Variable P : dom -> Prop.
  Hypothesis HLeaf : forall v, P (DLeaf v).
  Hypothesis HEmpty : P DEmpty.
  Hypothesis HNode : forall t et kt raw kids, Forall (fun kd => P (snd kd)) kids -> P (DNode t et kt raw kids).
  Fixpoint dom_ind' (d : dom) : P d :=
    match d with
    | DLeaf v => HLeaf v
    | DEmpty => HEmpty
    | DNode t et kt raw kids => HNode t et kt raw kids
        ((fix go (l : list (pkey * dom)) : Forall (fun kd => P (snd kd)) l :=
            match l with [] => Forall_nil _ | kd :: l' => Forall_cons kd (dom_ind' (snd kd)) (go l') end) kids)
    end.
End DomInd.

(* ---------------- small arithmetic ---------------- *)
Lemma to_s_mod k x : 0 < k -> to_s k x mod 2 ^ k = x mod 2 ^ k.
Proof.
  intros Hk. unfold to_s. rewrite Zminus_mod_idemp_l. f_equal. lia.
Qed.

Lemma enc_int_to_s (n : nat) x : (0 < n)%nat -> enc_int n (to_s (8 * Z.of_nat n) x) = enc_int n x.
Proof.
  intros Hn. unfold enc_int. rewrite pow256_pow2. rewrite to_s_mod by lia. reflexivity.
Qed.

Lemma to_s_small k x : 0 < k -> - 2 ^ (k - 1) <= x < 2 ^ (k - 1) -> to_s k x = x.
Proof.
  intros Hk Hx. unfold to_s. assert (2 ^ k = 2 * 2 ^ (k - 1)) as E.
  { replace k with (1 + (k - 1)) at 1 by lia. rewrite Z.pow_add_r by lia. reflexivity. }
  rewrite Z.mod_small by lia. lia.
Qed.

Lemma enc_int_fid id : enc_int 2 (fid id) = enc_int 2 id.
Proof. unfold enc_int, fid. change (256 ^ Z.of_nat 2) with 65536. rewrite Z.mod_mod by lia. reflexivity. Qed.

Lemma to_s_fid id : in_sb 16 id = true -> to_s 16 (fid id) = id.
Proof.
  intros H. apply in_sb_true in H. unfold fid, to_s. change (2 ^ 16) with 65536 in *. change (2 ^ (16 - 1)) with 32768 in *.
  rewrite Zplus_mod_idemp_l. rewrite Z.mod_small by lia. lia.
Qed.

(* ---------------- marshal of a typed tree ---------------- *)
Definition key_fits (kt : Z) (k : pkey) : Prop :=
  match k with
  | KStr _ => kt = T_STRING
  | KInt _ => is_int_type kt = true
  | KBin b => kt <> T_STRING /\ is_int_type kt = false /\ encode (val_of_key kt (KBin b)) = b
  | _ => False
  end.

Fixpoint dom_ok (d : dom) : Prop :=
  match d with
  | DLeaf _ => True
  | DEmpty => True
  | DNode t et kt raw kids =>
    kids <> [] /\ is_container t = true /\
    (t = T_MAP -> Forall (fun kd => key_fits kt (fst kd)) kids) /\
    (fix all (l : list (pkey * dom)) : Prop := match l with [] => True | kd :: r => dom_ok (snd kd) /\ all r end) kids
  end.

Lemma dom_ok_kids t et kt raw kids : dom_ok (DNode t et kt raw kids) -> Forall (fun kd => dom_ok (snd kd)) kids.
Proof.
  cbn. intros [_ [_ [_ H]]]. induction kids as [|kd kids IH]; constructor; [tauto|apply IH; tauto].
Qed.

Lemma Forall_dom_ok_all kids : Forall (fun kd : pkey * dom => dom_ok (snd kd)) kids ->
  (fix all (l : list (pkey * dom)) : Prop := match l with [] => True | kd :: r => dom_ok (snd kd) /\ all r end) kids.
Proof. induction 1; cbn; auto. Qed.

Lemma container_cases t : is_container t = true -> t = T_STRUCT \/ t = T_MAP \/ t = T_SET \/ t = T_LIST.
Proof.
  unfold is_container. intros H. repeat (apply orb_true_iff in H; destruct H as [H|H]); apply Z.eqb_eq in H; auto.
Qed.

Lemma key_bytes_fits kt k : key_fits kt k -> key_bytes kt k = Some (encode (val_of_key kt k)).
Proof.
  destruct k as [|id|i|s|n|b]; cbn [key_fits]; try tauto.
  - intros ->. reflexivity.
  - intros Hi. unfold key_bytes. unfold is_int_type in Hi.
    destruct (Z.eqb_spec kt T_STRING) as [->|_]; [discriminate Hi|]. unfold is_int_type. rewrite Hi.
    unfold val_of_key, int_width.
    destruct (Z.eqb_spec kt T_BYTE) as [->|N1]; [cbn [encode]; rewrite (enc_int_to_s 1) by lia; reflexivity|].
    destruct (Z.eqb_spec kt T_I16) as [->|N2]; [cbn [encode]; rewrite (enc_int_to_s 2) by lia; reflexivity|].
    destruct (Z.eqb_spec kt T_I32) as [->|N3]; [cbn [encode]; rewrite (enc_int_to_s 4) by lia; reflexivity|].
    cbn [encode]. rewrite (enc_int_to_s 8) by lia. reflexivity.
  - intros [Hs [Hi Hb]]. unfold key_bytes. destruct (Z.eqb_spec kt T_STRING); [contradiction|]. rewrite Hi. rewrite Hb. reflexivity.
Qed.

(* type / emptiness of the algorithm-level node against the value the typed tree denotes *)
Lemma dom_type_facts d : dom_ok d ->
  match val_of_dom d with
  | Some v => t_type (tree_of_dom d) = type_of v /\ t_empty (tree_of_dom d) = false
  | None => t_empty (tree_of_dom d) = true
  end.
Proof.
  destruct d as [v| |t et kt raw kids]; intros Hok.
  - cbn. split; [reflexivity|]. unfold t_empty. cbn. destruct v; reflexivity.
  - reflexivity.
  - destruct Hok as [_ [Hc _]]. apply container_cases in Hc. cbn [val_of_dom tree_of_dom t_type].
    destruct Hc as [->|[->|[->| ->]]]; cbn; split; reflexivity.
Qed.

Definition live_pairs (kids : list (pkey * dom)) : list (pkey * tval) :=
  flat_map (fun kd => match val_of_dom (snd kd) with Some v => [(fst kd, v)] | None => [] end) kids.

Lemma cat_opt_kids (g : pkey * tree -> option (list Z)) (e : pkey * tval -> list Z) kids :
  Forall (fun kd => match val_of_dom (snd kd) with
                    | Some v => g (fst kd, tree_of_dom (snd kd)) = Some (e (fst kd, v))
                    | None => g (fst kd, tree_of_dom (snd kd)) = Some []
                    end) kids ->
  cat_opt (map g (map (fun kd => (fst kd, tree_of_dom (snd kd))) kids)) = Some (flat_map e (live_pairs kids)).
Proof.
  unfold live_pairs. induction 1 as [|kd kids Hkd _ IH]; [reflexivity|].
  cbn [map cat_opt flat_map]. destruct (val_of_dom (snd kd)) as [v|]; rewrite Hkd, IH; cbn [flat_map app]; rewrite ?app_nil_r; reflexivity.
Qed.

Lemma flat_map_map {A B C} (f : B -> list C) (h : A -> B) l : flat_map f (map h l) = flat_map (fun x => f (h x)) l.
Proof. induction l; cbn; congruence. Qed.

Lemma fold_size (l : list (pkey * tree)) : forall a,
  fold_left (fun sz kc => if t_empty (snd kc) then sz - 1 else sz) l a =
  a - zlen l + zlen (filter (fun kc => negb (t_empty (snd kc))) l).
Proof.
  unfold zlen. induction l as [|kc l IH]; intros a; cbn [fold_left filter length]; [lia|].
  rewrite IH. destruct (t_empty (snd kc)); cbn [negb length]; lia.
Qed.

(* marshal_skips_holes, part 1: the size left in the header is the number of non-empty children *)
Lemma rewritten_size_live next : rewritten_size next = zlen (filter (fun kc => negb (t_empty (snd kc))) next).
Proof. unfold rewritten_size. rewrite fold_size. lia. Qed.

Lemma live_count kids : Forall (fun kd => dom_ok (snd kd)) kids ->
  zlen (filter (fun kc : pkey * tree => negb (t_empty (snd kc))) (map (fun kd => (fst kd, tree_of_dom (snd kd))) kids)) = zlen (live_pairs kids).
Proof.
  unfold zlen, live_pairs. induction 1 as [|kd kids Hkd _ IH]; [reflexivity|].
  cbn [map filter flat_map snd]. pose proof (dom_type_facts _ Hkd) as Hf.
  destruct (val_of_dom (snd kd)) as [v|].
  - destruct Hf as [_ ->]. cbn [negb length app]. lia.
  - rewrite Hf. cbn [negb app]. exact IH.
Qed.

Lemma map_nonempty {A B} (f : A -> B) l : l <> [] -> map f l <> [].
Proof. destruct l; cbn; congruence. Qed.

Theorem marshal_dom : forall d, dom_ok d -> forall v, val_of_dom d = Some v -> marshal (tree_of_dom d) = Some (encode v).
Proof.
  induction d as [v0| |t et kt raw kids IH] using dom_ind'; intros Hok v Hv.
  - cbn in Hv. inversion Hv; subst. destruct v; reflexivity.
  - discriminate.
  - pose proof (dom_ok_kids _ _ _ _ _ Hok) as Hkids. destruct Hok as [Hne [Hc [Hkeys _]]].
    assert (Hnerr : (t =? T_ERROR) = false) by (destruct (container_cases t Hc) as [-> | [-> | [-> | ->]]]; reflexivity).
    cbn [tree_of_dom]. set (next := map (fun kd => (fst kd, tree_of_dom (snd kd))) kids).
    assert (Hnext : next <> []) by (apply map_nonempty; exact Hne).
    assert (Hsz : rewritten_size next = zlen (live_pairs kids)) by (rewrite rewritten_size_live; apply live_count; exact Hkids).
    cbn [marshal]. rewrite Hnerr. destruct next as [|n0 nr] eqn:En; [contradiction|]. rewrite <- En. rewrite <- En in Hsz. clear Hnext.
    cbn [val_of_dom] in Hv. fold (live_pairs kids) in Hv.
    apply container_cases in Hc. destruct Hc as [->|[->|[->| ->]]].
    + (* struct *)
      change (T_STRUCT =? T_STRUCT) with true in *. cbn iota in *. inversion Hv; subst v. clear Hv.
      subst next.
      rewrite (cat_opt_kids _ (fun kv => type_of (snd kv) :: enc_int 2 (key_l (fst kv)) ++ encode (snd kv))).
      * cbn [encode]. rewrite flat_map_map. cbn [fst snd].
        f_equal. f_equal. apply flat_map_ext. intros [k x]. cbn [fst snd].
        rewrite (enc_int_to_s 2) by lia. reflexivity.
      * rewrite Forall_forall in *. intros kd Hin. specialize (IH kd Hin). specialize (Hkids kd Hin).
        pose proof (dom_type_facts _ Hkids) as Hf. cbn [fst snd].
        destruct (val_of_dom (snd kd)) as [x|] eqn:Ex.
        -- destruct Hf as [Ht He]. rewrite He. rewrite (IH Hkids x eq_refl). rewrite Ht. reflexivity.
        -- rewrite Hf. reflexivity.
    + (* map *)
      change (T_MAP =? T_STRUCT) with false in *. change ((T_MAP =? T_LIST) || (T_MAP =? T_SET)) with false in *.
      change (T_MAP =? T_LIST) with false in *. change (T_MAP =? T_SET) with false in *.
      change (T_MAP =? T_MAP) with true in *. cbn iota in *. inversion Hv; subst v. clear Hv.
      specialize (Hkeys eq_refl). subst next.
      rewrite (cat_opt_kids _ (fun kv => encode (val_of_key kt (fst kv)) ++ encode (snd kv))).
      * cbn [encode]. rewrite flat_map_map. cbn [fst snd]. rewrite Hsz. unfold zlen. rewrite map_length. reflexivity.
      * rewrite Forall_forall in *. intros kd Hin. specialize (IH kd Hin). specialize (Hkids kd Hin). specialize (Hkeys kd Hin).
        pose proof (dom_type_facts _ Hkids) as Hf. cbn [fst snd].
        destruct (val_of_dom (snd kd)) as [x|] eqn:Ex.
        -- destruct Hf as [Ht He]. rewrite He. rewrite (IH Hkids x eq_refl). rewrite (key_bytes_fits _ _ Hkeys). reflexivity.
        -- rewrite Hf. reflexivity.
    + (* set *)
      change (T_SET =? T_STRUCT) with false in *. change ((T_SET =? T_LIST) || (T_SET =? T_SET)) with true in *.
      change (T_SET =? T_LIST) with false in *. change (T_SET =? T_SET) with true in *. cbn iota in *. inversion Hv; subst v. clear Hv.
      subst next.
      rewrite (cat_opt_kids _ (fun kv => encode (snd kv))).
      * cbn [encode]. rewrite flat_map_map. rewrite Hsz. unfold zlen. rewrite map_length. reflexivity.
      * rewrite Forall_forall in *. intros kd Hin. specialize (IH kd Hin). specialize (Hkids kd Hin).
        pose proof (dom_type_facts _ Hkids) as Hf. cbn [fst snd].
        destruct (val_of_dom (snd kd)) as [x|] eqn:Ex.
        -- destruct Hf as [Ht He]. rewrite He. rewrite (IH Hkids x eq_refl). reflexivity.
        -- rewrite Hf. reflexivity.
    + (* list *)
      change (T_LIST =? T_STRUCT) with false in *. change ((T_LIST =? T_LIST) || (T_LIST =? T_SET)) with true in *.
      change (T_LIST =? T_LIST) with true in *. cbn iota in *. inversion Hv; subst v. clear Hv.
      subst next.
      rewrite (cat_opt_kids _ (fun kv => encode (snd kv))).
      * cbn [encode]. rewrite flat_map_map. rewrite Hsz. unfold zlen. rewrite map_length. reflexivity.
      * rewrite Forall_forall in *. intros kd Hin. specialize (IH kd Hin). specialize (Hkids kd Hin).
        pose proof (dom_type_facts _ Hkids) as Hf. cbn [fst snd].
        destruct (val_of_dom (snd kd)) as [x|] eqn:Ex.
        -- destruct Hf as [Ht He]. rewrite He. rewrite (IH Hkids x eq_refl). reflexivity.
        -- rewrite Hf. reflexivity.
Qed.

(* ---------------- the tree Load specifies denotes the loaded value ---------------- *)
Lemma dom_deep_eq ns v : dom_deep ns v =
  if is_container (type_of v) then
    match kids_of (dom_deep ns) v with
    | [] => if ns then DNode (type_of v) (et_of v) (kt_of v) [] [] else DLeaf v
    | ks => DNode (type_of v) (et_of v) (kt_of v) (if ns then [] else encode v) ks
    end
  else DLeaf v.
Proof. destruct v; reflexivity. Qed.

Definition child_of (c : tval) (v : tval) : Prop :=
  match v with
  | VStruct fs => In c (map snd fs)
  | VMap _ _ es => In c (map snd es)
  | VSet _ es => In c es
  | VList _ es => In c es
  | _ => False
  end.

Lemma wf_child v c : wf v = true -> child_of c v -> wf c = true.
Proof.
  destruct v as [b|z|z|z|z|z|s|fs|kt vt es|et es|et es]; cbn [child_of wf]; try tauto; intros Hwf Hin.
  - apply in_map_iff in Hin. destruct Hin as [f [<- Hin]]. rewrite forallb_forall in Hwf. specialize (Hwf f Hin).
    apply andb_true_iff in Hwf. tauto.
  - repeat (apply andb_true_iff in Hwf; destruct Hwf as [Hwf ?]).
    apply in_map_iff in Hin. destruct Hin as [e [<- Hin]].
    match goal with H : forallb _ es = true |- _ => rewrite forallb_forall in H; specialize (H e Hin) end.
    repeat match goal with H : _ && _ = true |- _ => apply andb_true_iff in H; destruct H end. assumption.
  - repeat (apply andb_true_iff in Hwf; destruct Hwf as [Hwf ?]).
    match goal with H : forallb _ es = true |- _ => rewrite forallb_forall in H; specialize (H c Hin) end.
    repeat match goal with H : _ && _ = true |- _ => apply andb_true_iff in H; destruct H end. assumption.
  - repeat (apply andb_true_iff in Hwf; destruct Hwf as [Hwf ?]).
    match goal with H : forallb _ es = true |- _ => rewrite forallb_forall in H; specialize (H c Hin) end.
    repeat match goal with H : _ && _ = true |- _ => apply andb_true_iff in H; destruct H end. assumption.
Qed.

Lemma length_flat_map_in {A} (g : A -> list Z) l a : In a l -> (length (g a) <= length (flat_map g l))%nat.
Proof.
  induction l as [|b l IH]; cbn; [tauto|]. rewrite app_length. intros [->|H]; [lia|]. specialize (IH H). lia.
Qed.

Lemma fold_max_bound {A} (g : A -> nat) (l : list A) (n : nat) :
  (forall a, In a l -> (g a <= n)%nat) -> (fold_right (fun a m => Nat.max (g a) m) O l <= n)%nat.
Proof.
  induction l as [|a l IH]; cbn; intros H; [lia|]. apply Nat.max_lub; [apply H; auto|apply IH; intros; apply H; auto].
Qed.

Lemma depth_le_length : forall v, (depth v <= length (encode v))%nat.
Proof.
  induction v as [b|z|z|z|z|z|s|fs IH|kt vt es IH|et es IH|et es IH] using tval_ind';
  try (cbn [depth]; apply encode_nonempty).
  - cbn [depth encode]. rewrite app_length. cbn [length].
    assert (fold_right (fun (f : Z * tval) m => Nat.max (depth (snd f)) m) O fs <=
            length (flat_map (fun f : Z * tval => type_of (snd f) :: enc_int 2 (fst f) ++ encode (snd f)) fs))%nat; [|lia].
    apply fold_max_bound. intros f Hin. rewrite Forall_forall in IH. specialize (IH f Hin).
    pose proof (length_flat_map_in (fun f : Z * tval => type_of (snd f) :: enc_int 2 (fst f) ++ encode (snd f)) fs f Hin) as Hl.
    cbn [length] in Hl. rewrite app_length in Hl. lia.
  - cbn [depth encode]. cbn [length]. rewrite app_length.
    assert (fold_right (fun (e : tval * tval) m => Nat.max (Nat.max (depth (fst e)) (depth (snd e))) m) O es <=
            length (flat_map (fun e : tval * tval => encode (fst e) ++ encode (snd e)) es))%nat; [|lia].
    apply fold_max_bound. intros e Hin. rewrite Forall_forall in IH. destruct (IH e Hin) as [Hk Hx].
    pose proof (length_flat_map_in (fun e : tval * tval => encode (fst e) ++ encode (snd e)) es e Hin) as Hl.
    cbv beta in Hl. rewrite app_length in Hl. lia.
  - cbn [depth encode]. cbn [length]. rewrite app_length.
    assert (fold_right (fun e m => Nat.max (depth e) m) O es <= length (flat_map encode es))%nat; [|lia].
    apply fold_max_bound. intros e Hin. rewrite Forall_forall in IH. specialize (IH e Hin).
    pose proof (length_flat_map_in encode es e Hin). lia.
  - cbn [depth encode]. cbn [length]. rewrite app_length.
    assert (fold_right (fun e m => Nat.max (depth e) m) O es <= length (flat_map encode es))%nat; [|lia].
    apply fold_max_bound. intros e Hin. rewrite Forall_forall in IH. specialize (IH e Hin).
    pose proof (length_flat_map_in encode es e Hin). lia.
Qed.

Lemma decode_encode_exact v : wf v = true -> decode (S (length (encode v))) (type_of v) (encode v) = Some (v, []).
Proof.
  intros Hwf. pose proof (decode_encode v Hwf (S (length (encode v))) []) as H. rewrite app_nil_r in H.
  apply H. pose proof (depth_le_length v). lia.
Qed.

(* the key a map entry is stored under denotes the key value *)
Lemma key_roundtrip k : wf k = true -> val_of_key (type_of k) (key_of_val k) = k.
Proof.
  intros Hwf. destruct k as [b|z|z|z|z|z|s|fs|kt vt es|et es|et es]; cbn [key_of_val type_of];
  try (unfold val_of_key; rewrite decode_encode_exact by exact Hwf; reflexivity).
  - cbn [wf] in Hwf. apply in_sb_true in Hwf. unfold val_of_key. change (T_BYTE =? T_BYTE) with true. cbn iota.
    f_equal. unfold to_s. change (2 ^ 8) with 256 in *. change (2 ^ (8 - 1)) with 128 in *.
    rewrite Zplus_mod_idemp_l. rewrite Z.mod_small by lia. lia.
  - cbn [wf] in Hwf. apply in_sb_true in Hwf. unfold val_of_key. change (T_I16 =? T_BYTE) with false. change (T_I16 =? T_I16) with true.
    cbn iota. f_equal. apply to_s_small; lia.
  - cbn [wf] in Hwf. apply in_sb_true in Hwf. unfold val_of_key. change (T_I32 =? T_BYTE) with false. change (T_I32 =? T_I16) with false.
    change (T_I32 =? T_I32) with true. cbn iota. f_equal. apply to_s_small; lia.
  - cbn [wf] in Hwf. apply in_sb_true in Hwf. unfold val_of_key. change (T_I64 =? T_BYTE) with false. change (T_I64 =? T_I16) with false.
    change (T_I64 =? T_I32) with false. cbn iota. f_equal. apply to_s_small; lia.
  - reflexivity.
Qed.

Lemma key_fits_of_val k : wf k = true -> key_fits (type_of k) (key_of_val k).
Proof.
  intros Hwf. pose proof (key_roundtrip k Hwf) as Hr.
  destruct k as [b|z|z|z|z|z|s|fs|kt vt es|et es|et es]; cbn [key_of_val type_of key_fits] in *;
  try reflexivity; (split; [discriminate|split; [reflexivity|]]); rewrite Hr; reflexivity.
Qed.

Lemma live_pairs_map {X} (key : X -> pkey) (val : X -> tval) (f : tval -> dom) (xs : list X) :
  (forall x, In x xs -> val_of_dom (f (val x)) = Some (val x)) ->
  live_pairs (map (fun x => (key x, f (val x))) xs) = map (fun x => (key x, val x)) xs.
Proof.
  unfold live_pairs. induction xs as [|x xs IH]; intros H; [reflexivity|].
  cbn [map flat_map fst snd]. rewrite (H x (or_introl eq_refl)). cbn [app]. f_equal. apply IH. intros; apply H; right; assumption.
Qed.

Lemma live_pairs_index (f : tval -> dom) (es : list tval) : forall i,
  (forall e, In e es -> val_of_dom (f e) = Some e) ->
  live_pairs (index_keys i (map f es)) = index_keys i es.
Proof.
  unfold live_pairs. induction es as [|e es IH]; intros i H; [reflexivity|].
  cbn [map index_keys flat_map fst snd]. rewrite (H e (or_introl eq_refl)). cbn [app]. f_equal. apply IH. intros; apply H; right; assumption.
Qed.

Lemma map_snd_index {A} (l : list A) : forall i, map snd (index_keys i l) = l.
Proof. induction l as [|x l IH]; intros i; cbn; [reflexivity|]. rewrite IH. reflexivity. Qed.

Lemma Forall_index_keys {A} (P : pkey * A -> Prop) (Q : A -> Prop) (l : list A) : (forall k a, Q a -> P (k, a)) ->
  Forall Q l -> forall i, Forall P (index_keys i l).
Proof. intros HPQ H. induction H; intros i; cbn; constructor; auto. Qed.

(* a node built from the children of v, each child tree denoting the child: denotes v *)
Lemma kids_sound (f : tval -> dom) v raw : wf v = true ->
  (forall c, child_of c v -> val_of_dom (f c) = Some c /\ dom_ok (f c)) ->
  kids_of f v <> [] ->
  val_of_dom (DNode (type_of v) (et_of v) (kt_of v) raw (kids_of f v)) = Some v /\
  dom_ok (DNode (type_of v) (et_of v) (kt_of v) raw (kids_of f v)).
Proof.
  intros Hwf Hch Hne.
  destruct v as [b|z|z|z|z|z|s|fs|kt vt es|et es|et es]; cbn [kids_of] in *; try congruence; cbn [child_of] in Hch.
  - (* struct *)
    split.
    + cbn [val_of_dom type_of]. change (T_STRUCT =? T_STRUCT) with true. cbn iota.
      change (flat_map _ (map (fun x : Z * tval => (KField (fid (fst x)), f (snd x))) fs))
        with (live_pairs (map (fun x : Z * tval => (KField (fid (fst x)), f (snd x))) fs)).
      rewrite (live_pairs_map (fun x : Z * tval => KField (fid (fst x))) snd f fs).
      2:{ intros x Hin. apply Hch. apply in_map. exact Hin. }
      rewrite map_map. cbn [fst snd key_l]. f_equal. f_equal.
      cbn [wf] in Hwf. rewrite forallb_forall in Hwf.
      rewrite <- (map_id fs) at 2. apply map_ext_in. intros [id x] Hin. cbn [fst snd].
      specialize (Hwf _ Hin). cbn [fst snd] in Hwf. apply andb_true_iff in Hwf. rewrite to_s_fid by tauto. reflexivity.
    + cbn [dom_ok type_of]. split; [exact Hne|]. split; [reflexivity|]. split; [discriminate|].
      apply Forall_dom_ok_all. rewrite Forall_forall. intros kd Hin. apply in_map_iff in Hin. destruct Hin as [x [<- Hin]].
      cbn [snd]. apply Hch. apply in_map. exact Hin.
  - (* map *)
    cbn [wf] in Hwf. repeat (apply andb_true_iff in Hwf; destruct Hwf as [Hwf ?]).
    match goal with H : forallb _ es = true |- _ => rewrite forallb_forall in H; rename H into Hall end.
    split.
    + cbn [val_of_dom type_of et_of kt_of]. change (T_MAP =? T_STRUCT) with false. change (T_MAP =? T_LIST) with false.
      change (T_MAP =? T_SET) with false. change (T_MAP =? T_MAP) with true. cbn iota.
      change (flat_map _ (map (fun e : tval * tval => (key_of_val (fst e), f (snd e))) es))
        with (live_pairs (map (fun e : tval * tval => (key_of_val (fst e), f (snd e))) es)).
      rewrite (live_pairs_map (fun e : tval * tval => key_of_val (fst e)) snd f es).
      2:{ intros x Hin. apply Hch. apply in_map. exact Hin. }
      rewrite map_map. cbn [fst snd]. f_equal. f_equal.
      rewrite <- (map_id es) at 2. apply map_ext_in. intros [k x] Hin. cbn [fst snd].
      specialize (Hall _ Hin). cbn [fst snd] in Hall. repeat (apply andb_true_iff in Hall; destruct Hall as [Hall ?]).
      apply Z.eqb_eq in Hall. subst kt. rewrite key_roundtrip by assumption. reflexivity.
    + cbn [dom_ok type_of et_of kt_of]. split; [exact Hne|]. split; [reflexivity|]. split.
      * intros _. rewrite Forall_forall. intros kd Hin. apply in_map_iff in Hin. destruct Hin as [[k x] [<- Hin]]. cbn [fst snd].
        specialize (Hall _ Hin). cbn [fst snd] in Hall. repeat (apply andb_true_iff in Hall; destruct Hall as [Hall ?]).
        apply Z.eqb_eq in Hall. subst kt. apply key_fits_of_val. assumption.
      * apply Forall_dom_ok_all. rewrite Forall_forall. intros kd Hin. apply in_map_iff in Hin. destruct Hin as [x [<- Hin]].
        cbn [snd]. apply Hch. apply in_map. exact Hin.
  - (* set *)
    split.
    + cbn [val_of_dom type_of et_of kt_of]. change (T_SET =? T_STRUCT) with false. change (T_SET =? T_LIST) with false.
      change (T_SET =? T_SET) with true. cbn iota.
      change (flat_map _ (index_keys 0 (map f es))) with (live_pairs (index_keys 0 (map f es))).
      rewrite live_pairs_index by (intros e Hin; apply Hch; exact Hin). rewrite map_snd_index. reflexivity.
    + cbn [dom_ok type_of]. split; [exact Hne|]. split; [reflexivity|]. split; [discriminate|].
      apply Forall_dom_ok_all. apply (Forall_index_keys _ dom_ok); [auto|].
      rewrite Forall_forall. intros d Hin. apply in_map_iff in Hin. destruct Hin as [e [<- Hin]]. apply Hch. exact Hin.
  - (* list *)
    split.
    + cbn [val_of_dom type_of et_of kt_of]. change (T_LIST =? T_STRUCT) with false. change (T_LIST =? T_LIST) with true. cbn iota.
      change (flat_map _ (index_keys 0 (map f es))) with (live_pairs (index_keys 0 (map f es))).
      rewrite live_pairs_index by (intros e Hin; apply Hch; exact Hin). rewrite map_snd_index. reflexivity.
    + cbn [dom_ok type_of]. split; [exact Hne|]. split; [reflexivity|]. split; [discriminate|].
      apply Forall_dom_ok_all. apply (Forall_index_keys _ dom_ok); [auto|].
      rewrite Forall_forall. intros d Hin. apply in_map_iff in Hin. destruct Hin as [e [<- Hin]]. apply Hch. exact Hin.
Qed.

Lemma child_of_ind_hyp (P : tval -> Prop) v :
  match v with
  | VStruct fs => Forall (fun f => P (snd f)) fs
  | VMap _ _ es => Forall (fun e => P (fst e) /\ P (snd e)) es
  | VSet _ es => Forall P es
  | VList _ es => Forall P es
  | _ => True
  end -> forall c, child_of c v -> P c.
Proof.
  destruct v; cbn [child_of]; try tauto; intros H c Hin; rewrite Forall_forall in H.
  - apply in_map_iff in Hin. destruct Hin as [f [<- Hin]]. apply H. exact Hin.
  - apply in_map_iff in Hin. destruct Hin as [e [<- Hin]]. apply H. exact Hin.
  - apply H. exact Hin.
  - apply H. exact Hin.
Qed.

Theorem dom_deep_sound : forall v, wf v = true -> val_of_dom (dom_deep false v) = Some v /\ dom_ok (dom_deep false v).
Proof.
  induction v as [b|z|z|z|z|z|s|fs IH|kt vt es IH|et es IH|et es IH] using tval_ind'; intros Hwf;
  try (cbn; split; [reflexivity|exact I]);
  rewrite dom_deep_eq; cbn [type_of is_container]; change (is_container _) with true; cbn iota.
  all: match goal with |- context [kids_of ?f ?v] =>
         assert (Hch : forall c, child_of c v -> val_of_dom (f c) = Some c /\ dom_ok (f c));
         [intros c Hc; pose proof (wf_child _ _ Hwf Hc) as Hwc; revert Hwc;
          apply (child_of_ind_hyp (fun c => wf c = true -> val_of_dom (f c) = Some c /\ dom_ok (f c)) v); [|exact Hc]|];
         [|destruct (kids_of f v) as [|k0 kr] eqn:Ek; [cbn; split; [reflexivity|exact I]|];
           rewrite <- Ek; apply (kids_sound f v); [exact Hwf|exact Hch|congruence]]
       end.
  - exact IH.
  - eapply Forall_impl; [|exact IH]. cbn. tauto.
  - exact IH.
  - exact IH.
Qed.

(* the tree Load(rec) specifies for the root denotes the loaded value *)
Theorem dom_of_sound rec v : wf v = true -> val_of_dom (dom_of rec false v) = Some v /\ dom_ok (dom_of rec false v).
Proof.
  intros Hwf. unfold dom_of.
  set (f := if rec then dom_deep false else DLeaf).
  assert (Hch : forall c, child_of c v -> val_of_dom (f c) = Some c /\ dom_ok (f c)).
  { intros c Hc. subst f. destruct rec; [apply dom_deep_sound; eapply wf_child; eauto|cbn; auto]. }
  destruct (kids_of f v) as [|k0 kr] eqn:Ek; [cbn; split; [reflexivity|exact I]|].
  rewrite <- Ek. apply kids_sound; [exact Hwf|exact Hch|congruence].
Qed.

(* marshal_load at spec level: marshalling the specified tree gives back exactly the bytes *)
Theorem marshal_dom_of rec v : wf v = true -> marshal (tree_of_dom (dom_of rec false v)) = Some (encode v).
Proof.
  intros Hwf. destruct (dom_of_sound rec v Hwf) as [Hv Hok]. apply marshal_dom; assumption.
Qed.

(* ---------------- load: the byte walk builds exactly the specified tree ---------------- *)
(* container headers carry valid type bytes (ReadMapBegin rejects anything else, also for empty maps) *)
Fixpoint hdr_ok (v : tval) : bool :=
  match v with
  | VStruct fs => forallb (fun f => hdr_ok (snd f)) fs
  | VMap kt vt es => valid_type kt && valid_type vt && forallb (fun e => hdr_ok (fst e) && hdr_ok (snd e)) es
  | VSet _ es => forallb hdr_ok es
  | VList _ es => forallb hdr_ok es
  | _ => true
  end.

Lemma hdr_child v c : hdr_ok v = true -> child_of c v -> hdr_ok c = true.
Proof.
  destruct v as [b|z|z|z|z|z|s|fs|kt vt es|et es|et es]; cbn [child_of hdr_ok]; try tauto; intros H Hin.
  - apply in_map_iff in Hin. destruct Hin as [f [<- Hin]]. rewrite forallb_forall in H. apply H. exact Hin.
  - apply andb_true_iff in H. destruct H as [_ H]. apply in_map_iff in Hin. destruct Hin as [e [<- Hin]].
    rewrite forallb_forall in H. specialize (H e Hin). apply andb_true_iff in H. tauto.
  - rewrite forallb_forall in H. apply H. exact Hin.
  - rewrite forallb_forall in H. apply H. exact Hin.
Qed.

Lemma firstn_app_exact {A} (a r : list A) : firstn (length (a ++ r) - length r) (a ++ r) = a.
Proof.
  rewrite app_length. replace (length a + length r - length r)%nat with (length a) by lia.
  rewrite firstn_app, Nat.sub_diag, firstn_all. cbn. apply app_nil_r.
Qed.

Lemma leaf_of_encode v : leaf_of (type_of v) (encode v) = tree_of_dom (DLeaf v).
Proof. destruct v; reflexivity. Qed.

Lemma hdr_of_encode v : hdr_et (type_of v) (encode v) = et_of v /\ hdr_kt (type_of v) (encode v) = kt_of v.
Proof. destruct v; split; reflexivity. Qed.

Lemma load_child_eq d rec ns t bs : load_child d rec ns t bs =
  if rec && is_container t then
    match d with
    | O => None
    | S d' =>
      if ns then
        match scan (load_child d' rec ns) t bs with
        | Some (et, kt, cs, rest) => Some (T t et kt [] cs, rest)
        | None => None
        end
      else
        match skip_go t bs with
        | None => None
        | Some rest0 =>
          let raw := firstn (length bs - length rest0) bs in
          match scan (load_child d' rec ns) t bs with
          | Some (et, kt, cs, rest) => Some (T t (hdr_et t raw) (hdr_kt t raw) raw cs, rest)
          | None => None
          end
        end
    end
  else
    match skip_go t bs with
    | None => None
    | Some rest => Some (leaf_of t (firstn (length bs - length rest) bs), rest)
    end.
Proof. destruct d; reflexivity. Qed.

Definition tkids (f : tval -> dom) (v : tval) : list (pkey * tree) :=
  map (fun kd => (fst kd, tree_of_dom (snd kd))) (kids_of f v).

Lemma map_index_keys {A B} (g : A -> B) (l : list A) : forall i,
  map (fun kd => (fst kd, g (snd kd))) (index_keys i l) = index_keys i (map g l).
Proof. induction l as [|x l IH]; intros i; cbn; [reflexivity|]. rewrite IH. reflexivity. Qed.

Section ScanLemmas.
  Variable child : Z -> list Z -> option (tree * list Z).
  Variable f : tval -> dom.
  Definition child_ok (x : tval) : Prop := forall r, child (type_of x) (encode x ++ r) = Some (tree_of_dom (f x), r).

  Lemma scan_fields_encode fs : forall fuel r,
    Forall (fun x => in_sb 16 (fst x) = true /\ type_of (snd x) <> 0 /\ child_ok (snd x)) fs ->
    (length fs < fuel)%nat ->
    scan_fields child fuel (flat_map (fun x => type_of (snd x) :: enc_int 2 (fst x) ++ encode (snd x)) fs ++ 0 :: r) =
    Some (map (fun x => (KField (fid (fst x)), tree_of_dom (f (snd x)))) fs, r).
  Proof.
    induction fs as [|[id x] fs IH]; intros fuel r HF Hfuel; destruct fuel as [|fuel]; try (cbn in Hfuel; lia).
    - reflexivity.
    - inversion HF as [|? ? [Hid [Ht Hx]] HF']; subst. cbn [fst snd] in *.
      cbn [flat_map scan_fields map]. cbn [app fst snd].
      destruct (Z.eqb_spec (type_of x) 0); [contradiction|].
      rewrite <- !app_assoc. rewrite take_enc_int.
      rewrite Hx. rewrite IH; [|exact HF'|cbn in Hfuel; lia].
      rewrite dec_int_enc_int; [reflexivity|lia|]. apply in_sb_true in Hid. exact Hid.
  Qed.

  Lemma scan_elems_encode et es : forall i r,
    Forall (fun e => type_of e = et /\ child_ok e) es ->
    scan_elems child (length es) i et (flat_map encode es ++ r) = Some (index_keys i (map (fun e => tree_of_dom (f e)) es), r).
  Proof.
    induction es as [|e es IH]; intros i r HF; [reflexivity|].
    inversion HF as [|? ? [Ht He] HF']; subst. cbn [length scan_elems flat_map map index_keys].
    rewrite <- app_assoc. rewrite He. rewrite IH by exact HF'. reflexivity.
  Qed.

  Lemma scan_pairs_encode kt vt es : forall r,
    Forall (fun e => (forall r', read_key kt (encode (fst e) ++ r') = Some (key_of_val (fst e), r')) /\
                     type_of (snd e) = vt /\ child_ok (snd e)) es ->
    scan_pairs child (length es) kt vt (flat_map (fun e => encode (fst e) ++ encode (snd e)) es ++ r) =
    Some (map (fun e => (key_of_val (fst e), tree_of_dom (f (snd e)))) es, r).
  Proof.
    induction es as [|[k x] es IH]; intros r HF; [reflexivity|].
    inversion HF as [|? ? [Hk [Hv Dv]] HF']; subst. cbn [fst snd] in *. cbn [length scan_pairs flat_map map fst snd].
    rewrite <- !app_assoc. rewrite Hk, Dv. rewrite IH by exact HF'. reflexivity.
  Qed.
End ScanLemmas.

Lemma read_key_encode k r : wf k = true -> (depth k <= max_skip_depth)%nat ->
  read_key (type_of k) (encode k ++ r) = Some (key_of_val k, r).
Proof.
  intros Hwf Hd. unfold read_key. pose proof (skip_encode k Hwf max_skip_depth r Hd) as Hs.
  destruct k as [b|z|z|z|z|z|s|fs|kt vt es|et es|et es]; cbn [type_of key_of_val] in *;
  try (match goal with |- context [skip_go ?t _] =>
         change (t =? T_STRING) with false; change (is_int_type t) with false; cbn iota;
         unfold skip_go; rewrite Hs; rewrite firstn_app_exact; reflexivity end).
  - change (T_BYTE =? T_STRING) with false. change (is_int_type T_BYTE) with true. cbn iota.
    pose proof (dec_scalar_encode (VByte z) r Hwf eq_refl) as Hds. cbn [type_of] in Hds. rewrite Hds. reflexivity.
  - change (T_I16 =? T_STRING) with false. change (is_int_type T_I16) with true. cbn iota.
    pose proof (dec_scalar_encode (VI16 z) r Hwf eq_refl) as Hds. cbn [type_of] in Hds. rewrite Hds. reflexivity.
  - change (T_I32 =? T_STRING) with false. change (is_int_type T_I32) with true. cbn iota.
    pose proof (dec_scalar_encode (VI32 z) r Hwf eq_refl) as Hds. cbn [type_of] in Hds. rewrite Hds. reflexivity.
  - change (T_I64 =? T_STRING) with false. change (is_int_type T_I64) with true. cbn iota.
    pose proof (dec_scalar_encode (VI64 z) r Hwf eq_refl) as Hds. cbn [type_of] in Hds. rewrite Hds. reflexivity.
  - change (T_STRING =? T_STRING) with true. cbn iota.
    pose proof (dec_scalar_encode (VString s) r Hwf eq_refl) as Hds. cbn [type_of] in Hds. rewrite Hds. reflexivity.
Qed.

(* scanChildren over the encoding of a container *)
Lemma scan_encode child f v rest : wf v = true -> hdr_ok v = true -> is_container (type_of v) = true ->
  (forall c, child_of c v -> child_ok child f c) ->
  (match v with VMap _ _ es => Forall (fun e => (depth (fst e) <= max_skip_depth)%nat) es | _ => True end) ->
  scan child (type_of v) (encode v ++ rest) = Some (et_of v, kt_of v, tkids f v, rest).
Proof.
  intros Hwf Hh Hc Hch Hkd. unfold scan, tkids.
  destruct v as [b|z|z|z|z|z|s|fs|kt vt es|et es|et es]; try discriminate Hc; cbn [type_of kids_of et_of kt_of encode].
  - (* struct *)
    change (T_STRUCT =? T_STRUCT) with true. cbn iota. rewrite <- app_assoc. cbn [app].
    cbn [wf] in Hwf. rewrite forallb_forall in Hwf.
    rewrite (scan_fields_encode child f).
    + rewrite map_map. reflexivity.
    + rewrite Forall_forall. intros x Hin. specialize (Hwf x Hin). apply andb_true_iff in Hwf. destruct Hwf as [Hid Hw].
      split; [exact Hid|]. split; [apply valid_type_nonzero, type_of_valid|]. apply Hch. cbn. apply in_map. exact Hin.
    + rewrite app_length. cbn [length].
      pose proof (flat_map_length_ge (fun x : Z * tval => type_of (snd x) :: enc_int 2 (fst x) ++ encode (snd x)) fs
        ltac:(intros; cbn [length]; lia)). lia.
  - (* map *)
    change (T_MAP =? T_STRUCT) with false. change ((T_MAP =? T_LIST) || (T_MAP =? T_SET)) with false.
    change (T_MAP =? T_MAP) with true. cbn iota. cbn [app].
    cbn [hdr_ok] in Hh. apply andb_true_iff in Hh. destruct Hh as [Hv _]. rewrite Hv.
    rewrite <- app_assoc.
    cbn [wf] in Hwf. repeat (apply andb_true_iff in Hwf; destruct Hwf as [Hwf ?]).
    match goal with H : (zlen es <? 2 ^ 31) = true |- _ => apply Z.ltb_lt in H end.
    rewrite dec_count_ok; [|assumption|].
    2:{ rewrite app_length.
        pose proof (flat_map_length_ge (fun e : tval * tval => encode (fst e) ++ encode (snd e)) es
          ltac:(intros a; cbv beta; rewrite app_length; pose proof (encode_nonempty (fst a)); lia)). lia. }
    match goal with H : forallb _ es = true |- _ => rewrite forallb_forall in H; rename H into Hall end.
    rewrite (scan_pairs_encode child f).
    + rewrite map_map. reflexivity.
    + rewrite Forall_forall in *. intros e Hin. specialize (Hall e Hin). specialize (Hkd e Hin).
      repeat (apply andb_true_iff in Hall; destruct Hall as [Hall ?]).
      apply Z.eqb_eq in Hall. match goal with H : (type_of (snd e) =? vt) = true |- _ => apply Z.eqb_eq in H end.
      split; [|split; [assumption|apply Hch; cbn; apply in_map; exact Hin]].
      intros r'. subst kt. apply read_key_encode; assumption.
  - (* set *)
    change (T_SET =? T_STRUCT) with false. change ((T_SET =? T_LIST) || (T_SET =? T_SET)) with true. cbn iota. cbn [app].
    rewrite <- app_assoc.
    cbn [wf] in Hwf. repeat (apply andb_true_iff in Hwf; destruct Hwf as [Hwf ?]).
    match goal with H : (zlen es <? 2 ^ 31) = true |- _ => apply Z.ltb_lt in H end.
    rewrite dec_count_ok; [|assumption|].
    2:{ rewrite app_length. pose proof (flat_map_length_ge encode es encode_nonempty). lia. }
    match goal with H : forallb _ es = true |- _ => rewrite forallb_forall in H; rename H into Hall end.
    rewrite (scan_elems_encode child f).
    + rewrite map_index_keys. rewrite map_map. reflexivity.
    + rewrite Forall_forall. intros e Hin. specialize (Hall e Hin). apply andb_true_iff in Hall. destruct Hall as [Ht _].
      apply Z.eqb_eq in Ht. split; [exact Ht|]. apply Hch. exact Hin.
  - (* list *)
    change (T_LIST =? T_STRUCT) with false. change ((T_LIST =? T_LIST) || (T_LIST =? T_SET)) with true. cbn iota. cbn [app].
    rewrite <- app_assoc.
    cbn [wf] in Hwf. repeat (apply andb_true_iff in Hwf; destruct Hwf as [Hwf ?]).
    match goal with H : (zlen es <? 2 ^ 31) = true |- _ => apply Z.ltb_lt in H end.
    rewrite dec_count_ok; [|assumption|].
    2:{ rewrite app_length. pose proof (flat_map_length_ge encode es encode_nonempty). lia. }
    match goal with H : forallb _ es = true |- _ => rewrite forallb_forall in H; rename H into Hall end.
    rewrite (scan_elems_encode child f).
    + rewrite map_index_keys. rewrite map_map. reflexivity.
    + rewrite Forall_forall. intros e Hin. specialize (Hall e Hin). apply andb_true_iff in Hall. destruct Hall as [Ht _].
      apply Z.eqb_eq in Ht. split; [exact Ht|]. apply Hch. exact Hin.
Qed.

(* depth of children and map keys *)
Lemma depth_child v c : child_of c v -> (S (depth c) <= depth v)%nat.
Proof.
  destruct v as [b|z|z|z|z|z|s|fs|kt vt es|et es|et es]; cbn [child_of depth]; try tauto; intros Hin.
  - apply in_map_iff in Hin. destruct Hin as [x [<- Hin]].
    pose proof (fold_max_le (fun f : Z * tval => depth (snd f)) fs _ (le_n _)) as H. rewrite Forall_forall in H. specialize (H x Hin). cbv beta in H. lia.
  - apply in_map_iff in Hin. destruct Hin as [x [<- Hin]].
    pose proof (fold_max_le (fun e : tval * tval => Nat.max (depth (fst e)) (depth (snd e))) es _ (le_n _)) as H.
    rewrite Forall_forall in H. specialize (H x Hin). cbv beta in H. lia.
  - pose proof (fold_max_le depth es _ (le_n _)) as H. rewrite Forall_forall in H. specialize (H c Hin). lia.
  - pose proof (fold_max_le depth es _ (le_n _)) as H. rewrite Forall_forall in H. specialize (H c Hin). lia.
Qed.

Lemma depth_keys kt vt es n : (depth (VMap kt vt es) <= n)%nat -> Forall (fun e : tval * tval => (depth (fst e) <= n)%nat) es.
Proof.
  cbn [depth]. intros H. rewrite Forall_forall. intros e Hin.
  pose proof (fold_max_le (fun e : tval * tval => Nat.max (depth (fst e)) (depth (snd e))) es _ (le_n _)) as H'.
  rewrite Forall_forall in H'. specialize (H' e Hin). cbv beta in H'. lia.
Qed.

Lemma tree_of_deep ns v : tree_of_dom (dom_deep ns v) =
  if is_container (type_of v) then
    T (type_of v) (et_of v) (kt_of v)
      (match tkids (dom_deep ns) v with [] => if ns then [] else encode v | _ => if ns then [] else encode v end)
      (tkids (dom_deep ns) v)
  else tree_of_dom (DLeaf v).
Proof.
  rewrite dom_deep_eq. unfold tkids. destruct (is_container (type_of v)); [|reflexivity].
  destruct (kids_of (dom_deep ns) v) as [|k0 kr]; [destruct ns; reflexivity|]. cbn [tree_of_dom]. reflexivity.
Qed.

Theorem load_child_refines : forall v, wf v = true -> hdr_ok v = true ->
  forall rec ns d rest, (depth v <= d)%nat -> (depth v <= max_skip_depth)%nat ->
  load_child d rec ns (type_of v) (encode v ++ rest) = Some (tree_of_dom (if rec then dom_deep ns v else DLeaf v), rest).
Proof.
  intros v. pattern v. apply tval_ind'; clear v.
  (* scalars *)
  1-7: (intros x Hwf Hh rec ns d rest Hd Hm; rewrite load_child_eq; cbn [type_of];
        change (is_container _) with false; rewrite andb_false_r; cbn iota;
        match goal with |- context [skip_go (?t) (encode ?v ++ _)] =>
          change t with (type_of v); unfold skip_go; rewrite (skip_encode v Hwf max_skip_depth rest Hm) end;
        rewrite firstn_app_exact; rewrite leaf_of_encode; destruct rec; reflexivity).
  (* containers *)
  all: intros.
  all: match goal with
       | Hwf : wf ?v = true |- load_child ?d ?rec ?ns _ _ = _ =>
         rename Hwf into Hw;
         match goal with Hh : hdr_ok v = true, Hd : (depth v <= d)%nat, Hm : (depth v <= max_skip_depth)%nat |- _ =>
           rewrite load_child_eq; change (is_container (type_of v)) with true; rewrite andb_true_r;
           destruct rec;
           [ destruct d as [|d']; [cbn [depth] in Hd; lia|];
             assert (Hch : forall c, child_of c v -> child_ok (load_child d' true ns) (dom_deep ns) c);
             [ intros c Hc r; pose proof (depth_child _ _ Hc) as Hdc;
               generalize (wf_child _ _ Hw Hc) (hdr_child _ _ Hh Hc); revert r
             | assert (Hkd : match v with VMap _ _ es => Forall (fun e : tval * tval => (depth (fst e) <= max_skip_depth)%nat) es | _ => True end);
               [ try exact I; eapply depth_keys; exact Hm
               | pose proof (scan_encode (load_child d' true ns) (dom_deep ns) v rest Hw Hh eq_refl Hch Hkd) as Hs;
                 rewrite tree_of_deep; change (is_container (type_of v)) with true; cbn iota;
                 destruct ns;
                 [ rewrite Hs; destruct (tkids (dom_deep true) v); reflexivity
                 | unfold skip_go; rewrite (skip_encode v Hw max_skip_depth rest Hm); cbv zeta; rewrite firstn_app_exact;
                   rewrite Hs; destruct (hdr_of_encode v) as [-> ->]; destruct (tkids (dom_deep false) v); reflexivity ] ] ]
           | unfold skip_go; rewrite (skip_encode v Hw max_skip_depth rest Hm); rewrite firstn_app_exact;
             rewrite leaf_of_encode; reflexivity ]
         end
       end.
  (* the children, from the induction hypotheses *)
  - intros r Hwc Hhc. apply (child_of_ind_hyp (fun c => wf c = true -> hdr_ok c = true -> forall rec ns d rest,
        (depth c <= d)%nat -> (depth c <= max_skip_depth)%nat ->
        load_child d rec ns (type_of c) (encode c ++ rest) = Some (tree_of_dom (if rec then dom_deep ns c else DLeaf c), rest)) (VStruct fs) H c Hc Hwc Hhc true ns d' r); lia.
  - intros r Hwc Hhc.
    assert (H' : Forall (fun e : tval * tval => (fun c => wf c = true -> hdr_ok c = true -> forall rec ns d rest,
        (depth c <= d)%nat -> (depth c <= max_skip_depth)%nat ->
        load_child d rec ns (type_of c) (encode c ++ rest) = Some (tree_of_dom (if rec then dom_deep ns c else DLeaf c), rest)) (fst e) /\
        (fun c => wf c = true -> hdr_ok c = true -> forall rec ns d rest,
        (depth c <= d)%nat -> (depth c <= max_skip_depth)%nat ->
        load_child d rec ns (type_of c) (encode c ++ rest) = Some (tree_of_dom (if rec then dom_deep ns c else DLeaf c), rest)) (snd e)) es) by exact H.
    apply (child_of_ind_hyp _ (VMap kt vt es) H' c Hc Hwc Hhc true ns d' r); lia.
  - intros r Hwc Hhc. apply (child_of_ind_hyp (fun c => wf c = true -> hdr_ok c = true -> forall rec ns d rest,
        (depth c <= d)%nat -> (depth c <= max_skip_depth)%nat ->
        load_child d rec ns (type_of c) (encode c ++ rest) = Some (tree_of_dom (if rec then dom_deep ns c else DLeaf c), rest)) (VSet et es) H c Hc Hwc Hhc true ns d' r); lia.
  - intros r Hwc Hhc. apply (child_of_ind_hyp (fun c => wf c = true -> hdr_ok c = true -> forall rec ns d rest,
        (depth c <= d)%nat -> (depth c <= max_skip_depth)%nat ->
        load_child d rec ns (type_of c) (encode c ++ rest) = Some (tree_of_dom (if rec then dom_deep ns c else DLeaf c), rest)) (VList et es) H c Hc Hwc Hhc true ns d' r); lia.
Qed.

(* PathNode{Node: NewNode(t, encode v)}.Load(rec, opts): the algorithm-level tree IS the specified tree *)
Theorem load_refines rec ns v : wf v = true -> hdr_ok v = true -> is_container (type_of v) = true ->
  (depth v <= max_skip_depth)%nat ->
  load rec ns (type_of v) (encode v) = Some (tree_of_dom (dom_of rec ns v)).
Proof.
  intros Hwf Hh Hc Hm. unfold load.
  set (f := if rec then dom_deep ns else DLeaf).
  assert (Hch : forall c, child_of c v -> child_ok (load_child (length (encode v)) rec ns) f c).
  { intros c Hcv r. pose proof (depth_child _ _ Hcv) as Hd. pose proof (depth_le_length v) as Hl.
    pose proof (load_child_refines c (wf_child _ _ Hwf Hcv) (hdr_child _ _ Hh Hcv) rec ns (length (encode v)) r
                  ltac:(lia) ltac:(lia)) as H.
    rewrite H. subst f. destruct rec; reflexivity. }
  assert (Hkd : match v with VMap _ _ es => Forall (fun e : tval * tval => (depth (fst e) <= max_skip_depth)%nat) es | _ => True end).
  { destruct v; try exact I. eapply depth_keys; exact Hm. }
  pose proof (scan_encode _ f v [] Hwf Hh Hc Hch Hkd) as Hs. rewrite app_nil_r in Hs. rewrite Hs.
  destruct (hdr_of_encode v) as [-> ->]. unfold dom_of. fold f. unfold tkids.
  destruct (kids_of f v) as [|k0 kr]; reflexivity.
Qed.

(* marshal (load r (encode v)) = encode v, recursive and lazy *)
Theorem marshal_load rec v : wf v = true -> hdr_ok v = true -> is_container (type_of v) = true ->
  (depth v <= max_skip_depth)%nat ->
  exists tr, load rec false (type_of v) (encode v) = Some tr /\ marshal tr = Some (encode v).
Proof.
  intros Hwf Hh Hc Hm. exists (tree_of_dom (dom_of rec false v)). split.
  - apply load_refines; assumption.
  - apply marshal_dom_of. exact Hwf.
Qed.

(* ---------------- tree edits ---------------- *)
Lemma bytes_eqb_eq a b : bytes_eqb a b = true <-> a = b.
Proof.
  unfold bytes_eqb. revert b. induction a as [|x a IH]; destruct b as [|y b]; cbn; try (split; congruence).
  rewrite andb_true_iff, Z.eqb_eq, IH. split; [intros [-> ->]; reflexivity|intros H; inversion H; auto].
Qed.

Lemma key_eqb_eq a b : key_eqb a b = true <-> a = b.
Proof.
  destruct a, b; cbn; try (split; congruence); rewrite ?Z.eqb_eq, ?bytes_eqb_eq; split; congruence.
Qed.

Lemma key_eqb_refl a : key_eqb a a = true.
Proof. apply key_eqb_eq. reflexivity. Qed.

(* what a step needs to keep the tree marshallable: a map child is stored under a key of the map's key type *)
Definition step_ok (d : dom) (o : top) : Prop :=
  match o with
  | OSet k x => match open_node d with
                | Some (t, _, kt, _, _) => t = T_MAP -> key_fits kt k
                | None => True
                end
  | _ => True
  end.

Lemma find_kid_upd {A} k (g : A -> A) (l : list (pkey * A)) k' :
  find_kid k' (upd_kid k g l) = if key_eqb k k' then option_map g (find_kid k' l) else find_kid k' l.
Proof.
  induction l as [|[k0 c] l IH]; cbn [upd_kid find_kid fst snd]; [destruct (key_eqb k k'); reflexivity|].
  destruct (key_eqb k0 k) eqn:E0.
  - apply key_eqb_eq in E0. subst k0. cbn [find_kid fst snd]. destruct (key_eqb k k') eqn:E; reflexivity.
  - cbn [find_kid fst snd]. destruct (key_eqb k0 k') eqn:E1.
    + destruct (key_eqb k k') eqn:E; [|reflexivity]. apply key_eqb_eq in E, E1. subst. rewrite key_eqb_refl in E0. discriminate.
    + exact IH.
Qed.

Lemma find_kid_app {A} k (l1 l2 : list (pkey * A)) :
  find_kid k (l1 ++ l2) = match find_kid k l1 with Some c => Some c | None => find_kid k l2 end.
Proof. induction l1 as [|[k0 c] l1 IH]; cbn; [reflexivity|]. destruct (key_eqb k0 k); [reflexivity|exact IH]. Qed.

(* lookups return the child last stored under the key *)
Definition step_get (cur : option dom) (o : top) (k : pkey) : option dom :=
  match o with
  | OSet k' x => if key_eqb k' k then (match cur with None => if is_index_key k then None else Some (DLeaf x) | Some _ => Some (DLeaf x) end) else cur
  | OClear k' => if key_eqb k' k then (match cur with Some _ => Some DEmpty | None => None end) else cur
  | OGet _ => cur
  end.

Definition kids_view (d : dom) : list (pkey * dom) :=
  match open_node d with Some (_, _, _, _, kids) => kids | None => [] end.

Lemma set_kids_get k x kids k' :
  find_kid k' (set_kids k x kids) = step_get (find_kid k' kids) (OSet k x) k'.
Proof.
  unfold set_kids, has_kid, step_get.
  destruct (find_kid k kids) as [c|] eqn:Ek.
  - rewrite find_kid_upd. destruct (key_eqb k k') eqn:E; [|reflexivity].
    apply key_eqb_eq in E. subst k'. rewrite Ek. reflexivity.
  - destruct (is_index_key k) eqn:Ei.
    + destruct (key_eqb k k') eqn:E; [|reflexivity]. apply key_eqb_eq in E. subst k'. rewrite Ek, Ei. reflexivity.
    + rewrite find_kid_app. cbn [find_kid fst snd]. destruct (key_eqb k k') eqn:E.
      * apply key_eqb_eq in E. subst k'. rewrite Ek, Ei. reflexivity.
      * destruct (find_kid k' kids); reflexivity.
Qed.

Theorem dom_get_step t et kt raw kids o k :
  dom_get (dom_step (DNode t et kt raw kids) o) k = step_get (dom_get (DNode t et kt raw kids) k) o k.
Proof.
  destruct o as [k0 x|k0|k0]; cbn [dom_step open_node dom_get].
  - pose proof (set_kids_get k0 x kids k) as H.
    destruct (set_kids k0 x kids) as [|s0 sr] eqn:Es; [|cbn [dom_get]; exact H].
    cbn [dom_get]. cbn [find_kid] in H. rewrite <- H.
    (* set_kids returned no slot at all: kids was empty (and the key an index) *)
    assert (kids = []) as ->; [|reflexivity].
    unfold set_kids in Es. destruct (has_kid k0 kids).
    + destruct kids as [|[k1 c1] kids]; [reflexivity|]. cbn [upd_kid fst snd] in Es. destruct (key_eqb k1 k0); discriminate.
    + destruct (is_index_key k0); [exact Es|]. destruct kids; discriminate.
  - unfold step_get. rewrite find_kid_upd. destruct (key_eqb k0 k); [|reflexivity]. destruct (find_kid k kids); reflexivity.
  - reflexivity.
Qed.

Lemma dom_step_node t et kt raw kids o : exists kids', dom_step (DNode t et kt raw kids) o = DNode t et kt raw kids'.
Proof.
  destruct o as [k x|k|k]; cbn [dom_step open_node]; eauto. destruct (set_kids k x kids); eauto.
Qed.

(* tree history, lookups: after any sequence of edits a lookup returns what was last stored under the key *)
Theorem dom_get_history : forall ops t et kt raw kids k,
  dom_get (fold_left dom_step ops (DNode t et kt raw kids)) k =
  fold_left (fun cur o => step_get cur o k) ops (dom_get (DNode t et kt raw kids) k).
Proof.
  induction ops as [|o ops IH]; intros; [reflexivity|]. cbn [fold_left].
  destruct (dom_step_node t et kt raw kids o) as [kids' E]. rewrite E. rewrite IH. rewrite <- E. rewrite dom_get_step. reflexivity.
Qed.

(* edits keep the tree marshallable *)
Lemma upd_kid_all (P : dom -> Prop) k g (kids : list (pkey * dom)) :
  (forall c, P c -> P (g c)) -> Forall (fun kd => P (snd kd)) kids -> Forall (fun kd => P (snd kd)) (upd_kid k g kids).
Proof.
  intros Hg H. induction H as [|[k0 c] l Hc Hl IH]; cbn [upd_kid fst snd]; [constructor|].
  destruct (key_eqb k0 k); constructor; cbn [snd] in *; auto.
Qed.

Lemma upd_kid_keys (P : pkey -> Prop) k (g : dom -> dom) (kids : list (pkey * dom)) :
  Forall (fun kd => P (fst kd)) kids -> Forall (fun kd => P (fst kd)) (upd_kid k g kids).
Proof.
  intros H. induction H as [|[k0 c] l Hc Hl IH]; cbn [upd_kid fst snd]; [constructor|].
  destruct (key_eqb k0 k); constructor; cbn [fst] in *; auto.
Qed.

Lemma upd_kid_nonempty {A} k (g : A -> A) (kids : list (pkey * A)) : kids <> [] -> upd_kid k g kids <> [].
Proof. destruct kids as [|[k0 c] l]; cbn; [congruence|]. destruct (key_eqb k0 k); discriminate. Qed.

Lemma dom_ok_intro t et kt raw kids : kids <> [] -> is_container t = true ->
  (t = T_MAP -> Forall (fun kd => key_fits kt (fst kd)) kids) -> Forall (fun kd => dom_ok (snd kd)) kids ->
  dom_ok (DNode t et kt raw kids).
Proof. intros. cbn [dom_ok]. repeat split; auto. apply Forall_dom_ok_all. assumption. Qed.

Theorem dom_step_ok d o : dom_ok d -> step_ok d o -> dom_ok (dom_step d o).
Proof.
  intros Hok Hs. destruct o as [k x|k|k]; cbn [dom_step]; [| |exact Hok].
  - destruct (open_node d) as [[[[[t et] kt] raw] kids]|] eqn:Eo; [|exact Hok].
    destruct (set_kids k x kids) as [|s0 sr] eqn:Es; [exact Hok|]. rewrite <- Es.
    cbn [step_ok] in Hs. rewrite Eo in Hs.
    assert (Hparts : is_container t = true /\ (t = T_MAP -> Forall (fun kd => key_fits kt (fst kd)) kids) /\
                     Forall (fun kd => dom_ok (snd kd)) kids).
    { destruct d as [v| |t' et' kt' raw' kids']; cbn [open_node] in Eo.
      - destruct (is_container (type_of v)) eqn:Ec; inversion Eo; subst. auto.
      - discriminate.
      - inversion Eo; subst. pose proof (dom_ok_kids _ _ _ _ _ Hok). destruct Hok as [_ [Hc [Hk _]]]. auto. }
    destruct Hparts as [Hc [Hk Hkids]].
    apply dom_ok_intro; [rewrite Es; discriminate|exact Hc| |].
    + intros Ht. specialize (Hk Ht). specialize (Hs Ht). unfold set_kids.
      destruct (has_kid k kids); [apply upd_kid_keys; exact Hk|]. destruct (is_index_key k); [exact Hk|].
      apply Forall_app. split; [exact Hk|]. constructor; [exact Hs|constructor].
    + unfold set_kids. destruct (has_kid k kids); [apply (upd_kid_all dom_ok); [intros; exact I|exact Hkids]|].
      destruct (is_index_key k); [exact Hkids|]. apply Forall_app. split; [exact Hkids|]. constructor; [exact I|constructor].
  - destruct d as [v| |t et kt raw kids]; try exact Hok.
    pose proof (dom_ok_kids _ _ _ _ _ Hok) as Hkids. destruct Hok as [Hne [Hc [Hk _]]].
    apply dom_ok_intro; [apply upd_kid_nonempty; exact Hne|exact Hc| |].
    + intros Ht. apply upd_kid_keys. apply Hk. exact Ht.
    + apply (upd_kid_all dom_ok); [intros; exact I|exact Hkids].
Qed.

Fixpoint hist_ok (d : dom) (ops : list top) : Prop :=
  match ops with [] => True | o :: r => step_ok d o /\ hist_ok (dom_step d o) r end.

Lemma dom_history_ok : forall ops d, dom_ok d -> hist_ok d ops -> dom_ok (fold_left dom_step ops d).
Proof.
  induction ops as [|o ops IH]; intros d Hok Hh; [exact Hok|]. cbn [fold_left]. destruct Hh as [Hs Hr].
  apply IH; [apply dom_step_ok; assumption|exact Hr].
Qed.

Lemma val_of_dom_total d : dom_ok d -> d <> DEmpty -> exists v, val_of_dom d = Some v.
Proof.
  destruct d as [v| |t et kt raw kids]; intros Hok Hne; [exists v; reflexivity|congruence|].
  destruct Hok as [_ [Hc _]]. apply container_cases in Hc. cbn [val_of_dom].
  destruct Hc as [-> | [-> | [-> | ->]]]; cbn; eauto.
Qed.

Lemma dom_step_nonempty d o : d <> DEmpty -> dom_step d o <> DEmpty.
Proof.
  intros Hne. destruct o as [k x|k|k]; cbn [dom_step]; [| |exact Hne].
  - destruct (open_node d) as [[[[[t et] kt] raw] kids]|]; [|exact Hne]. destruct (set_kids k x kids); [exact Hne|discriminate].
  - destruct d; [discriminate|congruence|discriminate].
Qed.

(* tree history, marshal: after any sequence of edits the tree marshals to the encoding of the value it denotes *)
Theorem dom_history_marshal ops d : dom_ok d -> d <> DEmpty -> hist_ok d ops ->
  exists v', val_of_dom (fold_left dom_step ops d) = Some v' /\
             marshal (tree_of_dom (fold_left dom_step ops d)) = Some (encode v').
Proof.
  intros Hok Hne Hh. pose proof (dom_history_ok ops d Hok Hh) as Hok'.
  assert (Hne' : fold_left dom_step ops d <> DEmpty).
  { clear Hok Hh Hok'. revert d Hne. induction ops as [|o ops IH]; intros d Hne; [exact Hne|]. cbn. apply IH. apply dom_step_nonempty. exact Hne. }
  destruct (val_of_dom_total _ Hok' Hne') as [v' Hv]. exists v'. split; [exact Hv|]. apply marshal_dom; assumption.
Qed.

(* ---------------- edits on values: struct fields (partial: no tombstones) ---------------- *)
Definition fields_of (kids : list (pkey * dom)) : list (Z * tval) :=
  map (fun kv : pkey * tval => (to_s 16 (key_l (fst kv)), snd kv)) (live_pairs kids).

(* every slot is a live field with an id in the FieldID range *)
Definition clean_struct (kids : list (pkey * dom)) : Prop :=
  Forall (fun kd => exists id v, fst kd = KField id /\ 0 <= id < 65536 /\ val_of_dom (snd kd) = Some v) kids.

Lemma fid_to_s id : 0 <= id < 65536 -> fid (to_s 16 id) = id.
Proof. intros H. unfold fid. change 65536 with (2 ^ 16). rewrite to_s_mod by lia. apply Z.mod_small. exact H. Qed.

Lemma fields_of_cons_live id c v kids : val_of_dom c = Some v ->
  fields_of ((KField id, c) :: kids) = (to_s 16 id, v) :: fields_of kids.
Proof. intros H. unfold fields_of, live_pairs. cbn [flat_map fst snd]. rewrite H. reflexivity. Qed.

Lemma fields_of_app kids more : fields_of (kids ++ more) = fields_of kids ++ fields_of more.
Proof. unfold fields_of, live_pairs. rewrite flat_map_app, map_app. reflexivity. Qed.

Lemma struct_upd_field id x kids : clean_struct kids -> 0 <= id < 65536 ->
  ast_upd_field id x (fields_of kids) =
  if has_kid (KField id) kids then Some (fields_of (upd_kid (KField id) (fun _ => DLeaf x) kids)) else None.
Proof.
  intros Hc Hid. unfold has_kid. induction Hc as [|[k c] kids [id' [v [Hk [Hr Hv]]]] _ IH]; [reflexivity|].
  cbn [fst snd] in *. subst k. rewrite (fields_of_cons_live _ _ _ _ Hv).
  cbn [ast_upd_field find_kid upd_kid fst snd key_eqb]. rewrite fid_to_s by exact Hr.
  destruct (Z.eqb_spec id' id) as [->|Hne].
  - rewrite (fields_of_cons_live id (DLeaf x) x kids eq_refl). reflexivity.
  - rewrite IH. destruct (find_kid (KField id) kids); [|reflexivity].
    rewrite (fields_of_cons_live _ _ _ _ Hv). reflexivity.
Qed.

Lemma struct_del_field id kids : clean_struct kids -> 0 <= id < 65536 ->
  ast_del_field id (fields_of kids) = fields_of (upd_kid (KField id) (fun _ => DEmpty) kids).
Proof.
  intros Hc Hid. induction Hc as [|[k c] kids [id' [v [Hk [Hr Hv]]]] _ IH]; [reflexivity|].
  cbn [fst snd] in *. subst k. rewrite (fields_of_cons_live _ _ _ _ Hv).
  cbn [ast_del_field upd_kid fst snd key_eqb]. rewrite fid_to_s by exact Hr.
  destruct (Z.eqb_spec id' id) as [->|Hne].
  - unfold fields_of, live_pairs. cbn [flat_map fst snd val_of_dom app]. reflexivity.
  - rewrite IH. rewrite (fields_of_cons_live _ _ _ _ Hv). reflexivity.
Qed.

Lemma clean_struct_set id x kids : clean_struct kids -> 0 <= id < 65536 -> clean_struct (set_kids (KField id) x kids).
Proof.
  intros Hc Hid. unfold set_kids, clean_struct. destruct (has_kid (KField id) kids).
  - induction Hc as [|[k c] kids Hkd Hl IH]; cbn [upd_kid fst snd]; [constructor|].
    destruct (key_eqb k (KField id)) eqn:E.
    + constructor; [|exact Hl]. apply key_eqb_eq in E. subst k. cbn [fst snd]. exists id, x. auto.
    + constructor; assumption.
  - cbn [is_index_key]. apply Forall_app. split; [exact Hc|]. constructor; [|constructor]. exists id, x. auto.
Qed.

(* one edit of a struct node without tombstones: the tree edit IS the value edit *)
Theorem struct_step_ast et kt raw kids o :
  kids <> [] -> clean_struct kids ->
  (match o with OSet (KField id) _ | OClear (KField id) => 0 <= id < 65536 | OGet _ => True | _ => False end) ->
  val_of_dom (dom_step (DNode T_STRUCT et kt raw kids) o) = Some (ast_step (VStruct (fields_of kids)) o).
Proof.
  intros Hne Hc Ho. destruct o as [k x|k|k]; [| |reflexivity]; destruct k as [|id|i|s|n|b]; try contradiction.
  - cbn [dom_step open_node ast_step].
    pose proof (struct_upd_field id x kids Hc Ho) as Hu. rewrite Hu. unfold set_kids.
    destruct (has_kid (KField id) kids) eqn:Eh.
    + destruct (upd_kid (KField id) (fun _ => DLeaf x) kids) as [|u0 ur] eqn:Eu.
      * exfalso. revert Eu. apply upd_kid_nonempty. exact Hne.
      * rewrite <- Eu. reflexivity.
    + cbn [is_index_key]. destruct (kids ++ [(KField id, DLeaf x)]) as [|u0 ur] eqn:Eu; [destruct kids; discriminate|].
      rewrite <- Eu. cbn [val_of_dom]. change (T_STRUCT =? T_STRUCT) with true. cbn iota.
      change (map _ (flat_map _ (kids ++ [(KField id, DLeaf x)]))) with (fields_of (kids ++ [(KField id, DLeaf x)])).
      rewrite fields_of_app. reflexivity.
  - cbn [dom_step ast_step val_of_dom]. change (T_STRUCT =? T_STRUCT) with true. cbn iota.
    rewrite (struct_del_field id kids Hc Ho). reflexivity.
Qed.

(* histories of struct sets (replace / append by field id), induction over ops:
   val_of_dom (fold tree_step ops d) = fold ast_step ops (val_of_dom d), hence with dom_history_marshal
   marshal (fold tree_step ops d) = encode (fold ast_step ops v) *)
Definition struct_set_op (o : top) : Prop :=
  match o with OSet (KField id) _ => 0 <= id < 65536 | OGet _ => True | _ => False end.

Theorem struct_history_ast : forall ops et kt raw kids,
  kids <> [] -> clean_struct kids -> Forall struct_set_op ops ->
  val_of_dom (fold_left dom_step ops (DNode T_STRUCT et kt raw kids)) = Some (fold_left ast_step ops (VStruct (fields_of kids))).
Proof.
  induction ops as [|o ops IH]; intros et kt raw kids Hne Hc Hops.
  - cbn [fold_left val_of_dom]. reflexivity.
  - inversion Hops as [|? ? Ho Hops']; subst. cbn [fold_left].
    assert (Hstep : val_of_dom (dom_step (DNode T_STRUCT et kt raw kids) o) = Some (ast_step (VStruct (fields_of kids)) o)).
    { apply struct_step_ast; [exact Hne|exact Hc|]. destruct o as [k x|k|k]; try exact I; try contradiction.
      destruct k; try contradiction. exact Ho. }
    destruct o as [k x|k|k]; try contradiction.
    + destruct k as [|id|i|s|n|b]; try contradiction. cbn [struct_set_op] in Ho.
      cbn [dom_step open_node] in *. pose proof (clean_struct_set id x kids Hc Ho) as Hc'.
      destruct (set_kids (KField id) x kids) as [|s0 sr] eqn:Es.
      * exfalso. unfold set_kids in Es. destruct (has_kid (KField id) kids).
        -- revert Es. apply upd_kid_nonempty. exact Hne.
        -- cbn [is_index_key] in Es. destruct kids; discriminate.
      * rewrite <- Es in *. rewrite (IH et kt raw (set_kids (KField id) x kids)); [|rewrite Es; discriminate|exact Hc'|exact Hops'].
        f_equal. f_equal. cbn [val_of_dom] in Hstep. change (T_STRUCT =? T_STRUCT) with true in Hstep. cbn iota in Hstep.
        inversion Hstep as [E]. unfold fields_of, live_pairs. exact E.
    + cbn [dom_step ast_step]. apply IH; assumption.
Qed.

Lemma struct_hist_ok : forall ops et kt raw kids, hist_ok (DNode T_STRUCT et kt raw kids) ops.
Proof.
  induction ops as [|o ops IH]; intros; cbn [hist_ok]; [exact I|]. split.
  - destruct o; cbn [step_ok open_node]; try exact I. discriminate.
  - destruct (dom_step_node T_STRUCT et kt raw kids o) as [kids' E]. rewrite E. apply IH.
Qed.

Lemma clean_struct_of_fields (f : tval -> dom) fs :
  (forall x, In x fs -> exists v, val_of_dom (f (snd x)) = Some v) ->
  clean_struct (map (fun x : Z * tval => (KField (fid (fst x)), f (snd x))) fs).
Proof.
  intros H. unfold clean_struct. rewrite Forall_forall. intros kd Hin. apply in_map_iff in Hin. destruct Hin as [x [<- Hin]].
  destruct (H x Hin) as [v Hv]. exists (fid (fst x)), v. cbn [fst snd]. split; [reflexivity|]. split; [|exact Hv].
  unfold fid. apply Z.mod_pos_bound. lia.
Qed.

(* the target statement for struct histories of sets (replace a field / append a field by id):
   marshal (fold tree_step ops (load (encode v))) = encode (fold ast_step ops v) *)
Theorem struct_history_marshal_ast rec fs ops : wf (VStruct fs) = true -> fs <> [] -> Forall struct_set_op ops ->
  marshal (tree_of_dom (fold_left dom_step ops (dom_of rec false (VStruct fs)))) =
  Some (encode (fold_left ast_step ops (VStruct fs))).
Proof.
  intros Hwf Hne Hops. destruct (dom_of_sound rec (VStruct fs) Hwf) as [Hv Hok].
  unfold dom_of in *. cbn [kids_of type_of et_of kt_of] in *.
  set (f := if rec then dom_deep false else DLeaf) in *.
  set (kids := map (fun x : Z * tval => (KField (fid (fst x)), f (snd x))) fs) in *.
  assert (Hk : kids <> []) by (subst kids; destruct fs; [congruence|discriminate]).
  destruct kids as [|k0 kr] eqn:Ek; [congruence|]. rewrite <- Ek in *. clear Ek k0 kr.
  assert (Hc : clean_struct kids).
  { subst kids. apply clean_struct_of_fields. intros x Hin.
    assert (Hwx : wf (snd x) = true) by (apply (wf_child (VStruct fs)); [exact Hwf|cbn; apply in_map; exact Hin]).
    subst f. destruct rec; [exists (snd x); apply dom_deep_sound; exact Hwx|exists (snd x); reflexivity]. }
  assert (Hf : fields_of kids = fs).
  { cbn [val_of_dom] in Hv. change (T_STRUCT =? T_STRUCT) with true in Hv. cbn iota in Hv. injection Hv as E. unfold fields_of, live_pairs. exact E. }
  pose proof (struct_history_ast ops 0 0 (encode (VStruct fs)) kids Hk Hc Hops) as Hh. rewrite Hf in Hh.
  apply marshal_dom; [|exact Hh]. apply dom_history_ok; [exact Hok|apply struct_hist_ok].
Qed.
