(* (G) thrift/binary.go WriteEmpty (the zero value written for an absent field under WriteDefault / WriteRequire / WriteOptional and by
   the cutting walker), translated from the Go source on every build (gen/Gen_thriftempty.v): its call sequence, read through the lower
   generated levels (gen/Gen_thriftbin.v, gen/Gen_thriftends.v), writes exactly ThriftWire.encode of ThriftCut.zero_of. *)
From Coq Require Import ZArith List Bool Lia.
From DG Require Import GoSem CaseFormat ProtoWireRef ThriftWire Check20g GenThriftbinProofs.
From DG Require Gen_thriftbin Gen_thriftempty Gen_thriftends ThriftCut.
Import ListNotations.
Local Open Scope Z_scope.

Definition key_code (t : ThriftCut.ty) : Z := match t with ThriftCut.TMap k _ => ThriftCut.type_code k | _ => 0 end.
Definition elem_code (t : ThriftCut.ty) : Z :=
  match t with ThriftCut.TList e | ThriftCut.TSet e | ThriftCut.TMap _ e => ThriftCut.type_code e | _ => 0 end.
(* the descriptor atoms WriteEmpty reads, for a type of the cutting model *)
Definition desc_of_ty (t : ThriftCut.ty) := empty_desc (ThriftCut.type_code t) (key_code t) (elem_code t).

Local Opaque enc_int.
(* every absent field the models fill with a zero value: no error, and the bytes are the canonical encoding of that zero value *)
Theorem WriteEmpty_writes_zero t z : ThriftCut.zero_of t = Some z -> 0 <= key_code t < 256 -> 0 <= elem_code t < 256 ->
  fst (Gen_thriftempty.BinaryProtocol_WriteEmpty (desc_of_ty t) 0 0 0 0 0 0 0 0 0 0) = 0 /\
  empty_bytes (snd (Gen_thriftempty.BinaryProtocol_WriteEmpty (desc_of_ty t) 0 0 0 0 0 0 0 0 0 0)) = encode z.
Proof.
  intros H Hk He. destruct t as [c|i|e|e|k e]; cbn [ThriftCut.zero_of] in H.
  - repeat match type of H with context [if ?a =? ?b then _ else _] =>
      destruct (Z.eqb_spec a b) as [->|?]; [injection H as <-; split; reflexivity|] end. discriminate.
  - injection H as <-. split; reflexivity.
  - injection H as <-. cbn [elem_code] in He. unfold desc_of_ty. cbn [ThriftCut.type_code key_code elem_code].
    generalize dependent (ThriftCut.type_code e). intros x Hx. split; [reflexivity|].
    change (snd (Gen_thriftempty.BinaryProtocol_WriteEmpty (empty_desc T_LIST 0 x) 0 0 0 0 0 0 0 0 0 0))
      with [(Gen_thriftempty.Eff_WriteListBegin, [x; 0]); (Gen_thriftempty.Eff_WriteListEnd, [])].
    cbn. rewrite enc_int1_byte by exact Hx. rewrite ?app_nil_r. reflexivity.
  - injection H as <-. cbn [elem_code] in He. unfold desc_of_ty. cbn [ThriftCut.type_code key_code elem_code].
    generalize dependent (ThriftCut.type_code e). intros x Hx. split; [reflexivity|].
    change (snd (Gen_thriftempty.BinaryProtocol_WriteEmpty (empty_desc T_SET 0 x) 0 0 0 0 0 0 0 0 0 0))
      with [(Gen_thriftempty.Eff_WriteListBegin, [x; 0]); (Gen_thriftempty.Eff_WriteListEnd, [])].
    cbn. rewrite enc_int1_byte by exact Hx. rewrite ?app_nil_r. reflexivity.
  - injection H as <-. cbn [elem_code] in He. cbn [key_code] in Hk. unfold desc_of_ty. cbn [ThriftCut.type_code key_code elem_code].
    generalize dependent (ThriftCut.type_code e). intros x Hx. generalize dependent (ThriftCut.type_code k). intros y Hy. split; [reflexivity|].
    change (snd (Gen_thriftempty.BinaryProtocol_WriteEmpty (empty_desc T_MAP y x) 0 0 0 0 0 0 0 0 0 0))
      with [(Gen_thriftempty.Eff_WriteMapBegin, [y; x; 0]); (Gen_thriftempty.Eff_WriteMapEnd, [])].
    cbn. rewrite !enc_int1_byte by assumption. rewrite ?app_nil_r. reflexivity.
Qed.

(* any other type byte: an error, nothing is written *)
Theorem WriteEmpty_invalid typ key elem : ~ In typ [2; 3; 6; 8; 10; 4; 11; 15; 14; 13; 12] ->
  gen_write_empty typ key elem = (Err_NewError, []).
Proof.
  intros H. unfold gen_write_empty, Gen_thriftempty.BinaryProtocol_WriteEmpty, empty_desc.
  cbn [Gen_thriftempty.BinaryProtocol_WriteEmpty_desc_Type].
  repeat match goal with |- context [typ =? ?b] => destruct (Z.eqb_spec typ b) as [->|?]; [exfalso; apply H; cbn; tauto|] end.
  reflexivity.
Qed.

(* the composite calls of WriteEmpty are the call sequences of the lower generated levels *)
Theorem WriteEmpty_calls_layered :
  (forall t n, 0 <= t < 256 ->
     empty_eff_bytes (Gen_thriftempty.Eff_WriteListBegin, [t; n]) = writes_bytes [] (snd (Gen_thriftbin.BinaryProtocol_WriteListBegin t n 0 0))) /\
  (forall k v n, 0 <= k < 256 -> 0 <= v < 256 ->
     empty_eff_bytes (Gen_thriftempty.Eff_WriteMapBegin, [k; v; n]) = writes_bytes [] (snd (Gen_thriftbin.BinaryProtocol_WriteMapBegin k v n 0 0 0))) /\
  (Gen_thriftends.BinaryProtocol_WriteStructEnd 0 = (0, [(Gen_thriftends.Eff_WriteFieldStop, [])]) /\
   empty_eff_bytes (Gen_thriftempty.Eff_WriteStructEnd, []) = writes_bytes [] (snd (Gen_thriftbin.BinaryProtocol_WriteFieldStop 0))) /\
  (forall b, Gen_thriftends.BinaryProtocol_WriteBool b 0 0 = (0, [(Gen_thriftends.Eff_WriteByte, [Z.b2z b])])) /\
  Gen_thriftends.BinaryProtocol_WriteListEnd = 0 /\ Gen_thriftends.BinaryProtocol_WriteMapEnd = 0.
Proof.
  destruct WriteBegin_bytes as [_ [Hs [Hm [Hl _]]]].
  split; [intros t n Ht; rewrite Hl by exact Ht; cbn; rewrite enc_int1_byte by exact Ht; reflexivity|].
  split; [intros k v n Hk Hv; rewrite Hm by assumption; cbn; rewrite !enc_int1_byte by assumption; reflexivity|].
  split; [split; [reflexivity | rewrite Hs; reflexivity]|].
  split; [intros []; reflexivity|]. split; reflexivity.
Qed.
Local Transparent enc_int.
