(* Thrift DOM: a tree holding an ERROR node (result of a failed lookup) has no encoding — marshal fails; cleared
   (empty) children are skipped as before. *)
From Coq Require Import ZArith List Bool Lia.
From DG Require Import ProtoWireRef ThriftWire CaseFormat ThriftGeneric ThriftDom ThriftDomProofs ThriftDomErr.
Import ListNotations.
Local Open Scope Z_scope.

Section TreeInd.
  Variable P : tree -> Prop.
  Hypothesis HT : forall t et kt raw next, Forall (fun kc => P (snd kc)) next -> P (T t et kt raw next).
  Fixpoint tree_ind' (x : tree) : P x :=
    match x with
    | T t et kt raw next => HT t et kt raw next
        ((fix go (l : list (pkey * tree)) : Forall (fun kc => P (snd kc)) l :=
            match l with [] => Forall_nil _ | kc :: l' => Forall_cons kc (tree_ind' (snd kc)) (go l') end) next)
    end.
End TreeInd.

Lemma cat_opt_none l : In None l -> cat_opt l = None.
Proof.
  induction l as [|[a|] l IH]; cbn [cat_opt In]; [tauto| |reflexivity].
  intros [H|H]; [discriminate|]. rewrite (IH H). reflexivity.
Qed.

Lemma cat_opt_some l : Forall (fun o : option (list Z) => o <> None) l -> exists b, cat_opt l = Some b.
Proof.
  induction 1 as [|[a|] l Ha _ [b IH]]; cbn [cat_opt]; [eauto| |congruence]. rewrite IH. eauto.
Qed.

Lemma marshal_eq t et kt raw next : marshal (T t et kt raw next) =
  if t =? T_ERROR then None else
  match next with
  | [] => Some raw
  | _ =>
    if t =? T_STRUCT then
      match cat_opt (map (fun kc => if t_empty (snd kc) then Some []
                                    else match marshal (snd kc) with
                                         | Some b => Some (t_type (snd kc) :: enc_int 2 (key_l (fst kc)) ++ b)
                                         | None => None
                                         end) next) with
      | Some b => Some (b ++ [0])
      | None => None
      end
    else if (t =? T_LIST) || (t =? T_SET) then
      match cat_opt (map (fun kc => if t_empty (snd kc) then Some [] else marshal (snd kc)) next) with
      | Some b => Some (et :: enc_int 4 (rewritten_size next) ++ b)
      | None => None
      end
    else if t =? T_MAP then
      match cat_opt (map (fun kc => if t_empty (snd kc) then Some []
                                    else match key_bytes kt (fst kc), marshal (snd kc) with
                                         | Some kb, Some b => Some (kb ++ b)
                                         | _, _ => None
                                         end) next) with
      | Some b => Some (kt :: et :: enc_int 4 (rewritten_size next) ++ b)
      | None => None
      end
    else if scalar_marshal_type t then Some raw
    else None
  end.
Proof. reflexivity. Qed.

(* marshal of a tree holding an ERROR node (where marshal looks) fails *)
Theorem marshal_error_node_fails : forall x, has_error x = true -> marshal x = None.
Proof.
  induction x as [t et kt raw next IH] using tree_ind'. intros He. rewrite marshal_eq. cbn [has_error] in He.
  destruct (t =? T_ERROR) eqn:Et; [reflexivity|]. cbn [orb] in He.
  apply andb_true_iff in He. destruct He as [Hc Hex]. apply existsb_exists in Hex. destruct Hex as [kc [Hin Hk]].
  apply andb_true_iff in Hk. destruct Hk as [Hne Hke]. apply negb_true_iff in Hne.
  rewrite Forall_forall in IH. pose proof (IH kc Hin Hke) as Hm.
  destruct next as [|n0 nr]; [contradiction|].
  destruct (container_cases t Hc) as [-> | [-> | [-> | ->]]].
  - change (T_STRUCT =? T_STRUCT) with true. cbn iota. rewrite cat_opt_none; [reflexivity|].
    apply in_map_iff. exists kc. split; [|exact Hin]. rewrite Hne, Hm. reflexivity.
  - change (T_MAP =? T_STRUCT) with false. change ((T_MAP =? T_LIST) || (T_MAP =? T_SET)) with false.
    change (T_MAP =? T_MAP) with true. cbn iota. rewrite cat_opt_none; [reflexivity|].
    apply in_map_iff. exists kc. split; [|exact Hin]. rewrite Hne, Hm. destruct (key_bytes kt (fst kc)); reflexivity.
  - change (T_SET =? T_STRUCT) with false. change ((T_SET =? T_LIST) || (T_SET =? T_SET)) with true. cbn iota.
    rewrite cat_opt_none; [reflexivity|]. apply in_map_iff. exists kc. split; [|exact Hin]. rewrite Hne, Hm. reflexivity.
  - change (T_LIST =? T_STRUCT) with false. change ((T_LIST =? T_LIST) || (T_LIST =? T_SET)) with true. cbn iota.
    rewrite cat_opt_none; [reflexivity|]. apply in_map_iff. exists kc. split; [|exact Hin]. rewrite Hne, Hm. reflexivity.
Qed.

(* ... and only then: with keys of the right kind and supported node types, marshal succeeds iff it meets no ERROR node *)
Theorem marshal_ok_iff_no_error_node : forall x, marshal_shape x = true ->
  ((exists b, marshal x = Some b) <-> has_error x = false).
Proof.
  intros x Hs. split.
  - intros [b Hb]. destruct (has_error x) eqn:E; [|reflexivity]. rewrite (marshal_error_node_fails x E) in Hb. discriminate.
  - revert Hs. induction x as [t et kt raw next IH] using tree_ind'. intros Hs He. rewrite marshal_eq.
    cbn [has_error] in He. apply orb_false_iff in He. destruct He as [Et He]. rewrite Et.
    destruct next as [|n0 nr]; [eauto|]. cbn [marshal_shape] in Hs. set (next := n0 :: nr) in *.
    destruct (is_container t) eqn:Hc; cbn iota in Hs.
    + cbn [andb] in He. rewrite forallb_forall in Hs. rewrite Forall_forall in IH.
      assert (Hkid : forall kc, In kc next -> t_empty (snd kc) = true \/
                (exists b, marshal (snd kc) = Some b) /\ (t = T_MAP -> exists kb, key_bytes kt (fst kc) = Some kb)).
      { intros kc Hin. specialize (Hs kc Hin). destruct (t_empty (snd kc)) eqn:Ee; [left; reflexivity|right].
        cbn [orb] in Hs. apply andb_true_iff in Hs. destruct Hs as [Hk Hsh].
        assert (Hek : has_error (snd kc) = false).
        { destruct (has_error (snd kc)) eqn:E; [|reflexivity]. exfalso.
          assert (existsb (fun kc => negb (t_empty (snd kc)) && has_error (snd kc)) next = true); [|congruence].
          apply existsb_exists. exists kc. split; [exact Hin|]. rewrite Ee, E. reflexivity. }
        split; [apply IH; assumption|]. intros ->. change (T_MAP =? T_MAP) with true in Hk. cbn iota in Hk.
        destruct (key_bytes kt (fst kc)); [eauto|discriminate]. }
      destruct (container_cases t Hc) as [-> | [-> | [-> | ->]]].
      * change (T_STRUCT =? T_STRUCT) with true. cbn iota.
        match goal with |- exists b, match cat_opt ?l with _ => _ end = _ => destruct (cat_opt_some l) as [b Hb] end.
        { rewrite Forall_forall. intros o Ho. apply in_map_iff in Ho. destruct Ho as [kc [<- Hin]].
          destruct (Hkid kc Hin) as [He1|[[b Hb1] _]]; [rewrite He1; discriminate|]. destruct (t_empty (snd kc)); [discriminate|]. rewrite Hb1. discriminate. }
        rewrite Hb. eauto.
      * change (T_MAP =? T_STRUCT) with false. change ((T_MAP =? T_LIST) || (T_MAP =? T_SET)) with false.
        change (T_MAP =? T_MAP) with true. cbn iota.
        match goal with |- exists b, match cat_opt ?l with _ => _ end = _ => destruct (cat_opt_some l) as [b Hb] end.
        { rewrite Forall_forall. intros o Ho. apply in_map_iff in Ho. destruct Ho as [kc [<- Hin]].
          destruct (Hkid kc Hin) as [He1|[[b Hb1] Hk]]; [rewrite He1; discriminate|]. destruct (t_empty (snd kc)); [discriminate|]. rewrite Hb1. destruct (Hk eq_refl) as [kb ->]. discriminate. }
        rewrite Hb. eauto.
      * change (T_SET =? T_STRUCT) with false. change ((T_SET =? T_LIST) || (T_SET =? T_SET)) with true. cbn iota.
        match goal with |- exists b, match cat_opt ?l with _ => _ end = _ => destruct (cat_opt_some l) as [b Hb] end.
        { rewrite Forall_forall. intros o Ho. apply in_map_iff in Ho. destruct Ho as [kc [<- Hin]].
          destruct (Hkid kc Hin) as [He1|[[b Hb1] _]]; [rewrite He1; discriminate|]. destruct (t_empty (snd kc)); [discriminate|]. rewrite Hb1. discriminate. }
        rewrite Hb. eauto.
      * change (T_LIST =? T_STRUCT) with false. change ((T_LIST =? T_LIST) || (T_LIST =? T_SET)) with true. cbn iota.
        match goal with |- exists b, match cat_opt ?l with _ => _ end = _ => destruct (cat_opt_some l) as [b Hb] end.
        { rewrite Forall_forall. intros o Ho. apply in_map_iff in Ho. destruct Ho as [kc [<- Hin]].
          destruct (Hkid kc Hin) as [He1|[[b Hb1] _]]; [rewrite He1; discriminate|]. destruct (t_empty (snd kc)); [discriminate|]. rewrite Hb1. discriminate. }
        rewrite Hb. eauto.
    + rewrite Et in Hs. cbn [orb] in Hs. unfold is_container in Hc. repeat (apply orb_false_iff in Hc; destruct Hc as [Hc ?]).
      subst next.
      match goal with H1 : (t =? T_STRUCT) = false, H2 : (t =? T_MAP) = false, H3 : (t =? T_SET) = false, H4 : (t =? T_LIST) = false |- _ =>
        rewrite H1, H2, H3, H4 end. cbn [orb]. rewrite Hs. eauto.
Qed.

(* storing the result of a failed lookup as a child of a loaded, marshallable node makes Marshal fail *)
Lemma In_upd_kid {A} k (g : A -> A) (l : list (pkey * A)) : has_kid k l = true -> exists k' c, In (k', g c) (upd_kid k g l).
Proof.
  unfold has_kid. induction l as [|[k0 c] l IH]; cbn [find_kid upd_kid fst snd]; [discriminate|].
  destruct (key_eqb k0 k); intros H.
  - exists k0, c. left. reflexivity.
  - destruct (IH H) as [k' [c' Hin]]. exists k', c'. right. exact Hin.
Qed.

Theorem set_error_node_fails t et kt raw kids k code : is_container t = true ->
  has_kid k kids = true \/ is_index_key k = false ->
  marshal (tree_of_dom (dom_set_err (DNode t et kt raw kids) k code)) = None.
Proof.
  intros Hc Hk. apply marshal_error_node_fails. cbn [dom_set_err open_node].
  assert (Hin : exists k', In (k', derr code) (err_kids k code kids)).
  { unfold err_kids. destruct (has_kid k kids) eqn:Eh.
    - destruct (In_upd_kid k (fun _ => derr code) kids Eh) as [k' [c Hin]]. eauto.
    - destruct Hk as [Hk|Hk]; [discriminate|]. rewrite Hk. exists k. apply in_or_app. right. left. reflexivity. }
  destruct Hin as [k' Hin]. destruct (err_kids k code kids) as [|e0 er] eqn:Ee; [contradiction|]. rewrite <- Ee in *.
  cbn [tree_of_dom has_error]. rewrite Hc. cbn [andb]. apply orb_true_iff. right.
  apply existsb_exists. exists (k', tree_of_dom (derr code)). split.
  - apply in_map_iff. exists (k', derr code). split; [reflexivity|exact Hin].
  - reflexivity.
Qed.
