(* (G) proto/binary/binary_skip.go Skip / SkipFixed32Type / SkipFixed64Type / SkipBytesType, translated from the Go source on every
   build (gen/Gen_protoskip.v; callees next / ReadVarint in gen/Gen_protobinary.v, ConsumeVarint in gen/Gen_protowire.v), against the
   wire-level decoder of model/ProtoMsg.v (wdec_val): Skip succeeds exactly when the model decodes one value of that wire type, and
   then stands where the model's rest begins; it never panics and never leaves the buffer. *)
From Coq Require Import ZArith List Bool Lia.
From DG Require Import GoSem GoSemLemmas ProtoWireRef ProtoWireRefProofs Gen_protowire GenProtowireProofs.
From DG Require Gen_proto Gen_protobinary Gen_protoskip ProtoMsg.
From DG Require Import CaseFormat Check20h.
Import ListNotations.
Local Open Scope Z_scope.

Module PB := Gen_protobinary.
Module PS := Gen_protoskip.

Definition in_buf (buf : list Z) (rd : Z) : Prop := 0 <= rd <= blen buf /\ blen buf < 2 ^ 62.

Lemma blen_slice_from buf rd : 0 <= rd <= blen buf -> blen (slice_from buf rd) = blen buf - rd.
Proof. intros H. unfold blen, slice_from in *. rewrite skipn_length. lia. Qed.

Lemma slice_from_add buf rd n : 0 <= rd -> 0 <= n -> slice_from buf (rd + n) = skipn (Z.to_nat n) (slice_from buf rd).
Proof.
  intros Hr Hn. unfold slice_from. rewrite Z2Nat.inj_add by lia.
  revert buf. generalize (Z.to_nat rd) as a. generalize (Z.to_nat n) as b. clear.
  intros b a. induction a as [|a IH]; intros buf; [reflexivity|]. destruct buf as [|x r]; [rewrite !skipn_nil; reflexivity|]. cbn [Nat.add skipn]. apply IH.
Qed.

Lemma bytes_ok_slice_from buf rd : bytes_ok buf -> bytes_ok (slice_from buf rd).
Proof.
  unfold slice_from. generalize (Z.to_nat rd) as a. intros a. revert buf. induction a as [|a IH]; intros buf H; [exact H|].
  destruct buf as [|x r]; [exact H|]. cbn [skipn]. apply IH. inversion H; assumption.
Qed.

(* next(n) for n > 0: EOF without moving, or the cursor advances by n *)
Lemma next_spec buf rd n : in_buf buf rd -> 0 < n < 2 ^ 62 ->
  PB.BinaryProtocol_next buf rd n =
    if n >? blen buf - rd then ([], Err_io_EOF, buf, rd) else (slice_range buf rd (rd + n), 0, buf, rd + n).
Proof.
  intros [Hr Hb] Hn. unfold PB.BinaryProtocol_next. change (2 ^ 62) with 4611686018427387904 in *.
  replace (n <=? 0) with false by (symmetry; apply Z.leb_gt; lia).
  rewrite !wraps_small by (change (2 ^ (64 - 1)) with 9223372036854775808; lia). reflexivity.
Qed.

Lemma take_some n bs : 0 <= n <= blen bs -> ProtoMsg.take n bs = Some (firstn (Z.to_nat n) bs, skipn (Z.to_nat n) bs).
Proof. intros H. unfold ProtoMsg.take, ProtoMsg.plen. unfold blen in H. replace (0 <=? n) with true by (symmetry; apply Z.leb_le; lia).
  replace (n <=? Z.of_nat (length bs)) with true by (symmetry; apply Z.leb_le; lia). reflexivity. Qed.
Lemma take_none n bs : blen bs < n -> ProtoMsg.take n bs = None.
Proof. intros H. unfold ProtoMsg.take, ProtoMsg.plen. unfold blen in H.
  replace (n <=? Z.of_nat (length bs)) with false by (symmetry; apply Z.leb_gt; lia). rewrite andb_false_r. reflexivity. Qed.

Lemma blen_skipn n bs : 0 <= n <= blen bs -> blen (skipn (Z.to_nat n) bs) = blen bs - n.
Proof. intros H. unfold blen in *. rewrite skipn_length. lia. Qed.

Lemma fixed_case buf rd n : in_buf buf rd -> 0 < n < 100 ->
  (if n >? blen buf - rd then (false, rd) else (true, rd + n)) =
  match ProtoMsg.take n (slice_from buf rd) with Some (_, r) => (true, blen buf - blen r) | None => (false, rd) end.
Proof.
  intros [Hr Hb] Hn. pose proof (blen_slice_from buf rd Hr) as L.
  destruct (n >? blen buf - rd) eqn:E.
  - rewrite take_none by lia. reflexivity.
  - rewrite take_some by lia. rewrite blen_skipn by lia. f_equal. lia.
Qed.

Theorem Skip_fixed32 buf rd u : in_buf buf rd -> obs_of (PS.BinaryProtocol_Skip buf rd 5 u) = skip_obs buf rd 5.
Proof.
  intros H. pose proof H as [Hr Hl]. pose proof (blen_slice_from buf rd Hr) as L.
  unfold PS.BinaryProtocol_Skip, PS.BinaryProtocol_SkipFixed32Type, skip_obs, ProtoMsg.wdec_val. cbn [Z.eqb Pos.eqb].
  rewrite next_spec by (exact H || (change (2 ^ 62) with 4611686018427387904; lia)).
  destruct (4 >? blen buf - rd) eqn:E.
  - apply Z.gtb_lt in E. rewrite take_none by lia. reflexivity.
  - rewrite Z.gtb_ltb in E; apply Z.ltb_ge in E. rewrite take_some by lia. cbn [obs_of]. rewrite blen_skipn by lia. f_equal. lia.
Qed.

Theorem Skip_fixed64 buf rd u : in_buf buf rd -> obs_of (PS.BinaryProtocol_Skip buf rd 1 u) = skip_obs buf rd 1.
Proof.
  intros H. pose proof H as [Hr Hl]. pose proof (blen_slice_from buf rd Hr) as L.
  unfold PS.BinaryProtocol_Skip, PS.BinaryProtocol_SkipFixed64Type, skip_obs, ProtoMsg.wdec_val. cbn [Z.eqb Pos.eqb].
  rewrite next_spec by (exact H || (change (2 ^ 62) with 4611686018427387904; lia)).
  destruct (8 >? blen buf - rd) eqn:E.
  - apply Z.gtb_lt in E. rewrite take_none by lia. reflexivity.
  - rewrite Z.gtb_ltb in E; apply Z.ltb_ge in E. rewrite take_some by lia. cbn [obs_of]. rewrite blen_skipn by lia. f_equal. lia.
Qed.

Theorem Skip_varint buf rd u : bytes_ok buf -> in_buf buf rd -> obs_of (PS.BinaryProtocol_Skip buf rd 0 u) = skip_obs buf rd 0.
Proof.
  intros Hb H. pose proof H as [Hr Hl]. pose proof (blen_slice_from buf rd Hr) as L.
  unfold PS.BinaryProtocol_Skip, PB.BinaryProtocol_ReadVarint, BinaryDecoder_DecodeUint64, skip_obs, ProtoMsg.wdec_val. cbn [Z.eqb Pos.eqb].
  rewrite ConsumeVarint_ref by (apply bytes_ok_slice_from; exact Hb).
  destruct (varint_dec (slice_from buf rd)) as [v n] eqn:E. pose proof (varint_dec_result _ _ _ E) as R. fold (blen (slice_from buf rd)) in R.
  destruct (n <? 0) eqn:En; [reflexivity|]. apply Z.ltb_ge in En.
  assert (Rn : 1 <= n <= blen buf - rd /\ n <= 10) by (destruct R as [[? _]|[[? _]|R]]; lia).
  rewrite next_spec by (exact H || (change (2 ^ 62) with 4611686018427387904; lia)).
  replace (n >? blen buf - rd) with false by (symmetry; rewrite Z.gtb_ltb; apply Z.ltb_ge; lia).
  cbn [obs_of]. rewrite blen_skipn by lia. f_equal. lia.
Qed.

Theorem Skip_bytes buf rd u : bytes_ok buf -> in_buf buf rd -> obs_of (PS.BinaryProtocol_Skip buf rd 2 u) = skip_obs buf rd 2.
Proof.
  intros Hb H. pose proof H as [Hr Hl]. pose proof (blen_slice_from buf rd Hr) as L. change (2 ^ 62) with 4611686018427387904 in Hl.
  unfold PS.BinaryProtocol_Skip, PS.BinaryProtocol_SkipBytesType, skip_obs, ProtoMsg.wdec_val. cbn [Z.eqb Pos.eqb].
  rewrite ConsumeVarint_ref by (apply bytes_ok_slice_from; exact Hb).
  destruct (varint_dec (slice_from buf rd)) as [v n] eqn:E. pose proof (varint_dec_result _ _ _ E) as R. fold (blen (slice_from buf rd)) in R.
  pose proof (varint_dec_value _ _ _ (bytes_ok_slice_from buf rd Hb) E) as V. change (2 ^ 64) with 18446744073709551616 in V.
  destruct (n <? 0) eqn:En; [reflexivity|]. apply Z.ltb_ge in En.
  assert (Rn : 1 <= n <= blen buf - rd /\ n <= 10) by (destruct R as [[? _]|[[? _]|R]]; lia).
  rewrite (wraps_small 64 (blen buf - rd)) by (change (2 ^ (64 - 1)) with 9223372036854775808; lia).
  rewrite (wraps_small 64 (blen buf - rd - n)) by (change (2 ^ (64 - 1)) with 9223372036854775808; lia).
  rewrite wrapu_small by (change (2 ^ 64) with 18446744073709551616; lia).
  pose proof (blen_skipn n (slice_from buf rd) ltac:(lia)) as Ls.
  destruct (v >? blen buf - rd - n) eqn:Ev.
  - rewrite take_none by lia. reflexivity.
  - rewrite Z.gtb_ltb in Ev; apply Z.ltb_ge in Ev.
    rewrite (wraps_small 64 v) by (change (2 ^ (64 - 1)) with 9223372036854775808; lia).
    rewrite (wraps_small 64 (v + n)) by (change (2 ^ (64 - 1)) with 9223372036854775808; lia).
    rewrite next_spec by (exact H || (change (2 ^ 62) with 4611686018427387904; lia)).
    replace (v + n >? blen buf - rd) with false by (symmetry; rewrite Z.gtb_ltb; apply Z.ltb_ge; lia).
    rewrite take_some by lia. cbn [obs_of]. rewrite blen_skipn by lia. f_equal. lia.
Qed.

(* groups and the unassigned wire types: nil error, nothing consumed (the model's decoder rejects them: callers must not rely on Skip
   to reject) *)
Theorem Skip_other buf rd wt u : wt <> 0 -> wt <> 1 -> wt <> 2 -> wt <> 5 -> PS.BinaryProtocol_Skip buf rd wt u = (0, buf, rd).
Proof.
  intros H0 H1 H2 H5. unfold PS.BinaryProtocol_Skip.
  destruct (Z.eqb_spec wt 0); [contradiction|]. destruct (Z.eqb_spec wt 5); [contradiction|].
  destruct (Z.eqb_spec wt 1); [contradiction|]. destruct (Z.eqb_spec wt 2); [contradiction|]. reflexivity.
Qed.

(* all four together *)
Theorem Skip_is_wdec_val buf rd wt u : bytes_ok buf -> in_buf buf rd -> wt = 0 \/ wt = 1 \/ wt = 2 \/ wt = 5 ->
  obs_of (PS.BinaryProtocol_Skip buf rd wt u) = skip_obs buf rd wt.
Proof.
  intros Hb H [ -> | [ -> | [ -> | -> ]]]; [apply Skip_varint | apply Skip_fixed64 | apply Skip_bytes | apply Skip_fixed32]; assumption.
Qed.

(* robustness (C06): on ANY bytes and any wire type Skip never panics (no next() with a size <= 0), leaves the buffer alone and keeps
   the cursor inside it *)
Theorem Skip_never_panics buf rd wt u : bytes_ok buf -> in_buf buf rd ->
  let '(e, b', rd') := PS.BinaryProtocol_Skip buf rd wt u in e <> Err_PANIC /\ b' = buf /\ rd <= rd' <= blen buf.
Proof.
  intros Hb H. pose proof H as [Hr Hl]. pose proof (blen_slice_from buf rd Hr) as L. change (2 ^ 62) with 4611686018427387904 in Hl.
  unfold PS.BinaryProtocol_Skip.
  destruct (wt =? 0) eqn:W0.
  { unfold PB.BinaryProtocol_ReadVarint, BinaryDecoder_DecodeUint64. rewrite ConsumeVarint_ref by (apply bytes_ok_slice_from; exact Hb).
    destruct (varint_dec (slice_from buf rd)) as [v n] eqn:E. pose proof (varint_dec_result _ _ _ E) as R. fold (blen (slice_from buf rd)) in R.
    destruct (n <? 0) eqn:En; [repeat split; (discriminate || lia)|]. apply Z.ltb_ge in En.
    assert (Rn : 1 <= n <= blen buf - rd /\ n <= 10) by (destruct R as [[? _]|[[? _]|R]]; lia).
    rewrite next_spec by (exact H || (change (2 ^ 62) with 4611686018427387904; lia)).
    destruct (n >? blen buf - rd); repeat split; (discriminate || lia). }
  destruct (wt =? 5) eqn:W5.
  { unfold PS.BinaryProtocol_SkipFixed32Type. rewrite next_spec by (exact H || (change (2 ^ 62) with 4611686018427387904; lia)).
    destruct (4 >? blen buf - rd) eqn:E; repeat split; try discriminate; try lia. }
  destruct (wt =? 1) eqn:W1.
  { unfold PS.BinaryProtocol_SkipFixed64Type. rewrite next_spec by (exact H || (change (2 ^ 62) with 4611686018427387904; lia)).
    destruct (8 >? blen buf - rd) eqn:E; repeat split; try discriminate; try lia. }
  destruct (wt =? 2) eqn:W2; [|repeat split; (discriminate || lia)].
  unfold PS.BinaryProtocol_SkipBytesType. rewrite ConsumeVarint_ref by (apply bytes_ok_slice_from; exact Hb).
  destruct (varint_dec (slice_from buf rd)) as [v n] eqn:E. pose proof (varint_dec_result _ _ _ E) as R. fold (blen (slice_from buf rd)) in R.
  pose proof (varint_dec_value _ _ _ (bytes_ok_slice_from buf rd Hb) E) as V. change (2 ^ 64) with 18446744073709551616 in V.
  destruct (n <? 0) eqn:En; [repeat split; (discriminate || lia)|]. apply Z.ltb_ge in En.
  assert (Rn : 1 <= n <= blen buf - rd /\ n <= 10) by (destruct R as [[? _]|[[? _]|R]]; lia).
  rewrite (wraps_small 64 (blen buf - rd)) by (change (2 ^ (64 - 1)) with 9223372036854775808; lia).
  rewrite (wraps_small 64 (blen buf - rd - n)) by (change (2 ^ (64 - 1)) with 9223372036854775808; lia).
  rewrite wrapu_small by (change (2 ^ 64) with 18446744073709551616; lia).
  destruct (v >? blen buf - rd - n) eqn:Ev; [repeat split; (discriminate || lia)|].
  rewrite Z.gtb_ltb in Ev; apply Z.ltb_ge in Ev.
  rewrite (wraps_small 64 v) by (change (2 ^ (64 - 1)) with 9223372036854775808; lia).
  rewrite (wraps_small 64 (v + n)) by (change (2 ^ (64 - 1)) with 9223372036854775808; lia).
  rewrite next_spec by (exact H || (change (2 ^ 62) with 4611686018427387904; lia)).
  replace (v + n >? blen buf - rd) with false by (symmetry; rewrite Z.gtb_ltb; apply Z.ltb_ge; lia).
  repeat split; (discriminate || lia).
Qed.
