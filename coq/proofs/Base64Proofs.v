(* b64_decode inverts b64_encode on all byte lists. *)
From Coq Require Import ZArith List Bool Lia.
From DG Require Import Base64.
Import ListNotations.
Local Open Scope Z_scope.

(* a boolean fact checked on 0..k-1 by computation holds for every integer in that range *)
Lemma Z_range_forallb : forall (f : Z -> bool) (k : nat),
  forallb f (map Z.of_nat (seq 0 k)) = true -> forall n, 0 <= n < Z.of_nat k -> f n = true.
Proof.
  intros f k Hall n Hn.
  rewrite forallb_forall in Hall. apply Hall.
  rewrite <- (Z2Nat.id n) by lia. apply in_map. apply in_seq. lia.
Qed.

Lemma b64_val_char : forall n, 0 <= n < 64 -> b64_val (b64_char n) = Some n.
Proof.
  intros n Hn.
  pose (f := fun n => match b64_val (b64_char n) with Some m => m =? n | None => false end).
  assert (Hf : f n = true) by (apply (Z_range_forallb f 64); [vm_compute; reflexivity | exact Hn]).
  unfold f in Hf. destruct (b64_val (b64_char n)) as [m|]; [|discriminate].
  apply Z.eqb_eq in Hf. subst m. reflexivity.
Qed.

Lemma b64_char_not_pad : forall n, 0 <= n < 64 -> (b64_char n =? 61) = false.
Proof.
  intros n Hn.
  apply (Z_range_forallb (fun n => negb (b64_char n =? 61)) 64) in Hn; [|vm_compute; reflexivity].
  apply negb_true_iff in Hn. exact Hn.
Qed.

Definition byte (b : Z) : Prop := 0 <= b < 256.

(* induction in steps of three *)
Lemma list_ind3 : forall (A : Type) (P : list A -> Prop),
  P [] -> (forall a, P [a]) -> (forall a b, P [a; b]) ->
  (forall a b c r, P r -> P (a :: b :: c :: r)) -> forall l, P l.
Proof.
  intros A P H0 H1 H2 H3 l.
  assert (H : P l /\ (forall a, P (a :: l)) /\ (forall a b, P (a :: b :: l))).
  { induction l as [|x l IH].
    - repeat split; auto.
    - destruct IH as (Ha & Hb & Hc). repeat split; auto. }
  exact (proj1 H).
Qed.

Lemma idx0 : forall a, byte a -> 0 <= a / 4 < 64.
Proof. unfold byte. intros. Z.div_mod_to_equations. lia. Qed.
Lemma idx1 : forall a b, byte a -> byte b -> 0 <= (a mod 4) * 16 + b / 16 < 64.
Proof. unfold byte. intros. Z.div_mod_to_equations. lia. Qed.
Lemma idx1' : forall a, byte a -> 0 <= (a mod 4) * 16 < 64.
Proof. unfold byte. intros. Z.div_mod_to_equations. lia. Qed.
Lemma idx2 : forall b c, byte b -> byte c -> 0 <= (b mod 16) * 4 + c / 64 < 64.
Proof. unfold byte. intros. Z.div_mod_to_equations. lia. Qed.
Lemma idx2' : forall b, byte b -> 0 <= (b mod 16) * 4 < 64.
Proof. unfold byte. intros. Z.div_mod_to_equations. lia. Qed.
Lemma idx3 : forall c, byte c -> 0 <= c mod 64 < 64.
Proof. unfold byte. intros. Z.div_mod_to_equations. lia. Qed.

Lemma re0 : forall a b, byte a -> byte b -> (a / 4) * 4 + ((a mod 4) * 16 + b / 16) / 16 = a.
Proof. unfold byte. intros. Z.div_mod_to_equations. lia. Qed.
Lemma re0' : forall a, byte a -> (a / 4) * 4 + ((a mod 4) * 16) / 16 = a.
Proof. unfold byte. intros. Z.div_mod_to_equations. lia. Qed.
Lemma re1 : forall a b c, byte a -> byte b -> byte c ->
  (((a mod 4) * 16 + b / 16) mod 16) * 16 + ((b mod 16) * 4 + c / 64) / 4 = b.
Proof. unfold byte. intros. Z.div_mod_to_equations. lia. Qed.
Lemma re1' : forall a b, byte a -> byte b ->
  (((a mod 4) * 16 + b / 16) mod 16) * 16 + ((b mod 16) * 4) / 4 = b.
Proof. unfold byte. intros. Z.div_mod_to_equations. lia. Qed.
Lemma re2 : forall b c, byte b -> byte c -> (((b mod 16) * 4 + c / 64) mod 4) * 64 + c mod 64 = c.
Proof. unfold byte. intros. Z.div_mod_to_equations. lia. Qed.

Theorem b64_decode_encode : forall bs, Forall byte bs -> b64_decode (b64_encode bs) = Some bs.
Proof.
  induction bs as [| a | a b | a b c r IH] using list_ind3; intros Hb.
  - reflexivity.
  - inversion Hb as [|? ? Ha _]; subst.
    cbn [b64_encode b64_decode].
    rewrite (b64_val_char _ (idx0 a Ha)), (b64_val_char _ (idx1' a Ha)).
    cbn. rewrite (re0' a Ha). reflexivity.
  - inversion Hb as [|? ? Ha Hb']; subst. inversion Hb' as [|? ? Hbb _]; subst.
    cbn [b64_encode b64_decode].
    rewrite (b64_val_char _ (idx0 a Ha)), (b64_val_char _ (idx1 a b Ha Hbb)).
    rewrite (b64_char_not_pad _ (idx2' b Hbb)), (b64_val_char _ (idx2' b Hbb)).
    cbn. rewrite (re0 a b Ha Hbb), (re1' a b Ha Hbb). reflexivity.
  - inversion Hb as [|? ? Ha Hb']; subst. inversion Hb' as [|? ? Hbb Hb'']; subst. inversion Hb'' as [|? ? Hc Hr]; subst.
    cbn [b64_encode b64_decode].
    rewrite (b64_val_char _ (idx0 a Ha)), (b64_val_char _ (idx1 a b Ha Hbb)).
    rewrite (b64_char_not_pad _ (idx2 b c Hbb Hc)), (b64_val_char _ (idx2 b c Hbb Hc)).
    rewrite (b64_char_not_pad _ (idx3 c Hc)), (b64_val_char _ (idx3 c Hc)).
    rewrite (IH Hr).
    rewrite (re0 a b Ha Hbb), (re1 a b c Ha Hbb Hc), (re2 b c Hbb Hc). reflexivity.
Qed.

(* encoded text has length 4 * ceil(n / 3) and uses only the alphabet and '=' *)
Lemma b64_encode_length : forall bs, length (b64_encode bs) = (4 * ((length bs + 2) / 3))%nat.
Proof.
  induction bs as [| a | a b | a b c r IH] using list_ind3; try reflexivity.
  cbn [b64_encode length]. rewrite IH.
  replace (S (S (S (length r))) + 2)%nat with (length r + 2 + 1 * 3)%nat by lia.
  rewrite Nat.div_add by lia. lia.
Qed.
