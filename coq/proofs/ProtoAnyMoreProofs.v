(* More theorems about model/ProtoAny.v:
     write_any_top / read_any_top / read_write_any_top   T1-T3 for a LIST or MAP TypeDescriptor at the top
                                 (WriteAnyWithDesc / ReadAnyWithDesc called on the type of a repeated or map field);
     write_map_strkeys_same      a string-keyed map given as map[string]interface{} or as map[interface{}]interface{}
                                 with string keys is written to the same bytes, entry for entry;
     read_any_refines_decode_general_refuted   the reader does NOT read every valid wire input the way the proved
                                 reference decoder does: witnesses (a packed field arriving unpacked, an unpacked field
                                 arriving packed, a split run of a repeated field, a bool varint other than 0/1). *)
From Coq Require Import ZArith List Bool Lia Arith.
From DG Require Import CaseFormat ProtoWireRef ProtoWireRefProofs GoSem ProtoMsg ProtoMsgProofs ProtoSpecLen
  ProtoSpecLenProofs ProtoAny ProtoAnyProofs.
Import ListNotations.
Local Open Scope Z_scope.

Definition names_hyp (S : schema) (byname : bool) : Prop :=
  byname = true -> forall name md n fd, find_msg S name = Some md -> find_field md n = Some fd ->
  find_field_name md (fd_name fd) = Some fd.

(* ------------------------------------------------------------------ a LIST / MAP descriptor at the top *)
Theorem write_any_top S cast disallow byname junk n lbl t needlen v fuel :
  (9 <= length junk)%nat -> names_hyp S byname -> lbl <> LSingular ->
  1 <= n <= MAX_FIELD_NUMBER -> wf_fld S lbl t v = true -> strs_ok v = true -> sizes_ok v = true -> (depth v < fuel)%nat ->
  write_any_desc S cast disallow byname junk true fuel n lbl t needlen (gval_of S byname false t v)
  = (encode_msg [(n, v)], 0).
Proof.
  intros Hj Hnm Hl Hn Hw Hs Hz Hd. unfold write_any_desc, write_any, encode_msg, msg_wire. cbn [flat_map fst snd].
  rewrite app_nil_r.
  pose proof (write_base_ok S cast disallow byname junk Hj Hnm fuel) as Hrec.
  destruct lbl as [|p|kk]; [contradiction| |].
  - apply (write_list_ok S byname junk Hj _ fuel Hrec n p t v [] Hn Hw Hs Hz Hd).
  - apply (write_map_ok S byname junk Hj _ fuel Hrec n kk t v [] Hn Hw Hs Hz Hd).
Qed.

Theorem read_any_top S disallow byname n lbl t haslen v fuel :
  names_hyp S byname -> lbl <> LSingular ->
  1 <= n <= MAX_FIELD_NUMBER -> wf_fld S lbl t v = true -> sizes_ok v = true -> (depth v < fuel)%nat ->
  read_any_desc S disallow byname fuel lbl t haslen (encode_msg [(n, v)]) = Some (gval_of S byname true t v, []).
Proof.
  intros Hnm Hl Hn Hw Hz Hd. unfold read_any_desc, read_any, encode_msg, msg_wire. cbn [flat_map fst snd].
  rewrite app_nil_r.
  pose proof (read_base_ok S disallow byname Hnm fuel) as Hrec.
  rewrite <- (app_nil_r (wenc (wfld n v))).
  destruct lbl as [|p|kk]; [contradiction| |].
  - apply (read_list_ok S byname _ fuel Hrec n p t v [] Hn Hw Hz Hd). left. reflexivity.
  - apply (read_map_ok S byname _ fuel Hrec n kk t v [] Hn Hw Hz Hd). left. reflexivity.
Qed.

Theorem read_write_any_top S cast dis_w dis_r byname junk n lbl t nl hl v fuel :
  (9 <= length junk)%nat -> (byname = true -> names_okb S = true) -> lbl <> LSingular ->
  1 <= n <= MAX_FIELD_NUMBER -> wf_fld S lbl t v = true -> strs_ok v = true -> sizes_ok v = true -> (depth v < fuel)%nat ->
  exists bytes,
    write_any_desc S cast dis_w byname junk true fuel n lbl t nl (gval_of S byname false t v) = (bytes, 0) /\
    read_any_desc S dis_r byname fuel lbl t hl bytes = Some (gval_of S byname true t v, []) /\
    (no_empty v = true -> gval_of S byname true t v = gval_of S byname false t v).
Proof.
  intros Hj Hnm Hl Hn Hw Hs Hz Hd. exists (encode_msg [(n, v)]).
  assert (Hnames : names_hyp S byname) by (intros E; apply names_okb_sound; apply Hnm; exact E).
  split; [apply write_any_top; assumption|]. split; [apply read_any_top; assumption|].
  apply gval_of_no_empty.
Qed.

(* ------------------------------------------------------------------ map[string]interface{} = map[interface{}]interface{} with string keys *)
Lemma write_entries_strkeys_same S cast dis bn junk fx f n t es : forall b,
  write_entries junk (write_base S cast dis bn junk fx (Datatypes.S f)) n 9 t (fun k b' => (b' ++ str_bytes k, 0)) b es =
  write_entries junk (write_base S cast dis bn junk fx (Datatypes.S f)) n 9 t
                (fun k b' => write_base S cast dis bn junk fx (Datatypes.S f) (TScalar 9) true b' k) b
                (map (fun e => (GStr (fst e), snd e)) es).
Proof.
  induction es as [|[k v] es IH]; intros b; [reflexivity|].
  cbn [map write_entries fst snd].
  replace (write_entry junk (write_base S cast dis bn junk fx (Datatypes.S f)) n 9 t b
             (fun b' => write_base S cast dis bn junk fx (Datatypes.S f) (TScalar 9) true b' (GStr k)) v)
    with (write_entry junk (write_base S cast dis bn junk fx (Datatypes.S f)) n 9 t b (fun b' => (b' ++ str_bytes k, 0)) v)
    by reflexivity.
  unfold wbind. destruct (snd _ =? 0); [apply IH|reflexivity].
Qed.

Theorem write_map_strkeys_same S cast dis bn junk fx f n t b es :
  write_map junk (write_base S cast dis bn junk fx (Datatypes.S f)) n 9 t b (GMapS es) =
  write_map junk (write_base S cast dis bn junk fx (Datatypes.S f)) n 9 t b (GMapA (map (fun e => (GStr (fst e), snd e)) es)).
Proof. cbn [write_map]. apply write_entries_strkeys_same. Qed.

(* ------------------------------------------------------------------ the general statement is false: witnesses *)
(* M { repeated int32 l = 1 (packed); int32 a = 2; repeated string s = 3; repeated int32 u = 4 [packed = false]; bool b = 5 } *)
Definition rx_schema : schema :=
  [ mk_mdesc [77] [ mk_fdesc 1 [108] [108] (LRepeated true) (TScalar 5); mk_fdesc 2 [97] [97] LSingular (TScalar 5);
                    mk_fdesc 3 [115] [115] (LRepeated false) (TScalar 9); mk_fdesc 4 [117] [117] (LRepeated false) (TScalar 5);
                    mk_fdesc 5 [98] [98] LSingular (TScalar 8) ] ].
Definition rx_read (bs : list Z) := read_any_desc rx_schema false false 9 LSingular (TMsg [77]) false bs.

(* a field declared packed arrives unpacked (every protobuf parser must accept both spellings): the reader fails *)
Example refuted_packed_arrives_unpacked :
  decode_top rx_schema [77] [8; 1; 8; 2] = Some [(1, VList true [VScalar 5 1; VScalar 5 2])] /\ rx_read [8; 1; 8; 2] = None.
Proof. split; vm_compute; reflexivity. Qed.
(* a field declared [packed = false] arrives packed: the reader fails *)
Example refuted_unpacked_arrives_packed :
  decode_top rx_schema [77] [34; 2; 1; 2] = Some [(4, VList false [VScalar 5 1; VScalar 5 2])] /\ rx_read [34; 2; 1; 2] = None.
Proof. split; vm_compute; reflexivity. Qed.
(* the records of a repeated field are split by another field: the second run REPLACES the first *)
Example refuted_split_run :
  decode_top rx_schema [77] [26; 1; 97; 16; 5; 26; 1; 98] = Some [(3, VList false [VBytes 9 [97]; VBytes 9 [98]]); (2, VScalar 5 5)] /\
  rx_read [26; 1; 97; 16; 5; 26; 1; 98] = Some (GMsgN [(3, GList [GStr [98]]); (2, GInt GT_I32 5)], []).
Proof. split; vm_compute; reflexivity. Qed.
(* a bool written as a varint other than 0 / 1 (true for the reference): read as false *)
Example refuted_bool_varint :
  decode_top rx_schema [77] [40; 2] = Some [(5, VScalar 8 1)] /\ rx_read [40; 2] = Some (GMsgN [(5, GBool false)], []).
Proof. split; vm_compute; reflexivity. Qed.
(* agreement cases: a singular field written twice (last wins), an unknown field in between *)
Example agrees_last_wins_and_unknown :
  decode_top rx_schema [77] [16; 5; 72; 1; 16; 7; 10; 2; 1; 2] = Some [(2, VScalar 5 7); (1, VList true [VScalar 5 1; VScalar 5 2])] /\
  rx_read [16; 5; 72; 1; 16; 7; 10; 2; 1; 2] = Some (GMsgN [(2, GInt GT_I32 7); (1, GList [GInt GT_I32 1; GInt GT_I32 2])], []).
Proof. split; vm_compute; reflexivity. Qed.

Theorem read_any_refines_decode_general_refuted :
  ~ (forall S name bs m disallow byname fuel, decode_top S name bs = Some m -> (length bs < fuel)%nat ->
       read_any_desc S disallow byname fuel LSingular (TMsg name) false bs = Some (gtop S byname true name m, [])).
Proof.
  intros H. destruct refuted_packed_arrives_unpacked as [Hd Hr].
  specialize (H rx_schema [77] [8; 1; 8; 2] _ false false 9%nat Hd ltac:(cbn; lia)).
  unfold rx_read in Hr. rewrite Hr in H. discriminate H.
Qed.

(* ------------------------------------------------------------------ valid non-canonical input on which reader and reference agree:
   the fields in ANY order (already in T2: the order of the list) with unknown fields of every wire type in between *)
Inductive item := IKnown (n : Z) (v : pval) | IUnk (f : wfield).
Definition items_wire (its : list item) : list wfield :=
  flat_map (fun it => match it with IKnown n v => wfld n v | IUnk f => [f] end) its.
Definition known_fields (its : list item) : pmsg :=
  flat_map (fun it => match it with IKnown n v => [(n, v)] | IUnk _ => [] end) its.

Lemma skip_val_enc w r : wf_wval w = true -> skip_val (wt_of_wval w) (wenc_val w ++ r) = r.
Proof.
  intros Hw. destruct w as [v|v|v|bs]; cbn [wf_wval wt_of_wval wenc_val] in *; unfold skip_val; cbn [Z.eqb Pos.eqb].
  - apply andb_true_iff in Hw as [H1 H2]. apply Z.leb_le in H1. apply Z.ltb_lt in H2. rewrite rd_varint_enc by lia. reflexivity.
  - rewrite (take_le_enc 8). reflexivity.
  - rewrite (take_le_enc 4). reflexivity.
  - apply Z.ltb_lt in Hw. rewrite <- app_assoc. rewrite rd_bytes_enc by exact Hw. reflexivity.
Qed.

Section Unknowns.
  Variable S : schema.
  Variable byname : bool.
  Variable rec : ftype -> bool -> list Z -> option (gval * list Z).
  Variable f : nat.
  Hypothesis Hrec : rrec_ok S byname rec f.
  Variable md : mdesc.

  Definition item_ok (it : item) : Prop :=
    match it with
    | IKnown n v => rfield_ok S f md (n, v)
    | IUnk fl => find_field md (fst fl) = None /\ wf_wfield fl = true
    end.

  Lemma items_start n its : Forall item_ok its -> (exists fd, find_field md n = Some fd) ->
    (forall nv, In nv (known_fields its) -> fst nv <> n) -> other_start n (wenc (items_wire its)).
  Proof.
    intros Hall [fd Hfd] Hne. destruct its as [|it its]; [left; reflexivity|right].
    inversion Hall as [|? ? Hit _]; subst. destruct it as [n' v'|[u w]]; cbn [item_ok] in Hit.
    - destruct Hit as [fd' [Hfd' [Hn' [Hw _]]]]. cbn [fst snd] in *.
      destruct (wfld_fvals S _ _ v' n' Hw) as [Ew Hnn]. destruct (fvals v') as [|w ws]; [contradiction|].
      exists n', (wt_of_wval w), (wenc_val w ++ wenc (map (pair n') ws) ++ wenc (items_wire its)).
      split.
      { unfold items_wire. cbn [flat_map]. rewrite wenc_app, Ew. cbn [map]. rewrite wenc_cons. unfold wenc_field.
        cbn [fst snd]. rewrite <- !app_assoc. reflexivity. }
      split; [exact Hn'|]. split; [destruct (wt_of_wval_cases w) as [E|[E|[E|E]]]; rewrite E; lia|].
      apply (Hne (n', v')). cbn [known_fields flat_map]. left. reflexivity.
    - destruct Hit as [Hu Hwf]. cbn [fst] in Hu. unfold wf_wfield in Hwf. cbn [fst snd] in Hwf.
      apply andb_true_iff in Hwf as [Hwf Hwv]. apply andb_true_iff in Hwf as [H1 H2]. apply Z.leb_le in H1. apply Z.leb_le in H2.
      exists u, (wt_of_wval w), (wenc_val w ++ wenc (items_wire its)).
      split.
      { unfold items_wire. cbn [flat_map]. change ([(u, w)] ++ ?x) with ((u, w) :: x). rewrite wenc_cons. unfold wenc_field.
        cbn [fst snd]. rewrite <- !app_assoc. reflexivity. }
      split; [lia|]. split; [destruct (wt_of_wval_cases w) as [E|[E|[E|E]]]; rewrite E; lia|].
      intros ->. congruence.
  Qed.

  Lemma read_fields_items its : Forall item_ok its -> nodupb Z.eqb (map fst (known_fields its)) = true ->
    forall fuel, (length (wenc (items_wire its)) < fuel)%nat ->
    read_fields false rec fuel md (wenc (items_wire its))
    = Some (map (fun nv => (the_fd md (fst nv), gval_of S byname true (fd_type (the_fd md (fst nv))) (snd nv))) (known_fields its)).
  Proof.
    induction 1 as [|it its Hit Hall IH]; intros Hnd fuel Hf.
    - cbn. destruct fuel; reflexivity.
    - destruct it as [n v|[u w]]; cbn [item_ok] in Hit.
      + cbn [known_fields flat_map app map nodupb] in Hnd |- *. fold (known_fields its) in Hnd |- *.
        apply andb_true_iff in Hnd as [Hx Hnd]. apply negb_true_iff in Hx. cbn [fst] in Hx.
        assert (Hne : forall nv, In nv (known_fields its) -> fst nv <> n).
        { intros nv Hin E. assert (existsb (Z.eqb n) (map fst (known_fields its)) = true); [|congruence].
          apply existsb_exists. exists (fst nv). split; [apply in_map; exact Hin|apply Z.eqb_eq; symmetry; exact E]. }
        destruct Hit as [fd [Hfd [Hn [Hw [Hz Hd]]]]]. cbn [fst snd] in *.
        pose proof (items_start n its Hall (ex_intro _ fd Hfd) Hne) as Ho.
        destruct (read_field_ok S byname rec f Hrec (fd_label fd) (fd_type fd) v n (wenc (items_wire its)) Hn Hw Hz Hd Ho)
          as [wt [r [b0 [t0 [Ene [Hwt [Etag Hra]]]]]]].
        assert (Ebs : wenc (items_wire (IKnown n v :: its)) = wenc (wfld n v) ++ wenc (items_wire its)).
        { unfold items_wire. cbn [flat_map]. apply wenc_app. }
        rewrite Ebs in *.
        destruct fuel as [|fuel]; [lia|].
        rewrite read_fields_S by (rewrite Ene; discriminate).
        rewrite Etag at 1. rewrite consume_tag_enc by assumption. rewrite Hfd.
        rewrite Hra. rewrite IH; [|exact Hnd|rewrite Ene in Hf; cbn in Hf; rewrite app_length in Hf; lia].
        assert (Et : the_fd md n = fd) by (unfold the_fd; rewrite Hfd; reflexivity).
        cbn [fst snd]. rewrite Et. reflexivity.
      + cbn [known_fields flat_map app] in Hnd |- *. fold (known_fields its) in Hnd |- *.
        destruct Hit as [Hu Hwf]. cbn [fst] in Hu. unfold wf_wfield in Hwf. cbn [fst snd] in Hwf.
        apply andb_true_iff in Hwf as [Hwf Hwv]. apply andb_true_iff in Hwf as [H1 H2]. apply Z.leb_le in H1. apply Z.leb_le in H2.
        assert (Ebs : wenc (items_wire (IUnk (u, w) :: its)) =
                      varint_enc (u * 8 + wt_of_wval w) ++ wenc_val w ++ wenc (items_wire its)).
        { unfold items_wire. cbn [flat_map]. change ([(u, w)] ++ ?x) with ((u, w) :: x). rewrite wenc_cons. unfold wenc_field.
          cbn [fst snd]. rewrite <- !app_assoc. reflexivity. }
        rewrite Ebs in *.
        assert (Hwr : 0 <= wt_of_wval w < 8) by (destruct (wt_of_wval_cases w) as [E|[E|[E|E]]]; rewrite E; lia).
        destruct fuel as [|fuel]; [lia|]. destruct (varint_enc_cons (u * 8 + wt_of_wval w)) as [b0 [t0 E0]].
        rewrite read_fields_S by (apply (app_cons_ne _ _ _ _ E0)).
        rewrite consume_tag_enc by lia. rewrite Hu. rewrite skip_val_enc by exact Hwv.
        apply IH; [exact Hnd|].
        apply (length_app_cons_lt _ _ _ _ _ E0) in Hf. rewrite app_length in Hf. lia.
  Qed.
End Unknowns.

(* ---- the reference decoder drops unknown fields wherever they stand *)
Section GroupFilter.
  Variable K : Z -> bool.
  Let kg (p : Z * list wval) := K (fst p).
  Let kf (p : wfield) := K (fst p).

  Lemma gvals_filter n g : K n = true -> gvals n (filter kg g) = gvals n g.
  Proof.
    intros Hn. induction g as [|[m vs] g IH]; [reflexivity|]. cbn [filter gvals]. unfold kg at 1. cbn [fst].
    destruct (Z.eqb_spec m n) as [->|Hne].
    - rewrite Hn. cbn [gvals]. rewrite Z.eqb_refl. reflexivity.
    - destruct (K m); cbn [gvals]; [destruct (Z.eqb_spec m n); [contradiction|]|]; exact IH.
  Qed.
  Lemma filter_cons_kg m vs g : filter kg ((m, vs) :: g) = if K m then (m, vs) :: filter kg g else filter kg g.
  Proof. reflexivity. Qed.

  Lemma gremove_absent_k n g : (forall p, In p g -> K (fst p) = true) -> K n = false -> gremove n g = g.
  Proof.
    intros Hall Hn. induction g as [|[m vs] g IH]; [reflexivity|]. cbn [gremove].
    destruct (Z.eqb_spec m n) as [->|_]; [specialize (Hall (n, vs) (or_introl eq_refl)); cbn in Hall; congruence|].
    f_equal. apply IH. intros p Hp. apply Hall. right. exact Hp.
  Qed.
  Lemma filter_gremove_dropped n g : K n = false -> filter kg (gremove n g) = filter kg g.
  Proof.
    intros Hn. induction g as [|[m vs] g IH]; [reflexivity|]. cbn [gremove].
    destruct (Z.eqb_spec m n) as [->|Hne].
    - rewrite filter_cons_kg, Hn. reflexivity.
    - rewrite !filter_cons_kg, IH. reflexivity.
  Qed.
  Lemma gremove_filter n g : K n = true -> filter kg (gremove n g) = gremove n (filter kg g).
  Proof.
    intros Hn. induction g as [|[m vs] g IH]; [reflexivity|]. cbn [gremove]. rewrite filter_cons_kg.
    destruct (Z.eqb_spec m n) as [->|Hne].
    - rewrite Hn. cbn [gremove]. rewrite Z.eqb_refl. reflexivity.
    - rewrite filter_cons_kg. destruct (K m).
      + cbn [gremove]. destruct (Z.eqb_spec m n); [contradiction|]. rewrite IH. reflexivity.
      + exact IH.
  Qed.
  Lemma group_filter w : filter kg (group w) = group (filter kf w).
  Proof.
    induction w as [|[n v] w IH]; [reflexivity|]. cbn [group]. rewrite filter_cons_kg.
    change (filter kf ((n, v) :: w)) with (if K n then (n, v) :: filter kf w else filter kf w).
    destruct (K n) eqn:E.
    - cbn [group]. rewrite <- IH. rewrite gvals_filter by exact E. rewrite gremove_filter by exact E. reflexivity.
    - rewrite filter_gremove_dropped by exact E. exact IH.
  Qed.
End GroupFilter.

Lemma dec_groups_filter rec md g :
  dec_groups rec md g = dec_groups rec md (filter (fun p => match find_field md (fst p) with Some _ => true | None => false end) g).
Proof.
  induction g as [|[n vs] g IH]; [reflexivity|]. cbn [dec_groups filter fst].
  destruct (find_field md n) as [fd|] eqn:E.
  - cbn [dec_groups]. rewrite E, IH. reflexivity.
  - exact IH.
Qed.

Lemma msg_wire_wf S name md fs : find_msg S name = Some md -> wf_msg S name fs = true -> wf_wire (msg_wire fs) = true.
Proof.
  intros Em Hw. unfold wf_msg in Hw. cbn [wf_fld] in Hw. rewrite Em in Hw. apply andb_true_iff in Hw as [_ Hall].
  unfold wf_wire, msg_wire. rewrite forallb_flat_map. apply forallb_forall. intros [n v] Hin.
  rewrite forallb_forall in Hall. specialize (Hall _ Hin). cbn [fst snd] in *.
  destruct (find_field md n) as [fd|]; [|discriminate].
  apply andb_true_iff in Hall as [Hn Hwv]. apply andb_true_iff in Hn as [H1 H2]. apply Z.leb_le in H1. apply Z.leb_le in H2.
  destruct (wfld_fvals S _ _ v n Hwv) as [Ew _]. rewrite Ew.
  apply (map_pair_wf n (fvals v)); [lia|]. apply (fvals_wf S _ _ v Hwv).
Qed.

Definition unk_ok (md : mdesc) (it : item) : Prop :=
  match it with IKnown _ _ => True | IUnk fl => find_field md (fst fl) = None /\ wf_wfield fl = true end.

Lemma items_filter S name md its : find_msg S name = Some md -> wf_msg S name (known_fields its) = true ->
  Forall (unk_ok md) its ->
  filter (fun p : wfield => match find_field md (fst p) with Some _ => true | None => false end) (items_wire its)
  = msg_wire (known_fields its) /\ wf_wire (items_wire its) = true.
Proof.
  intros Em Hw Hall. pose proof (msg_wire_wf S name md _ Em Hw) as Hwf.
  unfold wf_msg in Hw. cbn [wf_fld] in Hw. rewrite Em in Hw. apply andb_true_iff in Hw as [_ Hfs].
  rewrite forallb_forall in Hfs. revert Hfs Hwf.
  induction Hall as [|it its Hit _ IH]; intros Hfs Hwf; [split; reflexivity|].
  destruct it as [n v|[u w]]; cbn [unk_ok] in Hit.
  - cbn [known_fields items_wire flat_map app] in *. fold (known_fields its) in *. fold (items_wire its) in *.
    pose proof (Hfs (n, v) (or_introl eq_refl)) as Hnv. cbn [fst snd] in Hnv.
    destruct (find_field md n) as [fd|] eqn:Ef; [|discriminate].
    apply andb_true_iff in Hnv as [_ Hwv]. destruct (wfld_fvals S _ _ v n Hwv) as [Ew _].
    unfold msg_wire in Hwf |- *. cbn [flat_map fst snd] in Hwf |- *. unfold wf_wire in Hwf. rewrite forallb_app in Hwf.
    apply andb_true_iff in Hwf as [Hwf1 Hwf2].
    destruct (IH (fun x Hx => Hfs x (or_intror Hx)) Hwf2) as [IH1 IH2].
    split.
    + rewrite filter_app. unfold msg_wire in IH1. rewrite IH1. f_equal.
      rewrite Ew. clear Ew. generalize (fvals v) as l. intros l. induction l as [|x l IHl]; [reflexivity|].
      cbn [map filter fst]. rewrite Ef, IHl. reflexivity.
    + unfold wf_wire. rewrite forallb_app, Hwf1. exact IH2.
  - cbn [known_fields items_wire flat_map app] in *. fold (known_fields its) in *. fold (items_wire its) in *.
    destruct Hit as [Hu Hwfl]. cbn [fst] in Hu. destruct (IH Hfs Hwf) as [IH1 IH2]. split.
    + cbn [filter fst]. rewrite Hu. exact IH1.
    + cbn [wf_wire forallb]. rewrite Hwfl. exact IH2.
Qed.

(* the proved reference decoder on such an input: the known fields, in order *)
Theorem decode_items S name md its fuel :
  find_msg S name = Some md -> wf_msg S name (known_fields its) = true -> Forall (unk_ok md) its ->
  (depth (VMsg (known_fields its)) <= fuel)%nat ->
  decode_msg S fuel name (wenc (items_wire its)) = Some (known_fields its).
Proof.
  intros Em Hw Hall Hd. destruct (items_filter S name md its Em Hw Hall) as [Hfil Hwf].
  pose proof (decode_encode_msg S name (known_fields its) fuel Hw Hd) as Hcan.
  destruct fuel as [|f]; [cbn [depth] in Hd; lia|].
  cbn [decode_msg] in Hcan |- *. rewrite Em in Hcan |- *.
  unfold encode_msg in Hcan. rewrite wdec_wenc in Hcan by (apply (msg_wire_wf S name md _ Em Hw)).
  rewrite wdec_wenc by exact Hwf.
  rewrite dec_groups_filter. rewrite (group_filter (fun n => match find_field md n with Some _ => true | None => false end)).
  rewrite Hfil. exact Hcan.
Qed.

Lemma items_ok_all S f md its : Forall (rfield_ok S f md) (known_fields its) -> Forall (unk_ok md) its -> Forall (item_ok S f md) its.
Proof.
  intros Hk Hu. induction Hu as [|it its Hit _ IH]; [constructor|].
  destruct it as [n v|fl]; cbn [known_fields flat_map app] in Hk; fold (known_fields its) in Hk.
  - inversion Hk; subst. constructor; [assumption|apply IH; assumption].
  - constructor; [exact Hit|apply IH; exact Hk].
Qed.

(* (T2 general, the part that holds) permuted fields with unknown fields of every wire type in between: the reader answers
   the Go value of the message the proved reference decoder reads *)
Theorem read_any_refines_decode_unknowns S byname name md its fuel :
  names_hyp S byname -> find_msg S name = Some md ->
  wf_msg S name (known_fields its) = true -> sizes_ok (VMsg (known_fields its)) = true ->
  Forall (unk_ok md) its -> (depth (VMsg (known_fields its)) < fuel)%nat ->
  decode_msg S fuel name (wenc (items_wire its)) = Some (known_fields its) /\
  read_any_desc S false byname fuel LSingular (TMsg name) false (wenc (items_wire its))
  = Some (gtop S byname true name (known_fields its), []).
Proof.
  intros Hnm Em Hw Hz Hall Hd. split; [apply (decode_items S name md its fuel Em Hw Hall); lia|].
  destruct fuel as [|f]; [lia|]. unfold read_any_desc, read_any. unfold wf_msg in Hw.
  destruct (rfields_forall S f name md (known_fields its) Em Hw Hz Hd) as [Hk Hnd].
  cbn [read_base andb]. rewrite Em, take_all.
  rewrite (read_fields_items S byname (read_base S false byname f) f (read_base_ok S false byname Hnm f) md its
             (items_ok_all S f md its Hk Hall) Hnd) by lia.
  rewrite (build_msg_ok S byname Hnm f name md (known_fields its) Em Hk Hnd). unfold gtop.
  destruct (known_fields its); reflexivity.
Qed.
