(* More theorems about model/ProtoAny.v:
     write_any_top / read_any_top / read_write_any_top   T1-T3 for a LIST or MAP TypeDescriptor at the top
                                 (WriteAnyWithDesc / ReadAnyWithDesc called on the type of a repeated or map field);
     write_map_strkeys_same      a string-keyed map given as map[string]interface{} or as map[interface{}]interface{}
                                 with string keys is written to the same bytes, entry for entry;
     read_any_refines_decode_general_refuted   the reader does NOT read every valid wire input the way the proved
                                 reference decoder does: witnesses (a packed field arriving unpacked, an unpacked field
                                 arriving packed, a split run of a repeated field, a bool varint other than 0/1). *)
From Coq Require Import ZArith List Bool Lia Arith.
From DG Require Import CaseFormat ProtoWireRef ProtoWireRefProofs GoSem ProtoMsg ProtoMsgProofs ProtoSpecLen
  ProtoSpecLenProofs ProtoAny ProtoAnyProofs.
Import ListNotations.
Local Open Scope Z_scope.

Definition names_hyp (S : schema) (byname : bool) : Prop :=
  byname = true -> forall name md n fd, find_msg S name = Some md -> find_field md n = Some fd ->
  find_field_name md (fd_name fd) = Some fd.

(* ------------------------------------------------------------------ a LIST / MAP descriptor at the top *)
Theorem write_any_top S cast disallow byname junk n lbl t needlen v fuel :
  (9 <= length junk)%nat -> names_hyp S byname -> lbl <> LSingular ->
  1 <= n <= MAX_FIELD_NUMBER -> wf_fld S lbl t v = true -> strs_ok v = true -> sizes_ok v = true -> (depth v < fuel)%nat ->
  write_any_desc S cast disallow byname junk true fuel n lbl t needlen (gval_of S byname false t v)
  = (encode_msg [(n, v)], 0).
Proof.
  intros Hj Hnm Hl Hn Hw Hs Hz Hd. unfold write_any_desc, write_any, encode_msg, msg_wire. cbn [flat_map fst snd].
  rewrite app_nil_r.
  pose proof (write_base_ok S cast disallow byname junk Hj Hnm fuel) as Hrec.
  destruct lbl as [|p|kk]; [contradiction| |].
  - apply (write_list_ok S byname junk Hj _ fuel Hrec n p t v [] Hn Hw Hs Hz Hd).
  - apply (write_map_ok S byname junk Hj _ fuel Hrec n kk t v [] Hn Hw Hs Hz Hd).
Qed.

Theorem read_any_top S disallow byname n lbl t haslen v fuel :
  names_hyp S byname -> lbl <> LSingular ->
  1 <= n <= MAX_FIELD_NUMBER -> wf_fld S lbl t v = true -> sizes_ok v = true -> (depth v < fuel)%nat ->
  read_any_desc S disallow byname fuel lbl t haslen (encode_msg [(n, v)]) = Some (gval_of S byname true t v, []).
Proof.
  intros Hnm Hl Hn Hw Hz Hd. unfold read_any_desc, read_any, encode_msg, msg_wire. cbn [flat_map fst snd].
  rewrite app_nil_r.
  pose proof (read_base_ok S disallow byname Hnm fuel) as Hrec.
  rewrite <- (app_nil_r (wenc (wfld n v))).
  destruct lbl as [|p|kk]; [contradiction| |].
  - apply (read_list_ok S byname _ fuel Hrec n p t v [] Hn Hw Hz Hd). left. reflexivity.
  - apply (read_map_ok S byname _ fuel Hrec n kk t v [] Hn Hw Hz Hd). left. reflexivity.
Qed.

Theorem read_write_any_top S cast dis_w dis_r byname junk n lbl t nl hl v fuel :
  (9 <= length junk)%nat -> (byname = true -> names_okb S = true) -> lbl <> LSingular ->
  1 <= n <= MAX_FIELD_NUMBER -> wf_fld S lbl t v = true -> strs_ok v = true -> sizes_ok v = true -> (depth v < fuel)%nat ->
  exists bytes,
    write_any_desc S cast dis_w byname junk true fuel n lbl t nl (gval_of S byname false t v) = (bytes, 0) /\
    read_any_desc S dis_r byname fuel lbl t hl bytes = Some (gval_of S byname true t v, []) /\
    (no_empty v = true -> gval_of S byname true t v = gval_of S byname false t v).
Proof.
  intros Hj Hnm Hl Hn Hw Hs Hz Hd. exists (encode_msg [(n, v)]).
  assert (Hnames : names_hyp S byname) by (intros E; apply names_okb_sound; apply Hnm; exact E).
  split; [apply write_any_top; assumption|]. split; [apply read_any_top; assumption|].
  apply gval_of_no_empty.
Qed.

(* ------------------------------------------------------------------ map[string]interface{} = map[interface{}]interface{} with string keys *)
Lemma write_entries_strkeys_same S cast dis bn junk fx f n t es : forall b,
  write_entries junk (write_base S cast dis bn junk fx (Datatypes.S f)) n 9 t (fun k b' => (b' ++ str_bytes k, 0)) b es =
  write_entries junk (write_base S cast dis bn junk fx (Datatypes.S f)) n 9 t
                (fun k b' => write_base S cast dis bn junk fx (Datatypes.S f) (TScalar 9) true b' k) b
                (map (fun e => (GStr (fst e), snd e)) es).
Proof.
  induction es as [|[k v] es IH]; intros b; [reflexivity|].
  cbn [map write_entries fst snd].
  replace (write_entry junk (write_base S cast dis bn junk fx (Datatypes.S f)) n 9 t b
             (fun b' => write_base S cast dis bn junk fx (Datatypes.S f) (TScalar 9) true b' (GStr k)) v)
    with (write_entry junk (write_base S cast dis bn junk fx (Datatypes.S f)) n 9 t b (fun b' => (b' ++ str_bytes k, 0)) v)
    by reflexivity.
  unfold wbind. destruct (snd _ =? 0); [apply IH|reflexivity].
Qed.

Theorem write_map_strkeys_same S cast dis bn junk fx f n t b es :
  write_map junk (write_base S cast dis bn junk fx (Datatypes.S f)) n 9 t b (GMapS es) =
  write_map junk (write_base S cast dis bn junk fx (Datatypes.S f)) n 9 t b (GMapA (map (fun e => (GStr (fst e), snd e)) es)).
Proof. cbn [write_map]. apply write_entries_strkeys_same. Qed.

(* ------------------------------------------------------------------ the general statement is false: witnesses *)
(* M { repeated int32 l = 1 (packed); int32 a = 2; repeated string s = 3; repeated int32 u = 4 [packed = false]; bool b = 5 } *)
Definition rx_schema : schema :=
  [ mk_mdesc [77] [ mk_fdesc 1 [108] [108] (LRepeated true) (TScalar 5); mk_fdesc 2 [97] [97] LSingular (TScalar 5);
                    mk_fdesc 3 [115] [115] (LRepeated false) (TScalar 9); mk_fdesc 4 [117] [117] (LRepeated false) (TScalar 5);
                    mk_fdesc 5 [98] [98] LSingular (TScalar 8) ] ].
Definition rx_read (bs : list Z) := read_any_desc rx_schema false false 9 LSingular (TMsg [77]) false bs.

(* a field declared packed arrives unpacked (every protobuf parser must accept both spellings): the reader fails *)
Example refuted_packed_arrives_unpacked :
  decode_top rx_schema [77] [8; 1; 8; 2] = Some [(1, VList true [VScalar 5 1; VScalar 5 2])] /\ rx_read [8; 1; 8; 2] = None.
Proof. split; vm_compute; reflexivity. Qed.
(* a field declared [packed = false] arrives packed: the reader fails *)
Example refuted_unpacked_arrives_packed :
  decode_top rx_schema [77] [34; 2; 1; 2] = Some [(4, VList false [VScalar 5 1; VScalar 5 2])] /\ rx_read [34; 2; 1; 2] = None.
Proof. split; vm_compute; reflexivity. Qed.
(* the records of a repeated field are split by another field: the second run REPLACES the first *)
Example refuted_split_run :
  decode_top rx_schema [77] [26; 1; 97; 16; 5; 26; 1; 98] = Some [(3, VList false [VBytes 9 [97]; VBytes 9 [98]]); (2, VScalar 5 5)] /\
  rx_read [26; 1; 97; 16; 5; 26; 1; 98] = Some (GMsgN [(3, GList [GStr [98]]); (2, GInt GT_I32 5)], []).
Proof. split; vm_compute; reflexivity. Qed.
(* a bool written as a varint other than 0 / 1 (true for the reference): read as false *)
Example refuted_bool_varint :
  decode_top rx_schema [77] [40; 2] = Some [(5, VScalar 8 1)] /\ rx_read [40; 2] = Some (GMsgN [(5, GBool false)], []).
Proof. split; vm_compute; reflexivity. Qed.
(* agreement cases: a singular field written twice (last wins), an unknown field in between *)
Example agrees_last_wins_and_unknown :
  decode_top rx_schema [77] [16; 5; 72; 1; 16; 7; 10; 2; 1; 2] = Some [(2, VScalar 5 7); (1, VList true [VScalar 5 1; VScalar 5 2])] /\
  rx_read [16; 5; 72; 1; 16; 7; 10; 2; 1; 2] = Some (GMsgN [(2, GInt GT_I32 7); (1, GList [GInt GT_I32 1; GInt GT_I32 2])], []).
Proof. split; vm_compute; reflexivity. Qed.

Theorem read_any_refines_decode_general_refuted :
  ~ (forall S name bs m disallow byname fuel, decode_top S name bs = Some m -> (length bs < fuel)%nat ->
       read_any_desc S disallow byname fuel LSingular (TMsg name) false bs = Some (gtop S byname true name m, [])).
Proof.
  intros H. destruct refuted_packed_arrives_unpacked as [Hd Hr].
  specialize (H rx_schema [77] [8; 1; 8; 2] _ false false 9%nat Hd ltac:(cbn; lia)).
  unfold rx_read in Hr. rewrite Hr in H. discriminate H.
Qed.
