(* Correspondence check for C09 (conv/j2p: JSON -> Protobuf).
   Case 901 fields:  <schema (ProtoCase.parse_schema)>  n<disallow>  x<document>  n<status 0 ok | 1 error | 2 panic>
                     x<output bytes>  n<ref: 0 protobuf-go decodes the output to the message the document was printed from |
                                             1 protobuf-go rejects the output | 2 decodes to a different message | 3 not applicable>
                     n<class (generator class, evidence only)>
   Judging: the document is parsed by the proved JSON parser, [pdenote] gives the message it denotes, the output is
   decoded by the proved decoder [decode_top] and compared semantically, and byte-compared with [j2p_spec];
   error <-> model error.  A deviation is a KNOWN finding only if the implementation did exactly what the machine
   AS CODED ([j2p_machine], J2P.v) does on that document and the document contains the trigger of a recorded defect. *)
From Coq Require Import ZArith List Bool.
From DG Require Import CaseFormat ProtoWireRef ProtoMsg ProtoCase Json Num Base64 J2P.
Import ListNotations.
Local Open Scope Z_scope.

(* ---- triggers of the recorded defects, in document order (ids = findings/C09.json) *)
Definition F_NULL := 901.      (* null member / element: sp incremented, never popped *)
Definition F_EMPTY := 902.     (* {} or [] (or an object without a known member) for a message / repeated / map field *)
Definition F_MAPKEY := 903.    (* map key: ParseInt/ParseBool error ignored *)
Definition F_UINT64 := 904.    (* uint64 / fixed64 value >= 2^63 rejected *)
Definition F_KIND := 905.      (* JSON kind contradicting the field accepted silently or panics *)
Definition F_ENUM := 906.      (* enum fields rejected *)

Definition D_ROUND := 921.    (* not a finding: float32 double rounding, reported as drift 21 *)

Definition trig_scalar (k : Z) (v : json) : list Z :=
  match v with
  | JNull => [F_NULL]
  | _ =>
    if k =? 14 then match v with JNum _ | JStr _ => [F_ENUM] | _ => [F_KIND] end
    else if is_int_kind k then
      match v with
      | JNum lex =>
        if lex_is_plain_int lex && ((k =? 4) || (k =? 6)) then
          match parse_int lex with Some z => if (2 ^ 63 <=? z) && (z <? 2 ^ 64) then [F_UINT64] else [] | None => [] end
        else []
      | _ => [F_KIND]
      end
    else if k =? 2 then
      match v with
      | JNum lex =>
        (* float32(float64(lexeme)) differs from the correctly rounded float32: the statement leaves the rounding open *)
        match lex2f32 lex, scalar_payload 2 (EvNum lex) with
        | Some b, SBytes p => if bytes_eqb p (le_enc 4 b) then [] else [D_ROUND]
        | _, _ => []
        end
      | _ => [F_KIND]
      end
    else if k =? 1 then match v with JNum _ => [] | _ => [F_KIND] end
    else if k =? 8 then match v with JBool _ => [] | _ => [F_KIND] end
    else match v with JStr _ => [] | _ => [F_KIND] end
  end.

Definition trig_key (kk : Z) (s : list Z) : list Z :=
  if kk =? 9 then []
  else if kk =? 8 then (if bytes_eqb s lit_true || bytes_eqb s lit_false then [] else [F_MAPKEY])
  else if (kk =? 5) || (kk =? 3) || (kk =? 13) || (kk =? 4) then
    match parse_int s with
    | Some z => if bytes_eqb (fmt_int z) s && in_sb (if (kk =? 5) || (kk =? 13) then 32 else 64) z then [] else [F_MAPKEY]
    | None => [F_MAPKEY]
    end
  else [].

Section Trig.
  Variable S : schema.
  Section Level.
    Variable rec : mdesc -> list (list Z * json) -> list Z.
    Definition trig_single (t : ftype) (v : json) : list Z :=
      match t with
      | TScalar k => trig_scalar k v
      | TMsg name =>
        match v with
        | JNull => [F_NULL]
        | JObj ms =>
          match find_msg S name with
          | Some md => (if has_known md ms then [] else [F_EMPTY]) ++ rec md ms
          | None => []
          end
        | _ => [F_KIND]
        end
      end.
    Definition trig_field (fd : fdesc) (v : json) : list Z :=
      match fd_label fd with
      | LSingular => trig_single (fd_type fd) v
      | LRepeated _ =>
        match v with
        | JArr [] => [F_EMPTY]
        | JArr xs => flat_map (trig_single (fd_type fd)) xs
        | _ => [F_KIND]
        end
      | LMap kk =>
        match v with
        | JObj [] => [F_EMPTY]
        | JObj ms => flat_map (fun m => trig_key kk (fst m) ++ trig_single (fd_type fd) (snd m)) ms
        | _ => [F_KIND]
        end
      end.
    Definition trig_members (md : mdesc) (ms : list (list Z * json)) : list Z :=
      flat_map (fun m => match find_field_name md (fst m) with
                         | None => []
                         | Some fd => if json_is_null (snd m) then [F_NULL] else trig_field fd (snd m)
                         end) ms.
  End Level.
  Fixpoint triggers (fuel : nat) (md : mdesc) (ms : list (list Z * json)) : list Z :=
    match fuel with O => [] | Datatypes.S f => trig_members (triggers f) md ms end.
End Trig.

Definition doc_triggers (S : schema) (root : list Z) (j : json) : list Z :=
  match find_msg S root with
  | None => []
  | Some md => match j with JObj ms => triggers S (json_depth j) md ms | _ => [F_KIND] end
  end.

(* implementation outcome = outcome of the machine as coded *)
Definition same_outcome (status : Z) (out : list Z) (m : outcome) : bool :=
  match m with
  | OOk b => (status =? 0) && bytes_eqb out b
  | OErr => status =? 1
  | OPanic => status =? 2
  | OUnmod => false
  end.

Definition outcome_fields (m : outcome) : list field :=
  match m with OOk b => [FZ 0; FB b] | OErr => [FZ 1] | OPanic => [FZ 2] | OUnmod => [FZ 3] end.
Definition res_fields (r : res (list Z)) : list field :=
  match r with ROk b => [FZ 0; FB b] | RErr => [FZ 1] | RUndef => [FZ 4] end.

(* a deviation from the specification; the only tolerated one is the float32 double rounding (reported as drift 21)
   when the implementation did exactly what the model of the code does *)
Definition deviation (code : Z) (status : Z) (out : list Z) (mach : outcome) (trig : list Z) (spec : res (list Z)) : verdict :=
  if same_outcome status out mach then
    if existsb (fun id => id =? D_ROUND) trig then VDrift 21
    else VBad code (res_fields spec ++ outcome_fields mach)
  else VBad (code + 100) (res_fields spec ++ outcome_fields mach).

Definition check_901 (fs : list field) : verdict :=
  match parse_schema fs with
  | Some (root, sc, FZ dis :: FB doc :: FZ status :: FB out :: FZ refst :: FZ _ :: nil) =>
    let disallow := negb (dis =? 0) in
    (* whatever the class of the document: an output returned with a nil error must be a well-formed message of the schema
       for the proved decoder (a key tag followed directly by the value, a stale length, a raw varint ... are caught here) *)
    if (status =? 0) && match decode_top sc root out with Some _ => false | None => true end then VBad 30 [FB out] else
    match json_parse doc with
    | None =>
      (* not one JSON document (trailing text, syntax error): outside the property; a panic is still reported *)
      if status =? 2 then VBad 20 [] else if status =? 0 then VDrift 9 else VSkip
    | Some j =>
      let spec := pdenote disallow sc root j in
      let specb := res_bind spec (fun m => ROk (encode_msg m)) in
      let mach := j2p_machine disallow sc root j in
      let trig := doc_triggers sc root j in
      let fits := Nat.leb (frames_needed sc root j) 256 in
      (* self-check of the model against its theorems (sax_refines_spec, sax_error_sound): on the strict domain the machine
         yields the specified bytes / fails where the specification fails; beyond 256 frames it fails with the max-depth error *)
      let consistent :=
        match denote_top true disallow sc root j with
        | ROk m =>
          match mach with
          | OOk b => fits && bytes_eqb b (encode_msg m) && match spec with ROk m' => bytes_eqb (encode_msg m') b | _ => false end
          | OErr => negb fits
          | _ => false
          end
        | RErr => match mach with OErr => true | _ => false end
        | RUndef => true
        end in
      if negb consistent then VBad 90 (res_fields specb ++ outcome_fields mach) else
      match spec with
      | ROk m =>
        if status =? 0 then
          match decode_top sc root out with
          | Some m' =>
            if pval_eqv (VMsg m) (VMsg m') then
              if (refst =? 1) || (refst =? 2) then VBad 3 [FZ refst]        (* protobuf-go disagrees with the model's judgement *)
              else if bytes_eqb out (encode_msg m) then VOk else VDrift 1   (* same message, other (valid) spelling *)
            else deviation 1 status out mach trig specb
          | None => deviation 2 status out mach trig specb
          end
        else if (status =? 1) && negb fits then VSkip      (* beyond the converter's 256-frame stack: the max-depth error is the specified outcome *)
        else deviation 4 status out mach trig specb
      | RErr =>
        if status =? 1 then VOk else deviation 5 status out mach trig specb
      | RUndef =>
        (* outside the property (documented quirks: wrapped integers, null elements, duplicates, ...): nothing is demanded of
           the converter, but it must do what the model of the code does (the quirk witnesses of Properties_C09 are replayed here) *)
        if status =? 2 then deviation 6 status out mach trig specb
        else if same_outcome status out mach then VSkip
        else match mach with OUnmod => VDrift 2 | _ => VBad 107 (res_fields specb ++ outcome_fields mach) end
      end
    end
  | _ => VBad 99 []
  end.
