(* C15 — the traversal of proto/idl.go:parse/parseMessage as coded after b3482e7 (memo keyed by the
   FULLY-QUALIFIED name) and 80a31e9 ([packed = false] honoured), with the memo table threaded through:
   [parse_service] = PIdl.qmethods/qparse instantiated with [key_full], fuel = schema size + 1.
   The output is a concrete descriptor graph (node = one *MessageDescriptor, numbered in creation order).
   coq/proofs/PIdlParseProofs.v proves that this graph IS pelab's table (parse_refines_pelab). No proofs here. *)
From Coq Require Import ZArith List Bool.
From DG Require Import CaseFormat PIdl.
Import ListNotations.
Local Open Scope Z_scope.

(* one unit of fuel per message declaration (+1): each memo miss tags one more declared name for the current target *)
Definition parse_fuel (s : schema) : nat := S (length (msg_table s)).

(* per selected method, in declaration order: (method, request node, response node); and the final memo + nodes *)
Definition parse_service (mode : Z) (s : schema) : list (pmethod * Z * Z) * qstate :=
  let d := pelab mode s in
  qmethods key_full (pd_msgs d) (parse_fuel s) (pd_methods d).

(* ---- relation between a declared (specification) field and a field of a concrete graph ------------- *)

(* node j exists and was built from the declaration named q *)
Definition named (nodes : list (qname * list (mfield Z))) (j : Z) (q : qname) : Prop :=
  0 <= j /\ exists fs, nth_error nodes (Z.to_nat j) = Some (q, fs).

Definition ref_ok (nodes : list (qname * list (mfield Z))) (a : option qname) (b : option Z) : Prop :=
  match a, b with
  | Some q, Some j => named nodes j q
  | None, None => True
  | _, _ => False
  end.

(* g is f (number, name, JSON name, kind, type, list, map, packed, key / element type) with every message
   reference replaced by a node built from the declaration of that FULL name *)
Definition frel (nodes : list (qname * list (mfield Z))) (f : mfield qname) (g : mfield Z) : Prop :=
  g = conv_field f (mf_tmsg g) (mf_emsg g) /\
  ref_ok nodes (mf_tmsg f) (mf_tmsg g) /\ ref_ok nodes (mf_emsg f) (mf_emsg g).

(* node (nm, fs) carries exactly the elaborated field list of declaration nm *)
Definition node_done (tbl : msgtab) (nodes : list (qname * list (mfield Z))) (nm : qname) (fs : list (mfield Z)) : Prop :=
  exists mfs, lookup_msg tbl nm = Some mfs /\ Forall2 (frel nodes) mfs fs.
